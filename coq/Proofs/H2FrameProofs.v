(* Proofs/H2FrameProofs.v - HTTP/2 framing (RFC 7540 §4, §6) as implemented by internal/http2/frame.go *)
From Coq Require Import Lia ZifyBool ZifyNat ZifyN.
From ReqV Require Import Lib.Bytes Lib.BytesFacts Lib.BigEndian Proofs.BigEndianFacts Model.H2Frame.
Open Scope N_scope.

Ltac Zify.zify_post_hook ::= Z.div_mod_to_equations.

(* ---------- lists ---------- *)
Lemma firstn_app_len {A} n (a b : list A) : length a = n -> firstn n (a ++ b) = a.
Proof. intros <-. apply firstn_app_exact. Qed.
Lemma skipn_app_len {A} n (a b : list A) : length a = n -> skipn n (a ++ b) = b.
Proof. intros <-. apply skipn_app_exact. Qed.
Lemma lenN_app a b : lenN (a ++ b) = lenN a + lenN b.
Proof. unfold lenN. rewrite app_length. lia. Qed.
Lemma lenN_cons x a : lenN (x :: a) = 1 + lenN a.
Proof. unfold lenN. cbn [length]. lia. Qed.
Lemma lenN_nil : lenN [] = 0. Proof. reflexivity. Qed.
Lemma lenN_be_enc k n : lenN (be_enc k n) = N.of_nat k.
Proof. unfold lenN. rewrite length_be_enc. reflexivity. Qed.
Lemma lenN_repeat x n : lenN (repeat x n) = N.of_nat n.
Proof. unfold lenN. rewrite repeat_length. reflexivity. Qed.
Lemma drop_tail_app a b n : lenN b = n -> drop_tail (a ++ b) n = a.
Proof.
  intros <-. unfold drop_tail, lenN. rewrite Nat2N.id, app_length.
  replace (length a + length b - length b)%nat with (length a) by lia. apply firstn_app_exact.
Qed.
Lemma drop_tail_0 a : drop_tail a 0 = a.
Proof. unfold drop_tail. change (N.to_nat 0) with 0%nat. rewrite Nat.sub_0_r. apply firstn_all. Qed.

(* ---------- masks ---------- *)
Lemma mask31_mod v : mask31 v = v mod 2147483648.
Proof. unfold mask31. change 2147483647 with (N.ones 31). rewrite N.land_ones. reflexivity. Qed.

Lemma land_pow2 v n : N.land v (2 ^ n) = if N.testbit v n then 2 ^ n else 0.
Proof.
  apply N.bits_inj. intro i. rewrite N.land_spec, N.pow2_bits_eqb.
  destruct (N.eqb_spec n i) as [<-|Ne].
  - rewrite andb_true_r. destruct (N.testbit v n) eqn:T; [rewrite N.pow2_bits_true | rewrite N.bits_0]; reflexivity.
  - rewrite andb_false_r. destruct (N.testbit v n); [rewrite N.pow2_bits_false by exact Ne | rewrite N.bits_0]; reflexivity.
Qed.

Lemma testbit31 v : v < 4294967296 -> N.testbit v 31 = (2147483648 <=? v).
Proof.
  intro H. destruct (N.leb_spec 2147483648 v) as [C|C].
  - apply N.testbit_true. change (2 ^ 31) with 2147483648. lia.
  - apply N.testbit_false. change (2 ^ 31) with 2147483648. lia.
Qed.

Lemma bit31_spec v : v < 4294967296 -> bit31 v = (2147483648 <=? v).
Proof.
  intro H. unfold bit31. change 2147483648 with (2 ^ 31) at 1. rewrite land_pow2, testbit31 by exact H.
  destruct (2147483648 <=? v); reflexivity.
Qed.

Lemma lor_bit31 v : v < 2147483648 -> N.lor v 2147483648 = v + 2147483648.
Proof.
  intro H.
  assert (Z : N.land v 2147483648 = 0).
  { change 2147483648 with (2 ^ 31). rewrite land_pow2, testbit31 by lia.
    destruct (N.leb_spec 2147483648 v); [lia | reflexivity]. }
  rewrite <- N.lxor_lor by exact Z. symmetry. apply N.add_nocarry_lxor. exact Z.
Qed.

(* ---------- header ---------- *)
Lemma header_bytes_shape len ty fl sid :
  h2_header_bytes len ty fl sid =
  [u8 (N.shiftr len 16); u8 (N.shiftr len 8); u8 (N.shiftr len 0); u8 ty; u8 fl;
   u8 (N.shiftr sid 24); u8 (N.shiftr sid 16); u8 (N.shiftr sid 8); u8 (N.shiftr sid 0)].
Proof. reflexivity. Qed.

Theorem h2_header_roundtrip len ty fl sid :
  len < 2 ^ 24 -> ty < 256 -> fl < 256 -> sid < 2 ^ 32 ->
  length (h2_header_bytes len ty fl sid) = 9%nat /\
  h2_read_header (h2_header_bytes len ty fl sid) = mkh len ty fl (sid mod 2 ^ 31).
Proof.
  intros Hl Ht Hf Hs. split; [reflexivity|].
  unfold h2_read_header, h2_header_bytes.
  rewrite (firstn_app_len 3) by apply length_be_enc.
  replace (skipn 5 (be_enc 3 len ++ [u8 ty; u8 fl] ++ be_enc 4 sid)) with (be_enc 4 sid) by reflexivity.
  rewrite (firstn_all2 (n := 4)) by (rewrite length_be_enc; lia).
  rewrite !be_dec_enc_small by assumption.
  replace (nthN (be_enc 3 len ++ [u8 ty; u8 fl] ++ be_enc 4 sid) 3) with (bN (u8 ty)) by reflexivity.
  replace (nthN (be_enc 3 len ++ [u8 ty; u8 fl] ++ be_enc 4 sid) 4) with (bN (u8 fl)) by reflexivity.
  rewrite !bN_u8, !N.mod_small by lia. rewrite mask31_mod. reflexivity.
Qed.

(* ---------- ReadFrame on header ++ payload ++ rest ---------- *)
Definition after_parse (st : rstate) (h : fhdr) (p rest : bytes) : res frame * bytes * rstate :=
  match parse_frame h p with
  | Err e => (Err e, rest, st)
  | Ok f =>
      match check_order (rs_last st) h with
      | None => (Err (EConn ErrCodeProtocol), rest, st)
      | Some l => (Ok f, rest, {| rs_last := l; rs_max := rs_max st |})
      end
  end.

Lemma read_frame_framed st hb p rest :
  length hb = 9%nat -> fh_len (h2_read_header hb) = lenN p -> lenN p <= rs_max st ->
  read_frame st (hb ++ p ++ rest) = after_parse st (h2_read_header hb) p rest.
Proof.
  intros L9 Hlen Hmax.
  destruct hb as [|b0 [|b1 [|b2 [|b3 [|b4 [|b5 [|b6 [|b7 [|b8 [|b9 hb]]]]]]]]]]; try discriminate L9.
  unfold read_frame. cbn [app].
  destruct (N.ltb_spec (lenN (b0 :: b1 :: b2 :: b3 :: b4 :: b5 :: b6 :: b7 :: b8 :: p ++ rest)) frameHeaderLen) as [C|C].
  { unfold lenN, frameHeaderLen in C. cbn [length] in C. lia. }
  cbn [firstn skipn]. rewrite Hlen.
  destruct (N.ltb_spec (rs_max st) (lenN p)); [lia|].
  destruct (N.ltb_spec (lenN (p ++ rest)) (lenN p)) as [C2|C2]; [rewrite lenN_app in C2; lia|].
  assert (F1 : firstn (N.to_nat (lenN p)) (p ++ rest) = p) by (unfold lenN; rewrite Nat2N.id; apply firstn_app_exact).
  assert (S1 : skipn (N.to_nat (lenN p)) (p ++ rest) = rest) by (unfold lenN; rewrite Nat2N.id; apply skipn_app_exact).
  rewrite F1, S1. reflexivity.
Qed.

Lemma end_write_read ty fl sid p b st rest :
  end_write ty fl sid p = WOk b -> ty < 256 -> fl < 256 -> sid < 2 ^ 32 -> lenN p <= rs_max st ->
  b = h2_header_bytes (lenN p) ty fl sid ++ p /\ lenN p < 2 ^ 24 /\
  read_frame st (b ++ rest) = after_parse st (mkh (lenN p) ty fl (sid mod 2 ^ 31)) p rest.
Proof.
  unfold end_write. intros E Ht Hf Hs Hm.
  destruct (N.leb_spec 16777216 (lenN p)) as [C|C]; [discriminate|].
  assert (Eb : b = h2_header_bytes (lenN p) ty fl sid ++ p) by congruence. clear E. subst b.
  change (2 ^ 24) with 16777216.
  split; [reflexivity|]. split; [exact C|].
  destruct (h2_header_roundtrip (lenN p) ty fl sid) as [L9 R]; try assumption.
  rewrite <- app_assoc. rewrite read_frame_framed.
  - rewrite R. reflexivity.
  - exact L9.
  - rewrite R. reflexivity.
  - exact Hm.
Qed.

(* ---------- dispatch ---------- *)
Lemma parse_frame_data h p : fh_type h = FrameData -> parse_frame h p = parse_data h p.
Proof. intro E. unfold parse_frame. rewrite E. reflexivity. Qed.
Lemma parse_frame_headers h p : fh_type h = FrameHeaders -> parse_frame h p = parse_headers h p.
Proof. intro E. unfold parse_frame. rewrite E. reflexivity. Qed.
Lemma parse_frame_priority h p : fh_type h = FramePriority -> parse_frame h p = parse_priority h p.
Proof. intro E. unfold parse_frame. rewrite E. reflexivity. Qed.
Lemma parse_frame_rst h p : fh_type h = FrameRSTStream -> parse_frame h p = parse_rst h p.
Proof. intro E. unfold parse_frame. rewrite E. reflexivity. Qed.
Lemma parse_frame_settings h p : fh_type h = FrameSettings -> parse_frame h p = parse_settings h p.
Proof. intro E. unfold parse_frame. rewrite E. reflexivity. Qed.
Lemma parse_frame_push_promise h p : fh_type h = FramePushPromise -> parse_frame h p = parse_push_promise h p.
Proof. intro E. unfold parse_frame. rewrite E. reflexivity. Qed.
Lemma parse_frame_ping h p : fh_type h = FramePing -> parse_frame h p = parse_ping h p.
Proof. intro E. unfold parse_frame. rewrite E. reflexivity. Qed.
Lemma parse_frame_goaway h p : fh_type h = FrameGoAway -> parse_frame h p = parse_goaway h p.
Proof. intro E. unfold parse_frame. rewrite E. reflexivity. Qed.
Lemma parse_frame_window_update h p : fh_type h = FrameWindowUpdate -> parse_frame h p = parse_window_update h p.
Proof. intro E. unfold parse_frame. rewrite E. reflexivity. Qed.
Lemma parse_frame_continuation h p : fh_type h = FrameContinuation -> parse_frame h p = parse_continuation h p.
Proof. intro E. unfold parse_frame. rewrite E. reflexivity. Qed.
Lemma parse_frame_unknown h p : 10 <= fh_type h -> parse_frame h p = Ok (FUnknown h p).
Proof.
  intro E. unfold parse_frame.
  repeat match goal with |- context [?a =? ?b] => destruct (N.eqb_spec a b) as [X|_];
    [exfalso; rewrite X in E; vm_compute in E; apply E; reflexivity|] end.
  reflexivity.
Qed.

(* ---------- stream-id validity ---------- *)
Lemma valid_sid_spec s : s < 2 ^ 32 -> valid_sid s = true -> 0 < s /\ s < 2147483648 /\ s mod 2 ^ 31 = s.
Proof.
  intros H V. unfold valid_sid in V. change (2 ^ 32) with 4294967296 in H. rewrite bit31_spec in V by exact H.
  destruct (N.eqb_spec s 0); [discriminate|]. destruct (N.leb_spec 2147483648 s); [discriminate|].
  change (2 ^ 31) with 2147483648. rewrite N.mod_small by lia. lia.
Qed.
Lemma valid_sid_or_zero_spec s : s < 2 ^ 32 -> valid_sid_or_zero s = true -> s < 2147483648.
Proof.
  intros H V. unfold valid_sid_or_zero in V. change (2 ^ 32) with 4294967296 in H. rewrite bit31_spec in V by exact H.
  destruct (N.leb_spec 2147483648 s); [discriminate | assumption].
Qed.

Lemma read_byte_cons b r : read_byte (b :: r) = Some (r, bN b).
Proof. reflexivity. Qed.
Lemma read_u32_enc v r : v < 2 ^ 32 -> read_u32 (be_enc 4 v ++ r) = Some (r, v).
Proof.
  intro H. unfold read_u32. rewrite lenN_app, lenN_be_enc.
  destruct (N.ltb_spec (N.of_nat 4 + lenN r) 4); [lia|].
  rewrite (firstn_app_len 4), (skipn_app_len 4) by apply length_be_enc.
  rewrite be_dec_enc_small by exact H. reflexivity.
Qed.

(* ---------- round trips: ReadFrame (Write* args) = the frame described by the args ---------- *)
Definition after_ok (st : rstate) (f : frame) (rest : bytes) : res frame * bytes * rstate :=
  match check_order (rs_last st) (frame_hdr f) with
  | Some l => (Ok f, rest, {| rs_last := l; rs_max := rs_max st |})
  | None => (Err (EConn ErrCodeProtocol), rest, st)
  end.

Lemma after_parse_ok st h p rest f : parse_frame h p = Ok f -> frame_hdr f = h ->
  after_parse st h p rest = after_ok st f rest.
Proof. intros P H. unfold after_parse, after_ok. rewrite P, H. reflexivity. Qed.

Lemma written_len_eq c l t f s p : run_wcall c = WOk (h2_header_bytes l t f s ++ p) -> written_len c = lenN p.
Proof.
  intro E. unfold written_len. rewrite E. rewrite lenN_app.
  replace (lenN (h2_header_bytes l t f s)) with 9 by reflexivity. lia.
Qed.

(* generic step: a writer that ends in end_write and whose payload parses to the expected frame *)
Lemma rt_step c ty fl sid p b st rest :
  run_wcall c = end_write ty fl sid p -> run_wcall c = WOk b ->
  ty < 256 -> fl < 256 -> sid < 2 ^ 32 -> lenN b - 9 <= rs_max st ->
  (written_len c = lenN p -> lenN p < 2 ^ 24 ->
   parse_frame (mkh (lenN p) ty fl (sid mod 2 ^ 31)) p = Ok (expected_frame c) /\
   frame_hdr (expected_frame c) = mkh (lenN p) ty fl (sid mod 2 ^ 31)) ->
  read_frame st (b ++ rest) = after_ok st (expected_frame c) rest.
Proof.
  intros E W Ht Hf Hs Hm P. rewrite E in W.
  assert (Lb : lenN b - 9 = lenN p).
  { unfold end_write in W. destruct (16777216 <=? lenN p); [discriminate|].
    assert (b = h2_header_bytes (lenN p) ty fl sid ++ p) by congruence. subst b.
    rewrite lenN_app. replace (lenN (h2_header_bytes (lenN p) ty fl sid)) with 9 by reflexivity. lia. }
  rewrite Lb in Hm.
  destruct (end_write_read ty fl sid p b st rest W Ht Hf Hs Hm) as (Eb & Hl & R).
  rewrite R. destruct P as [P1 P2].
  - apply (written_len_eq c (lenN p) ty fl sid p). rewrite E, W, Eb. reflexivity.
  - exact Hl.
  - apply after_parse_ok; assumption.
Qed.

Ltac flag_cases := repeat match goal with b : bool |- _ => destruct b end.

Lemma rt_data sid es d pad b st rest :
  sid < 2 ^ 32 -> run_wcall (WData false sid es d pad) = WOk b -> lenN b - 9 <= rs_max st ->
  read_frame st (b ++ rest) = after_ok st (expected_frame (WData false sid es d pad)) rest.
Proof.
  intros Hs W Hm. pose proof W as W0. cbn [run_wcall] in W0. unfold write_data in W0.
  destruct (valid_sid sid) eqn:V; [|discriminate]. cbn [negb andb] in W0.
  destruct (valid_sid_spec sid Hs V) as (S0 & S1 & S2).
  set (padb := match pad with Some p => p | None => [] end) in *.
  destruct ((0 <? lenN padb) && (255 <? lenN padb)) eqn:C1; [discriminate|].
  rewrite andb_true_r in W0.
  destruct ((0 <? lenN padb) && negb (forallb (fun b => bN b =? 0) padb)) eqn:C2; [discriminate|].
  assert (Hp : lenN padb <= 255) by lia.
  eapply rt_step; try eassumption.
  - cbn [run_wcall]. unfold write_data. rewrite V. cbn [negb andb]. fold padb. rewrite C1, andb_true_r, C2. reflexivity.
  - reflexivity.
  - destruct es, pad; vm_compute; reflexivity.
  - intros L _. cbn [expected_frame]. rewrite L. rewrite S2. unfold r31. change 2147483648 with (2 ^ 31). rewrite S2.
    split; [|reflexivity].
    rewrite parse_frame_data by reflexivity. unfold parse_data. cbn [fh_sid fh_flags mkh].
    destruct (N.eqb_spec sid 0); [lia|].
    destruct pad as [pb|]; subst padb.
    + replace (has_flag _ FlagDataPadded) with true by (destruct es; reflexivity).
      cbn [app]. rewrite read_byte_cons. rewrite bN_u8, N.mod_small by lia.
      destruct (N.ltb_spec (lenN (d ++ pb)) (lenN pb)) as [C|C]; [rewrite lenN_app in C; lia|].
      rewrite drop_tail_app by reflexivity. reflexivity.
    + replace (has_flag _ FlagDataPadded) with false by (destruct es; reflexivity).
      cbn [app]. rewrite app_nil_r. destruct (N.ltb_spec (lenN d) 0); [lia|].
      rewrite drop_tail_0. reflexivity.
Qed.

Lemma firstn4_enc v r : firstn 4 (be_enc 4 v ++ r) = be_enc 4 v.
Proof. apply firstn_app_len, length_be_enc. Qed.
Lemma skipn4_enc v r : skipn 4 (be_enc 4 v ++ r) = r.
Proof. apply skipn_app_len, length_be_enc. Qed.
Lemma r31_small s : s < 2147483648 -> r31 s = s.
Proof. intro H. unfold r31. apply N.mod_small. exact H. Qed.

Lemma rt_rst sid code b st rest :
  sid < 2 ^ 32 -> code < 2 ^ 32 -> run_wcall (WRst false sid code) = WOk b -> lenN b - 9 <= rs_max st ->
  read_frame st (b ++ rest) = after_ok st (expected_frame (WRst false sid code)) rest.
Proof.
  intros Hs Hc W Hm. pose proof W as W0. cbn [run_wcall] in W0. unfold write_rst in W0.
  destruct (valid_sid sid) eqn:V; [|discriminate]. cbn [negb andb] in W0.
  destruct (valid_sid_spec sid Hs V) as (S0 & S1 & S2).
  eapply (rt_step _ FrameRSTStream 0 sid (be_enc 4 code)); try eassumption.
  - cbn [run_wcall]. unfold write_rst. rewrite V. reflexivity.
  - reflexivity.
  - reflexivity.
  - intros L _. cbn [expected_frame]. rewrite L, S2, r31_small by exact S1. split; [|reflexivity].
    rewrite parse_frame_rst by reflexivity. unfold parse_rst. cbn [fh_sid mkh].
    rewrite lenN_be_enc. cbn [N.of_nat Pos.of_succ_nat Pos.succ N.eqb Pos.eqb negb].
    destruct (N.eqb_spec sid 0); [lia|].
    rewrite (firstn_all2 (n := 4)) by (rewrite length_be_enc; lia).
    rewrite be_dec_enc_small by exact Hc. reflexivity.
Qed.

Lemma rt_ping ack d b st rest :
  length d = 8%nat -> run_wcall (WPing ack d) = WOk b -> lenN b - 9 <= rs_max st ->
  read_frame st (b ++ rest) = after_ok st (expected_frame (WPing ack d)) rest.
Proof.
  intros Hd W Hm.
  eapply (rt_step _ FramePing (bflag ack FlagPingAck) 0 d); try eassumption.
  - reflexivity.
  - reflexivity.
  - destruct ack; reflexivity.
  - reflexivity.
  - intros L _. cbn [expected_frame]. rewrite L. split; [|reflexivity].
    rewrite parse_frame_ping by reflexivity. unfold parse_ping. cbn [fh_sid mkh].
    unfold lenN. rewrite Hd. reflexivity.
Qed.

Lemma rt_goaway last code dbg b st rest :
  last < 2 ^ 32 -> code < 2 ^ 32 -> run_wcall (WGoAway last code dbg) = WOk b -> lenN b - 9 <= rs_max st ->
  read_frame st (b ++ rest) = after_ok st (expected_frame (WGoAway last code dbg)) rest.
Proof.
  intros Hl Hc W Hm.
  eapply (rt_step _ FrameGoAway 0 0 (be_enc 4 (mask31 last) ++ be_enc 4 code ++ dbg)); try eassumption.
  - reflexivity.
  - reflexivity.
  - reflexivity.
  - reflexivity.
  - intros L _. cbn [expected_frame]. rewrite L. split; [|reflexivity].
    rewrite parse_frame_goaway by reflexivity. unfold parse_goaway. cbn [fh_sid mkh].
    change (negb (0 mod 2 ^ 31 =? 0)) with false. cbv iota.
    destruct (N.ltb_spec (lenN (be_enc 4 (mask31 last) ++ be_enc 4 code ++ dbg)) 8) as [C|C].
    { rewrite !lenN_app, !lenN_be_enc in C. lia. }
    assert (M : mask31 last < 2 ^ 32).
    { rewrite mask31_mod. change (2 ^ 32) with 4294967296. lia. }
    replace (skipn 8 (be_enc 4 (mask31 last) ++ be_enc 4 code ++ dbg)) with dbg
      by (rewrite app_assoc; symmetry; apply skipn_app_len; rewrite app_length, !length_be_enc; reflexivity).
    rewrite firstn4_enc, skipn4_enc, firstn4_enc.
    rewrite !be_dec_enc_small by assumption.
    rewrite !mask31_mod. unfold r31. rewrite N.mod_mod by lia. reflexivity.
Qed.

Lemma rt_window_update sid incr b st rest :
  sid < 2 ^ 32 -> run_wcall (WWindowUpdate false sid incr) = WOk b -> lenN b - 9 <= rs_max st ->
  read_frame st (b ++ rest) = after_ok st (expected_frame (WWindowUpdate false sid incr)) rest.
Proof.
  intros Hs W Hm. pose proof W as W0. cbn [run_wcall] in W0. unfold write_window_update in W0.
  destruct (((incr <? 1) || (2147483647 <? incr)) && negb false) eqn:C; [discriminate|].
  assert (Hi : 1 <= incr <= 2147483647) by lia.
  eapply (rt_step _ FrameWindowUpdate 0 sid (be_enc 4 incr)); try eassumption.
  - cbn [run_wcall]. unfold write_window_update. rewrite C. reflexivity.
  - reflexivity.
  - reflexivity.
  - intros L _. cbn [expected_frame]. rewrite L. split; [|reflexivity].
    rewrite parse_frame_window_update by reflexivity. unfold parse_window_update. cbn [fh_sid mkh].
    rewrite lenN_be_enc. cbn [N.of_nat Pos.of_succ_nat Pos.succ N.eqb Pos.eqb negb].
    rewrite (firstn_all2 (n := 4)) by (rewrite length_be_enc; lia).
    rewrite be_dec_enc_small by (change (2 ^ 32) with 4294967296; lia).
    rewrite mask31_mod, N.mod_small by lia.
    destruct (N.eqb_spec incr 0); [lia|]. reflexivity.
Qed.

Lemma rt_continuation sid eh frag b st rest :
  sid < 2 ^ 32 -> run_wcall (WContinuation false sid eh frag) = WOk b -> lenN b - 9 <= rs_max st ->
  read_frame st (b ++ rest) = after_ok st (expected_frame (WContinuation false sid eh frag)) rest.
Proof.
  intros Hs W Hm. pose proof W as W0. cbn [run_wcall] in W0. unfold write_continuation in W0.
  destruct (valid_sid sid) eqn:V; [|discriminate]. cbn [negb andb] in W0.
  destruct (valid_sid_spec sid Hs V) as (S0 & S1 & S2).
  eapply (rt_step _ FrameContinuation (bflag eh FlagContinuationEndHeaders) sid frag); try eassumption.
  - cbn [run_wcall]. unfold write_continuation. rewrite V. reflexivity.
  - reflexivity.
  - destruct eh; reflexivity.
  - intros L _. cbn [expected_frame]. rewrite L, S2, r31_small by exact S1. split; [|reflexivity].
    rewrite parse_frame_continuation by reflexivity. unfold parse_continuation. cbn [fh_sid mkh].
    destruct (N.eqb_spec sid 0); [lia|]. reflexivity.
Qed.

Lemma prio_bytes_parse pr r : p_dep pr < 2147483648 -> p_weight pr < 256 ->
  exists v, prio_bytes pr ++ r = be_enc 4 v ++ u8 (p_weight pr) :: r /\ v < 2 ^ 32 /\
            mask31 v = p_dep pr /\ negb (v =? p_dep pr) = p_excl pr.
Proof.
  intros Hd Hw. unfold prio_bytes. destruct (p_excl pr) eqn:E.
  - exists (p_dep pr + 2147483648). rewrite lor_bit31 by exact Hd. rewrite <- app_assoc.
    split; [reflexivity|]. change (2 ^ 32) with 4294967296. split; [lia|].
    rewrite mask31_mod. split; [lia|]. destruct (N.eqb_spec (p_dep pr + 2147483648) (p_dep pr)); [lia | reflexivity].
  - exists (p_dep pr). rewrite <- app_assoc. split; [reflexivity|]. change (2 ^ 32) with 4294967296. split; [lia|].
    rewrite mask31_mod. split; [apply N.mod_small; exact Hd|]. rewrite N.eqb_refl. reflexivity.
Qed.

Lemma rt_priority sid pr b st rest :
  sid < 2 ^ 32 -> p_dep pr < 2 ^ 32 -> p_weight pr < 256 ->
  run_wcall (WPriority false sid pr) = WOk b -> lenN b - 9 <= rs_max st ->
  read_frame st (b ++ rest) = after_ok st (expected_frame (WPriority false sid pr)) rest.
Proof.
  intros Hs Hd Hw W Hm. pose proof W as W0. cbn [run_wcall] in W0. unfold write_priority in W0.
  destruct (valid_sid sid) eqn:V; [|discriminate]. cbn [negb andb] in W0.
  destruct (valid_sid_or_zero (p_dep pr)) eqn:V2; [|discriminate]. cbn [negb] in W0.
  destruct (valid_sid_spec sid Hs V) as (S0 & S1 & S2).
  pose proof (valid_sid_or_zero_spec _ Hd V2) as D1.
  eapply (rt_step _ FramePriority 0 sid (prio_bytes pr)); try eassumption.
  - cbn [run_wcall]. unfold write_priority. rewrite V, V2. reflexivity.
  - reflexivity.
  - reflexivity.
  - intros L _. cbn [expected_frame]. rewrite L, S2, r31_small by exact S1. split; [|reflexivity].
    rewrite parse_frame_priority by reflexivity. unfold parse_priority. cbn [fh_sid mkh].
    destruct (N.eqb_spec sid 0); [lia|].
    destruct (prio_bytes_parse pr [] D1 Hw) as (v & Ev & Hv & M & X).
    rewrite app_nil_r in Ev. rewrite Ev.
    rewrite lenN_app, lenN_be_enc. cbn [lenN length N.of_nat Pos.of_succ_nat Pos.succ N.add Pos.add N.eqb Pos.eqb negb].
    rewrite firstn4_enc, be_dec_enc_small by exact Hv.
    replace (nthN (be_enc 4 v ++ [u8 (p_weight pr)]) 4) with (bN (u8 (p_weight pr))) by reflexivity.
    rewrite bN_u8, N.mod_small by exact Hw. rewrite M.
    rewrite N.eqb_sym, X. destruct pr; reflexivity.
Qed.

(* ---------- SETTINGS ---------- *)
Definition setting_ok (s : N * N) : Prop := fst s < 2 ^ 16 /\ snd s < 2 ^ 32.

Lemma settings_payload_len l : length (flat_map setting_bytes l) = (6 * length l)%nat.
Proof.
  induction l as [|s l IH]; [reflexivity|].
  cbn [flat_map length]. rewrite app_length, IH. unfold setting_bytes. rewrite app_length, !length_be_enc. lia.
Qed.

Lemma settings_of_flat l : Forall setting_ok l -> settings_of (length l) (flat_map setting_bytes l) = l.
Proof.
  induction 1 as [|s l [H1 H2] _ IH]; [reflexivity|].
  cbn [length flat_map settings_of]. change (setting_bytes s) with (be_enc 2 (fst s) ++ be_enc 4 (snd s)). rewrite <- !app_assoc.
  rewrite (firstn_app_len 2) by apply length_be_enc.
  rewrite (skipn_app_len 2) by apply length_be_enc.
  rewrite firstn4_enc.
  replace (skipn 6 (be_enc 2 (fst s) ++ be_enc 4 (snd s) ++ flat_map setting_bytes l)) with (flat_map setting_bytes l)
    by (rewrite app_assoc; symmetry; apply skipn_app_len; rewrite app_length, !length_be_enc; reflexivity).
  rewrite !be_dec_enc_small by assumption. rewrite IH. destruct s; reflexivity.
Qed.

Lemma rt_settings l b st rest :
  Forall setting_ok l ->
  (forall v, setting_value SettingInitialWindowSize l = Some v -> v <= 2147483647) ->
  run_wcall (WSettings l) = WOk b -> lenN b - 9 <= rs_max st ->
  read_frame st (b ++ rest) = after_ok st (expected_frame (WSettings l)) rest.
Proof.
  intros Hl Hw W Hm.
  eapply (rt_step _ FrameSettings 0 0 (flat_map setting_bytes l)); try eassumption.
  - reflexivity.
  - reflexivity.
  - reflexivity.
  - reflexivity.
  - intros L _. cbn [expected_frame]. rewrite L. split; [|reflexivity].
    rewrite parse_frame_settings by reflexivity. unfold parse_settings. cbn [fh_sid fh_flags fh_len mkh].
    change (has_flag 0 FlagSettingsAck) with false. cbn [andb]. change (negb (0 mod 2 ^ 31 =? 0)) with false. cbv iota.
    unfold lenN. rewrite settings_payload_len.
    replace (N.of_nat (6 * length l) mod 6) with 0 by lia. cbn [N.eqb negb].
    replace (6 * length l / 6)%nat with (length l) by (rewrite Nat.mul_comm, Nat.div_mul; lia).
    rewrite settings_of_flat by exact Hl.
    destruct (setting_value SettingInitialWindowSize l) as [v|] eqn:E; [|reflexivity].
    specialize (Hw v eq_refl). destruct (N.ltb_spec 2147483647 v); [lia | reflexivity].
Qed.

Lemma rt_settings_ack b st rest :
  run_wcall WSettingsAck = WOk b -> lenN b - 9 <= rs_max st ->
  read_frame st (b ++ rest) = after_ok st (expected_frame WSettingsAck) rest.
Proof.
  intros W Hm.
  eapply (rt_step _ FrameSettings FlagSettingsAck 0 []); try eassumption; try reflexivity.
  intros L _. cbn [expected_frame]. rewrite L. split; reflexivity.
Qed.

(* ---------- unknown (extension) frame types via WriteRawFrame ---------- *)
Lemma rt_raw ty fl sid p b st rest :
  10 <= ty < 256 -> fl < 256 -> sid < 2 ^ 32 ->
  run_wcall (WRaw ty fl sid p) = WOk b -> lenN b - 9 <= rs_max st ->
  read_frame st (b ++ rest) = after_ok st (expected_frame (WRaw ty fl sid p)) rest.
Proof.
  intros Ht Hf Hs W Hm.
  eapply (rt_step _ ty fl sid p); try eassumption; try reflexivity; try lia.
  intros L _. cbn [expected_frame]. rewrite L. unfold r31. change 2147483648 with (2 ^ 31).
  split; [|reflexivity]. apply parse_frame_unknown. cbn [fh_type mkh]. lia.
Qed.

(* ---------- PUSH_PROMISE ---------- *)
Lemma rt_push_promise sid promise frag eh padlen b st rest :
  sid < 2 ^ 32 -> promise < 2 ^ 32 -> padlen < 256 ->
  run_wcall (WPushPromise false sid promise frag eh padlen) = WOk b -> lenN b - 9 <= rs_max st ->
  read_frame st (b ++ rest) = after_ok st (expected_frame (WPushPromise false sid promise frag eh padlen)) rest.
Proof.
  intros Hs Hp Hpl W Hm. pose proof W as W0. cbn [run_wcall] in W0. unfold write_push_promise in W0.
  destruct (valid_sid sid) eqn:V; [|discriminate]. cbn [negb andb] in W0.
  destruct (valid_sid promise) eqn:V2; [|discriminate]. cbn [negb andb] in W0.
  destruct (valid_sid_spec sid Hs V) as (S0 & S1 & S2).
  destruct (valid_sid_spec promise Hp V2) as (P0 & P1 & P2).
  eapply (rt_step _ FramePushPromise
            (N.lor (bflag (negb (padlen =? 0)) FlagPushPromisePadded) (bflag eh FlagPushPromiseEndHeaders)) sid
            ((if padlen =? 0 then [] else [u8 padlen]) ++ be_enc 4 promise ++ frag ++ repeat x00 (N.to_nat padlen)));
    try eassumption.
  - cbn [run_wcall]. unfold write_push_promise. rewrite V, V2. reflexivity.
  - reflexivity.
  - destruct (padlen =? 0), eh; vm_compute; reflexivity.
  - intros L _. cbn [expected_frame]. rewrite L, S2, !r31_small by assumption. split; [|reflexivity].
    rewrite parse_frame_push_promise by reflexivity. unfold parse_push_promise. cbn [fh_sid fh_flags mkh].
    destruct (N.eqb_spec sid 0); [lia|].
    destruct (N.eqb_spec padlen 0) as [->|Np].
    + replace (has_flag _ FlagPushPromisePadded) with false by (destruct eh; reflexivity).
      cbn [app repeat N.to_nat]. rewrite app_nil_r. rewrite read_u32_enc by exact Hp.
      destruct (N.ltb_spec (lenN frag) 0); [lia|]. rewrite mask31_mod, drop_tail_0.
      rewrite N.mod_small by exact P1. reflexivity.
    + replace (has_flag _ FlagPushPromisePadded) with true by (destruct eh; reflexivity).
      cbn [app negb]. rewrite read_byte_cons, bN_u8, N.mod_small by exact Hpl.
      rewrite read_u32_enc by exact Hp.
      destruct (N.ltb_spec (lenN (frag ++ repeat x00 (N.to_nat padlen))) padlen) as [C|C].
      { rewrite lenN_app, lenN_repeat in C. lia. }
      rewrite drop_tail_app by (rewrite lenN_repeat; lia).
      rewrite mask31_mod, N.mod_small by exact P1. reflexivity.
Qed.

(* ---------- HEADERS ---------- *)
Definition headers_flags (b1 b2 b3 b4 : bool) : N :=
  N.lor (N.lor (N.lor (bflag b1 FlagHeadersPadded) (bflag b2 FlagHeadersEndStream)) (bflag b3 FlagHeadersEndHeaders))
        (bflag b4 FlagHeadersPriority).
Lemma headers_flags_spec b1 b2 b3 b4 :
  has_flag (headers_flags b1 b2 b3 b4) FlagHeadersPadded = b1 /\
  has_flag (headers_flags b1 b2 b3 b4) FlagHeadersPriority = b4 /\
  has_flag (headers_flags b1 b2 b3 b4) FlagHeadersEndHeaders = b3 /\
  has_flag (headers_flags b1 b2 b3 b4) FlagHeadersEndStream = b2 /\
  headers_flags b1 b2 b3 b4 < 256.
Proof. destruct b1, b2, b3, b4; vm_compute; repeat split. Qed.

Lemma prio_nonzero_eq pr : (if prio_is_zero pr then prio_zero else pr) = pr.
Proof.
  destruct (prio_is_zero pr) eqn:Z; [|reflexivity].
  unfold prio_is_zero in Z. destruct pr as [d e w]. cbn [p_dep p_excl p_weight] in Z.
  destruct (N.eqb_spec d 0); [|discriminate]. destruct e; [discriminate|].
  destruct (N.eqb_spec w 0); [|discriminate]. subst. reflexivity.
Qed.

Lemma rt_headers sid frag es eh padlen pr b st rest :
  sid < 2 ^ 32 -> padlen < 256 -> p_dep pr < 2 ^ 32 -> p_weight pr < 256 ->
  run_wcall (WHeaders false sid frag es eh padlen pr) = WOk b -> lenN b - 9 <= rs_max st ->
  read_frame st (b ++ rest) = after_ok st (expected_frame (WHeaders false sid frag es eh padlen pr)) rest.
Proof.
  intros Hs Hpl Hd Hw W Hm. pose proof W as W0. cbn [run_wcall] in W0. unfold write_headers in W0.
  destruct (valid_sid sid) eqn:V; [|discriminate]. cbn [negb andb] in W0.
  destruct (valid_sid_spec sid Hs V) as (S0 & S1 & S2).
  rewrite andb_true_r in W0.
  destruct (negb (prio_is_zero pr) && negb (valid_sid_or_zero (p_dep pr))) eqn:C; [discriminate|].
  fold (headers_flags (negb (padlen =? 0)) es eh (negb (prio_is_zero pr))) in W0.
  destruct (headers_flags_spec (negb (padlen =? 0)) es eh (negb (prio_is_zero pr))) as (F1 & F2 & _ & _ & F5).
  eapply (rt_step _ FrameHeaders (headers_flags (negb (padlen =? 0)) es eh (negb (prio_is_zero pr))) sid
            ((if padlen =? 0 then [] else [u8 padlen]) ++ (if prio_is_zero pr then [] else prio_bytes pr) ++
             frag ++ repeat x00 (N.to_nat padlen))); try eassumption.
  - cbn [run_wcall]. unfold write_headers. rewrite V. cbn [negb andb]. rewrite andb_true_r, C. reflexivity.
  - reflexivity.
  - intros L _. cbn [expected_frame]. rewrite L, S2, r31_small by exact S1.
    fold (headers_flags (negb (padlen =? 0)) es eh (negb (prio_is_zero pr))). split; [|reflexivity].
    rewrite parse_frame_headers by reflexivity. unfold parse_headers. cbn [fh_sid fh_flags mkh].
    destruct (N.eqb_spec sid 0); [lia|]. rewrite F1, F2.
    assert (TL : forall p3, p3 = frag ++ repeat x00 (N.to_nat padlen) ->
                 (lenN p3 <? padlen) = false /\ drop_tail p3 padlen = frag).
    { intros p3 ->. split.
      - destruct (N.ltb_spec (lenN (frag ++ repeat x00 (N.to_nat padlen))) padlen) as [X|X]; [|reflexivity].
        rewrite lenN_app, lenN_repeat in X. lia.
      - apply drop_tail_app. rewrite lenN_repeat. lia. }
    destruct (TL _ eq_refl) as [T1 T2].
    set (hd := mkh _ _ _ _).
    (* the parser's view after the optional pad-length byte *)
    assert (G : match (if negb (prio_is_zero pr)
                       then match read_u32 ((if prio_is_zero pr then [] else prio_bytes pr) ++ frag ++ repeat x00 (N.to_nat padlen)) with
                            | Some (p3, v) =>
                                match read_byte p3 with
                                | Some (p5, w) => Ok (p5, {| p_dep := mask31 v; p_excl := negb (v =? mask31 v); p_weight := w |})
                                | None => Err EUnexpectedEOF
                                end
                            | None => Err EUnexpectedEOF
                            end
                       else Ok ((if prio_is_zero pr then [] else prio_bytes pr) ++ frag ++ repeat x00 (N.to_nat padlen), prio_zero))
                with
                | Ok (p3, pr0) => if lenN p3 <? padlen then Err (EStream sid ErrCodeProtocol)
                                  else Ok (FHeaders hd pr0 (drop_tail p3 padlen))
                | Err e => Err e
                end = Ok (FHeaders hd (if prio_is_zero pr then prio_zero else pr) frag)).
    { destruct (prio_is_zero pr) eqn:Z; cbn [negb app].
      + rewrite T1, T2. reflexivity.
      + cbn [negb andb] in C. destruct (valid_sid_or_zero (p_dep pr)) eqn:V2; [|discriminate].
        pose proof (valid_sid_or_zero_spec _ Hd V2) as D1.
        destruct (prio_bytes_parse pr (frag ++ repeat x00 (N.to_nat padlen)) D1 Hw) as (v & Ev & Hv & M & X).
        rewrite Ev. rewrite read_u32_enc by exact Hv. rewrite read_byte_cons, bN_u8, N.mod_small by exact Hw.
        rewrite T1, T2. rewrite M, X. destruct pr; reflexivity. }
    destruct (N.eqb_spec padlen 0) as [Ep|Np]; cbn [negb app].
    + rewrite Ep in *. exact G.
    + rewrite read_byte_cons, bN_u8, N.mod_small by exact Hpl. exact G.
Qed.

(* ---------- the combined statement ---------- *)
(* Go argument types (uint32, uint8, [8]byte, uint16) and AllowIllegalWrites = false; the only
   semantic side condition: a SETTINGS frame the reader would refuse on FLOW_CONTROL grounds. *)
Definition wf_wcall (c : wcall) : Prop :=
  match c with
  | WData aiw s _ _ _ => aiw = false /\ s < 2 ^ 32
  | WHeaders aiw s _ _ _ pl pr => aiw = false /\ s < 2 ^ 32 /\ pl < 256 /\ p_dep pr < 2 ^ 32 /\ p_weight pr < 256
  | WPriority aiw s pr => aiw = false /\ s < 2 ^ 32 /\ p_dep pr < 2 ^ 32 /\ p_weight pr < 256
  | WRst aiw s c => aiw = false /\ s < 2 ^ 32 /\ c < 2 ^ 32
  | WSettings l => Forall setting_ok l /\
                   forall v, setting_value SettingInitialWindowSize l = Some v -> v <= 2147483647
  | WSettingsAck => True
  | WPing _ d => length d = 8%nat
  | WGoAway l c _ => l < 2 ^ 32 /\ c < 2 ^ 32
  | WWindowUpdate aiw s _ => aiw = false /\ s < 2 ^ 32
  | WContinuation aiw s _ _ => aiw = false /\ s < 2 ^ 32
  | WPushPromise aiw s p _ _ pl => aiw = false /\ s < 2 ^ 32 /\ p < 2 ^ 32 /\ pl < 256
  | WRaw t f s _ => 10 <= t < 256 /\ f < 256 /\ s < 2 ^ 32
  end.

Theorem h2_frame_roundtrip c b st rest :
  wf_wcall c -> run_wcall c = WOk b -> lenN b - 9 <= rs_max st ->
  read_frame st (b ++ rest) = after_ok st (expected_frame c) rest.
Proof.
  destruct c; cbn [wf_wcall]; intros WF W Hm.
  - destruct WF as [-> ?]. apply rt_data; assumption.
  - destruct WF as (-> & ? & ? & ? & ?). apply rt_headers; assumption.
  - destruct WF as (-> & ? & ? & ?). apply rt_priority; assumption.
  - destruct WF as (-> & ? & ?). apply rt_rst; assumption.
  - destruct WF as [? ?]. apply rt_settings; assumption.
  - apply rt_settings_ack; assumption.
  - apply rt_ping; assumption.
  - destruct WF as [? ?]. apply rt_goaway; assumption.
  - destruct WF as [-> ?]. apply rt_window_update; assumption.
  - destruct WF as [-> ?]. apply rt_continuation; assumption.
  - destruct WF as (-> & ? & ? & ?). apply rt_push_promise; assumption.
  - destruct WF as (? & ? & ?). apply rt_raw; assumption.
Qed.
