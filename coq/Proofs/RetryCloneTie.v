(* Proofs/RetryCloneTie.v - C10: the slice model instantiated with what gosync reads off the
   source (Gen/RetryClone.v: retryOption.Clone deep-copies both slices, Client.R() clones the
   client's option, the eight setters are fresh-literal / append-to-itself).  A shallow Clone
   or a setter that does something else changes the generated file and breaks these proofs. *)
From ReqV Require Import Lib.Bytes Model.RetrySlices Gen.RetryClone Proofs.RetrySlicesProofs.

Lemma clone_is_deep : clone_conditions = CloneDeep /\ clone_hooks = CloneDeep /\ r_clones_option = true.
Proof. repeat split; reflexivity. Qed.

Lemma setters_as_modelled :
  setter_table =
  [(bs "AddCommonRetryCondition", KAdd); (bs "AddCommonRetryHook", KAdd);
   (bs "AddRetryCondition", KAdd); (bs "AddRetryHook", KAdd);
   (bs "SetCommonRetryCondition", KSet); (bs "SetCommonRetryHook", KSet);
   (bs "SetRetryCondition", KSet); (bs "SetRetryHook", KSet)].
Proof. vm_compute. reflexivity. Qed.

(* for every sequence of Add/Set calls on the client and on any number of requests built from
   it (SNew = Client.R()), in any interleaving, and every growth policy of append: every
   option holds exactly the conditions / hooks its own caller gave it *)
Theorem request_conditions_independent grow ops :
  views (wrun grow clone_conditions ops world0) = prun ops [[]].
Proof. destruct clone_is_deep as (-> & _). apply request_options_independent_from_start. Qed.

Theorem request_hooks_independent grow ops :
  views (wrun grow clone_hooks ops world0) = prun ops [[]].
Proof. destruct clone_is_deep as (_ & -> & _). apply request_options_independent_from_start. Qed.

(* Request.do restarts RetryAttempt for every entry point (Send-based verbs, Do) *)
Lemma do_resets : do_resets_attempt = true.
Proof. reflexivity. Qed.

(* the stop decision and the wait ask r.Context() on every attempt (a context installed after Do
   started - by a client middleware, by a retry hook - governs them), and every attempt reads the
   body from a reader of its own (GBStatic in Model/Retry.v: overlapping uploads cannot disturb
   each other) *)
Lemma context_and_body_as_modelled : ctx_read_per_attempt = true /\ getbody_fresh_reader = true.
Proof. split; reflexivity. Qed.

(* what one attempt (Client.roundTrip) writes into the Request is per-attempt bookkeeping only -
   the raw request, its start time, the trace object: nothing that the next attempt's request is
   built from (method, URL, headers, cookies, body, GetBody, the close flag ...) *)
Lemma roundtrip_writes_only_bookkeeping :
  roundtrip_assigns = [bs "RawRequest"; bs "StartTime"; bs "trace"].
Proof. vm_compute. reflexivity. Qed.

(* the caller's interval function, hooks and conditions are each called from ONE place (the loop of
   Request.do) - not, say, once more from a log line; and the client's headers are merged on the
   first attempt of an execution only (prep_header in Model/Retry.v) *)
Lemma callbacks_called_from_the_loop_only : callback_call_sites = [1; 1; 1]%nat /\ header_merge_once = true.
Proof. split; reflexivity. Qed.
