(* Proofs/QuicVarintProofs.v - QUIC variable-length integers (RFC 9000 §16) *)
From Coq Require Import Lia ZifyBool ZifyNat ZifyN.
From ReqV Require Import Lib.Bytes Lib.BytesFacts Lib.BigEndian Proofs.BigEndianFacts Model.QuicVarint.
Open Scope N_scope.

Ltac Zify.zify_post_hook ::= Z.div_mod_to_equations.

(* turn every N.shiftr/N.shiftl by a literal into div/mul by the literal power *)
Ltac shifts :=
  repeat match goal with
  | |- context [N.shiftr ?a ?k] =>
      rewrite (N.shiftr_div_pow2 a k); let p := eval vm_compute in (2 ^ k) in change (2 ^ k) with p
  | |- context [N.shiftl ?a ?k] =>
      rewrite (N.shiftl_mul_pow2 a k); let p := eval vm_compute in (2 ^ k) in change (2 ^ k) with p
  end.

Lemma u8_ext a b : a mod 256 = b mod 256 -> u8 a = u8 b.
Proof. intro H. rewrite <- (u8_mod a), <- (u8_mod b), H. reflexivity. Qed.

(* ---- byte-level facts (256-way case analysis) ---- *)
Lemma top2 b : N.shiftr (N.land (bN b) 192) 6 = bN b / 64.
Proof. destruct b; vm_compute; reflexivity. Qed.
Lemma low6 b : N.land (bN b) 63 = bN b mod 64.
Proof. destruct b; vm_compute; reflexivity. Qed.
Lemma lor_tag_byte b t : bN b < 64 -> t < 4 -> N.lor (bN b) (t * 64) = bN b + t * 64.
Proof.
  intros Hb Ht. assert (T : t = 0 \/ t = 1 \/ t = 2 \/ t = 3) by lia.
  destruct T as [-> | [-> | [-> | ->]]];
    destruct b; vm_compute in Hb |- *; first [reflexivity | discriminate Hb].
Qed.
Lemma lor_tag x t : x < 64 -> t < 4 -> N.lor x (t * 64) = x + t * 64.
Proof.
  intros Hx Ht. rewrite <- (N.mod_small x 256) by lia. rewrite <- bN_u8.
  apply lor_tag_byte; [rewrite bN_u8, N.mod_small by lia; exact Hx | exact Ht].
Qed.

(* ---- constants (regenerated from varint.go by gosync) ---- *)
Lemma consts : maxVarInt1 = 2 ^ 6 - 1 /\ maxVarInt2 = 2 ^ 14 - 1 /\ maxVarInt4 = 2 ^ 30 - 1 /\ maxVarInt8 = 2 ^ 62 - 1.
Proof. vm_compute. repeat split. Qed.

Definition max1 := 63.  Definition max2 := 16383.  Definition max4 := 1073741823.
Definition max8 := 4611686018427387903.
Lemma c1 : maxVarInt1 = 63. Proof. reflexivity. Qed.
Lemma c2 : maxVarInt2 = 16383. Proof. reflexivity. Qed.
Lemma c4 : maxVarInt4 = 1073741823. Proof. reflexivity. Qed.
Lemma c8 : maxVarInt8 = 4611686018427387903. Proof. reflexivity. Qed.

Ltac leb_cases :=
  rewrite ?c1, ?c2, ?c4, ?c8 in *;
  repeat match goal with |- context [?a <=? ?b] => destruct (N.leb_spec a b); try lia end.

Lemma varint_out_of_range v : 2 ^ 62 <= v -> vi_len v = None /\ vi_append v = None.
Proof.
  intro H. change (2 ^ 62) with 4611686018427387904 in H.
  unfold vi_len, vi_append. leb_cases. split; reflexivity.
Qed.

(* ---- canonical form: an l-byte varint is the big-endian l-byte number v + tag * 2^(8l-2) ---- *)
(* tag (the two most significant bits) of each length *)
Definition vi_tag (l : N) : N := if l =? 1 then 0 else if l =? 2 then 1 else if l =? 4 then 2 else 3.
Definition vi_form (l v : N) : bytes := be_enc (N.to_nat l) (v + vi_tag l * 2 ^ (8 * l - 2)).
Definition vi_lenok (l : N) : Prop := l = 1 \/ l = 2 \/ l = 4 \/ l = 8.

Lemma vi_len_spec v :
  vi_len v = if v <? 2 ^ 6 then Some 1 else if v <? 2 ^ 14 then Some 2
             else if v <? 2 ^ 30 then Some 4 else if v <? 2 ^ 62 then Some 8 else None.
Proof.
  unfold vi_len. change (2 ^ 6) with 64. change (2 ^ 14) with 16384.
  change (2 ^ 30) with 1073741824. change (2 ^ 62) with 4611686018427387904.
  leb_cases; repeat match goal with |- context [?a <? ?b] => destruct (N.ltb_spec a b); try lia end; reflexivity.
Qed.

Lemma vi_len_some v l : vi_len v = Some l -> vi_lenok l /\ v < 2 ^ (8 * l - 2) /\ v < 2 ^ 62.
Proof.
  rewrite vi_len_spec. unfold vi_lenok.
  repeat match goal with |- context [?a <? ?b] => destruct (N.ltb_spec a b) end;
    intro E; inversion E; subst; cbn [N.mul N.sub Pos.mul Pos.sub Pos.pred_double Pos.sub_mask Pos.double_mask Pos.succ_double_mask Pos.pred_mask] in *.
  all: change (2 ^ 6) with 64 in *; change (2 ^ 14) with 16384 in *;
       change (2 ^ 30) with 1073741824 in *; change (2 ^ 62) with 4611686018427387904 in *.
  all: repeat split; try lia.
Qed.

Lemma vi_form_1 v : vi_form 1 v = [u8 (N.shiftr (v + 0) 0)].
Proof. reflexivity. Qed.
Lemma vi_form_2 v : vi_form 2 v = [u8 (N.shiftr (v + 16384) 8); u8 (N.shiftr (v + 16384) 0)].
Proof. reflexivity. Qed.
Lemma vi_form_4 v : vi_form 4 v =
  [u8 (N.shiftr (v + 2147483648) 24); u8 (N.shiftr (v + 2147483648) 16);
   u8 (N.shiftr (v + 2147483648) 8); u8 (N.shiftr (v + 2147483648) 0)].
Proof. reflexivity. Qed.
Lemma vi_form_8 v : vi_form 8 v =
  [u8 (N.shiftr (v + 13835058055282163712) 56); u8 (N.shiftr (v + 13835058055282163712) 48);
   u8 (N.shiftr (v + 13835058055282163712) 40); u8 (N.shiftr (v + 13835058055282163712) 32);
   u8 (N.shiftr (v + 13835058055282163712) 24); u8 (N.shiftr (v + 13835058055282163712) 16);
   u8 (N.shiftr (v + 13835058055282163712) 8); u8 (N.shiftr (v + 13835058055282163712) 0)].
Proof. reflexivity. Qed.

Ltac bytes_eq := repeat (apply (f_equal2 (@cons byte)); [apply u8_ext; shifts; lia|]); try reflexivity.

(* Append writes the canonical form of length Len v *)
Lemma vi_append_form v l : vi_len v = Some l -> vi_append v = Some (vi_form l v).
Proof.
  unfold vi_len, vi_append. leb_cases; intro E; inversion E; subst l; clear E; f_equal; unfold sh8.
  - rewrite vi_form_1. bytes_eq.
  - rewrite vi_form_2.
    assert (Hs : N.shiftr v 8 < 64) by (shifts; lia).
    rewrite (N.mod_small (N.shiftr v 8) 256) by lia.
    change 64 with (1 * 64) at 1. rewrite lor_tag by lia. bytes_eq.
  - rewrite vi_form_4.
    assert (Hs : N.shiftr v 24 < 64) by (shifts; lia).
    rewrite (N.mod_small (N.shiftr v 24) 256) by lia.
    change 128 with (2 * 64) at 1. rewrite lor_tag by lia. bytes_eq.
  - rewrite vi_form_8.
    assert (Hs : N.shiftr v 56 < 64) by (shifts; lia).
    rewrite (N.mod_small (N.shiftr v 56) 256) by lia.
    change 192 with (3 * 64) at 1. rewrite lor_tag by lia. bytes_eq.
Qed.

(* ---- decoder: Parse returns the canonical reading of the first 2^tag bytes ---- *)
Lemma byte_tag_cases f : bN f / 64 = 0 \/ bN f / 64 = 1 \/ bN f / 64 = 2 \/ bN f / 64 = 3.
Proof. pose proof (bN_lt f). lia. Qed.

Lemma be_dec_1 a : be_dec [a] = bN a.
Proof. reflexivity. Qed.
Lemma be_dec_2 a b : be_dec [a; b] = bN a * 256 + bN b.
Proof. unfold be_dec; cbn [fold_left]. lia. Qed.
Lemma be_dec_4 a b c d : be_dec [a; b; c; d] = ((bN a * 256 + bN b) * 256 + bN c) * 256 + bN d.
Proof. unfold be_dec; cbn [fold_left]. lia. Qed.
Lemma be_dec_8 a b c d e f g h : be_dec [a; b; c; d; e; f; g; h] =
  ((((((bN a * 256 + bN b) * 256 + bN c) * 256 + bN d) * 256 + bN e) * 256 + bN f) * 256 + bN g) * 256 + bN h.
Proof. unfold be_dec; cbn [fold_left]. lia. Qed.

Definition vi_width (f : byte) : N := 2 ^ (bN f / 64).

Lemma vi_parse_short f r : lenN (f :: r) < vi_width f -> vi_parse (f :: r) = ViUnexpectedEOF.
Proof.
  unfold vi_width, vi_parse. rewrite top2, N.shiftl_1_l. intro H.
  destruct (N.ltb_spec (lenN (f :: r)) (2 ^ (bN f / 64))); [reflexivity | lia].
Qed.

Lemma vi_parse_full f r : vi_width f <= lenN (f :: r) ->
  vi_parse (f :: r) =
    ViOk (be_dec (firstn (N.to_nat (vi_width f)) (f :: r)) mod 2 ^ (8 * vi_width f - 2)) (vi_width f).
Proof.
  unfold vi_width, vi_parse. rewrite top2, low6, N.shiftl_1_l. intro H.
  destruct (N.ltb_spec (lenN (f :: r)) (2 ^ (bN f / 64))); [lia|].
  pose proof (bN_lt f) as Hf.
  destruct (byte_tag_cases f) as [E | [E | [E | E]]]; rewrite E in *.
  - change (2 ^ 0) with 1 in *. cbn [N.eqb Pos.eqb]. change (N.to_nat 1) with 1%nat.
    cbn [firstn]. rewrite be_dec_1. change (2 ^ (8 * 1 - 2)) with 64. reflexivity.
  - change (2 ^ 1) with 2 in *. cbn [N.eqb Pos.eqb]. change (N.to_nat 2) with 2%nat.
    destruct r as [|c2 r]; [unfold lenN in *; cbn [length] in *; lia|].
    cbn [firstn]. rewrite be_dec_2. change (2 ^ (8 * 2 - 2)) with 16384.
    unfold nthN; cbn [nth]. f_equal. shifts. pose proof (bN_lt c2). lia.
  - change (2 ^ 2) with 4 in *. cbn [N.eqb Pos.eqb]. change (N.to_nat 4) with 4%nat.
    destruct r as [|c2 [|c3 [|c4 r]]]; try (unfold lenN in *; cbn [length] in *; lia).
    cbn [firstn]. rewrite be_dec_4. change (2 ^ (8 * 4 - 2)) with 1073741824.
    unfold nthN; cbn [nth]. f_equal. shifts.
    pose proof (bN_lt c2). pose proof (bN_lt c3). pose proof (bN_lt c4). lia.
  - change (2 ^ 3) with 8 in *. cbn [N.eqb Pos.eqb]. change (N.to_nat 8) with 8%nat.
    destruct r as [|c2 [|c3 [|c4 [|c5 [|c6 [|c7 [|c8 r]]]]]]]; try (unfold lenN in *; cbn [length] in *; lia).
    cbn [firstn]. rewrite be_dec_8. change (2 ^ (8 * 8 - 2)) with 4611686018427387904.
    unfold nthN; cbn [nth]. f_equal. shifts.
    pose proof (bN_lt c2). pose proof (bN_lt c3). pose proof (bN_lt c4). pose proof (bN_lt c5).
    pose proof (bN_lt c6). pose proof (bN_lt c7). pose proof (bN_lt c8). lia.
Qed.

(* Read = Parse on the same bytes (value, consumption), every truncation is the reader's error *)
Lemma vi_read_parse s :
  vi_read s = match vi_parse s with
              | ViOk v n => Some (v, skipn (N.to_nat n) s)
              | _ => None
              end.
Proof.
  destruct s as [|f r]; [reflexivity|].
  unfold vi_read, vi_parse. rewrite top2, N.shiftl_1_l.
  destruct (byte_tag_cases f) as [E | [E | [E | E]]]; rewrite E.
  - change (2 ^ 0) with 1. cbn [N.eqb Pos.eqb].
    destruct (N.ltb_spec (lenN (f :: r)) 1) as [L|L]; [unfold lenN in L; cbn [length] in L; lia|].
    reflexivity.
  - change (2 ^ 1) with 2. cbn [N.eqb Pos.eqb].
    destruct r as [|c2 r]; [reflexivity|].
    destruct (N.ltb_spec (lenN (f :: c2 :: r)) 2) as [L|L]; [unfold lenN in L; cbn [length] in L; lia|].
    reflexivity.
  - change (2 ^ 2) with 4. cbn [N.eqb Pos.eqb].
    destruct r as [|c2 [|c3 [|c4 r]]]; try reflexivity.
    destruct (N.ltb_spec (lenN (f :: c2 :: c3 :: c4 :: r)) 4) as [L|L]; [unfold lenN in L; cbn [length] in L; lia|].
    reflexivity.
  - change (2 ^ 3) with 8. cbn [N.eqb Pos.eqb].
    destruct r as [|c2 [|c3 [|c4 [|c5 [|c6 [|c7 [|c8 r]]]]]]]; try reflexivity.
    destruct (N.ltb_spec (lenN (f :: c2 :: c3 :: c4 :: c5 :: c6 :: c7 :: c8 :: r)) 8) as [L|L];
      [unfold lenN in L; cbn [length] in L; lia|].
    reflexivity.
Qed.

(* ---- the canonical form and the decoder ---- *)
Ltac lenok_cases H := destruct H as [-> | [-> | [-> | ->]]].

Ltac pows := change (2 ^ (8 * 1 - 2)) with 64 in *; change (2 ^ (8 * 2 - 2)) with 16384 in *;
  change (2 ^ (8 * 4 - 2)) with 1073741824 in *; change (2 ^ (8 * 8 - 2)) with 4611686018427387904 in *.

Lemma vi_form_length l v : length (vi_form l v) = N.to_nat l.
Proof. apply length_be_enc. Qed.

Lemma vi_form_dec l v : vi_lenok l -> v < 2 ^ (8 * l - 2) ->
  be_dec (vi_form l v) = v + vi_tag l * 2 ^ (8 * l - 2).
Proof.
  intros L H. unfold vi_form. apply be_dec_enc_small.
  lenok_cases L; pows; unfold vi_tag; cbn [N.eqb Pos.eqb].
  - change (256 ^ N.of_nat (N.to_nat 1)) with 256. lia.
  - change (256 ^ N.of_nat (N.to_nat 2)) with 65536. lia.
  - change (256 ^ N.of_nat (N.to_nat 4)) with 4294967296. lia.
  - change (256 ^ N.of_nat (N.to_nat 8)) with 18446744073709551616. lia.
Qed.

Lemma vi_form_head l v : vi_lenok l -> v < 2 ^ (8 * l - 2) ->
  exists f r, vi_form l v = f :: r /\ vi_width f = l.
Proof.
  intros L H. unfold vi_width.
  lenok_cases L; pows.
  - rewrite vi_form_1. eexists; eexists; split; [reflexivity|].
    rewrite bN_u8. replace (N.shiftr (v + 0) 0 mod 256 / 64) with 0; [reflexivity|]. shifts. lia.
  - rewrite vi_form_2. eexists; eexists; split; [reflexivity|].
    rewrite bN_u8. replace (N.shiftr (v + 16384) 8 mod 256 / 64) with 1; [reflexivity|]. shifts. lia.
  - rewrite vi_form_4. eexists; eexists; split; [reflexivity|].
    rewrite bN_u8. replace (N.shiftr (v + 2147483648) 24 mod 256 / 64) with 2; [reflexivity|]. shifts. lia.
  - rewrite vi_form_8. eexists; eexists; split; [reflexivity|].
    rewrite bN_u8. replace (N.shiftr (v + 13835058055282163712) 56 mod 256 / 64) with 3; [reflexivity|]. shifts. lia.
Qed.

Lemma lenN_app a b : lenN (a ++ b) = lenN a + lenN b.
Proof. unfold lenN. rewrite app_length. lia. Qed.

Lemma vi_form_lenN l v : lenN (vi_form l v) = l.
Proof. unfold lenN. rewrite vi_form_length. lia. Qed.

(* every canonical form, minimal or not, decodes to the embedded value, whatever follows *)
Lemma vi_parse_form l v rest : vi_lenok l -> v < 2 ^ (8 * l - 2) ->
  vi_parse (vi_form l v ++ rest) = ViOk v l.
Proof.
  intros L H. destruct (vi_form_head l v L H) as (f & r & E & W).
  pose proof (vi_form_lenN l v) as HL. pose proof (vi_form_length l v) as HL'.
  pose proof (vi_form_dec l v L H) as D.
  rewrite E in *. cbn [app]. rewrite vi_parse_full.
  2:{ rewrite W. change (f :: r ++ rest) with ((f :: r) ++ rest). rewrite lenN_app. lia. }
  rewrite W. change (f :: r ++ rest) with ((f :: r) ++ rest).
  rewrite <- HL'. rewrite firstn_app_exact. rewrite D. f_equal.
  rewrite N.mod_add by (apply N.pow_nonzero; lia). apply N.mod_small. exact H.
Qed.

Lemma vi_read_form l v rest : vi_lenok l -> v < 2 ^ (8 * l - 2) ->
  vi_read (vi_form l v ++ rest) = Some (v, rest).
Proof.
  intros L H. rewrite vi_read_parse, vi_parse_form by assumption.
  rewrite <- (vi_form_length l v). rewrite skipn_app_exact. reflexivity.
Qed.

(* conversely: whatever Parse accepts IS a canonical form of the value it returns *)
Lemma vi_width_ok f : vi_lenok (vi_width f).
Proof.
  unfold vi_width, vi_lenok.
  destruct (byte_tag_cases f) as [E | [E | [E | E]]]; rewrite E; vm_compute; tauto.
Qed.

Lemma vi_parse_inv s v n : vi_parse s = ViOk v n ->
  vi_lenok n /\ v < 2 ^ (8 * n - 2) /\ n <= lenN s /\ firstn (N.to_nat n) s = vi_form n v.
Proof.
  destruct s as [|f r]; [discriminate|].
  destruct (N.lt_ge_cases (lenN (f :: r)) (vi_width f)) as [S|S].
  - rewrite vi_parse_short by exact S. discriminate.
  - rewrite vi_parse_full by exact S. intro E.
    assert (En : n = vi_width f) by congruence.
    assert (Ev : v = be_dec (firstn (N.to_nat (vi_width f)) (f :: r)) mod 2 ^ (8 * vi_width f - 2)) by congruence.
    clear E. subst n.
    pose proof (vi_width_ok f) as L.
    assert (P : 2 ^ (8 * vi_width f - 2) <> 0) by (apply N.pow_nonzero; lia).
    split; [exact L|]. split; [rewrite Ev; apply N.mod_lt; exact P|]. split; [exact S|].
    set (p := firstn (N.to_nat (vi_width f)) (f :: r)) in *.
    assert (Lp : length p = N.to_nat (vi_width f)).
    { unfold p. apply firstn_length_le. unfold lenN in S. lia. }
    unfold vi_form. rewrite <- Lp.
    replace (v + vi_tag (vi_width f) * 2 ^ (8 * vi_width f - 2)) with (be_dec p);
      [symmetry; apply be_enc_dec|].
    rewrite Ev. clear Ev. rewrite (N.div_mod (be_dec p) (2 ^ (8 * vi_width f - 2))) at 1 by exact P.
    rewrite N.add_comm. f_equal. rewrite N.mul_comm. f_equal.
    (* the two top bits of the first byte are the tag of the width *)
    pose proof (bN_lt f) as Hf. unfold p, vi_width, vi_tag in *. clear p Lp P L.
    destruct (byte_tag_cases f) as [E | [E | [E | E]]]; rewrite E in *.
    + change (2 ^ 0) with 1 in *. change (N.to_nat 1) with 1%nat. cbn [firstn N.eqb Pos.eqb].
      rewrite be_dec_1. pows. lia.
    + change (2 ^ 1) with 2 in *. change (N.to_nat 2) with 2%nat.
      destruct r as [|c2 r]; [unfold lenN in *; cbn [length] in *; lia|].
      cbn [firstn N.eqb Pos.eqb]. rewrite be_dec_2. pows. pose proof (bN_lt c2). lia.
    + change (2 ^ 2) with 4 in *. change (N.to_nat 4) with 4%nat.
      destruct r as [|c2 [|c3 [|c4 r]]]; try (unfold lenN in *; cbn [length] in *; lia).
      cbn [firstn N.eqb Pos.eqb]. rewrite be_dec_4. pows.
      pose proof (bN_lt c2). pose proof (bN_lt c3). pose proof (bN_lt c4). lia.
    + change (2 ^ 3) with 8 in *. change (N.to_nat 8) with 8%nat.
      destruct r as [|c2 [|c3 [|c4 [|c5 [|c6 [|c7 [|c8 r]]]]]]]; try (unfold lenN in *; cbn [length] in *; lia).
      cbn [firstn N.eqb Pos.eqb]. rewrite be_dec_8. pows.
      pose proof (bN_lt c2). pose proof (bN_lt c3). pose proof (bN_lt c4). pose proof (bN_lt c5).
      pose proof (bN_lt c6). pose proof (bN_lt c7). pose proof (bN_lt c8). lia.
Qed.

(* ---- AppendWithLen writes the canonical form of the requested length ---- *)
Lemma be_enc_1 n : be_enc 1 n = [u8 (N.shiftr n 0)]. Proof. reflexivity. Qed.
Lemma be_enc_2 n : be_enc 2 n = [u8 (N.shiftr n 8); u8 (N.shiftr n 0)]. Proof. reflexivity. Qed.
Lemma be_enc_4 n : be_enc 4 n = [u8 (N.shiftr n 24); u8 (N.shiftr n 16); u8 (N.shiftr n 8); u8 (N.shiftr n 0)].
Proof. reflexivity. Qed.

Ltac bytes_eq' :=
  change x00 with (u8 0); change x40 with (u8 64); change x80 with (u8 128); change xc0 with (u8 192);
  repeat (apply (f_equal2 (@cons byte)); [apply u8_ext; shifts; lia|]); try reflexivity.

Lemma vi_append_with_len_form v l len :
  vi_lenok len -> vi_len v = Some l -> l <= len -> vi_append_with_len v len = Some (vi_form len v).
Proof.
  intros L Hl Hle. unfold vi_append_with_len. rewrite Hl.
  destruct (vi_len_some v l Hl) as (Ll & Hv & _).
  destruct (N.eqb_spec l len) as [->|Ne].
  - replace (negb _) with false by (lenok_cases L; reflexivity). apply vi_append_form; exact Hl.
  - destruct (N.ltb_spec len l); [lia|].
    lenok_cases L; lenok_cases Ll; try lia; pows; cbn [negb orb N.eqb Pos.eqb]; f_equal.
    + change (N.to_nat (2 - 1 - 1)) with 0%nat. change (N.to_nat 1) with 1%nat.
      cbn [repeat app]. rewrite be_enc_1, vi_form_2. bytes_eq'.
    + change (N.to_nat (4 - 1 - 1)) with 2%nat. change (N.to_nat 1) with 1%nat.
      cbn [repeat app]. rewrite be_enc_1, vi_form_4. bytes_eq'.
    + change (N.to_nat (4 - 2 - 1)) with 1%nat. change (N.to_nat 2) with 2%nat.
      cbn [repeat app]. rewrite be_enc_2, vi_form_4. bytes_eq'.
    + change (N.to_nat (8 - 1 - 1)) with 6%nat. change (N.to_nat 1) with 1%nat.
      cbn [repeat app]. rewrite be_enc_1, vi_form_8. bytes_eq'.
    + change (N.to_nat (8 - 2 - 1)) with 5%nat. change (N.to_nat 2) with 2%nat.
      cbn [repeat app]. rewrite be_enc_2, vi_form_8. bytes_eq'.
    + change (N.to_nat (8 - 4 - 1)) with 3%nat. change (N.to_nat 4) with 4%nat.
      cbn [repeat app]. rewrite be_enc_4, vi_form_8. bytes_eq'.
Qed.

(* the three panics of AppendWithLen *)
Lemma vi_append_with_len_rejects v len :
  vi_append_with_len v len = None <->
  (~ vi_lenok len \/ 2 ^ 62 <= v \/ exists l, vi_len v = Some l /\ len < l).
Proof.
  split.
  - intro H. destruct (N.eq_dec len 1) as [E1|N1]; [|destruct (N.eq_dec len 2) as [E2|N2];
      [|destruct (N.eq_dec len 4) as [E4|N4]; [|destruct (N.eq_dec len 8) as [E8|N8]]]].
    5:{ left. unfold vi_lenok. lia. }
    all: right; destruct (vi_len v) as [l|] eqn:Hl.
    all: try (left; rewrite vi_len_spec in Hl;
              repeat match type of Hl with context [?a <? ?b] => destruct (N.ltb_spec a b) end;
              try discriminate; assumption).
    all: right; exists l; split; [reflexivity|].
    all: destruct (N.lt_ge_cases len l) as [Lt|Ge]; [exact Lt|].
    all: rewrite (vi_append_with_len_form v l len) in H; [discriminate | unfold vi_lenok; lia | exact Hl | exact Ge].
  - intros [H | [H | (l & Hl & Lt)]]; unfold vi_append_with_len.
    + destruct (N.eqb_spec len 1); [exfalso; apply H; unfold vi_lenok; lia|].
      destruct (N.eqb_spec len 2); [exfalso; apply H; unfold vi_lenok; lia|].
      destruct (N.eqb_spec len 4); [exfalso; apply H; unfold vi_lenok; lia|].
      destruct (N.eqb_spec len 8); [exfalso; apply H; unfold vi_lenok; lia|]. reflexivity.
    + destruct (varint_out_of_range v H) as [-> _]. destruct (negb _); reflexivity.
    + rewrite Hl. destruct (negb _); [reflexivity|].
      destruct (N.eqb_spec l len); [lia|]. destruct (N.ltb_spec len l); [reflexivity | lia].
Qed.

(* ---- the theorems ---- *)

Theorem varint_len v :
  (v < 2 ^ 6 -> vi_len v = Some 1) /\ (2 ^ 6 <= v < 2 ^ 14 -> vi_len v = Some 2) /\
  (2 ^ 14 <= v < 2 ^ 30 -> vi_len v = Some 4) /\ (2 ^ 30 <= v < 2 ^ 62 -> vi_len v = Some 8) /\
  (2 ^ 62 <= v -> vi_len v = None) /\
  (forall l, vi_len v = Some l -> exists e, vi_append v = Some e /\ lenN e = l).
Proof.
  rewrite vi_len_spec.
  repeat split; intros;
    repeat match goal with |- context [?a <? ?b] => destruct (N.ltb_spec a b); try lia end; try reflexivity.
  rewrite <- vi_len_spec in H. exists (vi_form l v). split; [apply vi_append_form; exact H | apply vi_form_lenN].
Qed.

Theorem varint_roundtrip v rest : v < 2 ^ 62 ->
  exists e l, vi_append v = Some e /\ vi_len v = Some l /\ lenN e = l /\
              vi_parse (e ++ rest) = ViOk v l /\ vi_read (e ++ rest) = Some (v, rest).
Proof.
  intro H. destruct (vi_len v) as [l|] eqn:Hl.
  2:{ rewrite vi_len_spec in Hl.
      repeat match type of Hl with context [?a <? ?b] => destruct (N.ltb_spec a b) end; try discriminate; lia. }
  destruct (vi_len_some v l Hl) as (L & Hv & _).
  exists (vi_form l v), l. split; [apply vi_append_form; exact Hl|]. split; [reflexivity|].
  split; [apply vi_form_lenN|]. split; [apply vi_parse_form | apply vi_read_form]; assumption.
Qed.

(* Append uses the shortest form: no accepted encoding of v is shorter than Append's *)
Theorem varint_minimal s v n l : vi_parse s = ViOk v n -> vi_len v = Some l -> l <= n.
Proof.
  intros P Hl. destruct (vi_parse_inv s v n P) as (L & Hv & _).
  rewrite vi_len_spec in Hl.
  repeat match type of Hl with context [?a <? ?b] => destruct (N.ltb_spec a b) end;
    inversion Hl; subst l; lenok_cases L; pows;
    change (2 ^ 6) with 64 in *; change (2 ^ 14) with 16384 in *; change (2 ^ 30) with 1073741824 in *; lia.
Qed.

(* every 1/2/4/8-byte form (minimal or not) that can hold v decodes to v; every strict prefix of
   it is an error (empty: io.EOF, otherwise io.ErrUnexpectedEOF) *)
Theorem varint_decode_total v len : vi_lenok len -> v < 2 ^ (8 * len - 2) ->
  exists e, vi_append_with_len v len = Some e /\ lenN e = len /\
    (forall rest, vi_parse (e ++ rest) = ViOk v len /\ vi_read (e ++ rest) = Some (v, rest)) /\
    vi_parse (firstn 0 e) = ViEOF /\
    (forall k, (0 < k)%nat -> (k < N.to_nat len)%nat ->
       vi_parse (firstn k e) = ViUnexpectedEOF /\ vi_read (firstn k e) = None).
Proof.
  intros L H. exists (vi_form len v).
  assert (Hl : exists l, vi_len v = Some l /\ l <= len).
  { rewrite vi_len_spec. lenok_cases L; pows;
      repeat match goal with |- context [?a <? ?b] => destruct (N.ltb_spec a b) end;
      change (2 ^ 6) with 64 in *; change (2 ^ 14) with 16384 in *; change (2 ^ 30) with 1073741824 in *;
      change (2 ^ 62) with 4611686018427387904 in *;
      try (eexists; split; [reflexivity | lia]); lia. }
  destruct Hl as (l & Hl & Hle).
  split; [apply (vi_append_with_len_form v l len); assumption|].
  split; [apply vi_form_lenN|].
  split; [intro rest; split; [apply vi_parse_form | apply vi_read_form]; assumption|].
  split; [reflexivity|].
  intros k K0 K1. destruct (vi_form_head len v L H) as (f & r & E & W).
  pose proof (vi_form_length len v) as HL. rewrite E in *.
  destruct k as [|k]; [lia|]. cbn [firstn].
  assert (S : vi_parse (f :: firstn k r) = ViUnexpectedEOF).
  { apply vi_parse_short. rewrite W. unfold lenN. cbn [length] in *. rewrite firstn_length. lia. }
  split; [exact S|]. rewrite vi_read_parse, S. reflexivity.
Qed.

(* whatever Parse accepts is one of those forms: the decoder accepts nothing else *)
Theorem varint_accepts_only_forms s v n : vi_parse s = ViOk v n ->
  vi_lenok n /\ v < 2 ^ (8 * n - 2) /\ v < 2 ^ 62 /\
  exists rest, s = vi_form n v ++ rest /\ vi_append_with_len v n = Some (vi_form n v).
Proof.
  intro P. destruct (vi_parse_inv s v n P) as (L & Hv & Hn & F).
  split; [exact L|]. split; [exact Hv|].
  assert (V62 : v < 2 ^ 62).
  { lenok_cases L; pows; change (2 ^ 62) with 4611686018427387904; lia. }
  split; [exact V62|].
  exists (skipn (N.to_nat n) s). split; [rewrite <- F; symmetry; apply firstn_skipn|].
  destruct (varint_decode_total v n L Hv) as (e & A & _).
  destruct (vi_len v) as [l|] eqn:Hl.
  - apply (vi_append_with_len_form v l n L Hl). exact (varint_minimal s v n l P Hl).
  - exfalso. rewrite vi_len_spec in Hl.
    repeat match type of Hl with context [?a <? ?b] => destruct (N.ltb_spec a b) end; try discriminate; lia.
Qed.

(* prefix-freeness: no complete encoding is a proper prefix of another complete encoding, and a
   complete encoding is read the same whatever follows it *)
Theorem varint_prefix_free s1 s2 x v1 v2 :
  vi_parse s1 = ViOk v1 (lenN s1) -> vi_parse s2 = ViOk v2 (lenN s2) -> s2 = s1 ++ x ->
  x = [] /\ v1 = v2.
Proof.
  intros P1 P2 ->. destruct (vi_parse_inv _ _ _ P1) as (L & Hv & _ & F).
  assert (F' : s1 = vi_form (lenN s1) v1).
  { rewrite <- F. unfold lenN. rewrite Nat2N.id, firstn_all. reflexivity. }
  remember (lenN s1) as n eqn:Hn.
  assert (P3 : vi_parse (s1 ++ x) = ViOk v1 n) by (rewrite F'; apply vi_parse_form; assumption).
  rewrite P3 in P2. assert (V : v1 = v2) by congruence.
  assert (E : n = lenN (s1 ++ x)) by congruence.
  rewrite lenN_app, <- Hn in E. split; [|exact V].
  destruct x; [reflexivity | unfold lenN in E; cbn [length] in E; lia].
Qed.
