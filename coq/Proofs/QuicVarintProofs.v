(* Proofs/QuicVarintProofs.v - QUIC variable-length integers (RFC 9000 §16) *)
From Coq Require Import Lia ZifyBool ZifyNat ZifyN.
From ReqV Require Import Lib.Bytes Lib.BigEndian Proofs.BigEndianFacts Model.QuicVarint.
Open Scope N_scope.

Lemma varint_out_of_range v : 2 ^ 62 <= v -> vi_len v = None /\ vi_append v = None.
Proof.
  intro H. change (2 ^ 62) with 4611686018427387904 in H.
  unfold vi_len, vi_append, maxVarInt1, maxVarInt2, maxVarInt4, maxVarInt8.
  repeat match goal with |- context [?a <=? ?b] => destruct (N.leb_spec a b); try lia end.
  split; reflexivity.
Qed.
