(* Proofs/C07DigestAlg.v - digest: the algorithm check and the hashing use one and the same table
   lookup (C07; model of C20, Model/Digest.v) *)
From ReqV Require Import Lib.Bytes Model.Digest.

Section WithHash.
  Variable H : hashfn -> bytes -> bytes.

  (* an algorithm token that is not EXACTLY a key of hashFuncs is refused before anything is hashed *)
  Theorem authorize_checks_table c uri m u p cn :
    lookup_alg (c_algorithm c) = None -> authorize H c uri m u p cn = inr EAlgNotSupported.
  Proof. intros E. unfold authorize, authorize_with. now rewrite E. Qed.

  (* ... so whenever credentials are produced, every hash the computation called was found under
     the very token the check looked up: credentials.h never meets a missing constructor *)
  Theorem authorize_hash_defined c uri m u p cn fs :
    authorize H c uri m u p cn = inl fs -> exists f, lookup_alg (c_algorithm c) = Some f.
  Proof.
    unfold authorize, authorize_with. destruct (lookup_alg (c_algorithm c)) as [f|]; [eauto|discriminate].
  Qed.
End WithHash.

(* the table is keyed by the exact spelling: other cases of a known token are not in it *)
Theorem lookup_alg_exact_spelling :
  lookup_alg (bs "MD5") = Some HMd5 /\ lookup_alg (bs "md5") = None /\ lookup_alg (bs "Md5-Sess") = None /\
  lookup_alg (bs "sha-256") = None /\ lookup_alg (bs "SHA-256") = Some HSha256 /\ lookup_alg (bs "sha-512-256-SESS") = None.
Proof. vm_compute. repeat split. Qed.
