(* Proofs/ChallengeTextProofs.v - C20: parseChallenge on the TEXT of a challenge.  Whatever the
   order of the parameters, the white space around them and the commas, and whether a value is
   written as a token or as a quoted-string (any bytes, quoted-pairs), the challenge parsed is
   the meaning of the parameter list. *)
From Coq Require Import Lia.
From ReqV Require Import Lib.Bytes Lib.BytesFacts Model.AuthParam Model.Digest
     Proofs.AuthParamProofs.

(* ---------- byte facts ---------- *)

Lemma tchar_not_space b : is_tchar b = true -> is_space b = false.
Proof. destruct b; vm_compute; congruence. Qed.
Lemma chal_ws_is_space b : is_chal_ws b = true -> is_space b = true.
Proof. destruct b; vm_compute; congruence. Qed.
Lemma space_plain b : is_space b = true -> beqb b dquote = false /\ beqb b comma = false.
Proof. destruct b; vm_compute; intuition congruence. Qed.

(* ---------- trim ---------- *)

Definition starts_np (p : byte -> bool) (s : bytes) : Prop :=
  match s with [] => False | b :: _ => p b = false end.
Definition ends_np (p : byte -> bool) (s : bytes) : Prop :=
  exists a b, s = a ++ [b] /\ p b = false.

Lemma drop_while_pad p pre s : forallb p pre = true -> starts_np p s ->
  drop_while p (pre ++ s) = s.
Proof.
  induction pre as [|x r IH]; intros Hp Hs.
  - destruct s as [|b s']; [contradiction|]. cbn in *. now rewrite Hs.
  - cbn [forallb] in Hp. apply andb_prop in Hp as [Hx Hr]. cbn [app drop_while]. rewrite Hx. auto.
Qed.

Lemma forallb_rev p (l : bytes) : forallb p (rev l) = forallb p l.
Proof.
  induction l as [|x r IH]; [reflexivity|]. cbn [rev forallb]. rewrite forallb_app, IH. cbn.
  rewrite andb_true_r. apply andb_comm.
Qed.

Lemma trim_pad p pre s post :
  forallb p pre = true -> forallb p post = true -> starts_np p s -> ends_np p s ->
  trim p (pre ++ s ++ post) = s.
Proof.
  intros Hpre Hpost Hs [a [b [-> Hb]]]. unfold trim, trim_left, trim_right.
  rewrite drop_while_pad; auto.
  2:{ destruct a; cbn in *; auto. }
  rewrite rev_app_distr. rewrite drop_while_pad.
  - apply rev_involutive.
  - now rewrite forallb_rev.
  - rewrite rev_app_distr. cbn. exact Hb.
Qed.

Lemma trim_noop p s : starts_np p s -> ends_np p s -> trim p s = s.
Proof.
  intros Hs He. pose proof (trim_pad p [] s [] eq_refl eq_refl Hs He) as X.
  cbn [app] in X. now rewrite app_nil_r in X.
Qed.

(* ---------- strings.TrimSpace (Unicode aware) on ASCII-delimited text ---------- *)

(* an ASCII byte that is not white space: no space rune starts or ends with it *)
Definition anp (b : byte) : bool := negb (is_space b) && (bN b <? 128)%N.
Definition nanp (b : byte) : bool := negb (anp b).

Lemma anp_head b r : anp b = true -> space_head (b :: r) = 0.
Proof. destruct b; intros H; try discriminate H; vm_compute; reflexivity. Qed.
Lemma anp_tail b r : anp b = true -> space_tail (b :: r) = 0.
Proof. destruct b; intros H; try discriminate H; vm_compute; reflexivity. Qed.
Lemma tchar_anp b : is_tchar b = true -> anp b = true.
Proof. destruct b; vm_compute; congruence. Qed.

Lemma strip_pad heads pre s : forall fuel,
  (forall b r, is_space b = true -> heads (b :: r) = 1) -> heads s = 0 ->
  forallb is_space pre = true -> length pre <= fuel ->
  strip_spaces heads fuel (pre ++ s) = s.
Proof.
  induction pre as [|b r IH]; intros fuel Hh Hs Hp Hl.
  - cbn [app]. destruct fuel; [reflexivity|]. cbn [strip_spaces]. rewrite Hs. reflexivity.
  - cbn [forallb] in Hp. apply andb_prop in Hp as [Hb Hr].
    destruct fuel as [|fuel]; [cbn in Hl; lia|]. cbn [app strip_spaces]. rewrite (Hh b _ Hb).
    cbn [skipn]. apply IH; auto. cbn in Hl. lia.
Qed.

Lemma space_head_ascii b r : is_space b = true -> space_head (b :: r) = 1.
Proof. intros H. unfold space_head. now rewrite H. Qed.
Lemma space_tail_ascii b r : is_space b = true -> space_tail (b :: r) = 1.
Proof. intros H. unfold space_tail. now rewrite H. Qed.

Lemma trim_space_pad pre s post :
  forallb is_space pre = true -> forallb is_space post = true ->
  starts_np nanp s -> ends_np nanp s ->
  trim_space (pre ++ s ++ post) = s.
Proof.
  intros Hpre Hpost Hs [a [b [-> Hb]]]. unfold trim_space.
  assert (Ab : anp b = true) by (unfold nanp in Hb; now apply negb_false_iff in Hb).
  rewrite (strip_pad space_head pre ((a ++ [b]) ++ post)); auto using space_head_ascii.
  2:{ destruct a as [|a0 a']; cbn [app].
      - now apply anp_head.
      - cbn in Hs. unfold nanp in Hs. apply negb_false_iff in Hs. now apply anp_head. }
  2:{ rewrite app_length. lia. }
  rewrite rev_app_distr. rewrite (strip_pad space_tail (rev post) (rev (a ++ [b]))); auto using space_tail_ascii.
  - apply rev_involutive.
  - rewrite rev_app_distr. cbn [rev app]. now apply anp_tail.
  - now rewrite forallb_rev.
  - rewrite rev_length, !app_length. lia.
Qed.

Lemma anp_not_space b : nanp b = false -> is_space b = false.
Proof. unfold nanp, anp. destruct (is_space b); [cbn; discriminate|reflexivity]. Qed.
Lemma starts_nanp_space s : starts_np nanp s -> starts_np is_space s.
Proof. destruct s; cbn; [auto|apply anp_not_space]. Qed.
Lemma ends_nanp_space s : ends_np nanp s -> ends_np is_space s.
Proof. intros [a [b [E H]]]. exists a, b. split; [exact E|now apply anp_not_space]. Qed.

Lemma forallb_weaken (p q : byte -> bool) l :
  (forall b, p b = true -> q b = true) -> forallb p l = true -> forallb q l = true.
Proof.
  intros Hpq. induction l as [|x r IH]; [reflexivity|]. cbn [forallb]. intros H.
  apply andb_prop in H as [Hx Hr]. now rewrite (Hpq x Hx), IH.
Qed.

(* ---------- splitChallengeParams on quote-balanced text ---------- *)

Definition plainb (b : byte) : bool := negb (beqb b dquote) && negb (beqb b comma).

Lemma split_plain w : forall cur rest, forallb plainb w = true ->
  split_params_go false false cur (w ++ rest) = split_params_go false false (rev w ++ cur) rest.
Proof.
  induction w as [|b r IH]; intros cur rest Hw; [reflexivity|].
  cbn [forallb] in Hw. apply andb_prop in Hw as [Hb Hr]. unfold plainb in Hb.
  apply andb_prop in Hb as [H1 H2]. apply negb_true_iff in H1. apply negb_true_iff in H2.
  cbn [app split_params_go andb]. rewrite H1, H2. cbn [andb].
  rewrite (IH (b :: cur) rest Hr). cbn [rev]. rewrite <- app_assoc. reflexivity.
Qed.

Lemma split_in_quotes v : forall cur rest,
  split_params_go true false cur (escape_quoted v ++ dquote :: rest) =
  split_params_go false false (dquote :: rev (escape_quoted v) ++ cur) rest.
Proof.
  induction v as [|b r IH]; intros cur rest; cbn [escape_quoted app].
  - cbn [split_params_go andb]. change (beqb dquote bslash) with false. rewrite beqb_refl.
    cbn [negb rev app]. reflexivity.
  - destruct (beqb b dquote) eqn:Eq; cbn [orb].
    + cbn [app split_params_go andb]. change (beqb bslash bslash) with true. cbn iota.
      rewrite IH. cbn [rev]. rewrite <- !app_assoc. reflexivity.
    + destruct (beqb b bslash) eqn:Eb.
      * cbn [app split_params_go andb]. change (beqb bslash bslash) with true. cbn iota.
        rewrite IH. cbn [rev]. rewrite <- !app_assoc. reflexivity.
      * cbn [app split_params_go andb]. rewrite Eb, Eq. cbn [negb andb].
        rewrite andb_false_r. rewrite IH. cbn [rev]. rewrite <- !app_assoc. reflexivity.
Qed.

Lemma tchar_plain b : is_tchar b = true -> plainb b = true.
Proof. intros H. unfold plainb. now rewrite (tchar_not_dquote b H), (tchar_not_comma b H). Qed.
Lemma spaces_plain l : forallb is_space l = true -> forallb plainb l = true.
Proof.
  apply forallb_weaken. intros b Hb. unfold plainb. destruct (space_plain b Hb) as [-> ->]. reflexivity.
Qed.
Lemma token_plain v : tokenb v = true -> forallb plainb v = true.
Proof.
  destruct v as [|b r]; [discriminate|]. cbn [tokenb]. apply forallb_weaken. exact tchar_plain.
Qed.

Ltac norm_app := repeat (rewrite rev_app_distr || rewrite <- app_assoc || (progress (cbn [rev app]))); reflexivity.

(* the scanner runs over a rendered field and is back in the ground state *)
Lemma split_field f : cfield_ok f = true -> forall cur rest,
  split_params_go false false cur (render_field f ++ rest) =
  split_params_go false false (rev (render_field f) ++ cur) rest.
Proof.
  intros Hok cur rest. unfold cfield_ok in Hok. apply andb_prop in Hok as [Hk Hv].
  rewrite render_field_shape. destruct f as [k v]. cbn [fst snd] in *.
  rewrite <- app_assoc. rewrite (split_plain k _ _ (token_plain k Hk)).
  cbn [app]. cbn [split_params_go andb]. change (beqb equals dquote) with false.
  change (beqb equals comma) with false. cbn [andb].
  destruct v as [x|x|x].
  - cbn [app split_params_go andb]. rewrite beqb_refl. cbn [negb].
    rewrite <- app_assoc. cbn [app]. rewrite split_in_quotes.
    f_equal. norm_app.
  - apply andb_prop in Hv as [H1 H2]. apply negb_true_iff in H1. apply negb_true_iff in H2.
    cbn [app split_params_go andb]. rewrite beqb_refl. cbn [negb].
    rewrite <- app_assoc. cbn [app]. rewrite <- (escape_quoted_clean x H1 H2) at 1.
    rewrite split_in_quotes. rewrite (escape_quoted_clean x H1 H2).
    f_equal. norm_app.
  - rewrite (split_plain x _ _ (token_plain x Hv)).
    f_equal. norm_app.
Qed.

Lemma split_piece x : piece_ok x = true -> forall cur rest,
  split_params_go false false cur (render_piece x ++ rest) =
  split_params_go false false (rev (render_piece x) ++ cur) rest.
Proof.
  intros Hok cur rest. unfold piece_ok in Hok. apply andb_prop in Hok as [Hok Hf].
  apply andb_prop in Hok as [Hl Ht]. destruct x as [[l f] t]. cbn [fst snd] in *.
  unfold render_piece. cbn [fst snd]. rewrite <- !app_assoc.
  rewrite (split_plain l _ _ (spaces_plain l Hl)).
  rewrite (split_field f Hf).
  rewrite (split_plain t _ _ (spaces_plain t Ht)).
  f_equal. norm_app.
Qed.

Lemma split_params_go_end cur : split_params_go false false cur [] = [rev cur].
Proof. reflexivity. Qed.

Theorem split_rendered xs : xs <> [] -> forallb piece_ok xs = true ->
  split_params (join_with [comma] (map render_piece xs)) = map render_piece xs.
Proof.
  unfold split_params. intros Hne Hok.
  induction xs as [|x r IH]; [congruence|]. clear Hne.
  cbn [forallb] in Hok. apply andb_prop in Hok as [Hx Hr].
  destruct r as [|y r'].
  - cbn [map join_with]. rewrite <- (app_nil_r (render_piece x)) at 1.
    rewrite (split_piece x Hx). cbn [split_params_go]. rewrite app_nil_r, rev_involutive. reflexivity.
  - change (join_with [comma] (map render_piece (x :: y :: r')))
      with (render_piece x ++ comma :: join_with [comma] (map render_piece (y :: r'))).
    rewrite (split_piece x Hx). cbn [split_params_go andb].
    change (beqb comma bslash) with false. change (beqb comma dquote) with false.
    rewrite beqb_refl. cbn [andb negb]. rewrite app_nil_r, rev_involutive.
    cbn [map]. f_equal. apply IH; [discriminate|exact Hr].
Qed.

(* ---------- one parameter ---------- *)

Lemma render_field_starts f : cfield_ok f = true -> starts_np nanp (render_field f).
Proof.
  unfold cfield_ok. intros H. apply andb_prop in H as [Hk _]. rewrite render_field_shape.
  destruct (fst f) as [|b r]; [discriminate|]. cbn [tokenb forallb] in Hk. apply andb_prop in Hk as [Hb _].
  cbn. unfold nanp. now rewrite (tchar_anp b Hb).
Qed.

Lemma token_ends v : tokenb v = true -> exists a b, v = a ++ [b] /\ is_tchar b = true.
Proof.
  intros H. destruct v as [|x r]; [discriminate|]. cbn [tokenb] in H.
  destruct (exists_last (l := x :: r)) as [a [b E]]; [discriminate|].
  exists a, b. split; [exact E|]. rewrite E in H. rewrite forallb_app in H.
  apply andb_prop in H as [_ H]. cbn in H. now rewrite andb_true_r in H.
Qed.

Lemma render_field_ends f : cfield_ok f = true -> ends_np nanp (render_field f).
Proof.
  unfold cfield_ok. intros H. apply andb_prop in H as [_ Hv]. rewrite render_field_shape.
  destruct (snd f) as [x|x|x].
  - exists (fst f ++ equals :: dquote :: escape_quoted x), dquote. split; [|reflexivity].
    rewrite <- app_assoc. reflexivity.
  - exists (fst f ++ equals :: dquote :: x), dquote. split; [|reflexivity].
    rewrite <- app_assoc. reflexivity.
  - destruct (token_ends x Hv) as [a [b [-> Hb]]]. exists (fst f ++ equals :: a), b.
    split; [rewrite <- app_assoc; reflexivity|unfold nanp; now rewrite (tchar_anp b Hb)].
Qed.

Lemma unquote_token v : tokenb v = true -> unquote_param v = v.
Proof.
  intros H. destruct v as [|b r] eqn:E; [discriminate|]. unfold unquote_param.
  assert (Hb : is_tchar b = true) by (cbn [tokenb forallb] in H; apply andb_prop in H; tauto).
  rewrite (tchar_not_dquote b Hb). rewrite <- E in *. apply trim_noop.
  - rewrite E. unfold starts_np. rewrite beqb_sym. now apply tchar_not_dquote.
  - destruct (token_ends v H) as [a [c [-> Hc]]]. exists a, c. split; [reflexivity|].
    rewrite beqb_sym. now apply tchar_not_dquote.
Qed.

Lemma cut_eq_field k rest : tokenb k = true -> cut_eq (k ++ equals :: rest) = Some (k, rest).
Proof.
  intros Hk. unfold cut_eq.
  assert (M : mem_byte equals k = false).
  { destruct k as [|b r]; [discriminate|]. cbn [tokenb] in Hk. apply mem_byte_false_In. intros Hin.
    rewrite forallb_forall in Hk. specialize (Hk _ Hin). vm_compute in Hk. discriminate. }
  rewrite (index_byte_app_hit equals k rest M).
  rewrite firstn_app_exact.
  replace (S (length k)) with (length (k ++ [equals])) by (rewrite app_length; cbn; lia).
  change (k ++ equals :: rest) with (k ++ [equals] ++ rest). rewrite app_assoc.
  rewrite skipn_app_exact. reflexivity.
Qed.

Lemma parse_piece c x : piece_ok x = true ->
  parse_param c (render_piece x) = set_value c (fst (padded_sem x)) (snd (padded_sem x)).
Proof.
  intros Hok. pose proof Hok as Hok'. unfold piece_ok in Hok. apply andb_prop in Hok as [Hok Hf].
  apply andb_prop in Hok as [Hl Ht]. destruct x as [[l f] t]. cbn [fst snd] in *.
  unfold parse_param, render_piece, padded_sem. cbn [fst snd].
  rewrite (trim_space_pad l (render_field f) t Hl Ht (render_field_starts f Hf) (render_field_ends f Hf)).
  unfold cfield_ok in Hf. apply andb_prop in Hf as [Hk Hv].
  rewrite render_field_shape. rewrite (cut_eq_field _ _ Hk).
  set (raw := match snd f with
              | Quoted x => dquote :: escape_quoted x ++ [dquote]
              | QuotedRaw x => dquote :: x ++ [dquote]
              | Bare x => x
              end).
  assert (E : unquote_param raw = fval_bytes (snd f)).
  { unfold raw. destruct (snd f) as [x|x|x]; cbn [fval_bytes].
    - apply unquote_param_escape.
    - apply andb_prop in Hv as [H1 H2]. apply negb_true_iff in H1. apply negb_true_iff in H2.
      rewrite <- (escape_quoted_clean x H1 H2) at 1. apply unquote_param_escape.
    - now apply unquote_token. }
  clearbody raw. unfold set_param, set_value, set_param_with. cbv zeta. rewrite E. reflexivity.
Qed.

Lemma parse_pieces xs : forall c, forallb piece_ok xs = true ->
  parse_params c (map render_piece xs) = apply_fields c (map padded_sem xs).
Proof.
  induction xs as [|x r IH]; intros c Hok; [reflexivity|].
  cbn [forallb] in Hok. apply andb_prop in Hok as [Hx Hr].
  cbn [map parse_params apply_fields]. rewrite (parse_piece c x Hx).
  destruct (padded_sem x) as [k v]. cbn [fst snd].
  destruct (set_value c k v); [apply IH; exact Hr|reflexivity].
Qed.

(* ---------- the whole challenge ---------- *)

Definition ends_tight (xs : list padded) : Prop :=
  match xs with
  | [] => False
  | x :: _ => fst (fst x) = []
  end /\ exists ys y, xs = ys ++ [y] /\ snd y = [].

Lemma ends_tightb_spec xs : ends_tightb xs = true -> ends_tight xs.
Proof.
  unfold ends_tightb, ends_tight. intros H. apply andb_prop in H as [H1 H2]. split.
  - destruct xs as [|x r]; [discriminate|]. destruct (fst (fst x)); [reflexivity|discriminate].
  - destruct (rev xs) as [|y r] eqn:E; [discriminate|]. exists (rev r), y. split.
    + rewrite <- (rev_involutive xs), E. reflexivity.
    + destruct (snd y); [reflexivity|discriminate].
Qed.

Lemma join_last sep (g : padded -> bytes) ys y :
  exists pre, join_with sep (map g (ys ++ [y])) = pre ++ g y.
Proof.
  induction ys as [|z r IH]; [exists []; reflexivity|].
  destruct IH as [pre E]. destruct (r ++ [y]) as [|w r'] eqn:Er.
  { destruct r; discriminate. }
  exists (g z ++ sep ++ pre). cbn [app map]. rewrite Er. cbn [map].
  change (join_with sep (g z :: g w :: map g r')) with (g z ++ sep ++ join_with sep (map g (w :: r'))).
  rewrite E. rewrite <- !app_assoc. reflexivity.
Qed.

Lemma body_tight xs : forallb piece_ok xs = true -> ends_tight xs ->
  starts_np is_space (join_with [comma] (map render_piece xs)) /\
  ends_np is_space (join_with [comma] (map render_piece xs)).
Proof.
  intros Hok [Hfirst [ys [y [E Hy]]]]. split.
  - destruct xs as [|x r]; [contradiction|]. cbn [forallb] in Hok. apply andb_prop in Hok as [Hx _].
    unfold piece_ok in Hx. apply andb_prop in Hx as [_ Hf].
    pose proof (starts_nanp_space _ (render_field_starts _ Hf)) as S.
    assert (S' : starts_np is_space (render_piece x)).
    { unfold render_piece. rewrite Hfirst. cbn [app]. destruct (render_field (snd (fst x))); [contradiction|exact S]. }
    destruct r as [|z r']; cbn [map join_with]; [exact S'|].
    destruct (render_piece x); [contradiction|exact S'].
  - subst xs. rewrite forallb_app in Hok. apply andb_prop in Hok as [_ Hy']. cbn [forallb] in Hy'.
    rewrite andb_true_r in Hy'. unfold piece_ok in Hy'. apply andb_prop in Hy' as [_ Hf].
    destruct (ends_nanp_space _ (render_field_ends _ Hf)) as [a [b [Ea Hb]]].
    destruct (join_last [comma] render_piece ys y) as [pre Ep]. rewrite Ep.
    unfold render_piece. rewrite Hy, app_nil_r, Ea. exists (pre ++ fst (fst y) ++ a), b.
    split; [rewrite <- !app_assoc; reflexivity|exact Hb].
Qed.

(* THE theorem: parseChallenge on any rendering of a parameter list yields its meaning *)
Theorem parse_challenge_rendered pre mid post xs :
  forallb is_chal_ws pre = true -> forallb is_chal_ws mid = true -> forallb is_chal_ws post = true ->
  forallb piece_ok xs = true -> ends_tight xs ->
  parse_challenge (render_challenge pre mid post xs) = apply_fields empty_chal (map padded_sem xs).
Proof.
  intros Hpre Hmid Hpost Hok Ht.
  destruct (body_tight xs Hok Ht) as [Bs Be].
  set (body := join_with [comma] (map render_piece xs)) in *.
  unfold parse_challenge, parse_challenge_with, render_challenge. fold body.
  assert (T1 : trim is_chal_ws (pre ++ bs "Digest " ++ mid ++ body ++ post) = bs "Digest " ++ mid ++ body).
  { change (pre ++ bs "Digest " ++ mid ++ body ++ post) with (pre ++ (bs "Digest " ++ mid ++ body) ++ post) || idtac.
    replace (pre ++ bs "Digest " ++ mid ++ body ++ post) with (pre ++ (bs "Digest " ++ mid ++ body) ++ post)
      by (rewrite <- !app_assoc; reflexivity).
    apply trim_pad; auto.
    - cbn. reflexivity.
    - destruct Be as [a [b [E Hb]]]. exists (bs "Digest " ++ mid ++ a), b. split.
      + rewrite E. rewrite <- !app_assoc. reflexivity.
      + destruct (is_chal_ws b) eqn:W; [|reflexivity]. apply chal_ws_is_space in W. congruence. }
  rewrite T1. rewrite has_prefix_refl_app.
  change 7 with (length (bs "Digest ")). rewrite skipn_app_exact.
  assert (T2 : trim is_chal_ws (mid ++ body) = body).
  { pose proof (trim_pad is_chal_ws mid body [] Hmid eq_refl) as X. rewrite app_nil_r in X. apply X.
    - destruct body as [|b r]; [contradiction|]. cbn in *.
      destruct (is_chal_ws b) eqn:W; [|reflexivity]. apply chal_ws_is_space in W. congruence.
    - destruct Be as [a [b [E Hb]]]. exists a, b. split; [exact E|].
      destruct (is_chal_ws b) eqn:W; [|reflexivity]. apply chal_ws_is_space in W. congruence. }
  rewrite T2. unfold body. rewrite split_rendered; [|destruct Ht as [H _]; destruct xs; [contradiction|discriminate]|exact Hok].
  apply parse_pieces. exact Hok.
Qed.

(* ---------- the order of the parameters does not matter ---------- *)

From Coq Require Import Permutation.

Lemma set_value_comm c k1 v1 k2 v2 c' : k1 <> k2 ->
  match set_value c k1 v1 with inl c1 => set_value c1 k2 v2 | inr e => inr e end = inl c' ->
  match set_value c k2 v2 with inl c2 => set_value c2 k1 v1 | inr e => inr e end = inl c'.
Proof.
  intros Hne. destruct c. unfold set_value, set_param_with. cbv zeta.
  repeat match goal with
  | |- context [bytes_eqb k1 ?K] =>
      let E := fresh "E" in destruct (bytes_eqb k1 K) eqn:E; [apply bytes_eqb_eq in E|]
  end;
  repeat match goal with
  | |- context [bytes_eqb k2 ?K] =>
      let E := fresh "E" in destruct (bytes_eqb k2 K) eqn:E; [apply bytes_eqb_eq in E|]
  end;
  try (exfalso; apply Hne; congruence);
  repeat match goal with
  | |- context [if bytes_eqb (to_upper ?V) ?K then _ else _] => destruct (bytes_eqb (to_upper V) K)
  end; intros X; try discriminate X; try exact X.
Qed.

Theorem apply_fields_perm fs fs' : Permutation fs fs' -> NoDup (map fst fs) ->
  forall c c', apply_fields c fs = inl c' -> apply_fields c fs' = inl c'.
Proof.
  induction 1 as [|[k v] l l' HP IH|[k1 v1] [k2 v2] l|l l' l'' HP1 IH1 HP2 IH2]; intros ND c c' Hc.
  - exact Hc.
  - cbn [apply_fields] in *. destruct (set_value c k v) as [c1|e]; [|discriminate].
    cbn [map] in ND. inversion ND; subst. now apply IH.
  - cbn [map fst] in ND. inversion ND as [|? ? Hn ND']; subst.
    assert (Hne : k2 <> k1) by (intros ->; apply Hn; left; reflexivity).
    cbn [apply_fields] in *.
    destruct (set_value c k2 v2) as [c2|e] eqn:E2; [|discriminate].
    destruct (set_value c2 k1 v1) as [c21|e] eqn:E21; [|discriminate].
    pose proof (set_value_comm c k2 v2 k1 v1 c21 Hne) as X. rewrite E2 in X. specialize (X E21).
    destruct (set_value c k1 v1) as [c1|e]; [|discriminate]. rewrite X. exact Hc.
  - apply IH2; [|apply IH1; assumption].
    apply (Permutation_NoDup (Permutation_map fst HP1) ND).
Qed.

(* two renderings of the same parameters - other order, other white space, token or quoted form -
   are the same challenge *)
Theorem renderings_agree pre mid post xs pre' mid' post' ys c :
  forallb is_chal_ws pre = true -> forallb is_chal_ws mid = true -> forallb is_chal_ws post = true ->
  forallb piece_ok xs = true -> ends_tight xs ->
  forallb is_chal_ws pre' = true -> forallb is_chal_ws mid' = true -> forallb is_chal_ws post' = true ->
  forallb piece_ok ys = true -> ends_tight ys ->
  Permutation (map padded_sem xs) (map padded_sem ys) -> NoDup (map fst (map padded_sem xs)) ->
  parse_challenge (render_challenge pre mid post xs) = inl c ->
  parse_challenge (render_challenge pre' mid' post' ys) = inl c.
Proof.
  intros. rewrite parse_challenge_rendered in * by assumption.
  eapply apply_fields_perm; eassumption.
Qed.
