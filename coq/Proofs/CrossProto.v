(* Proofs/CrossProto.v - C01: the caller's fields and cookies are the same on the three protocols *)
From ReqV Require Import Lib.Bytes Lib.BytesFacts Model.Url Model.HeaderOrder Model.HeaderCollect
  Model.BodyFraming Model.H1Req.
From ReqV Require Import Proofs.UrlProofs Proofs.H1ReqProofs Proofs.H1EndToEnd.
From Coq Require Import Lia.

Lemma h1_exclude_managed k : mem_bytes k h1_exclude = true -> managed_name k = true.
Proof.
  intros H. unfold mem_bytes, h1_exclude in H. cbn [existsb] in H.
  repeat (apply orb_true_iff in H as [H|H]; [apply bytes_eqb_eq in H; subst; reflexivity|]).
  discriminate.
Qed.

Lemma filter_managed_lines k (vs : list bytes) : managed_name k = true ->
  filter unmanaged_line (map (fun v => (k, v)) vs) = [].
Proof.
  intros H. induction vs as [|v vs IH]; [reflexivity|]. cbn [map filter]. unfold unmanaged_line at 1.
  cbn [fst]. rewrite H. exact IH.
Qed.

Lemma filter_unmanaged_lines k (vs : list bytes) : managed_name k = false ->
  filter unmanaged_line (map (fun v => (k, v)) vs) = map (fun v => (k, v)) vs.
Proof.
  intros H. induction vs as [|v vs IH]; [reflexivity|]. cbn [map filter]. unfold unmanaged_line at 1.
  cbn [fst]. rewrite H. cbn [negb]. f_equal. exact IH.
Qed.

Lemma flatten_one k vs : flatten [(k, vs)] = map (fun v => (k, v)) vs.
Proof. unfold flatten. cbn [flat_map fst snd]. apply app_nil_r. Qed.

Lemma flatten_cons x (l : list kv) : flatten (x :: l) = map (fun v => (fst x, v)) (snd x) ++ flatten l.
Proof. reflexivity. Qed.

Lemma valid_value_sanitize v : valid_field_value v = true -> sanitize v = trim is_sp_tab v.
Proof.
  intros H. unfold sanitize. f_equal. unfold valid_field_value in H. rewrite forallb_forall in H.
  induction v as [|c v IH]; [reflexivity|]. cbn [map]. f_equal.
  - specialize (H c (or_introl eq_refl)). unfold nl_to_space.
    destruct (beqb c x0a || beqb c x0d) eqn:E; [|reflexivity].
    exfalso. apply orb_true_iff in E as [E|E]; apply beqb_eq in E; subst; discriminate.
  - apply IH. intros x Hx. apply H. right. exact Hx.
Qed.

Lemma unmanaged_h2_entry x : managed_name (fst x) = false -> h2_entry x = [x].
Proof.
  unfold managed_name. intros H. apply orb_false_iff in H as [H Hc]. apply orb_false_iff in H as [H Hu].
  apply orb_false_iff in H as [He _]. unfold h2_entry, is_excluded, is_ua, equal_fold.
  rewrite He. change (to_lower (bs "user-agent")) with (bs "user-agent"). rewrite Hu.
  change (to_lower (bs "cookie")) with (bs "cookie"). rewrite Hc. destruct x; reflexivity.
Qed.

Lemma managed_h2_entry x : managed_name (fst x) = true ->
  filter unmanaged_line (flatten (h2_entry x)) = [].
Proof.
  intros H. unfold h2_entry. destruct (is_excluded (fst x)); [reflexivity|].
  destruct (is_ua (fst x)).
  - unfold ua_first. destruct (snd x) as [|v vs]; [reflexivity|]. destruct (is_nil v); [reflexivity|].
    rewrite flatten_one. apply filter_managed_lines. exact H.
  - destruct (equal_fold (fst x) (bs "cookie")).
    + rewrite flatten_one. apply filter_managed_lines. reflexivity.
    + rewrite flatten_one. apply filter_managed_lines. exact H.
Qed.

Lemma managed_h3_entry x : managed_name (fst x) = true ->
  filter unmanaged_line (flatten (h3_entry x)) = [].
Proof.
  intros H. unfold h3_entry. destruct (is_excluded (fst x)); [reflexivity|].
  destruct (is_ua (fst x)).
  - unfold ua_first. destruct (snd x) as [|v vs]; [reflexivity|]. destruct (is_nil v); [reflexivity|].
    rewrite flatten_one. apply filter_managed_lines. exact H.
  - rewrite flatten_single_values, flatten_one. apply filter_managed_lines. exact H.
Qed.

Lemma unmanaged_h3_entry x : managed_name (fst x) = false -> flatten (h3_entry x) = flatten [x].
Proof.
  unfold managed_name. intros H. apply orb_false_iff in H as [H Hc]. apply orb_false_iff in H as [H Hu].
  apply orb_false_iff in H as [He _]. unfold h3_entry, is_excluded, is_ua, equal_fold.
  rewrite He. change (to_lower (bs "user-agent")) with (bs "user-agent"). rewrite Hu.
  rewrite flatten_single_values. destruct x; reflexivity.
Qed.

Lemma h1_user_cons x h : h1_user (x :: h) =
  (if negb (mem_bytes (fst x) h1_exclude) && valid_field_name (fst x)
   then [(fst x, map sanitize (snd x))] else []) ++ h1_user h.
Proof.
  unfold h1_user. cbn [filter]. destruct (negb (mem_bytes (fst x) h1_exclude) && valid_field_name (fst x)); reflexivity.
Qed.

Section Cross.
  Variable entry : kv -> list kv.
  Hypothesis entry_managed : forall x, managed_name (fst x) = true ->
    filter unmanaged_line (flatten (entry x)) = [].
  Hypothesis entry_unmanaged : forall x, managed_name (fst x) = false -> flatten (entry x) = flatten [x].

  Lemma cross_h1_h23 : forall h, valid_headers h = true ->
    caller_fields_h1 h = caller_fields_h23 entry h.
  Proof.
    unfold caller_fields_h1, caller_fields_h23.
    induction h as [|[k vs] h IH]; intros Hv; [reflexivity|]. set (x := (k, vs)) in *.
    unfold valid_headers in Hv. cbn [forallb] in Hv. apply andb_true_iff in Hv as [Hx Hv].
    apply andb_true_iff in Hx as [Hname Hvals]. specialize (IH Hv).
    rewrite h1_user_cons. cbn [flat_map]. rewrite !flatten_app, !filter_app, !map_app. f_equal; [|exact IH].
    destruct (managed_name (fst x)) eqn:Em.
    - rewrite entry_managed by exact Em.
      destruct (negb (mem_bytes (fst x) h1_exclude) && valid_field_name (fst x)); [|reflexivity].
      rewrite flatten_one, filter_managed_lines by exact Em. reflexivity.
    - rewrite entry_unmanaged by exact Em.
      assert (Hex : mem_bytes (fst x) h1_exclude = false).
      { destruct (mem_bytes (fst x) h1_exclude) eqn:E; [|reflexivity].
        apply h1_exclude_managed in E. congruence. }
      rewrite Hex, Hname. cbn [negb andb]. subst x. cbn [fst snd] in *. rewrite !flatten_one.
      rewrite !filter_unmanaged_lines by exact Em. rewrite !map_map. cbn [fst snd].
      rewrite forallb_forall in Hvals.
      induction vs as [|v vs IHv]; [reflexivity|]. cbn [map]. f_equal.
      + rewrite valid_value_sanitize by (apply Hvals; left; reflexivity). reflexivity.
      + apply IHv. intros y Hy. apply Hvals. right. exact Hy.
  Qed.
End Cross.

(* the caller's own fields (every name no writer treats specially) reach the wire identically on
   HTTP/1.1, HTTP/2 and HTTP/3: same names up to case, same values without surrounding blanks,
   same multiplicity, same order *)
Theorem cross_protocol_h1_h2 : forall h, valid_headers h = true ->
  caller_fields_h1 h = caller_fields_h23 h2_entry h.
Proof.
  apply cross_h1_h23; [exact managed_h2_entry|].
  intros x H. rewrite unmanaged_h2_entry by exact H. reflexivity.
Qed.

Theorem cross_protocol_h1_h3 : forall h, valid_headers h = true ->
  caller_fields_h1 h = caller_fields_h23 h3_entry h.
Proof. apply cross_h1_h23; [exact managed_h3_entry|exact unmanaged_h3_entry]. Qed.

(* ---------- cookies: HTTP/2 splits the Cookie header into crumbs; re-joined they are the list ---------- *)
Definition crumb_ok (p : bytes) : Prop :=
  mem_byte semi p = false /\ match p with c :: _ => c <> space | [] => False end.

Lemma crumbs_go_lit : forall p acc rest, mem_byte semi p = false ->
  crumbs_go acc false (p ++ rest) = crumbs_go (rev p ++ acc) false rest.
Proof.
  induction p as [|c p IH]; intros acc rest H; [reflexivity|].
  rewrite mem_byte_cons in H. apply orb_false_iff in H as [H1 H2].
  cbn [app crumbs_go andb]. rewrite beqb_sym, H1. rewrite IH by exact H2.
  cbn [rev]. rewrite <- app_assoc. reflexivity.
Qed.

Lemma crumbs_go_start : forall p sk rest, crumb_ok p ->
  crumbs_go [] sk (p ++ rest) = crumbs_go (rev p) false rest.
Proof.
  intros [|c p] sk rest [Hs Hc]; [destruct Hc|].
  rewrite mem_byte_cons in Hs. apply orb_false_iff in Hs as [H1 H2].
  cbn [app crumbs_go]. apply beqb_neq in Hc. rewrite Hc, andb_false_r. rewrite beqb_sym, H1.
  rewrite crumbs_go_lit by exact H2. cbn [rev]. reflexivity.
Qed.

Lemma crumb_nonempty p : crumb_ok p -> is_nil (rev p) = false.
Proof. intros [_ H]. destruct p as [|c p]; [destruct H|]. cbn [rev]. destruct (rev p); reflexivity. Qed.

Lemma crumbs_join : forall ps sk, Forall crumb_ok ps ->
  crumbs_go [] sk (join_with (bs "; ") ps) = ps.
Proof.
  induction ps as [|p ps IH]; intros sk H; [destruct sk; reflexivity|].
  inversion H as [|? ? Hp Hps]; subst. destruct ps as [|q ps].
  - cbn [join_with]. rewrite <- (app_nil_r p) at 1. rewrite crumbs_go_start by exact Hp.
    cbn [crumbs_go]. rewrite crumb_nonempty by exact Hp. rewrite rev_involutive. reflexivity.
  - change (join_with (bs "; ") (p :: q :: ps)) with (p ++ bs "; " ++ join_with (bs "; ") (q :: ps)).
    rewrite crumbs_go_start by exact Hp.
    change (bs "; " ++ join_with (bs "; ") (q :: ps)) with (semi :: space :: join_with (bs "; ") (q :: ps)).
    cbn [crumbs_go andb]. change (beqb semi space) with false. rewrite beqb_refl. cbn iota.
    rewrite rev_involutive. f_equal. cbn [crumbs_go andb]. rewrite beqb_refl. cbn iota.
    apply IH. exact Hps.
Qed.

(* a valid cookie renders as a well-formed crumb: no ';', does not start with a blank *)
Lemma cookie_pair_crumb c : valid_cookie c = true -> crumb_ok (cookie_pair c).
Proof.
  unfold valid_cookie, valid_method. intros H. apply andb_true_iff in H as [Hn Hv].
  apply andb_true_iff in Hn as [Hne Htok]. unfold cookie_pair, crumb_ok. split.
  - rewrite mem_byte_app, mem_byte_cons.
    assert (H1 : mem_byte semi (sanitize_cookie_name (fst c)) = false).
    { unfold sanitize_cookie_name. apply mem_byte_false_In. intros Hin. apply in_map_iff in Hin as (b & Eb & Hb).
      rewrite forallb_forall in Htok. specialize (Htok _ Hb). unfold cookie_name_byte in Eb.
      destruct (beqb b x0a || beqb b x0d); [discriminate|]. subst b. discriminate. }
    rewrite H1. cbn [orb]. change (beqb semi "="%byte) with false. cbn [orb].
    unfold sanitize_cookie_value.
    assert (H2 : mem_byte semi (filter valid_cookie_value_byte (snd c)) = false).
    { apply mem_byte_false_In. intros Hin. apply filter_In in Hin as [_ Hin]. discriminate. }
    set (fv' := filter valid_cookie_value_byte (snd c)) in *.
    destruct (is_nil fv'); [exact H2|].
    destruct (mem_byte " "%byte fv' || mem_byte ","%byte fv'); [|exact H2].
    rewrite mem_byte_cons, mem_byte_app, H2. reflexivity.
  - destruct (fst c) as [|b n] eqn:E; [discriminate|]. cbn [sanitize_cookie_name map app].
    cbn [forallb] in Htok. apply andb_true_iff in Htok as [Hb _]. unfold cookie_name_byte.
    destruct (beqb b x0a || beqb b x0d); [discriminate|]. intros ->. discriminate.
Qed.

(* HTTP/2 sends the cookies Client.roundTrip added as exactly one crumb per cookie, in order; a
   server that joins the crumbs with "; " (RFC 9113 8.2.3) reads the header HTTP/1.1 and HTTP/3 carry *)
Theorem cookie_crumbs_are_the_list : forall cks, forallb valid_cookie cks = true ->
  crumbs (cookie_header [] cks) = map cookie_pair cks /\
  join_with (bs "; ") (crumbs (cookie_header [] cks)) = cookie_header [] cks.
Proof.
  intros cks H. unfold cookie_header, crumbs. cbn [is_nil app].
  assert (E : crumbs_go [] false (join_with (bs "; ") (map cookie_pair cks)) = map cookie_pair cks).
  { apply crumbs_join. apply Forall_forall. intros p Hp. apply in_map_iff in Hp as (c & <- & Hc).
    apply cookie_pair_crumb. rewrite forallb_forall in H. auto. }
  rewrite E. split; reflexivity.
Qed.

(* with a caller-written Cookie header in front: its own crumbs, then one crumb per cookie *)
Lemma crumbs_go_semi : forall s acc sk rest,
  crumbs_go acc sk (s ++ semi :: rest) = crumbs_go acc sk (s ++ [semi]) ++ crumbs_go [] true rest.
Proof.
  induction s as [|c s IH]; intros acc sk rest.
  - cbn [app crumbs_go]. destruct (sk && beqb semi space) eqn:E.
    + exfalso. apply andb_true_iff in E as [_ E]. discriminate.
    + rewrite beqb_refl. reflexivity.
  - cbn [app crumbs_go]. destruct (sk && beqb c space); [apply IH|].
    destruct (beqb c semi); [cbn [app]; f_equal; apply IH|apply IH].
Qed.

Theorem cookie_crumbs_with_caller_header : forall cur cks, cur <> [] -> cks <> [] ->
  forallb valid_cookie cks = true ->
  crumbs (cookie_header cur cks) = crumbs (cur ++ [semi]) ++ map cookie_pair cks.
Proof.
  intros cur cks Hcur Hcks H. unfold cookie_header, crumbs.
  destruct cur as [|c0 cur0]; [congruence|]. cbn [is_nil app].
  destruct cks as [|k cks]; [congruence|]. cbn [map].
  change (join_with (bs "; ") ((c0 :: cur0) :: cookie_pair k :: map cookie_pair cks))
    with ((c0 :: cur0) ++ semi :: space :: join_with (bs "; ") (map cookie_pair (k :: cks))).
  rewrite crumbs_go_semi. f_equal. cbn [crumbs_go andb]. rewrite beqb_refl. cbn iota.
  apply crumbs_join. apply Forall_forall. intros p Hp.
  change (cookie_pair k :: map cookie_pair cks) with (map cookie_pair (k :: cks)) in Hp.
  apply in_map_iff in Hp as (c & <- & Hc).
  apply cookie_pair_crumb. rewrite forallb_forall in H. auto.
Qed.

(* the header Request.AddCookie accumulates is [cookie_header] *)
Lemma hget_hset h k v : hget (hset h k v) (canonical_key k) = Some [v].
Proof.
  unfold hset. induction h as [|x h IH]; cbn [filter app hget fst snd].
  - rewrite bytes_eqb_refl. reflexivity.
  - destruct (bytes_eqb (fst x) (canonical_key k)) eqn:E; cbn [negb]; [exact IH|].
    cbn [app hget]. rewrite E. exact IH.
Qed.

Lemma header_get_hset h v : header_get (hset h (bs "Cookie") v) (bs "Cookie") = v.
Proof.
  unfold header_get, hvals. change (canonical_key (bs "Cookie")) with (canonical_key (bs "Cookie")).
  rewrite (hget_hset h (bs "Cookie") v). reflexivity.
Qed.

Lemma cookie_pair_nonempty c : is_nil (cookie_pair c) = false.
Proof. unfold cookie_pair. destruct (sanitize_cookie_name (fst c)); reflexivity. Qed.

Lemma cookie_header_step cur c cks :
  cookie_header cur (c :: cks) =
  cookie_header (if is_nil cur then cookie_pair c else cur ++ bs "; " ++ cookie_pair c) cks.
Proof.
  unfold cookie_header. destruct cur as [|b cur]; cbn [is_nil app map].
  - rewrite cookie_pair_nonempty. reflexivity.
  - destruct (map cookie_pair cks) as [|p ps] eqn:E.
    + cbn [join_with app]. reflexivity.
    + change (join_with (bs "; ") ((b :: cur) :: cookie_pair c :: p :: ps))
        with ((b :: cur) ++ bs "; " ++ cookie_pair c ++ bs "; " ++ join_with (bs "; ") (p :: ps)).
      change (join_with (bs "; ") ((b :: cur ++ bs "; " ++ cookie_pair c) :: p :: ps))
        with ((b :: cur ++ bs "; " ++ cookie_pair c) ++ bs "; " ++ join_with (bs "; ") (p :: ps)).
      cbn [app]. f_equal. rewrite <- !app_assoc. reflexivity.
Qed.

Theorem add_cookies_header : forall cks h, cks <> [] ->
  header_get (fold_left add_cookie cks h) (bs "Cookie") = cookie_header (header_get h (bs "Cookie")) cks.
Proof.
  induction cks as [|c cks IH]; intros h Hne; [congruence|]. cbn [fold_left].
  rewrite cookie_header_step. destruct cks as [|c' cks].
  - cbn [fold_left]. unfold add_cookie. rewrite header_get_hset. unfold cookie_header.
    cbn [map app]. destruct (is_nil (header_get h (bs "Cookie"))).
    + rewrite cookie_pair_nonempty. reflexivity.
    + destruct (header_get h (bs "Cookie") ++ bs "; " ++ cookie_pair c) eqn:E; [|reflexivity].
      destruct (header_get h (bs "Cookie")); discriminate.
  - rewrite IH by discriminate. unfold add_cookie at 1. rewrite header_get_hset. reflexivity.
Qed.

(* ---------- requests sharing one HTTP/3 connection do not influence each other ---------- *)
From Coq Require Import Permutation.

Theorem h3w_independent : forall qs, h3w_run [] qs = map h3_lines qs.
Proof. induction qs as [|q r IH]; [reflexivity|]. cbn [h3w_run h3w_write app map]. rewrite IH. reflexivity. Qed.

Lemma combine_map_self {A B} (f : A -> B) l : combine l (map f l) = map (fun x => (x, f x)) l.
Proof. induction l as [|x l IH]; [reflexivity|]. cbn. rewrite IH. reflexivity. Qed.

(* in whatever order the critical sections of concurrent requests are serialised, every request is
   handed the field section of its own description *)
Theorem h3w_order_irrelevant : forall qs qs', Permutation qs qs' ->
  Permutation (combine qs (h3w_run [] qs)) (combine qs' (h3w_run [] qs')).
Proof.
  intros qs qs' H. rewrite !h3w_independent, !combine_map_self. apply Permutation_map. exact H.
Qed.
