(* Proofs/HeaderSlotsProofs.v - the header map does not depend on the slot hint, and the slot
   allocator never faults (C07) *)
From ReqV Require Import Lib.Bytes Lib.BytesFacts Model.H1Resp Model.HeaderSlots.
From Coq Require Import Lia.

Lemma hset_absent k v : forall m, hget k m = None -> hset k [v] m = hadd k v m.
Proof.
  induction m as [|[k' vs] r IH]; intros H; cbn in *; [reflexivity|].
  destruct (bytes_eqb k k'); [discriminate|]. now rewrite IH.
Qed.

Lemma slot_step_guarded hint slots m k v :
  exists s', slot_step true hint slots m k v = Some (s', hadd k v m) /\ s' <= slots.
Proof.
  unfold slot_step. destruct (hget k m) eqn:E; [eauto|].
  destruct slots as [|s]; cbn; [eauto|]. rewrite (hset_absent _ _ _ E). eauto.
Qed.

Lemma slot_run_guarded hint : forall lines slots m,
  exists s', slot_run true hint slots m lines =
             Some (s', fold_left (fun m kv => hadd (fst kv) (snd kv) m) lines m).
Proof.
  induction lines as [|[k v] r IH]; intros slots m; cbn [slot_run fold_left fst snd]; [eauto|].
  destruct (slot_step_guarded hint slots m k v) as (s' & -> & _). apply IH.
Qed.

(* for EVERY hint (whatever part of the head happened to be buffered) and every list of header
   lines: the reader does not fault and builds the very map it builds without slots *)
Theorem header_map_hint_independent hint lines :
  header_map_hinted hint lines = Some (header_map_plain lines).
Proof.
  unfold header_map_hinted, header_map_plain.
  destruct (slot_run_guarded hint lines hint []) as (s' & ->). reflexivity.
Qed.

(* the variant that tests the hint instead of the slots left faults as soon as there are more
   distinct names than the hint *)
Theorem slot_guard_on_hint_refuted :
  slot_run false 1 1 [] [(bs "A", bs "1"); (bs "B", bs "2")] = None /\
  slot_run true 1 1 [] [(bs "A", bs "1"); (bs "B", bs "2")] = Some (0, [(bs "A", [bs "1"]); (bs "B", [bs "2"])]).
Proof. split; reflexivity. Qed.
