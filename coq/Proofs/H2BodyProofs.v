(* Proofs/H2BodyProofs.v - C01: DATA framing of a request body, for every read schedule and every
   flow-control schedule *)
From ReqV Require Import Lib.Bytes Model.H2Body.
From Coq Require Import Lia.

Definition all_open (fs : list frame) : Prop := forallb (fun f => negb (snd f)) fs = true.

Lemma split_remain_spec : forall fuel remain eof alw, length remain <= fuel ->
  concat (map fst (fst (split_remain fuel remain eof alw))) = remain /\
  (remain = [] -> fst (split_remain fuel remain eof alw) = []) /\
  (remain <> [] -> exists front last, fst (split_remain fuel remain eof alw) = front ++ [last] /\
                                      snd last = eof /\ all_open front).
Proof.
  induction fuel as [|f IH]; intros remain eof alw Hlen.
  - destruct remain; [|cbn in Hlen; lia]. cbn. repeat split; try reflexivity. congruence.
  - destruct remain as [|c r]; [cbn; repeat split; try reflexivity; congruence|].
    cbn [split_remain].
    set (p := match alw with [] => (length (c :: r), []) | x :: t => (Nat.max 1 (Nat.min x (length (c :: r))), t) end).
    assert (Ha : 1 <= fst p <= length (c :: r)).
    { subst p. destruct alw; cbn [fst length]; lia. }
    destruct p as [a alw']. cbn [fst] in Ha.
    set (rest := skipn a (c :: r)).
    assert (Hrl : length rest <= f).
    { subst rest. rewrite skipn_length. cbn [length] in *. lia. }
    specialize (IH rest eof alw' Hrl).
    destruct (split_remain f rest eof alw') as [fs alw''] eqn:E. cbn [fst] in *.
    destruct IH as (Hc & Hnil & Hne). split; [|split].
    + cbn [map concat fst]. rewrite Hc. apply firstn_skipn.
    + congruence.
    + intros _. destruct rest as [|y rest'] eqn:Er.
      * rewrite (Hnil eq_refl). exists [], (firstn a (c :: r), eof && true).
        cbn [nil_b app snd]. rewrite andb_true_r. repeat split.
      * destruct (Hne ltac:(discriminate)) as (front & last & -> & Hl & Ho).
        exists ((firstn a (c :: r), eof && false) :: front), last. cbn [nil_b].
        rewrite andb_false_r. repeat split; [assumption|]. unfold all_open. cbn [forallb snd negb andb]. exact Ho.
Qed.

Lemma all_open_app a b : all_open a -> all_open b -> all_open (a ++ b).
Proof. unfold all_open. intros. rewrite forallb_app. apply andb_true_iff. auto. Qed.

Lemma split_open fuel remain alw : length remain <= fuel ->
  all_open (fst (split_remain fuel remain false alw)).
Proof.
  intros H. destruct (split_remain_spec fuel remain false alw H) as (_ & Hnil & Hne).
  destruct remain as [|c r]; [rewrite (Hnil eq_refl); reflexivity|].
  destruct (Hne ltac:(discriminate)) as (front & last & -> & Hl & Ho).
  apply all_open_app; [exact Ho|]. unfold all_open. cbn [forallb]. rewrite Hl. reflexivity.
Qed.

Lemma frames_loop_spec : forall reads alw,
  concat (map fst (fst (frames_loop reads alw))) = concat (map fst (upto_eof reads)) /\
  (snd (frames_loop reads alw) = true ->
     exists front last, fst (frames_loop reads alw) = front ++ [last] /\ snd last = true /\ all_open front) /\
  (snd (frames_loop reads alw) = false -> all_open (fst (frames_loop reads alw))).
Proof.
  induction reads as [|[d eof] rs IH]; intros alw.
  - cbn. repeat split; try discriminate. 
  - cbn [frames_loop upto_eof].
    pose proof (split_remain_spec (length d) d eof alw (le_n _)) as (Hc & Hnil & Hne).
    destruct (split_remain (length d) d eof alw) as [fs alw'] eqn:E. cbn [fst] in *.
    destruct eof.
    + cbn [fst snd map concat]. rewrite app_nil_r. split; [exact Hc|]. split.
      * intros Hd. destruct d as [|c r]; [discriminate|]. destruct (Hne ltac:(discriminate)) as (front & last & -> & Hl & Ho).
        exists front, last. auto.
      * intros Hd. destruct d as [|c r]; [|discriminate]. rewrite (Hnil eq_refl). reflexivity.
    + specialize (IH alw'). destruct (frames_loop rs alw') as [gs se] eqn:Eg. cbn [fst snd] in *.
      destruct IH as (Hcg & Ht & Hf).
      assert (Hopen : all_open fs).
      { pose proof (split_open (length d) d alw (le_n _)) as Ho. rewrite E in Ho. exact Ho. }
      split; [|split].
      * rewrite map_app, concat_app. cbn [map concat fst]. f_equal; [exact Hc|exact Hcg].
      * intros Hs. destruct (Ht Hs) as (front & last & -> & Hl & Ho).
        exists (fs ++ front), last. rewrite app_assoc. repeat split; [assumption|]. apply all_open_app; assumption.
      * intros Hs. apply all_open_app; [exact Hopen|apply Hf; exact Hs].
Qed.

(* For EVERY schedule of body reads and EVERY schedule of flow-control allowances: the DATA
   payloads are exactly the bytes read (up to the read that reported EOF), exactly one frame carries
   END_STREAM and it is the last one - no frame before it ends the stream. *)
Theorem h2_body_frames_faithful : forall reads alw,
  concat (map fst (h2_body_frames reads alw)) = concat (map fst (upto_eof reads)) /\
  exists front last, h2_body_frames reads alw = front ++ [last] /\ snd last = true /\ all_open front.
Proof.
  intros reads alw. unfold h2_body_frames.
  pose proof (frames_loop_spec reads alw) as (Hc & Ht & Hf).
  destruct (frames_loop reads alw) as [fs se]. cbn [fst snd] in *. destruct se.
  - split; [exact Hc|]. apply Ht. reflexivity.
  - split.
    + rewrite map_app, concat_app. cbn [map concat fst app]. rewrite app_nil_r. exact Hc.
    + exists fs, ([], true). repeat split. apply Hf. reflexivity.
Qed.
