(* Proofs/LifecycleProofs.v - HTTP/1.1 life-cycle machine (Model/Lifecycle.v): every state
   reachable by ANY sequence of environment events and scheduling choices lies in a finite,
   checked, closed set (Proofs/Reach.v); the C08 statements are decided on that set. *)
From Coq Require Import List Bool Arith NArith PArith FMapPositive Lia.
From ReqV Require Import Model.Lifecycle Proofs.Reach.
Import ListNotations.

(* ---------- decidable equality, hash code, label alphabet ---------- *)

Definition h1_eq_dec : forall a b : h1, {a = b} + {a <> b}.
Proof. repeat decide equality. Defined.

Definition h1_eqb (a b : h1) : bool := if h1_eq_dec a b then true else false.

Lemma h1_eqb_sound : forall a b, h1_eqb a b = true -> a = b.
Proof. intros a b. unfold h1_eqb. destruct (h1_eq_dec a b); [auto|discriminate]. Qed.

Local Open Scope N_scope.
Definition n_bool (b : bool) : N := if b then 1 else 0.
Definition n_cause (c : cause) : N := match c with CCanceled => 0 | CDeadline => 1 | CTimeout => 2 end.
Definition n_ocause (o : option cause) : N := match o with None => 0 | Some c => 1 + n_cause c end.
Definition n_obool (o : option bool) : N := match o with None => 0 | Some b => 1 + n_bool b end.
Definition n_err (e : err) : N := match e with ECause c => n_cause c | EHdrTimeout => 3 | EPeer => 4 | EOther => 5 end.
Definition n_ret (o : option callres) : N :=
  match o with None => 0 | Some (CResp b) => 1 + n_bool b | Some (CErr e) => 3 + n_err e end.
Definition n_loc (l : loc) : N := match l with LGetConn => 0 | LSelect => 1 | LDone => 2 end.
Definition n_dl (d : dl) : N := match d with DNone => 0 | DRunning => 1 | DDone => 2 end.
Definition n_ctx (c : ctxst) : N := match c with CtxLive => 0 | CtxDone => 1 | CtxUser c => 2 + n_cause c end.
Definition n_tm (t : tm) : N := match t with TOff => 0 | TArmed => 1 | TFired => 2 end.
Definition n_rl (r : rls) : N :=
  match r with RPeek => 0 | RWaitBody => 1 | RIdle => 2 | RExit => 3
             | RSend RvErr => 4 | RSend (RvResp b) => 5 + n_bool b end.
Definition n_wl (w : wls) : N := match w with WIdle => 0 | WBusy => 1 | WExit => 2 end.
Definition n_bres (b : bodyres) : N :=
  match b with BNone => 0 | BOpen => 1 | BEofWait => 2 | BCloseWait => 3 | BEOF => 4 | BClosed => 5
             | BErr e => 6 + n_err e end.

Definition mix (ds : list (N * N)) : N := fold_left (fun acc dr => acc * snd dr + fst dr) ds 0.

Definition h1_code (s : h1) : positive :=
  N.succ_pos (mix [(n_loc (at_ s), 3); (n_ret (ret s), 9); (N.of_nat (attempt s), 4); (n_dl (dial s), 3);
                   (n_bool (w_done s), 2); (n_obool (w_res s), 3); (n_ctx (ctx s), 5); (n_obool (werr s), 3);
                   (n_bool (closed s), 2); (n_bool (peer_closed s), 2); (n_tm (timer s), 3);
                   (n_ocause (cerr s), 4); (n_rl (rl s), 7); (n_wl (wl s), 3); (n_bool (wrote_any s), 2);
                   (n_bool (wrote_ok s), 2); (n_bool (in_pool s), 2); (n_bool (spare s), 2);
                   (n_bool (body_closed s), 2); (n_bres (bres s), 12); (n_bool (failed s), 2)]).
Local Close Scope N_scope.

Definition causes := [CCanceled; CDeadline; CTimeout].

Definition labels1 : list label :=
  [XDialDone true; XDialDone false; XWroteSome; XWrote; XWriteErr; XHeaders true; XHeaders false;
   XPeerClose; XBodyData; XBodyEOF; XBodyClose; XCancel CCanceled; XCancel CDeadline; XCancel CTimeout;
   XTimerFire] ++ internals.

Lemma labels1_all : forall l, In l labels1.
Proof.
  intros l. unfold labels1, internals.
  destruct l as [[]| | | |[]| | | | |[]| | | | | | | | | | | | ]; cbn; tauto.
Qed.

Definition M1 (c : cfg1) : smap h1 :=
  match explore h1 label (step1 c) h1_code h1_eqb labels1 400 (init1 c) with
  | Some m => m
  | None => PositiveMap.empty h1
  end.

Definition size1 (c : cfg1) : nat := PositiveMap.cardinal (M1 c).

(* ---------- the closed set is an invariant ---------- *)

Lemma M1_closed : forall c,
  memM h1 h1_code h1_eqb (init1 c) (M1 c) && closedM h1 label (step1 c) h1_code h1_eqb labels1 (M1 c) = true.
Proof. intros [[] [] []]; vm_compute; reflexivity. Qed.

Lemma run1_run : forall c ls s, run1 c s ls = run h1 label (step1 c) s ls.
Proof. intros c ls. induction ls as [|l r IH]; intros s; cbn; [reflexivity|]. destruct (step1 c s l); auto. Qed.

Definition reach1 (c : cfg1) (s : h1) : Prop := exists ls, run1 c (init1 c) ls = Some s.

Lemma reach1_in : forall c s, reach1 c s -> InM h1 s (M1 c).
Proof.
  intros c s [ls H]. rewrite run1_run in H.
  pose proof (M1_closed c) as HC. apply andb_prop in HC as [Hi Hc].
  eapply (reach_sound h1 label (step1 c) h1_code h1_eqb h1_eqb_sound labels1 labels1_all); eauto.
Qed.

Lemma reach1_step : forall c s l s', reach1 c s -> step1 c s l = Some s' -> reach1 c s'.
Proof.
  intros c s l s' [ls H] HS. exists (ls ++ [l]).
  revert H. generalize (init1 c). induction ls as [|a r IH]; intros i H; cbn in *.
  - injection H as ->. rewrite HS. reflexivity.
  - destruct (step1 c i a); [eauto|discriminate].
Qed.

(* decide a state predicate / a transition predicate for every configuration *)
Ltac all_cfg := intros [[] [] []]; vm_compute; reflexivity.

Lemma inv1 : forall (P : cfg1 -> h1 -> bool),
  (forall c, allM h1 (P c) (M1 c) = true) -> forall c s, reach1 c s -> P c s = true.
Proof. intros P H c s R. eapply allM_sound; [apply H|apply reach1_in; exact R]. Qed.

Lemma inv1T : forall (P : cfg1 -> h1 -> label -> h1 -> bool),
  (forall c, allT h1 label (step1 c) labels1 (P c) (M1 c) = true) ->
  forall c s l s', reach1 c s -> step1 c s l = Some s' -> P c s l s' = true.
Proof.
  intros P H c s l s' R HS.
  eapply (allT_sound h1 label (step1 c) labels1 labels1_all); [apply H|apply reach1_in; exact R|exact HS].
Qed.

(* ---------- boolean forms of the statements ---------- *)

Definition is_cause (e : err) (x : ctxst) : bool :=
  match e, x with
  | ECause CCanceled, CtxUser CCanceled | ECause CDeadline, CtxUser CDeadline
  | ECause CTimeout, CtxUser CTimeout => true
  | _, _ => false
  end.

Lemma is_cause_spec : forall e x, is_cause e x = true -> exists cs, x = CtxUser cs /\ e = ECause cs.
Proof. intros [[]| | |] [| []|]; cbn; intros H; try discriminate; eauto. Qed.

(* 1. errors identify the cancellation *)
Definition ident_b (c : cfg1) (s : h1) : bool :=
  failed s ||
  (match ret s with
   | Some (CErr EHdrTimeout) => c_hdr_timeout c
   | Some (CErr e) => is_cause e (ctx s)
   | _ => true
   end &&
   match bres s with BErr e => is_cause e (ctx s) | _ => true end).

Lemma ident_all : forall c, allM h1 (ident_b c) (M1 c) = true.
Proof. all_cfg. Qed.

(* 2. progress and variant under cancellation *)
Definition caller_labels : list label := [IConnResult; IConnCtx; ISelWrite; ISelClosed; ISelTimer; ISelResc; ISelCtx].
Definition is_caller (l : label) : bool :=
  match l with IConnResult | IConnCtx | ISelWrite | ISelClosed | ISelTimer | ISelResc | ISelCtx => true | _ => false end.
Definition user_ctx (s : h1) : bool := match ctx s with CtxUser _ => true | _ => false end.
Definition is_done (s : h1) : bool := match at_ s with LDone => true | _ => false end.

Definition mu1 (s : h1) : nat :=
  match at_ s with
  | LDone => 0
  | LGetConn => 5
  | LSelect => 1 + (if closed s && match cerr s with Some _ => true | None => false end then 0 else 2)
                 + (match werr s, wl s with Some _, _ => 1 | None, WBusy => 1 | None, _ => 0 end)
  end.

Definition enabled1 (c : cfg1) (s : h1) (l : label) : bool :=
  match step1 c s l with Some _ => true | None => false end.

Definition progress_b (c : cfg1) (s : h1) : bool :=
  negb (user_ctx s) || is_done s || existsb (enabled1 c s) caller_labels.

Lemma progress_all : forall c, allM h1 (progress_b c) (M1 c) = true.
Proof. all_cfg. Qed.

Definition variant_b (c : cfg1) (s : h1) (l : label) (s' : h1) : bool :=
  negb (user_ctx s) ||
  (if is_caller l then Nat.ltb (mu1 s') (mu1 s) else Nat.leb (mu1 s') (mu1 s)).

Lemma variant_all : forall c, allT h1 label (step1 c) labels1 (variant_b c) (M1 c) = true.
Proof. all_cfg. Qed.

Definition user_stays_b (c : cfg1) (s : h1) (l : label) (s' : h1) : bool :=
  negb (user_ctx s) || user_ctx s'.
Lemma user_stays_all : forall c, allT h1 label (step1 c) labels1 (user_stays_b c) (M1 c) = true.
Proof. all_cfg. Qed.

(* the pending body read *)
Definition body_pending (s : h1) : bool :=
  match bres s with BOpen | BEofWait | BCloseWait => true | _ => false end.

Definition body_progress_b (c : cfg1) (s : h1) : bool :=
  negb (user_ctx s && body_pending s) ||
  (enabled1 c s IRlCtx &&
   forallb (fun l => match step1 c s l with Some s' => negb (body_pending s') | None => true end)
           [IRlBody; IRlCtx; IRlClosed]).

Lemma body_progress_all : forall c, allM h1 (body_progress_b c) (M1 c) = true.
Proof. all_cfg. Qed.

(* 3. the idle pool holds the connection only after a complete exchange *)
Definition pool_b (c : cfg1) (s : h1) : bool :=
  negb (in_pool s) ||
  (wrote_ok s &&
   match rl s with RIdle | RSend (RvResp false) => true | _ => false end &&
   match bres s with BNone | BEOF => true | _ => false end).

Lemma pool_all : forall c, allM h1 (pool_b c) (M1 c) = true.
Proof. all_cfg. Qed.

(* 4. residue once everything has settled *)
Definition settled1 (c : cfg1) (s : h1) : bool :=
  is_done s && negb (existsb (enabled1 c s) internals) &&
  match wl s with WBusy => false | _ => true end && negb (body_pending s).

Definition residue_b (c : cfg1) (s : h1) : bool :=
  negb (settled1 c s) || (loops_gone s && body_closed s).

Lemma residue_all : forall c, allM h1 (residue_b c) (M1 c) = true.
Proof. all_cfg. Qed.

(* 5. the transport does not start another attempt once the context has ended *)
Definition no_retry_b (c : cfg1) (s : h1) (l : label) (s' : h1) : bool :=
  negb (user_ctx s) || Nat.eqb (attempt s') (attempt s).

Lemma no_retry_all : forall c, allT h1 label (step1 c) labels1 (no_retry_b c) (M1 c) = true.
Proof. all_cfg. Qed.

(* 6. the headline: a settled state after a cancellation *)
Definition anywhere_b (c : cfg1) (s : h1) : bool :=
  negb (user_ctx s && settled1 c s) || failed s ||
  (match ret s with
   | Some (CErr EHdrTimeout) => c_hdr_timeout c
   | Some (CErr e) => is_cause e (ctx s) && negb (in_pool s)
   | Some (CResp b) =>
       (* the response raced the cancellation, or the body read is what failed *)
       match bres s with
       | BErr e => is_cause e (ctx s) && negb (in_pool s)
       | BEOF | BClosed => true
       | BNone => negb b
       | _ => false
       end
   | None => false
   end && loops_gone s && body_closed s).

Lemma anywhere_all : forall c, allM h1 (anywhere_b c) (M1 c) = true.
Proof. all_cfg. Qed.

