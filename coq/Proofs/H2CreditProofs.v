(* Proofs/H2CreditProofs.v - the credit the client returns (receive side of Model/H2Conn.v).
   The strict peer's receive-side books (what it may still send on the connection and on each
   stream) are projected out of the monitor state (`rx_of`); `rx_step` is that projection's own
   transition function and `rx_monitor` shows the monitor implements it.  `RC` is the
   conservation invariant between the client's inflow records and those books; one lemma per
   client event. *)
From Coq Require Import ZArith Bool Lia ZifyBool List.
From ReqV Require Import Lib.GoInt Gen.H2Flow Model.H2Flow Model.H2Monitor Model.H2Conn
                         Proofs.GoIntFacts Proofs.H2FlowProofs Proofs.H2ConnProofs.
Import ListNotations.
Open Scope Z_scope.

(* ---- the peer's receive-side books ---- *)
Definition rx := (Z * Z * list (Z * Z))%type.   (* connection window, client's INITIAL_WINDOW_SIZE, (stream, window) *)

Definition rxp (s : mstream) : Z * Z := (ms_id s, ms_recv s).
Definition rx_of (m : mon) : rx := (m_c_conn_win m, m_c_init_win m, map rxp (m_streams m)).

Definition rx_upd (sid d : Z) (l : list (Z * Z)) : list (Z * Z) :=
  map (fun p => if fst p =? sid then (fst p, snd p + d) else p) l.

Fixpoint rx_mem (sid : Z) (l : list (Z * Z)) : bool :=
  match l with
  | [] => false
  | p :: r => (fst p =? sid) || rx_mem sid r
  end.

Definition rx_step (x : rx) (e : ev) : rx :=
  let '(cw, ciw, l) := x in
  match e with
  | P (FData sid len _) => (cw - len, ciw, rx_upd sid (- len) l)
  | C (FWindowUpdate sid inc) => if sid =? 0 then (cw + inc, ciw, l) else (cw, ciw, rx_upd sid inc l)
  | C (FHeaders sid _ _ _) => if rx_mem sid l then x else (cw, ciw, (sid, ciw) :: l)
  | _ => x
  end.

Definition not_csettings (e : ev) : Prop := match e with C (FSettings _) => False | _ => True end.

Lemma rxp_upd_same : forall sid g l, (forall s, rxp (g s) = rxp s) -> map rxp (upd_ms sid g l) = map rxp l.
Proof.
  intros sid g l Hg. unfold upd_ms. rewrite map_map. apply map_ext. intros s.
  destruct (ms_id s =? sid); [apply Hg|reflexivity].
Qed.

Lemma rxp_map_same : forall g l, (forall s, rxp (g s) = rxp s) -> map rxp (map g l) = map rxp l.
Proof. intros g l Hg. rewrite map_map. apply map_ext. exact Hg. Qed.

Lemma rxp_upd_add : forall sid g d l, (forall s, rxp (g s) = (ms_id s, ms_recv s + d)) ->
  map rxp (upd_ms sid g l) = rx_upd sid d (map rxp l).
Proof.
  intros sid g d l Hg. unfold upd_ms, rx_upd. rewrite !map_map. apply map_ext. intros s.
  cbn [rxp fst snd]. destruct (ms_id s =? sid); [apply Hg|reflexivity].
Qed.

Lemma rx_mem_find : forall sid l, rx_mem sid (map rxp l) = match find_ms sid l with Some _ => true | None => false end.
Proof.
  induction l as [|s r IH]; simpl; [reflexivity|].
  destruct (ms_id s =? sid); simpl; [reflexivity|exact IH].
Qed.

Lemma rx_apply_setting : forall m kv, rx_of (apply_setting m kv) = rx_of m.
Proof.
  intros m [id v]. unfold apply_setting.
  destruct (id =? S_MAX_FRAME_SIZE); [reflexivity|].
  destruct (id =? S_MAX_CONCURRENT_STREAMS); [reflexivity|].
  destruct (id =? S_INITIAL_WINDOW_SIZE); [|reflexivity].
  unfold rx_of. cbn. f_equal. apply rxp_map_same. intros s. destruct (ms_closed s); reflexivity.
Qed.

Lemma rx_apply_settings : forall kvs m, rx_of (apply_settings m kvs) = rx_of m.
Proof.
  unfold apply_settings. induction kvs as [|kv r IH]; intros m; simpl; [reflexivity|].
  rewrite IH. apply rx_apply_setting.
Qed.

(* the monitor keeps exactly these books *)
Lemma rx_monitor : forall m e m', not_csettings e -> monitor_step m e = inl m' -> rx_of m' = rx_step (rx_of m) e.
Proof.
  intros m e m' Hn H. destruct e as [f|f]; cbn [monitor_step] in H.
  - unfold mon_client in H.
    destruct (negb (m_hdr_open m =? 0) && negb (is_continuation_on f (m_hdr_open m))); [discriminate|].
    destruct (match frame_len f with Some l => max_frame_allowed m <? l | None => false end); [discriminate|].
    destruct f; cbn [not_csettings] in Hn; try contradiction; unfold ok, bad in H.
    + (* ack *) destruct (m_pending m) as [|kvs rest]; [discriminate|]. inversion H; subst.
      rewrite rx_apply_settings. reflexivity.
    + (* window update *) unfold rx_of at 2. cbn [rx_step]. destruct (sid =? 0); inversion H; subst; unfold rx_of; cbn.
      * reflexivity.
      * f_equal. apply rxp_upd_add. intros s. reflexivity.
    + (* headers *) unfold rx_of at 2. cbn [rx_step]. rewrite rx_mem_find.
      destruct (find_ms sid (m_streams m)) as [s|].
      * destruct (ms_cli_closed s); [discriminate|]. inversion H; subst.
        destruct end_headers, end_stream; unfold rx_of; cbn; f_equal; try reflexivity;
          apply rxp_upd_same; intros s0; reflexivity.
      * destruct (Z.even sid || (sid <=? m_last_sid m)); [discriminate|].
        destruct (negb (streams_allowed m)); [discriminate|]. inversion H; subst. reflexivity.
    + (* continuation *) destruct (m_hdr_open m =? 0); [discriminate|]. inversion H; subst.
      destruct end_headers; reflexivity.
    + (* data *) destruct (find_ms sid (m_streams m)) as [s|]; [|discriminate].
      destruct (ms_cli_closed s); [discriminate|]. cbv zeta in H.
      destruct ((0 <? len) && negb (ms_closed s) && (ms_win s - len <? 0)); [discriminate|].
      destruct ((0 <? len) && (m_conn_win m - len <? 0)); [discriminate|]. inversion H; subst.
      unfold rx_of; cbn. f_equal. apply rxp_upd_same. intros s0.
      destruct (ms_closed s0), end_stream; reflexivity.
    + (* rst *) destruct (find_ms sid (m_streams m)); [|discriminate]. inversion H; subst.
      unfold rx_of; cbn. f_equal. apply rxp_upd_same. intros s0. reflexivity.
    + inversion H; subst. reflexivity.
    + destruct ack.
      * destruct (m_pings m) as [|mark rest]; [inversion H; subst; reflexivity|].
        destruct (m_acked m <? mark); [discriminate|]. inversion H; subst. reflexivity.
      * inversion H; subst. reflexivity.
    + destruct (code =? 0); [|discriminate]. inversion H; subst. reflexivity.
    + inversion H; subst. reflexivity.
  - unfold ok in H. inversion H; subst. clear H. destruct f; cbn [mon_peer]; try reflexivity.
    + unfold rx_of; cbn [rx_step]. destruct (sid =? 0); cbn; [reflexivity|].
      f_equal. apply rxp_upd_same. intros s0. reflexivity.
    + destruct end_stream; [|reflexivity]. unfold rx_of; cbn. f_equal. apply rxp_upd_same. intros s0. reflexivity.
    + unfold rx_of; cbn. f_equal. apply rxp_upd_add. intros s0. destruct end_stream; reflexivity.
    + unfold rx_of; cbn. f_equal. apply rxp_upd_same. intros s0. reflexivity.
    + destruct ack; reflexivity.
Qed.

Lemma rx_monitor_steps : forall evs m m', Forall not_csettings evs -> mon_steps m evs = Some m' ->
  rx_of m' = fold_left rx_step evs (rx_of m).
Proof.
  induction evs as [|e r IH]; intros m m' Hn H; simpl in *.
  - inversion H; reflexivity.
  - inversion Hn; subst. destruct (monitor_step m e) as [m1|] eqn:E; [|discriminate].
    rewrite (IH _ _ H3 H). f_equal. apply rx_monitor; assumption.
Qed.

(* ---- the conservation invariant ---- *)
Definition live (s : cstream) : bool := negb (cs_forgotten s) && negb (cs_peer_reset s).
Definition open_rx (s : cstream) : bool :=
  live s && negb (cs_app_closed s) && negb (cs_peer_ended s) && negb (cs_read_failed s).
Definition unsent_ok (f : inflow) : Prop :=
  in_unsent f = 0 \/ (in_unsent f < inflowMinRefresh /\ in_unsent f < in_avail f).

Definition SRC (W : Z) (s : cstream) (p : Z * Z) : Prop :=
  cs_id s = fst p /\ 0 < cs_id s /\ 0 <= cs_buf s /\ (cs_app_closed s = true -> cs_buf s = 0) /\
  0 <= in_avail (cs_in s) /\ 0 <= in_unsent (cs_in s) /\
  in_avail (cs_in s) + in_unsent (cs_in s) + cs_buf s <= W /\
  (live s = true -> snd p = in_avail (cs_in s)) /\
  (open_rx s = true -> in_avail (cs_in s) + in_unsent (cs_in s) + cs_buf s = W /\ unsent_ok (cs_in s)).

Definition RC (I : Z) (c : conn) (x : rx) : Prop :=
  snd (fst x) = cc_stream_in c /\ 0 <= cc_stream_in c <= 2147483647 /\
  fst (fst x) = in_avail (cc_in c) /\ 0 <= in_avail (cc_in c) /\ 0 <= in_unsent (cc_in c) /\
  in_avail (cc_in c) + in_unsent (cc_in c) + total_buffered (cc_streams c) = I /\ I <= 2147483647 /\
  unsent_ok (cc_in c) /\
  Forall2 (SRC (cc_stream_in c)) (cc_streams c) (snd x) /\
  desc (cc_next_id c) (cc_streams c) /\ 0 < cc_next_id c.

Ltac dRC H :=
  destruct H as (Cciw & Cwr & Ccw & Ca0 & Cu0 & Csum & CI & Cuok & Cst & Cdesc & Cnid).

(* ---- inflow operations as used by the machine ---- *)
Lemma in_add_ret_spec : forall f n r f', 0 <= in_avail f -> 0 <= in_unsent f -> 0 <= n ->
  in_avail f + in_unsent f + n <= 2147483647 ->
  in_add_ret f n = (r, f') ->
  in_avail f' + in_unsent f' = in_avail f + in_unsent f + n /\ in_avail f' = in_avail f + r /\ 0 <= r /\
  0 <= in_unsent f' /\ unsent_ok f'.
Proof.
  intros f n r f' Ha Hu Hn Hs H. unfold in_add_ret, in_add in H.
  rewrite inflow_add_spec in H by lia.
  replace (n <? 0) with false in H by lia.
  replace (in_avail f + in_unsent f + n >? 2147483647) with false in H by lia.
  unfold unsent_ok.
  destruct ((in_unsent f + n <? inflowMinRefresh) && (in_unsent f + n <? in_avail f)) eqn:E;
    inversion H; subst; cbn; unfold inflowMinRefresh in *; lia.
Qed.

Lemma in_take_true : forall f n f1, 0 <= in_avail f <= 2147483647 -> 0 <= n <= 4294967295 ->
  in_take f n = (Ret true, f1) ->
  n <= in_avail f /\ in_avail f1 = in_avail f - n /\ in_unsent f1 = in_unsent f.
Proof.
  intros f n f1 Ha Hn H. unfold in_take in H. rewrite inflow_take_spec in H by lia.
  destruct (n <=? in_avail f) eqn:E; inversion H; subst; cbn. lia.
Qed.

Lemma in_take2_true : forall f g n f1 g1, 0 <= in_avail f <= 2147483647 -> 0 <= in_avail g <= 2147483647 ->
  0 <= n <= 4294967295 ->
  in_take2 f g n = (Ret true, (f1, g1)) ->
  n <= in_avail f /\ n <= in_avail g /\
  in_avail f1 = in_avail f - n /\ in_unsent f1 = in_unsent f /\
  in_avail g1 = in_avail g - n /\ in_unsent g1 = in_unsent g.
Proof.
  intros f g n f1 g1 Ha Hg Hn H. unfold in_take2 in H. rewrite take_inflows_spec in H by lia.
  destruct ((n <=? in_avail f) && (n <=? in_avail g)) eqn:E; inversion H; subst; cbn. lia.
Qed.

(* ---- list lemmas ---- *)
Lemma SRC_weaken : forall W s s' p, SRC W s p ->
  cs_id s' = cs_id s -> cs_in s' = cs_in s -> cs_buf s' = cs_buf s -> cs_app_closed s' = cs_app_closed s ->
  (live s' = true -> live s = true) -> (open_rx s' = true -> open_rx s = true) -> SRC W s' p.
Proof.
  intros W s s' p (H1 & H2 & H3 & H4 & H5 & H6 & H7 & H8 & H9) E1 E2 E3 E4 L O.
  unfold SRC. rewrite E1, E2, E3, E4. repeat split; auto; try (apply H9; auto).
Qed.

Lemma F2C_map_left : forall W h cs l, Forall2 (SRC W) cs l -> (forall s p, SRC W s p -> SRC W (h s) p) ->
  Forall2 (SRC W) (map h cs) l.
Proof. induction 1; intros Hh; simpl; constructor; auto. Qed.

Lemma F2C_upd_left : forall W sid f cs l, Forall2 (SRC W) cs l -> (forall s p, SRC W s p -> SRC W (f s) p) ->
  Forall2 (SRC W) (upd_cs sid f cs) l.
Proof.
  intros. rewrite upd_cs_map. apply F2C_map_left; auto. intros s p Hs. destruct (cs_id s =? sid); auto.
Qed.

Lemma tb_map : forall h l, (forall s, cs_buf (h s) = cs_buf s) -> total_buffered (map h l) = total_buffered l.
Proof. intros h l Hh. induction l as [|s r IH]; simpl; [reflexivity|]. rewrite Hh, IH. reflexivity. Qed.

Lemma tb_upd_same : forall sid f l, (forall s, cs_buf (f s) = cs_buf s) -> total_buffered (upd_cs sid f l) = total_buffered l.
Proof. intros. rewrite upd_cs_map. apply tb_map. intros s. destruct (cs_id s =? sid); auto. Qed.

Lemma tb_nonneg : forall W cs l, Forall2 (SRC W) cs l -> 0 <= total_buffered cs.
Proof. induction 1 as [|s p cs l H0 H IH]; simpl; [lia|]. destruct H0 as (_ & _ & Hb & _). lia. Qed.

Lemma tb_upd_found : forall b sid f s l, desc b l -> find_cs sid l = Some s ->
  total_buffered (upd_cs sid f l) = total_buffered l - cs_buf s + cs_buf (f s).
Proof.
  intros b sid f s l. revert b. induction l as [|s0 r IH]; simpl; intros b Hd Hf; [discriminate|].
  destruct Hd as [H1 H2]. destruct (cs_id s0 =? sid) eqn:E.
  - inversion Hf; subst s0. fold (upd_cs sid f r). rewrite (desc_upd_noop r (cs_id s) sid f H2) by lia. lia.
  - fold (upd_cs sid f r). rewrite (IH (cs_id s0)); auto. lia.
Qed.

Definition rx_map (sid : Z) (g : Z -> Z) (l : list (Z * Z)) : list (Z * Z) :=
  map (fun p => if fst p =? sid then (fst p, g (snd p)) else p) l.

Lemma rx_upd_map : forall sid d l, rx_upd sid d l = rx_map sid (fun v => v + d) l.
Proof. reflexivity. Qed.

Lemma rx_map_noop : forall W cs l b sid g, Forall2 (SRC W) cs l -> desc b cs -> b <= sid -> rx_map sid g l = l.
Proof.
  intros W cs l b sid g H. revert b.
  induction H as [|c0 p cs l H0 H IH]; simpl; intros b Hd Hb; [reflexivity|].
  destruct Hd as [H1 H2]. destruct H0 as (Hid & _). rewrite <- Hid.
  replace (cs_id c0 =? sid) with false by lia. f_equal. apply (IH (cs_id c0)); [exact H2|lia].
Qed.

Lemma F2C_upd_found : forall W b sid f g s cs l, Forall2 (SRC W) cs l -> desc b cs -> find_cs sid cs = Some s ->
  (forall p, SRC W s p -> SRC W (f s) (fst p, g (snd p))) ->
  Forall2 (SRC W) (upd_cs sid f cs) (rx_map sid g l).
Proof.
  intros W b sid f g s cs l H. revert b.
  induction H as [|c0 p cs l H0 H IH]; intros b Hd Hf Hfg; simpl in *; [constructor|].
  destruct Hd as [H1 H2]. pose proof H0 as (Hid & _).
  replace (fst p =? sid) with (cs_id c0 =? sid) by (rewrite Hid; reflexivity).
  destruct (cs_id c0 =? sid) eqn:E.
  - inversion Hf; subst c0. constructor; [apply Hfg; exact H0|].
    fold (upd_cs sid f cs). rewrite (desc_upd_noop cs (cs_id s) sid f H2) by lia.
    fold (rx_map sid g l). rewrite (rx_map_noop W cs l (cs_id s) sid g H H2) by lia. exact H.
  - constructor; [exact H0|]. apply (IH (cs_id c0)); assumption.
Qed.

Lemma upd_cs_id : forall sid l, upd_cs sid (fun s => s) l = l.
Proof. induction l as [|s r IH]; simpl; [reflexivity|]. fold (upd_cs sid (fun s => s) r). rewrite IH. destruct (cs_id s =? sid); reflexivity. Qed.

Lemma rx_map_id : forall sid l, rx_map sid (fun v => v) l = l.
Proof.
  induction l as [|p r IH]; simpl; [reflexivity|]. fold (rx_map sid (fun v => v) r). rewrite IH.
  destruct p as [a b]; cbn. destruct (a =? sid); reflexivity.
Qed.

Lemma F2C_found : forall W sid s cs l, Forall2 (SRC W) cs l -> find_cs sid cs = Some s ->
  exists p, SRC W s p /\ cs_id s = sid /\ rx_mem sid l = true.
Proof.
  induction 1 as [|c0 p cs l H0 H IH]; simpl; intros Hf; [discriminate|].
  pose proof H0 as (Hid & _). rewrite <- Hid. destruct (cs_id c0 =? sid) eqn:E.
  - inversion Hf; subst. exists p. split; [exact H0|split; [lia|reflexivity]].
  - destruct (IH Hf) as (q & A & B & D). exists q. auto.
Qed.

Lemma rx_mem_fresh : forall W cs l b sid, Forall2 (SRC W) cs l -> desc b cs -> b <= sid -> rx_mem sid l = false.
Proof.
  intros W cs l b sid H. revert b.
  induction H as [|c0 p cs l H0 H IH]; simpl; intros b Hd Hb; [reflexivity|].
  destruct Hd as [H1 H2]. destruct H0 as (Hid & _). rewrite <- Hid.
  replace (cs_id c0 =? sid) with false by lia. simpl. apply (IH (cs_id c0)); [exact H2|lia].
Qed.

Lemma tb_ge_found : forall W sid s cs l, Forall2 (SRC W) cs l -> find_cs sid cs = Some s -> cs_buf s <= total_buffered cs.
Proof.
  induction 1 as [|c0 p cs l H0 H IH]; simpl; intros Hf; [discriminate|].
  pose proof (tb_nonneg _ _ _ H). destruct H0 as (_ & _ & Hb & _).
  destruct (cs_id c0 =? sid); [inversion Hf; subst; lia|]. specialize (IH Hf). lia.
Qed.

(* ---- the books only move on DATA from the peer, WINDOW_UPDATE and new streams ---- *)
Definition rx_neutral (e : ev) : Prop := forall x, rx_step x e = x.

Lemma rx_fold_neutral : forall out x, Forall rx_neutral out -> fold_left rx_step out x = x.
Proof. induction out as [|e r IH]; intros x H; simpl; [reflexivity|]. inversion H; subst. rewrite H2. apply IH; assumption. Qed.

Lemma neutral_cont : forall fuel sid rest maxf, Forall rx_neutral (cl (cont_frames fuel sid rest maxf)).
Proof.
  induction fuel as [|k IH]; intros; cbn [cont_frames cl map]; [constructor|].
  destruct (rest <=? 0); [constructor|]. constructor; [|apply IH]. intros [[cw ciw] l]. reflexivity.
Qed.

Lemma rx_upd_0 : forall sid l, rx_upd sid 0 l = l.
Proof.
  unfold rx_upd. induction l as [|p r IH]; simpl; [reflexivity|]. rewrite IH.
  destruct p as [a b]; cbn. destruct (a =? sid); [|reflexivity]. f_equal. f_equal. lia.
Qed.

Lemma rx_fold_wu : forall sid n cw ciw l out, 0 <= n ->
  fold_left rx_step (wu sid n ++ out) (cw, ciw, l) =
  fold_left rx_step out (if sid =? 0 then (cw + n, ciw, l) else (cw, ciw, rx_upd sid n l)).
Proof.
  intros sid n cw ciw l out Hn. unfold wu. destruct (0 <? n) eqn:E.
  - cbn [app fold_left rx_step]. reflexivity.
  - assert (n = 0) by lia. subst n. cbn [app]. rewrite rx_upd_0. replace (cw + 0) with cw by lia.
    destruct (sid =? 0); reflexivity.
Qed.

Lemma RC_same_recv : forall I c c' x, RC I c x ->
  cc_stream_in c' = cc_stream_in c -> cc_in c' = cc_in c -> cc_next_id c' = cc_next_id c ->
  total_buffered (cc_streams c') = total_buffered (cc_streams c) ->
  Forall2 (SRC (cc_stream_in c)) (cc_streams c') (snd x) -> desc (cc_next_id c) (cc_streams c') ->
  RC I c' x.
Proof.
  intros I c c' x H E1 E2 E3 E4 F D. dRC H. unfold RC. rewrite E1, E2, E3, E4. repeat split; auto; lia.
Qed.

(* a stream-level change that touches neither the receive side nor makes a stream live again *)
Definition recv_mono (f : cstream -> cstream) : Prop :=
  forall s, cs_id (f s) = cs_id s /\ cs_in (f s) = cs_in s /\ cs_buf (f s) = cs_buf s /\
            cs_app_closed (f s) = cs_app_closed s /\
            (live (f s) = true -> live s = true) /\ (open_rx (f s) = true -> open_rx s = true).

Lemma SRC_mono : forall W f s p, recv_mono f -> SRC W s p -> SRC W (f s) p.
Proof. intros W f s p Hf H. destruct (Hf s) as (A & B & C0 & D & E & F). eapply SRC_weaken; eauto. Qed.

Lemma RC_upd_mono : forall I c x sid f c', RC I c x -> recv_mono f ->
  cc_stream_in c' = cc_stream_in c -> cc_in c' = cc_in c -> cc_next_id c' = cc_next_id c ->
  cc_streams c' = upd_cs sid f (cc_streams c) -> RC I c' x.
Proof.
  intros I c x sid f c' H Hf E1 E2 E3 E4. pose proof H as H0. dRC H0.
  eapply RC_same_recv; eauto; rewrite E4.
  - apply tb_upd_same. intros s. apply (Hf s).
  - apply F2C_upd_left; auto. intros s p. apply SRC_mono; assumption.
  - apply desc_upd; auto. intros s. apply (Hf s).
Qed.

Lemma RC_map_mono : forall I c x f c', RC I c x -> recv_mono f ->
  cc_stream_in c' = cc_stream_in c -> cc_in c' = cc_in c -> cc_next_id c' = cc_next_id c ->
  cc_streams c' = map f (cc_streams c) -> RC I c' x.
Proof.
  intros I c x f c' H Hf E1 E2 E3 E4. pose proof H as H0. dRC H0.
  eapply RC_same_recv; eauto; rewrite E4.
  - apply tb_map. intros s. apply (Hf s).
  - apply F2C_map_left; auto. intros s p. apply SRC_mono; assumption.
  - apply desc_map; auto. intros s. apply (Hf s).
Qed.

Ltac mono_tac := intros s0; unfold open_rx, live; cbn; repeat split; auto;
  try (intros; discriminate); try (rewrite ?andb_false_r; intros; discriminate).

(* ---- one lemma per event ---- *)
Definition rc_ok (I : Z) (c : conn) (x : rx) (e : cev) : Prop :=
  RC I (fst (conn_step c e)) (fold_left rx_step (snd (conn_step c e)) x).

Lemma neutral_simple : forall e,
  match e with
  | P (FData _ _ _) | C (FWindowUpdate _ _) | C (FHeaders _ _ _ _) => False
  | _ => True
  end -> rx_neutral e.
Proof.
  intros e H [[cw ciw] l]. destruct e as [f|f]; destruct f; try contradiction; reflexivity.
Qed.

Lemma rc_send_data : forall I c x sid want fin, RC I c x -> rc_ok I c x (ESendData sid want fin).
Proof.
  intros I c x sid want fin H. unfold rc_ok. cbn [conn_step].
  destruct (find_cs sid (cc_streams c)) as [s|]; [|exact H].
  destruct (negb (cs_forgotten s) && negb (cs_end_sent s) && negb (cs_reset s) && (1 <=? want)
            && (0 <? out_avail_stream (cs_flow s) (cc_flow c))); [|exact H].
  destruct (out_take_stream (cs_flow s) (cc_flow c)
              (Z.min (Z.min (out_avail_stream (cs_flow s) (cc_flow c)) want) (cc_max_frame c))) as [[n' cn']|]; [|exact H].
  cbn [fst snd fold_left rx_step]. destruct x as [[cw ciw] l].
  eapply RC_upd_mono; [exact H| | | | |reflexivity]; try reflexivity.
  intros s0. destruct (fin && _); unfold open_rx, live; cbn; repeat split; auto.
Qed.

Lemma rc_reset : forall I c x sid, RC I c x -> rc_ok I c x (EReset sid).
Proof.
  intros I c x sid H. unfold rc_ok. cbn [conn_step].
  destruct (find_cs sid (cc_streams c)) as [s|]; [|exact H].
  destruct (negb (cs_forgotten s) && negb (cs_reset s)); [|exact H].
  cbn [fst snd fold_left rx_step]. destruct x as [[cw ciw] l].
  eapply RC_upd_mono; [exact H| | | | |reflexivity]; try reflexivity. mono_tac.
Qed.

Lemma rc_forget : forall I c x sid, RC I c x -> rc_ok I c x (EForget sid).
Proof.
  intros I c x sid H. unfold rc_ok. cbn [conn_step].
  destruct (find_cs sid (cc_streams c)) as [s|]; [|exact H].
  destruct (negb (cs_forgotten s) && (cs_end_sent s && cs_peer_ended s || cs_peer_reset s)); [|exact H].
  cbn [fst snd fold_left].
  eapply RC_upd_mono; [exact H| | | | |reflexivity]; try reflexivity. mono_tac.
Qed.

Lemma rc_peer_rst : forall I c x sid, RC I c x -> rc_ok I c x (EPeerRst sid).
Proof.
  intros I c x sid H. unfold rc_ok. cbn [conn_step fst snd fold_left rx_step]. destruct x as [[cw ciw] l].
  eapply RC_upd_mono; [exact H| | | | |reflexivity]; try reflexivity.
  intros s0. destruct (cs_forgotten s0) eqn:E; unfold open_rx, live; cbn; repeat split; auto;
    rewrite ?E; try (intros; discriminate); try (rewrite ?andb_false_r; intros; discriminate).
Qed.

Lemma rc_goaway : forall I c x last, RC I c x -> rc_ok I c x (EGoAway last).
Proof.
  intros I c x last H. unfold rc_ok. cbn [conn_step fst snd fold_left rx_step]. destruct x as [[cw ciw] l].
  dRC H. unfold RC. cbn. repeat split; auto; lia.
Qed.

Lemma rc_window_update : forall I c x sid inc, RC I c x -> rc_ok I c x (EWindowUpdate sid inc).
Proof.
  intros I c x sid inc H. unfold rc_ok. cbn [conn_step].
  destruct ((1 <=? inc) && (inc <=? 2147483647)); [|exact H].
  destruct (sid =? 0).
  - destruct (out_add_conn (cc_flow c) inc) as [okb n']. cbn [fst snd fold_left rx_step]. destruct x as [[cw ciw] l].
    dRC H. destruct okb; unfold RC; cbn; repeat split; auto; lia.
  - cbn [fst snd fold_left rx_step]. destruct x as [[cw ciw] l].
    eapply RC_upd_mono; [exact H| | | | |reflexivity]; try reflexivity.
    intros s0. destruct (cs_forgotten s0); unfold open_rx, live; cbn; repeat split; auto.
Qed.

Lemma rc_client_setting : forall I c x kv, RC I c x -> RC I (client_setting c kv) x.
Proof.
  intros I c x [id v] H. unfold client_setting.
  destruct (id =? S_MAX_FRAME_SIZE); [dRC H; unfold RC; cbn; repeat split; auto; lia|].
  destruct (id =? S_MAX_CONCURRENT_STREAMS); [dRC H; unfold RC; cbn; repeat split; auto; lia|].
  destruct (id =? S_INITIAL_WINDOW_SIZE); [|exact H].
  eapply RC_map_mono; [exact H| | | | |reflexivity]; try reflexivity.
  intros s0. destruct (cs_forgotten s0); unfold open_rx, live; cbn; repeat split; auto.
Qed.

Lemma rc_client_settings : forall kvs I c x, RC I c x -> RC I (fold_left client_setting kvs c) x.
Proof. induction kvs as [|kv r IH]; intros; simpl; [assumption|]. apply IH. apply rc_client_setting. assumption. Qed.

Lemma rc_settings : forall I c x kvs, RC I c x -> rc_ok I c x (ESettings kvs).
Proof.
  intros I c x kvs H. unfold rc_ok. cbn [conn_step].
  destruct (settings_valid kvs); [|exact H].
  cbn [fst snd fold_left rx_step]. destruct x as [[cw ciw] l].
  pose proof (rc_client_settings kvs _ _ _ H) as H1. dRC H1. unfold RC. cbn. repeat split; auto; lia.
Qed.

Lemma rc_send_end : forall I c x sid tlen, RC I c x -> rc_ok I c x (ESendEnd sid tlen).
Proof.
  intros I c x sid tlen H. unfold rc_ok. cbn [conn_step].
  destruct (find_cs sid (cc_streams c)) as [s|] eqn:Ef; [|exact H].
  destruct (negb (cs_forgotten s) && negb (cs_end_sent s) && negb (cs_reset s) && (cc_prio_len c <? cc_max_frame c)); [|exact H].
  cbn [fst snd].
  assert (HX : fold_left rx_step (if tlen <=? 0 then [C (FData sid 0 true)]
                 else cl (hdr_frames sid tlen (cc_max_frame c) (cc_prio_len c) true)) x = x).
  { destruct (tlen <=? 0).
    - destruct x as [[cw ciw] l]. reflexivity.
    - unfold hdr_frames. cbn [cl map fold_left]. destruct x as [[cw ciw] l]. cbn [rx_step].
      pose proof H as H0. dRC H0. cbn [snd] in Cst.
      destruct (F2C_found _ _ _ _ _ Cst Ef) as (p & _ & _ & Hm). rewrite Hm.
      apply rx_fold_neutral. apply neutral_cont. }
  rewrite HX.
  eapply RC_upd_mono; [exact H| | | | |reflexivity]; try reflexivity.
  intros s0. unfold open_rx, live; cbn; repeat split; auto.
Qed.

Lemma rc_open : forall I c x hlen es, RC I c x -> rc_ok I c x (EOpen hlen es).
Proof.
  intros I c x hlen es H. unfold rc_ok. cbn [conn_step].
  destruct (negb (cc_dead c) && (active_count (cc_streams c) <? cc_max_streams c) && (1 <=? hlen)
            && (cc_prio_len c <? cc_max_frame c) && (cc_next_id c <? 2147483647)); [|exact H].
  cbn [fst snd]. unfold hdr_frames. cbn [cl map fold_left]. destruct x as [[cw ciw] l]. cbn [rx_step].
  dRC H. cbn [fst snd] in *.
  rewrite (rx_mem_fresh _ _ _ (cc_next_id c) (cc_next_id c) Cst Cdesc) by lia.
  fold (cl (cont_frames (Z.to_nat hlen) (cc_next_id c) (hlen - Z.min hlen (cc_max_frame c - cc_prio_len c)) (cc_max_frame c))).
  rewrite rx_fold_neutral by apply neutral_cont.
  unfold RC. cbn. repeat split; auto; try lia.
  constructor; [|exact Cst].
  unfold SRC, live, open_rx, unsent_ok. cbn. repeat split; auto; lia.
Qed.

Lemma rc_app_close : forall I c x sid, RC I c x -> rc_ok I c x (EAppClose sid).
Proof.
  intros I c x sid H. unfold rc_ok. cbn [conn_step].
  destruct (find_cs sid (cc_streams c)) as [s|] eqn:Ef; [|exact H].
  destruct (negb (cs_app_closed s)) eqn:Eac; [|exact H].
  pose proof H as H0. dRC H0. destruct x as [[cw ciw] l]. cbn [fst snd] in *.
  destruct (F2C_found _ _ _ _ _ Cst Ef) as (p & HS & Hid & _).
  pose proof HS as (S1 & S2 & S3 & S4 & S5 & S6 & S7 & S8 & S9).
  pose proof (tb_ge_found _ _ _ _ _ Cst Ef) as Hge.
  pose proof (tb_nonneg _ _ _ Cst) as Htb.
  assert (Hadd : exists rc f2, (if 0 <? cs_buf s then in_add_ret (cc_in c) (cs_buf s) else (0, cc_in c)) = (rc, f2) /\
            in_avail f2 + in_unsent f2 = in_avail (cc_in c) + in_unsent (cc_in c) + cs_buf s /\
            in_avail f2 = in_avail (cc_in c) + rc /\ 0 <= rc /\ 0 <= in_unsent f2 /\ unsent_ok f2).
  { destruct (0 <? cs_buf s) eqn:Eb.
    - destruct (in_add_ret (cc_in c) (cs_buf s)) as [rc f2] eqn:Ea. exists rc, f2. split; [reflexivity|].
      apply (in_add_ret_spec _ _ _ _ Ca0 Cu0) in Ea; try lia. exact Ea.
    - exists 0, (cc_in c). split; [reflexivity|]. repeat split; auto; lia. }
  destruct Hadd as (rc & f2 & Ea & A1 & A2 & A3 & A4 & A5). rewrite Ea. cbn [fst snd].
  rewrite <- (app_nil_r (wu 0 rc)). rewrite rx_fold_wu by lia. cbn [Z.eqb fold_left].
  unfold RC. cbn [fst snd set_cstreams set_cin cc_stream_in cc_in cc_streams cc_next_id].
  rewrite (tb_upd_found _ _ _ _ _ Cdesc Ef). cbn [cs_set_app_closed cs_buf].
  repeat split; auto; try lia.
  - rewrite <- (rx_map_id sid l). eapply F2C_upd_found; eauto.
    intros q (Q1 & Q2 & Q3 & Q4 & Q5 & Q6 & Q7 & Q8 & Q9).
    unfold SRC, open_rx, live in *. cbn. destruct q as [qa qb]; cbn in *.
    repeat split; auto; try lia; try (rewrite ?andb_false_r; intros; discriminate).
  - apply desc_upd; auto.
Qed.

Lemma rc_app_read : forall I c x sid n eof, RC I c x -> rc_ok I c x (EAppRead sid n eof).
Proof.
  intros I c x sid n eof H. unfold rc_ok. cbn [conn_step].
  destruct (find_cs sid (cc_streams c)) as [s|] eqn:Ef; [|exact H].
  destruct ((1 <=? n) && (n <=? cs_buf s) && negb (cs_app_closed s) && negb (cs_read_failed s)) eqn:G;
    [|exact H].
  pose proof H as H0. dRC H0. destruct x as [[cw ciw] l]. cbn [fst snd] in *.
  destruct (F2C_found _ _ _ _ _ Cst Ef) as (p & HS & Hid & _).
  pose proof HS as (S1 & S2 & S3 & S4 & S5 & S6 & S7 & S8 & S9).
  pose proof (tb_ge_found _ _ _ _ _ Cst Ef) as Hge.
  assert (Hn : 1 <= n <= cs_buf s) by lia.
  assert (Hac : cs_app_closed s = false) by (destruct (cs_app_closed s); [rewrite ?andb_false_r in G; simpl in G; rewrite ?andb_false_r in G; discriminate|reflexivity]).
  destruct (in_add_ret (cc_in c) n) as [rc f2] eqn:Ea.
  apply (in_add_ret_spec _ _ _ _ Ca0 Cu0) in Ea; try lia. destruct Ea as (A1 & A2 & A3 & A4 & A5).
  assert (Hs : exists rs g2, (if eof then (0, cs_in s) else in_add_ret (cs_in s) n) = (rs, g2) /\
            0 <= rs /\ in_avail g2 = in_avail (cs_in s) + rs /\ 0 <= in_unsent g2 /\
            in_avail g2 + in_unsent g2 <= in_avail (cs_in s) + in_unsent (cs_in s) + n /\
            (eof = false -> in_avail g2 + in_unsent g2 = in_avail (cs_in s) + in_unsent (cs_in s) + n /\ unsent_ok g2)).
  { destruct eof.
    - exists 0, (cs_in s). split; [reflexivity|]. repeat split; try lia; intros; discriminate.
    - destruct (in_add_ret (cs_in s) n) as [rs g2] eqn:Es. exists rs, g2. split; [reflexivity|].
      apply (in_add_ret_spec _ _ _ _ S5 S6) in Es; try lia. destruct Es as (B1 & B2 & B3 & B4 & B5).
      repeat split; auto; lia. }
  destruct Hs as (rs & g2 & Es & B1 & B2 & B3 & B4 & B5). rewrite Es. cbn [fst snd].
  rewrite rx_fold_wu by lia. cbn [Z.eqb].
  rewrite <- (app_nil_r (wu sid rs)). rewrite rx_fold_wu by lia.
  replace (sid =? 0) with false by lia. cbn [fold_left].
  unfold RC. cbn [fst snd set_cstreams set_cin cc_stream_in cc_in cc_streams cc_next_id].
  rewrite (tb_upd_found _ _ _ _ _ Cdesc Ef).
  set (s' := if eof then cs_set_read_failed (cs_set_recv s g2 (cs_buf s - n)) else cs_set_recv s g2 (cs_buf s - n)).
  assert (F : cs_id s' = cs_id s /\ cs_buf s' = cs_buf s - n /\ cs_in s' = g2 /\ cs_app_closed s' = cs_app_closed s /\
              live s' = live s /\ (open_rx s' = true -> open_rx s = true /\ eof = false)).
  { unfold s'. destruct eof; unfold open_rx, live; cbn; repeat split; auto;
      intros; rewrite ?andb_false_r in *; try discriminate; auto. }
  destruct F as (F1 & F2 & F3 & F4 & F5 & F6).
  fold s'. rewrite F2.
  repeat split; auto; try lia.
  - rewrite rx_upd_map. eapply F2C_upd_found; eauto.
    intros q (Q1 & Q2 & Q3 & Q4 & Q5 & Q6 & Q7 & Q8 & Q9). fold s'.
    unfold SRC. rewrite F1, F2, F3, F4, F5. cbn [fst snd].
    repeat split; auto; try lia;
      try (rewrite Hac; intros; discriminate);
      try (intros Hl; rewrite (Q8 Hl); lia);
      try (match goal with Ho : open_rx s' = true |- _ =>
             destruct (F6 Ho) as [Ho' He]; destruct (B5 He); destruct (Q9 Ho'); (lia || assumption) end).
  - apply desc_upd; auto. intros s0. destruct eof; reflexivity.
Qed.

Lemma SRC_dead : forall W s p v, SRC W s p -> live s = false -> SRC W s (fst p, v).
Proof.
  intros W s p v (H1 & H2 & H3 & H4 & H5 & H6 & H7 & H8 & H9) Hl.
  unfold SRC, open_rx. rewrite Hl. cbn. repeat split; auto; intros; discriminate.
Qed.

Lemma rc_peer_data : forall I c x sid len pad es, RC I c x -> rc_ok I c x (EPeerData sid len pad es).
Proof.
  intros I c x sid len pad es H. unfold rc_ok. cbn [conn_step].
  destruct ((0 <=? pad) && (pad <=? len) && (len <=? 16777215)) eqn:G; [|exact H].
  destruct (find_cs sid (cc_streams c)) as [s|] eqn:Ef; [|exact H].
  pose proof H as H0. dRC H0. destruct x as [[cw ciw] l]. cbn [fst snd] in *.
  destruct (F2C_found _ _ _ _ _ Cst Ef) as (p & HS & Hid & _).
  pose proof HS as (S1 & S2 & S3 & S4 & S5 & S6 & S7 & S8 & S9).
  pose proof (tb_nonneg _ _ _ Cst) as Htb.
  assert (Hlen : 0 <= pad <= len /\ len <= 16777215) by lia.
  destruct (cs_forgotten s || cs_peer_reset s) eqn:Edead.
  - (* not a live stream for the read loop: connection credit returned at once *)
    destruct (in_take (cc_in c) len) as [[[|]|] f1] eqn:Et; try exact H.
    apply in_take_true in Et; try lia. destruct Et as (T1 & T2 & T3).
    destruct (in_add_ret f1 len) as [r f2] eqn:Ea.
    apply in_add_ret_spec in Ea; try lia. destruct Ea as (A1 & A2 & A3 & A4 & A5).
    cbn [fst snd fold_left rx_step].
    rewrite <- (app_nil_r (wu 0 r)). rewrite rx_fold_wu by lia. cbn [Z.eqb fold_left].
    unfold RC. cbn [fst snd set_cin cc_stream_in cc_in cc_streams cc_next_id].
    repeat split; auto; try lia.
    rewrite rx_upd_map. rewrite <- (upd_cs_id sid (cc_streams c)). eapply F2C_upd_found; eauto.
    intros q HQ. apply SRC_dead; [exact HQ|]. unfold live.
    destruct (cs_forgotten s), (cs_peer_reset s); simpl in *; auto; discriminate.
  - destruct (cs_peer_ended s) eqn:Epe; [exact H|].
    assert (Hlive : live s = true).
    { unfold live. destruct (cs_forgotten s), (cs_peer_reset s); simpl in *; auto; discriminate. }
    destruct (in_take2 (cc_in c) (cs_in s) len) as [[[|]|] [f1 g1]] eqn:Et; try exact H.
    apply in_take2_true in Et; try lia. destruct Et as (T1 & T2 & T3 & T4 & T5 & T6).
    set (refund := pad + (if cs_app_closed s then len - pad else 0)).
    assert (Hrf : 0 <= refund <= len /\ (cs_app_closed s = true -> refund = len) /\ (cs_app_closed s = false -> refund = pad)).
    { unfold refund. destruct (cs_app_closed s); repeat split; intros; try discriminate; lia. }
    destruct (in_add_ret f1 refund) as [rc f2] eqn:Ea.
    apply in_add_ret_spec in Ea; try lia. destruct Ea as (A1 & A2 & A3 & A4 & A5).
    assert (Hs : exists rs g2, (if cs_app_closed s then (0, g1) else in_add_ret g1 refund) = (rs, g2) /\
              0 <= rs /\ in_avail g2 = in_avail g1 + rs /\ 0 <= in_unsent g2 /\
              (cs_app_closed s = true -> g2 = g1) /\
              (cs_app_closed s = false -> in_avail g2 + in_unsent g2 = in_avail g1 + in_unsent g1 + pad /\ unsent_ok g2)).
    { destruct (cs_app_closed s) eqn:Eac.
      - exists 0, g1. split; [reflexivity|]. repeat split; auto; try lia; intros; discriminate.
      - destruct (in_add_ret g1 refund) as [rs g2] eqn:Es. exists rs, g2. split; [reflexivity|].
        apply in_add_ret_spec in Es; try lia. destruct Es as (B1 & B2 & B3 & B4 & B5).
        repeat split; auto; try lia; intros; discriminate. }
    destruct Hs as (rs & g2 & Es & B1 & B2 & B3 & B4 & B5). rewrite Es.
    set (buf' := if cs_app_closed s then cs_buf s else cs_buf s + (len - pad)).
    assert (Hbuf : 0 <= buf' /\ (cs_app_closed s = true -> buf' = cs_buf s) /\ (cs_app_closed s = false -> buf' = cs_buf s + (len - pad))).
    { unfold buf'. destruct (cs_app_closed s); repeat split; intros; try discriminate; lia. }
    cbn [fst snd fold_left rx_step].
    rewrite rx_fold_wu by lia. cbn [Z.eqb].
    rewrite <- (app_nil_r (wu sid rs)). rewrite rx_fold_wu by lia.
    replace (sid =? 0) with false by lia. cbn [fold_left].
    unfold RC. cbn [fst snd set_cstreams set_cin cc_stream_in cc_in cc_streams cc_next_id].
    rewrite (tb_upd_found _ _ _ _ _ Cdesc Ef).
    assert (Hbf : cs_buf (if es then cs_set_peer_ended (cs_set_recv s g2 buf') else cs_set_recv s g2 buf') = buf')
      by (destruct es; reflexivity).
    rewrite Hbf.
    assert (Hsum : refund + (buf' - cs_buf s) = len).
    { destruct (cs_app_closed s) eqn:Eac; destruct Hrf as (_ & R1 & R2); destruct Hbuf as (_ & U1 & U2).
      - rewrite (R1 eq_refl), (U1 eq_refl). lia.
      - rewrite (R2 eq_refl), (U2 eq_refl). lia. }
    repeat split; auto; try lia.
    + (* the stream *)
      assert (E2 : rx_upd sid rs (rx_upd sid (- len) l) = rx_map sid (fun v => v - len + rs) l).
      { unfold rx_upd, rx_map. rewrite map_map. apply map_ext. intros [a b]. cbn.
        destruct (a =? sid) eqn:Ea; cbn; rewrite Ea; [f_equal; lia|reflexivity]. }
      rewrite E2. eapply F2C_upd_found; eauto.
      intros q (Q1 & Q2 & Q3 & Q4 & Q5 & Q6 & Q7 & Q8 & Q9).
      set (s' := if es then cs_set_peer_ended (cs_set_recv s g2 buf') else cs_set_recv s g2 buf').
      assert (F1 : cs_id s' = cs_id s /\ cs_buf s' = buf' /\ cs_in s' = g2 /\ cs_app_closed s' = cs_app_closed s /\
                   live s' = live s /\ (open_rx s' = true -> open_rx s = true /\ es = false)).
      { unfold s'. destruct es; unfold open_rx, live; cbn; repeat split; auto;
          intros; rewrite ?andb_false_r in *; try discriminate; auto. }
      destruct F1 as (F1 & F2 & F3 & F4 & F5 & F6).
      unfold SRC. rewrite F1, F2, F3, F4, F5. cbn [fst snd].
      destruct Hbuf as (U0 & U1 & U2). destruct Hrf as (R0 & R1 & R2).
      destruct (cs_app_closed s) eqn:Eac.
      * rewrite (B4 eq_refl) in *. specialize (U1 eq_refl). specialize (Q4 eq_refl).
        repeat split; auto; try lia;
          try (intros Hl; rewrite (Q8 Hl); lia);
          try (match goal with Ho : open_rx s' = true |- _ =>
                 destruct (F6 Ho) as [Ho' _]; unfold open_rx in Ho'; rewrite Eac in Ho';
                 rewrite andb_false_r in Ho'; discriminate end).
      * destruct (B5 eq_refl) as [B6 B7]. specialize (U2 eq_refl).
        repeat split; auto; try lia;
          try (intros; discriminate);
          try (intros Hl; rewrite (Q8 Hl); lia);
          try (match goal with Ho : open_rx s' = true |- _ =>
                 destruct (F6 Ho) as [Ho' _]; destruct (Q9 Ho') as [E3 E4]; (lia || exact B7) end).
    + apply desc_upd; auto. intros s0. destruct es; reflexivity.
Qed.

Lemma rc_peer_headers : forall I c x sid es, RC I c x -> rc_ok I c x (EPeerHeaders sid es).
Proof.
  intros I c x sid es H. unfold rc_ok. cbn [conn_step].
  destruct (find_cs sid (cc_streams c)) as [s|]; [|exact H].
  destruct (cs_forgotten s || cs_peer_reset s || cs_peer_ended s); [exact H|].
  cbn [fst snd fold_left rx_step]. destruct x as [[cw ciw] l].
  eapply RC_upd_mono; [exact H| | | | |reflexivity]; try reflexivity.
  intros s0. destruct es; unfold open_rx, live; cbn; repeat split; auto;
    intros; rewrite ?andb_false_r in *; try discriminate.
Qed.

Lemma rc_open_refused : forall I c x, RC I c x -> rc_ok I c x EOpenRefused.
Proof.
  intros I c x H. unfold rc_ok. cbn [conn_step].
  destruct (negb (cc_dead c) && (active_count (cc_streams c) <? cc_max_streams c) && (cc_next_id c <? 2147483647)); [|exact H].
  cbn [fst snd fold_left]. dRC H. unfold RC. cbn. repeat split; auto; try lia.
  eapply desc_weaken; [exact Cdesc|lia].
Qed.

Theorem rc_step : forall I c x e, RC I c x -> rc_ok I c x e.
Proof.
  intros I c x e H. destruct e.
  - apply rc_open; assumption.
  - apply rc_send_data; assumption.
  - apply rc_send_end; assumption.
  - apply rc_reset; assumption.
  - apply rc_forget; assumption.
  - apply rc_settings; assumption.
  - apply rc_window_update; assumption.
  - apply rc_peer_rst; assumption.
  - apply rc_goaway; assumption.
  - apply rc_peer_data; assumption.
  - apply rc_app_read; assumption.
  - apply rc_app_close; assumption.
  - apply rc_peer_headers; assumption.
  - apply rc_open_refused; assumption.
Qed.
