(* Proofs/InterimProofs.v - C03: interim (1xx) header blocks are invisible to the body's length
   accounting, whatever they declared and however many (up to the limit) there are; a
   content-decoded body is a success only if the framing below ended cleanly. *)
From ReqV Require Import Lib.Bytes Lib.BytesFacts Lib.BigEndian Model.BodyFraming Model.StreamBody
  Model.StreamWire Model.Interim Proofs.QuicVarintProofs Proofs.StreamBodyProofs Proofs.StreamWireProofs.
From Coq Require Import Lia ZifyBool ZifyNat ZifyN.
Local Open Scope nat_scope.

(* ---------- the final block ---------- *)
Lemma final_block_skips : forall ints fin budget,
  Forall (fun b => is_interim b = true) ints -> is_interim fin = false ->
  length ints <= budget ->
  final_block budget (ints ++ [fin]) = Final fin.
Proof.
  induction ints as [|b ints IH]; intros fin budget Hi Hf Hl.
  - cbn [app final_block]. rewrite Hf. reflexivity.
  - inversion Hi as [|? ? Hb Hr]; subst. cbn [app final_block]. rewrite Hb.
    destruct budget as [|k]; [cbn in Hl; lia|]. apply IH; auto. cbn in Hl. lia.
Qed.

Lemma final_block_too_many : forall ints rest budget,
  Forall (fun b => is_interim b = true) ints -> budget < length ints ->
  final_block budget (ints ++ rest) = FinalTooMany.
Proof.
  induction ints as [|b ints IH]; intros rest budget Hi Hl; [cbn in Hl; lia|].
  inversion Hi as [|? ? Hb Hr]; subst. cbn [app final_block]. rewrite Hb.
  destruct budget as [|k]; [reflexivity|]. apply IH; auto. cbn in Hl. lia.
Qed.

Lemma final_block_none : forall ints budget,
  Forall (fun b => is_interim b = true) ints -> length ints <= budget ->
  final_block budget ints = FinalNone.
Proof.
  induction ints as [|b ints IH]; intros budget Hi Hl; [reflexivity|].
  inversion Hi as [|? ? Hb Hr]; subst. cbn [final_block]. rewrite Hb.
  destruct budget as [|k]; [cbn in Hl; lia|]. apply IH; auto. cbn in Hl. lia.
Qed.

(* HTTP/3: up to five interim blocks, each declaring whatever length it likes: the exchange
   is the body read of the final block *)
Theorem h3_interims_invisible_thm : forall ints fin wire e,
  Forall (fun b => is_interim b = true) ints -> is_interim fin = false -> length ints <= max_1xx ->
  h3_exchange (ints ++ [fin]) wire e = Some (h3_wire_read true (accounting_cl fin) wire e).
Proof.
  intros. unfold h3_exchange. rewrite final_block_skips by assumption. reflexivity.
Qed.

Theorem h2_interims_invisible_thm : forall ints fin hdr_end evs,
  Forall (fun b => is_interim b = true) ints -> is_interim fin = false -> length ints <= max_1xx ->
  h2_exchange (ints ++ [fin]) hdr_end evs = Some (h2_read (accounting_cl fin) hdr_end evs).
Proof.
  intros. unfold h2_exchange. rewrite final_block_skips by assumption. reflexivity.
Qed.

(* no final block (the stream ended behind the interim ones), or a sixth interim block: the
   call fails - never a response built from an interim block *)
Theorem no_final_block_fails_thm : forall ints rest wire e hdr_end evs,
  Forall (fun b => is_interim b = true) ints ->
  (length ints <= max_1xx -> h3_exchange ints wire e = None /\ h2_exchange ints hdr_end evs = None) /\
  (max_1xx < length ints -> h3_exchange (ints ++ rest) wire e = None /\
                            h2_exchange (ints ++ rest) hdr_end evs = None).
Proof.
  intros ints rest wire e hdr_end evs Hi. split; intro Hl.
  - unfold h3_exchange, h2_exchange. rewrite final_block_none by assumption. split; reflexivity.
  - unfold h3_exchange, h2_exchange. rewrite final_block_too_many by assumption. split; reflexivity.
Qed.

(* so the every-cut theorem holds for exchanges with interim blocks in front: a final 200
   block declaring cl, any interim blocks *)
Theorem h3_every_cut_with_interims_thm : forall ints cl fs k e,
  Forall (fun b => is_interim b = true) ints -> length ints <= max_1xx ->
  Forall df_wf fs -> k <= length (h3_render fs) ->
  exists d r, h3_exchange (ints ++ [mkHb 200 cl]) (firstn k (h3_render fs)) e = Some (d, r) /\
    (exists m, d = firstn m (h3_body fs)) /\
    (forall n, cl = Some n -> (lenN d <= n)%N) /\
    (r = W3 H3Clean -> e = EndFin /\ h3_boundary fs k d /\ (cl = None \/ cl = Some (lenN d))).
Proof.
  intros ints cl fs k e Hi Hl W K.
  rewrite h3_interims_invisible_thm by (auto; reflexivity).
  assert (A : accounting_cl (mkHb 200 cl) = cl).
  { unfold accounting_cl. cbn [hb_cl hb_status]. destruct cl as [n|]; [|reflexivity].
    change (bodiless 200) with false. rewrite andb_false_r. reflexivity. }
  rewrite A.
  destruct (h3_wire_cut_thm fs cl k e W K) as (d & r & E & H).
  exists d, r. rewrite E. split; [reflexivity|exact H].
Qed.

(* the accounting carried over from the first header block is refuted: behind a 103 without
   a length, a FIN short of the final block's declared length is a clean end there *)
Lemma carried_accounting_refuted :
  let blocks := [mkHb 103 None; mkHb 200 (Some 5%N)] in
  let wire := [x00; x02; "a"%byte; "b"%byte] in        (* one DATA frame of 2 bytes, then FIN *)
  h3_exchange_carried blocks wire EndFin = Some (bs "ab", W3 H3Clean) /\
  h3_exchange blocks wire EndFin = Some (bs "ab", W3 H3UnexpectedEOF).
Proof. split; reflexivity. Qed.

(* ---------- content-coding ---------- *)
(* a decoded body is a success only if the framing below ended cleanly - for every decoder *)
Theorem coded_success_needs_clean_thm : forall (dec : bytes -> option bytes) (E : Type)
  (clean : E -> bool) (r : bytes * E) p,
  coded_read dec clean r = Some p -> clean (snd r) = true /\ dec (fst r) = Some p.
Proof.
  intros dec E clean [d e] p. unfold coded_read. cbn [fst snd].
  destruct (clean e); [auto|discriminate].
Qed.

(* HTTP/2: a decoded success means END_STREAM, the DATA total equal to the declared length (if
   any), and the decoder having accepted ALL the DATA sent *)
Theorem h2_coded_success_thm : forall dec cl evs p,
  coded_read dec h2_clean (h2_read cl false evs) = Some p ->
  h2_ending evs = E2EndStream /\ (cl = None \/ cl = Some (lenN (h2_sent evs))) /\
  dec (h2_sent evs) = Some p.
Proof.
  intros dec cl evs p H. apply coded_success_needs_clean_thm in H. destruct H as [Hc Hd].
  destruct (h2_read cl false evs) as [d e] eqn:E. cbn [fst snd] in *.
  unfold h2_clean in Hc. destruct e; try discriminate.
  apply h2_clean_iff_thm in E. destruct E as (He & -> & Hcl). auto.
Qed.

(* HTTP/3, every cut: a decoded success means FIN exactly between two frames, the decoder
   having accepted exactly the payload of the frames before the cut, and that being all
   that was declared *)
Theorem h3_coded_success_thm : forall dec fs cl k e p, Forall df_wf fs -> k <= length (h3_render fs) ->
  coded_read dec h3w_clean (h3_wire_read true cl (firstn k (h3_render fs)) e) = Some p ->
  e = EndFin /\ exists d, h3_boundary fs k d /\ dec d = Some p /\ (cl = None \/ cl = Some (lenN d)).
Proof.
  intros dec fs cl k e p W K H. apply coded_success_needs_clean_thm in H. destruct H as [Hc Hd].
  destruct (h3_wire_cut_thm fs cl k e W K) as (d & r & E & _ & _ & Hclean).
  rewrite E in *. cbn [fst snd] in *.
  unfold h3w_clean in Hc. destruct r as [x| |]; try discriminate. destruct x; try discriminate.
  destruct (Hclean eq_refl) as (He & Hb & Hcl). split; [exact He|]. exists d. auto.
Qed.

(* HTTP/1.1: same over the body readers *)
Theorem h1_coded_success_thm : forall dec fr s p,
  coded_read dec is_clean (rd_data (read_body fr s), rd_err (read_body fr s)) = Some p ->
  rd_err (read_body fr s) = Clean /\ dec (rd_data (read_body fr s)) = Some p.
Proof.
  intros dec fr s p H. apply coded_success_needs_clean_thm in H. cbn [fst snd] in H.
  destruct H as [Hc Hd]. split; [|exact Hd]. destruct (rd_err (read_body fr s)); try discriminate. reflexivity.
Qed.
