(* Proofs/CharsetProofs.v - lemmas for C15 about Model/Charset.v *)
From Coq Require Import Lia ZifyBool ZifyNat ZifyN PeanoNat.
From ReqV Require Import Lib.Bytes Lib.BytesFacts Model.Charset Gen.TextContentTypes.

(* the generated tables are what the model was written against *)
Lemma text_content_types_are :
  text_content_types = [bs "text"; bs "json"; bs "xml"; bs "html"; bs "java"].
Proof. reflexivity. Qed.

Lemma utf8_label_literals_are : utf8_label_literals = [bs "utf-8"; bs "utf8"].
Proof. reflexivity. Qed.

(* the default selection and the utf-8 test, spelled out against the generated tables (a changed
   table in decode.go / transport.go breaks these) *)
Lemma default_selection ct :
  selected SelDefault ct = true <->
  exists f, In f [bs "text"; bs "json"; bs "xml"; bs "html"; bs "java"] /\ contains_sub f ct = true.
Proof.
  unfold selected, contains_any. rewrite text_content_types_are. apply existsb_exists.
Qed.

Lemma is_utf8_label_spec v :
  is_utf8_label v = contains_sub (bs "utf-8") v || contains_sub (bs "utf8") v.
Proof.
  unfold is_utf8_label. rewrite utf8_label_literals_are. cbn [existsb]. rewrite orb_false_r. reflexivity.
Qed.

Lemma is_empty_true (b : bytes) : is_empty b = true -> b = [].
Proof. destruct b; simpl; congruence. Qed.

(* ---------- network reads ---------- *)

Lemma net_read_concat k s b e s' :
  net_read k s = (b, e, s') ->
  b ++ concat (n_chunks s') = concat (n_chunks s) /\ n_eof_last s' = n_eof_last s.
Proof.
  unfold net_read. destruct (n_chunks s) as [|c r] eqn:E.
  - intros H; inversion H; subst. rewrite E. auto.
  - destruct (length c <=? k) eqn:L; intros H; inversion H; subst; cbn [n_chunks n_eof_last concat].
    + auto.
    + rewrite app_assoc, firstn_skipn. auto.
Qed.

Lemma net_read_eof k s b s' : net_read k s = (b, EEOF, s') -> n_chunks s' = [].
Proof.
  unfold net_read. destruct (n_chunks s) as [|c r] eqn:E.
  - intros H; inversion H; subst. exact E.
  - destruct (length c <=? k); intros H; inversion H; subst; cbn [n_chunks].
    + destruct r; [reflexivity|discriminate].
Qed.

Lemma net_read_len k s b e s' : net_read k s = (b, e, s') -> length b <= k.
Proof.
  unfold net_read. destruct (n_chunks s) as [|c r].
  - intros H; inversion H; simpl; lia.
  - destruct (length c <=? k) eqn:L; intros H; inversion H; subst.
    + apply Nat.leb_le in L. exact L.
    + rewrite firstn_length. lia.
Qed.

(* ---------- the x/text reader ---------- *)

Lemma sr_read_split k s o e s' : sr_read k s = (o, e, s') -> o ++ sr_pending s' = sr_pending s.
Proof.
  unfold sr_read. destruct (sr_pending s) as [|x p] eqn:E.
  - intros H; inversion H; subst. rewrite E. reflexivity.
  - destruct (match sr_takes s with [] => (k, false) | y :: _ => y end) as [t fl].
    intros H; inversion H; subst; cbn [sr_pending]. apply firstn_skipn.
Qed.

Lemma sr_read_eof k s o s' : sr_read k s = (o, EEOF, s') -> sr_pending s' = [].
Proof.
  unfold sr_read. destruct (sr_pending s) as [|x p] eqn:E.
  - intros H; inversion H; subst. exact E.
  - destruct (match sr_takes s with [] => (k, false) | y :: _ => y end) as [t fl].
    intros H; inversion H as [[Ho He Hs]]; cbn [sr_pending].
    destruct fl; [|discriminate]. cbn [andb] in He.
    destruct (is_empty (skipn _ (x :: p))) eqn:Em; [|discriminate].
    apply is_empty_true in Em. exact Em.
Qed.

Lemma take_n_le k len t : take_n k len t <= k /\ take_n k len t <= len.
Proof.
  unfold take_n. split.
  - apply Nat.le_min_l.
  - etransitivity; [apply Nat.le_min_r | apply Nat.le_min_l].
Qed.

Lemma take_n_pos k len t : 1 <= k -> 1 <= len -> 1 <= take_n k len t.
Proof.
  intros K L. unfold take_n. repeat apply Nat.min_glb; auto. apply Nat.le_max_l.
Qed.

Lemma sr_read_len k s o e s' : sr_read k s = (o, e, s') -> length o <= k.
Proof.
  unfold sr_read. destruct (sr_pending s) as [|x p] eqn:E.
  - intros H; inversion H; simpl; lia.
  - destruct (match sr_takes s with [] => (k, false) | y :: _ => y end) as [t fl].
    intros H; injection H as Ho _ _; subst o. rewrite firstn_length.
    etransitivity; [apply Nat.le_min_l | apply take_n_le].
Qed.

(* at least one byte per call while something is pending (k >= 1) *)
Lemma sr_read_progress k s o e s' :
  1 <= k -> sr_read k s = (o, e, s') -> sr_pending s <> [] -> 1 <= length o.
Proof.
  unfold sr_read. intros K. destruct (sr_pending s) as [|x p] eqn:E; [congruence|].
  destruct (match sr_takes s with [] => (k, false) | y :: _ => y end) as [t fl].
  intros H _; injection H as Ho _ _; subst o. rewrite firstn_length.
  apply Nat.min_glb; [apply take_n_pos; [exact K|] |]; cbn [length]; lia.
Qed.

Theorem should_decode_iff disable sel resp_ae ct :
  should_decode disable sel resp_ae ct = true <->
  disable = false /\ resp_ae = [] /\ selected sel ct = true.
Proof.
  unfold should_decode. destruct disable, resp_ae as [|x r]; cbn; intuition congruence.
Qed.

(* the hypothesis on the decoders, as a named predicate for the statements in Properties/C15.v *)
Definition decoder_ok {enc : Type} (dec_all : enc -> bytes -> bytes) (dec_stream : enc -> list bytes -> bytes) : Prop :=
  forall e chunks, dec_stream e chunks = dec_all e (concat chunks).

Section Proofs.
  Variable enc : Type.
  Variable dec_all : enc -> bytes -> bytes.
  Variable dec_stream : enc -> list bytes -> bytes.
  Variable find_encoding : bytes -> option enc.
  Variable parse_ct : bytes -> ct_parse.
  Variable lookup_charset : bytes -> option enc.

  (* THE hypothesis on the x/text decoders: a transform.Reader fed with the body in any pieces
     delivers, in total, what Decoder.Bytes makes of the whole body *)
  Hypothesis dec_stream_any_split :
    forall e chunks, dec_stream e chunks = dec_all e (concat chunks).

  Notation read_all := (read_all dec_stream find_encoding).
  Notation run := (run dec_stream find_encoding).
  Notation b_read := (b_read dec_stream find_encoding).
  Notation a_read := (a_read dec_stream find_encoding).
  Notation peek_read := (peek_read dec_stream find_encoding).
  Notation open_body := (open_body dec_stream).
  Notation decide := (decide parse_ct lookup_charset).
  Notation respond := (respond dec_stream find_encoding parse_ct lookup_charset).
  Notation sniffed := (sniffed find_encoding).
  Notation result_of := (result_of dec_all).

  (* ---------- read_all is the projection of the per-call trace ---------- *)

  Lemma read_all_run sizes b :
    read_all sizes b =
      (concat (map (fun x => fst (fst x)) (run sizes b)),
       match last (map (fun x => snd (fst x)) (run sizes b)) ENone with EEOF => true | ENone => false end).
  Proof.
    revert b. induction sizes as [|k r IH]; intros b; [reflexivity|].
    cbn [Charset.read_all Charset.run]. destruct (b_read k b) as [[o e] b'] eqn:R.
    destruct e.
    - rewrite IH. cbn [map concat fst snd].
      destruct (Charset.run dec_stream find_encoding r b') as [|y ys] eqn:Q; [reflexivity|].
      cbn [map last]. reflexivity.
    - cbn [map concat fst snd last]. rewrite app_nil_r. reflexivity.
  Qed.

  (* ---------- raw body ---------- *)

  Lemma read_all_raw sizes : forall n o,
    read_all sizes (BRaw n) = (o, true) -> o = concat (n_chunks n).
  Proof.
    induction sizes as [|k r IH]; intros n o; cbn [Charset.read_all]; [discriminate|].
    cbn [Charset.b_read]. destruct (net_read k n) as [[b e] n'] eqn:R.
    destruct (net_read_concat _ _ _ _ _ R) as [C _].
    destruct e.
    - destruct (read_all r (BRaw n')) as [o' f] eqn:Q. intros H; inversion H; subst.
      rewrite (IH _ _ Q). exact C.
    - intros H; inversion H; subst. rewrite (net_read_eof _ _ _ _ R) in C.
      cbn [concat] in C. rewrite app_nil_r in C. exact C.
  Qed.

  (* ---------- Content-Type charset: one streaming decoder over the whole body ---------- *)

  Lemma read_all_header sizes : forall s o,
    read_all sizes (BHeader s) = (o, true) -> o = sr_pending s.
  Proof.
    induction sizes as [|k r IH]; intros s o; cbn [Charset.read_all]; [discriminate|].
    cbn [Charset.b_read]. destruct (sr_read k s) as [[b e] s'] eqn:R.
    pose proof (sr_read_split _ _ _ _ _ R) as C.
    destruct e.
    - destruct (read_all r (BHeader s')) as [o' f] eqn:Q. intros H; inversion H; subst.
      rewrite (IH _ _ Q). exact C.
    - intros H; inversion H; subst. rewrite (sr_read_eof _ _ _ _ R) in C.
      rewrite app_nil_r in C. exact C.
  Qed.

  (* ---------- sniffing reader, after detection ---------- *)

  Lemma read_all_detected_raw sizes : forall a o,
    a_detected a = true -> a_dec a = None -> a_peek a = None ->
    read_all sizes (BSniff a) = (o, true) -> o = concat (n_chunks (a_net a)).
  Proof.
    induction sizes as [|k r IH]; intros a o D N P; cbn [Charset.read_all]; [discriminate|].
    cbn [Charset.b_read]. unfold Charset.a_read, a_read_detected. rewrite D, P, N.
    destruct (net_read k (a_net a)) as [[b e] n'] eqn:R.
    destruct (net_read_concat _ _ _ _ _ R) as [C _].
    destruct e.
    - match goal with |- context [read_all r (BSniff ?x)] => set (a' := x) end.
      destruct (read_all r (BSniff a')) as [o' f] eqn:Q. intros H; inversion H; subst.
      rewrite (IH a' _ eq_refl eq_refl eq_refl Q). exact C.
    - intros H; inversion H; subst. rewrite (net_read_eof _ _ _ _ R) in C.
      cbn [concat] in C. rewrite app_nil_r in C. exact C.
  Qed.

  Lemma read_all_detected_dec sizes : forall a sr o,
    a_detected a = true -> a_dec a = Some sr -> a_peek a = None ->
    read_all sizes (BSniff a) = (o, true) -> o = sr_pending sr.
  Proof.
    induction sizes as [|k r IH]; intros a sr o D N P; cbn [Charset.read_all]; [discriminate|].
    cbn [Charset.b_read]. unfold Charset.a_read, a_read_detected. rewrite D, P, N.
    destruct (sr_read k sr) as [[b e] sr'] eqn:R.
    pose proof (sr_read_split _ _ _ _ _ R) as C.
    destruct e.
    - match goal with |- context [read_all r (BSniff ?x)] => set (a' := x) end.
      destruct (read_all r (BSniff a')) as [o' f] eqn:Q. intros H; inversion H; subst.
      rewrite (IH a' sr' _ eq_refl eq_refl eq_refl Q). exact C.
    - intros H; inversion H; subst. rewrite (sr_read_eof _ _ _ _ R) in C.
      rewrite app_nil_r in C. exact C.
  Qed.

  (* ---------- sniffing reader, from the start ---------- *)

  Lemma read_all_sniff sizes : forall a o,
    a_detected a = false -> a_dec a = None -> a_peek a = None ->
    read_all sizes (BSniff a) = (o, true) ->
    o = result_of (sniffed sizes (a_net a)) (concat (n_chunks (a_net a))).
  Proof.
    induction sizes as [|k r IH]; intros a o D N P; cbn [Charset.read_all]; [discriminate|].
    cbn [Charset.b_read]. unfold Charset.a_read, Charset.peek_read. rewrite D.
    unfold sniffed. cbn [first_read].
    destruct (net_read k (a_net a)) as [[b e] n'] eqn:R.
    destruct (net_read_concat _ _ _ _ _ R) as [C _].
    destruct (is_empty b) eqn:Em.
    - apply is_empty_true in Em. subst b. cbn [app] in C.
      destruct e.
      + match goal with |- context [read_all r (BSniff ?x)] => set (a' := x) end.
        destruct (read_all r (BSniff a')) as [o' f] eqn:Q. intros H; inversion H; subst.
        rewrite (IH a' _ eq_refl N P Q). unfold sniffed. subst a'. cbn [a_net]. rewrite C. reflexivity.
      + intros H; inversion H; subst. rewrite (net_read_eof _ _ _ _ R) in C.
        cbn [concat] in C. rewrite <- C. reflexivity.
    - destruct (find_encoding b) as [en|] eqn:F.
      + (* a decoder is created over the first read and the rest of the body *)
        match goal with |- context [sr_read k ?x] => set (sr := x) end.
        assert (Hp : sr_pending sr = dec_all en (concat (n_chunks (a_net a)))).
        { subst sr. cbn [sr_pending]. rewrite dec_stream_any_split. cbn [concat]. rewrite C. reflexivity. }
        destruct (sr_read k sr) as [[o1 e2] sr'] eqn:R2.
        pose proof (sr_read_split _ _ _ _ _ R2) as C2.
        cbn [result_of]. rewrite <- Hp.
        destruct e2.
        * match goal with |- context [read_all r (BSniff ?x)] => set (a' := x) end.
          destruct (read_all r (BSniff a')) as [o' f] eqn:Q. intros H; inversion H; subst o f.
          rewrite (read_all_detected_dec r a' sr' o' eq_refl eq_refl P Q). exact C2.
        * intros H; inversion H; subst. rewrite (sr_read_eof _ _ _ _ R2) in C2.
          rewrite app_nil_r in C2. exact C2.
      + cbn [result_of]. destruct e.
        * match goal with |- context [read_all r (BSniff ?x)] => set (a' := x) end.
          destruct (read_all r (BSniff a')) as [o' f] eqn:Q. intros H; inversion H; subst o f.
          rewrite (read_all_detected_raw r a' o' eq_refl N P Q). exact C.
        * intros H; inversion H; subst. rewrite (net_read_eof _ _ _ _ R) in C.
          cbn [concat] in C. rewrite app_nil_r in C. exact C.
  Qed.

  (* detection only ever looks at a non-empty PREFIX of the body *)
  Lemma first_read_prefix sizes : forall n b,
    first_read sizes n = Some b -> b <> [] /\ exists rest, concat (n_chunks n) = b ++ rest.
  Proof.
    induction sizes as [|k r IH]; intros n b; cbn [first_read]; [discriminate|].
    destruct (net_read k n) as [[b0 e] n'] eqn:R.
    destruct (net_read_concat _ _ _ _ _ R) as [C _].
    destruct (is_empty b0) eqn:Em.
    - apply is_empty_true in Em. subst b0. cbn [app] in C. destruct e; [|discriminate].
      intros H. destruct (IH _ _ H) as [Hn [rest Hr]]. split; [exact Hn|].
      exists rest. rewrite <- C. exact Hr.
    - intros H; inversion H; subst. split.
      + intros ->. discriminate.
      + exists (concat (n_chunks n')). symmetry. exact C.
  Qed.

  (* ---------- the whole pipeline ---------- *)

  (* exact characterisation of the delivered body *)
  Theorem respond_exact disable sel resp_ae ct chunks eof_last takes sizes o :
    respond disable sel resp_ae ct chunks eof_last takes sizes = (o, true) ->
    o = match decide disable sel resp_ae ct with
        | IRaw => concat chunks
        | IHeader e => dec_all e (concat chunks)
        | ISniff => result_of (sniffed sizes (fresh_net chunks eof_last)) (concat chunks)
        end.
  Proof.
    unfold Charset.respond. destruct (decide disable sel resp_ae ct) as [|e|]; cbn [Charset.open_body].
    - intros H. apply read_all_raw in H. exact H.
    - intros H. apply read_all_header in H. cbn [sr_pending] in H. rewrite dec_stream_any_split in H. exact H.
    - intros H. apply read_all_sniff in H; auto.
  Qed.

  Theorem two_results_only disable sel resp_ae ct chunks eof_last takes sizes o :
    respond disable sel resp_ae ct chunks eof_last takes sizes = (o, true) ->
    o = concat chunks \/ exists e, o = dec_all e (concat chunks).
  Proof.
    intros H. apply respond_exact in H.
    destruct (decide disable sel resp_ae ct) as [|e|]; [left; exact H | right; eauto |].
    unfold result_of in H. destruct (sniffed _ _) as [e|]; [right; eauto | left; exact H].
  Qed.

  Theorem header_charset_always_applied disable sel resp_ae ct v e chunks eof_last takes sizes o :
    should_decode disable sel resp_ae ct = true ->
    parse_ct ct = PCharset v ->
    is_utf8_label (to_lower v) = false ->
    lookup_charset (to_lower v) = Some e ->
    respond disable sel resp_ae ct chunks eof_last takes sizes = (o, true) ->
    o = dec_all e (concat chunks).
  Proof.
    intros S P U L H. apply respond_exact in H.
    unfold Charset.decide, charset_from_content_type in H. rewrite S, P, U, L in H. exact H.
  Qed.

  (* utf-8 / unsupported label in Content-Type: left alone (and not sniffed) *)
  Theorem header_utf8_or_unknown_left disable sel resp_ae ct v chunks eof_last takes sizes o :
    parse_ct ct = PCharset v ->
    is_utf8_label (to_lower v) = true \/ lookup_charset (to_lower v) = None ->
    respond disable sel resp_ae ct chunks eof_last takes sizes = (o, true) ->
    o = concat chunks.
  Proof.
    intros P U H. apply respond_exact in H.
    unfold Charset.decide, charset_from_content_type in H. rewrite P in H.
    destruct (should_decode disable sel resp_ae ct); [|exact H].
    destruct (is_utf8_label (to_lower v)); [exact H|].
    destruct U as [U|U]; [discriminate|]. rewrite U in H. exact H.
  Qed.

  (* not selected (or switched off): the body object is not even wrapped, so every read is the
     network's own read; in particular the bytes are the original ones *)
  Theorem unselected_untouched disable sel resp_ae ct chunks eof_last takes :
    should_decode disable sel resp_ae ct = false ->
    open_body (decide disable sel resp_ae ct) chunks eof_last takes = BRaw (fresh_net chunks eof_last) /\
    forall sizes o, respond disable sel resp_ae ct chunks eof_last takes sizes = (o, true) ->
                    o = concat chunks.
  Proof.
    intros S. unfold Charset.decide. rewrite S. split; [reflexivity|].
    intros sizes o H. apply respond_exact in H. unfold Charset.decide in H. rewrite S in H. exact H.
  Qed.

  (* how the body is split into network reads and how the caller reads can only decide WHICH of
     the two results is produced, and only through what FindEncoding says about the first
     non-empty read (a prefix of the body, [first_read_prefix]): with a charset in Content-Type, or
     whenever detection comes out the same, the delivered bodies are identical *)
  Theorem split_only_affects_detection disable sel resp_ae ct
          chunks1 eof1 takes1 sizes1 o1 chunks2 eof2 takes2 sizes2 o2 :
    concat chunks1 = concat chunks2 ->
    respond disable sel resp_ae ct chunks1 eof1 takes1 sizes1 = (o1, true) ->
    respond disable sel resp_ae ct chunks2 eof2 takes2 sizes2 = (o2, true) ->
    (decide disable sel resp_ae ct <> ISniff \/
     sniffed sizes1 (fresh_net chunks1 eof1) = sniffed sizes2 (fresh_net chunks2 eof2)) ->
    o1 = o2.
  Proof.
    intros E H1 H2 C. apply respond_exact in H1. apply respond_exact in H2.
    destruct (decide disable sel resp_ae ct) as [|e|] eqn:D.
    - congruence.
    - congruence.
    - destruct C as [C|C]; [congruence|]. rewrite C, E in H1. congruence.
  Qed.

  (* ... and when they differ, one is the original and the other its transcoding (or two
     transcodings, if the two first reads made FindEncoding name different charsets) *)
  Theorem split_results disable sel resp_ae ct chunks eof_last takes sizes o :
    respond disable sel resp_ae ct chunks eof_last takes sizes = (o, true) ->
    decide disable sel resp_ae ct = ISniff ->
    o = result_of (sniffed sizes (fresh_net chunks eof_last)) (concat chunks).
  Proof. intros H D. apply respond_exact in H. rewrite D in H. exact H. Qed.

  (* caller buffer sizes (and the x/text reader's hand-out schedule) do not matter beyond the
     size of the very first non-empty read *)
  Theorem read_size_independent disable sel resp_ae ct chunks eof_last takes1 sizes1 o1 takes2 sizes2 o2 :
    respond disable sel resp_ae ct chunks eof_last takes1 sizes1 = (o1, true) ->
    respond disable sel resp_ae ct chunks eof_last takes2 sizes2 = (o2, true) ->
    (decide disable sel resp_ae ct <> ISniff \/
     first_read sizes1 (fresh_net chunks eof_last) = first_read sizes2 (fresh_net chunks eof_last)) ->
    o1 = o2.
  Proof.
    intros H1 H2 C. eapply split_only_affects_detection; eauto.
    destruct C as [C|C]; [left; exact C|right]. unfold sniffed. rewrite C. reflexivity.
  Qed.

  (* e.g. whenever both callers' first buffers hold the whole first network chunk *)
  Theorem read_size_independent_first_chunk disable sel resp_ae ct c rest eof_last
          takes1 k1 r1 o1 takes2 k2 r2 o2 :
    c <> [] -> length c <= k1 -> length c <= k2 ->
    respond disable sel resp_ae ct (c :: rest) eof_last takes1 (k1 :: r1) = (o1, true) ->
    respond disable sel resp_ae ct (c :: rest) eof_last takes2 (k2 :: r2) = (o2, true) ->
    o1 = o2.
  Proof.
    intros Hc L1 L2 H1 H2. eapply read_size_independent; eauto. right.
    unfold fresh_net. cbn [first_read]. unfold net_read. cbn [n_chunks].
    apply Nat.leb_le in L1. apply Nat.leb_le in L2. rewrite L1, L2.
    destruct c; [congruence|]. reflexivity.
  Qed.

End Proofs.
