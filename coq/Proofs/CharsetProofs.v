(* Proofs/CharsetProofs.v - lemmas for C15 about Model/Charset.v *)
From Coq Require Import Lia ZifyBool ZifyNat ZifyN PeanoNat.
From ReqV Require Import Lib.Bytes Lib.BytesFacts Model.Charset Gen.TextContentTypes.

(* the generated tables are what the model was written against *)
Lemma text_content_types_are :
  text_content_types = [bs "text"; bs "json"; bs "xml"; bs "html"; bs "java"].
Proof. reflexivity. Qed.

Lemma utf8_label_literals_are : utf8_label_literals = [bs "utf-8"; bs "utf8"].
Proof. reflexivity. Qed.

(* the default selection and the utf-8 test, spelled out against the generated tables (a changed
   table in decode.go / transport.go breaks these) *)
Lemma default_selection ct :
  selected SelDefault ct = true <->
  exists f, In f [bs "text"; bs "json"; bs "xml"; bs "html"; bs "java"] /\ contains_sub f ct = true.
Proof.
  unfold selected, contains_any. rewrite text_content_types_are. apply existsb_exists.
Qed.

Lemma is_utf8_label_spec v :
  is_utf8_label v = contains_sub (bs "utf-8") v || contains_sub (bs "utf8") v.
Proof.
  unfold is_utf8_label. rewrite utf8_label_literals_are. cbn [existsb]. rewrite orb_false_r. reflexivity.
Qed.

Lemma is_empty_true (b : bytes) : is_empty b = true -> b = [].
Proof. destruct b; simpl; congruence. Qed.

(* ---------- network reads ---------- *)

Lemma net_read_concat k s b e s' :
  net_read k s = (b, e, s') ->
  b ++ concat (n_chunks s') = concat (n_chunks s) /\ n_eof_last s' = n_eof_last s.
Proof.
  unfold net_read. destruct (n_chunks s) as [|c r] eqn:E.
  - intros H; inversion H; subst. rewrite E. auto.
  - destruct (length c <=? k) eqn:L; intros H; inversion H; subst; cbn [n_chunks n_eof_last concat].
    + auto.
    + rewrite app_assoc, firstn_skipn. auto.
Qed.

(* a read that ends the body: nothing is left, and the error is the network's terminal one *)
Lemma net_read_end k s b e s' :
  net_read k s = (b, e, s') -> e <> ENone -> n_chunks s' = [] /\ e = net_end s.
Proof.
  unfold net_read. destruct (n_chunks s) as [|c r] eqn:E.
  - intros H _; inversion H; subst. auto.
  - destruct (length c <=? k); intros H Hn; inversion H; subst; cbn [n_chunks]; [|congruence].
    destruct r; [|congruence]. unfold net_end.
    destruct (n_eof_last s), (n_fail s); cbn in *; try congruence; auto.
Qed.

Lemma net_read_eof k s b s' : net_read k s = (b, EEOF, s') -> n_chunks s' = [].
Proof. intros H. apply (net_read_end _ _ _ _ _ H). discriminate. Qed.

Lemma net_read_fail_kept k s b e s' : net_read k s = (b, e, s') -> n_fail s' = n_fail s /\ net_end s' = net_end s.
Proof.
  unfold net_read, net_end. destruct (n_chunks s) as [|c r].
  - intros H; inversion H; subst. auto.
  - destruct (length c <=? k); intros H; inversion H; subst; cbn [n_fail]; auto.
Qed.

Lemma net_read_len k s b e s' : net_read k s = (b, e, s') -> length b <= k.
Proof.
  unfold net_read. destruct (n_chunks s) as [|c r].
  - intros H; inversion H; simpl; lia.
  - destruct (length c <=? k) eqn:L; intros H; inversion H; subst.
    + apply Nat.leb_le in L. exact L.
    + rewrite firstn_length. lia.
Qed.

(* ---------- the x/text reader ---------- *)

Lemma sr_read_split k s o e s' : sr_read k s = (o, e, s') -> o ++ sr_pending s' = sr_pending s.
Proof.
  unfold sr_read. destruct (sr_pending s) as [|x p] eqn:E.
  - intros H; inversion H; subst. rewrite E. reflexivity.
  - destruct (match sr_takes s with [] => (k, false) | y :: _ => y end) as [t fl].
    intros H; inversion H; subst; cbn [sr_pending]. apply firstn_skipn.
Qed.

Lemma sr_read_end k s o e s' :
  sr_read k s = (o, e, s') -> e <> ENone -> sr_pending s' = [] /\ e = sr_end s.
Proof.
  unfold sr_read. destruct (sr_pending s) as [|x p] eqn:E.
  - intros H _; inversion H; subst. auto.
  - destruct (match sr_takes s with [] => (k, false) | y :: _ => y end) as [t fl].
    intros H Hn; injection H as Ho He Hs. subst s'. cbn [sr_pending].
    destruct fl; cbn [andb] in He; [|congruence].
    destruct (is_empty (skipn _ (x :: p))) eqn:Em; [|congruence].
    apply is_empty_true in Em. auto.
Qed.

Lemma sr_read_eof k s o s' : sr_read k s = (o, EEOF, s') -> sr_pending s' = [].
Proof. intros H. apply (sr_read_end _ _ _ _ _ H). discriminate. Qed.

Lemma sr_read_end_kept k s o e s' : sr_read k s = (o, e, s') -> sr_end s' = sr_end s.
Proof.
  unfold sr_read. destruct (sr_pending s) as [|x p].
  - intros H; inversion H; reflexivity.
  - destruct (match sr_takes s with [] => (k, false) | y :: _ => y end) as [t fl].
    intros H; injection H as _ _ Hs. subst s'. reflexivity.
Qed.

Lemma take_n_le k len t : take_n k len t <= k /\ take_n k len t <= len.
Proof.
  unfold take_n. split.
  - apply Nat.le_min_l.
  - etransitivity; [apply Nat.le_min_r | apply Nat.le_min_l].
Qed.

Lemma take_n_pos k len t : 1 <= k -> 1 <= len -> 1 <= take_n k len t.
Proof.
  intros K L. unfold take_n. repeat apply Nat.min_glb; auto. apply Nat.le_max_l.
Qed.

Lemma sr_read_len k s o e s' : sr_read k s = (o, e, s') -> length o <= k.
Proof.
  unfold sr_read. destruct (sr_pending s) as [|x p] eqn:E.
  - intros H; inversion H; simpl; lia.
  - destruct (match sr_takes s with [] => (k, false) | y :: _ => y end) as [t fl].
    intros H; injection H as Ho _ _; subst o. rewrite firstn_length.
    etransitivity; [apply Nat.le_min_l | apply take_n_le].
Qed.

(* at least one byte per call while something is pending (k >= 1) *)
Lemma sr_read_progress k s o e s' :
  1 <= k -> sr_read k s = (o, e, s') -> sr_pending s <> [] -> 1 <= length o.
Proof.
  unfold sr_read. intros K. destruct (sr_pending s) as [|x p] eqn:E; [congruence|].
  destruct (match sr_takes s with [] => (k, false) | y :: _ => y end) as [t fl].
  intros H _; injection H as Ho _ _; subst o. rewrite firstn_length.
  apply Nat.min_glb; [apply take_n_pos; [exact K|] |]; cbn [length]; lia.
Qed.

(* a body that is still content-encoded when it reaches the charset stage is "not selected" *)
Lemma still_encoded_not_selected disable sel resp_ce ct :
  resp_ce <> [] -> should_decode disable sel resp_ce ct = false.
Proof.
  intros H. unfold should_decode. destruct resp_ce; [congruence|]. cbn [is_empty].
  rewrite andb_false_r. reflexivity.
Qed.

Theorem should_decode_iff disable sel resp_ce ct :
  should_decode disable sel resp_ce ct = true <->
  disable = false /\ resp_ce = [] /\ selected sel ct = true.
Proof.
  unfold should_decode. destruct disable, resp_ce as [|x r]; cbn; intuition congruence.
Qed.

(* status / Location never matter *)
Lemma decide_resp_independent {enc} (parse_ct : bytes -> ct_parse) (lookup_charset : bytes -> option enc)
      s1 l1 s2 l2 disable sel resp_ce ct :
  decide_resp parse_ct lookup_charset s1 l1 disable sel resp_ce ct =
  decide_resp parse_ct lookup_charset s2 l2 disable sel resp_ce ct.
Proof. reflexivity. Qed.

Lemma decide_resp_is_decide {enc} (parse_ct : bytes -> ct_parse) (lookup_charset : bytes -> option enc)
      s l disable sel resp_ce ct :
  decide_resp parse_ct lookup_charset s l disable sel resp_ce ct = decide parse_ct lookup_charset disable sel resp_ce ct.
Proof. reflexivity. Qed.

(* a body the transport has decompressed is selected exactly like a body that was never compressed -
   on every stack; a body nobody decompressed (Content-Encoding still there) is not selected *)
Lemma decompressed_is_like_plain p ce disable sel ct :
  should_decode disable sel (ce_at_charset_stage p true ce) ct = should_decode disable sel [] ct.
Proof. reflexivity. Qed.

Lemma decompression_stack_independent p1 p2 d ce disable sel ct :
  should_decode disable sel (ce_at_charset_stage p1 d ce) ct =
  should_decode disable sel (ce_at_charset_stage p2 d ce) ct.
Proof. reflexivity. Qed.

Lemma not_decompressed_not_selected p ce disable sel ct :
  ce <> [] -> should_decode disable sel (ce_at_charset_stage p false ce) ct = false.
Proof. intros H. cbn [ce_at_charset_stage]. apply still_encoded_not_selected. exact H. Qed.

(* the hypothesis on the decoders, as a named predicate for the statements in Properties/C15.v *)
Definition decoder_ok {enc : Type} (dec_all : enc -> bytes -> bytes) (dec_stream : enc -> list bytes -> bytes) : Prop :=
  forall e chunks, dec_stream e chunks = dec_all e (concat chunks).

Section Proofs.
  Variable enc : Type.
  Variable dec_all : enc -> bytes -> bytes.
  Variable dec_stream : enc -> list bytes -> bytes.
  Variable dec_partial : enc -> list bytes -> bytes.
  Variable find_encoding : bytes -> option enc.
  Variable parse_ct : bytes -> ct_parse.
  Variable lookup_charset : bytes -> option enc.

  (* THE hypothesis on the x/text decoders: a transform.Reader fed with the body in any pieces
     delivers, in total, what Decoder.Bytes makes of the whole body *)
  Hypothesis dec_stream_any_split :
    forall e chunks, dec_stream e chunks = dec_all e (concat chunks).

  Notation read_all := (read_all dec_stream dec_partial find_encoding).
  Notation run := (run dec_stream dec_partial find_encoding).
  Notation b_read := (b_read dec_stream dec_partial find_encoding).
  Notation a_read := (a_read dec_stream dec_partial find_encoding).
  Notation peek_read := (peek_read dec_stream dec_partial find_encoding).
  Notation open_body := (open_body dec_stream dec_partial).
  Notation decide := (decide parse_ct lookup_charset).
  Notation respond := (respond dec_stream dec_partial find_encoding parse_ct lookup_charset).
  Notation sniffed := (sniffed find_encoding).
  Notation result_of := (result_of dec_all).

  (* ---------- read_all is the projection of the per-call trace ---------- *)

  Lemma read_all_run sizes b :
    read_all sizes b =
      (concat (map (fun x => fst (fst x)) (run sizes b)),
       last (map (fun x => snd (fst x)) (run sizes b)) ENone).
  Proof.
    revert b. induction sizes as [|k r IH]; intros b; [reflexivity|].
    cbn [Charset.read_all Charset.run]. destruct (b_read k b) as [[o e] b'] eqn:R.
    destruct e.
    - rewrite IH. cbn [map concat fst snd].
      destruct (Charset.run dec_stream dec_partial find_encoding r b') as [|y ys] eqn:Q; [reflexivity|].
      cbn [map last]. reflexivity.
    - cbn [map concat fst snd last]. rewrite app_nil_r. reflexivity.
    - cbn [map concat fst snd last]. rewrite app_nil_r. reflexivity.
  Qed.

  (* what a transform.Reader over chunks [cs] delivers in total, by how the network ends *)
  Definition stream_out (en : enc) (cs : list bytes) (fail : bool) : bytes :=
    if fail then dec_partial en cs else dec_stream en cs.

  (* ---------- raw body: everything that arrived, then the network's own terminal error ---------- *)

  Lemma read_all_raw_end sizes : forall n o e,
    read_all sizes (BRaw n) = (o, e) -> e <> ENone -> o = concat (n_chunks n) /\ e = net_end n.
  Proof.
    induction sizes as [|k r IH]; intros n o e; cbn [Charset.read_all]; [intros H; inversion H; congruence|].
    cbn [Charset.b_read]. destruct (net_read k n) as [[b e0] n'] eqn:R.
    destruct (net_read_concat _ _ _ _ _ R) as [C _]. destruct (net_read_fail_kept _ _ _ _ _ R) as [_ K].
    destruct e0.
    - destruct (read_all r (BRaw n')) as [o' f] eqn:Q. intros H Hn; inversion H; subst.
      destruct (IH _ _ _ Q Hn) as [A B]. subst o'. rewrite B, K. auto.
    - intros H Hn; inversion H; subst. destruct (net_read_end _ _ _ _ _ R Hn) as [A B].
      rewrite A in C. cbn [concat] in C. rewrite app_nil_r in C. auto.
    - intros H Hn; inversion H; subst. destruct (net_read_end _ _ _ _ _ R Hn) as [A B].
      rewrite A in C. cbn [concat] in C. rewrite app_nil_r in C. auto.
  Qed.

  (* ---------- Content-Type charset: one streaming decoder over the whole body ---------- *)

  Lemma read_all_header_end sizes : forall s o e,
    read_all sizes (BHeader s) = (o, e) -> e <> ENone -> o = sr_pending s /\ e = sr_end s.
  Proof.
    induction sizes as [|k r IH]; intros s o e; cbn [Charset.read_all]; [intros H; inversion H; congruence|].
    cbn [Charset.b_read]. destruct (sr_read k s) as [[b e0] s'] eqn:R.
    pose proof (sr_read_split _ _ _ _ _ R) as C. pose proof (sr_read_end_kept _ _ _ _ _ R) as K.
    destruct e0.
    - destruct (read_all r (BHeader s')) as [o' f] eqn:Q. intros H Hn; inversion H; subst.
      destruct (IH _ _ _ Q Hn) as [A B]. subst o'. rewrite B, K. auto.
    - intros H Hn; inversion H; subst. destruct (sr_read_end _ _ _ _ _ R Hn) as [A B].
      rewrite A, app_nil_r in C. auto.
    - intros H Hn; inversion H; subst. destruct (sr_read_end _ _ _ _ _ R Hn) as [A B].
      rewrite A, app_nil_r in C. auto.
  Qed.

  (* ---------- sniffing reader, after detection ---------- *)

  Lemma read_all_detected_raw_end sizes : forall a o e,
    a_detected a = true -> a_dec a = None -> a_peek a = None ->
    read_all sizes (BSniff a) = (o, e) -> e <> ENone ->
    o = concat (n_chunks (a_net a)) /\ e = net_end (a_net a).
  Proof.
    induction sizes as [|k r IH]; intros a o e D N P; cbn [Charset.read_all]; [intros H; inversion H; congruence|].
    cbn [Charset.b_read]. unfold Charset.a_read, a_read_detected. rewrite D, P, N.
    destruct (net_read k (a_net a)) as [[b e0] n'] eqn:R.
    destruct (net_read_concat _ _ _ _ _ R) as [C _]. destruct (net_read_fail_kept _ _ _ _ _ R) as [_ K].
    destruct e0.
    - match goal with |- context [read_all r (BSniff ?x)] => set (a' := x) end.
      destruct (read_all r (BSniff a')) as [o' f] eqn:Q. intros H Hn; inversion H; subst o f.
      destruct (IH a' _ _ eq_refl eq_refl eq_refl Q Hn) as [A B]. subst o'. subst a'. cbn [a_net] in *.
      rewrite B, K. auto.
    - intros H Hn; inversion H; subst. destruct (net_read_end _ _ _ _ _ R Hn) as [A B].
      rewrite A in C. cbn [concat] in C. rewrite app_nil_r in C. auto.
    - intros H Hn; inversion H; subst. destruct (net_read_end _ _ _ _ _ R Hn) as [A B].
      rewrite A in C. cbn [concat] in C. rewrite app_nil_r in C. auto.
  Qed.

  Lemma read_all_detected_dec_end sizes : forall a sr o e,
    a_detected a = true -> a_dec a = Some sr -> a_peek a = None ->
    read_all sizes (BSniff a) = (o, e) -> e <> ENone -> o = sr_pending sr /\ e = sr_end sr.
  Proof.
    induction sizes as [|k r IH]; intros a sr o e D N P; cbn [Charset.read_all]; [intros H; inversion H; congruence|].
    cbn [Charset.b_read]. unfold Charset.a_read, a_read_detected. rewrite D, P, N.
    destruct (sr_read k sr) as [[b e0] sr'] eqn:R.
    pose proof (sr_read_split _ _ _ _ _ R) as C. pose proof (sr_read_end_kept _ _ _ _ _ R) as K.
    destruct e0.
    - match goal with |- context [read_all r (BSniff ?x)] => set (a' := x) end.
      destruct (read_all r (BSniff a')) as [o' f] eqn:Q. intros H Hn; inversion H; subst o f.
      destruct (IH a' sr' _ _ eq_refl eq_refl eq_refl Q Hn) as [A B]. subst o'. rewrite B, K. auto.
    - intros H Hn; inversion H; subst. destruct (sr_read_end _ _ _ _ _ R Hn) as [A B].
      rewrite A, app_nil_r in C. auto.
    - intros H Hn; inversion H; subst. destruct (sr_read_end _ _ _ _ _ R Hn) as [A B].
      rewrite A, app_nil_r in C. auto.
  Qed.

  (* ---------- sniffing reader, from the start ---------- *)

  (* the body that comes out of the sniffing reader, by what was sniffed and how the network ends *)
  Definition sniff_out (s : option enc) (n : net) (o : bytes) : Prop :=
    match s with
    | None => o = concat (n_chunks n)
    | Some en => exists cs, concat cs = concat (n_chunks n) /\ o = stream_out en cs (n_fail n)
    end.

  Lemma read_all_sniff_end sizes : forall a o e,
    a_detected a = false -> a_dec a = None -> a_peek a = None ->
    read_all sizes (BSniff a) = (o, e) -> e <> ENone ->
    sniff_out (sniffed sizes (a_net a)) (a_net a) o /\ e = net_end (a_net a).
  Proof.
    induction sizes as [|k r IH]; intros a o e D N P; cbn [Charset.read_all]; [intros H; inversion H; congruence|].
    cbn [Charset.b_read]. unfold Charset.a_read, Charset.peek_read. rewrite D.
    unfold sniffed. cbn [first_read].
    destruct (net_read k (a_net a)) as [[b e0] n'] eqn:R.
    destruct (net_read_concat _ _ _ _ _ R) as [C _]. destruct (net_read_fail_kept _ _ _ _ _ R) as [KF K].
    destruct (is_empty b) eqn:Em.
    - apply is_empty_true in Em. subst b. cbn [app] in C.
      destruct e0.
      + match goal with |- context [read_all r (BSniff ?x)] => set (a' := x) end.
        destruct (read_all r (BSniff a')) as [o' f] eqn:Q. intros H Hn; inversion H; subst o f.
        destruct (IH a' _ _ eq_refl N P Q Hn) as [A B]. subst a'. cbn [a_net] in *.
        unfold sniffed in A. rewrite B, K. split; [|reflexivity].
        destruct (first_read r n') as [b1|]; [destruct (find_encoding b1)|]; cbn [sniff_out] in *;
          rewrite <- ?C, <- ?KF; exact A.
      + intros H Hn; inversion H; subst. destruct (net_read_end _ _ _ _ _ R Hn) as [A B].
        rewrite A in C. cbn [concat] in C. cbn [sniff_out]. auto.
      + intros H Hn; inversion H; subst. destruct (net_read_end _ _ _ _ _ R Hn) as [A B].
        rewrite A in C. cbn [concat] in C. cbn [sniff_out]. auto.
    - destruct (find_encoding b) as [en|] eqn:F.
      + (* a decoder is created over the first read and the rest of the body *)
        match goal with |- context [sr_read k ?x] => set (sr := x) end.
        assert (Hp : sr_pending sr = stream_out en (b :: n_chunks n') (n_fail (a_net a))).
        { subst sr. unfold mk_sreader, stream_out. cbn [sr_pending]. rewrite KF. reflexivity. }
        assert (He : sr_end sr = net_end (a_net a)) by (subst sr; unfold mk_sreader; cbn [sr_end]; exact K).
        destruct (sr_read k sr) as [[o1 e2] sr'] eqn:R2.
        pose proof (sr_read_split _ _ _ _ _ R2) as C2. pose proof (sr_read_end_kept _ _ _ _ _ R2) as K2.
        cbn [sniff_out].
        assert (G : forall o e, o = sr_pending sr -> e = sr_end sr ->
                    (exists cs, concat cs = concat (n_chunks (a_net a)) /\ o = stream_out en cs (n_fail (a_net a))) /\
                    e = net_end (a_net a)).
        { intros o0 e1 -> ->. split; [|exact He]. exists (b :: n_chunks n'). split; [exact C|exact Hp]. }
        destruct e2.
        * match goal with |- context [read_all r (BSniff ?x)] => set (a' := x) end.
          destruct (read_all r (BSniff a')) as [o' f] eqn:Q. intros H Hn; inversion H; subst o f.
          destruct (read_all_detected_dec_end r a' sr' o' e eq_refl eq_refl P Q Hn) as [A B].
          apply G; [subst o'; exact C2 | rewrite B; exact K2].
        * intros H Hn; inversion H; subst. destruct (sr_read_end _ _ _ _ _ R2 Hn) as [A B].
          rewrite A, app_nil_r in C2. apply G; auto.
        * intros H Hn; inversion H; subst. destruct (sr_read_end _ _ _ _ _ R2 Hn) as [A B].
          rewrite A, app_nil_r in C2. apply G; auto.
      + cbn [sniff_out]. destruct e0.
        * match goal with |- context [read_all r (BSniff ?x)] => set (a' := x) end.
          destruct (read_all r (BSniff a')) as [o' f] eqn:Q. intros H Hn; inversion H; subst o f.
          destruct (read_all_detected_raw_end r a' o' e eq_refl N P Q Hn) as [A B].
          subst a'. cbn [a_net] in *. subst o'. rewrite B, K. auto.
        * intros H Hn; inversion H; subst. destruct (net_read_end _ _ _ _ _ R Hn) as [A B].
          rewrite A in C. cbn [concat] in C. rewrite app_nil_r in C. auto.
        * intros H Hn; inversion H; subst. destruct (net_read_end _ _ _ _ _ R Hn) as [A B].
          rewrite A in C. cbn [concat] in C. rewrite app_nil_r in C. auto.
  Qed.

  (* detection only ever looks at a non-empty PREFIX of the body *)
  Lemma first_read_prefix sizes : forall n b,
    first_read sizes n = Some b -> b <> [] /\ exists rest, concat (n_chunks n) = b ++ rest.
  Proof.
    induction sizes as [|k r IH]; intros n b; cbn [first_read]; [discriminate|].
    destruct (net_read k n) as [[b0 e] n'] eqn:R.
    destruct (net_read_concat _ _ _ _ _ R) as [C _].
    destruct (is_empty b0) eqn:Em.
    - apply is_empty_true in Em. subst b0. cbn [app] in C. destruct e; [|discriminate|discriminate].
      intros H. destruct (IH _ _ H) as [Hn [rest Hr]]. split; [exact Hn|].
      exists rest. rewrite <- C. exact Hr.
    - intros H; inversion H; subst. split.
      + intros ->. discriminate.
      + exists (concat (n_chunks n')). symmetry. exact C.
  Qed.

  (* ---------- the whole pipeline ---------- *)

  (* every way the reading can end: the terminal error is the network's (io.EOF, or the failure), and
     what was delivered up to it is everything that arrived, resp. everything the one streaming decoder
     made of it *)
  Theorem respond_outcome disable sel resp_ce ct chunks eof_last fail takes sizes o e :
    respond disable sel resp_ce ct chunks eof_last fail takes sizes = (o, e) -> e <> ENone ->
    e = (if fail then EFail else EEOF) /\
    match decide disable sel resp_ce ct with
    | IRaw => o = concat chunks
    | IHeader en => o = stream_out en chunks fail
    | ISniff => sniff_out (sniffed sizes (fresh_net chunks eof_last fail)) (fresh_net chunks eof_last fail) o
    end.
  Proof.
    unfold Charset.respond. destruct (decide disable sel resp_ce ct) as [|en|]; cbn [Charset.open_body]; intros H Hn.
    - destruct (read_all_raw_end _ _ _ _ H Hn) as [A B]. split; [exact B|exact A].
    - destruct (read_all_header_end _ _ _ _ H Hn) as [A B]. split; [exact B|exact A].
    - destruct (read_all_sniff_end sizes (fresh_adrc chunks eof_last fail takes) o e eq_refl eq_refl eq_refl H Hn) as [A B].
      split; [exact B|exact A].
  Qed.

  (* exact characterisation of the delivered body *)
  Theorem respond_exact disable sel resp_ce ct chunks eof_last fail takes sizes o :
    respond disable sel resp_ce ct chunks eof_last fail takes sizes = (o, EEOF) ->
    o = match decide disable sel resp_ce ct with
        | IRaw => concat chunks
        | IHeader e => dec_all e (concat chunks)
        | ISniff => result_of (sniffed sizes (fresh_net chunks eof_last fail)) (concat chunks)
        end.
  Proof.
    intros H. destruct (respond_outcome _ _ _ _ _ _ _ _ _ _ _ H) as [E A]; [discriminate|].
    destruct fail; [discriminate|].
    destruct (decide disable sel resp_ce ct) as [|en|].
    - exact A.
    - unfold stream_out in A. rewrite dec_stream_any_split in A. exact A.
    - destruct (sniffed sizes (fresh_net chunks eof_last false)) as [en|]; cbn [sniff_out result_of] in *.
      + destruct A as [cs [Cc Ho]]. unfold stream_out in Ho. cbn [fresh_net n_fail n_chunks] in *.
        rewrite dec_stream_any_split, Cc in Ho. exact Ho.
      + exact A.
  Qed.

  (* ---------- a network error in mid-body ---------- *)

  (* it always reaches the caller: a failing network never ends in a clean io.EOF *)
  Theorem net_error_surfaces disable sel resp_ce ct chunks eof_last takes sizes o e :
    respond disable sel resp_ce ct chunks eof_last true takes sizes = (o, e) -> e <> EEOF.
  Proof.
    intros H E. subst e. destruct (respond_outcome _ _ _ _ _ _ _ _ _ _ _ H) as [A _]; discriminate.
  Qed.

  (* and what was delivered before it is a prefix of one of the two permitted bodies of the COMPLETE
     response, whatever would have followed ([rest]); hypothesis on the decoders: what a
     transform.Reader delivers before surfacing a source error is a prefix of the transcoding of any
     completion of its input *)
  Theorem net_error_prefix disable sel resp_ce ct chunks eof_last takes sizes o :
    (forall e cs rest, exists tail, dec_all e (concat cs ++ rest) = dec_partial e cs ++ tail) ->
    respond disable sel resp_ce ct chunks eof_last true takes sizes = (o, EFail) ->
    forall rest,
      (exists tail, concat chunks ++ rest = o ++ tail) \/
      (exists en tail, dec_all en (concat chunks ++ rest) = o ++ tail).
  Proof.
    intros PO H rest. destruct (respond_outcome _ _ _ _ _ _ _ _ _ _ _ H) as [_ A]; [discriminate|].
    destruct (decide disable sel resp_ce ct) as [|en|].
    - left. exists rest. subst o. reflexivity.
    - right. exists en. unfold stream_out in A. subst o. apply PO.
    - destruct (sniffed sizes (fresh_net chunks eof_last true)) as [en|]; cbn [sniff_out fresh_net n_chunks n_fail] in A.
      + right. exists en. destruct A as [cs [Cc Ho]]. unfold stream_out in Ho. subst o. rewrite <- Cc. apply PO.
      + left. exists rest. subst o. reflexivity.
  Qed.

  Theorem two_results_only disable sel resp_ce ct chunks eof_last fail takes sizes o :
    respond disable sel resp_ce ct chunks eof_last fail takes sizes = (o, EEOF) ->
    o = concat chunks \/ exists e, o = dec_all e (concat chunks).
  Proof.
    intros H. apply respond_exact in H.
    destruct (decide disable sel resp_ce ct) as [|e|]; [left; exact H | right; eauto |].
    unfold result_of in H. destruct (sniffed _ _) as [e|]; [right; eauto | left; exact H].
  Qed.

  Theorem header_charset_always_applied disable sel resp_ce ct v e chunks eof_last fail takes sizes o :
    should_decode disable sel resp_ce ct = true ->
    parse_ct ct = PCharset v ->
    is_utf8_label (to_lower v) = false ->
    lookup_charset (to_lower v) = Some e ->
    respond disable sel resp_ce ct chunks eof_last fail takes sizes = (o, EEOF) ->
    o = dec_all e (concat chunks).
  Proof.
    intros S P U L H. apply respond_exact in H.
    unfold Charset.decide, charset_from_content_type in H. rewrite S, P, U, L in H. exact H.
  Qed.

  (* utf-8 / unsupported label in Content-Type: left alone (and not sniffed) *)
  Theorem header_utf8_or_unknown_left disable sel resp_ce ct v chunks eof_last fail takes sizes o :
    parse_ct ct = PCharset v ->
    is_utf8_label (to_lower v) = true \/ lookup_charset (to_lower v) = None ->
    respond disable sel resp_ce ct chunks eof_last fail takes sizes = (o, EEOF) ->
    o = concat chunks.
  Proof.
    intros P U H. apply respond_exact in H.
    unfold Charset.decide, charset_from_content_type in H. rewrite P in H.
    destruct (should_decode disable sel resp_ce ct); [|exact H].
    destruct (is_utf8_label (to_lower v)); [exact H|].
    destruct U as [U|U]; [discriminate|]. rewrite U in H. exact H.
  Qed.

  (* not selected (or switched off): the body object is not even wrapped, so every read is the
     network's own read; in particular the bytes are the original ones *)
  Theorem unselected_untouched disable sel resp_ce ct chunks eof_last fail takes :
    should_decode disable sel resp_ce ct = false ->
    open_body (decide disable sel resp_ce ct) chunks eof_last fail takes = BRaw (fresh_net chunks eof_last fail) /\
    forall sizes o, respond disable sel resp_ce ct chunks eof_last fail takes sizes = (o, EEOF) ->
                    o = concat chunks.
  Proof.
    intros S. unfold Charset.decide. rewrite S. split; [reflexivity|].
    intros sizes o H. apply respond_exact in H. unfold Charset.decide in H. rewrite S in H. exact H.
  Qed.

  Theorem still_encoded_untouched disable sel resp_ce ct chunks eof_last fail takes :
    resp_ce <> [] ->
    open_body (decide disable sel resp_ce ct) chunks eof_last fail takes = BRaw (fresh_net chunks eof_last fail) /\
    forall sizes o, respond disable sel resp_ce ct chunks eof_last fail takes sizes = (o, EEOF) ->
                    o = concat chunks.
  Proof.
    intros H. apply unselected_untouched. apply still_encoded_not_selected. exact H.
  Qed.

  (* how the body is split into network reads and how the caller reads can only decide WHICH of
     the two results is produced, and only through what FindEncoding says about the first
     non-empty read (a prefix of the body, [first_read_prefix]): with a charset in Content-Type, or
     whenever detection comes out the same, the delivered bodies are identical *)
  Theorem split_only_affects_detection disable sel resp_ce ct
          chunks1 eof1 fail1 takes1 sizes1 o1 chunks2 eof2 fail2 takes2 sizes2 o2 :
    concat chunks1 = concat chunks2 ->
    respond disable sel resp_ce ct chunks1 eof1 fail1 takes1 sizes1 = (o1, EEOF) ->
    respond disable sel resp_ce ct chunks2 eof2 fail2 takes2 sizes2 = (o2, EEOF) ->
    (decide disable sel resp_ce ct <> ISniff \/
     sniffed sizes1 (fresh_net chunks1 eof1 fail1) = sniffed sizes2 (fresh_net chunks2 eof2 fail2)) ->
    o1 = o2.
  Proof.
    intros E H1 H2 C. apply respond_exact in H1. apply respond_exact in H2.
    destruct (decide disable sel resp_ce ct) as [|e|] eqn:D.
    - congruence.
    - congruence.
    - destruct C as [C|C]; [congruence|]. rewrite C, E in H1. congruence.
  Qed.

  (* ... and when they differ, one is the original and the other its transcoding (or two
     transcodings, if the two first reads made FindEncoding name different charsets) *)
  Theorem split_results disable sel resp_ce ct chunks eof_last fail takes sizes o :
    respond disable sel resp_ce ct chunks eof_last fail takes sizes = (o, EEOF) ->
    decide disable sel resp_ce ct = ISniff ->
    o = result_of (sniffed sizes (fresh_net chunks eof_last fail)) (concat chunks).
  Proof. intros H D. apply respond_exact in H. rewrite D in H. exact H. Qed.

  (* caller buffer sizes (and the x/text reader's hand-out schedule) do not matter beyond the
     size of the very first non-empty read *)
  Theorem read_size_independent disable sel resp_ce ct chunks eof_last fail takes1 sizes1 o1 takes2 sizes2 o2 :
    respond disable sel resp_ce ct chunks eof_last fail takes1 sizes1 = (o1, EEOF) ->
    respond disable sel resp_ce ct chunks eof_last fail takes2 sizes2 = (o2, EEOF) ->
    (decide disable sel resp_ce ct <> ISniff \/
     first_read sizes1 (fresh_net chunks eof_last fail) = first_read sizes2 (fresh_net chunks eof_last fail)) ->
    o1 = o2.
  Proof.
    intros H1 H2 C. eapply split_only_affects_detection; eauto.
    destruct C as [C|C]; [left; exact C|right]. unfold sniffed. rewrite C. reflexivity.
  Qed.

  (* e.g. whenever both callers' first buffers hold the whole first network chunk *)
  Theorem read_size_independent_first_chunk disable sel resp_ce ct c rest eof_last fail
          takes1 k1 r1 o1 takes2 k2 r2 o2 :
    c <> [] -> length c <= k1 -> length c <= k2 ->
    respond disable sel resp_ce ct (c :: rest) eof_last fail takes1 (k1 :: r1) = (o1, EEOF) ->
    respond disable sel resp_ce ct (c :: rest) eof_last fail takes2 (k2 :: r2) = (o2, EEOF) ->
    o1 = o2.
  Proof.
    intros Hc L1 L2 H1 H2. eapply read_size_independent; eauto. right.
    unfold fresh_net. cbn [first_read]. unfold net_read. cbn [n_chunks].
    apply Nat.leb_le in L1. apply Nat.leb_le in L2. rewrite L1, L2.
    destruct c; [congruence|]. reflexivity.
  Qed.

End Proofs.

Arguments stream_out {enc}.
Arguments sniff_out {enc}.
