(* Proofs/H2WireOrder.v - the strict monitor and the order of frames on the wire.
   The theorems about the client machine speak about the trace in the order in which the CLIENT
   processes the peer's frames and writes its own.  The peer sees another interleaving of the
   same two sequences: a frame it sent before it received some client frame appears EARLIER
   relative to that client frame (both channels are FIFO), never later.  This file shows that
   the monitor's verdict survives that: if it accepts  a ++ C f :: P g :: b  it accepts
   a ++ P g :: C f :: b  (g may not refer to a stream that f opens - the peer cannot have
   known it), hence every trace obtained by moving peer frames ahead of client frames. *)
From Coq Require Import ZArith Bool Lia ZifyBool List.
From ReqV Require Import Model.H2Monitor Proofs.H2ConnProofs.
Import ListNotations.
Open Scope Z_scope.

(* ---- equality up to the send windows of closed streams ---- *)
Definition seq (s1 s2 : mstream) : Prop :=
  ms_id s1 = ms_id s2 /\ ms_recv s1 = ms_recv s2 /\ ms_cli_closed s1 = ms_cli_closed s2 /\
  ms_cli_reset s1 = ms_cli_reset s2 /\ ms_peer_ended s1 = ms_peer_ended s2 /\ ms_peer_reset s1 = ms_peer_reset s2 /\
  (ms_closed s1 = false -> ms_win s1 = ms_win s2).

Definition scal (m : mon) :=
  (m_max_frame m, m_init_win m, m_max_streams m, m_pending m, m_conn_win m, m_last_sid m, m_hdr_open m,
   m_sent m, m_acked m, m_pings m, m_c_conn_win m, m_c_init_win m).

Definition meq (m1 m2 : mon) : Prop := scal m1 = scal m2 /\ Forall2 seq (m_streams m1) (m_streams m2).

Lemma seq_refl : forall s, seq s s.
Proof. intros s. unfold seq. repeat split; auto. Qed.

Lemma seq_closed : forall s s', seq s s' -> ms_closed s = ms_closed s'.
Proof. intros s s' (_ & _ & A & B & C0 & D & _). unfold ms_closed. rewrite A, B, C0, D. reflexivity. Qed.

Lemma seq_trans : forall a b c, seq a b -> seq b c -> seq a c.
Proof.
  intros a b c H1 H2. pose proof (seq_closed _ _ H1) as Hc.
  destruct H1 as (A1 & A2 & A3 & A4 & A5 & A6 & A7). destruct H2 as (B1 & B2 & B3 & B4 & B5 & B6 & B7).
  unfold seq. repeat split; try congruence. intros H. rewrite A7 by exact H. apply B7. rewrite <- Hc. exact H.
Qed.

Lemma F2seq_refl : forall l, Forall2 seq l l.
Proof. induction l; constructor; auto using seq_refl. Qed.

Lemma F2seq_trans : forall a b c, Forall2 seq a b -> Forall2 seq b c -> Forall2 seq a c.
Proof.
  intros a b c H. revert c. induction H; intros c0 H2; inversion H2; subst; constructor; eauto using seq_trans.
Qed.

Lemma meq_refl : forall m, meq m m.
Proof. intros. split; [reflexivity|apply F2seq_refl]. Qed.

Lemma meq_trans : forall a b c, meq a b -> meq b c -> meq a c.
Proof. intros a b c [A1 A2] [B1 B2]. split; [congruence|eapply F2seq_trans; eauto]. Qed.

Lemma scal_eta : forall m m', scal m = scal m' -> m' = set_streams m (m_streams m').
Proof. intros m m' H. destruct m, m'. unfold scal in H. cbn in *. inversion H; subst. reflexivity. Qed.

Lemma F2seq_find : forall l l' sid, Forall2 seq l l' ->
  match find_ms sid l, find_ms sid l' with
  | Some s, Some s' => seq s s'
  | None, None => True
  | _, _ => False
  end.
Proof.
  induction 1 as [|s s' l l' H0 H IH]; simpl; [exact I|].
  destruct H0 as (Hid & Hr). rewrite <- Hid. destruct (ms_id s =? sid); [unfold seq; auto|exact IH].
Qed.

Lemma F2seq_open_count : forall l l', Forall2 seq l l' -> open_count l = open_count l'.
Proof.
  unfold open_count. induction 1 as [|s s' l l' H0 H IH]; simpl; [reflexivity|].
  rewrite (seq_closed _ _ H0). destruct (ms_closed s'); simpl; rewrite ?Nat2Z.inj_succ; lia.
Qed.

Lemma F2seq_upd : forall k D l l', Forall2 seq l l' -> (forall s s', seq s s' -> seq (D s) (D s')) ->
  Forall2 seq (upd_ms k D l) (upd_ms k D l').
Proof.
  induction 1 as [|s s' l l' H0 H IH]; intros HD; simpl; constructor; auto.
  destruct H0 as (Hid & Hr). rewrite <- Hid. destruct (ms_id s =? k); [apply HD|]; unfold seq; auto.
Qed.

Lemma F2seq_map : forall D l l', Forall2 seq l l' -> (forall s s', seq s s' -> seq (D s) (D s')) ->
  Forall2 seq (map D l) (map D l').
Proof. induction 1; intros; simpl; constructor; auto. Qed.

(* ---- what a peer frame does to the books, in one uniform shape ---- *)
Record peff := mkPE {
  pe_pend : list (list (Z * Z)); pe_dsent : Z; pe_pings : list Z; pe_dcw : Z; pe_dccw : Z;
  pe_sid : Z; pe_dw : Z; pe_drecv : Z; pe_end : bool; pe_rst : bool }.

Definition pe_stream (e : peff) (s : mstream) : mstream :=
  mkMS (ms_id s) (ms_win s + pe_dw e) (ms_recv s + pe_drecv e) (ms_cli_closed s) (ms_cli_reset s)
       (ms_peer_ended s || pe_end e) (ms_peer_reset s || pe_rst e).

Definition apply_pe (m : mon) (e : peff) : mon :=
  mkMon (m_max_frame m) (m_init_win m) (m_max_streams m) (m_pending m ++ pe_pend e) (m_conn_win m + pe_dcw e)
        (upd_ms (pe_sid e) (pe_stream e) (m_streams m)) (m_last_sid m) (m_hdr_open m) (m_sent m + pe_dsent e)
        (m_acked m) (m_pings m ++ pe_pings e) (m_c_conn_win m + pe_dccw e) (m_c_init_win m).

Definition pe0 : peff := mkPE [] 0 [] 0 0 0 0 0 false false.

Definition pe_of (g : frame) (sent : Z) : peff :=
  match g with
  | FSettings kvs => mkPE [kvs] 1 [] 0 0 0 0 0 false false
  | FWindowUpdate sid inc => if sid =? 0 then mkPE [] 0 [] inc 0 0 0 0 false false
                             else mkPE [] 0 [] 0 0 sid inc 0 false false
  | FData sid len es => mkPE [] 0 [] 0 (- len) sid 0 (- len) es false
  | FHeaders sid _ _ es => if es then mkPE [] 0 [] 0 0 sid 0 0 true false else pe0
  | FRst sid => mkPE [] 0 [] 0 0 sid 0 0 false true
  | FPing false => mkPE [] 0 [sent] 0 0 0 0 0 false false
  | _ => pe0
  end.

Lemma upd_ms_ext : forall k f f' l, (forall s, f s = f' s) -> upd_ms k f l = upd_ms k f' l.
Proof. intros k f f' l H. unfold upd_ms. apply map_ext. intros s. rewrite H. reflexivity. Qed.

Lemma upd_ms_same : forall k f l, (forall s, f s = s) -> upd_ms k f l = l.
Proof. intros k f l H. rewrite (upd_ms_ext k f (fun s => s)) by exact H. apply upd_ms_id. Qed.

Lemma mon_peer_pe : forall m g, mon_peer m g = apply_pe m (pe_of g (m_sent m)).
Proof.
  intros m g. unfold apply_pe.
  assert (Hid : forall e, pe_dw e = 0 -> pe_drecv e = 0 -> pe_end e = false -> pe_rst e = false ->
                forall s, pe_stream e s = s).
  { intros e A B C0 D s. unfold pe_stream. rewrite A, B, C0, D, !Z.add_0_r, !orb_false_r. destruct s; reflexivity. }
  assert (Hsame : forall k e, pe_dw e = 0 -> pe_drecv e = 0 -> pe_end e = false -> pe_rst e = false ->
                  upd_ms k (pe_stream e) (m_streams m) = m_streams m).
  { intros. apply upd_ms_same. apply Hid; assumption. }
  destruct g; cbn [mon_peer pe_of]; unfold set_streams, set_conn_win, set_c_conn_win.
  - (* SETTINGS *) cbn. rewrite ?app_nil_r, ?Z.add_0_r, Hsame by reflexivity. reflexivity.
  - cbn. rewrite ?app_nil_r, ?Z.add_0_r, Hsame by reflexivity. destruct m; reflexivity.
  - (* WINDOW_UPDATE *) destruct (sid =? 0); cbn.
    + rewrite ?app_nil_r, ?Z.add_0_r, Hsame by reflexivity. reflexivity.
    + rewrite ?app_nil_r, ?Z.add_0_r. f_equal. apply upd_ms_ext. intros s. unfold pe_stream, ms_add_win. cbn.
      rewrite ?Z.add_0_r, ?orb_false_r. reflexivity.
  - (* HEADERS *) destruct end_stream; cbn.
    + rewrite ?app_nil_r, ?Z.add_0_r. f_equal. apply upd_ms_ext. intros s. unfold pe_stream, ms_set_peer_ended. cbn.
      rewrite ?Z.add_0_r, ?orb_true_r, ?orb_false_r. reflexivity.
    + rewrite ?app_nil_r, ?Z.add_0_r, Hsame by reflexivity. destruct m; reflexivity.
  - cbn. rewrite ?app_nil_r, ?Z.add_0_r, Hsame by reflexivity. destruct m; reflexivity.
  - (* DATA *) cbn. rewrite ?app_nil_r, ?Z.add_0_r. f_equal. apply upd_ms_ext. intros s. unfold pe_stream. cbn.
    rewrite ?Z.add_0_r, ?orb_false_r. destruct end_stream; cbn; rewrite ?orb_true_r, ?orb_false_r; reflexivity.
  - (* RST_STREAM *) cbn. rewrite ?app_nil_r, ?Z.add_0_r. f_equal. apply upd_ms_ext. intros s. unfold pe_stream, ms_set_peer_reset. cbn.
    rewrite ?Z.add_0_r, ?orb_true_r, ?orb_false_r. reflexivity.
  - cbn. rewrite ?app_nil_r, ?Z.add_0_r, Hsame by reflexivity. destruct m; reflexivity.
  - (* PING *) destruct ack; cbn.
    + rewrite ?app_nil_r, ?Z.add_0_r, Hsame by reflexivity. destruct m; reflexivity.
    + rewrite ?app_nil_r, ?Z.add_0_r, Hsame by reflexivity. reflexivity.
  - cbn. rewrite ?app_nil_r, ?Z.add_0_r, Hsame by reflexivity. destruct m; reflexivity.
  - cbn. rewrite ?app_nil_r, ?Z.add_0_r, Hsame by reflexivity. destruct m; reflexivity.
Qed.

Definition pe_ok (e : peff) : Prop := 0 <= pe_dcw e /\ 0 <= pe_dw e.

Lemma pe_closed_mono : forall e s, ms_closed s = true -> ms_closed (pe_stream e s) = true.
Proof.
  intros e s. unfold ms_closed, pe_stream. cbn.
  destruct (ms_cli_reset s), (ms_peer_reset s), (ms_cli_closed s), (ms_peer_ended s), (pe_end e), (pe_rst e); simpl; auto.
Qed.

Lemma seq_pe : forall e s s', seq s s' -> seq (pe_stream e s) (pe_stream e s').
Proof.
  intros e s s' H. pose proof (seq_closed _ _ H) as Hc. destruct H as (A1 & A2 & A3 & A4 & A5 & A6 & A7).
  unfold seq, pe_stream. cbn. repeat split; try congruence. intros Hn. rewrite A7; [reflexivity|].
  destruct (ms_closed s) eqn:E; [|reflexivity]. apply (pe_closed_mono e) in E. unfold ms_closed, pe_stream in E. cbn in E.
  unfold ms_closed in Hn. cbn in Hn. congruence.
Qed.

Lemma meq_pe : forall m m' e, meq m m' -> meq (apply_pe m e) (apply_pe m' e).
Proof.
  intros m m' e [Hs Hl]. unfold scal in Hs. inversion Hs. split.
  - unfold scal, apply_pe. cbn. congruence.
  - unfold apply_pe. cbn. apply F2seq_upd; [exact Hl|]. apply seq_pe.
Qed.

Lemma find_upd : forall k f sid l, (forall s, ms_id (f s) = ms_id s) ->
  find_ms sid (upd_ms k f l) = match find_ms sid l with Some s => Some (if ms_id s =? k then f s else s) | None => None end.
Proof.
  intros k f sid l Hf. induction l as [|s r IH]; simpl; [reflexivity|].
  destruct (ms_id s =? k) eqn:Ek.
  - rewrite Hf. destruct (ms_id s =? sid); [rewrite Ek; reflexivity|exact IH].
  - destruct (ms_id s =? sid); [rewrite Ek; reflexivity|exact IH].
Qed.

Lemma kvs_max_ge : forall id kvs base, base <= kvs_max id kvs base.
Proof.
  intros id kvs. induction kvs as [|[k v] r IH]; intros base; simpl; [lia|].
  destruct (k =? id); [etransitivity; [|apply IH]; lia|apply IH].
Qed.

Lemma kvs_max_mono : forall id kvs a b, a <= b -> kvs_max id kvs a <= kvs_max id kvs b.
Proof.
  intros id kvs. induction kvs as [|[k v] r IH]; intros a b H; simpl; [lia|].
  destruct (k =? id); apply IH; lia.
Qed.

Lemma pending_max_mono : forall id p a b, a <= b -> pending_max id p a <= pending_max id p b.
Proof.
  intros id p. induction p as [|kvs r IH]; intros a b H; simpl; [lia|]. apply IH. apply kvs_max_mono. exact H.
Qed.

Lemma pending_max_app_ge : forall id p q base, pending_max id p base <= pending_max id (p ++ q) base.
Proof.
  intros id p. induction p as [|kvs r IH]; intros q base; simpl.
  - revert base. induction q as [|k q' IHq]; intros base; simpl; [lia|].
    etransitivity; [|apply IHq]. apply kvs_max_ge.
  - apply IH.
Qed.

Lemma open_count_upd_le : forall k f l, (forall s, ms_closed s = true -> ms_closed (f s) = true) ->
  open_count (upd_ms k f l) <= open_count l.
Proof.
  intros k f l Hf. unfold open_count. induction l as [|s r IH]; simpl; [lia|].
  destruct (ms_id s =? k).
  - destruct (ms_closed s) eqn:E.
    + rewrite (Hf _ E). simpl. exact IH.
    + destruct (ms_closed (f s)); simpl; rewrite ?Nat2Z.inj_succ; lia.
  - destruct (ms_closed s); simpl; rewrite ?Nat2Z.inj_succ; lia.
Qed.

(* the peer's and the client's updates of one stream commute up to seq *)
Definition commutes (e : peff) (D : mstream -> mstream) : Prop :=
  (forall s, ms_id (D s) = ms_id s) /\ (forall s, seq (pe_stream e (D s)) (D (pe_stream e s))).

Lemma upd_comm : forall e k D l, commutes e D ->
  Forall2 seq (upd_ms (pe_sid e) (pe_stream e) (upd_ms k D l)) (upd_ms k D (upd_ms (pe_sid e) (pe_stream e) l)).
Proof.
  intros e k D l [Hid Hc]. induction l as [|s r IH]; simpl; [constructor|]. constructor; [|exact IH].
  destruct (ms_id s =? k) eqn:Ek, (ms_id s =? pe_sid e) eqn:Ep; rewrite ?Hid; cbn [pe_stream ms_id]; rewrite ?Ek, ?Ep;
    try apply seq_refl. apply Hc.
Qed.

Lemma map_comm : forall e D l, commutes e D ->
  Forall2 seq (upd_ms (pe_sid e) (pe_stream e) (map D l)) (map D (upd_ms (pe_sid e) (pe_stream e) l)).
Proof.
  intros e D l [Hid Hc]. induction l as [|s r IH]; simpl; [constructor|]. constructor; [|exact IH].
  rewrite Hid. destruct (ms_id s =? pe_sid e); [apply Hc|apply seq_refl].
Qed.

Lemma comm_data : forall e (len : Z) (es : bool),
  commutes e (fun s0 => let s1 := if ms_closed s0 then s0 else ms_add_win (- len) s0 in
                        if es then ms_set_cli_closed s1 else s1).
Proof.
  intros e len es. split; intros s; cbv zeta.
  - destruct (ms_closed s), es; reflexivity.
  - destruct s as [i w r cc cr pe pr]. destruct e as [a b c0 d e0 f g h en rs]. unfold seq, pe_stream, ms_closed, ms_add_win, ms_set_cli_closed. cbn.
    destruct cc, cr, pe, pr, en, rs, es; cbn; repeat split; try reflexivity; try lia; try (intros; discriminate).
Qed.

Lemma comm_cli_closed : forall e, commutes e ms_set_cli_closed.
Proof.
  intros e. split; intros s; [reflexivity|].
  destruct s as [i w r cc cr pe pr]. destruct e as [a b c0 d e0 f g h en rs]. unfold seq, pe_stream, ms_closed, ms_set_cli_closed. cbn.
  destruct cc, cr, pe, pr, en, rs; cbn; repeat split; try reflexivity; try lia; try (intros; discriminate).
Qed.

Lemma comm_cli_reset : forall e, commutes e ms_set_cli_reset.
Proof.
  intros e. split; intros s; [reflexivity|].
  destruct s as [i w r cc cr pe pr]. destruct e as [a b c0 d e0 f g h en rs]. unfold seq, pe_stream, ms_closed, ms_set_cli_reset. cbn.
  destruct cc, cr, pe, pr, en, rs; cbn; repeat split; try reflexivity; try lia; try (intros; discriminate).
Qed.

Lemma comm_add_recv : forall e d, commutes e (ms_add_recv d).
Proof.
  intros e d. split; intros s; [reflexivity|].
  destruct s as [i w r cc cr pe pr]. destruct e as [a b c0 d0 e0 f g h en rs]. unfold seq, pe_stream, ms_closed, ms_add_recv. cbn.
  destruct cc, cr, pe, pr, en, rs; cbn; repeat split; try reflexivity; try lia; try (intros; discriminate).
Qed.

Lemma comm_id : forall e, commutes e (fun s => s).
Proof. intros e. split; intros s; [reflexivity|apply seq_refl]. Qed.

Lemma comm_delta : forall e d, commutes e (fun s => if ms_closed s then s else ms_add_win d s).
Proof.
  intros e d. split; intros s; [destruct (ms_closed s); reflexivity|].
  destruct s as [i w r cc cr pe pr]. destruct e as [a b c0 d0 e0 f g h en rs]. unfold seq, pe_stream, ms_closed, ms_add_win. cbn.
  destruct cc, cr, pe, pr, en, rs; cbn; repeat split; try reflexivity; try lia; try (intros; discriminate).
Qed.

(* the client's per-stream updates respect seq *)
Definition cong (D : mstream -> mstream) : Prop := forall s s', seq s s' -> seq (D s) (D s').

Ltac cong_tac :=
  intros s s' H; destruct s as [i w r cc cr pe pr]; destruct s' as [i' w' r' cc' cr' pe' pr'];
  unfold seq, ms_closed in *; cbn in *; destruct H as (A1 & A2 & A3 & A4 & A5 & A6 & A7); subst;
  unfold ms_add_win, ms_add_recv, ms_set_cli_closed, ms_set_cli_reset, ms_closed; cbn;
  destruct cc', cr', pe', pr'; cbn in *; repeat split; try reflexivity; try (intros; discriminate);
  try (intros; rewrite A7 by reflexivity; reflexivity); try (intros; lia).

Lemma cong_data : forall (len : Z) (es : bool),
  cong (fun s0 => let s1 := if ms_closed s0 then s0 else ms_add_win (- len) s0 in
                  if es then ms_set_cli_closed s1 else s1).
Proof. intros len es. unfold cong. destruct es; cong_tac. Qed.

Lemma cong_cli_closed : cong ms_set_cli_closed.
Proof. unfold cong. cong_tac. Qed.

Lemma cong_cli_reset : cong ms_set_cli_reset.
Proof. unfold cong. cong_tac. Qed.

Lemma cong_add_recv : forall d, cong (ms_add_recv d).
Proof. intros d. unfold cong. cong_tac. Qed.

Lemma cong_delta : forall d, cong (fun s => if ms_closed s then s else ms_add_win d s).
Proof. intros d. unfold cong. cong_tac. Qed.

(* ---- SETTINGS application vs. a peer frame ---- *)
Lemma setting_comm : forall M kv e, meq (apply_pe (apply_setting M kv) e) (apply_setting (apply_pe M e) kv).
Proof.
  intros M [id v] e. unfold apply_setting.
  destruct (id =? S_MAX_FRAME_SIZE); [apply meq_refl|].
  destruct (id =? S_MAX_CONCURRENT_STREAMS); [apply meq_refl|].
  destruct (id =? S_INITIAL_WINDOW_SIZE); [|apply meq_refl].
  split; [reflexivity|]. cbn. apply map_comm. apply comm_delta.
Qed.

Lemma setting_cong : forall a b kv, meq a b -> meq (apply_setting a kv) (apply_setting b kv).
Proof.
  intros a b [id v] [Hs Hl]. unfold scal in Hs. inversion Hs. unfold apply_setting.
  destruct (id =? S_MAX_FRAME_SIZE); [split; [unfold scal; cbn; congruence|exact Hl]|].
  destruct (id =? S_MAX_CONCURRENT_STREAMS); [split; [unfold scal; cbn; congruence|exact Hl]|].
  destruct (id =? S_INITIAL_WINDOW_SIZE); [|split; [unfold scal; congruence|exact Hl]].
  split; [unfold scal; cbn; congruence|]. cbn. rewrite H1. apply F2seq_map; [exact Hl|apply cong_delta].
Qed.

Lemma settings_cong : forall kvs a b, meq a b -> meq (apply_settings a kvs) (apply_settings b kvs).
Proof.
  unfold apply_settings. induction kvs as [|kv r IH]; intros a b H; simpl; [exact H|].
  apply IH. apply setting_cong. exact H.
Qed.

Lemma settings_comm : forall kvs M e, meq (apply_pe (apply_settings M kvs) e) (apply_settings (apply_pe M e) kvs).
Proof.
  unfold apply_settings. induction kvs as [|kv r IH]; intros M e; simpl; [apply meq_refl|].
  eapply meq_trans; [apply IH|]. apply (settings_cong r). apply setting_comm.
Qed.

(* ---- the frames a client writes after its preface ---- *)
Definition cframe (f : frame) : Prop :=
  match f with
  | FHeaders _ _ _ _ | FContinuation _ _ _ | FData _ _ _ | FRst _ | FWindowUpdate _ _ | FSettingsAck => True
  | _ => False
  end.

Lemma pe_stream_cli : forall e s, ms_cli_closed (pe_stream e s) = ms_cli_closed s /\ ms_id (pe_stream e s) = ms_id s /\
  ms_win (pe_stream e s) = ms_win s + pe_dw e.
Proof. intros. repeat split. Qed.

Lemma scal_intro : forall m1 m2,
  m_max_frame m1 = m_max_frame m2 -> m_init_win m1 = m_init_win m2 -> m_max_streams m1 = m_max_streams m2 ->
  m_pending m1 = m_pending m2 -> m_conn_win m1 = m_conn_win m2 -> m_last_sid m1 = m_last_sid m2 ->
  m_hdr_open m1 = m_hdr_open m2 -> m_sent m1 = m_sent m2 -> m_acked m1 = m_acked m2 -> m_pings m1 = m_pings m2 ->
  m_c_conn_win m1 = m_c_conn_win m2 -> m_c_init_win m1 = m_c_init_win m2 -> scal m1 = scal m2.
Proof. intros. unfold scal. congruence. Qed.

(* a peer frame moved ahead of a client frame: still accepted, same books up to meq *)
Lemma swap_pe : forall m f e m1, cframe f -> pe_ok e ->
  (forall sid l eh es, f = FHeaders sid l eh es -> find_ms sid (m_streams m) = None -> pe_sid e <> sid) ->
  mon_client m f = inl m1 ->
  exists m2, mon_client (apply_pe m e) f = inl m2 /\ meq (apply_pe m1 e) m2.
Proof.
  intros m f e m1 Hf [Hdcw Hdw] Hcau H. unfold mon_client in *.
  change (m_hdr_open (apply_pe m e)) with (m_hdr_open m).
  destruct (negb (m_hdr_open m =? 0) && negb (is_continuation_on f (m_hdr_open m))); [discriminate|].
  assert (Hmf : max_frame_allowed m <= max_frame_allowed (apply_pe m e))
    by (unfold max_frame_allowed; cbn; apply pending_max_app_ge).
  assert (Hidp : forall s, ms_id (pe_stream e s) = ms_id s) by reflexivity.
  destruct f; cbn [cframe] in Hf; try contradiction; cbn [frame_len] in *; unfold ok, bad in *.
  - (* SETTINGS ACK *)
    change (m_pending (apply_pe m e)) with (m_pending m ++ pe_pend e).
    destruct (m_pending m) as [|kvs rest] eqn:Ep; [discriminate|]. cbn [app]. inversion H; subst m1. clear H.
    eexists. split; [reflexivity|].
    exact (settings_comm kvs
             (mkMon (m_max_frame m) (m_init_win m) (m_max_streams m) rest (m_conn_win m) (m_streams m) (m_last_sid m)
                    (m_hdr_open m) (m_sent m) (m_acked m + 1) (m_pings m) (m_c_conn_win m) (m_c_init_win m)) e).
  - (* WINDOW_UPDATE *)
    destruct (sid =? 0); inversion H; subst m1; clear H; eexists; (split; [reflexivity|]).
    + split; [apply scal_intro; cbn; try reflexivity; lia|apply F2seq_refl].
    + split; [reflexivity|]. cbn. apply upd_comm. apply comm_add_recv.
  - (* HEADERS *)
    destruct (max_frame_allowed m <? len) eqn:El; [discriminate|].
    replace (max_frame_allowed (apply_pe m e) <? len) with false by lia.
    change (m_streams (apply_pe m e)) with (upd_ms (pe_sid e) (pe_stream e) (m_streams m)).
    rewrite (find_upd _ _ _ _ Hidp).
    destruct (find_ms sid (m_streams m)) as [s|] eqn:Ef.
    + assert (Hcc : ms_cli_closed (if ms_id s =? pe_sid e then pe_stream e s else s) = ms_cli_closed s)
        by (destruct (ms_id s =? pe_sid e); reflexivity).
      rewrite Hcc. destruct (ms_cli_closed s); [discriminate|]. inversion H; subst m1; clear H.
      eexists. split; [reflexivity|].
      destruct end_headers, end_stream; (split; [reflexivity|]); cbn;
        try apply F2seq_refl; apply upd_comm; apply comm_cli_closed.
    + change (m_last_sid (apply_pe m e)) with (m_last_sid m).
      destruct (Z.even sid || (sid <=? m_last_sid m)); [discriminate|].
      destruct (negb (streams_allowed m)) eqn:Ea; [discriminate|].
      assert (Ha : streams_allowed (apply_pe m e) = true).
      { unfold streams_allowed in *. cbn. destruct (m_max_streams m) as [a|]; [|reflexivity].
        pose proof (open_count_upd_le (pe_sid e) (pe_stream e) (m_streams m) (pe_closed_mono e)).
        pose proof (pending_max_app_ge S_MAX_CONCURRENT_STREAMS (m_pending m) (pe_pend e) a). lia. }
      rewrite Ha. cbn [negb]. inversion H; subst m1; clear H.
      eexists. split; [reflexivity|]. split; [reflexivity|]. cbn.
      replace (sid =? pe_sid e) with false by (specialize (Hcau sid len end_headers end_stream eq_refl Ef); lia).
      apply F2seq_refl.
  - (* CONTINUATION *)
    destruct (max_frame_allowed m <? len) eqn:El; [discriminate|].
    replace (max_frame_allowed (apply_pe m e) <? len) with false by lia.
    destruct (m_hdr_open m =? 0); [discriminate|]. inversion H; subst m1; clear H.
    eexists. split; [reflexivity|]. destruct end_headers; split; try reflexivity; apply F2seq_refl.
  - (* DATA *)
    destruct (max_frame_allowed m <? len) eqn:El; [discriminate|].
    replace (max_frame_allowed (apply_pe m e) <? len) with false by lia.
    change (m_streams (apply_pe m e)) with (upd_ms (pe_sid e) (pe_stream e) (m_streams m)).
    rewrite (find_upd _ _ _ _ Hidp).
    destruct (find_ms sid (m_streams m)) as [s|] eqn:Ef; [|discriminate].
    set (s' := if ms_id s =? pe_sid e then pe_stream e s else s).
    assert (Hs' : ms_cli_closed s' = ms_cli_closed s /\ (ms_closed s = true -> ms_closed s' = true) /\ ms_win s <= ms_win s').
    { unfold s'. destruct (ms_id s =? pe_sid e); [|repeat split; auto; lia].
      repeat split; [apply pe_closed_mono|cbn; lia]. }
    destruct Hs' as (Hcc & Hcl & Hw). rewrite Hcc. destruct (ms_cli_closed s); [discriminate|]. cbv zeta in *.
    change (m_conn_win (apply_pe m e)) with (m_conn_win m + pe_dcw e).
    destruct ((0 <? len) && negb (ms_closed s) && (ms_win s - len <? 0)) eqn:E1; [discriminate|].
    destruct ((0 <? len) && (m_conn_win m - len <? 0)) eqn:E2; [discriminate|].
    assert (E1' : (0 <? len) && negb (ms_closed s') && (ms_win s' - len <? 0) = false).
    { destruct (ms_closed s') eqn:Ec'; [rewrite andb_false_r; reflexivity|].
      destruct (ms_closed s) eqn:Ec; [specialize (Hcl eq_refl); discriminate|]. lia. }
    rewrite E1'. replace ((0 <? len) && (m_conn_win m + pe_dcw e - len <? 0)) with false by lia.
    inversion H; subst m1; clear H. eexists. split; [reflexivity|].
    split; [apply scal_intro; cbn; try reflexivity; lia|]. cbn. apply upd_comm. apply comm_data.
  - (* RST_STREAM *)
    change (m_streams (apply_pe m e)) with (upd_ms (pe_sid e) (pe_stream e) (m_streams m)).
    rewrite (find_upd _ _ _ _ Hidp).
    destruct (find_ms sid (m_streams m)) as [s|] eqn:Ef; [|discriminate]. inversion H; subst m1; clear H.
    eexists. split; [reflexivity|]. split; [reflexivity|]. cbn. apply upd_comm. apply comm_cli_reset.
Qed.

(* acceptance and the resulting books respect meq *)
Lemma mono_client : forall m m' f n, meq m m' -> cframe f -> mon_client m f = inl n ->
  exists n', mon_client m' f = inl n' /\ meq n n'.
Proof.
  intros m m' f n [Hs Hl] Hf H. rewrite (scal_eta _ _ Hs). set (l' := m_streams m') in *. clearbody l'. clear Hs m'.
  unfold mon_client in *.
  change (m_hdr_open (set_streams m l')) with (m_hdr_open m).
  change (max_frame_allowed (set_streams m l')) with (max_frame_allowed m).
  destruct (negb (m_hdr_open m =? 0) && negb (is_continuation_on f (m_hdr_open m))); [discriminate|].
  destruct (match frame_len f with Some l => max_frame_allowed m <? l | None => false end); [discriminate|].
  pose proof (fun sid => F2seq_find _ _ sid Hl) as Hfind.
  destruct f; cbn [cframe] in Hf; try contradiction; unfold ok, bad in *.
  - (* ack *)
    change (m_pending (set_streams m l')) with (m_pending m).
    destruct (m_pending m) as [|kvs rest]; [discriminate|]. inversion H; subst n; clear H.
    eexists. split; [reflexivity|]. apply settings_cong. split; [reflexivity|exact Hl].
  - (* window update *)
    destruct (sid =? 0); inversion H; subst n; clear H; eexists; (split; [reflexivity|]).
    + split; [reflexivity|exact Hl].
    + split; [reflexivity|]. cbn. apply F2seq_upd; [exact Hl|apply cong_add_recv].
  - (* headers *)
    change (m_streams (set_streams m l')) with l'. specialize (Hfind sid).
    destruct (find_ms sid (m_streams m)) as [s|], (find_ms sid l') as [s'|]; try contradiction.
    + destruct Hfind as (_ & _ & Hcc & _). rewrite <- Hcc. destruct (ms_cli_closed s); [discriminate|].
      inversion H; subst n; clear H. eexists. split; [reflexivity|].
      destruct end_headers, end_stream; (split; [reflexivity|]); cbn; try exact Hl;
        apply F2seq_upd; try exact Hl; apply cong_cli_closed.
    + change (m_last_sid (set_streams m l')) with (m_last_sid m).
      destruct (Z.even sid || (sid <=? m_last_sid m)); [discriminate|].
      assert (Ha : streams_allowed (set_streams m l') = streams_allowed m).
      { unfold streams_allowed. cbn. rewrite (F2seq_open_count _ _ Hl). reflexivity. }
      rewrite Ha. destruct (negb (streams_allowed m)); [discriminate|]. inversion H; subst n; clear H.
      eexists. split; [reflexivity|]. split; [reflexivity|]. cbn. constructor; [apply seq_refl|exact Hl].
  - (* continuation *)
    destruct (m_hdr_open m =? 0); [discriminate|]. inversion H; subst n; clear H.
    eexists. split; [reflexivity|]. destruct end_headers; split; try reflexivity; exact Hl.
  - (* data *)
    change (m_streams (set_streams m l')) with l'. specialize (Hfind sid).
    destruct (find_ms sid (m_streams m)) as [s|], (find_ms sid l') as [s'|]; try contradiction; try discriminate.
    pose proof (seq_closed _ _ Hfind) as Hc. destruct Hfind as (_ & _ & Hcc & _ & _ & _ & Hw).
    rewrite <- Hcc. destruct (ms_cli_closed s); [discriminate|]. cbv zeta in *.
    change (m_conn_win (set_streams m l')) with (m_conn_win m).
    destruct ((0 <? len) && negb (ms_closed s) && (ms_win s - len <? 0)) eqn:E1; [discriminate|].
    destruct ((0 <? len) && (m_conn_win m - len <? 0)) eqn:E2; [discriminate|].
    assert (E1' : (0 <? len) && negb (ms_closed s') && (ms_win s' - len <? 0) = false).
    { rewrite <- Hc. destruct (ms_closed s) eqn:Ec; [rewrite andb_false_r; reflexivity|]. rewrite <- (Hw eq_refl). exact E1. }
    rewrite E1'. inversion H; subst n; clear H. eexists. split; [reflexivity|].
    split; [reflexivity|]. cbn. apply F2seq_upd; [exact Hl|apply cong_data].
  - (* rst *)
    change (m_streams (set_streams m l')) with l'. specialize (Hfind sid).
    destruct (find_ms sid (m_streams m)) as [s|], (find_ms sid l') as [s'|]; try contradiction; try discriminate.
    inversion H; subst n; clear H. eexists. split; [reflexivity|].
    split; [reflexivity|]. cbn. apply F2seq_upd; [exact Hl|apply cong_cli_reset].
Qed.

Lemma meq_sent : forall m m', meq m m' -> m_sent m = m_sent m'.
Proof. intros m m' [Hs _]. unfold scal in Hs. inversion Hs. reflexivity. Qed.

Definition cev_ok (e : ev) : Prop := match e with C f => cframe f | P _ => True end.

Lemma mono_step : forall m m' e n, meq m m' -> cev_ok e -> monitor_step m e = inl n ->
  exists n', monitor_step m' e = inl n' /\ meq n n'.
Proof.
  intros m m' e n Hm He H. destruct e as [f|g]; cbn [monitor_step] in *.
  - eapply mono_client; eauto.
  - unfold ok in *. inversion H; subst n. eexists. split; [reflexivity|].
    rewrite !mon_peer_pe, <- (meq_sent _ _ Hm). apply meq_pe. exact Hm.
Qed.

Lemma mono_steps : forall tr m m' n, meq m m' -> Forall cev_ok tr -> mon_steps m tr = Some n ->
  exists n', mon_steps m' tr = Some n' /\ meq n n'.
Proof.
  induction tr as [|e r IH]; intros m m' n Hm Hok H; simpl in *.
  - inversion H; subst. eauto.
  - inversion Hok; subst. destruct (monitor_step m e) as [m1|] eqn:E; [|discriminate].
    destruct (mono_step _ _ _ _ Hm H2 E) as (m1' & E' & Hm1). rewrite E'. eapply IH; eauto.
Qed.

(* ---- moving peer frames ahead of client frames ---- *)
Lemma apply_settings_sent : forall kvs m, m_sent (apply_settings m kvs) = m_sent m.
Proof.
  unfold apply_settings. induction kvs as [|[id v] r IH]; intros m; simpl; [reflexivity|]. rewrite IH.
  unfold apply_setting. destruct (id =? S_MAX_FRAME_SIZE); [reflexivity|].
  destruct (id =? S_MAX_CONCURRENT_STREAMS); [reflexivity|]. destruct (id =? S_INITIAL_WINDOW_SIZE); reflexivity.
Qed.

Lemma client_sent : forall m f m1, cframe f -> mon_client m f = inl m1 -> m_sent m1 = m_sent m.
Proof.
  intros m f m1 Hf H. unfold mon_client in H.
  destruct (negb (m_hdr_open m =? 0) && negb (is_continuation_on f (m_hdr_open m))); [discriminate|].
  destruct (match frame_len f with Some l => max_frame_allowed m <? l | None => false end); [discriminate|].
  destruct f; cbn [cframe] in Hf; try contradiction; unfold ok, bad in H.
  - destruct (m_pending m); [discriminate|]. inversion H; subst. rewrite apply_settings_sent. reflexivity.
  - destruct (sid =? 0); inversion H; subst; reflexivity.
  - destruct (find_ms sid (m_streams m)) as [s|].
    + destruct (ms_cli_closed s); [discriminate|]. inversion H; subst. destruct end_headers, end_stream; reflexivity.
    + destruct (Z.even sid || (sid <=? m_last_sid m)); [discriminate|].
      destruct (negb (streams_allowed m)); [discriminate|]. inversion H; subst. reflexivity.
  - destruct (m_hdr_open m =? 0); [discriminate|]. inversion H; subst. destruct end_headers; reflexivity.
  - destruct (find_ms sid (m_streams m)) as [s|]; [|discriminate]. destruct (ms_cli_closed s); [discriminate|].
    cbv zeta in H. destruct ((0 <? len) && negb (ms_closed s) && (ms_win s - len <? 0)); [discriminate|].
    destruct ((0 <? len) && (m_conn_win m - len <? 0)); [discriminate|]. inversion H; subst. reflexivity.
  - destruct (find_ms sid (m_streams m)); [|discriminate]. inversion H; subst. reflexivity.
Qed.

(* a WINDOW_UPDATE of the peer carries a non-negative increment *)
Definition peer_ok (g : frame) : Prop := match g with FWindowUpdate _ inc => 0 <= inc | _ => True end.

(* g does not refer to the stream that f opens (the peer cannot know it yet) *)
Definition no_ref (m : mon) (f g : frame) : Prop :=
  match f with
  | FHeaders sid _ _ _ => find_ms sid (m_streams m) = None -> pe_sid (pe_of g 0) <> sid
  | _ => True
  end.

Lemma pe_sid_sent : forall g a b, pe_sid (pe_of g a) = pe_sid (pe_of g b).
Proof. intros g a b. destruct g; cbn; try reflexivity. destruct ack; reflexivity. Qed.

Lemma swap_step : forall m f g m1, cframe f -> peer_ok g -> no_ref m f g ->
  monitor_step m (C f) = inl m1 ->
  exists m2, monitor_step (mon_peer m g) (C f) = inl m2 /\ meq (mon_peer m1 g) m2.
Proof.
  intros m f g m1 Hf Hg Hn H. cbn [monitor_step] in *. rewrite !mon_peer_pe, (client_sent _ _ _ Hf H).
  apply swap_pe; auto.
  - unfold pe_ok. destruct g; cbn in *; try lia.
    + destruct (sid =? 0); cbn; lia.
    + destruct end_stream; cbn; lia.
    + destruct ack; cbn; lia.
  - intros sid l eh es Ef Hnone. subst f. cbn [no_ref] in Hn. rewrite (pe_sid_sent g _ 0). apply Hn. exact Hnone.
Qed.

Inductive earlier (m0 : mon) : list ev -> list ev -> Prop :=
| earlier_refl : forall t, earlier m0 t t
| earlier_swap : forall a f g b t' ma,
    mon_steps m0 a = Some ma -> peer_ok g -> no_ref ma f g ->
    earlier m0 (a ++ P g :: C f :: b) t' ->
    earlier m0 (a ++ C f :: P g :: b) t'.

Theorem wire_order_accepted : forall m0 t t', earlier m0 t t' -> Forall cev_ok t ->
  forall mf, mon_steps m0 t = Some mf -> exists mf', mon_steps m0 t' = Some mf' /\ meq mf mf'.
Proof.
  intros m0 t t' He. induction He as [t|a f g b t' ma Ha Hg Hn He IH]; intros Hok mf H.
  - exists mf. split; [exact H|apply meq_refl].
  - apply Forall_app in Hok as [Hoka Hokr]. inversion Hokr as [|? ? Hf Hokr']; subst. inversion Hokr' as [|? ? _ Hokb]; subst.
    rewrite mon_steps_app, Ha in H. cbn [mon_steps] in H.
    destruct (monitor_step ma (C f)) as [m1|] eqn:E1; [|discriminate].
    cbn [monitor_step ok] in H.
    destruct (swap_step _ _ _ _ Hf Hg Hn E1) as (m2 & E2 & Hm).
    destruct (mono_steps _ _ _ _ Hm Hokb H) as (mf2 & H2 & Hmf).
    assert (H' : mon_steps m0 (a ++ P g :: C f :: b) = Some mf2).
    { rewrite mon_steps_app, Ha. cbn [mon_steps monitor_step ok]. cbn [monitor_step] in E2. rewrite E2. exact H2. }
    assert (Hok' : Forall cev_ok (a ++ P g :: C f :: b)).
    { apply Forall_app. split; [exact Hoka|]. constructor; [exact I|]. constructor; [exact Hf|exact Hokb]. }
    destruct (IH Hok' mf2 H') as (mf' & Hf' & Hm'). exists mf'. split; [exact Hf'|eapply meq_trans; eauto].
Qed.
