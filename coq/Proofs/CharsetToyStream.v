(* Proofs/CharsetToyStream.v - C15: the hypothesis decoder_ok is met by a genuinely STATEFUL streaming
   decoder: the toy two-byte charset of CharsetPinned.v decoded chunk by chunk, carrying a pending lead
   byte across chunk boundaries and flushing "?" for a truncated character at end of input, delivers
   for EVERY split exactly what the one-shot decoder makes of the whole input. *)
From Coq Require Import Lia.
From ReqV Require Import Lib.Bytes Lib.BytesFacts Model.Charset Proofs.CharsetProofs Proofs.CharsetPinned.

(* one Transform call: [pend] = a lead byte of the previous chunk is waiting for its trail byte *)
Fixpoint toy_step (pend : bool) (s : bytes) : bytes * bool :=
  match s with
  | [] => ([], pend)
  | a :: r =>
      if pend then let '(o, p) := toy_step false r in ("W"%byte :: o, p)
      else if is_hi a then toy_step true r
      else let '(o, p) := toy_step false r in (a :: o, p)
  end.

Definition toy_flush (pend : bool) : bytes := if pend then ["?"%byte] else [].

(* the streaming reader: chunk after chunk, flush at end of input *)
Fixpoint toy_stream (pend : bool) (chunks : list bytes) : bytes :=
  match chunks with
  | [] => toy_flush pend
  | c :: r => let '(o, p) := toy_step pend c in o ++ toy_stream p r
  end.

Definition toy_dec_stream_stateful (_ : unit) (chunks : list bytes) : bytes := toy_stream false chunks.

(* one-shot decoding started in the middle of a character *)
Definition toy_dec_from (pend : bool) (s : bytes) : bytes :=
  if pend then match s with [] => ["?"%byte] | _ :: r => "W"%byte :: toy_dec r end
  else toy_dec s.

Lemma toy_dec_from_step s : forall pend,
  toy_dec_from pend s = fst (toy_step pend s) ++ toy_flush (snd (toy_step pend s)).
Proof.
  induction s as [|a r IH]; intros pend.
  - destruct pend; reflexivity.
  - destruct pend.
    + cbn [toy_dec_from toy_step]. specialize (IH false). cbn [toy_dec_from] in IH.
      destruct (toy_step false r) as [o p]. cbn [fst snd] in *. rewrite IH. reflexivity.
    + cbn [toy_dec_from toy_step toy_dec]. destruct (is_hi a).
      * specialize (IH true). cbn [toy_dec_from] in IH. exact IH.
      * specialize (IH false). cbn [toy_dec_from] in IH.
        destruct (toy_step false r) as [o p]. cbn [fst snd] in *. rewrite IH. reflexivity.
Qed.

Lemma toy_step_app c : forall pend s,
  toy_step pend (c ++ s) =
    (fst (toy_step pend c) ++ fst (toy_step (snd (toy_step pend c)) s),
     snd (toy_step (snd (toy_step pend c)) s)).
Proof.
  induction c as [|a r IH]; intros pend s.
  - cbn. destruct (toy_step pend s); reflexivity.
  - cbn [app toy_step]. destruct pend.
    + rewrite IH. destruct (toy_step false r) as [o p]. reflexivity.
    + destruct (is_hi a).
      * apply IH.
      * rewrite IH. destruct (toy_step false r) as [o p]. reflexivity.
Qed.

Lemma toy_stream_spec chunks : forall pend,
  toy_stream pend chunks = toy_dec_from pend (concat chunks).
Proof.
  induction chunks as [|c r IH]; intros pend.
  - cbn [toy_stream concat]. destruct pend; reflexivity.
  - cbn [toy_stream concat]. rewrite toy_dec_from_step, toy_step_app. cbn [fst snd].
    destruct (toy_step pend c) as [o p] eqn:E. cbn [fst snd].
    rewrite IH, toy_dec_from_step, app_assoc. reflexivity.
Qed.

Theorem toy_stateful_decoder_ok : decoder_ok toy_dec_all toy_dec_stream_stateful.
Proof. intros e chunks. unfold toy_dec_stream_stateful, toy_dec_all. rewrite toy_stream_spec. reflexivity. Qed.

(* the stateful decoder is not the trivial "concatenate, then decode": on a character cut between two
   chunks it really carries the lead byte over *)
Example toy_stream_carries_state :
  toy_step false (bs "<m>" ++ [xe4]) = (bs "<m>", true) /\
  toy_stream false [bs "<m>" ++ [xe4]; [xb8; "z"%byte]] = bs "<m>Wz" /\
  toy_stream false [bs "<m>" ++ [xe4]] = bs "<m>?".
Proof. vm_compute. repeat split. Qed.

(* the hypothesis of C15_net_error_prefix is met by the toy decoder: what it delivers before a source
   error (complete characters only) is a prefix of the transcoding of every completion of its input *)
Lemma toy_dec_lo a s : is_hi a = false -> toy_dec (a :: s) = a :: toy_dec s.
Proof.
  intros H.
  change (toy_dec (a :: s)) with
    (if is_hi a then match s with _ :: r' => "W"%byte :: toy_dec r' | [] => ["?"%byte] end else a :: toy_dec s).
  rewrite H. reflexivity.
Qed.

Lemma toy_dec_hi a t s : is_hi a = true -> toy_dec (a :: t :: s) = "W"%byte :: toy_dec s.
Proof.
  intros H.
  change (toy_dec (a :: t :: s)) with
    (if is_hi a then "W"%byte :: toy_dec s else a :: toy_dec (t :: s)).
  rewrite H. reflexivity.
Qed.

Lemma toy_part_lo a s : is_hi a = false -> toy_part (a :: s) = a :: toy_part s.
Proof.
  intros H.
  change (toy_part (a :: s)) with
    (if is_hi a then match s with _ :: r' => "W"%byte :: toy_part r' | [] => [] end else a :: toy_part s).
  rewrite H. reflexivity.
Qed.

Lemma toy_part_hi a t s : is_hi a = true -> toy_part (a :: t :: s) = "W"%byte :: toy_part s.
Proof.
  intros H.
  change (toy_part (a :: t :: s)) with
    (if is_hi a then "W"%byte :: toy_part s else a :: toy_part (t :: s)).
  rewrite H. reflexivity.
Qed.

Lemma toy_part_prefix_aux n : forall s rest,
  length s <= n -> exists tail, toy_dec (s ++ rest) = toy_part s ++ tail.
Proof.
  induction n as [|n IH]; intros s rest L.
  - destruct s; [|cbn in L; lia]. exists (toy_dec rest). reflexivity.
  - destruct s as [|a [|t r]].
    + exists (toy_dec rest). reflexivity.
    + cbn [app]. destruct (is_hi a) eqn:H.
      * exists (toy_dec (a :: rest)).
        change (toy_part [a]) with (if is_hi a then [] else [a]). rewrite H. reflexivity.
      * exists (toy_dec rest). rewrite toy_dec_lo, toy_part_lo by exact H. reflexivity.
    + cbn [app]. cbn [length] in L. destruct (is_hi a) eqn:H.
      * destruct (IH r rest) as [tail Ht]; [lia|].
        exists tail. rewrite toy_dec_hi, toy_part_hi by exact H. rewrite Ht. reflexivity.
      * destruct (IH (t :: r) rest) as [tail Ht]; [cbn [length]; lia|].
        exists tail. rewrite toy_dec_lo, toy_part_lo by exact H. cbn [app] in Ht. rewrite Ht. reflexivity.
Qed.

Theorem toy_partial_ok :
  forall (e : unit) cs rest, exists tail,
    toy_dec_all e (concat cs ++ rest) = toy_dec_partial e cs ++ tail.
Proof. intros e cs rest. unfold toy_dec_all, toy_dec_partial. eapply toy_part_prefix_aux. apply le_n. Qed.
