(* Proofs/CharsetPinned.v - the PINNED peekRead (before fix 0f7aacc) violates two_results_only.
   The decoder Section is instantiated with a toy two-byte charset so that the witnesses are closed
   and computable: bytes < 0x80 are themselves, a byte >= 0x80 starts a two-byte character that
   decodes to "W", a lead byte with nothing after it (truncated input) decodes to "?" - the at-EOF
   behaviour of Decoder.Bytes.  The declaration FindEncoding looks for is the marker "<m>". *)
From ReqV Require Import Lib.Bytes Lib.BytesFacts Model.Charset Proofs.CharsetProofs.

Definition is_hi (a : byte) : bool := (128 <=? bN a)%N.

Fixpoint toy_dec (s : bytes) : bytes :=
  match s with
  | [] => []
  | a :: r =>
      if is_hi a then
        match r with
        | _ :: r' => "W"%byte :: toy_dec r'
        | [] => ["?"%byte]
        end
      else a :: toy_dec r
  end.

Definition toy_dec_all (_ : unit) (s : bytes) : bytes := toy_dec s.
Definition toy_dec_stream (_ : unit) (chunks : list bytes) : bytes := toy_dec (concat chunks).

(* before a source error: complete characters only, a pending lead byte is withheld *)
Fixpoint toy_part (s : bytes) : bytes :=
  match s with
  | [] => []
  | a :: r =>
      if is_hi a then
        match r with
        | _ :: r' => "W"%byte :: toy_part r'
        | [] => []
        end
      else a :: toy_part r
  end.
Definition toy_dec_partial (_ : unit) (chunks : list bytes) : bytes := toy_part (concat chunks).
Definition toy_find (b : bytes) : option unit :=
  if contains_sub (bs "<m>") b then Some tt else None.

Lemma toy_decoder_ok : decoder_ok toy_dec_all toy_dec_stream.
Proof. intros e chunks. reflexivity. Qed.

Definition zeros (n : nat) : bytes := repeat x00 n.

Definition pinned_run (chunks : list bytes) (bufs : list bytes) : bytes * rerr :=
  read_all_pinned toy_dec_all toy_dec_stream toy_dec_partial toy_find bufs (fresh_adrc chunks false false []).

Definition repaired_run (chunks : list bytes) (sizes : list nat) : bytes * rerr :=
  read_all toy_dec_stream toy_dec_partial toy_find sizes (BSniff (fresh_adrc chunks false false [])).

(* 1. a body shorter than the caller's buffer is padded to len(p): here with the NULs of a fresh buffer *)
Definition w1_chunks : list bytes := [bs "<m>ab"].
Definition w1_bufs : list bytes := [zeros 8; zeros 8; zeros 8].

(* 2. a two-byte character cut by the first read: one-shot decoding of the first chunk turns the lead
      byte into "?", the streaming decoder then starts in the middle of the character *)
Definition w2_chunks : list bytes := [bs "<m>" ++ [xe4]; [xb8; "z"%byte]].
Definition w2_bufs : list bytes := [zeros 4; zeros 4; zeros 4].

(* 3. detection on the whole caller buffer: stale bytes from an earlier use of the buffer contain a
      declaration, the body (which declares nothing) is mis-decoded *)
Definition w3_chunks : list bytes := ["a"%byte :: [xe4; xb8]].
Definition w3_bufs : list bytes := [bs "zzz<m>zz"; bs "zzz<m>zz"; bs "zzz<m>zz"].

Definition third_result (chunks : list bytes) (o : bytes) : Prop :=
  o <> concat chunks /\ forall e : unit, o <> toy_dec_all e (concat chunks).

Lemma pinned_w1 : exists o, pinned_run w1_chunks w1_bufs = (o, EEOF) /\ third_result w1_chunks o.
Proof.
  eexists. split; [vm_compute; reflexivity|]. split; [|intros []]; vm_compute; discriminate.
Qed.

Lemma pinned_w2 : exists o, pinned_run w2_chunks w2_bufs = (o, EEOF) /\ third_result w2_chunks o.
Proof.
  eexists. split; [vm_compute; reflexivity|]. split; [|intros []]; vm_compute; discriminate.
Qed.

Lemma pinned_w3 : exists o, pinned_run w3_chunks w3_bufs = (o, EEOF) /\ third_result w3_chunks o.
Proof.
  eexists. split; [vm_compute; reflexivity|]. split; [|intros []]; vm_compute; discriminate.
Qed.

(* the repaired machine on the same inputs *)
Lemma repaired_w123 :
  repaired_run w1_chunks [8; 8; 8] = (bs "<m>ab", EEOF) /\
  repaired_run w2_chunks [4; 4; 4] = (bs "<m>Wz", EEOF) /\
  repaired_run w3_chunks [8; 8; 8] = ("a"%byte :: [xe4; xb8], EEOF).
Proof. vm_compute. repeat split. Qed.

Theorem two_results_only_pinned_refuted :
  exists (enc : Type) (dec_all : enc -> bytes -> bytes) (dec_stream : enc -> list bytes -> bytes)
         (dec_partial : enc -> list bytes -> bytes) (find_encoding : bytes -> option enc),
    decoder_ok dec_all dec_stream /\
    (* NUL padding *)
    (exists chunks bufs o,
        read_all_pinned dec_all dec_stream dec_partial find_encoding bufs (fresh_adrc chunks false false []) = (o, EEOF) /\
        o <> concat chunks /\ (forall e, o <> dec_all e (concat chunks)) /\
        exists e, o = dec_all e (concat chunks) ++ [x00; x00; x00]) /\
    (* character cut by the first read *)
    (exists chunks bufs o,
        read_all_pinned dec_all dec_stream dec_partial find_encoding bufs (fresh_adrc chunks false false []) = (o, EEOF) /\
        o <> concat chunks /\ (forall e, o <> dec_all e (concat chunks))) /\
    (* stale bytes of the caller's buffer trigger a declaration the body does not contain *)
    (exists chunks bufs o,
        read_all_pinned dec_all dec_stream dec_partial find_encoding bufs (fresh_adrc chunks false false []) = (o, EEOF) /\
        (forall b, find_encoding b <> None -> forall rest, concat chunks <> b ++ rest) /\
        o <> concat chunks /\ (forall e, o <> dec_all e (concat chunks))).
Proof.
  exists unit, toy_dec_all, toy_dec_stream, toy_dec_partial, toy_find. split; [exact toy_decoder_ok|].
  split; [|split].
  - exists w1_chunks, w1_bufs. destruct pinned_w1 as [o [H [A B]]]. exists o.
    repeat split; auto. exists tt. revert H. vm_compute. intros H; inversion H. reflexivity.
  - exists w2_chunks, w2_bufs. destruct pinned_w2 as [o [H [A B]]]. exists o. auto.
  - exists w3_chunks, w3_bufs. destruct pinned_w3 as [o [H [A B]]]. exists o.
    repeat split; auto.
    intros b Hb rest E. apply Hb. unfold toy_find.
    (* b is a prefix of the 3-byte body "a\xe4\xb8": none of its prefixes contains "<m>" *)
    cbn [w3_chunks concat app] in E.
    destruct b as [|b0 [|b1 [|b2 [|b3 b]]]]; cbn [app] in E; try discriminate;
      inversion E; subst; vm_compute; reflexivity.
Qed.

(* ---------- the PINNED guard (response header Accept-Encoding instead of Content-Encoding) ---------- *)

Definition toy_parse (ct : bytes) : ct_parse :=
  if contains_sub (bs "charset=toy") ct then PCharset (bs "toy") else PNoCharset.
Definition toy_lookup (v : bytes) : option unit := if bytes_eqb v (bs "toy") then Some tt else None.

Definition guard_body : list bytes := [bs "ab" ++ [xe4; xb8]].
Definition guard_ct : bytes := bs "text/html; charset=toy".

(* what the pinned transport installed, read to the end *)
Definition respond_pinned_guard (resp_ae : bytes) (chunks : list bytes) (sizes : list nat) : bytes * rerr :=
  read_all toy_dec_stream toy_dec_partial toy_find sizes
           (open_body toy_dec_stream toy_dec_partial (decide_pinned toy_parse toy_lookup false SelDefault resp_ae guard_ct) chunks false false []).

Theorem guard_pinned_refuted :
  exists (enc : Type) (dec_all : enc -> bytes -> bytes) (dec_stream dec_partial : enc -> list bytes -> bytes)
         (find_encoding : bytes -> option enc) (parse_ct : bytes -> ct_parse)
         (lookup_charset : bytes -> option enc),
    decoder_ok dec_all dec_stream /\
    exists ct v e chunks sizes,
      parse_ct ct = PCharset v /\ is_utf8_label (to_lower v) = false /\ lookup_charset (to_lower v) = Some e /\
      selected SelDefault ct = true /\
      (* (a) Accept-Encoding on the response, body not content-encoded: the repaired guard decodes,
             the pinned one left the declared charset unapplied *)
      (exists resp_ae o,
          resp_ae <> [] /\
          respond dec_stream dec_partial find_encoding parse_ct lookup_charset false SelDefault [] ct chunks false false [] sizes
            = (dec_all e (concat chunks), EEOF) /\
          read_all dec_stream dec_partial find_encoding sizes
            (open_body dec_stream dec_partial (decide_pinned parse_ct lookup_charset false SelDefault resp_ae ct) chunks false false [])
            = (o, EEOF) /\
          o = concat chunks /\ o <> dec_all e (concat chunks)) /\
      (* (b) body still content-encoded, no Accept-Encoding: the pinned guard transcoded it *)
      (exists resp_ce o,
          resp_ce <> [] /\
          respond dec_stream dec_partial find_encoding parse_ct lookup_charset false SelDefault resp_ce ct chunks false false [] sizes
            = (concat chunks, EEOF) /\
          read_all dec_stream dec_partial find_encoding sizes
            (open_body dec_stream dec_partial (decide_pinned parse_ct lookup_charset false SelDefault [] ct) chunks false false [])
            = (o, EEOF) /\
          o <> concat chunks).
Proof.
  exists unit, toy_dec_all, toy_dec_stream, toy_dec_partial, toy_find, toy_parse, toy_lookup.
  split; [exact toy_decoder_ok|].
  exists guard_ct, (bs "toy"), tt, guard_body, [8; 8; 8].
  repeat split; try (vm_compute; reflexivity).
  - exists (bs "gzip"). eexists. repeat split; try (vm_compute; reflexivity); vm_compute; discriminate.
  - exists (bs "x-custom"). eexists. repeat split; try (vm_compute; reflexivity); vm_compute; discriminate.
Qed.

(* ---------- why the decoder must be installed exactly once, and the body read to io.EOF ---------- *)

(* a latin-1-like toy charset: a byte >= 0x80 becomes the two bytes C3 b (both >= 0x80 again) *)
Definition toy2_dec (s : bytes) : bytes := flat_map (fun b => if is_hi b then [xc3; b] else [b]) s.
Definition toy2_dec_all (_ : unit) (s : bytes) : bytes := toy2_dec s.
Definition toy2_dec_stream (_ : unit) (chunks : list bytes) : bytes := toy2_dec (concat chunks).

(* transcoding the transcoded text once more is neither the original nor its transcoding; and the
   transcoding is longer than the original, so a reader that stops at the original (declared) length
   cuts it *)
Theorem decode_twice_or_cut_is_a_third_result :
  exists (enc : Type) (dec_all : enc -> bytes -> bytes) (dec_stream : enc -> list bytes -> bytes) (e : enc) (body : bytes),
    decoder_ok dec_all dec_stream /\
    dec_all e (dec_all e body) <> body /\ dec_all e (dec_all e body) <> dec_all e body /\
    length body < length (dec_all e body) /\
    firstn (length body) (dec_all e body) <> body /\ firstn (length body) (dec_all e body) <> dec_all e body.
Proof.
  exists unit, toy2_dec_all, toy2_dec_stream, tt, (bs "caf" ++ [xe9]).
  split; [intros e cs; reflexivity|]. vm_compute. repeat split; try discriminate. auto.
Qed.
