(* Proofs/H3LimitsProofs.v - totality and limits of the HTTP/3 frame parser / response head (C07);
   builds on Proofs/H3FrameProofs.v (C05) *)
From Coq Require Import Lia ZifyBool ZifyNat ZifyN.
From ReqV Require Import Lib.Bytes Lib.BigEndian Model.QuicVarint Model.H3Frame Model.H3Limits Proofs.H3FrameProofs.
Open Scope N_scope.

(* the parser's result does not depend on the fuel once it exceeds the input: no fuel artefact *)
Theorem h3_frame_parse_total body f input :
  (length input < f)%nat -> h3_parse_next_fuel body f input = h3_parse_next_b body input.
Proof. intros H. unfold h3_parse_next_b. apply parse_next_fuel_irrelevant; lia. Qed.

Lemma settings_frame_rest input l : (length (snd (h3_parse_settings_frame input l)) <= length input)%nat.
Proof.
  unfold h3_parse_settings_frame. destruct (h3SettingsMaxLen <? l); [cbn; lia|].
  destruct (lenN input <? l); [cbn; lia|].
  destruct (h3_parse_settings_payload _); cbn [snd]; rewrite skipn_length; lia.
Qed.

Lemma settings_arm_rest body x : snd (h3_settings_arm body x) = snd x.
Proof. destruct x as [[f|e] r]; [reflexivity|]. destruct e; reflexivity. Qed.

Lemma parse_next_fuel_rest body : forall f input, (length (snd (h3_parse_next_fuel body f input)) <= length input)%nat.
Proof.
  induction f as [|f IH]; intros input; cbn [h3_parse_next_fuel]; [cbn; lia|].
  destruct (vi_read input) as [[t r1]|] eqn:R1; [|cbn; lia].
  destruct (vi_read r1) as [[l r2]|] eqn:R2; [|cbn; lia].
  pose proof (vi_read_shorter _ _ _ R1). pose proof (vi_read_shorter _ _ _ R2).
  destruct (t =? h3FrameData); [cbn; lia|].
  destruct (t =? h3FrameHeaders); [cbn; lia|].
  destruct (t =? h3FrameSettings); [rewrite settings_arm_rest; pose proof (settings_frame_rest r2 l); lia|].
  destruct (memN t h3ReservedTypes); [cbn; lia|].
  destruct (lenN r2 <? l); [cbn; lia|].
  specialize (IH (skipn (N.to_nat l) r2)). rewrite skipn_length in IH. lia.
Qed.

(* what is left in the reader is never more than what was there: the parser only consumes *)
Theorem h3_parse_only_consumes body input : (length (snd (h3_parse_next_b body input)) <= length input)%nat.
Proof. apply parse_next_fuel_rest. Qed.

(* SETTINGS cap: a frame announcing more than the cap is refused with the reader untouched
   (nothing is read, nothing allocated) ... *)
Theorem h3_settings_over_cap input l :
  h3SettingsMaxLen < l -> h3_parse_settings_frame input l = (H3Err (H3SettingsTooLarge l), input).
Proof. intros H. unfold h3_parse_settings_frame. destruct (N.ltb_spec h3SettingsMaxLen l); [reflexivity|lia]. Qed.

(* ... and an accepted SETTINGS frame had a payload within the cap *)
Theorem h3_settings_cap body input s rest :
  h3_parse_next_b body input = (H3Ok (H3Settings s), rest) ->
  exists payload, lenN payload <= h3SettingsMaxLen /\ h3_parse_settings_payload payload = H3Ok s.
Proof.
  intros H. apply h3_parse_next_ok_inv in H as (sk & et & el & t & l & bd & _ & _ & _ & _ & Cases).
  destruct Cases as [(_ & E & _)|[(_ & E & _)|(_ & Hl & payload & s' & _ & Hp & Hs & E)]]; try discriminate.
  inversion E; subst. exists payload. split; [lia|assumption].
Qed.

(* response head: a HEADERS frame announcing more than maxHeaderBytes is refused whatever follows ... *)
Theorem h3_header_over_limit max input l rest :
  h3_parse_next input = (H3Ok (H3Headers l), rest) -> max < l -> h3_read_head max input = HdTooLarge l.
Proof. intros H Hl. unfold h3_read_head. rewrite H. destruct (N.ltb_spec max l); [reflexivity|lia]. Qed.

(* ... and an accepted field section is within the limit and is exactly the announced bytes *)
Theorem h3_header_within_limit max input block rest :
  h3_read_head max input = HdOk block rest ->
  lenN block <= max /\ (length block + length rest <= length input)%nat.
Proof.
  unfold h3_read_head. pose proof (h3_parse_only_consumes false input) as Hc. fold (h3_parse_next input) in Hc.
  destruct (h3_parse_next input) as [[[l0|l|s]|e] r]; try discriminate.
  destruct (N.ltb_spec max l) as [Hm|Hm]; [discriminate|]. destruct (N.ltb_spec (lenN r) l) as [Hr|Hr]; [discriminate|].
  intros E. inversion E; subst. cbn [snd] in Hc. unfold lenN in *.
  rewrite firstn_length, skipn_length. lia.
Qed.

Lemma h3_read_loop_count : forall budget max q n input,
  match h3_read_loop budget max q n input with
  | H3CallErr k => (k <= n + budget)%nat
  | H3Resp k _ _ => (k <= n + budget)%nat
  | _ => True
  end.
Proof.
  induction budget as [|b IH]; intros max q n input; cbn [h3_read_loop];
    destruct (h3_read_head max input); try lia;
    destruct (qlookup block q) as [[fs|]|]; try lia; try exact I;
    destruct (h3_response fs) as [[h code]|]; try lia;
    destruct (h3_is_1xx_nonterminal code); try lia; try exact I.
  specialize (IH max q (S n) rest). destruct (h3_read_loop b max q (S n) rest); try exact I; lia.
Qed.

Theorem h3_at_most_5_informational max q input :
  match h3_read_call max q input with
  | H3CallErr k => (k <= 5)%nat
  | H3Resp k _ _ => (k <= 5)%nat
  | _ => True
  end.
Proof. exact (h3_read_loop_count 5 max q 0 input). Qed.
