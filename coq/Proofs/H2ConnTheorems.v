(* Proofs/H2ConnTheorems.v - induction over ARBITRARY event lists of the client machine
   (Model/H2Conn.v) and the property-level statements of C06. *)
From Coq Require Import ZArith Bool Lia ZifyBool List.
From ReqV Require Import Lib.GoInt Gen.H2Flow Model.H2Flow Model.H2Monitor Model.H2Conn Model.H2TraceSpec
                         Proofs.GoIntFacts Proofs.H2FlowProofs Proofs.H2ConnProofs Proofs.H2CreditProofs
                         Proofs.H2MonitorFacts Proofs.H2WireOrder.
Import ListNotations.
Open Scope Z_scope.

(* ---- what a step can write ---- *)
Definition plain (e : ev) : Prop :=
  match e with
  | P (FSettings _) => False
  | C f => match f with
           | FHeaders _ _ _ _ | FContinuation _ _ _ | FData _ _ _ | FRst _ | FWindowUpdate _ _ => True
           | _ => False
           end
  | _ => True
  end.

Lemma plain_wu : forall sid n, Forall plain (wu sid n).
Proof. intros. unfold wu. destruct (0 <? n); repeat constructor. Qed.

Lemma plain_cont : forall fuel sid rest maxf, Forall plain (cl (cont_frames fuel sid rest maxf)).
Proof.
  induction fuel as [|k IH]; intros; cbn [cont_frames cl map]; [constructor|].
  destruct (rest <=? 0); [constructor|]. constructor; [exact I|apply IH].
Qed.

Lemma plain_hdr : forall sid hlen maxf prio es, Forall plain (cl (hdr_frames sid hlen maxf prio es)).
Proof. intros. unfold hdr_frames. cbn [cl map]. constructor; [exact I|apply plain_cont]. Qed.

Lemma step_shape : forall c e,
  Forall plain (snd (conn_step c e)) \/ exists kvs, snd (conn_step c e) = [P (FSettings kvs); C FSettingsAck].
Proof.
  intros c e. destruct e; cbn [conn_step].
  - left. destruct (negb (cc_dead c) && _ && _ && _ && _); cbn [snd]; [apply plain_hdr|constructor].
  - left. destruct (find_cs sid (cc_streams c)) as [s|]; [|constructor].
    destruct (negb (cs_forgotten s) && _ && _ && _ && _); [|constructor].
    destruct (out_take_stream _ _ _) as [[n' cn']|]; cbn [snd]; repeat constructor.
  - left. destruct (find_cs sid (cc_streams c)) as [s|]; [|constructor].
    destruct (negb (cs_forgotten s) && _ && _ && _); [|constructor]. cbn [snd].
    destruct (tlen <=? 0); [repeat constructor|apply plain_hdr].
  - left. destruct (find_cs sid (cc_streams c)) as [s|]; [|constructor].
    destruct (negb (cs_forgotten s) && _); cbn [snd]; repeat constructor.
  - left. destruct (find_cs sid (cc_streams c)) as [s|]; [|constructor].
    destruct (negb (cs_forgotten s) && _); cbn [snd]; constructor.
  - destruct (settings_valid kvs); cbn [snd]; [right; eauto|left; constructor].
  - left. destruct ((1 <=? inc) && _); [|constructor]. destruct (sid =? 0).
    + destruct (out_add_conn (cc_flow c) inc). cbn [snd]. repeat constructor.
    + cbn [snd]. repeat constructor.
  - left. cbn [snd]. repeat constructor.
  - left. cbn [snd]. repeat constructor.
  - left. destruct ((0 <=? pad) && _ && _); [|constructor].
    destruct (find_cs sid (cc_streams c)) as [s|]; [|constructor].
    destruct (cs_forgotten s || cs_peer_reset s).
    + destruct (in_take (cc_in c) len) as [[[|]|] f1]; try constructor.
      destruct (in_add_ret f1 len). cbn [snd]. constructor; [exact I|apply plain_wu].
    + destruct (cs_peer_ended s); [constructor|].
      destruct (in_take2 (cc_in c) (cs_in s) len) as [[[|]|] [f1 g1]]; try constructor.
      destruct (in_add_ret f1 _). destruct (if cs_app_closed s then _ else _). cbn [snd].
      constructor; [exact I|]. apply Forall_app. split; apply plain_wu.
  - left. destruct (find_cs sid (cc_streams c)) as [s|]; [|constructor].
    destruct ((1 <=? n) && _ && _ && _); [|constructor].
    destruct (in_add_ret (cc_in c) n). destruct (if eof then _ else _). cbn [snd].
    apply Forall_app. split; apply plain_wu.
  - left. destruct (find_cs sid (cc_streams c)) as [s|]; [|constructor].
    destruct (negb (cs_app_closed s)); [|constructor].
    destruct (if 0 <? cs_buf s then _ else _). cbn [snd]. apply plain_wu.
  - left. destruct (find_cs sid (cc_streams c)) as [s|]; [|constructor].
    destruct (cs_forgotten s || cs_peer_reset s || cs_peer_ended s); cbn [snd]; repeat constructor.
  - left. destruct (negb (cc_dead c) && _ && _); cbn [snd]; constructor.
Qed.

Lemma plain_not_csettings : forall e, plain e -> not_csettings e.
Proof. intros [f|f]; destruct f; simpl; auto. Qed.

Lemma plain_no_other : forall e, plain e -> no_other e.
Proof. intros [f|f]; destruct f; simpl; auto. Qed.

Lemma step_not_csettings : forall c e, Forall not_csettings (snd (conn_step c e)).
Proof.
  intros c e. destruct (step_shape c e) as [H|[kvs H]].
  - eapply Forall_impl; [apply plain_not_csettings|exact H].
  - rewrite H. repeat constructor.
Qed.

Lemma step_no_other : forall c e, Forall no_other (snd (conn_step c e)).
Proof.
  intros c e. destruct (step_shape c e) as [H|[kvs H]].
  - eapply Forall_impl; [apply plain_no_other|exact H].
  - rewrite H. repeat constructor.
Qed.

Lemma sa_ok_plain : forall tr rest, Forall plain tr -> sa_ok (tr ++ rest) = sa_ok rest.
Proof.
  induction tr as [|e r IH]; intros rest H; [reflexivity|]. inversion H; subst. cbn [app].
  destruct e as [f|f]; destruct f; simpl in *; try contradiction; apply IH; assumption.
Qed.

Lemma step_sa : forall c e rest, sa_ok (snd (conn_step c e) ++ rest) = sa_ok rest.
Proof.
  intros c e rest. destruct (step_shape c e) as [H|[kvs H]].
  - apply sa_ok_plain. exact H.
  - rewrite H. reflexivity.
Qed.

Lemma run_sa : forall evs c, sa_ok (snd (conn_run c evs)) = true.
Proof.
  induction evs as [|e r IH]; intros c; cbn [conn_run]; [reflexivity|].
  destruct (conn_step c e) as [c1 o1] eqn:E1. destruct (conn_run c1 r) as [c2 o2] eqn:E2. cbn [snd].
  replace o1 with (snd (conn_step c e)) by (rewrite E1; reflexivity). rewrite step_sa.
  replace o2 with (snd (conn_run c1 r)) by (rewrite E2; reflexivity). apply IH.
Qed.

Lemma run_no_other : forall evs c, Forall no_other (snd (conn_run c evs)).
Proof.
  induction evs as [|e r IH]; intros c; cbn [conn_run]; [constructor|].
  destruct (conn_step c e) as [c1 o1] eqn:E1. destruct (conn_run c1 r) as [c2 o2] eqn:E2. cbn [snd].
  apply Forall_app. split.
  - replace o1 with (snd (conn_step c e)) by (rewrite E1; reflexivity). apply step_no_other.
  - replace o2 with (snd (conn_run c1 r)) by (rewrite E2; reflexivity). apply IH.
Qed.

(* ---- the induction: all interleavings ---- *)
Theorem run_ok : forall evs c m I, R c m -> RC I c (rx_of m) ->
  exists m', mon_steps m (snd (conn_run c evs)) = Some m' /\
             R (fst (conn_run c evs)) m' /\ RC I (fst (conn_run c evs)) (rx_of m').
Proof.
  induction evs as [|e r IH]; intros c m I HR HC; cbn [conn_run].
  - exists m. cbn. auto.
  - destruct (step_ok_all c m e HR) as (m1 & Hs1 & HR1).
    pose proof (rc_step I c (rx_of m) e HC) as HC1. unfold rc_ok in HC1.
    rewrite <- (rx_monitor_steps _ _ _ (step_not_csettings c e) Hs1) in HC1.
    destruct (conn_step c e) as [c1 o1]. cbn [fst snd] in *.
    destruct (IH c1 m1 I HR1 HC1) as (m2 & Hs2 & HR2 & HC2).
    destruct (conn_run c1 r) as [c2 o2]. cbn [fst snd] in *.
    exists m2. rewrite mon_steps_app, Hs1. auto.
Qed.

(* ---- the initial states ---- *)
Definition cfg_ok (prio_len prio_last stream_in conn_flow : Z) : Prop :=
  0 <= prio_len /\ (prio_last = 0 \/ (0 < prio_last /\ Z.odd prio_last = true)) /\
  0 <= stream_in <= 2147483647 /\ 0 <= conn_flow /\ conn_flow + 65535 <= 2147483647.

Lemma conn0_flow : snd (out_add_conn 0 c_initialWindowSize) = 65535.
Proof. vm_compute. reflexivity. Qed.

Lemma conn0_in : forall conn_flow, 0 <= conn_flow -> conn_flow + 65535 <= 2147483647 ->
  in_init (mkIn 0 0) (wrap32 (wrap32 conn_flow + c_initialWindowSize)) = mkIn (conn_flow + 65535) 0.
Proof.
  intros. unfold c_initialWindowSize. rewrite (wrap32_id conn_flow) by (unfold in32; lia).
  rewrite wrap32_id by (unfold in32; lia). reflexivity.
Qed.

Lemma next_id_ok : forall prio_last, (prio_last = 0 \/ (0 < prio_last /\ Z.odd prio_last = true)) ->
  0 < (if prio_last =? 0 then cc_init_nextStreamID else prio_last + 2) /\
  Z.odd (if prio_last =? 0 then cc_init_nextStreamID else prio_last + 2) = true.
Proof.
  intros p [H|[H1 H2]].
  - subst. cbn. unfold cc_init_nextStreamID. split; [lia|reflexivity].
  - replace (p =? 0) with false by lia. split; [lia|]. apply odd_plus2. exact H2.
Qed.

Lemma R_init : forall prio_len prio_last stream_in conn_flow, cfg_ok prio_len prio_last stream_in conn_flow ->
  R (conn0 prio_len prio_last stream_in conn_flow) (mon_init stream_in conn_flow).
Proof.
  intros pl pla si cf (H1 & H2 & H3 & H4 & H5). destruct (next_id_ok pla H2) as [N1 N2].
  unfold R, conn0, mon_init. cbn [m_hdr_open m_pending m_max_frame m_init_win m_max_streams m_streams m_conn_win m_last_sid
    cc_max_frame cc_init_win cc_max_streams cc_streams cc_flow cc_next_id cc_prio_len cc_seen_settings].
  rewrite conn0_flow. unfold cc_init_maxFrameSize, cc_init_initialWindowSize.
  repeat split; auto; try lia; try constructor; try discriminate.
Qed.

Lemma RC_init : forall prio_len prio_last stream_in conn_flow, cfg_ok prio_len prio_last stream_in conn_flow ->
  RC (65535 + conn_flow) (conn0 prio_len prio_last stream_in conn_flow) (rx_of (mon_init stream_in conn_flow)).
Proof.
  intros pl pla si cf (H1 & H2 & H3 & H4 & H5). destruct (next_id_ok pla H2) as [N1 N2].
  unfold RC, conn0, mon_init, rx_of. cbn [fst snd m_c_conn_win m_c_init_win m_streams map cc_stream_in cc_in cc_streams cc_next_id].
  rewrite conn0_in by lia. cbn [in_avail in_unsent total_buffered fold_right]. unfold unsent_ok. cbn [in_avail in_unsent].
  repeat split; auto; try lia; constructor.
Qed.

(* the strict peer accepts the client's preface and ends up with the books of mon_init *)
Fixpoint last_setting (id : Z) (kvs : list (Z * Z)) (dflt : Z) : Z :=
  match kvs with
  | [] => dflt
  | (k, v) :: r => last_setting id r (if k =? id then v else dflt)
  end.

Lemma client_settings_empty : forall kvs m, m_streams m = [] ->
  fold_left apply_client_setting kvs m =
  mkMon (m_max_frame m) (m_init_win m) (m_max_streams m) (m_pending m) (m_conn_win m) [] (m_last_sid m) (m_hdr_open m)
        (m_sent m) (m_acked m) (m_pings m) (m_c_conn_win m) (last_setting S_INITIAL_WINDOW_SIZE kvs (m_c_init_win m)).
Proof.
  induction kvs as [|[k v] r IH]; intros m Hs; cbn [fold_left last_setting].
  - destruct m; cbn in *; subst; reflexivity.
  - destruct (k =? S_INITIAL_WINDOW_SIZE) eqn:E.
    + assert (Hx : apply_client_setting m (k, v) =
                   mkMon (m_max_frame m) (m_init_win m) (m_max_streams m) (m_pending m) (m_conn_win m) [] (m_last_sid m)
                         (m_hdr_open m) (m_sent m) (m_acked m) (m_pings m) (m_c_conn_win m) v).
      { unfold apply_client_setting. rewrite E, Hs. reflexivity. }
      rewrite Hx. rewrite IH by reflexivity. reflexivity.
    + assert (Hx : apply_client_setting m (k, v) = m) by (unfold apply_client_setting; rewrite E; reflexivity).
      rewrite Hx. apply IH. exact Hs.
Qed.

Lemma preface_ok : forall kvs conn_flow prios,
  mon_steps mon0 (preface kvs conn_flow prios) =
  Some (mon_init (last_setting S_INITIAL_WINDOW_SIZE kvs 65535) conn_flow).
Proof.
  intros kvs cf prios. unfold preface. cbn [mon_steps monitor_step].
  rewrite mon_client_open0 by (cbn; auto). cbn [ok].
  rewrite client_settings_empty by reflexivity. cbn [mon0 m_max_frame m_init_win m_max_streams m_pending m_conn_win m_last_sid
    m_hdr_open m_sent m_acked m_pings m_c_conn_win m_c_init_win].
  rewrite mon_client_open0 by (cbn; auto). cbn [Z.eqb ok set_c_conn_win m_max_frame m_init_win m_max_streams m_pending m_conn_win
    m_last_sid m_hdr_open m_sent m_acked m_pings m_c_conn_win m_c_init_win m_streams].
  fold (mon_init (last_setting S_INITIAL_WINDOW_SIZE kvs 65535) cf).
  induction prios as [|p r IH]; cbn [map mon_steps monitor_step]; [reflexivity|].
  rewrite mon_client_open0 by (cbn; auto). cbn [ok]. exact IH.
Qed.

(* ---- property-level statements ---- *)
Section Props.
Variables prio_len prio_last stream_in conn_flow : Z.
Hypothesis Hcfg : cfg_ok prio_len prio_last stream_in conn_flow.

Let c0 := conn0 prio_len prio_last stream_in conn_flow.
Let m0 := mon_init stream_in conn_flow.
Definition trace_of (evs : list cev) : list ev := snd (conn_run (conn0 prio_len prio_last stream_in conn_flow) evs).

Lemma accept_all : forall evs, exists m',
  mon_steps m0 (trace_of evs) = Some m' /\ R (fst (conn_run c0 evs)) m' /\
  RC (65535 + conn_flow) (fst (conn_run c0 evs)) (rx_of m').
Proof. intros evs. apply run_ok; [apply R_init|apply RC_init]; exact Hcfg. Qed.

Lemma split_accept : forall evs pre e post, trace_of evs = pre ++ e :: post ->
  exists m m1, mon_steps m0 pre = Some m /\ monitor_step m e = inl m1 /\
               (e <> C FSettingsAck -> m_pending m = []) /\ ids_below m.
Proof.
  intros evs pre e post Ht. destruct (accept_all evs) as (mf & Hs & _). rewrite Ht in Hs.
  rewrite mon_steps_app in Hs. destruct (mon_steps m0 pre) as [m|] eqn:Ep; [|discriminate].
  cbn [mon_steps] in Hs. destruct (monitor_step m e) as [m1|] eqn:Ee; [|discriminate].
  exists m, m1. repeat split; auto.
  - intros Hne. exact (pending_quiet (trace_of evs) pre e post m0 m (run_sa evs c0) Ht eq_refl Ep Hne).
  - eapply ids_steps; [exact Ep|]. constructor.
Qed.

Theorem all_frames_admissible : forall evs, accepts m0 (trace_of evs) = true.
Proof.
  intros evs. destruct (accept_all evs) as (mf & Hs & _). unfold accepts.
  rewrite (monitor_run_steps _ _ _ 0%nat Hs). reflexivity.
Qed.

Theorem data_within_windows : forall evs pre sid len es post,
  trace_of evs = pre ++ C (FData sid len es) :: post ->
  exists m s, mon_steps m0 pre = Some m /\ find_ms sid (m_streams m) = Some s /\ ms_cli_closed s = false /\
    (0 < len -> len <= m_conn_win m /\ (ms_closed s = false -> len <= ms_win s)).
Proof.
  intros evs pre sid len es post Ht. destruct (split_accept _ _ _ _ Ht) as (m & m1 & Ep & Ee & _ & _).
  cbn [monitor_step] in Ee. unfold mon_client in Ee.
  destruct (negb (m_hdr_open m =? 0) && negb (is_continuation_on (FData sid len es) (m_hdr_open m))); [discriminate|].
  destruct (match frame_len (FData sid len es) with Some l => max_frame_allowed m <? l | None => false end); [discriminate|].
  destruct (find_ms sid (m_streams m)) as [s|] eqn:Ef; [|discriminate].
  destruct (ms_cli_closed s) eqn:Ec; [discriminate|]. cbv zeta in Ee.
  destruct ((0 <? len) && negb (ms_closed s) && (ms_win s - len <? 0)) eqn:E1; [discriminate|].
  destruct ((0 <? len) && (m_conn_win m - len <? 0)) eqn:E2; [discriminate|].
  exists m, s. repeat split; auto; [lia|]. intros Hc. rewrite Hc in E1. lia.
Qed.

Theorem data_within_max_frame : forall evs pre f l post,
  trace_of evs = pre ++ C f :: post -> frame_len f = Some l ->
  exists m, mon_steps m0 pre = Some m /\ m_pending m = [] /\ l <= m_max_frame m.
Proof.
  intros evs pre f l post Ht Hl. destruct (split_accept _ _ _ _ Ht) as (m & m1 & Ep & Ee & Hq & _).
  assert (Hp : m_pending m = []) by (apply Hq; intros Hx; inversion Hx; subst; discriminate).
  exists m. repeat split; auto.
  cbn [monitor_step] in Ee. unfold mon_client in Ee.
  destruct (negb (m_hdr_open m =? 0) && negb (is_continuation_on f (m_hdr_open m))); [discriminate|].
  rewrite Hl in Ee. unfold max_frame_allowed in Ee. rewrite Hp in Ee. cbn [pending_max] in Ee.
  destruct (m_max_frame m <? l) eqn:E; [discriminate|]. lia.
Qed.

Theorem streams_within_limit : forall evs pre sid l eh es post,
  trace_of evs = pre ++ C (FHeaders sid l eh es) :: post ->
  exists m, mon_steps m0 pre = Some m /\ m_pending m = [] /\
    (find_ms sid (m_streams m) = None ->
       forall v, m_max_streams m = Some v -> open_count (m_streams m) < v).
Proof.
  intros evs pre sid l eh es post Ht. destruct (split_accept _ _ _ _ Ht) as (m & m1 & Ep & Ee & Hq & _).
  assert (Hp : m_pending m = []) by (apply Hq; discriminate).
  exists m. repeat split; auto. intros Hn v Hv.
  cbn [monitor_step] in Ee. unfold mon_client in Ee.
  destruct (negb (m_hdr_open m =? 0) && negb (is_continuation_on (FHeaders sid l eh es) (m_hdr_open m))); [discriminate|].
  destruct (match frame_len (FHeaders sid l eh es) with Some l0 => max_frame_allowed m <? l0 | None => false end); [discriminate|].
  rewrite Hn in Ee. destruct (Z.even sid || (sid <=? m_last_sid m)); [discriminate|].
  destruct (negb (streams_allowed m)) eqn:Ea; [discriminate|].
  unfold streams_allowed in Ea. rewrite Hv, Hp in Ea. cbn [pending_max] in Ea. lia.
Qed.

Theorem stream_ids_odd_increasing : forall evs pre sid l eh es post,
  trace_of evs = pre ++ C (FHeaders sid l eh es) :: post ->
  exists m, mon_steps m0 pre = Some m /\
    (find_ms sid (m_streams m) = None ->
       Z.odd sid = true /\ Forall (fun s => ms_id s < sid) (m_streams m)).
Proof.
  intros evs pre sid l eh es post Ht. destruct (split_accept _ _ _ _ Ht) as (m & m1 & Ep & Ee & _ & Hi).
  exists m. split; auto. intros Hn.
  cbn [monitor_step] in Ee. unfold mon_client in Ee.
  destruct (negb (m_hdr_open m =? 0) && negb (is_continuation_on (FHeaders sid l eh es) (m_hdr_open m))); [discriminate|].
  destruct (match frame_len (FHeaders sid l eh es) with Some l0 => max_frame_allowed m <? l0 | None => false end); [discriminate|].
  rewrite Hn in Ee. destruct (Z.even sid || (sid <=? m_last_sid m)) eqn:E1; [discriminate|].
  split.
  - rewrite <- Z.negb_even. destruct (Z.even sid); [discriminate|reflexivity].
  - eapply Forall_impl; [|exact Hi]. simpl. intros s Hs. lia.
Qed.

Theorem header_block_contiguous : forall evs, hb_run 0 (trace_of evs) = Some 0.
Proof.
  intros evs. destruct (accept_all evs) as (mf & Hs & HR & _).
  pose proof (mon_hb _ _ _ Hs) as H. cbn in H. rewrite H. destruct HR as (H0 & _). rewrite H0. reflexivity.
Qed.

Theorem closed_stream_silence : forall evs, css_ok [] (trace_of evs) = true.
Proof.
  intros evs. destruct (accept_all evs) as (mf & Hs & _).
  eapply mon_css; [exact Hs|apply run_no_other|]. intros sid H. discriminate.
Qed.

Theorem every_settings_acked : forall evs,
  sa_ok (trace_of evs) = true /\
  exists m', mon_steps m0 (trace_of evs) = Some m' /\ m_pending m' = [].
Proof.
  intros evs. split; [apply run_sa|]. destruct (accept_all evs) as (mf & Hs & HR & _).
  exists mf. split; [exact Hs|]. destruct HR as (_ & Hp & _). exact Hp.
Qed.

Lemma SRC_find : forall W cs ms sid s, Forall2 (SRC W) cs (map rxp ms) -> find_cs sid cs = Some s ->
  exists ms0, find_ms sid ms = Some ms0 /\ SRC W s (rxp ms0).
Proof.
  intros W cs ms sid s. revert cs. induction ms as [|m1 r IH]; intros cs H Hf; simpl in H.
  - inversion H; subst. discriminate.
  - inversion H as [|x y l l' Hxy Hrest]; subst. simpl in Hf. simpl.
    pose proof Hxy as (Hid & _). cbn [rxp fst] in Hid. rewrite <- Hid.
    destruct (cs_id x =? sid); [inversion Hf; subst; eauto|apply (IH l); assumption].
Qed.

(* credit conservation: nothing the peer sent is unaccounted for *)
Theorem credit_conservation : forall evs, exists m',
  mon_steps m0 (trace_of evs) = Some m' /\
  let c := fst (conn_run c0 evs) in
  in_avail (cc_in c) + in_unsent (cc_in c) + total_buffered (cc_streams c) = 65535 + conn_flow /\
  m_c_conn_win m' = in_avail (cc_in c) /\ 0 <= in_unsent (cc_in c) /\ unsent_ok (cc_in c) /\
  forall sid s, find_cs sid (cc_streams c) = Some s -> open_rx s = true ->
    exists ms, find_ms sid (m_streams m') = Some ms /\ ms_recv ms = in_avail (cs_in s) /\
      in_avail (cs_in s) + in_unsent (cs_in s) + cs_buf s = stream_in /\
      0 <= in_unsent (cs_in s) /\ 0 <= cs_buf s /\ unsent_ok (cs_in s).
Proof.
  intros evs. destruct (accept_all evs) as (mf & Hs & _ & HC). exists mf. split; [exact Hs|].
  cbv zeta. dRC HC. unfold rx_of in *. cbn [fst snd] in *.
  assert (Hsi : cc_stream_in (fst (conn_run c0 evs)) = stream_in).
  { rewrite <- Cciw. clear - Hs. 
    assert (G : forall tr m m', mon_steps m tr = Some m' -> Forall not_csettings tr -> m_c_init_win m' = m_c_init_win m).
    { intros tr m m' H Hn. pose proof (rx_monitor_steps _ _ _ Hn H) as E.
      assert (X : forall tr x, snd (fst (fold_left rx_step tr x)) = snd (fst x)).
      { induction tr0 as [|e r IH]; intros x; simpl; [reflexivity|]. rewrite IH.
        destruct x as [[cw ciw] l]. destruct e as [f|f]; destruct f; cbn; try reflexivity.
        - destruct (sid =? 0); reflexivity.
        - destruct (rx_mem sid l); reflexivity. }
      unfold rx_of in E. apply (f_equal (fun x => snd (fst x))) in E. rewrite X in E. exact E. }
    rewrite (G _ _ _ Hs); [reflexivity|].
    clear. unfold trace_of. generalize (conn0 prio_len prio_last stream_in conn_flow).
    induction evs as [|e r IH]; intros c; cbn [conn_run]; [constructor|].
    pose proof (step_not_csettings c e) as H1. destruct (conn_step c e) as [c1 o1]. specialize (IH c1).
    destruct (conn_run c1 r) as [c2 o2]. cbn [snd] in *. apply Forall_app. auto. }
  repeat split; auto.
  intros sid s Hf Ho. rewrite Hsi in Cst.
  destruct (SRC_find _ _ _ _ _ Cst Hf) as (ms & Hfm & (S1 & S2 & S3 & S4 & S5 & S6 & S7 & S8 & S9)).
  exists ms. destruct (S9 Ho) as [E1 E2]. cbn [rxp snd] in S8.
  assert (Hl : live s = true) by (unfold open_rx in Ho; destruct (live s); [reflexivity|discriminate]).
  repeat split; auto.
Qed.

(* hence no permanent stall: once the application has consumed or discarded everything that was
   buffered, the window the peer may use is positive again (at most 4095 bytes of credit are
   ever held back, and never as much as the peer still has) *)
Theorem no_permanent_stall : forall evs, exists m',
  mon_steps m0 (trace_of evs) = Some m' /\
  let c := fst (conn_run c0 evs) in
  (total_buffered (cc_streams c) = 0 ->
     65535 + conn_flow - 4095 <= m_c_conn_win m' /\ 65535 + conn_flow <= 2 * m_c_conn_win m' /\ 0 < m_c_conn_win m') /\
  forall sid s, find_cs sid (cc_streams c) = Some s -> open_rx s = true -> cs_buf s = 0 ->
    exists ms, find_ms sid (m_streams m') = Some ms /\
      stream_in - 4095 <= ms_recv ms /\ stream_in <= 2 * ms_recv ms /\ (0 < stream_in -> 0 < ms_recv ms).
Proof.
  intros evs. destruct (credit_conservation evs) as (mf & Hs & Hsum & Hcw & Hu0 & Huok & Hst).
  exists mf. split; [exact Hs|]. cbv zeta in *. split.
  - intros Htb. rewrite Htb in Hsum. rewrite Hcw. unfold unsent_ok, inflowMinRefresh in Huok.
    destruct Hcfg as (_ & _ & _ & Hc1 & Hc2). lia.
  - intros sid s Hf Ho Hb. destruct (Hst sid s Hf Ho) as (ms & Hfm & Hr & Hsm & Hu & _ & Hok).
    exists ms. split; [exact Hfm|]. rewrite Hr. rewrite Hb in Hsm. unfold unsent_ok, inflowMinRefresh in Hok.
    destruct Hcfg as (_ & _ & Hc0 & _). lia.
Qed.

End Props.

(* from the first byte: the strict peer, started in its protocol-default state, accepts the
   client's preface followed by everything the machine writes *)
Theorem admissible_from_preface : forall prio_len prio_last kvs conn_flow prios evs,
  cfg_ok prio_len prio_last (last_setting S_INITIAL_WINDOW_SIZE kvs 65535) conn_flow ->
  accepts mon0 (preface kvs conn_flow prios ++
                trace_of prio_len prio_last (last_setting S_INITIAL_WINDOW_SIZE kvs 65535) conn_flow evs) = true.
Proof.
  intros pl pla kvs cf prios evs Hc. unfold accepts.
  destruct (accept_all pl pla _ cf Hc evs) as (mf & Hs & _).
  assert (H : mon_steps mon0 (preface kvs cf prios ++ trace_of pl pla (last_setting S_INITIAL_WINDOW_SIZE kvs 65535) cf evs) = Some mf).
  { rewrite mon_steps_app, preface_ok. exact Hs. }
  rewrite (monitor_run_steps _ _ _ 0%nat H). reflexivity.
Qed.

(* ---- the same trace as the peer sees it ---- *)
Lemma plain_cev_ok : forall e, plain e -> cev_ok e.
Proof. intros [f|f]; destruct f; simpl; auto. Qed.

Lemma step_cev_ok : forall c e, Forall cev_ok (snd (conn_step c e)).
Proof.
  intros c e. destruct (step_shape c e) as [H|[kvs H]].
  - eapply Forall_impl; [apply plain_cev_ok|exact H].
  - rewrite H. repeat constructor.
Qed.

Lemma run_cev_ok : forall evs c, Forall cev_ok (snd (conn_run c evs)).
Proof.
  induction evs as [|e r IH]; intros c; cbn [conn_run]; [constructor|].
  pose proof (step_cev_ok c e) as H1. destruct (conn_step c e) as [c1 o1]. specialize (IH c1).
  destruct (conn_run c1 r) as [c2 o2]. cbn [snd] in *. apply Forall_app. auto.
Qed.

(* every trace obtained from the client-order trace by moving peer frames ahead of client
   frames (the order in which the peer's own log has them) is accepted as well *)
Theorem wire_order_admissible : forall prio_len prio_last stream_in conn_flow,
  cfg_ok prio_len prio_last stream_in conn_flow ->
  forall evs t', earlier (mon_init stream_in conn_flow) (trace_of prio_len prio_last stream_in conn_flow evs) t' ->
  accepts (mon_init stream_in conn_flow) t' = true.
Proof.
  intros pl pla si cf Hc evs t' He. destruct (accept_all pl pla si cf Hc evs) as (mf & Hs & _).
  destruct (wire_order_accepted _ _ _ He (run_cev_ok evs _) mf Hs) as (mf' & Hs' & _).
  unfold accepts. rewrite (monitor_run_steps _ _ _ 0%nat Hs'). reflexivity.
Qed.

(* ---- settings persist until changed ----
   What the client holds as the peer's limits is carried from one SETTINGS frame to the next: a
   frame that does not mention an identifier leaves that limit alone (the only exception is the
   transport's own cap of 100 streams, replaced by 1000 when the peer's FIRST frame is silent
   about MAX_CONCURRENT_STREAMS).  Stated for the step function the traces are replayed through. *)
Lemma fold_settings_absent : forall kvs c,
  (has_setting S_MAX_FRAME_SIZE kvs = false -> cc_max_frame (fold_left client_setting kvs c) = cc_max_frame c) /\
  (has_setting S_MAX_CONCURRENT_STREAMS kvs = false -> cc_max_streams (fold_left client_setting kvs c) = cc_max_streams c) /\
  (has_setting S_INITIAL_WINDOW_SIZE kvs = false -> cc_init_win (fold_left client_setting kvs c) = cc_init_win c).
Proof.
  unfold has_setting. induction kvs as [|[id v] r IH]; intros c; cbn [fold_left existsb fst]; [auto|].
  destruct (IH (client_setting c (id, v))) as (A & B & C0).
  unfold S_MAX_FRAME_SIZE, S_MAX_CONCURRENT_STREAMS, S_INITIAL_WINDOW_SIZE in *.
  repeat split; intros H; apply orb_false_iff in H as [H1 H2];
    [rewrite (A H2)|rewrite (B H2)|rewrite (C0 H2)]; unfold client_setting, S_MAX_FRAME_SIZE, S_MAX_CONCURRENT_STREAMS, S_INITIAL_WINDOW_SIZE;
    destruct (id =? 5) eqn:E5; try reflexivity; try lia;
    destruct (id =? 3) eqn:E3; try reflexivity; try lia;
    destruct (id =? 4) eqn:E4; try reflexivity; lia.
Qed.

Theorem limits_persist : forall c kvs,
  let c' := fst (conn_step c (ESettings kvs)) in
  (has_setting S_MAX_FRAME_SIZE kvs = false -> cc_max_frame c' = cc_max_frame c) /\
  (has_setting S_INITIAL_WINDOW_SIZE kvs = false -> cc_init_win c' = cc_init_win c) /\
  (has_setting S_MAX_CONCURRENT_STREAMS kvs = false -> cc_seen_settings c = true -> cc_max_streams c' = cc_max_streams c) /\
  (has_setting S_MAX_CONCURRENT_STREAMS kvs = false -> cc_seen_settings c = false -> settings_valid kvs = true ->
     cc_max_streams c' = c_defaultMaxConcurrentStreams).
Proof.
  intros c kvs. cbv zeta. cbn [conn_step]. destruct (settings_valid kvs); cbn [fst].
  - destruct (fold_settings_absent kvs c) as (A & B & C0). cbn [cc_max_frame cc_init_win cc_max_streams].
    repeat split; auto.
    + intros H Hs. rewrite H, Hs. cbn. apply B. exact H.
    + intros H Hs _. rewrite H, Hs. reflexivity.
  - repeat split; auto. intros; discriminate.
Qed.

(* ---- stream slots ----
   A slot the client has freed (forgetStreamID) is free on the peer's books as well: every
   forgotten stream is closed there (END_STREAM both ways, or RST_STREAM), so the peer never
   counts more open streams than the client holds - whatever happened on the stream (upload
   given up after an early final response, cancel, reset by either side). *)
Theorem peer_open_le_client_active : forall prio_len prio_last stream_in conn_flow,
  cfg_ok prio_len prio_last stream_in conn_flow ->
  forall evs, exists m',
  mon_steps (mon_init stream_in conn_flow) (trace_of prio_len prio_last stream_in conn_flow evs) = Some m' /\
  let c := fst (conn_run (conn0 prio_len prio_last stream_in conn_flow) evs) in
  open_count (m_streams m') <= active_count (cc_streams c) /\
  (forall sid s, find_cs sid (cc_streams c) = Some s -> cs_forgotten s = true ->
     exists ms, find_ms sid (m_streams m') = Some ms /\ ms_closed ms = true).
Proof.
  intros pl pla si cf Hc evs. destruct (accept_all pl pla si cf Hc evs) as (mf & Hs & HR & _).
  exists mf. split; [exact Hs|]. cbv zeta. pose proof HR as HR0. dR HR0. split.
  - eapply F2_count; eauto.
  - intros sid s Hf Hfg. destruct (F2_find_some _ _ _ _ _ Rst Hf) as (ms & Hfm & HS & _).
    exists ms. split; [exact Hfm|]. destruct HS as (_ & _ & _ & _ & _ & H6 & _). apply H6. exact Hfg.
Qed.

(* ---- a stream starts with the window in force when it is opened ----
   However long the request waited for a slot and whatever SETTINGS frames were applied in the
   meantime: the send window of a new stream is the INITIAL_WINDOW_SIZE the machine holds at the
   moment of the EOpen step (= addStreamLocked), which by R is the value last acknowledged. *)
Theorem new_stream_window_current : forall c hlen es c' out,
  0 <= cc_init_win c <= 2147483647 ->
  conn_step c (EOpen hlen es) = (c', out) -> out <> [] ->
  exists s, cc_streams c' = s :: cc_streams c /\ cs_id s = cc_next_id c /\ cs_flow s = cc_init_win c /\
            cs_in s = mkIn (cc_stream_in c) 0.
Proof.
  intros c hlen es c' out Hiw H Hne. cbn [conn_step] in H.
  destruct (negb (cc_dead c) && (active_count (cc_streams c) <? cc_max_streams c) && (1 <=? hlen)
            && (cc_prio_len c <? cc_max_frame c) && (cc_next_id c <? 2147483647)); inversion H; subst; [|contradiction].
  eexists. cbn [cc_streams]. split; [reflexivity|]. cbn [cs_id cs_flow cs_in]. repeat split.
  rewrite wrap32_id by (unfold in32; lia). rewrite out_add_stream_eq by (unfold in32; lia). cbn [snd].
  replace (in32b (0 + cc_init_win c)) with true by (symmetry; apply in32b_true; unfold in32; lia). lia.
Qed.

(* ---- header blocks and concurrent peer frames ----
   Contiguity is a property of each critical section: whatever event the machine handles - also
   the ones that answer a peer frame arriving at any moment (SETTINGS ACK, WINDOW_UPDATE for
   DATA) - the frames written in that step leave no header block open, and a trace composed
   of such pieces is contiguous. *)
Lemma hb_run_app : forall a b, hb_run 0 a = Some 0 -> hb_run 0 (a ++ b) = hb_run 0 b.
Proof.
  assert (G : forall a o o' b, hb_run o a = Some o' -> hb_run o (a ++ b) = hb_run o' b).
  { induction a as [|e r IH]; intros o o' b H; simpl in *; [inversion H; reflexivity|].
    destruct e as [f|f]; [|apply IH; exact H].
    destruct (negb (o =? 0) && negb (is_continuation_on f o)); [discriminate|].
    destruct f; try (apply IH; exact H).
    destruct (o =? 0); [discriminate|apply IH; exact H]. }
  intros a b H. apply (G a 0 0 b H).
Qed.

Theorem step_blocks_whole : forall c m e, R c m -> hb_run 0 (snd (conn_step c e)) = Some 0.
Proof.
  intros c m e HR. destruct (step_ok_all c m e HR) as (m' & Hs & HR').
  pose proof (mon_hb _ _ _ Hs) as H. destruct HR as (H0 & _). destruct HR' as (H0' & _).
  rewrite H0, H0' in H. exact H.
Qed.

Theorem reachable_step_blocks_whole : forall prio_len prio_last stream_in conn_flow,
  cfg_ok prio_len prio_last stream_in conn_flow ->
  forall evs e,
  hb_run 0 (snd (conn_step (fst (conn_run (conn0 prio_len prio_last stream_in conn_flow) evs)) e)) = Some 0.
Proof.
  intros pl pla si cf Hc evs e. destruct (accept_all pl pla si cf Hc evs) as (mf & _ & HR & _).
  eapply step_blocks_whole. exact HR.
Qed.

(* ---- stream id allocation ----
   The id counter never moves backwards, whatever event is handled: in particular an id that was
   taken by a request which then never reached the wire (EOpenRefused) is burned, not given back. *)
Lemma client_setting_next_id : forall kvs c, cc_next_id (fold_left client_setting kvs c) = cc_next_id c.
Proof.
  induction kvs as [|[id v] r IH]; intros c; simpl; [reflexivity|]. rewrite IH. unfold client_setting.
  destruct (id =? S_MAX_FRAME_SIZE); [reflexivity|]. destruct (id =? S_MAX_CONCURRENT_STREAMS); [reflexivity|].
  destruct (id =? S_INITIAL_WINDOW_SIZE); reflexivity.
Qed.

Theorem next_id_never_rewinds : forall c e, cc_next_id c <= cc_next_id (fst (conn_step c e)).
Proof.
  intros c e. destruct e; cbn [conn_step].
  - destruct (negb (cc_dead c) && _ && _ && _ && _); cbn; lia.
  - destruct (find_cs sid (cc_streams c)) as [s|]; [|cbn; lia].
    destruct (negb (cs_forgotten s) && _ && _ && _ && _); [|cbn; lia].
    destruct (out_take_stream _ _ _) as [[n' cn']|]; cbn; lia.
  - destruct (find_cs sid (cc_streams c)) as [s|]; [|cbn; lia].
    destruct (negb (cs_forgotten s) && _ && _ && _); cbn; lia.
  - destruct (find_cs sid (cc_streams c)) as [s|]; [|cbn; lia]. destruct (negb (cs_forgotten s) && _); cbn; lia.
  - destruct (find_cs sid (cc_streams c)) as [s|]; [|cbn; lia]. destruct (negb (cs_forgotten s) && _); cbn; lia.
  - destruct (settings_valid kvs); cbn; [rewrite client_setting_next_id|]; lia.
  - destruct ((1 <=? inc) && _); [|cbn; lia]. destruct (sid =? 0); [|cbn; lia].
    destruct (out_add_conn (cc_flow c) inc) as [okb n']. destruct okb; cbn; lia.
  - cbn; lia.
  - cbn; lia.
  - destruct ((0 <=? pad) && _ && _); [|cbn; lia].
    destruct (find_cs sid (cc_streams c)) as [s|]; [|cbn; lia].
    destruct (cs_forgotten s || cs_peer_reset s).
    + destruct (in_take (cc_in c) len) as [[[|]|] f1]; try (cbn; lia). destruct (in_add_ret f1 len). cbn; lia.
    + destruct (cs_peer_ended s); [cbn; lia|].
      destruct (in_take2 (cc_in c) (cs_in s) len) as [[[|]|] [f1 g1]]; try (cbn; lia).
      destruct (in_add_ret f1 _). destruct (if cs_app_closed s then _ else _). cbn; lia.
  - destruct (find_cs sid (cc_streams c)) as [s|]; [|cbn; lia].
    destruct ((1 <=? n) && _ && _ && _); [|cbn; lia].
    destruct (in_add_ret (cc_in c) n). destruct (if eof then _ else _). cbn; lia.
  - destruct (find_cs sid (cc_streams c)) as [s|]; [|cbn; lia].
    destruct (negb (cs_app_closed s)); [|cbn; lia]. destruct (if 0 <? cs_buf s then _ else _). cbn; lia.
  - destruct (find_cs sid (cc_streams c)) as [s|]; [|cbn; lia].
    destruct (cs_forgotten s || cs_peer_reset s || cs_peer_ended s); cbn; lia.
  - destruct (negb (cc_dead c) && _ && _); cbn; lia.
Qed.

Theorem next_id_run_monotone : forall evs c, cc_next_id c <= cc_next_id (fst (conn_run c evs)).
Proof.
  induction evs as [|e r IH]; intros c; cbn [conn_run]; [cbn; lia|].
  pose proof (next_id_never_rewinds c e) as H1. destruct (conn_step c e) as [c1 o1]. cbn [fst] in H1.
  specialize (IH c1). destruct (conn_run c1 r) as [c2 o2]. cbn [fst] in *. lia.
Qed.

(* ---- a new stream uses the settings held at the open step ----
   Whatever the machine held when the request was queued: the header block of a new stream is
   cut by the MAX_FRAME_SIZE held at the EOpen step (every frame of it fits), its send window is
   the INITIAL_WINDOW_SIZE held then, its id the next id then. *)
Lemma cont_frames_le : forall fuel sid rest maxf, 1 <= maxf ->
  Forall (fun f => match frame_len f with Some l => l <= maxf | None => True end) (cont_frames fuel sid rest maxf).
Proof.
  induction fuel as [|k IH]; intros sid rest maxf Hm; cbn [cont_frames]; [constructor|].
  destruct (rest <=? 0); [constructor|]. constructor; [cbn; lia|apply IH; exact Hm].
Qed.

Lemma hdr_frames_le : forall sid hlen maxf prio es, 0 <= prio < maxf ->
  Forall (fun f => match frame_len f with Some l => l <= maxf | None => True end) (hdr_frames sid hlen maxf prio es).
Proof.
  intros sid hlen maxf prio es Hp. unfold hdr_frames. constructor; [cbn; lia|apply cont_frames_le; lia].
Qed.

Theorem new_stream_uses_current_settings : forall c hlen es c' out,
  0 <= cc_init_win c <= 2147483647 -> 0 <= cc_prio_len c ->
  conn_step c (EOpen hlen es) = (c', out) -> out <> [] ->
  out = cl (hdr_frames (cc_next_id c) hlen (cc_max_frame c) (cc_prio_len c) es) /\
  Forall (fun f => match frame_len f with Some l => l <= cc_max_frame c | None => True end)
         (hdr_frames (cc_next_id c) hlen (cc_max_frame c) (cc_prio_len c) es) /\
  exists s, cc_streams c' = s :: cc_streams c /\ cs_id s = cc_next_id c /\ cs_flow s = cc_init_win c.
Proof.
  intros c hlen es c' out Hiw Hp H Hne.
  destruct (new_stream_window_current c hlen es c' out Hiw H Hne) as (s & A & B & C0 & _).
  cbn [conn_step] in H.
  destruct (negb (cc_dead c) && (active_count (cc_streams c) <? cc_max_streams c) && (1 <=? hlen)
            && (cc_prio_len c <? cc_max_frame c) && (cc_next_id c <? 2147483647)) eqn:G; inversion H; subst; [|contradiction].
  split; [reflexivity|]. split; [apply hdr_frames_le; lia|]. exists s. auto.
Qed.
