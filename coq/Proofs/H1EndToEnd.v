(* Proofs/H1EndToEnd.v - C01: every request the HTTP/1.1 model accepts is rendered well-formed, so
   the specification-level reader gets back exactly what was described, and nothing behind it. *)
From ReqV Require Import Lib.Bytes Lib.BytesFacts Model.Url Model.HeaderOrder Model.HeaderCollect
  Model.BodyFraming Model.H1Req.
From ReqV Require Import Proofs.UrlProofs Proofs.BodyFramingProofs Proofs.HeaderOrderProofs Proofs.H1ReqProofs.
From Coq Require Import Lia Permutation.

Ltac Zify.zify_post_hook ::= Z.div_mod_to_equations.

(* ---------- small list facts ---------- *)
Lemma mem_byte_rev c s : mem_byte c (rev s) = mem_byte c s.
Proof.
  induction s as [|x s IH]; [reflexivity|]. cbn [rev]. rewrite mem_byte_app, IH, mem_byte_cons.
  cbn [mem_byte existsb]. rewrite orb_false_r. apply orb_comm.
Qed.

Lemma mem_drop_while c f s : mem_byte c s = false -> mem_byte c (drop_while f s) = false.
Proof.
  induction s as [|x s IH]; [reflexivity|]. intros H. cbn [drop_while].
  destruct (f x); [|exact H]. rewrite mem_byte_cons in H. apply orb_false_iff in H as [_ H]. auto.
Qed.

Lemma mem_trim c f s : mem_byte c s = false -> mem_byte c (trim f s) = false.
Proof.
  intros H. unfold trim, trim_right, trim_left. rewrite mem_byte_rev. apply mem_drop_while.
  rewrite mem_byte_rev. apply mem_drop_while. exact H.
Qed.

Lemma drop_while_id f s : forallb (fun c => negb (f c)) s = true -> drop_while f s = s.
Proof. destruct s as [|x s]; [reflexivity|]. cbn. intros H. apply andb_true_iff in H as [H _].
  apply negb_true_iff in H. rewrite H. reflexivity. Qed.

Lemma forallb_rev {A} (P : A -> bool) l : forallb P (rev l) = forallb P l.
Proof.
  induction l as [|x l IH]; [reflexivity|]. cbn [rev].
  rewrite forallb_app, IH. cbn [forallb]. rewrite andb_true_r. apply andb_comm.
Qed.

Lemma trim_id f s : forallb (fun c => negb (f c)) s = true -> trim f s = s.
Proof.
  intros H. unfold trim, trim_right, trim_left. rewrite (drop_while_id f s H).
  rewrite drop_while_id by (rewrite forallb_rev; exact H). apply rev_involutive.
Qed.

(* ---------- decimal rendering ---------- *)
Lemma digit_byte_spec d : (d < 10)%N ->
  is_digit (digit_byte d) = true /\ (bN (digit_byte d) - 48)%N = d /\ beqb CR (digit_byte d) = false /\
  is_sp_tab (digit_byte d) = false.
Proof.
  intros H.
  assert (E : (d = 0 \/ d = 1 \/ d = 2 \/ d = 3 \/ d = 4 \/ d = 5 \/ d = 6 \/ d = 7 \/ d = 8 \/ d = 9)%N) by lia.
  repeat (destruct E as [E|E]; [subst; repeat split; reflexivity|]). subst. repeat split; reflexivity.
Qed.

Lemma dec_fuel_digits : forall fuel n acc, forallb is_digit acc = true ->
  forallb is_digit (dec_fuel fuel n acc) = true.
Proof.
  induction fuel as [|f IH]; intros n acc H; [exact H|]. cbn [dec_fuel].
  assert (Hd : is_digit (digit_byte (n mod 10)) = true).
  { apply digit_byte_spec. apply N.mod_lt. discriminate. }
  destruct (n <? 10)%N.
  - cbn [forallb]. rewrite Hd, H. reflexivity.
  - apply IH. cbn [forallb]. rewrite Hd, H. reflexivity.
Qed.

Lemma dec_of_N_digits n : forallb is_digit (dec_of_N n) = true.
Proof. apply dec_fuel_digits. reflexivity. Qed.

Lemma digit_props c : is_digit c = true -> beqb CR c = false /\ is_sp_tab c = false.
Proof. destruct c; try discriminate; intros _; split; reflexivity. Qed.

Lemma digits_no_cr s : forallb is_digit s = true -> mem_byte CR s = false.
Proof.
  intros H. apply mem_byte_false_In. intros Hin. rewrite forallb_forall in H.
  specialize (H _ Hin). apply digit_props in H as [H _]. rewrite beqb_refl in H. discriminate.
Qed.

Lemma digits_trim s : forallb is_digit s = true -> trim is_sp_tab s = s.
Proof.
  intros H. apply trim_id. rewrite forallb_forall in *. intros c Hc. specialize (H c Hc).
  apply digit_props in H as [_ H]. rewrite H. reflexivity.
Qed.

Lemma parse_dec_dec_fuel : forall fuel n acc a, (n < 2 ^ N.of_nat fuel)%N ->
  exists k, parse_dec (dec_fuel fuel n acc) a = parse_dec acc (a * 10 ^ k + n)%N.
Proof.
  induction fuel as [|f IH]; intros n acc a Hn.
  - exists 0%N. cbn [dec_fuel]. change (2 ^ N.of_nat 0)%N with 1%N in Hn.
    replace (a * 10 ^ 0 + n)%N with a by (rewrite N.pow_0_r; lia). reflexivity.
  - cbn [dec_fuel].
    assert (Hm : (n mod 10 < 10)%N) by (apply N.mod_lt; discriminate).
    destruct (digit_byte_spec _ Hm) as (Hd & Hv & _ & _).
    destruct (n <? 10)%N eqn:E.
    + apply N.ltb_lt in E. exists 1%N. cbn [parse_dec]. rewrite Hd, Hv.
      rewrite N.mod_small by exact E. rewrite N.pow_1_r. reflexivity.
    + apply N.ltb_ge in E.
      assert (Hq : (n / 10 < 2 ^ N.of_nat f)%N).
      { rewrite Nat2N.inj_succ, N.pow_succ_r' in Hn. lia. }
      destruct (IH (n / 10)%N (digit_byte (n mod 10) :: acc) a Hq) as [k Hk].
      exists (N.succ k). rewrite Hk. cbn [parse_dec]. rewrite Hd, Hv. f_equal.
      rewrite N.pow_succ_r'. pose proof (N.div_mod' n 10). nia.
Qed.

Theorem parse_dec_of_N : forall n, parse_dec (dec_of_N n) 0 = Some n.
Proof.
  intros n. unfold dec_of_N.
  assert (Hn : (n < 2 ^ N.of_nat (S (N.to_nat (N.log2 n))))%N).
  { rewrite Nat2N.inj_succ, N2Nat.id. destruct n as [|p]; [reflexivity|].
    apply N.log2_spec. reflexivity. }
  destruct (parse_dec_dec_fuel _ n [] 0%N Hn) as [k Hk]. rewrite Hk. reflexivity.
Qed.

(* ---------- every emitted field line is well-formed ---------- *)
Definition ok_kv (x : kv) : Prop :=
  fst x <> [] /\ mem_byte ":"%byte (fst x) = false /\ mem_byte CR (fst x) = false /\
  Forall (fun v => mem_byte CR v = false) (snd x).

Lemma flatten_ok kvs : Forall ok_kv kvs -> Forall ok_line (flatten kvs).
Proof.
  unfold flatten. induction 1 as [|x l (Hne & Hc & Hr & Hv) _ IH]; [constructor|].
  cbn [flat_map]. apply Forall_app. split; [|exact IH].
  induction Hv as [|v vs Hv _ IHv]; [constructor|]. cbn [map]. constructor; [|exact IHv].
  repeat split; assumption.
Qed.

Lemma insert_le_perm {A} (le : A -> A -> bool) x l : Permutation (insert_le le x l) (x :: l).
Proof.
  induction l as [|y l IH]; [reflexivity|]. cbn [insert_le]. destruct (le x y); [reflexivity|].
  rewrite IH. apply perm_swap.
Qed.

Lemma sort_le_perm {A} (le : A -> A -> bool) l : Permutation (sort_le le l) l.
Proof.
  induction l as [|x l IH]; [reflexivity|]. cbn [sort_le]. rewrite insert_le_perm. constructor. exact IH.
Qed.

Lemma sort_if_perm order kvs : Permutation (sort_if order kvs) kvs.
Proof. unfold sort_if. destruct (is_nil order); [reflexivity|apply sort_is_permutation]. Qed.

Lemma ok_kv_const n v : n <> [] -> mem_byte ":"%byte n = false -> mem_byte CR n = false ->
  mem_byte CR v = false -> ok_kv (n, [v]).
Proof. intros. repeat split; try assumption. constructor; [assumption|constructor]. Qed.

Lemma hget_in h k vs : hget h k = Some vs -> exists x, In x h /\ snd x = vs.
Proof.
  induction h as [|x h IH]; [discriminate|]. cbn [hget].
  destruct (bytes_eqb (fst x) k).
  - intros [= <-]. exists x. split; [left; reflexivity|reflexivity].
  - intros H. destruct (IH H) as (y & Hy & E). exists y. split; [right; exact Hy|exact E].
Qed.

Lemma valid_value_no_cr v : valid_field_value v = true -> mem_byte CR v = false.
Proof. intros H. eapply forallb_not_mem; [|exact H]. reflexivity. Qed.

Lemma valid_headers_values h x v : valid_headers h = true -> In x h -> In v (snd x) ->
  valid_field_value v = true.
Proof.
  unfold valid_headers. intros H Hx Hv. rewrite forallb_forall in H. specialize (H _ Hx).
  apply andb_true_iff in H as [_ H]. rewrite forallb_forall in H. auto.
Qed.

Lemma header_get_no_cr h k : valid_headers h = true -> mem_byte CR (header_get h k) = false.
Proof.
  intros H. unfold header_get, hvals. destruct (hget h (canonical_key k)) as [vs|] eqn:E; [|reflexivity].
  destruct vs as [|v vs]; [reflexivity|]. apply hget_in in E as (x & Hx & Ex).
  apply valid_value_no_cr. eapply valid_headers_values; [exact H|exact Hx|]. rewrite Ex. left. reflexivity.
Qed.

Lemma ua_ok h : valid_headers h = true -> Forall ok_kv (h1_ua h).
Proof.
  intros H. unfold h1_ua. destruct (hget h (bs "User-Agent")).
  - destruct (is_nil (header_get h (bs "User-Agent"))); [constructor|].
    constructor; [|constructor]. apply ok_kv_const; try reflexivity; try discriminate.
    apply header_get_no_cr. exact H.
  - constructor; [|constructor]. apply ok_kv_const; try reflexivity. discriminate.
Qed.

Lemma cl_ok key m n : key <> [] -> mem_byte ":"%byte key = false -> mem_byte CR key = false ->
  Forall ok_kv (cl_kv key m n).
Proof.
  intros. unfold cl_kv. destruct (sends_cl m n); [|constructor]. constructor; [|constructor].
  apply ok_kv_const; try assumption. apply digits_no_cr. apply dec_of_N_digits.
Qed.

Lemma gzip_ok q : Forall ok_kv (gzip_kv (bs "Accept-Encoding") q).
Proof.
  unfold gzip_kv. destruct (wants_gzip q); [|constructor]. constructor; [|constructor].
  apply ok_kv_const; try reflexivity. discriminate.
Qed.

Lemma nl_to_space_not_cr c : beqb CR (nl_to_space c) = false.
Proof. destruct c; reflexivity. Qed.

Lemma sanitize_no_cr v : mem_byte CR (sanitize v) = false.
Proof.
  unfold sanitize. apply mem_trim. induction v as [|c v IH]; [reflexivity|].
  cbn [map]. rewrite mem_byte_cons, nl_to_space_not_cr, IH. reflexivity.
Qed.

Lemma user_ok h : Forall ok_kv (h1_user h).
Proof.
  unfold h1_user. apply Forall_forall. intros y Hy. apply in_map_iff in Hy as (x & <- & Hx).
  apply filter_In in Hx as [_ Hx]. apply andb_true_iff in Hx as [_ Hn].
  apply tchar_name_safe in Hn as (Hc & Hr & _ & _ & _ & Hne). cbn [fst snd].
  repeat split; try assumption. apply Forall_forall. intros v Hv.
  apply in_map_iff in Hv as (v' & <- & _). apply sanitize_no_cr.
Qed.

Lemma user_sorted_ok h :
  Forall ok_kv (if is_nil (order_list h) then sort_by_key (h1_user h) else h1_user h).
Proof.
  destruct (is_nil (order_list h)); [|apply user_ok].
  eapply Permutation_Forall; [apply Permutation_sym; apply sort_le_perm|apply user_ok].
Qed.

Lemma host_ok host : valid_host_header host = true -> ok_kv (bs "Host", [host]).
Proof.
  intros H. apply ok_kv_const; try reflexivity; [discriminate|].
  eapply forallb_not_mem; [|exact H]. reflexivity.
Qed.

Lemma h1_kvs_ok q : valid_host_header (c_host q) = true -> valid_headers (c_hdr q) = true ->
  Forall ok_kv (h1_kvs q).
Proof.
  intros Hh Hv. unfold h1_kvs. repeat (apply Forall_app; split).
  - constructor; [apply host_ok; exact Hh|constructor].
  - apply ua_ok. exact Hv.
  - apply cl_ok; try reflexivity. discriminate.
  - apply user_sorted_ok.
  - apply gzip_ok.
Qed.

Lemma h1_kvs_te_ok q : valid_host_header (c_host q) = true -> valid_headers (c_hdr q) = true ->
  Forall ok_kv (h1_kvs_te q).
Proof.
  intros Hh Hv. unfold h1_kvs_te. repeat (apply Forall_app; split).
  - constructor; [apply host_ok; exact Hh|constructor].
  - apply ua_ok. exact Hv.
  - constructor; [|constructor]. apply ok_kv_const; try reflexivity. discriminate.
  - apply user_sorted_ok.
  - apply gzip_ok.
Qed.

Theorem h1_field_lines_ok : forall q body,
  valid_host_header (c_host q) = true -> valid_headers (c_hdr q) = true ->
  Forall ok_line (h1_field_lines q body).
Proof.
  intros q body Hh Hv. unfold h1_field_lines. destruct (h1_chunked q body).
  - apply flatten_ok. eapply Permutation_Forall; [apply Permutation_sym; apply sort_if_perm|].
    apply h1_kvs_te_ok; assumption.
  - unfold h1_lines. apply flatten_ok.
    eapply Permutation_Forall; [apply Permutation_sym; apply sort_if_perm|].
    apply h1_kvs_ok; assumption.
Qed.

(* ---------- which framing fields a rendered head carries ---------- *)
Definition fv (name : string) (ls : list line) : list bytes := field_values name (map trim_line ls).

Lemma fv_app name a b : fv name (a ++ b) = fv name a ++ fv name b.
Proof. unfold fv, field_values. rewrite map_app, filter_app, map_app. reflexivity. Qed.

Lemma Permutation_filter {A} (f : A -> bool) l l' : Permutation l l' -> Permutation (filter f l) (filter f l').
Proof.
  induction 1 as [|x l l' _ IH|x y l|l l' l'' _ IH1 _ IH2]; cbn [filter].
  - constructor.
  - destruct (f x); [constructor|]; exact IH.
  - destruct (f x), (f y); try reflexivity. apply perm_swap.
  - etransitivity; eassumption.
Qed.

Lemma fv_perm name kvs kvs' : Permutation kvs kvs' ->
  Permutation (fv name (flatten kvs)) (fv name (flatten kvs')).
Proof.
  intros H. unfold fv, field_values. apply Permutation_map. apply Permutation_filter.
  apply Permutation_map. unfold flatten. apply Permutation_flat_map. exact H.
Qed.

Lemma fv_none name kvs : Forall (fun x => equal_fold (fst x) (bs name) = false) kvs ->
  fv name (flatten kvs) = [].
Proof.
  induction 1 as [|x l Hx _ IH]; [reflexivity|].
  change (x :: l) with ([x] ++ l). rewrite flatten_app, fv_app, IH, app_nil_r.
  unfold fv, field_values, flatten. cbn [flat_map]. rewrite app_nil_r.
  induction (snd x) as [|v vs IHv]; [reflexivity|]. cbn [map filter fst trim_line]. rewrite Hx. exact IHv.
Qed.

Lemma fv_single name k v : equal_fold k (bs name) = true -> fv name (flatten [(k, [v])]) = [trim is_sp_tab v].
Proof.
  intros H. unfold fv, field_values, flatten. cbn [flat_map map app fst snd trim_line filter].
  rewrite H. reflexivity.
Qed.

Lemma ua_names h : Forall (fun x => fst x = bs "User-Agent") (h1_ua h).
Proof.
  unfold h1_ua. destruct (hget h (bs "User-Agent")); [destruct (is_nil _)|]; repeat constructor.
Qed.

Lemma gzip_names q : Forall (fun x => fst x = bs "Accept-Encoding") (gzip_kv (bs "Accept-Encoding") q).
Proof. unfold gzip_kv. destruct (wants_gzip q); repeat constructor. Qed.

Lemma Forall_names_fold name n0 (kvs : list kv) : equal_fold n0 (bs name) = false ->
  Forall (fun x => fst x = n0) kvs -> Forall (fun x => equal_fold (fst x) (bs name) = false) kvs.
Proof. intros H F. eapply Forall_impl; [|exact F]. cbn. intros x ->. exact H. Qed.

Lemma user_names name h : no_framing_keys h = true -> framing_name (bs name) = true ->
  (forall k, framing_name k = false -> equal_fold k (bs name) = false) ->
  Forall (fun x => equal_fold (fst x) (bs name) = false)
         (if is_nil (order_list h) then sort_by_key (h1_user h) else h1_user h).
Proof.
  intros Hn _ Himp.
  assert (F : Forall (fun x : kv => equal_fold (fst x) (bs name) = false) (h1_user h)).
  { unfold h1_user. apply Forall_forall. intros y Hy. apply in_map_iff in Hy as (x & <- & Hx).
    apply filter_In in Hx as [Hx _]. cbn [fst]. apply Himp.
    unfold no_framing_keys in Hn. rewrite forallb_forall in Hn. specialize (Hn _ Hx).
    apply negb_true_iff in Hn. exact Hn. }
  destruct (is_nil (order_list h)); [|exact F].
  eapply Permutation_Forall; [apply Permutation_sym; apply sort_le_perm|exact F].
Qed.

Lemma framing_cl k : framing_name k = false -> equal_fold k (bs "Content-Length") = false.
Proof.
  unfold framing_name. intros H. apply orb_false_iff in H as [H _].
  unfold equal_fold in *. exact H.
Qed.
Lemma framing_te k : framing_name k = false -> equal_fold k (bs "Transfer-Encoding") = false.
Proof.
  unfold framing_name. intros H. apply orb_false_iff in H as [_ H].
  unfold equal_fold in *. exact H.
Qed.

Lemma cl_kv_fv_cl m n : fv "Content-Length" (flatten (cl_kv (bs "Content-Length") m n)) =
  if sends_cl m n then [dec_of_N (Z.to_N n)] else [].
Proof.
  unfold cl_kv. destruct (sends_cl m n); [|reflexivity].
  rewrite fv_single by reflexivity. rewrite digits_trim by apply dec_of_N_digits. reflexivity.
Qed.

Lemma cl_kv_fv_te m n : fv "Transfer-Encoding" (flatten (cl_kv (bs "Content-Length") m n)) = [].
Proof. unfold cl_kv. destruct (sends_cl m n); reflexivity. Qed.

Lemma h1_kvs_fv_cl q : no_framing_keys (c_hdr q) = true ->
  fv "Content-Length" (flatten (h1_kvs q)) =
  if sends_cl (c_method q) (c_clen q) then [dec_of_N (Z.to_N (c_clen q))] else [].
Proof.
  intros Hn. unfold h1_kvs. rewrite !flatten_app, !fv_app.
  rewrite (fv_none "Content-Length" [(bs "Host", [c_host q])]) by (repeat constructor).
  rewrite (fv_none "Content-Length" (h1_ua (c_hdr q)))
    by (eapply Forall_names_fold; [|apply ua_names]; reflexivity).
  rewrite cl_kv_fv_cl.
  rewrite (fv_none "Content-Length" (if is_nil _ then _ else _))
    by (apply user_names; [exact Hn|reflexivity|exact framing_cl]).
  rewrite (fv_none "Content-Length" (gzip_kv _ q))
    by (eapply Forall_names_fold; [|apply gzip_names]; reflexivity).
  cbn [app]. rewrite app_nil_r. reflexivity.
Qed.

Lemma h1_kvs_fv_te q : no_framing_keys (c_hdr q) = true ->
  fv "Transfer-Encoding" (flatten (h1_kvs q)) = [].
Proof.
  intros Hn. unfold h1_kvs. rewrite !flatten_app, !fv_app.
  rewrite (fv_none "Transfer-Encoding" [(bs "Host", [c_host q])]) by (repeat constructor).
  rewrite (fv_none "Transfer-Encoding" (h1_ua (c_hdr q)))
    by (eapply Forall_names_fold; [|apply ua_names]; reflexivity).
  rewrite cl_kv_fv_te.
  rewrite (fv_none "Transfer-Encoding" (if is_nil _ then _ else _))
    by (apply user_names; [exact Hn|reflexivity|exact framing_te]).
  rewrite (fv_none "Transfer-Encoding" (gzip_kv _ q))
    by (eapply Forall_names_fold; [|apply gzip_names]; reflexivity).
  reflexivity.
Qed.

Lemma h1_kvs_te_fv_cl q : no_framing_keys (c_hdr q) = true ->
  fv "Content-Length" (flatten (h1_kvs_te q)) = [].
Proof.
  intros Hn. unfold h1_kvs_te. rewrite !flatten_app, !fv_app.
  rewrite (fv_none "Content-Length" [(bs "Host", [c_host q])]) by (repeat constructor).
  rewrite (fv_none "Content-Length" (h1_ua (c_hdr q)))
    by (eapply Forall_names_fold; [|apply ua_names]; reflexivity).
  rewrite (fv_none "Content-Length" [te_line]) by (repeat constructor).
  rewrite (fv_none "Content-Length" (if is_nil _ then _ else _))
    by (apply user_names; [exact Hn|reflexivity|exact framing_cl]).
  rewrite (fv_none "Content-Length" (gzip_kv _ q))
    by (eapply Forall_names_fold; [|apply gzip_names]; reflexivity).
  reflexivity.
Qed.

Lemma h1_kvs_te_fv_te q : no_framing_keys (c_hdr q) = true ->
  fv "Transfer-Encoding" (flatten (h1_kvs_te q)) = [bs "chunked"].
Proof.
  intros Hn. unfold h1_kvs_te. rewrite !flatten_app, !fv_app.
  rewrite (fv_none "Transfer-Encoding" [(bs "Host", [c_host q])]) by (repeat constructor).
  rewrite (fv_none "Transfer-Encoding" (h1_ua (c_hdr q)))
    by (eapply Forall_names_fold; [|apply ua_names]; reflexivity).
  rewrite (fv_none "Transfer-Encoding" (if is_nil _ then _ else _))
    by (apply user_names; [exact Hn|reflexivity|exact framing_te]).
  rewrite (fv_none "Transfer-Encoding" (gzip_kv _ q))
    by (eapply Forall_names_fold; [|apply gzip_names]; reflexivity).
  reflexivity.
Qed.

Lemma perm_nil_eq {A} (l : list A) : Permutation l [] -> l = [].
Proof. intros H. apply Permutation_nil. apply Permutation_sym. exact H. Qed.
Lemma perm_one_eq {A} (l : list A) x : Permutation l [x] -> l = [x].
Proof. intros H. apply Permutation_length_1_inv. apply Permutation_sym. exact H. Qed.

(* ---------- what to_creq guarantees ---------- *)
Lemma forallb_filter {A} (P f : A -> bool) l : forallb P l = true -> forallb P (filter f l) = true.
Proof.
  intros H. rewrite forallb_forall in *. intros x Hx. apply filter_In in Hx as [Hx _]. auto.
Qed.

Lemma nfk_merge rh ch : no_framing_keys rh = true -> no_framing_keys ch = true ->
  no_framing_keys (merge_headers rh ch) = true.
Proof.
  intros H1 H2. unfold no_framing_keys, merge_headers. rewrite forallb_app.
  rewrite !forallb_filter by assumption. reflexivity.
Qed.

Lemma nfk_hset h k v : no_framing_keys h = true -> framing_name (canonical_key k) = false ->
  no_framing_keys (hset h k v) = true.
Proof.
  intros H Hk. unfold no_framing_keys, hset. rewrite forallb_app, forallb_filter by exact H.
  cbn [forallb fst]. rewrite Hk. reflexivity.
Qed.

Lemma nfk_body a h : no_framing_keys h = true -> no_framing_keys (body_headers a h) = true.
Proof.
  intros H. unfold body_headers. destruct (payload_forbidden _); [exact H|].
  destruct (a_bkind a); try exact H.
  - destruct (negb _); [exact H|]. destruct (negb _); [exact H|]. apply nfk_hset; [exact H|reflexivity].
  - destruct (is_nil _); [|exact H]. apply nfk_hset; [exact H|reflexivity].
Qed.

Lemma nfk_cookies cks : forall h, no_framing_keys h = true ->
  no_framing_keys (fold_left add_cookie cks h) = true.
Proof.
  induction cks as [|c cks IH]; intros h H; [exact H|]. cbn [fold_left]. apply IH.
  unfold add_cookie. apply nfk_hset; [exact H|reflexivity].
Qed.

Lemma to_creq_sent a q : to_creq a = Sent q ->
  valid_headers (c_hdr q) = true /\ valid_method (c_method q) = true /\ c_clen q = out_len a /\
  (no_framing_keys (a_rhdr a) = true -> no_framing_keys (a_chdr a) = true ->
   no_framing_keys (c_hdr q) = true).
Proof.
  unfold to_creq, to_creq_gen. destruct (parse_request_url _ _ _ _ _ _) as [sch uh tg| |]; try discriminate.
  destruct (negb (forallb valid_cookie _)); [discriminate|].
  destruct (valid_headers _) eqn:Ev; cbn [negb]; [|discriminate].
  destruct (is_nil (a_method a)); [discriminate|].
  destruct (valid_method (a_method a)) eqn:Em; cbn [negb andb]; [|discriminate].
  intros [= <-]. cbn [c_hdr c_method c_clen]. repeat split; try assumption.
  intros H1 H2. apply nfk_cookies. apply nfk_body. apply nfk_merge; assumption.
Qed.

Lemma no_ctl_no_cr s : existsb is_ctl s = false -> mem_byte CR s = false.
Proof.
  intros H. apply mem_byte_false_In. intros Hin.
  assert (existsb is_ctl s = true) by (apply existsb_exists; exists CR; split; [exact Hin|reflexivity]).
  congruence.
Qed.

Lemma h1_head_not_connect q body w : h1_head q body = Sent w -> m_is (c_method q) "CONNECT" = false.
Proof.
  unfold h1_head. destruct (negb (valid_method _)); [discriminate|].
  destruct (m_is (c_method q) "CONNECT"); [discriminate|reflexivity].
Qed.

Lemma chunks_data_hex parts : chunks_data (map hex_chunk parts) = concat parts.
Proof. unfold chunks_data. rewrite map_map. cbn [hex_chunk c_data]. rewrite map_id. reflexivity. Qed.

(* the end-to-end statement: for EVERY request the HTTP/1.1 model accepts, a reader of the wire
   bytes gets exactly the described request, and whatever follows on the connection is untouched.
   Premises: no verbatim-key header spells Content-Length / Transfer-Encoding; the target has no
   blank (only the raw query text of the caller's URL can put one there); for a chunked body the
   pieces are the body and their size lines are well-formed. *)
Theorem h1_end_to_end : forall a parts w rest,
  render_h1 a parts = Sent w ->
  no_framing_keys (a_rhdr a) = true -> no_framing_keys (a_chdr a) = true ->
  (forall v, described a = Some v -> mem_byte " "%byte (v_target v) = false) ->
  (forall q, to_creq a = Sent q -> h1_chunked q (eff_body a) = true ->
     wf_chunked (map hex_chunk parts) (bs "0") [] [] /\ concat parts = eff_body a) ->
  exists v, described a = Some v /\ observe_h1 (w ++ rest) = Some (v, rest).
Proof.
  intros a parts w rest Hr Hn1 Hn2 Hsp Hch. unfold render_h1 in Hr. unfold described in *.
  destruct (to_creq a) as [q| |] eqn:Eq; try discriminate.
  destruct (to_creq_sent a q Eq) as (Hvh & Hvm & Hclen & Hnf). specialize (Hnf Hn1 Hn2).
  destruct (h1_head q (eff_body a)) as [hd| |] eqn:Eh; try discriminate.
  pose proof (h1_head_not_connect _ _ _ Eh) as Hnc.
  apply h1_sent_inv in Eh as (_ & Hhost & Hctl & ->).
  eexists. split; [reflexivity|].
  specialize (Hsp _ eq_refl). cbn [v_target] in Hsp.
  remember (eff_body a) as body eqn:Hb.
  assert (Hok : ok_head (c_method q) (c_path q) (h1_field_lines q body)).
  { destruct (valid_method_safe _ Hvm) as (Hm1 & Hm2 & _).
    constructor; try assumption; [apply no_ctl_no_cr; exact Hctl|apply h1_field_lines_ok; assumption]. }
  inversion Hr as [Hw]; clear Hr. rewrite <- app_assoc.
  destruct (h1_chunked q body) eqn:Ec.
  - (* chunked *)
    destruct (Hch q eq_refl Ec) as [Hwf Hparts].
    assert (Hl : h1_field_lines q body = flatten (sort_if (order_list (c_hdr q)) (h1_kvs_te q))).
    { unfold h1_field_lines. rewrite Ec. reflexivity. }
    unfold chunked_body. rewrite h1_roundtrip_chunked; try assumption.
    + rewrite chunks_data_hex, Hparts. reflexivity.
    + change (field_values "Transfer-Encoding" (map trim_line (h1_field_lines q body)))
        with (fv "Transfer-Encoding" (h1_field_lines q body)). rewrite Hl.
      apply perm_one_eq. rewrite <- (h1_kvs_te_fv_te q Hnf). apply fv_perm. apply sort_if_perm.
    + change (field_values "Content-Length" (map trim_line (h1_field_lines q body)))
        with (fv "Content-Length" (h1_field_lines q body)). rewrite Hl.
      apply perm_nil_eq. rewrite <- (h1_kvs_te_fv_cl q Hnf). apply fv_perm. apply sort_if_perm.
  - (* Content-Length or no body *)
    set (q' := mk_creq (c_method q) (c_host q) (c_path q) (c_scheme q) (c_hdr q) (h1_clen q body) (c_compress q)).
    assert (Hl : h1_field_lines q body = flatten (sort_if (order_list (c_hdr q')) (h1_kvs q'))).
    { unfold h1_field_lines. rewrite Ec. reflexivity. }
    assert (Hte : fv "Transfer-Encoding" (h1_field_lines q body) = []).
    { rewrite Hl. apply perm_nil_eq. rewrite <- (h1_kvs_fv_te q' Hnf). apply fv_perm. apply sort_if_perm. }
    assert (Hcl : fv "Content-Length" (h1_field_lines q body) =
                  if sends_cl (c_method q) (h1_clen q body) then [dec_of_N (Z.to_N (h1_clen q body))] else []).
    { rewrite Hl. destruct (sends_cl (c_method q) (h1_clen q body)) eqn:Es.
      - apply perm_one_eq. pose proof (h1_kvs_fv_cl q' Hnf) as E. cbn [c_method c_clen q'] in E.
        rewrite Es in E. rewrite <- E. apply fv_perm. apply sort_if_perm.
      - apply perm_nil_eq. pose proof (h1_kvs_fv_cl q' Hnf) as E. cbn [c_method c_clen q'] in E.
        rewrite Es in E. rewrite <- E. apply fv_perm. apply sort_if_perm. }
    (* the length the head announces is the length of the body *)
    assert (Hlen : Z.to_N (h1_clen q body) = N.of_nat (length body) /\
                   (sends_cl (c_method q) (h1_clen q body) = false -> body = [])).
    { unfold h1_clen. rewrite Ec. unfold h1_chunked in Ec. rewrite Hnc in Ec. cbn [negb] in Ec.
      rewrite andb_true_r in Ec. rewrite Hclen in *. subst body. unfold out_len, eff_body in *.
      destruct (eff_kind a) eqn:Ek.
      - cbn. split; [reflexivity|reflexivity].
      - destruct (is_nil (a_body a)) eqn:En.
        + destruct (a_body a); [|discriminate]. cbn. split; reflexivity.
        + cbn [Z.ltb Z.compare andb] in *.
          assert (Hpos : (0 < Z.of_nat (length (a_body a)))%Z) by (destruct (a_body a); [discriminate|cbn [length]; lia]).
          destruct (Z.of_nat (length (a_body a)) <? 0)%Z eqn:El; [lia|]. cbn [andb].
          split; [rewrite <- nat_N_Z; apply N2Z.id|].
          unfold sends_cl. intros Hs. apply orb_false_iff in Hs as [Hs _]. lia.
      - change (-1 <? 0)%Z with true in *. cbn [andb] in *. apply orb_false_iff in Ec as [_ Ec].
        apply negb_false_iff in Ec. destruct (a_body a); [|discriminate]. cbn. split; reflexivity.
      - destruct (is_nil (a_body a)) eqn:En.
        + destruct (a_body a); [|discriminate]. cbn. split; reflexivity.
        + assert (Hpos : (0 < Z.of_nat (length (a_body a)))%Z) by (destruct (a_body a); [discriminate|cbn [length]; lia]).
          destruct (Z.of_nat (length (a_body a)) <? 0)%Z eqn:El; [lia|]. cbn [andb].
          split; [rewrite <- nat_N_Z; apply N2Z.id|].
          unfold sends_cl. intros Hs. apply orb_false_iff in Hs as [Hs _]. lia. }
    destruct Hlen as [Hlen Hempty].
    destruct (sends_cl (c_method q) (h1_clen q body)) eqn:Es.
    + apply (h1_roundtrip_cl _ _ _ _ (dec_of_N (Z.to_N (h1_clen q body)))); try assumption.
      rewrite parse_dec_of_N, Hlen. reflexivity.
    + rewrite (Hempty eq_refl) in *. cbn [app]. apply h1_roundtrip_nobody; assumption.
Qed.

(* ---------- tables regenerated from the source (gosync): a changed table breaks these ---------- *)
From ReqV Require Import Gen.C01Tables.

Definition in_src_ranges (c : byte) : bool :=
  existsb (fun r => (fst r <=? bN c)%N && (bN c <=? snd r)%N) keep_escapes_ranges.

(* the byte set parseURLKeepEscapes leaves as written is exactly what URL.EscapedPath accepts *)
Theorem keep_escapes_table_matches : forall c,
  valid_encoded_byte EPath c = in_src_ranges c || mem_byte c keep_escapes_plain.
Proof. intros c. destruct c; vm_compute; reflexivity. Qed.

Theorem json_content_type_matches : json_ct = json_content_type_src.
Proof. vm_compute. reflexivity. Qed.

(* ---------- several requests on one connection ---------- *)
Definition exchange_ok (x : areq * list bytes * bytes) : Prop :=
  let '(a, parts, w) := x in
  render_h1 a parts = Sent w /\
  no_framing_keys (a_rhdr a) = true /\ no_framing_keys (a_chdr a) = true /\
  (forall v, described a = Some v -> mem_byte " "%byte (v_target v) = false) /\
  (forall q, to_creq a = Sent q -> h1_chunked q (eff_body a) = true ->
     wf_chunked (map hex_chunk parts) (bs "0") [] [] /\ concat parts = eff_body a).

Definition wire_of (x : areq * list bytes * bytes) : bytes := snd x.
Definition req_of (x : areq * list bytes * bytes) : areq := fst (fst x).

(* whatever requests share a connection, in whatever number: a reader takes them apart exactly
   where the writer put the boundaries - no request's bytes are read as part of another one *)
Theorem h1_sequence_roundtrip : forall xs rest, Forall exchange_ok xs ->
  exists vs, Forall2 (fun x v => described (req_of x) = Some v) xs vs /\
             observe_seq (length xs) (concat (map wire_of xs) ++ rest) = Some (vs, rest).
Proof.
  induction xs as [|[[a parts] w] xs IH]; intros rest H.
  - exists []. split; [constructor|reflexivity].
  - inversion H as [|? ? Hx Hxs]; subst. cbv [exchange_ok] in Hx. destruct Hx as (Hr & Hn1 & Hn2 & Hsp & Hch).
    destruct (IH rest Hxs) as (vs & Hvs & Hobs).
    destruct (h1_end_to_end a parts w (concat (map wire_of xs) ++ rest) Hr Hn1 Hn2 Hsp Hch) as (v & Hd & Ho).
    exists (v :: vs). split; [constructor; [exact Hd|exact Hvs]|].
    cbn [length map concat wire_of snd observe_seq]. rewrite <- app_assoc, Ho, Hobs. reflexivity.
Qed.

(* Expect: 100-continue: a connection that may be used again has received the whole request *)
Theorem expect_reuse_needs_body : forall req_close ans head framed,
  conn_reusable_after req_close ans = true ->
  expect_sends_body req_close ans = true /\ exchange_wire head framed req_close ans = head ++ framed.
Proof.
  intros rc ans head framed H. unfold exchange_wire.
  assert (E : expect_sends_body rc ans = true).
  { destruct ans as [|[|]|]; cbn in *; try reflexivity; try discriminate.
    apply negb_true_iff in H. rewrite H. reflexivity. }
  rewrite E. split; reflexivity.
Qed.

(* ... and a body is withheld only on a connection that is not used again *)
Theorem expect_body_withheld_only_when_closing : forall req_close ans,
  expect_sends_body req_close ans = false -> conn_reusable_after req_close ans = false.
Proof.
  intros rc ans H. destruct (conn_reusable_after rc ans) eqn:E; [|reflexivity].
  destruct (expect_reuse_needs_body rc ans [] [] E) as [E' _]. congruence.
Qed.
