(* Proofs/H1ChunkConverse.v - C04: the converse of the chunked round trip: whenever the chunked
   reader reaches the end of a body cleanly, the bytes it consumed WERE a chunking of exactly
   the data it delivered - size lines (LF-terminated, inside the buffer) announcing the exact
   lengths, each chunk's data followed by CRLF, then a zero-size line.  Nothing else is accepted. *)
From ReqV Require Import Lib.Bytes Lib.BytesFacts Model.H1Resp Model.H1Render Model.H1Bufio
  Proofs.H1RespProofs Proofs.H1BufioProofs.
From Coq Require Import Lia ZifyBool ZifyNat ZifyN.

(* a size line as the reader takes it off the stream: up to and including the first LF *)
Definition line_shape (line : bytes) : Prop := exists l, line = l ++ [LF] /\ mem_byte LF l = false.
Definition announces (line : bytes) (n : N) : Prop :=
  line_shape line /\ parse_hex_uint (remove_chunk_extension (trim_trailing_ws line)) = HexOk n.
Definition seen_chunk (c : bytes * bytes) : bytes := fst c ++ snd c ++ CRLF.

Lemma read_chunk_line_shape bufsize s line rest :
  read_chunk_line bufsize s = inr (line, rest) -> line_shape line /\ s = line ++ rest.
Proof.
  intros H. pose proof (read_chunk_line_inv _ _ _ _ H) as (Hs & _ & _). split; [|exact Hs].
  unfold read_chunk_line in H.
  destruct (cut_byte LF (firstn bufsize s)) as [[a b]|] eqn:E.
  - destruct (max_line_length <=? S (length a)); [discriminate|].
    assert (Hl : line = firstn (S (length a)) s) by congruence.
    destruct (cut_prefix_whole _ _ _ _ E) as [_ Hf]. rewrite Hf in Hl.
    exists a. split; [exact Hl|]. apply cut_byte_some in E as [_ Hm]. exact Hm.
  - destruct (bufsize <=? length s); discriminate.
Qed.

Theorem dechunk_accepts_only_chunkings : forall fuel bufsize ex s d rest,
  dechunk fuel bufsize ex s = (d, CEof rest) ->
  exists cs last,
    s = flat_map seen_chunk cs ++ last ++ rest /\
    d = concat (map snd cs) /\
    Forall (fun c => snd c <> [] /\ announces (fst c) (N.of_nat (length (snd c)))) cs /\
    announces last 0.
Proof.
  induction fuel as [|f IH]; intros bufsize ex s d rest H; [discriminate|].
  cbn [dechunk] in H.
  destruct (read_chunk_line bufsize s) as [e|[line r0]] eqn:El; [inversion H|].
  apply read_chunk_line_shape in El as [Hshape ->].
  destruct (parse_hex_uint (remove_chunk_extension (trim_trailing_ws line))) as [n| | |] eqn:Eh;
    try (inversion H; fail).
  destruct (N.eqb_spec n 0) as [->|Hn0].
  - inversion H; subst. exists [], line. cbn. repeat split; auto.
  - destruct (_ >? excess_limit)%Z; [inversion H|].
    destruct (N.ltb_spec (N.of_nat (length r0)) n) as [Hlt|Hge]; [inversion H|].
    destruct (skipn (N.to_nat n) r0) as [|c1 [|c2 r1]] eqn:Es; try (inversion H; fail).
    destruct (beqb c1 CR && beqb c2 LF) eqn:Ec; [|inversion H].
    apply andb_true_iff in Ec as [E1 E2]. apply beqb_eq in E1. apply beqb_eq in E2. subst c1 c2.
    destruct (dechunk f bufsize _ r1) as [d1 e1] eqn:Ed. inversion H; subst; clear H.
    destruct (IH _ _ _ _ _ Ed) as (cs & last & -> & -> & Hcs & Hlast).
    set (data := firstn (N.to_nat n) r0).
    assert (Hlen : length data = N.to_nat n) by (unfold data; rewrite firstn_length; lia).
    exists ((line, data) :: cs), last. split; [|split; [|split]].
    + cbn [flat_map]. unfold seen_chunk at 1. cbn [fst snd]. rewrite <- !app_assoc. f_equal.
      rewrite <- (firstn_skipn (N.to_nat n) r0) at 1. fold data. rewrite Es. reflexivity.
    + reflexivity.
    + constructor; [|exact Hcs]. cbn [fst snd]. split.
      * intros E. rewrite E in Hlen. cbn in Hlen. lia.
      * split; [exact Hshape|]. rewrite Eh. f_equal. lia.
    + exact Hlast.
Qed.
