(* Proofs/H1RespProofs.v - lemmas about Model/H1Resp.v (C04, C07) *)
From ReqV Require Import Lib.Bytes Lib.BytesFacts Model.H1Resp.
From ReqV Require Gen.H1Tables.
From Coq Require Import Lia ZifyBool ZifyNat ZifyN.

(* ====================================================================== *)
(* parseHexUint                                                           *)
(* ====================================================================== *)

Definition is_hex_digit (b : byte) : bool :=
  match hex_digit_val b with Some _ => true | None => false end.
Definition hex_val_of (b : byte) : N :=
  match hex_digit_val b with Some d => d | None => 0%N end.
(* big-endian base-16 value *)
Definition hex_value_from (acc : N) (v : bytes) : N :=
  fold_left (fun a b => (a * 16 + hex_val_of b)%N) v acc.
Definition hex_value (v : bytes) : N := hex_value_from 0 v.

Lemma is_hex_digit_chars b : is_hex_digit b = mem_byte b (bs "0123456789abcdefABCDEF").
Proof. destruct b; vm_compute; reflexivity. Qed.

Lemma hex_val_of_lt16 b : (hex_val_of b < 16)%N.
Proof. destruct b; vm_compute; reflexivity. Qed.

Lemma hex_loop_ok v : forall i acc,
  i + length v <= 16 -> forallb is_hex_digit v = true ->
  hex_loop i acc v = HexOk (hex_value_from acc v).
Proof.
  induction v as [|b r IH]; intros i acc Hlen Hall; [reflexivity|].
  cbn [hex_loop]. cbn [forallb] in Hall. apply andb_true_iff in Hall as [Hb Hr].
  unfold is_hex_digit in Hb. destruct (hex_digit_val b) as [d|] eqn:E; [|discriminate].
  cbn [length] in Hlen.
  destruct (Nat.eqb_spec i 16) as [->|Hne]; [lia|].
  rewrite IH by (assumption || lia).
  unfold hex_value_from. cbn [fold_left]. unfold hex_val_of. rewrite E. reflexivity.
Qed.

Lemma hex_loop_ok_inv v : forall i acc n,
  i <= 16 -> hex_loop i acc v = HexOk n ->
  i + length v <= 16 /\ forallb is_hex_digit v = true /\ n = hex_value_from acc v.
Proof.
  induction v as [|b r IH]; intros i acc n Hi H.
  - cbn in H. inversion H. cbn. repeat split. lia.
  - cbn [hex_loop] in H. destruct (hex_digit_val b) as [d|] eqn:E; [|discriminate].
    destruct (Nat.eqb_spec i 16) as [->|Hne]; [discriminate|].
    apply IH in H; [|lia]. destruct H as (Hl & Ha & Hn).
    cbn [length forallb]. unfold is_hex_digit at 1. rewrite E.
    repeat split; [lia|assumption|].
    subst n. unfold hex_value_from. cbn [fold_left]. unfold hex_val_of. rewrite E. reflexivity.
Qed.

Lemma hex_value_from_bound v : forall acc,
  (hex_value_from acc v < (acc + 1) * 16 ^ N.of_nat (length v))%N.
Proof.
  induction v as [|b r IH]; intros acc.
  - cbn. lia.
  - unfold hex_value_from in *. cbn [fold_left length].
    specialize (IH (acc * 16 + hex_val_of b)%N).
    pose proof (hex_val_of_lt16 b) as Hb.
    rewrite Nat2N.inj_succ, N.pow_succ_r'.
    eapply N.lt_le_trans; [exact IH|].
    set (p := (16 ^ N.of_nat (length r))%N).
    assert (acc * 16 + hex_val_of b + 1 <= (acc + 1) * 16)%N by lia.
    replace ((acc + 1) * (16 * p))%N with (((acc + 1) * 16) * p)%N by lia.
    apply N.mul_le_mono_r. assumption.
Qed.

(* accepts exactly the non-empty strings of at most 16 hex digits, and returns their value *)
Theorem hex_uint_spec v n :
  parse_hex_uint v = HexOk n <->
  v <> [] /\ length v <= 16 /\ forallb is_hex_digit v = true /\ n = hex_value v.
Proof.
  unfold parse_hex_uint. split.
  - destruct v as [|b r]; [discriminate|]. cbn [is_nil]. intros H.
    apply hex_loop_ok_inv in H; [|lia]. destruct H as (Hl & Ha & Hn).
    split; [discriminate|]. split; [lia|]. split; [assumption|exact Hn].
  - intros (Hne & Hl & Ha & ->). destruct v as [|b r]; [contradiction|]. cbn [is_nil].
    apply hex_loop_ok; [lia|assumption].
Qed.

(* the value always fits Go's uint64: the model's unbounded N never hides a wrap *)
Theorem hex_uint_fits_uint64 v n : parse_hex_uint v = HexOk n -> (n < 2 ^ 64)%N.
Proof.
  intros H. apply hex_uint_spec in H as (_ & Hl & _ & ->).
  unfold hex_value. pose proof (hex_value_from_bound v 0) as Hb.
  eapply N.lt_le_trans; [exact Hb|].
  replace (2 ^ 64)%N with ((0 + 1) * 16 ^ 16)%N by reflexivity.
  apply N.mul_le_mono_l. apply N.pow_le_mono_r; lia.
Qed.

Theorem hex_uint_rejects_empty : parse_hex_uint [] = HexEmpty.
Proof. reflexivity. Qed.

(* the pinned fork accepted the empty string as 0: a blank chunk-size line ended the body *)
Theorem hex_uint_pinned_refuted : parse_hex_uint_pinned [] = HexOk 0.
Proof. reflexivity. Qed.

Theorem hex_uint_total_classes v :
  match parse_hex_uint v with
  | HexOk _ => True
  | HexEmpty => v = []
  | HexInvalid => existsb (fun b => negb (is_hex_digit b)) (firstn 17 v) = true
  | HexTooLarge => 16 < length v /\ forallb is_hex_digit (firstn 17 v) = true
  end.
Proof.
  unfold parse_hex_uint. destruct v as [|b0 r0]; [reflexivity|]. cbn [is_nil].
  assert (G : forall v i acc, i <= 16 ->
    match hex_loop i acc v with
    | HexOk _ => True
    | HexEmpty => False
    | HexInvalid => existsb (fun b => negb (is_hex_digit b)) (firstn (17 - i) v) = true
    | HexTooLarge => 16 < i + length v /\ forallb is_hex_digit (firstn (17 - i) v) = true
    end).
  { induction v as [|b r IH]; intros i acc Hi; [exact I|].
    cbn [hex_loop]. destruct (hex_digit_val b) as [d|] eqn:E.
    - destruct (Nat.eqb_spec i 16) as [->|Hne].
      + cbn. unfold is_hex_digit. rewrite E. split; [lia|reflexivity].
      + specialize (IH (S i) (acc * 16 + d)%N ltac:(lia)).
        replace (17 - i) with (S (17 - S i)) by lia. cbn [firstn existsb forallb length].
        unfold is_hex_digit at 1 3. rewrite E. cbn [negb orb andb].
        destruct (hex_loop (S i) (acc * 16 + d) r); try assumption.
        destruct IH; split; [lia|assumption].
    - replace (17 - i) with (S (16 - i)) by lia. cbn [firstn existsb].
      unfold is_hex_digit at 1. rewrite E. reflexivity. }
  specialize (G (b0 :: r0) 0 0%N ltac:(lia)).
  destruct (hex_loop 0 0 (b0 :: r0)); try assumption; try contradiction.
Qed.

(* ====================================================================== *)
(* gosync ties                                                            *)
(* ====================================================================== *)

(* the fork's isTokenTable (regenerated from textproto_reader.go) is the model's tchar *)
Theorem token_table_agrees : forall b,
  is_tchar b = existsb (N.eqb (bN b)) Gen.H1Tables.fork_token_table.
Proof. destruct b; vm_compute; reflexivity. Qed.

(* the constants of the fork's internal/chunked.go are the ones the model uses
   (and the empty-size guard and the overhead limit are present) *)
Theorem chunk_constants_agree :
  Gen.H1Tables.fork_max_line_length = Z.of_nat max_line_length /\
  Gen.H1Tables.fork_hex_max_digits = 16%Z /\
  Gen.H1Tables.fork_hex_rejects_empty = true /\
  Gen.H1Tables.fork_excess_limit = excess_limit /\
  Gen.H1Tables.fork_excess_per_chunk = 16%Z.
Proof. vm_compute. repeat split. Qed.

(* ====================================================================== *)
(* chunked reader: round trip and message boundary                        *)
(* ====================================================================== *)
From ReqV Require Import Model.H1Render.

Lemma cut_byte_app_hit c a b : mem_byte c a = false -> cut_byte c (a ++ c :: b) = Some (a, b).
Proof.
  induction a as [|x a IH]; cbn [app cut_byte].
  - now rewrite beqb_refl.
  - rewrite mem_byte_cons, beqb_sym. intros H. apply orb_false_iff in H as [H1 H2].
    rewrite H1, IH by assumption. reflexivity.
Qed.

Lemma cut_byte_none c s : mem_byte c s = false -> cut_byte c s = None.
Proof.
  induction s as [|x s IH]; cbn [cut_byte]; [reflexivity|].
  rewrite mem_byte_cons, beqb_sym. intros H. apply orb_false_iff in H as [H1 H2].
  now rewrite H1, IH.
Qed.

Lemma cut_byte_some c s a b : cut_byte c s = Some (a, b) -> s = a ++ c :: b /\ mem_byte c a = false.
Proof.
  revert a b. induction s as [|x s IH]; intros a b H; cbn [cut_byte] in H; [discriminate|].
  destruct (beqb x c) eqn:E.
  - inversion H; subst. apply beqb_eq in E. subst. split; reflexivity.
  - destruct (cut_byte c s) as [[a' b']|]; [|discriminate]. inversion H; subst.
    destruct (IH a' b eq_refl) as [-> Hm]. split; [reflexivity|].
    rewrite mem_byte_cons, beqb_sym, E. exact Hm.
Qed.

Lemma read_chunk_line_ok bufsize l rest :
  mem_byte LF l = false -> length l + 2 <= bufsize -> length l + 2 < max_line_length ->
  read_chunk_line bufsize (l ++ CRLF ++ rest) = inr (l ++ CRLF, rest).
Proof.
  intros Hl Hb Hm. unfold read_chunk_line.
  assert (E : firstn bufsize (l ++ CRLF ++ rest) =
              (l ++ [CR]) ++ LF :: firstn (bufsize - (length l + 2)) rest).
  { replace (l ++ CRLF ++ rest) with ((l ++ CRLF) ++ rest) by now rewrite <- app_assoc.
    rewrite firstn_app. rewrite firstn_all2 by (rewrite app_length; cbn; lia).
    rewrite app_length. cbn [CRLF length]. rewrite <- !app_assoc. reflexivity. }
  rewrite E. rewrite cut_byte_app_hit.
  2:{ rewrite mem_byte_app, Hl. reflexivity. }
  rewrite app_length. cbn [length].
  replace (S (length l + 1)) with (length (l ++ CRLF)) by (rewrite app_length; cbn; lia).
  destruct (Nat.leb_spec max_line_length (length (l ++ CRLF))) as [H|H].
  { rewrite app_length in H. cbn in H. lia. }
  replace (l ++ CRLF ++ rest) with ((l ++ CRLF) ++ rest) by now rewrite <- app_assoc.
  now rewrite firstn_app_exact, skipn_app_exact.
Qed.

Lemma dechunk_chunks : forall cs fuel bufsize ex l0 rest,
  chunks_ok bufsize ex cs -> size_line_ok bufsize l0 0 -> length cs < fuel ->
  dechunk fuel bufsize ex (render_chunks cs ++ l0 ++ CRLF ++ rest) =
    (concat (map snd cs), CEof rest).
Proof.
  induction cs as [|[l d] cs IH]; intros fuel bufsize ex l0 rest Hok H0 Hf.
  - destruct fuel as [|f]; [cbn in Hf; lia|]. cbn [render_chunks flat_map app map concat dechunk].
    destruct H0 as (Hl & Hb & Hm & Hp).
    rewrite read_chunk_line_ok by assumption. rewrite Hp. reflexivity.
  - destruct fuel as [|f]; [cbn in Hf; lia|].
    cbn [chunks_ok] in Hok. destruct Hok as (Hd & (Hl & Hb & Hm & Hp) & Hex & Hrest).
    cbn [render_chunks flat_map]. fold (render_chunks cs). unfold render_chunk. cbn [fst snd].
    rewrite <- !app_assoc. cbn [dechunk].
    rewrite read_chunk_line_ok by assumption. rewrite Hp.
    destruct (N.eqb_spec (N.of_nat (length d)) 0) as [E|_].
    { destruct d; [contradiction|cbn in E; lia]. }
    destruct (Z.gtb_spec (excess_after ex (length (l ++ CRLF)) (N.of_nat (length d))) excess_limit) as [G|_];
      [lia|].
    destruct (N.ltb_spec (N.of_nat (length (d ++ CRLF ++ render_chunks cs ++ l0 ++ CRLF ++ rest)))
                         (N.of_nat (length d))) as [G|_].
    { rewrite app_length in G. lia. }
    rewrite Nat2N.id, firstn_app_exact, skipn_app_exact.
    cbn [CRLF app]. rewrite !beqb_refl. cbn [andb].
    change (CR :: LF :: rest) with (CRLF ++ rest).
    rewrite (IH f bufsize _ l0 rest Hrest); [|exact H0|cbn in Hf; lia].
    reflexivity.
Qed.

Lemma render_chunks_length cs : length cs <= length (render_chunks cs).
Proof.
  induction cs as [|[l d] cs IH]; [cbn; lia|].
  cbn [render_chunks flat_map length]. fold (render_chunks cs).
  unfold render_chunk. rewrite !app_length. cbn. lia.
Qed.

(* For EVERY partition of a body into non-empty chunks, however the size lines are spelled,
   draining the chunked reader returns exactly the concatenation, stops right after the
   last-chunk line and hands the rest of the stream back untouched. *)
Theorem chunked_round_trip bufsize cs l0 rest :
  chunks_ok bufsize 0 cs -> size_line_ok bufsize l0 0 ->
  dechunk_all bufsize (render_chunks cs ++ l0 ++ CRLF ++ rest) = (concat (map snd cs), CEof rest).
Proof.
  intros Hok H0. unfold dechunk_all. apply dechunk_chunks; try assumption.
  rewrite app_length. pose proof (render_chunks_length cs). lia.
Qed.

Lemma wrap64_small z : (- 2 ^ 63 <= z < 2 ^ 63)%Z -> wrap64 z = z.
Proof. intros H. unfold wrap64. rewrite Z.mod_small by lia. lia. Qed.

Lemma excess_after_plain len n :
  (Z.of_nat len + 2 <= 16 + 2 * Z.of_N n)%Z -> (Z.of_N n < 2 ^ 60)%Z -> (Z.of_nat len < 2 ^ 60)%Z ->
  excess_after 0 len n = 0%Z.
Proof.
  intros H1 H2 H3. unfold excess_after.
  assert (P : (2 ^ 60 < 2 ^ 63)%Z) by reflexivity.
  rewrite (wrap64_small (Z.of_N n)) by lia.
  rewrite (wrap64_small (2 * Z.of_N n)) by lia.
  rewrite (wrap64_small (16 + 2 * Z.of_N n)) by lia.
  rewrite (wrap64_small (Z.of_nat len + 2)) by lia.
  rewrite (wrap64_small (0 + (Z.of_nat len + 2))) by lia.
  rewrite wrap64_small by lia. lia.
Qed.

Lemma chunks_plain_ok bufsize cs : Forall (chunk_plain bufsize) cs -> chunks_ok bufsize 0 cs.
Proof.
  induction 1 as [|[l d] cs (Hd & Hs & Hlen & Hbig) _ IH]; [exact I|].
  cbn [fst snd] in *. cbn [chunks_ok].
  assert (Hm : (Z.of_nat (length (l ++ CRLF)) < 2 ^ 60)%Z).
  { destruct Hs as (_ & _ & Hm & _). rewrite app_length. cbn [CRLF length].
    unfold max_line_length in Hm. assert ((4096 < 2 ^ 60)%Z) by reflexivity. lia. }
  rewrite excess_after_plain; [| rewrite app_length; cbn [CRLF length]; lia | lia | exact Hm].
  split; [assumption|]. split; [assumption|]. split; [unfold excess_limit; lia|assumption].
Qed.

Theorem chunked_round_trip_plain bufsize cs l0 rest :
  Forall (chunk_plain bufsize) cs -> size_line_ok bufsize l0 0 ->
  dechunk_all bufsize (render_chunks cs ++ l0 ++ CRLF ++ rest) = (concat (map snd cs), CEof rest).
Proof. intros H H0. apply chunked_round_trip; [apply chunks_plain_ok|]; assumption. Qed.

(* ====================================================================== *)
(* totality: fuel = length + 1 always suffices                            *)
(* ====================================================================== *)

Lemma read_chunk_line_inv bufsize s line rest :
  read_chunk_line bufsize s = inr (line, rest) ->
  s = line ++ rest /\ 1 <= length line /\ length line <= length s.
Proof.
  unfold read_chunk_line. destruct (cut_byte LF (firstn bufsize s)) as [[a b]|] eqn:E.
  - destruct (max_line_length <=? S (length a)); [discriminate|].
    intros H.
    assert (Hline : line = firstn (S (length a)) s) by congruence.
    assert (Hrest : rest = skipn (S (length a)) s) by congruence.
    clear H. subst line rest. apply cut_byte_some in E as [E _].
    assert (Hl : S (length a) <= length s).
    { pose proof (firstn_length bufsize s) as Hf. rewrite E, app_length in Hf. cbn [length] in Hf. lia. }
    split; [symmetry; apply firstn_skipn|]. rewrite firstn_length. lia.
  - destruct (bufsize <=? length s); discriminate.
Qed.

Lemma dechunk_fuel_suffices : forall fuel bufsize ex s,
  length s < fuel -> snd (dechunk fuel bufsize ex s) <> CErr BOutOfFuel.
Proof.
  induction fuel as [|f IH]; intros bufsize ex s Hf; [lia|].
  cbn [dechunk]. destruct (read_chunk_line bufsize s) as [e|[line rest]] eqn:E.
  - unfold read_chunk_line in E. destruct (cut_byte LF (firstn bufsize s)) as [[a b]|].
    + destruct (max_line_length <=? S (length a)); inversion E; cbn; discriminate.
    + destruct (bufsize <=? length s); inversion E; cbn; discriminate.
  - apply read_chunk_line_inv in E as (-> & H1 & _). rewrite app_length in Hf.
    destruct (parse_hex_uint _) as [n| | |]; cbn [snd]; try discriminate.
    destruct (n =? 0)%N; [cbn; discriminate|].
    destruct (_ >? excess_limit)%Z; [cbn; discriminate|].
    destruct (_ <? n)%N; [cbn; discriminate|].
    destruct (skipn (N.to_nat n) rest) as [|c1 [|c2 rest']] eqn:Es; try (cbn; discriminate).
    destruct (beqb c1 CR && beqb c2 LF); [|cbn; discriminate].
    assert (Hr : length rest' < f).
    { pose proof (f_equal (@length byte) Es) as Hl. rewrite skipn_length in Hl. cbn in Hl. lia. }
    specialize (IH bufsize (excess_after ex (length line) n) rest' Hr).
    destruct (dechunk f bufsize _ rest') as [d e]. cbn [snd] in *. exact IH.
Qed.

Lemma read_line_shorter bs s line r : read_line bs s = Some (line, r) -> length r < length s.
Proof.
  unfold read_line. destruct s as [|x s']; [discriminate|].
  destruct (cut_byte LF (x :: s')) as [[a b]|] eqn:E.
  - intros H; inversion H; subst. apply cut_byte_some in E as [E _]. rewrite E, app_length. cbn. lia.
  - destruct (unterminated_lost _ _ _); intros H; inversion H; subst. cbn. lia.
Qed.

Lemma drop_while_length f s : length (drop_while f s) <= length s.
Proof. induction s as [|x s IH]; cbn; [lia|]. destruct (f x); cbn; lia. Qed.

Lemma cont_lines_fuel bs : forall fuel buf s,
  length s < fuel -> exists kv r, cont_lines fuel bs buf s = FOk (kv, r) /\ length r <= length s.
Proof.
  induction fuel as [|f IH]; intros buf s Hf; [lia|].
  cbn [cont_lines]. destruct s as [|x s']; [eauto|].
  destruct (is_sp_tab x) eqn:Ex; [|eauto].
  cbn [drop_while]. rewrite Ex.
  destruct (read_line bs (drop_while is_sp_tab s')) as [[l r]|] eqn:El.
  - apply read_line_shorter in El. pose proof (drop_while_length is_sp_tab s') as Hd.
    cbn [length] in Hf.
    destruct (IH (buf ++ SP :: trim_sp_tab l) r ltac:(lia)) as (kv & r' & -> & Hr).
    exists kv, r'. split; [reflexivity|]. cbn [length]. lia.
  - exists (buf ++ [SP]), []. split; [reflexivity|]. cbn. lia.
Qed.

Lemma mime_loop_fuel bs : forall fuel m s,
  length s < fuel -> mime_loop fuel bs m s <> inl HOutOfFuel.
Proof.
  induction fuel as [|f IH]; intros m s Hf; [lia|].
  cbn [mime_loop]. destruct (read_line bs s) as [[line r]|] eqn:El; [|discriminate].
  apply read_line_shorter in El.
  destruct (is_nil line); [discriminate|].
  destruct (negb (mem_byte COLON line)); [discriminate|].
  destruct (cont_lines_fuel bs (S (length r)) (trim_sp_tab line) r ltac:(lia)) as (kv & r' & -> & Hr).
  destruct (cut_byte COLON kv) as [[k v]|]; [|discriminate].
  destruct (canonical_key k); [|discriminate].
  destruct (forallb valid_value_byte v); [|discriminate].
  apply IH. lia.
Qed.

Lemma read_mime_header_total bs s : read_mime_header bs s <> inl HOutOfFuel.
Proof.
  unfold read_mime_header. destruct s as [|x s'].
  - apply mime_loop_fuel. cbn. lia.
  - destruct (is_sp_tab x); [|apply mime_loop_fuel; lia].
    destruct (read_line bs (x :: s')); [discriminate|]. destruct (_ <=? 80); discriminate.
Qed.

Ltac break_match :=
  match goal with
  | |- context [match ?x with _ => _ end] => destruct x eqn:?
  end.

Lemma pte_no_fuel ma mi h : parse_transfer_encoding ma mi h <> inl HOutOfFuel.
Proof. unfold parse_transfer_encoding. repeat break_match; discriminate. Qed.

Lemma fix_length_no_fuel code meth h ch : fix_length code meth h ch <> inl HOutOfFuel.
Proof. unfold fix_length. repeat break_match; try discriminate.
  match goal with H : _ = inl ?e |- _ => revert H end.
  repeat break_match; intros H; inversion H; discriminate.
Qed.

Lemma fix_trailer_no_fuel h ch : fix_trailer h ch <> inl HOutOfFuel.
Proof. unfold fix_trailer. repeat break_match; discriminate. Qed.

Lemma read_transfer_no_fuel meth sl h : read_transfer meth sl h <> inl HOutOfFuel.
Proof.
  unfold read_transfer.
  destruct (should_close _ _ _) as [c0 h1].
  destruct (if (sl_major sl =? 0)%Z && (sl_minor sl =? 0)%Z then _ else _) as [ma mi].
  destruct (parse_transfer_encoding ma mi h1) as [e|[ch h2]] eqn:E1.
  { intros H. inversion H; subst. now apply pte_no_fuel in E1. }
  destruct (fix_length _ _ _ _) as [e|[rl h3]] eqn:E2.
  { intros H. inversion H; subst. now apply fix_length_no_fuel in E2. }
  destruct (if is_head meth then _ else _); [|discriminate].
  destruct (fix_trailer h3 ch) as [e|[tr h4]] eqn:E3; [|discriminate].
  intros H. inversion H; subst. now apply fix_trailer_no_fuel in E3.
Qed.

Lemma parse_status_line_no_fuel line : parse_status_line line <> inl HOutOfFuel.
Proof.
  unfold parse_status_line. destruct (cut_byte SP line) as [[p st]|]; [|discriminate].
  destruct (negb _); [discriminate|]. destruct (atoi _); [|discriminate].
  destruct (_ <? 0)%Z; [discriminate|]. destruct (parse_http_version p) as [[? ?]|]; discriminate.
Qed.

(* Every stream yields a response or an error: the model never runs out of fuel, neither in
   the header section nor while draining the body (for every method and buffer size). *)
Theorem parse_response_total meth bufsize s :
  match parse_response meth bufsize s with
  | Rejected e => e <> HOutOfFuel
  | Accepted r b => b_end b <> BOutOfFuel
  end.
Proof.
  unfold parse_response, read_response_head.
  destruct (read_line bufsize s) as [[line s1]|]; [|discriminate].
  destruct (parse_status_line line) as [e|sl] eqn:E1.
  { intros ->. now apply parse_status_line_no_fuel in E1. }
  destruct (read_mime_header bufsize s1) as [e|[h s2]] eqn:E2.
  { intros ->. now apply read_mime_header_total in E2. }
  destruct (read_transfer meth sl _) as [e|r] eqn:E3.
  { intros ->. now apply read_transfer_no_fuel in E3. }
  unfold read_body. destruct (r_framing r); cbn [b_end]; try discriminate.
  - unfold dechunk_all. pose proof (dechunk_fuel_suffices (S (length s2)) bufsize 0 s2 ltac:(lia)) as Hd.
    destruct (dechunk (S (length s2)) bufsize 0 s2) as [d [rest|e]]; cbn [snd] in Hd.
    + unfold read_trailer. destruct rest as [|c1 [|c2 rest']]; cbn [b_end]; try discriminate.
      destruct (beqb c1 CR && beqb c2 LF); [cbn; discriminate|].
      destruct (negb _); [cbn; discriminate|].
      destruct (read_mime_header bufsize (c1 :: c2 :: rest')) as [e|[t r']] eqn:Et; [|cbn; discriminate].
      destruct e; cbn [b_end]; try discriminate. now apply read_mime_header_total in Et.
    + cbn [b_end]. congruence.
  - destruct (Z.ltb _ _); cbn; discriminate.
Qed.

(* ====================================================================== *)
(* message boundaries: a self-delimited message is parsed the same whatever follows it *)
(* ====================================================================== *)

Lemma cut_byte_app c s a b t :
  cut_byte c s = Some (a, b) -> cut_byte c (s ++ t) = Some (a, b ++ t).
Proof.
  intros H. apply cut_byte_some in H as [-> Hm]. rewrite <- app_assoc. cbn [app].
  now apply cut_byte_app_hit.
Qed.

Lemma read_line_lf bs s a r :
  cut_byte LF s = Some (a, r) -> read_line bs s = Some (strip_cr a, r).
Proof. intros H. unfold read_line. destruct s; [discriminate|]. now rewrite H. Qed.

Lemma read_line_cases bs s line r :
  read_line bs s = Some (line, r) ->
  (exists a, cut_byte LF s = Some (a, r) /\ line = strip_cr a) \/
  (cut_byte LF s = None /\ r = [] /\ line = s /\ s <> []).
Proof.
  unfold read_line. destruct s as [|x s']; [discriminate|].
  destruct (cut_byte LF (x :: s')) as [[a b]|] eqn:E.
  - intros H; inversion H; subst. left. eauto.
  - destruct (unterminated_lost _ _ _); intros H; inversion H; subst.
    right. repeat split. discriminate.
Qed.

Lemma drop_while_app f s t :
  drop_while f s <> [] -> drop_while f (s ++ t) = drop_while f s ++ t.
Proof.
  induction s as [|x s IH]; cbn [drop_while app]; [contradiction|].
  destruct (f x); [exact IH|reflexivity].
Qed.

Lemma mime_loop_nil f bs m res : mime_loop f bs m [] <> inr res.
Proof. destruct f; cbn; discriminate. Qed.

Lemma cont_lines_stable bs : forall f buf s kv r',
  cont_lines f bs buf s = FOk (kv, r') -> r' <> [] ->
  forall f' t, f <= f' -> cont_lines f' bs buf (s ++ t) = FOk (kv, r' ++ t).
Proof.
  induction f as [|f IH]; intros buf s kv r' H Hr f' t Hf; [discriminate|].
  destruct f' as [|f']; [lia|]. cbn [cont_lines] in *.
  destruct s as [|x s0].
  - inversion H; subst. contradiction.
  - cbn [app]. destruct (is_sp_tab x) eqn:Ex.
    + change (x :: s0 ++ t) with ((x :: s0) ++ t).
      destruct (read_line bs (drop_while is_sp_tab (x :: s0))) as [[l r]|] eqn:El.
      * apply read_line_cases in El as [(a & Ec & ->)|(Ec & -> & -> & Hne)].
        -- rewrite drop_while_app by (intros E0; rewrite E0 in Ec; discriminate).
           rewrite (read_line_lf bs _ _ _ (cut_byte_app _ _ _ _ t Ec)).
           apply IH; [assumption|assumption|lia].
        -- destruct f; [discriminate|]. cbn in H. inversion H; subst. contradiction.
      * inversion H; subst. contradiction.
    + inversion H; subst. reflexivity.
Qed.

Lemma mime_loop_stable bs : forall f m s m' r,
  mime_loop f bs m s = inr (m', r) ->
  forall f' t, f <= f' -> mime_loop f' bs m (s ++ t) = inr (m', r ++ t).
Proof.
  induction f as [|f IH]; intros m s m' r H f' t Hf; [discriminate|].
  destruct f' as [|f']; [lia|]. cbn [mime_loop] in *.
  destruct (read_line bs s) as [[line r0]|] eqn:El; [|discriminate].
  apply read_line_cases in El as [(a & Ec & ->)|(Ec & -> & -> & Hne)].
  - rewrite (read_line_lf bs _ _ _ (cut_byte_app _ _ _ _ t Ec)).
    destruct (is_nil (strip_cr a)); [inversion H; reflexivity|].
    destruct (negb (mem_byte COLON (strip_cr a))); [discriminate|].
    destruct (cont_lines (S (length r0)) bs (trim_sp_tab (strip_cr a)) r0) as [[kv r1]|] eqn:Ec2;
      [|discriminate].
    destruct (cut_byte COLON kv) as [[k v]|] eqn:Ek; [|discriminate].
    destruct (canonical_key k) as [key|] eqn:Ekey; [|discriminate].
    destruct (forallb valid_value_byte v) eqn:Ev; [|discriminate].
    assert (Hr1 : r1 <> []).
    { intros ->. now apply mime_loop_nil in H. }
    rewrite (cont_lines_stable bs _ _ _ _ _ Ec2 Hr1 (S (length (r0 ++ t))) t)
      by (rewrite app_length; lia).
    rewrite Ek, Ekey, Ev. apply IH; [assumption|lia].
  - destruct (is_nil s) eqn:En; [destruct s; [contradiction|discriminate]|].
    destruct (negb (mem_byte COLON s)); [discriminate|].
    cbn [length cont_lines] in H.
    destruct (cut_byte COLON (trim_sp_tab s)) as [[k v]|]; [|discriminate].
    destruct (canonical_key k); [|discriminate].
    destruct (forallb valid_value_byte v); [|discriminate].
    now apply mime_loop_nil in H.
Qed.

Lemma read_mime_header_stable bs s m r t :
  read_mime_header bs s = inr (m, r) -> read_mime_header bs (s ++ t) = inr (m, r ++ t).
Proof.
  unfold read_mime_header. destruct s as [|x s'].
  - intros H. now apply mime_loop_nil in H.
  - cbn [app]. destruct (is_sp_tab x).
    { destruct (read_line bs (x :: s')); [discriminate|]. destruct (_ <=? 80); discriminate. }
    intros H. change (x :: s' ++ t) with ((x :: s') ++ t).
    eapply mime_loop_stable; [exact H|]. rewrite app_length. lia.
Qed.

Lemma read_chunk_line_stable bufsize s line rest t :
  read_chunk_line bufsize s = inr (line, rest) ->
  read_chunk_line bufsize (s ++ t) = inr (line, rest ++ t).
Proof.
  intros H. pose proof (read_chunk_line_inv _ _ _ _ H) as (Hs & H1 & Hle).
  unfold read_chunk_line in *.
  destruct (cut_byte LF (firstn bufsize s)) as [[a b]|] eqn:E.
  - rewrite firstn_app. rewrite (cut_byte_app _ _ _ _ _ E).
    destruct (max_line_length <=? S (length a)); [discriminate|].
    assert (Hline : line = firstn (S (length a)) s) by congruence.
    assert (Hn : length line = S (length a)).
    { apply cut_byte_some in E as [E _].
      pose proof (firstn_length bufsize s) as Hf. rewrite E, app_length in Hf. cbn [length] in Hf.
      rewrite Hline, firstn_length. lia. }
    rewrite <- Hn. rewrite Hs at 1 2. rewrite <- app_assoc.
    now rewrite firstn_app_exact, skipn_app_exact.
  - destruct (bufsize <=? length s); discriminate.
Qed.

Lemma dechunk_stable : forall f bufsize ex s d rest,
  dechunk f bufsize ex s = (d, CEof rest) ->
  forall f' t, f <= f' -> dechunk f' bufsize ex (s ++ t) = (d, CEof (rest ++ t)).
Proof.
  induction f as [|f IH]; intros bufsize ex s d rest H f' t Hf; [discriminate|].
  destruct f' as [|f']; [lia|]. cbn [dechunk] in *.
  destruct (read_chunk_line bufsize s) as [e|[line r0]] eqn:El; [inversion H|].
  rewrite (read_chunk_line_stable _ _ _ _ t El).
  destruct (parse_hex_uint _) as [n| | |]; try (inversion H; fail).
  destruct (n =? 0)%N; [inversion H; reflexivity|].
  destruct (_ >? excess_limit)%Z; [inversion H|].
  destruct (N.ltb_spec (N.of_nat (length r0)) n) as [Hlt|Hge]; [inversion H|].
  destruct (N.ltb_spec (N.of_nat (length (r0 ++ t))) n) as [Hlt'|_].
  { rewrite app_length in Hlt'. lia. }
  assert (Hk : N.to_nat n <= length r0) by lia.
  rewrite firstn_app. replace (N.to_nat n - length r0) with 0 by lia.
  cbn [firstn]. rewrite app_nil_r.
  rewrite skipn_app. replace (N.to_nat n - length r0) with 0 by lia. cbn [skipn].
  destruct (skipn (N.to_nat n) r0) as [|c1 [|c2 r1]]; try (inversion H; fail).
  cbn [app]. destruct (beqb c1 CR && beqb c2 LF); [|inversion H].
  destruct (dechunk f bufsize _ r1) as [d1 e1] eqn:Ed. inversion H; subst.
  rewrite (IH _ _ _ _ _ Ed f' t ltac:(lia)). reflexivity.
Qed.

Lemma has_prefix_app p a b : has_prefix p a = true -> has_prefix p (a ++ b) = true.
Proof.
  intros H. apply has_prefix_spec in H as [r ->]. rewrite <- app_assoc. apply has_prefix_refl_app.
Qed.

Lemma contains_sub_app p a b : contains_sub p a = true -> contains_sub p (a ++ b) = true.
Proof.
  unfold contains_sub, index_sub. generalize 0 as n.
  induction a as [|x a IH]; intros n H.
  - cbn [index_sub_from] in H. destruct (has_prefix p []) eqn:E; [|discriminate].
    destruct p; [|discriminate]. cbn [app]. destruct b; reflexivity.
  - cbn [index_sub_from app] in *. destruct (has_prefix p (x :: a)) eqn:E.
    + change (x :: a ++ b) with ((x :: a) ++ b). now rewrite (has_prefix_app _ _ b E).
    + destruct (has_prefix p (x :: a ++ b)); [reflexivity|]. now apply IH.
Qed.

Lemma see_double_crlf_stable bufsize s t :
  see_upcoming_double_crlf bufsize s = true -> see_upcoming_double_crlf bufsize (s ++ t) = true.
Proof.
  unfold see_upcoming_double_crlf. intros H. rewrite firstn_app. now apply contains_sub_app.
Qed.

Lemma read_trailer_stable bufsize s tr rest t :
  read_trailer bufsize s = inr (tr, rest) -> read_trailer bufsize (s ++ t) = inr (tr, rest ++ t).
Proof.
  unfold read_trailer. destruct s as [|c1 [|c2 s']]; try discriminate.
  cbn [app]. destruct (beqb c1 CR && beqb c2 LF).
  - intros H. inversion H; subst. reflexivity.
  - change (c1 :: c2 :: s' ++ t) with ((c1 :: c2 :: s') ++ t).
    destruct (see_upcoming_double_crlf bufsize (c1 :: c2 :: s')) eqn:Es; [|discriminate].
    rewrite (see_double_crlf_stable _ _ t Es). cbn [negb].
    destruct (read_mime_header bufsize (c1 :: c2 :: s')) as [e|[h r']] eqn:Em.
    + destruct e; discriminate.
    + intros H. inversion H; subst. now rewrite (read_mime_header_stable _ _ _ _ t Em).
Qed.

Lemma read_trailer_not_ok bufsize s : read_trailer bufsize s <> inl BOk.
Proof.
  unfold read_trailer. destruct s as [|c1 [|c2 s']]; try discriminate.
  destruct (beqb c1 CR && beqb c2 LF); [discriminate|].
  destruct (negb _); [discriminate|].
  destruct (read_mime_header _ _) as [e|[h r']]; [destruct e|]; discriminate.
Qed.

Lemma dechunk_not_ok : forall f bufsize ex s, snd (dechunk f bufsize ex s) <> CErr BOk.
Proof.
  induction f as [|f IH]; intros bufsize ex s; [cbn; discriminate|].
  cbn [dechunk]. destruct (read_chunk_line bufsize s) as [e|[line rest]] eqn:E.
  - unfold read_chunk_line in E. destruct (cut_byte LF (firstn bufsize s)) as [[a b]|].
    + destruct (max_line_length <=? S (length a)); inversion E; cbn; discriminate.
    + destruct (bufsize <=? length s); inversion E; cbn; discriminate.
  - destruct (parse_hex_uint _) as [n| | |]; cbn [snd]; try discriminate.
    destruct (n =? 0)%N; [cbn; discriminate|].
    destruct (_ >? excess_limit)%Z; [cbn; discriminate|].
    destruct (_ <? n)%N; [cbn; discriminate|].
    destruct (skipn (N.to_nat n) rest) as [|c1 [|c2 rest']]; try (cbn; discriminate).
    destruct (beqb c1 CR && beqb c2 LF); [|cbn; discriminate].
    specialize (IH bufsize (excess_after ex (length line) n) rest').
    destruct (dechunk f bufsize _ rest') as [d e]. exact IH.
Qed.

Definition with_rest (b : body_result) (r : bytes) : body_result :=
  {| b_data := b_data b; b_end := b_end b; b_trailer := b_trailer b; b_rest := r |}.

Lemma read_body_stable bufsize r s t :
  b_end (read_body bufsize r s) = BOk -> r_framing r <> FrUntilClose ->
  read_body bufsize r (s ++ t) =
    with_rest (read_body bufsize r s) (b_rest (read_body bufsize r s) ++ t).
Proof.
  unfold read_body, with_rest. destruct (r_framing r) as [| |n|]; intros He Hf.
  - reflexivity.
  - unfold dechunk_all in *.
    destruct (dechunk (S (length s)) bufsize 0 s) as [d [rest|e]] eqn:Ed.
    + rewrite (dechunk_stable _ _ _ _ _ _ Ed (S (length (s ++ t))) t)
        by (rewrite app_length; lia).
      destruct (read_trailer bufsize rest) as [e|[tr rest']] eqn:Et.
      * cbn [b_end] in He. subst e. now apply read_trailer_not_ok in Et.
      * rewrite (read_trailer_stable _ _ _ _ t Et). reflexivity.
    + cbn [b_end] in He. subst e.
      pose proof (dechunk_not_ok (S (length s)) bufsize 0 s) as Hn. rewrite Ed in Hn.
      now cbn in Hn.
  - destruct (Z.ltb_spec (Z.of_nat (length s)) n) as [Hlt|Hge]; [cbn in He; discriminate|].
    destruct (Z.ltb_spec (Z.of_nat (length (s ++ t))) n) as [Hlt'|_].
    { rewrite app_length in Hlt'. lia. }
    cbn [b_data b_end b_trailer b_rest].
    rewrite firstn_app, skipn_app.
    replace (Z.to_nat n - length s) with 0 by lia. cbn [firstn skipn]. now rewrite app_nil_r.
  - contradiction.
Qed.

Lemma read_response_head_stable meth bs s r rest t :
  read_response_head meth bs s = inr (r, rest) ->
  read_response_head meth bs (s ++ t) = inr (r, rest ++ t).
Proof.
  unfold read_response_head.
  destruct (read_line bs s) as [[line s1]|] eqn:El; [|discriminate].
  apply read_line_cases in El as [(a & Ec & ->)|(Ec & -> & -> & Hne)].
  - rewrite (read_line_lf bs _ _ _ (cut_byte_app _ _ _ _ t Ec)).
    destruct (parse_status_line (strip_cr a)) as [e|sl]; [discriminate|].
    destruct (read_mime_header bs s1) as [e|[h s2]] eqn:Em; [discriminate|].
    rewrite (read_mime_header_stable _ _ _ _ t Em).
    destruct (read_transfer meth sl _) as [e|r0]; [discriminate|].
    intros H. inversion H; subst. reflexivity.
  - destruct (parse_status_line s); [discriminate|].
    cbn. discriminate.
Qed.

(* If a stream parses into a response whose body is self-delimited (no body, Content-Length
   or chunked) and ends cleanly, then with ANY bytes appended the very same response, body
   and trailers are parsed, and exactly the appended bytes are left over in addition. *)
Theorem parse_deterministic_prefix meth bufsize s r b t :
  parse_response meth bufsize s = Accepted r b ->
  b_end b = BOk -> r_framing r <> FrUntilClose ->
  parse_response meth bufsize (s ++ t) = Accepted r (with_rest b (b_rest b ++ t)).
Proof.
  unfold parse_response.
  destruct (read_response_head meth bufsize s) as [e|[r0 rest]] eqn:Eh; [discriminate|].
  intros H He Hf. inversion H; subst.
  rewrite (read_response_head_stable _ _ _ _ _ t Eh).
  now rewrite read_body_stable.
Qed.

(* Pipelining: if [s1] is exactly one complete self-delimited response, then in [s1 ++ s2]
   the first message ends exactly where [s2] begins: the second parse sees s2 and only s2,
   so no byte of one response is attributed to the other. *)
Theorem pipelined_responses_separate m1 m2 bufsize s1 s2 r1 b1 :
  parse_response m1 bufsize s1 = Accepted r1 b1 ->
  b_end b1 = BOk -> r_framing r1 <> FrUntilClose -> b_rest b1 = [] ->
  exists b1',
    parse_response m1 bufsize (s1 ++ s2) = Accepted r1 b1' /\
    b_data b1' = b_data b1 /\ b_trailer b1' = b_trailer b1 /\ b_end b1' = BOk /\
    b_rest b1' = s2 /\
    parse_response m2 bufsize (b_rest b1') = parse_response m2 bufsize s2.
Proof.
  intros H He Hf Hr. exists (with_rest b1 (b_rest b1 ++ s2)).
  rewrite (parse_deterministic_prefix _ _ _ _ _ s2 H He Hf).
  rewrite Hr. cbn. repeat split; auto.
Qed.
