(* Proofs/HeaderMergeProofs.v - C16: lemmas about Model/HeaderMerge.v (API calls -> request-level
   and client-level maps -> the header map the protocol writer receives) and their composition
   with the collectors. *)
From ReqV Require Import Lib.Bytes Lib.BytesFacts Model.HeaderOrder Model.HeaderCollect Model.HeaderMerge
  Proofs.HeaderOrderProofs Proofs.HeaderCollectProofs Proofs.HeaderWireProofs.
From Coq Require Import Lia Permutation.

(* ---------- hset: Go map assignment ---------- *)
Lemma has_key_true h k : has_key h k = true <-> In k (map fst h).
Proof.
  unfold has_key. rewrite existsb_exists. split.
  - intros (x & Hx & E). apply bytes_eqb_eq in E. subst. now apply in_map.
  - intros H. apply in_map_iff in H as (x & <- & Hx). exists x. split; [assumption|apply bytes_eqb_refl].
Qed.

Lemma has_key_false h k : has_key h k = false <-> ~ In k (map fst h).
Proof. rewrite <- has_key_true. destruct (has_key h k); split; intros H; congruence. Qed.

Lemma hget_none h k : ~ In k (map fst h) -> hget h k = None.
Proof.
  induction h as [|x t IH]; [reflexivity|]. cbn [map hget]. intros H.
  destruct (bytes_eqb (fst x) k) eqn:E.
  - apply bytes_eqb_eq in E. exfalso. apply H. now left.
  - apply IH. intros C. apply H. now right.
Qed.

Lemma hget_app_miss h k t : ~ In k (map fst h) -> hget (h ++ t) k = hget t k.
Proof.
  induction h as [|x r IH]; [reflexivity|]. cbn [map app hget]. intros H.
  destruct (bytes_eqb (fst x) k) eqn:E.
  - apply bytes_eqb_eq in E. exfalso. apply H. now left.
  - apply IH. intros C. apply H. now right.
Qed.

Lemma hget_app_other h k k' vs : k' <> k -> hget (h ++ [(k, vs)]) k' = hget h k'.
Proof.
  intros N. induction h as [|x r IH]; cbn [app hget fst].
  - destruct (bytes_eqb k k') eqn:E; [|reflexivity]. apply bytes_eqb_eq in E. congruence.
  - destruct (bytes_eqb (fst x) k'); [reflexivity|exact IH].
Qed.

Lemma hget_hset_same h k vs : hget (hset h k vs) k = Some vs.
Proof.
  unfold hset. destruct (has_key h k) eqn:E.
  - apply has_key_true in E. induction h as [|x t IH]; [destruct E|].
    cbn [map hget]. destruct (bytes_eqb (fst x) k) eqn:Ex.
    + cbn [fst]. now rewrite bytes_eqb_refl.
    + rewrite Ex. apply IH. cbn [map] in E. destruct E as [E|E]; [|assumption].
      apply bytes_eqb_neq in Ex. congruence.
  - apply has_key_false in E. rewrite hget_app_miss by assumption. cbn. now rewrite bytes_eqb_refl.
Qed.

Lemma hget_hset_other h k vs k' : k' <> k -> hget (hset h k vs) k' = hget h k'.
Proof.
  intros N. unfold hset. destruct (has_key h k).
  - induction h as [|x t IH]; [reflexivity|]. cbn [map hget].
    destruct (bytes_eqb (fst x) k) eqn:Ex.
    + apply bytes_eqb_eq in Ex. cbn [fst]. rewrite <- Ex in N.
      assert (bytes_eqb k k' = false) as E1 by (apply bytes_eqb_neq; congruence).
      assert (bytes_eqb (fst x) k' = false) as E2 by (apply bytes_eqb_neq; congruence).
      rewrite E1, E2. exact IH.
    + destruct (bytes_eqb (fst x) k'); [reflexivity|exact IH].
  - now apply hget_app_other.
Qed.

Lemma hvals_hset_same h k vs : hvals (hset h k vs) k = vs.
Proof. unfold hvals. now rewrite hget_hset_same. Qed.

Lemma hvals_hset_other h k vs k' : k' <> k -> hvals (hset h k vs) k' = hvals h k'.
Proof. intros N. unfold hvals. now rewrite hget_hset_other. Qed.

Lemma hset_keys h k vs :
  map fst (hset h k vs) = if has_key h k then map fst h else map fst h ++ [k].
Proof.
  unfold hset. destruct (has_key h k).
  - rewrite map_map. apply map_ext_in. intros x _.
    destruct (bytes_eqb (fst x) k) eqn:E; [|reflexivity]. apply bytes_eqb_eq in E. now cbn.
  - now rewrite map_app.
Qed.

Lemma hset_nodup h k vs : NoDup (map fst h) -> NoDup (map fst (hset h k vs)).
Proof.
  intros H. rewrite hset_keys. destruct (has_key h k) eqn:E; [assumption|].
  apply has_key_false in E.
  eapply Permutation_NoDup; [apply Permutation_cons_append|]. now constructor.
Qed.

Lemma in_hset_other h k vs k' vs' :
  k' <> k -> (In (k', vs') (hset h k vs) <-> In (k', vs') h).
Proof.
  intros N. unfold hset. destruct (has_key h k).
  - rewrite in_map_iff. split.
    + intros (x & Hx & Hin). destruct (bytes_eqb (fst x) k); [injection Hx as E _; congruence|].
      now subst.
    + intros Hin. exists (k', vs'). split; [|assumption]. cbn [fst].
      assert (bytes_eqb k' k = false) as -> by now apply bytes_eqb_neq. reflexivity.
  - rewrite in_app_iff. cbn. split; [intros [H|[H|[]]]; [assumption|injection H as E _; congruence]|auto].
Qed.

Lemma in_hset h k vs x : In x (hset h k vs) -> In x h \/ x = (k, vs).
Proof.
  unfold hset. destruct (has_key h k).
  - intros H. apply in_map_iff in H as (y & Hy & Hin).
    destruct (bytes_eqb (fst y) k); [now right|left; now subst].
  - intros H. apply in_app_or in H as [H|[H|[]]]; auto.
Qed.

Lemma hget_in h k vs : NoDup (map fst h) -> In (k, vs) h -> hget h k = Some vs.
Proof.
  induction h as [|x t IH]; intros Hnd Hin; [destruct Hin|].
  cbn [map] in Hnd. inversion Hnd as [|? ? Hn Hnd']; subst. cbn [hget].
  destruct Hin as [->|Hin].
  - cbn [fst]. now rewrite bytes_eqb_refl.
  - destruct (bytes_eqb (fst x) k) eqn:E; [|now apply IH].
    apply bytes_eqb_eq in E. exfalso. apply Hn. rewrite E. apply in_map_iff. now exists (k, vs).
Qed.

Lemma hget_some_in h k vs : hget h k = Some vs -> In (k, vs) h.
Proof.
  induction h as [|x t IH]; [discriminate|]. cbn [hget].
  destruct (bytes_eqb (fst x) k) eqn:E.
  - apply bytes_eqb_eq in E. intros [= <-]. left. destruct x; cbn in *; congruence.
  - intros H. right. now apply IH.
Qed.

(* ---------- the setters ---------- *)
Lemma apply_ops_snoc ops o : apply_ops (ops ++ [o]) = apply_op (apply_ops ops) o.
Proof. unfold apply_ops. now rewrite fold_left_app. Qed.

Lemma apply_op_nodup h o : NoDup (map fst h) -> NoDup (map fst (apply_op h o)).
Proof. destruct o; cbn [apply_op]; apply hset_nodup. Qed.

(* the map built by the setters has distinct keys (it is a Go map) *)
Lemma apply_ops_nodup ops : NoDup (map fst (apply_ops ops)).
Proof.
  induction ops as [|o t IH] using rev_ind; [constructor|].
  rewrite apply_ops_snoc. now apply apply_op_nodup.
Qed.

(* SetHeader(k, v) as the last call on that name: exactly the value v under the canonical key *)
Lemma set_header_replaces ops k v : hvals (apply_ops (ops ++ [OpSet k v])) (mime_key k) = [v].
Proof. rewrite apply_ops_snoc. cbn [apply_op]. apply hvals_hset_same. Qed.

(* SetHeaderNonCanonical(k, v): one more value under exactly k, every other key untouched *)
Lemma set_header_non_canonical_appends ops k v :
  hvals (apply_ops (ops ++ [OpNC k v])) k = hvals (apply_ops ops) k ++ [v] /\
  forall k', k' <> k -> hvals (apply_ops (ops ++ [OpNC k v])) k' = hvals (apply_ops ops) k'.
Proof.
  rewrite apply_ops_snoc. cbn [apply_op]. split; [apply hvals_hset_same|].
  intros k' N. now apply hvals_hset_other.
Qed.

(* ---------- parseRequestHeader ---------- *)
Lemma merge_step_nodup acc x : NoDup (map fst acc) -> NoDup (map fst (merge_step acc x)).
Proof. unfold merge_step. destruct (is_nil _); [apply hset_nodup|auto]. Qed.

Lemma merge_client_nodup ch : forall rh, NoDup (map fst rh) -> NoDup (map fst (merge_client rh ch)).
Proof.
  unfold merge_client. induction ch as [|x t IH]; intros rh H; [assumption|].
  cbn [fold_left]. apply IH. now apply merge_step_nodup.
Qed.

(* a request-level header with at least one value survives the merge untouched *)
Lemma merge_keeps_request_level ch : forall rh k vs,
  NoDup (map fst rh) -> In (k, vs) rh -> vs <> [] -> In (k, vs) (merge_client rh ch).
Proof.
  unfold merge_client. induction ch as [|x t IH]; intros rh k vs Hnd Hin Hne; [assumption|].
  cbn [fold_left]. apply IH; [now apply merge_step_nodup| |assumption].
  unfold merge_step. destruct (is_nil (hvals rh (fst x))) eqn:E; [|assumption].
  apply in_hset_other; [|assumption]. intros ->.
  unfold hvals in E. rewrite (hget_in rh (fst x) vs Hnd Hin) in E. destruct vs; [congruence|discriminate].
Qed.

Lemma merge_rest_miss t : forall acc k,
  ~ In k (map fst t) -> hvals (fold_left merge_step t acc) k = hvals acc k.
Proof.
  induction t as [|x t IH]; intros acc k H; [reflexivity|]. cbn [fold_left].
  rewrite IH by (intros C; apply H; now right).
  unfold merge_step. destruct (is_nil _); [|reflexivity].
  apply hvals_hset_other. intros ->. apply H. now left.
Qed.

(* a client-level header is used exactly when the request has no value under that very key *)
Lemma merge_adds_client_level ch : forall rh k vs,
  NoDup (map fst ch) -> In (k, vs) ch -> hvals rh k = [] -> hvals (merge_client rh ch) k = vs.
Proof.
  unfold merge_client. induction ch as [|x t IH]; intros rh k vs Hnd Hin He; [destruct Hin|].
  cbn [map] in Hnd. inversion Hnd as [|? ? Hn Hnd']; subst. cbn [fold_left].
  destruct Hin as [->|Hin].
  - cbn [fst] in Hn. rewrite merge_rest_miss by assumption.
    unfold merge_step. cbn [fst snd]. rewrite He. cbn. apply hvals_hset_same.
  - apply IH; [assumption..|].
    assert (fst x <> k) as N.
    { intros E. apply Hn. rewrite E. apply in_map_iff. now exists (k, vs). }
    unfold merge_step. destruct (is_nil _); [|assumption].
    rewrite hvals_hset_other by congruence. assumption.
Qed.

Lemma merge_client_ignored ch : forall rh k,
  hvals rh k <> [] -> hvals (merge_client rh ch) k = hvals rh k.
Proof.
  unfold merge_client. induction ch as [|x t IH]; intros rh k Hne; [reflexivity|].
  cbn [fold_left].
  assert (E : hvals (merge_step rh x) k = hvals rh k).
  { unfold merge_step. destruct (is_nil (hvals rh (fst x))) eqn:E; [|reflexivity].
    apply hvals_hset_other. intros ->. destruct (hvals rh (fst x)); [congruence|discriminate]. }
  rewrite IH; rewrite E; auto.
Qed.

(* the merge invents nothing *)
Lemma merge_no_invention ch : forall rh x, In x (merge_client rh ch) -> In x rh \/ In x ch.
Proof.
  unfold merge_client. induction ch as [|y t IH]; intros rh x H; [now left|].
  cbn [fold_left] in H. apply IH in H as [H|H]; [|right; now right].
  unfold merge_step in H. destruct (is_nil _); [|now left].
  apply in_hset in H as [H|H]; [now left|]. subst x. right. left. now destruct y.
Qed.

(* ---------- cookies and the order wrappers touch only their own keys ---------- *)
Lemma add_cookies_other cookies : forall h k vs,
  k <> cookie_key -> (In (k, vs) (fold_left add_cookie cookies h) <-> In (k, vs) h).
Proof.
  induction cookies as [|c t IH]; intros h k vs N; [reflexivity|]. cbn [fold_left].
  rewrite IH by assumption. unfold add_cookie. now apply in_hset_other.
Qed.

Lemma add_cookies_nodup cookies : forall h, NoDup (map fst h) -> NoDup (map fst (fold_left add_cookie cookies h)).
Proof.
  induction cookies as [|c t IH]; intros h H; [assumption|]. cbn [fold_left]. apply IH.
  unfold add_cookie. now apply hset_nodup.
Qed.

Lemma run_wrappers_other key regs : forall h k vs,
  k <> key -> (In (k, vs) (run_wrappers key regs h) <-> In (k, vs) h).
Proof.
  unfold run_wrappers. induction (rev regs) as [|o t IH]; intros h k vs N; [reflexivity|].
  cbn [fold_left]. rewrite IH by assumption. now apply in_hset_other.
Qed.

Lemma run_wrappers_hvals_other key regs : forall h k,
  k <> key -> hvals (run_wrappers key regs h) k = hvals h k.
Proof.
  unfold run_wrappers. induction (rev regs) as [|o t IH]; intros h k N; [reflexivity|].
  cbn [fold_left]. rewrite IH by assumption. now apply hvals_hset_other.
Qed.

Lemma run_wrappers_nodup key regs : forall h, NoDup (map fst h) -> NoDup (map fst (run_wrappers key regs h)).
Proof.
  unfold run_wrappers. induction (rev regs) as [|o t IH]; intros h H; [assumption|].
  cbn [fold_left]. apply IH. now apply hset_nodup.
Qed.

(* the wrapper registered FIRST decides (it runs last); without one the list is left alone *)
Lemma run_wrappers_first_wins key o regs h : hvals (run_wrappers key (o :: regs) h) key = o.
Proof.
  unfold run_wrappers. cbn [rev]. rewrite fold_left_app. cbn [fold_left]. apply hvals_hset_same.
Qed.

Lemma run_wrappers_none key h : run_wrappers key [] h = h.
Proof. reflexivity. Qed.

Lemma order_keys_differ : header_order_key <> pseudo_header_order_key /\
  cookie_key <> header_order_key /\ cookie_key <> pseudo_header_order_key.
Proof. repeat split; intros E; vm_compute in E; discriminate. Qed.

(* ---------- what the protocol writer receives ---------- *)
Lemma transport_hdr_nodup rh ch cookies ro rp :
  NoDup (map fst rh) -> NoDup (map fst (transport_hdr rh ch cookies ro rp)).
Proof.
  intros H. unfold transport_hdr. apply run_wrappers_nodup, run_wrappers_nodup, add_cookies_nodup.
  now apply merge_client_nodup.
Qed.

Lemma transport_hdr_other rh ch cookies ro rp k vs :
  k <> cookie_key -> k <> header_order_key -> k <> pseudo_header_order_key ->
  (In (k, vs) (transport_hdr rh ch cookies ro rp) <-> In (k, vs) (merge_client rh ch)).
Proof.
  intros N1 N2 N3. unfold transport_hdr.
  rewrite run_wrappers_other by assumption. rewrite run_wrappers_other by assumption.
  now apply add_cookies_other.
Qed.

(* the effective order list: the first registered client-level list if there is one (it REPLACES
   the request's), otherwise what the merge left under the bookkeeping key *)
Lemma transport_order_client rh ch cookies o ro rp :
  order_list (transport_hdr rh ch cookies (o :: ro) rp) = o.
Proof.
  unfold order_list, transport_hdr. destruct order_keys_differ as [N _].
  rewrite run_wrappers_hvals_other by exact N. apply run_wrappers_first_wins.
Qed.

Lemma transport_porder_client rh ch cookies ro o rp :
  porder_list (transport_hdr rh ch cookies ro (o :: rp)) = o.
Proof. unfold porder_list, transport_hdr. apply run_wrappers_first_wins. Qed.

Lemma add_cookies_hvals_other cookies : forall h k,
  k <> cookie_key -> hvals (fold_left add_cookie cookies h) k = hvals h k.
Proof.
  induction cookies as [|c t IH]; intros h k N; [reflexivity|]. cbn [fold_left].
  rewrite IH by assumption. unfold add_cookie. now apply hvals_hset_other.
Qed.

Lemma transport_order_request rh ch cookies rp :
  order_list (transport_hdr rh ch cookies [] rp) = hvals (merge_client rh ch) header_order_key.
Proof.
  unfold order_list, transport_hdr. destruct order_keys_differ as (N1 & N2 & N3).
  rewrite run_wrappers_hvals_other by exact N1. rewrite run_wrappers_none.
  apply add_cookies_hvals_other. congruence.
Qed.

(* ---------- API level: a header the caller set reaches the wire ---------- *)
Definition req_of (m host path scheme : bytes) (h : list kv) (clen : Z) (cmp : bool) : creq :=
  mk_creq m host path scheme h clen cmp.

Lemma not_h1_excluded_not_special k :
  mem_bytes k h1_exclude = false -> k <> header_order_key /\ k <> pseudo_header_order_key.
Proof.
  intros H. destruct bookkeeping_in_h1_exclude as [B1 B2]. split; intros ->; congruence.
Qed.

(* HTTP/1.1, request level: every value of a header set on the request is on the wire under the
   key as the setters stored it (canonical for SetHeader, verbatim for SetHeaderNonCanonical),
   whatever the client level, the cookies and the order lists are *)
Lemma api_h1_request_level m host path scheme clen cmp rh ch cookies ro rp k vs v :
  NoDup (map fst rh) -> In (k, vs) rh -> In v vs ->
  mem_bytes k h1_exclude = false -> valid_field_name k = true -> k <> cookie_key ->
  In (k, sanitize v) (h1_lines (req_of m host path scheme (transport_hdr rh ch cookies ro rp) clen cmp)).
Proof.
  intros Hnd Hin Hv He Hval Hc. destruct (not_h1_excluded_not_special k He) as [N1 N2].
  apply (h1_spelling_preserved _ k vs v); try assumption. cbn [req_of c_hdr].
  apply transport_hdr_other; try assumption.
  apply merge_keeps_request_level; try assumption. intros ->. destruct Hv.
Qed.

(* HTTP/1.1, client level: used when the request has no value under that key *)
Lemma api_h1_client_level m host path scheme clen cmp rh ch cookies ro rp k vs v :
  NoDup (map fst rh) -> NoDup (map fst ch) -> In (k, vs) ch -> hvals rh k = [] -> In v vs ->
  mem_bytes k h1_exclude = false -> valid_field_name k = true -> k <> cookie_key ->
  In (k, sanitize v) (h1_lines (req_of m host path scheme (transport_hdr rh ch cookies ro rp) clen cmp)).
Proof.
  intros Hnd Hndc Hin Hr Hv He Hval Hc. destruct (not_h1_excluded_not_special k He) as [N1 N2].
  apply (h1_spelling_preserved _ k vs v); try assumption. cbn [req_of c_hdr].
  apply transport_hdr_other; try assumption.
  pose proof (merge_adds_client_level ch rh k vs Hndc Hin Hr) as E.
  unfold hvals in E. destruct (hget (merge_client rh ch) k) eqn:G.
  - subst. now apply hget_some_in.
  - subst vs. destruct Hv.
Qed.

(* HTTP/2 and HTTP/3, request level: an ordinary field (not forbidden, not User-Agent, not Cookie)
   is on the wire with every value, the name lower-cased *)
Lemma in_lower_lines l ls : In l ls -> In (to_lower (fst l), snd l) (lower_lines ls).
Proof. intros H. unfold lower_lines. apply in_map_iff. now exists l. Qed.

Lemma api_h2_request_level m host path scheme clen cmp rh ch cookies ro rp k vs v :
  NoDup (map fst rh) -> In (k, vs) rh -> In v vs ->
  is_excluded k = false -> is_ua k = false -> equal_fold k (bs "cookie") = false ->
  In (to_lower k, v) (h2_lines (req_of m host path scheme (transport_hdr rh ch cookies ro rp) clen cmp)).
Proof.
  intros Hnd Hin Hv He Hu Hc.
  eapply Permutation_in; [symmetry; apply h2_each_value_exactly_once|].
  apply (in_lower_lines (k, v)). apply in_or_app. right. apply in_or_app. left.
  apply in_flat_map. exists (k, vs). split.
  - cbn [req_of c_hdr]. apply transport_hdr_other.
    + intros ->. vm_compute in Hc. discriminate.
    + intros ->. vm_compute in He. discriminate.
    + intros ->. vm_compute in He. discriminate.
    + apply merge_keeps_request_level; try assumption. intros ->. destruct Hv.
  - rewrite h2_user_lines_ordinary by assumption. apply in_map_iff. now exists v.
Qed.

Lemma api_h3_request_level m host path scheme clen cmp rh ch cookies ro rp k vs v :
  NoDup (map fst rh) -> In (k, vs) rh -> In v vs ->
  is_excluded k = false -> is_ua k = false -> k <> cookie_key ->
  In (to_lower k, v) (h3_lines (req_of m host path scheme (transport_hdr rh ch cookies ro rp) clen cmp)).
Proof.
  intros Hnd Hin Hv He Hu Hc.
  eapply Permutation_in; [symmetry; apply h3_each_value_exactly_once|].
  apply (in_lower_lines (k, v)). apply in_or_app. right. apply in_or_app. left.
  apply in_flat_map. exists (k, vs). split.
  - cbn [req_of c_hdr]. apply transport_hdr_other.
    + assumption.
    + intros ->. vm_compute in He. discriminate.
    + intros ->. vm_compute in He. discriminate.
    + apply merge_keeps_request_level; try assumption. intros ->. destruct Hv.
  - rewrite h3_user_lines_ordinary by assumption. apply in_map_iff. now exists v.
Qed.

(* ---------- cookies: SetCookies / SetCommonCookies -> one Cookie header -> the wire ---------- *)
Lemma cookie_key_canonical : canonical_key cookie_key = cookie_key.
Proof. vm_compute. reflexivity. Qed.

Lemma semi_sp_lit : bs "; " = semi_sp.
Proof. reflexivity. Qed.

Lemma join_absorb c p t :
  join_with semi_sp ((c ++ semi_sp ++ p) :: t) = c ++ semi_sp ++ join_with semi_sp (p :: t).
Proof.
  destruct t as [|t1 t]; cbn [join_with]; [reflexivity|].
  now rewrite <- !app_assoc.
Qed.

Lemma add_cookies_join ps : forall h c,
  hvals h cookie_key = [c] -> c <> [] ->
  hvals (fold_left add_cookie ps h) cookie_key = [join_with semi_sp (c :: ps)].
Proof.
  induction ps as [|p t IH]; intros h c Hc Hne; [exact Hc|].
  cbn [fold_left]. rewrite (IH _ (c ++ semi_sp ++ p)).
  - now rewrite join_absorb.
  - unfold add_cookie, header_get. rewrite cookie_key_canonical, Hc.
    destruct c; [congruence|]. cbn [is_nil]. rewrite semi_sp_lit. apply hvals_hset_same.
  - destruct c; [congruence|discriminate].
Qed.

(* with no Cookie header set by hand, the cookies p1..pn become the single header "p1; ...; pn" *)
Lemma add_cookies_fresh p ps h :
  hvals h cookie_key = [] -> p <> [] ->
  hvals (fold_left add_cookie (p :: ps) h) cookie_key = [join_with semi_sp (p :: ps)].
Proof.
  intros He Hne. cbn [fold_left]. apply add_cookies_join; [|assumption].
  unfold add_cookie, header_get. rewrite cookie_key_canonical, He. cbn [is_nil]. apply hvals_hset_same.
Qed.

Lemma cookie_is_cookie :
  is_excluded cookie_key = false /\ is_ua cookie_key = false /\ equal_fold cookie_key (bs "cookie") = true.
Proof. repeat split; vm_compute; reflexivity. Qed.

Lemma transport_cookie_value rh ch cookies ro rp :
  hvals (transport_hdr rh ch cookies ro rp) cookie_key = hvals (fold_left add_cookie cookies (merge_client rh ch)) cookie_key.
Proof.
  unfold transport_hdr. destruct order_keys_differ as (_ & N2 & N3).
  now rewrite !run_wrappers_hvals_other by assumption.
Qed.

(* HTTP/2: every cookie the caller added is one `cookie` field, in order, nothing else *)
Lemma api_h2_cookies rh ch p ps ro rp :
  hvals (merge_client rh ch) cookie_key = [] -> forallb crumb_ok (p :: ps) = true ->
  let h := transport_hdr rh ch (p :: ps) ro rp in
  In (cookie_key, hvals h cookie_key) h /\
  h2_user_lines (cookie_key, hvals h cookie_key) = map (fun c => (bs "cookie", c)) (p :: ps).
Proof.
  intros He Hok h.
  assert (Hp : p <> []).
  { cbn [forallb] in Hok. apply andb_true_iff in Hok as [Hok _]. unfold crumb_ok in Hok.
    apply andb_true_iff in Hok as [_ Hok]. destruct p; [discriminate|congruence]. }
  assert (Hv : hvals h cookie_key = [join_with semi_sp (p :: ps)]).
  { unfold h. rewrite transport_cookie_value. now apply add_cookies_fresh. }
  split.
  - unfold hvals in *. destruct (hget h cookie_key) eqn:G; [now apply hget_some_in|discriminate].
  - rewrite Hv. destruct cookie_is_cookie as (E & U & C).
    rewrite (h2_user_lines_cookie _ _ E U C). cbn [flat_map]. rewrite app_nil_r.
    rewrite crumbs_of_cookie_header; [reflexivity|assumption|discriminate].
Qed.

(* HTTP/1.1 and HTTP/3: the same cookies as one field "p1; ...; pn" *)
Lemma api_h3_cookies rh ch p ps ro rp :
  hvals (merge_client rh ch) cookie_key = [] -> p <> [] ->
  let h := transport_hdr rh ch (p :: ps) ro rp in
  In (cookie_key, hvals h cookie_key) h /\
  h3_user_lines (cookie_key, hvals h cookie_key) = [(cookie_key, join_with semi_sp (p :: ps))] /\
  h1_user_lines (cookie_key, hvals h cookie_key) = [(cookie_key, sanitize (join_with semi_sp (p :: ps)))].
Proof.
  intros He Hp h.
  assert (Hv : hvals h cookie_key = [join_with semi_sp (p :: ps)]).
  { unfold h. rewrite transport_cookie_value. now apply add_cookies_fresh. }
  split; [|split].
  - unfold hvals in *. destruct (hget h cookie_key) eqn:G; [now apply hget_some_in|discriminate].
  - rewrite Hv. destruct cookie_is_cookie as (E & U & _). now rewrite (h3_user_lines_ordinary _ _ E U).
  - rewrite Hv. unfold h1_user_lines. cbn [fst snd].
    assert (negb (mem_bytes cookie_key h1_exclude) && valid_field_name cookie_key = true) as -> by (vm_compute; reflexivity).
    reflexivity.
Qed.

(* through the canonicalising setters every letter-case spelling of a bookkeeping key IS the
   bookkeeping key (and so is never transmitted); only SetHeaderNonCanonical can create a
   differently spelled map key - dropped on HTTP/2 and HTTP/3, the caller's own header on HTTP/1.1 *)
Lemma mime_key_of_canonical_key k : is_pseudo_name k = false -> canonical_key k = mime_key k.
Proof. unfold canonical_key. now intros ->. Qed.

Lemma bookkeeping_spelling_via_set_header k :
  (to_lower k = to_lower header_order_key -> mime_key k = header_order_key) /\
  (to_lower k = to_lower pseudo_header_order_key -> mime_key k = pseudo_header_order_key).
Proof.
  split; intros H.
  - assert (T : forallb is_tchar header_order_key = true) by (vm_compute; reflexivity).
    pose proof (canonical_key_case_insensitive header_order_key k T (eq_sym H)) as E.
    assert (Tk : forallb is_tchar k = true).
    { rewrite <- forallb_tchar_lower, H, forallb_tchar_lower. exact T. }
    rewrite (mime_key_of_canonical_key k (tchar_not_pseudo k Tk)) in E. rewrite <- E. vm_compute. reflexivity.
  - assert (T : forallb is_tchar pseudo_header_order_key = true) by (vm_compute; reflexivity).
    pose proof (canonical_key_case_insensitive pseudo_header_order_key k T (eq_sym H)) as E.
    assert (Tk : forallb is_tchar k = true).
    { rewrite <- forallb_tchar_lower, H, forallb_tchar_lower. exact T. }
    rewrite (mime_key_of_canonical_key k (tchar_not_pseudo k Tk)) in E. rewrite <- E. vm_compute. reflexivity.
Qed.
