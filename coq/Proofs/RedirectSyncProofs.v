(* Proofs/RedirectSyncProofs.v - C11: the hand-written policy model (Model/Redirect.v `permits`) IS
   what gosync translated from the closures of /repo/redirect.go on this run (Gen/RedirectPolicies.v),
   and client.go has the shape the client model (Model/RedirectClient.v) rests on
   (Gen/RedirectClientFacts.v).  A rewrite of a constructor, of SetRedirectPolicy or of Clone either
   cannot be translated (gosync fails) or breaks one of these proofs. *)
From ReqV Require Import Lib.Bytes Model.Authority Model.Redirect Model.RedirectClient.
From ReqV Require Import Lib.BytesFacts.
From ReqV Require Import Gen.RedirectPolicies Gen.RedirectClientFacts Gen.RedirectHost.
From Coq Require Import Lia.

(* the decision of each policy value as the source states it *)
Definition src_permits (p : policy) (target : bytes) (via : list bytes) : bool :=
  match p with
  | PMax n => src_permits_max n target via
  | PNo => src_permits_no target via
  | PSameDomain => src_permits_same_domain target via
  | PSameHost => src_permits_same_host target via
  | PAllowedHost hs => src_permits_allowed_host hs target via
  | PAllowedDomain hs => src_permits_allowed_domain hs target via
  | PAlwaysCopy _ => src_permits_always_copy target via
  | PFault k => negb (Nat.eqb (length via) k)   (* user-defined (harness), not in redirect.go *)
  | PNil => true                        (* `if f == nil { continue }` - see set_policy_skips_nil *)
  end.

Lemma permits_is_the_source p target via : permits p target via = src_permits p target via.
Proof.
  destruct p; cbn [permits src_permits];
    unfold src_permits_max, src_permits_no, src_permits_same_domain, src_permits_same_host,
           src_permits_allowed_host, src_permits_allowed_domain, src_permits_always_copy,
           max_policy_refuses, mem_bytes;
    rewrite ?Bool.negb_involutive; reflexivity.
Qed.

Lemma all_permit_is_the_source ps target via :
  all_permit ps target via = forallb (fun p => src_permits p target via) ps.
Proof.
  unfold all_permit. induction ps as [|p r IH]; [reflexivity|]. cbn [forallb].
  now rewrite permits_is_the_source, IH.
Qed.

(* client.go: one assignment to CheckRedirect in the whole package - in SetRedirectPolicy, a
   function literal ranging over the argument (so the policies live in the closure, not in a client
   field read at redirect time), nil entries skipped, the first error returned, nothing else of the
   receiver written, the empty call returns at once; Clone copies the http.Client struct by value
   and does not touch CheckRedirect; C() installs DefaultRedirectPolicy *)
Lemma client_source_shape :
  checkredirect_assignments = 1 /\
  httpclient_field_assignments = 1 /\
  set_policy_empty_is_noop = true /\
  set_policy_installs_closure_over_argument = true /\
  set_policy_copies_argument = true /\
  set_policy_other_receiver_writes = 0 /\
  set_policy_skips_nil = true /\
  set_policy_first_error_wins = true /\
  set_policy_closure_extra_statements = 0 /\
  clone_copies_http_client_by_value = true /\
  new_client_installs_default = true.
Proof. repeat split; reflexivity. Qed.

(* ---- getHostname / getDomain: the model is the translated source ---- *)

Lemma strip_brackets_spec host :
  match strip_brackets host with Some h => h | None => host end =
  if andb (andb (Nat.leb 2 (length host)) (beqb (nth 0 host x00) "["%byte))
          (beqb (nth (length host - 1) host x00) "]"%byte)
  then firstn (length host - 1 - 1) (skipn 1 host) else host.
Proof.
  unfold strip_brackets. destruct host as [|b t]; [reflexivity|].
  cbn [starts_lbr tl]. unfold lbr, rbr. destruct t as [|z t' _] using rev_ind.
  - cbn. destruct (beqb b "["%byte); reflexivity.
  - rewrite rev_app_distr. cbn [rev app].
    assert (Hl : length (b :: t' ++ [z]) = S (S (length t'))) by (cbn; rewrite app_length; cbn; lia).
    rewrite Hl. cbn [Nat.leb nth andb].
    replace (S (S (length t')) - 1) with (S (length t')) by lia.
    replace (S (length t') - 1) with (length t') by lia.
    cbn [nth skipn]. rewrite app_nth2 by lia. rewrite Nat.sub_diag. cbn [nth].
    rewrite firstn_app_exact, rev_involutive.
    destruct (beqb b "["%byte); [|reflexivity]. cbn [andb].
    destruct (beqb z "]"%byte); reflexivity.
Qed.

Lemma get_hostname_is_the_source host : get_hostname host = src_get_hostname host.
Proof.
  unfold get_hostname, src_get_hostname. cbv zeta.
  destruct (split_host_port host); [reflexivity|]. now rewrite strip_brackets_spec.
Qed.

Lemma get_domain_is_the_source host : get_domain host = src_get_domain host.
Proof.
  unfold get_domain, src_get_domain. cbv zeta. rewrite <- get_hostname_is_the_source.
  destruct (is_ip_literal (get_hostname host)); [reflexivity|]. unfold dot.
  destruct (split_byte "."%byte (trim_suffix_byte "."%byte (get_hostname host))) as [|a [|b [|c r]]]; reflexivity.
Qed.
