(* Proofs/LifecycleH2Proofs.v - HTTP/2 request machine (Model/LifecycleH2.v): closed reachable set
   (Proofs/Reach.v) and the C08 statements decided on it, then in Prop form. *)
From Coq Require Import List Bool Arith NArith PArith FMapPositive Lia.
From ReqV Require Import Model.Lifecycle Model.LifecycleH2 Proofs.Reach Proofs.LifecycleProofs.
Import ListNotations.

Definition h2_eq_dec : forall a b : h2, {a = b} + {a <> b}.
Proof. repeat decide equality. Defined.
Definition h2_eqb (a b : h2) : bool := if h2_eq_dec a b then true else false.
Lemma h2_eqb_sound : forall a b, h2_eqb a b = true -> a = b.
Proof. intros a b. unfold h2_eqb. destruct (h2_eq_dec a b); [auto|discriminate]. Qed.

Local Open Scope N_scope.
Definition n_oerr (o : option err) : N := match o with None => 0 | Some e => 1 + n_err e end.
Definition n_c2 (c : cst2) : N :=
  match c with CSel => 0 | CWaitDone => 1 | CAbortWait e => 2 + n_err e
             | CRet (CResp b) => 8 + n_bool b | CRet (CErr e) => 10 + n_err e end.
Definition n_d2 (d : dst2) : N := match d with DAcquire => 0 | DHdr => 1 | DBody => 2 | DWait => 3 | DExit => 4 | DExpect => 5 end.
Definition n_rst (r : option rstk) : N := match r with None => 0 | Some RstCancel => 1 | Some RstNoError => 2 end.
Definition h2_code (s : h2) : positive :=
  N.succ_pos (mix [(n_c2 (c2 s), 16); (n_d2 (d2 s), 6); (n_ocause (ctx2 s), 4); (n_oerr (abort2 s), 7);
                   (n_bool (sent_hdr s), 2); (n_bool (sent_end s), 2); (n_obool (resp2 s), 3);
                   (n_bool (peer_end s), 2); (n_rst (rst2 s), 3); (n_bool (bclosed2 s), 2);
                   (n_bool (donec2 s), 2); (n_bres (pipe2 s), 12); (n_bool (failed2 s), 2); (n_bool (rstall s), 2)]).
Local Close Scope N_scope.

Definition labels2 : list label2 :=
  [YAcquired; YHdrWritten; YHdrExpect; Y100; YReadStall; YReadResume; YBodyWritten; YResp true; YResp false; YData; YEnd; YReadEOF; YPeerRst;
   YCancel CCanceled; YCancel CDeadline; YCancel CTimeout] ++ internals2.

Lemma labels2_all : forall l, In l labels2.
Proof. intros l. unfold labels2, internals2. destruct l as [| | | | | | |[]| | | | |[]| | | | | | | | | |]; cbn; tauto. Qed.

Definition M2 (hb : bool) : smap h2 :=
  match explore h2 label2 (step2 hb) h2_code h2_eqb labels2 400 init2 with
  | Some m => m
  | None => PositiveMap.empty h2
  end.

Lemma M2_closed : forall hb,
  memM h2 h2_code h2_eqb init2 (M2 hb) && closedM h2 label2 (step2 hb) h2_code h2_eqb labels2 (M2 hb) = true.
Proof. intros []; vm_compute; reflexivity. Qed.

Lemma run2_run : forall hb ls s, run2 hb s ls = run h2 label2 (step2 hb) s ls.
Proof. intros hb ls. induction ls as [|l r IH]; intros s; cbn; [reflexivity|]. destruct (step2 hb s l); auto. Qed.

Definition reach2 (hb : bool) (s : h2) : Prop := exists ls, run2 hb init2 ls = Some s.

Lemma reach2_in : forall hb s, reach2 hb s -> InM h2 s (M2 hb).
Proof.
  intros hb s [ls H]. rewrite run2_run in H.
  pose proof (M2_closed hb) as HC. apply andb_prop in HC as [Hi Hc].
  eapply (reach_sound h2 label2 (step2 hb) h2_code h2_eqb h2_eqb_sound labels2 labels2_all); eauto.
Qed.

Lemma inv2 : forall (P : bool -> h2 -> bool),
  (forall hb, allM h2 (P hb) (M2 hb) = true) -> forall hb s, reach2 hb s -> P hb s = true.
Proof. intros P H hb s R. eapply allM_sound; [apply H|apply reach2_in; exact R]. Qed.

Ltac all_hb := intros []; vm_compute; reflexivity.

Definition is_cause2 (e : err) (x : option cause) : bool :=
  match e, x with
  | ECause CCanceled, Some CCanceled | ECause CDeadline, Some CDeadline | ECause CTimeout, Some CTimeout => true
  | _, _ => false
  end.
Lemma is_cause2_spec : forall e x, is_cause2 e x = true -> exists c, x = Some c /\ e = ECause c.
Proof. intros [[]| | |] [[]|]; cbn; intros H; try discriminate; eauto. Qed.

(* 1. errors identify the cancellation (no reset by the peer) *)
Definition ident2_b (hb : bool) (s : h2) : bool :=
  failed2 s ||
  (match c2 s with CRet (CErr e) | CAbortWait e => is_cause2 e (ctx2 s) | _ => true end &&
   match pipe2 s with BErr e => is_cause2 e (ctx2 s) | _ => true end).
Lemma ident2_all : forall hb, allM h2 (ident2_b hb) (M2 hb) = true.
Proof. all_hb. Qed.

(* 2. once the context has ended: the caller and doRequest can always move on *)
Definition enabled2 (hb : bool) (s : h2) (l : label2) : bool :=
  match step2 hb s l with Some _ => true | None => false end.
Definition returned2 (s : h2) : bool := match c2 s with CRet _ => true | _ => false end.
Definition exited2 (s : h2) : bool := match d2 s with DExit => true | _ => false end.

Definition progress2_b (hb : bool) (s : h2) : bool :=
  match ctx2 s with
  | None => true
  | Some _ =>
      (returned2 s || existsb (enabled2 hb s) [JResp; JAbort; JCtx; JDone; JDoneCtx] ||
       (* blocked in waitDone only until doRequest, which can move, has finished *)
       existsb (enabled2 hb s) [KCtx; KAbort; KPeerEnd]) &&
      (* doRequest itself can always move on: every blocking point watches the context, the wait for
         flow-control credit through the abort the context triggers (KCtxAbort) *)
      (exited2 s || rstall s || existsb (enabled2 hb s) [KCtx; KAbort; KPeerEnd; KCtxAbort])
  end.
Lemma progress2_all : forall hb, allM h2 (progress2_b hb) (M2 hb) = true.
Proof. all_hb. Qed.

(* 3. settled after a cancellation: RST_STREAM(CANCEL) iff the headers went out and the stream
   was not closed on both sides; request body closed; error identifies the cause *)
Definition settled2 (hb : bool) (s : h2) : bool :=
  returned2 s && exited2 s && negb (existsb (enabled2 hb s) internals2).

Definition rst_b (hb : bool) (s : h2) : bool :=
  negb (settled2 hb s && match ctx2 s with Some _ => true | None => false end) || failed2 s ||
  (match rst2 s with
   | Some RstCancel => sent_hdr s     (* the peer's END_STREAM may still have arrived after it *)
   | Some RstNoError => sent_hdr s && negb (sent_end s)
   | None => negb (sent_hdr s) || (sent_end s && peer_end s)
   end &&
   (negb hb || bclosed2 s) && donec2 s &&
   match c2 s with
   | CRet (CErr e) => is_cause2 e (ctx2 s)
   | CRet (CResp b) => match pipe2 s with
                       | BErr e => is_cause2 e (ctx2 s)
                       | BEOF => true
                       | BNone => negb b
                       | BOpen => peer_end s      (* complete body delivered, not yet read *)
                       | _ => false
                       end
   | _ => false
   end).
Lemma rst_all : forall hb, allM h2 (rst_b hb) (M2 hb) = true.
Proof. all_hb. Qed.

(* ---------- Prop forms ---------- *)

Theorem h2_errors_identify : forall hb s, reach2 hb s -> failed2 s = false ->
  (forall e, c2 s = CRet (CErr e) -> exists c, ctx2 s = Some c /\ e = ECause c) /\
  (forall e, pipe2 s = BErr e -> exists c, ctx2 s = Some c /\ e = ECause c).
Proof.
  intros hb s R F. pose proof (inv2 ident2_b ident2_all hb s R) as H. unfold ident2_b in H.
  rewrite F in H. cbn [orb] in H. apply andb_prop in H as [H1 H2]. split.
  - intros e E. rewrite E in H1. apply is_cause2_spec in H1. exact H1.
  - intros e E. rewrite E in H2. apply is_cause2_spec in H2. exact H2.
Qed.

Theorem h2_rst_iff_open_stream : forall hb s, reach2 hb s -> settled2 hb s = true ->
  (exists c, ctx2 s = Some c) -> failed2 s = false ->
  (rst2 s = Some RstCancel -> sent_hdr s = true) /\
  (rst2 s = Some RstNoError -> sent_hdr s = true /\ sent_end s = false) /\
  (rst2 s = None -> sent_hdr s = false \/ (sent_end s = true /\ peer_end s = true)) /\
  (hb = true -> bclosed2 s = true) /\ donec2 s = true.
Proof.
  intros hb s R S [c C] F. pose proof (inv2 rst_b rst_all hb s R) as H. unfold rst_b in H.
  rewrite S, C, F in H. cbn [andb negb orb] in H.
  apply andb_prop in H as [H H4]. apply andb_prop in H as [H H3]. apply andb_prop in H as [H1 H2].
  split; [|split; [|split; [|split; [|exact H3]]]].
  - intros E. rewrite E in H1. exact H1.
  - intros E. rewrite E in H1. apply andb_prop in H1 as [A B]. split; [exact A|].
    destruct (sent_end s); [discriminate|reflexivity].
  - intros E. rewrite E in H1. destruct (sent_hdr s); [right|left; reflexivity].
    cbn in H1. apply andb_prop in H1. exact H1.
  - intros ->. cbn in H2. exact H2.
Qed.

Theorem h2_cancel_progress : forall hb s, reach2 hb s -> (exists c, ctx2 s = Some c) ->
  (returned2 s = false -> exists l, In l [JResp; JAbort; JCtx; JDone; JDoneCtx; KCtx; KAbort; KPeerEnd] /\ step2 hb s l <> None) /\
  (exited2 s = false -> rstall s = false -> exists l, In l [KCtx; KAbort; KPeerEnd; KCtxAbort] /\ step2 hb s l <> None).
Proof.
  intros hb s R [c C]. pose proof (inv2 progress2_b progress2_all hb s R) as H. unfold progress2_b in H.
  rewrite C in H. apply andb_prop in H as [H1 H2]. split.
  - intros NR. rewrite NR in H1. cbn [orb] in H1. apply orb_prop in H1 as [H1|H1];
      apply existsb_exists in H1 as [l [I E]]; exists l; (split; [cbn in I |- *; tauto|]);
      unfold enabled2 in E; destruct (step2 hb s l); discriminate.
  - intros NE NS. rewrite NE, NS in H2. cbn [orb] in H2.
    apply existsb_exists in H2 as [l [I E]]. exists l. split; [exact I|].
    unfold enabled2 in E. destruct (step2 hb s l); discriminate.
Qed.

(* the caller itself never depends on the request body's reader: even while doRequest is blocked inside
   Request.Body.Read (rstall), a caller whose context has ended can move - in particular out of the
   wait that follows an abort by the peer (waitDone watches the context) *)
Definition caller_free_b (hb : bool) (s : h2) : bool :=
  match ctx2 s with
  | None => true
  | Some _ => returned2 s || negb (rstall s) || existsb (enabled2 hb s) [JResp; JAbort; JCtx; JDone; JDoneCtx]
  end.
Lemma caller_free_all : forall hb, allM h2 (caller_free_b hb) (M2 hb) = true.
Proof. all_hb. Qed.

Theorem h2_caller_returns_despite_stalled_reader : forall hb s, reach2 hb s -> (exists c, ctx2 s = Some c) ->
  rstall s = true -> returned2 s = false ->
  exists l, In l [JResp; JAbort; JCtx; JDone; JDoneCtx] /\ step2 hb s l <> None.
Proof.
  intros hb s R [c C] ST NR. pose proof (inv2 caller_free_b caller_free_all hb s R) as H. unfold caller_free_b in H.
  rewrite C, ST, NR in H. cbn [negb orb] in H. apply existsb_exists in H as [l [I E]].
  exists l. split; [exact I|]. unfold enabled2 in E. destruct (step2 hb s l); discriminate.
Qed.

Example h2_nonvacuous :
  exists s, run2 true init2 [YAcquired; YHdrWritten; YCancel CCanceled; JCtx; KAbort] = Some s /\
            c2 s = CRet (CErr (ECause CCanceled)) /\ rst2 s = Some RstCancel /\ bclosed2 s = true /\
            settled2 true s = true.
Proof. eexists. vm_compute. repeat split. Qed.
