(* Proofs/AuthReexecProofs.v - C20: re-executing one Request while credentials are set in
   between: every execution transmits the credentials given (request level wins, otherwise the
   client's CURRENT ones), for all operation sequences. *)
From ReqV Require Import Lib.Bytes Lib.BytesFacts Model.Base64 Model.AuthReexec.

(* the code's state represents the specification's: a request-level value is an unmerged slice,
   no request-level value is "nothing or the merged slice" *)
Definition rep (s : rq_state) (t : spec_state) : Prop :=
  st_client s = sp_client t /\
  match sp_req t with
  | Some h => st_req s = Some (h, false)
  | None => st_req s = None \/ exists c, st_req s = Some (c, true)
  end.

Lemma rep_init : rep rq_init (mkSp None None).
Proof. split; [reflexivity|]. left. reflexivity. Qed.

Theorem reexec_transmits_given ops : forall s t, rep s t -> rq_run_with unmerge_identity s ops = spec_run t ops.
Proof.
  induction ops as [|o r IH]; intros s t [Hc Hr]; [reflexivity|].
  destruct o; cbn [rq_run_with rq_step_with spec_run spec_step].
  - apply IH. split; [reflexivity|exact Hr].
  - apply IH. split; [reflexivity|exact Hr].
  - apply IH. split; [exact Hc|reflexivity].
  - apply IH. split; [exact Hc|reflexivity].
  - unfold rq_send_with, spec_sent. destruct (sp_req t) as [h|] eqn:E.
    + rewrite Hr. cbn. f_equal. apply IH. split; [exact Hc|]. rewrite E. reflexivity.
    + assert (U : unmerge_identity (st_req s) = None).
      { destruct Hr as [->|[c ->]]; reflexivity. }
      rewrite U, Hc. destruct (sp_client t) as [c|] eqn:Ec; cbn.
      * f_equal. apply IH. split; [cbn; now rewrite Ec|]. rewrite E. right. eexists. reflexivity.
      * f_equal. apply IH. split; [cbn; now rewrite Ec|]. rewrite E. left. reflexivity.
Qed.

Corollary reexec_from_new ops : rq_run rq_init ops = spec_run (mkSp None None) ops.
Proof. apply reexec_transmits_given. apply rep_init. Qed.

(* comparing values instead of the slice identity loses a request-level credential that equals
   what the client had before: after the client's rotation the NEW client credential goes out *)
Example value_compare_refuted :
  let ops := [CBasic (bs "u") (bs "old"); Send; RBasic (bs "u") (bs "old"); CBasic (bs "u") (bs "new"); Send] in
  rq_run rq_init ops = [Some (basic_header (bs "u") (bs "old")); Some (basic_header (bs "u") (bs "old"))] /\
  rqv_run (mkRqv None None None) ops = [Some (basic_header (bs "u") (bs "old")); Some (basic_header (bs "u") (bs "new"))].
Proof. split; vm_compute; reflexivity. Qed.
