(* Proofs/AuthReexecProofs.v - C20: re-executing one Request while credentials are set in
   between: every execution transmits the credentials given (request level wins, otherwise the
   client's CURRENT ones), for all operation sequences. *)
From ReqV Require Import Lib.Bytes Lib.BytesFacts Model.Base64 Model.AuthReexec.

(* the code's state represents the specification's: a request-level value is an unmerged slice,
   no request-level value is "nothing or the merged slice" *)
Definition rep (s : rq_state) (t : spec_state) : Prop :=
  st_client s = sp_client t /\
  match sp_req t with
  | Some h => st_req s = Some (h, false)
  | None => st_req s = None \/ exists c, st_req s = Some (c, true)
  end.

Lemma rep_init : rep rq_init (mkSp None None).
Proof. split; [reflexivity|]. left. reflexivity. Qed.

Theorem reexec_transmits_given ops : forall s t, rep s t ->
  rq_run_with unmerge_identity reset_always s ops = spec_run t ops.
Proof.
  induction ops as [|o r IH]; intros s t [Hc Hr]; [reflexivity|].
  assert (SEND : forall retried,
            exists s', rq_send_with unmerge_identity reset_always retried s =
                       ((if retried then [spec_sent t; spec_sent t] else [spec_sent t]), s') /\ rep s' t).
  { intros retried. unfold rq_send_with, reset_always, spec_sent. destruct (sp_req t) as [h|] eqn:E.
    - rewrite Hr. cbn. destruct retried; eexists; (split; [reflexivity|]); (split; [exact Hc|]); rewrite E; reflexivity.
    - assert (U : unmerge_identity (st_req s) = None) by (destruct Hr as [->|[c ->]]; reflexivity).
      rewrite U, Hc. destruct (sp_client t) as [c|] eqn:Ec; cbn;
        destruct retried; eexists; (split; [reflexivity|]); (split; [cbn; now rewrite Ec|]); rewrite E;
        solve [right; eexists; reflexivity | left; reflexivity]. }
  destruct o; cbn [rq_run_with rq_step_with spec_run spec_step].
  - apply IH. split; [reflexivity|exact Hr].
  - apply IH. split; [reflexivity|exact Hr].
  - apply IH. split; [exact Hc|reflexivity].
  - apply IH. split; [exact Hc|reflexivity].
  - destruct (SEND false) as [s' [-> R]]. cbn [app]. f_equal. apply IH. exact R.
  - destruct (SEND true) as [s' [-> R]]. cbn [app]. f_equal. f_equal. apply IH. exact R.
Qed.

Corollary reexec_from_new ops : rq_run rq_init ops = spec_run (mkSp None None) ops.
Proof. apply reexec_transmits_given. apply rep_init. Qed.

(* resetting RetryAttempt only when something had been merged (a seeded change): a request that
   was retried on a client without common settings is never given the client's credentials again *)
Example reset_if_merged_refuted :
  let ops := [SendR; CBearer (bs "tok"); Send] in
  rq_run rq_init ops = [None; None; Some (bearer_header (bs "tok"))] /\
  rq_run_with unmerge_identity reset_if_merged rq_init ops = [None; None; None].
Proof. split; vm_compute; reflexivity. Qed.

(* comparing values instead of the slice identity loses a request-level credential that equals
   what the client had before: after the client's rotation the NEW client credential goes out *)
Example value_compare_refuted :
  let ops := [CBasic (bs "u") (bs "old"); Send; RBasic (bs "u") (bs "old"); CBasic (bs "u") (bs "new"); Send] in
  rq_run rq_init ops = [Some (basic_header (bs "u") (bs "old")); Some (basic_header (bs "u") (bs "old"))] /\
  rqv_run (mkRqv None None None) ops = [Some (basic_header (bs "u") (bs "old")); Some (basic_header (bs "u") (bs "new"))].
Proof. split; vm_compute; reflexivity. Qed.

(* ---------- clones: each client transmits its own credentials ---------- *)
From Coq Require Import Lia.

Lemma set_nth_length {A} n (x : A) l : length (set_nth n x l) = length l.
Proof. revert n. induction l as [|y r IH]; intros [|n]; cbn; auto. Qed.

Lemma nth_set_nth_eq {A} n (x d : A) l : n < length l -> nth n (set_nth n x l) d = x.
Proof. revert n. induction l as [|y r IH]; intros [|n] H; cbn in *; try lia; auto. apply IH. lia. Qed.

Lemma nth_set_nth_neq {A} n m (x d : A) l : n <> m -> nth m (set_nth n x l) d = nth m l d.
Proof.
  revert n m. induction l as [|y r IH]; intros [|n] [|m] H; cbn; try reflexivity; try congruence.
  apply IH. congruence.
Qed.

(* the heap state represents the per-client credentials: distinct clients own distinct maps *)
Definition cl_rep (s : cl_state) (creds : list (option bytes)) : Prop :=
  length (cl_owner s) = length creds /\
  NoDup (cl_owner s) /\
  (forall i, i < length creds -> nth i (cl_owner s) 0 < length (cl_heap s)) /\
  (forall i, i < length creds -> cl_get s i = nth i creds None).

Lemma NoDup_nth_inj (l : list nat) i j : NoDup l -> i < length l -> j < length l ->
  nth i l 0 = nth j l 0 -> i = j.
Proof. intros ND Hi Hj E. apply (proj1 (NoDup_nth l 0) ND i j Hi Hj E). Qed.

Lemma NoDup_snoc (l : list nat) x : NoDup l -> ~ In x l -> NoDup (l ++ [x]).
Proof.
  induction l as [|y r IH]; intros ND Hn; cbn.
  - constructor; [intros []|constructor].
  - inversion ND as [|? ? Hy Hr]; subst. constructor.
    + rewrite in_app_iff. intros [H|[H|[]]]; [contradiction|]. subst. apply Hn. left. reflexivity.
    + apply IH; auto. intros H. apply Hn. right. exact H.
Qed.

Lemma cl_rep_set s creds i h : cl_rep s creds -> i < length creds ->
  cl_rep (cl_set s i h) (set_nth i (Some h) creds).
Proof.
  intros [HL [ND [HB HV]]] Hi. unfold cl_set, cl_rep, cl_get in *. cbn [cl_heap cl_owner].
  rewrite !set_nth_length. repeat split; auto.
  intros j Hj. destruct (Nat.eq_dec i j) as [->|Hne].
  - rewrite !nth_set_nth_eq; auto.
  - rewrite (nth_set_nth_neq i j) by exact Hne. rewrite nth_set_nth_neq; [apply HV; exact Hj|].
    intros E. apply Hne. apply (NoDup_nth_inj (cl_owner s)); auto; lia.
Qed.

Lemma cl_rep_clone s creds i : cl_rep s creds -> i < length creds ->
  cl_rep (cl_clone false s i) (creds ++ [nth i creds None]).
Proof.
  intros [HL [ND [HB HV]]] Hi. unfold cl_clone, cl_rep, cl_get in *. cbn [cl_heap cl_owner].
  rewrite !app_length. cbn [length]. repeat split.
  - lia.
  - apply NoDup_snoc; [exact ND|]. intros Hin. apply (In_nth _ _ 0) in Hin as [j [Hj E]].
    rewrite HL in Hj. specialize (HB j Hj). lia.
  - intros j Hj. destruct (Nat.eq_dec j (length creds)) as [->|Hne].
    + rewrite <- HL, nth_middle. lia.
    + rewrite app_nth1 by lia. specialize (HB j). lia.
  - intros j Hj. destruct (Nat.eq_dec j (length creds)) as [->|Hne].
    + replace (nth (length creds) (cl_owner s ++ [length (cl_heap s)]) 0) with (length (cl_heap s))
        by (rewrite <- HL, nth_middle; reflexivity).
      rewrite !nth_middle. apply HV. exact Hi.
    + rewrite (app_nth1 (cl_owner s)) by lia. rewrite (app_nth1 creds) by lia.
      rewrite app_nth1 by (apply HB; lia). apply HV. lia.
Qed.

Theorem clones_transmit_own ops : forall s creds, cl_rep s creds -> ops_ok (length creds) ops = true ->
  cl_run_with false s ops = cls_run creds ops.
Proof.
  induction ops as [|o r IH]; intros s creds R Hok; [reflexivity|].
  destruct o as [i u p|i t|i|i]; cbn [ops_ok] in Hok; apply andb_prop in Hok as [Hi Hr];
    apply Nat.ltb_lt in Hi; cbn [cl_run_with cls_run].
  - apply IH; [now apply cl_rep_set|]. now rewrite set_nth_length.
  - apply IH; [now apply cl_rep_set|]. now rewrite set_nth_length.
  - apply IH; [now apply cl_rep_clone|]. rewrite app_length. cbn [length].
    now replace (length creds + 1) with (S (length creds)) by lia.
  - destruct R as [HL [ND [HB HV]]]. rewrite (HV i Hi). f_equal.
    apply IH; [repeat split; assumption|exact Hr].
Qed.

Lemma cl_rep_init : cl_rep cl_init [None].
Proof.
  unfold cl_rep, cl_init, cl_get. cbn. repeat split; auto.
  - constructor; [intros []|constructor].
  - intros i Hi. destruct i; [lia|lia].
  - intros i Hi. destruct i; [reflexivity|lia].
Qed.

Corollary clones_from_new ops : ops_ok 1 ops = true -> cl_run cl_init ops = cls_run [None] ops.
Proof. intros H. apply clones_transmit_own; [apply cl_rep_init|exact H]. Qed.

(* the clone sharing the original's header map (seeded change e-m3): credentials given to the
   clone go out from the original *)
Example shared_header_map_refuted :
  let ops := [KBasic 0 (bs "alice") (bs "a-pw"); KClone 0; KBasic 1 (bs "bob") (bs "b-pw"); KSend 0; KSend 1] in
  cl_run cl_init ops = [Some (basic_header (bs "alice") (bs "a-pw")); Some (basic_header (bs "bob") (bs "b-pw"))] /\
  cl_run_with true cl_init ops = [Some (basic_header (bs "bob") (bs "b-pw")); Some (basic_header (bs "bob") (bs "b-pw"))].
Proof. split; vm_compute; reflexivity. Qed.
