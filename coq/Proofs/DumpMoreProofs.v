(* Proofs/DumpMoreProofs.v - C13, second part:
   - delivery through one dumper (repaired DumpTo + Start/Stop) is in program order and loses
     nothing, for every interleaving of DumpTo calls with the drainer; a dumper that is never
     started writes everything synchronously (the pinned one writes nothing);
   - what the h2 / h3 request runners log over a healthy connection: the hook sequence
     field lines, CRLF, DATA payloads, CRLF CRLF - so that the routing theorems (stated over hook
     sequences) apply to the stack runners. *)
From Coq Require Import Lia.
From ReqV Require Import Lib.Bytes Lib.BytesFacts Model.Dump Model.DumpReader Model.DumpStack
                         Proofs.DumpProofs Proofs.DumpStackProofs.

(* ---------- delivery ---------- *)
(* something is queued only while the dumper is asynchronous and being drained *)
Definition dinv (async : bool) (st : dstate) : Prop :=
  async && d_running st = false -> d_queue st = [].

Lemma step_op_inv async st op : dinv async st -> dinv async (step_op async st op).
Proof.
  unfold dinv. intro H. destruct op as [t| | |]; cbn [step_op].
  - destruct (async && d_running st) eqn:C; cbn [d_running d_queue].
    + rewrite C. intro; discriminate.
    + rewrite C. intros _. now apply H.
  - destruct (d_queue st) as [|t q] eqn:Q; [now rewrite Q in *|].
    destruct (d_running st) eqn:R; cbn [d_running d_queue].
    + intro C. rewrite C in H. specialize (H eq_refl). discriminate.
    + rewrite Q, R. exact H.
  - cbn [d_running d_queue]. intro C.
    destruct async; [discriminate|]. now apply H.
  - destruct (d_queue st) eqn:Q; cbn [d_running d_queue]; [reflexivity|].
    rewrite Q. exact H.
Qed.

Lemma step_op_conserves async st op :
  dinv async st ->
  d_out (step_op async st op) ++ d_queue (step_op async st op) =
  (d_out st ++ d_queue st) ++ match op with ADump t => [t] | _ => [] end.
Proof.
  unfold dinv. intro H. destruct st as [run q out]. cbn [d_running d_queue d_out] in *.
  destruct op as [t| | |]; cbn [step_op d_running d_queue d_out].
  - destruct (async && run) eqn:C; cbn [d_out d_queue].
    + now rewrite app_assoc.
    + rewrite (H eq_refl), !app_nil_r. reflexivity.
  - destruct q as [|t q]; cbn [d_out d_queue]; [now rewrite !app_nil_r|].
    destruct run; cbn [d_out d_queue].
    + rewrite app_nil_r, <- app_assoc. reflexivity.
    + now rewrite app_nil_r.
  - now rewrite app_nil_r.
  - destruct q; cbn [d_out d_queue]; now rewrite ?app_nil_r.
Qed.

Lemma fold_ops_conserves async ops st :
  dinv async st ->
  let st' := fold_left (step_op async) ops st in
  dinv async st' /\ d_out st' ++ d_queue st' = (d_out st ++ d_queue st) ++ dumped_tasks ops.
Proof.
  revert st. induction ops as [|op r IH]; intros st H; cbn [fold_left dumped_tasks flat_map].
  - split; [exact H|now rewrite app_nil_r].
  - destruct (IH _ (step_op_inv async st op H)) as [I E]. split; [exact I|].
    rewrite E, (step_op_conserves async st op H), <- app_assoc. reflexivity.
Qed.

(* every interleaving of DumpTo calls, drain steps, Start and the return of Start: what has been
   written followed by what is still queued is the sequence of DumpTo calls in program order -
   nothing lost, nothing duplicated, nothing reordered (per dumper, hence per writer) *)
Theorem delivery_in_program_order async ops :
  d_out (run_ops async ops) ++ d_queue (run_ops async ops) = dumped_tasks ops.
Proof.
  unfold run_ops.
  destruct (fold_ops_conserves async ops (mkD false [] [])) as [_ E].
  - unfold dinv. reflexivity.
  - exact E.
Qed.

(* a dumper that is never started (request level) writes every chunk at once, whatever Async
   says; nothing is left in the queue, so nothing can block *)
Lemma never_started_step async st op :
  op <> AStart -> d_running st = false -> d_queue st = [] ->
  d_running (step_op async st op) = false /\ d_queue (step_op async st op) = [].
Proof.
  intros Hop R Q. destruct op as [t| | |]; cbn [step_op]; try congruence.
  - rewrite R, Bool.andb_false_r. cbn [d_running d_queue]. now split.
  - rewrite Q. now split.
  - rewrite Q. cbn [d_running d_queue]. now split.
Qed.

Theorem never_started_is_synchronous async ops :
  ~ In AStart ops ->
  d_queue (run_ops async ops) = [] /\ d_out (run_ops async ops) = dumped_tasks ops.
Proof.
  intro Hn.
  assert (G : forall st, d_running st = false -> d_queue st = [] -> ~ In AStart ops ->
              d_queue (fold_left (step_op async) ops st) = []).
  { clear Hn. induction ops as [|op r IH]; intros st R Q Hn; cbn [fold_left]; [exact Q|].
    destruct (never_started_step async st op) as [R' Q']; try assumption.
    - intro E. apply Hn. left. now symmetry.
    - apply IH; try assumption. intro Hin. apply Hn. now right. }
  pose proof (delivery_in_program_order async ops) as E.
  unfold run_ops in *. rewrite (G (mkD false [] []) eq_refl eq_refl Hn) in *.
  rewrite app_nil_r in E. now split.
Qed.

(* the pinned DumpTo: with Async and no Start nothing is ever written *)
Theorem pinned_never_started_writes_nothing ops :
  ~ In AStart ops -> d_out (run_ops_pinned true ops) = [].
Proof.
  intro Hn. unfold run_ops_pinned.
  assert (G : forall st, d_running st = false -> d_out st = [] -> ~ In AStart ops ->
              d_out (fold_left (step_op_pinned true) ops st) = []).
  { clear Hn. induction ops as [|op r IH]; intros st R O Hn; cbn [fold_left]; [exact O|].
    apply IH.
    - destruct op as [t| | |]; cbn [step_op_pinned step_op d_running]; try exact R.
      + destruct (d_queue st); [exact R|]. now rewrite R.
      + exfalso. apply Hn. now left.
      + destruct (d_queue st); [reflexivity|exact R].
    - destruct op as [t| | |]; cbn [step_op_pinned step_op d_out]; try exact O.
      + destruct (d_queue st); [exact O|]. now rewrite R.
      + destruct (d_queue st); exact O.
    - intro Hin. apply Hn. now right. }
  apply G; try reflexivity. exact Hn.
Qed.

Example pinned_unstarted_refuted :
  let ops := [ADump (7%N, bs "GET / HTTP/1.1")] in
  d_out (run_ops_pinned true ops) <> dumped_tasks ops /\ d_out (run_ops true ops) = dumped_tasks ops.
Proof. split; [vm_compute; discriminate|reflexivity]. Qed.

(* ---------- h2 / h3 request runners over a healthy connection ---------- *)
(* dumper-major and hook-major emission put the same bytes, in the same order, into every
   (dumper, writer) *)
Lemma content_emit_other i w j o hs :
  Nat.eqb i j = false -> content i w (flat_map (hook_emit (j, o)) hs) = [].
Proof.
  intro E. induction hs as [|h hs IHh]; cbn [flat_map]; [reflexivity|].
  now rewrite content_app, content_hook_emit, E, IHh.
Qed.

Lemma content_emit_self i w o hs :
  content i w (flat_map (hook_emit (i, o)) hs) = flat_map (hook_bytes_for o w) hs.
Proof.
  induction hs as [|h hs IHh]; cbn [flat_map]; [reflexivity|].
  now rewrite content_app, content_hook_emit, Nat.eqb_refl, IHh.
Qed.

Lemma content_each_notin i w ds hs :
  ~ In i (map fst ds) -> content i w (run_hooks_each ds hs) = [].
Proof.
  unfold run_hooks_each. induction ds as [|[j o] ds IH]; cbn [flat_map map fst In]; intro H; [reflexivity|].
  rewrite content_app, IH by (intro; apply H; now right). rewrite app_nil_r.
  apply content_emit_other. apply Nat.eqb_neq. intro. subst. apply H. now left.
Qed.

Lemma content_each i o w ds hs :
  NoDup (map fst ds) -> In (i, o) ds ->
  content i w (run_hooks_each ds hs) = flat_map (hook_bytes_for o w) hs.
Proof.
  unfold run_hooks_each. induction ds as [|[j o'] ds IH]; cbn [flat_map map fst In]; intros ND HI; [contradiction|].
  inversion ND as [|? ? Hn ND']; subst. rewrite content_app.
  destruct HI as [HI|HI].
  - inversion HI; subst.
    fold (run_hooks_each ds hs). rewrite (content_each_notin i w ds hs Hn), app_nil_r.
    apply content_emit_self.
  - rewrite (IH ND' HI), content_emit_other; [reflexivity|].
    apply Nat.eqb_neq. intro. subst. apply Hn. change j with (fst (j, o)). now apply in_map.
Qed.

Lemma content_each_hooks i o w ds hs :
  NoDup (map fst ds) -> In (i, o) ds ->
  content i w (run_hooks_each ds hs) = content i w (run_hooks ds hs).
Proof. intros. now rewrite (content_each i o), (content_run_hooks i o). Qed.

Definition id_fin (p : bytes) : bytes := p.

(* what h2_write_data logs over a healthy connection, per (dumper, writer): each DATA payload,
   then - if the last frame carries END_STREAM - the separator *)
Lemma h2_write_data_app i o w ds frame frame_fin fin_last s l chunks :
  NoDup (map fst ds) -> In (i, o) ds ->
  let '(st, e, ended) := h2_write_data ds frame frame_fin fin_last app_writer (s, l) chunks in
  e = false /\
  ended = (fin_last && negb (Nat.eqb (length chunks) 0)) /\
  content i w (snd st) =
    content i w l ++ flat_map (hook_bytes_for o w)
                       (map HReqBody chunks ++ if ended then [HReqBodyEnd sep23] else []).
Proof.
  intros ND HI. revert s l. induction chunks as [|p r IH]; intros s l; cbn [h2_write_data].
  - rewrite Bool.andb_false_r. cbn [map app flat_map]. now rewrite app_nil_r.
  - unfold app_writer at 1. cbn [fst snd].
    destruct (fin_last && match r with [] => true | _ => false end) eqn:F.
    + destruct r as [|p2 r]; [|now rewrite Bool.andb_false_r in F].
      rewrite Bool.andb_true_r in F. subst fin_last. cbn [length Nat.eqb negb andb map app fst snd].
      repeat split. rewrite content_app, (content_each i o) by assumption. reflexivity.
    + specialize (IH (s ++ frame p) (l ++ run_hooks_each ds [HReqBody p])).
      destruct (h2_write_data ds frame frame_fin fin_last app_writer _ r) as [[st e] ended].
      destruct IH as [-> [-> IH]]. repeat split.
      * destruct r as [|p2 r]; [|reflexivity].
        rewrite Bool.andb_true_r in F. now rewrite F.
      * rewrite IH, content_app, (content_each i o) by assumption.
        cbn [map app flat_map length Nat.eqb negb]. rewrite app_nil_r, <- !app_assoc. reflexivity.
Qed.

(* HTTP/2: every (dumper, writer) receives, in order, what the hook sequence
   field lines, CRLF, DATA payloads, CRLF CRLF  sends there - whether END_STREAM rides on the
   last DATA frame or on an empty one; and the wire is independent of the dumpers *)
Theorem h2_send_identity_log i o w ds enc frame frame_fin endstream fs chunks fin_last :
  NoDup (map fst ds) -> In (i, o) ds ->
  let '(sr, lg) := h2_send ds enc frame frame_fin endstream app_writer [] (mkH23Req fs (Some chunks) fin_last false) in
  sr_failed sr = false /\
  content i w lg =
  content i w (run_hooks ds (field_hooks HReqHeader fs ++ map HReqBody (filter nonempty chunks)
                             ++ [HReqBodyEnd sep23])).
Proof.
  intros ND HI. unfold h2_send. cbn [g_fields g_body g_fin_last g_aborted]. unfold app_writer at 1. cbn [app].
  pose proof (h2_write_data_app i o w ds frame frame_fin fin_last (enc fs) (h23_header_log ds fs)
                (filter nonempty chunks) ND HI) as H.
  destruct (h2_write_data ds frame frame_fin fin_last app_writer _ (filter nonempty chunks)) as [[st e] ended].
  destruct H as [-> [E H]].
  unfold h23_header_log in *. rewrite (content_run_hooks i o) by assumption.
  rewrite !flat_map_app.
  destruct ended; cbn [fst snd sr_failed].
  - split; [reflexivity|]. rewrite H, (content_run_hooks i o), flat_map_app by assumption. reflexivity.
  - unfold app_writer at 1. cbn [fst snd sr_failed]. split; [reflexivity|].
    rewrite content_app, H, (content_run_hooks i o), (content_emit_all i o) by assumption.
    cbn [app flat_map]. rewrite !app_nil_r, <- app_assoc. reflexivity.
Qed.

(* an upload that is abandoned (flow-control wait / body read ended by a response, a reset or a
   cancellation) before the frame carrying END_STREAM: every (dumper, writer) holds the header
   lines and exactly the payloads of the DATA frames that were written - what was read from the
   body but never framed is not dumped, and no separator follows *)
Lemma h2_write_data_plain_app frame frame_fin s cs :
  h2_write_data_plain frame frame_fin false app_writer s cs = (s ++ concat (map frame cs), false, false).
Proof.
  revert s. induction cs as [|p r IH]; intro s; cbn [h2_write_data_plain map concat andb].
  - now rewrite app_nil_r.
  - unfold app_writer at 1. rewrite IH, <- app_assoc. reflexivity.
Qed.

Theorem h2_send_aborted_log i o w ds enc frame frame_fin endstream fs chunks :
  NoDup (map fst ds) -> In (i, o) ds ->
  let '(sr, lg) := h2_send ds enc frame frame_fin endstream app_writer [] (mkH23Req fs (Some chunks) false true) in
  sr_state sr = enc fs ++ concat (map frame (filter nonempty chunks)) /\
  content i w lg =
  content i w (run_hooks ds (field_hooks HReqHeader fs ++ map HReqBody (filter nonempty chunks))).
Proof.
  intros ND HI. unfold h2_send. cbn [g_fields g_body g_fin_last g_aborted]. unfold app_writer at 1. cbn [app].
  pose proof (h2_write_data_app i o w ds frame frame_fin false (enc fs) (h23_header_log ds fs)
                (filter nonempty chunks) ND HI) as H.
  pose proof (h2_write_data_transparent ds frame frame_fin false app_writer (enc fs) (h23_header_log ds fs)
                (filter nonempty chunks)) as T.
  rewrite h2_write_data_plain_app in T.
  destruct (h2_write_data ds frame frame_fin false app_writer _ (filter nonempty chunks)) as [[st e] ended].
  destruct H as [-> [E H]]. cbn [andb] in E. subst ended. cbn [fst snd sr_state].
  inversion T as [T1]. split; [reflexivity|].
  unfold h23_header_log in *. rewrite H, !(content_run_hooks i o), !flat_map_app by assumption.
  cbn [app]. now rewrite app_nil_r.
Qed.

(* HTTP/3 (repaired): wire = header block ++ body writes; log = field lines, CRLF, each Write,
   and CRLF CRLF iff at least one byte was written *)
Theorem h3_send_identity_log ds enc fs chunks fl :
  h3_send ds enc app_writer [] (mkH23Req fs (Some chunks) fl false) =
  (mkSend (enc fs ++ concat chunks) false false,
   run_hooks ds (field_hooks HReqHeader fs ++ map HReqBody chunks
                 ++ (if Nat.eqb (total_len chunks) 0 then [] else [HReqBodyEnd sep23]))).
Proof.
  unfold h3_send. cbn [g_fields g_body]. unfold app_writer at 1. cbn [app].
  pose proof (logged_wrap ds PReqB HReqBody (lift app_writer) app_writer _ (logged_lift app_writer)) as LW.
  rewrite (write_all_logged_st _ _ _ _ chunks LW), write_all_app. cbn [fst snd].
  unfold h23_header_log, add_hook. cbn [fst snd app].
  rewrite wtrace_app_writer by reflexivity.
  destruct (Nat.eqb (total_len chunks) 0); cbn [fst snd]; f_equal;
    unfold run_hooks; rewrite !flat_map_app; cbn [flat_map]; rewrite ?app_nil_r, ?app_assoc; reflexivity.
Qed.

(* no body: only the header lines *)
Theorem h23_send_nobody_log ds enc frame frame_fin endstream fs fl ab :
  snd (h2_send ds enc frame frame_fin endstream app_writer [] (mkH23Req fs None fl ab)) = run_hooks ds (field_hooks HReqHeader fs) /\
  snd (h3_send ds enc app_writer [] (mkH23Req fs None fl ab)) = run_hooks ds (field_hooks HReqHeader fs).
Proof. split; reflexivity. Qed.

(* ---------- response side: what each (dumper, writer) receives ---------- *)
(* HTTP/1.1 header block: a dumper with ResponseHeader on receives, at the writer resolved for
   that part, the fragments handed over by readLine in order (= the block as received, see
   h1_recv_header_faithful); every other (dumper, writer) receives nothing of it *)
Lemma content_header_emissions i o w ds frags :
  NoDup (map fst ds) -> In (i, o) ds ->
  content i w (header_emissions ds frags) =
  if enabled o PRespH && N.eqb w (resolve o PRespH) then concat frags else [].
Proof.
  intros ND HI. unfold header_emissions.
  assert (P : forall p, content i w (flat_map (fun d => raw_emit d (HRespHeader p)) (resp_header_dumpers ds)) =
                        if enabled o PRespH && N.eqb w (resolve o PRespH) then p else []).
  { intro p. clear frags. unfold resp_header_dumpers.
    induction ds as [|[j o'] ds IH]; cbn [filter flat_map map fst In] in *; [contradiction|].
    inversion ND as [|? ? Hn ND']; subst.
    destruct HI as [HI|HI].
    - inversion HI; subst. cbn [snd].
      assert (Z : content i w (flat_map (fun d => raw_emit d (HRespHeader p))
                                 (filter (fun d => enabled (snd d) PRespH) ds)) = []).
      { clear IH ND ND'. induction ds as [|[k o2] ds IH2]; cbn [filter flat_map]; [reflexivity|].
        cbn [map fst In] in Hn.
        assert (Nat.eqb i k = false) by (apply Nat.eqb_neq; intro; subst; apply Hn; now left).
        destruct (enabled (snd (k, o2)) PRespH); cbn [flat_map];
          [rewrite content_app; cbn [raw_emit]; rewrite content_dump_to, H; cbn [andb app]|];
          apply IH2; intro; apply Hn; now right. }
      destruct (enabled o PRespH); cbn [flat_map andb].
      + rewrite content_app, Z, app_nil_r. cbn [raw_emit]. rewrite content_dump_to, Nat.eqb_refl. reflexivity.
      + exact Z.
    - assert (E : Nat.eqb i j = false).
      { apply Nat.eqb_neq. intro. subst. apply Hn. change j with (fst (j, o)). now apply in_map. }
      cbn [snd]. destruct (enabled o' PRespH); cbn [flat_map].
      + rewrite content_app. cbn [raw_emit]. rewrite content_dump_to, E. cbn [andb app]. now apply IH.
      + now apply IH. }
  induction frags as [|f frags IH]; cbn [flat_map concat].
  - now destruct (enabled o PRespH && N.eqb w (resolve o PRespH)).
  - rewrite content_app, P, IH.
    destruct (enabled o PRespH && N.eqb w (resolve o PRespH)); [reflexivity|reflexivity].
Qed.

(* body reads: each delivered slice once, to the response-body writer; CRLF to Output at io.EOF *)
Definition read_bytes_for (o : options) (w : writer) (x : bytes * rstat) : bytes :=
  hook_bytes_for o w (HRespBody (fst x)) ++
  match snd x with REnd => hook_bytes_for o w HRespBodyEOF | _ => [] end.

Lemma content_rtee_log i o w ds b e :
  NoDup (map fst ds) -> In (i, o) ds ->
  content i w (rtee_log ds b e) = read_bytes_for o w (b, e).
Proof.
  intros ND HI. unfold rtee_log, read_bytes_for. cbn [fst snd].
  assert (One : forall j o', content i w (if enabled (snd (j, o')) PRespB then read_emit (j, o') b e else []) =
                             if Nat.eqb i j then hook_bytes_for o' w (HRespBody b) ++
                                                 match e with REnd => hook_bytes_for o' w HRespBodyEOF | _ => [] end
                             else []).
  { intros j o'. cbn [snd]. unfold read_emit, hook_bytes_for. cbn [hook_part].
    destruct (enabled o' PRespB); cbn [negb].
    - rewrite content_app. cbn [raw_emit]. rewrite content_dump_to.
      destruct e; cbn [content]; rewrite ?content_dump_to; destruct (Nat.eqb i j); cbn [andb]; rewrite ?app_nil_r; reflexivity.
    - destruct (Nat.eqb i j); [destruct e|]; reflexivity. }
  induction ds as [|[j o'] ds IH]; cbn [flat_map map fst In] in *; [contradiction|].
  inversion ND as [|? ? Hn ND']; subst. rewrite content_app, One.
  destruct HI as [HI|HI].
  - inversion HI; subst. rewrite Nat.eqb_refl.
    assert (Z : content i w (flat_map (fun d => if enabled (snd d) PRespB then read_emit d b e else []) ds) = []).
    { clear IH ND ND'. induction ds as [|[k o2] ds IH2]; cbn [flat_map]; [reflexivity|].
      cbn [map fst In] in Hn. rewrite content_app, One.
      assert (Nat.eqb i k = false) as -> by (apply Nat.eqb_neq; intro; subst; apply Hn; now left).
      apply IH2. intro. apply Hn. now right. }
    now rewrite Z, app_nil_r.
  - assert (Nat.eqb i j = false) as ->.
    { apply Nat.eqb_neq. intro. subst. apply Hn. change j with (fst (j, o)). now apply in_map. }
    now apply IH.
Qed.

Lemma content_rtrace {St} i o w ds (r : rfn St) s sizes :
  NoDup (map fst ds) -> In (i, o) ds ->
  content i w (rtrace r (fun b e => [] ++ rtee_log ds b e) s sizes) =
  flat_map (read_bytes_for o w) (snd (read_all r s sizes)).
Proof.
  intros ND HI. revert s. induction sizes as [|k rest IH]; intro s; cbn [rtrace read_all]; [reflexivity|].
  destruct (r s k) as [[s' b] e]. cbn [app]. rewrite content_app, (content_rtee_log i o) by assumption.
  destruct e; cbn [snd flat_map]; rewrite ?app_nil_r; try reflexivity.
  rewrite IH. destruct (read_all r s' rest) as [s'' l]. reflexivity.
Qed.

(* h2 / h3 response: per (dumper, writer), the field lines + CRLF, then every delivered slice,
   then CRLF at EOF - each routed as the options say *)
Theorem h23_recv_content {St} i o w ds fs (r : rfn St) b0 sizes :
  NoDup (map fst ds) -> In (i, o) ds ->
  content i w (snd (h23_recv ds fs r b0 sizes)) =
  flat_map (hook_bytes_for o w) (field_hooks HRespHeader fs) ++
  flat_map (read_bytes_for o w) (snd (read_all r b0 sizes)).
Proof.
  intros ND HI. unfold h23_recv.
  pose proof (read_all_log (wrap_reader ds (rlift r)) r _ b0 (h23_resp_header_log ds fs) sizes
               (rlogged_wrap ds (rlift r) r _ (rlogged_lift r))) as H.
  destruct (read_all (wrap_reader ds (rlift r)) (b0, h23_resp_header_log ds fs) sizes) as [st reads].
  cbn [fst snd] in *. rewrite H, content_app, (content_rtrace i o) by assumption.
  unfold h23_resp_header_log. now rewrite (content_run_hooks i o) by assumption.
Qed.

(* HTTP/1.1 response: per (dumper, writer), the header block exactly as received (dumped ++ unread
   = stream by h1_recv_header_faithful), then the body slices and the CRLF at EOF *)
Theorem h1_recv_content {St} i o w ds n stream (r : rfn St) b0 sizes :
  NoDup (map fst ds) -> In (i, o) ds -> should_dump ds = true ->
  let '(lines, e, rest, frags) := read_block read_line_dump n (S (length stream)) stream [] [] in
  content i w (snd (h1_recv ds n stream r b0 sizes)) =
  (if enabled o PRespH && N.eqb w (resolve o PRespH) then concat frags else []) ++
  match e with
  | BBlank => flat_map (read_bytes_for o w) (snd (read_all r b0 sizes))
  | _ => []
  end.
Proof.
  intros ND HI SD. unfold h1_recv, h1_recv_gen. rewrite SD.
  destruct (read_block read_line_dump n (S (length stream)) stream [] []) as [[[lines e] rest] frags].
  destruct e.
  - pose proof (read_all_log (wrap_reader ds (rlift r)) r _ b0 (header_emissions ds frags) sizes
                 (rlogged_wrap ds (rlift r) r _ (rlogged_lift r))) as H.
    destruct (read_all (wrap_reader ds (rlift r)) (b0, header_emissions ds frags) sizes) as [st reads].
    cbn [fst snd] in *. rewrite H, content_app, (content_rtrace i o), (content_header_emissions i o) by assumption.
    reflexivity.
  - cbn [snd]. rewrite (content_header_emissions i o), app_nil_r by assumption. reflexivity.
  - cbn [snd]. rewrite (content_header_emissions i o), app_nil_r by assumption. reflexivity.
Qed.

(* ---------- chunk-by-chunk flushing of a streamed upload ---------- *)
From ReqV Require Import Model.C13Run.

Definition stream_req : h1_request :=
  mkH1Req [bs "POST /up HTTP/1.1" ++ crlf ++ bs "Transfer-Encoding: chunked" ++ crlf ++ crlf]
          (Some [bs "part one"; bs "part two"]) true false.

(* the version that makes the *bufio.Writer assertion on the body-dump-wrapped writer flushes the
   chunks only when no request-body dumper is installed: turning the dump on changes WHEN the
   bytes leave (here: how often the connection is flushed) *)
Lemma chunk_flush_wrapped_not_transparent :
  sr_state (fst (h1_send_f_wrapped count_flush [(0, opts_all 7%N)] count_w ([], 0) stream_req)) <>
  sr_state (h1_send_plain_f count_flush count_w ([], 0) stream_req).
Proof. vm_compute. discriminate. Qed.

(* over a healthy connection every non-empty chunk of a streamed upload is followed by a Flush,
   whatever dumpers are installed *)
Definition chunk_frame (p : bytes) : bytes := hex_of_N (N.of_nat (length p)) ++ crlf ++ p ++ crlf.

Lemma chunked_count_step s k x p :
  chunked_writer_f count_flush count_w (s, k) (x :: p) =
  ((s ++ chunk_frame (x :: p), S k), length (x :: p), false).
Proof.
  unfold chunked_writer_f, count_w, count_flush, chunk_frame. cbn [fst snd].
  rewrite Nat.eqb_refl. cbn [negb fst snd]. rewrite <- !app_assoc. reflexivity.
Qed.

Lemma write_all_chunked_count cs s k :
  write_all (chunked_writer_f count_flush count_w) (s, k) cs =
  ((s ++ concat (map chunk_frame (filter nonempty cs)), k + length (filter nonempty cs)), false).
Proof.
  revert s k. induction cs as [|p r IH]; intros s k; cbn [write_all filter map concat length].
  - now rewrite app_nil_r, Nat.add_0_r.
  - destruct p as [|x p].
    + change (nonempty []) with false. cbn iota. change (chunked_writer_f count_flush count_w (s, k) []) with ((s, k), 0, false).
      cbn iota. apply IH.
    + change (nonempty (x :: p)) with true. cbn iota. rewrite chunked_count_step. cbn iota.
      rewrite IH. cbn [map concat length]. rewrite <- app_assoc, Nat.add_succ_r. reflexivity.
Qed.

Theorem h1_streamed_upload_flushes_every_chunk ds hw chunks :
  let sr := fst (h1_send_f count_flush ds count_w ([], 0) (mkH1Req hw (Some chunks) true false)) in
  sr_failed sr = false /\ snd (sr_state sr) = length (filter nonempty chunks).
Proof.
  cbv zeta. rewrite h1_send_f_transparent. unfold h1_send_plain_f.
  cbn [q_header_writes q_body q_chunked q_expect_continue].
  assert (W : forall ps s k, write_all count_w (s, k) ps = ((s ++ concat ps, k), false)).
  { induction ps as [|p r IH]; intros s k; cbn [write_all concat]; [now rewrite app_nil_r|].
    unfold count_w at 1. cbn [fst snd]. rewrite IH, app_assoc. reflexivity. }
  rewrite W, write_all_chunked_count, !W. cbn [sr_failed sr_state snd]. split; reflexivity.
Qed.

(* ---------- exchanges do not leak into each other's dumpers ---------- *)
Lemma content_run_hooks_notin i w ds hs :
  ~ In i (map fst ds) -> content i w (run_hooks ds hs) = [].
Proof.
  intro H. unfold run_hooks. induction hs as [|h hs IH]; cbn [flat_map]; [reflexivity|].
  now rewrite content_app, content_emit_all_notin, IH.
Qed.

(* a dumper that belongs to one exchange of a sequence (a request-level dumper) receives exactly
   what that exchange alone gives it - nothing of the exchanges before or after it on the same
   client / connection; a dumper present in every exchange (client level) receives the
   concatenation *)
Theorem sequence_concatenates i w xs :
  content i w (run_sequence xs) = flat_map (fun x => content i w (run_hooks (fst x) (snd x))) xs.
Proof.
  unfold run_sequence. induction xs as [|x xs IH]; cbn [flat_map]; [reflexivity|].
  now rewrite content_app, IH.
Qed.

Theorem exchange_isolation i w (before : list (list dumper * list hook)) (ds : list dumper) hs
                           (after : list (list dumper * list hook)) :
  (forall x, In x before -> ~ In i (map fst (fst x))) ->
  (forall x, In x after -> ~ In i (map fst (fst x))) ->
  content i w (run_sequence (before ++ (ds, hs) :: after)) = content i w (run_hooks ds hs).
Proof.
  intros Hb Ha. rewrite sequence_concatenates, flat_map_app. cbn [flat_map fst snd].
  assert (Z : forall xs : list (list dumper * list hook),
             (forall x, In x xs -> ~ In i (map fst (fst x))) ->
             flat_map (fun x : list dumper * list hook => content i w (run_hooks (fst x) (snd x))) xs = []).
  { induction xs as [|x xs IH]; intro H; cbn [flat_map]; [reflexivity|].
    rewrite content_run_hooks_notin by (apply H; now left).
    apply IH. intros y Hy. apply H. now right. }
  now rewrite (Z before Hb), (Z after Ha), app_nil_r.
Qed.
