(* Proofs/H3FrameProofs.v - HTTP/3 frame layer (RFC 9114 §7.1, §7.2.4) as implemented by
   internal/http3/frames.go: frame headers are two varints, SETTINGS round trip, what ParseNext
   skips and what it refuses. *)
From Coq Require Import Lia ZifyBool ZifyNat ZifyN Permutation.
From ReqV Require Import Lib.Bytes Lib.BytesFacts Lib.BigEndian Proofs.BigEndianFacts
  Model.QuicVarint Proofs.QuicVarintProofs Model.H3Frame.
Open Scope N_scope.

(* ---------- varint encodings, minimal or not ---------- *)
(* e is one of the forms the decoder accepts for v (what Append / AppendWithLen write) *)
Definition is_enc (e : bytes) (v : N) : Prop :=
  exists n, vi_lenok n /\ v < 2 ^ (8 * n - 2) /\ e = vi_form n v.

Lemma vi_read_enc e v rest : is_enc e v -> vi_read (e ++ rest) = Some (v, rest).
Proof. intros (n & L & H & ->). apply vi_read_form; assumption. Qed.

Lemma vi_append_enc v : v < 2 ^ 62 -> exists e l, vi_append v = Some e /\ vi_len v = Some l /\ is_enc e v /\ lenN e = l.
Proof.
  intro H. destruct (vi_len v) as [l|] eqn:E.
  - exists (vi_form l v), l. destruct (vi_len_some v l E) as (L & B & _).
    repeat split; [apply vi_append_form; exact E | exists l; auto | apply vi_form_lenN].
  - rewrite vi_len_spec in E.
    repeat match type of E with context [?a <? ?b] => destruct (N.ltb_spec a b); try discriminate end. lia.
Qed.

Lemma is_enc_nonempty e v : is_enc e v -> (0 < length e)%nat.
Proof. intros (n & L & _ & ->). rewrite vi_form_length. unfold vi_lenok in L. lia. Qed.

Lemma vi_read_shorter b v r : vi_read b = Some (v, r) -> (length r < length b)%nat.
Proof.
  rewrite vi_read_parse. destruct (vi_parse b) as [v' n| |] eqn:P; try discriminate.
  intro E. inversion E; subst. destruct (vi_parse_inv b v n P) as (L & _ & Hn & _).
  rewrite skipn_length. unfold lenN in Hn. unfold vi_lenok in L. lia.
Qed.

(* ---------- fuel ---------- *)
Lemma parse_next_fuel_irrelevant body f1 : forall f2 input,
  (length input < f1)%nat -> (length input < f2)%nat ->
  h3_parse_next_fuel body f1 input = h3_parse_next_fuel body f2 input.
Proof.
  induction f1 as [|f1 IH]; intros f2 input H1 H2; [lia|].
  destruct f2 as [|f2]; [lia|]. cbn [h3_parse_next_fuel].
  destruct (vi_read input) as [[t r1]|] eqn:R1; [|reflexivity].
  destruct (vi_read r1) as [[l r2]|] eqn:R2; [|reflexivity].
  pose proof (vi_read_shorter _ _ _ R1). pose proof (vi_read_shorter _ _ _ R2).
  repeat match goal with |- context [if ?c then _ else _] => destruct c; try reflexivity end.
  apply IH; rewrite skipn_length; lia.
Qed.

Lemma parse_next_unfold body input :
  h3_parse_next_b body input =
  match vi_read input with
  | None => (H3Err (match input with [] => H3EOF | _ => trunc_err body end), [])
  | Some (t, r1) =>
    match vi_read r1 with
    | None => (H3Err (trunc_err body), [])
    | Some (l, r2) =>
      if t =? h3FrameData then (H3Ok (H3Data l), r2)
      else if t =? h3FrameHeaders then (H3Ok (H3Headers l), r2)
      else if t =? h3FrameSettings then h3_settings_arm body (h3_parse_settings_frame r2 l)
      else if memN t h3ReservedTypes then (H3Err (H3Reserved t), r2)
      else if lenN r2 <? l then (H3Err (trunc_err body), [])
      else h3_parse_next_b body (skipn (N.to_nat l) r2)
    end
  end.
Proof.
  unfold h3_parse_next_b at 1. cbn [h3_parse_next_fuel].
  destruct (vi_read input) as [[t r1]|] eqn:R1; [|reflexivity].
  destruct (vi_read r1) as [[l r2]|] eqn:R2; [|reflexivity].
  pose proof (vi_read_shorter _ _ _ R1). pose proof (vi_read_shorter _ _ _ R2).
  repeat match goal with |- context [if ?c then _ else _] => destruct c; try reflexivity end.
  unfold h3_parse_next_b. apply parse_next_fuel_irrelevant; rewrite ?skipn_length; lia.
Qed.

(* ParseNext on  <type> <length> rest  for any accepted encodings of the two integers *)
Lemma parse_next_header body et el t l rest : is_enc et t -> is_enc el l ->
  h3_parse_next_b body (et ++ el ++ rest) =
    if t =? h3FrameData then (H3Ok (H3Data l), rest)
    else if t =? h3FrameHeaders then (H3Ok (H3Headers l), rest)
    else if t =? h3FrameSettings then h3_settings_arm body (h3_parse_settings_frame rest l)
    else if memN t h3ReservedTypes then (H3Err (H3Reserved t), rest)
    else if lenN rest <? l then (H3Err (trunc_err body), [])
    else h3_parse_next_b body (skipn (N.to_nat l) rest).
Proof.
  intros Et El. rewrite parse_next_unfold. rewrite (vi_read_enc et t) by exact Et.
  rewrite (vi_read_enc el l) by exact El. reflexivity.
Qed.

(* ---------- frame headers ---------- *)
(* dataFrame.Append / headersFrame.Append, read back by ParseNext: same type, same length, the
   payload left in the reader - and the same for every non-minimal encoding a peer may choose *)
Theorem h3_frame_header_roundtrip body t l rest : l < 2 ^ 62 ->
  (t = h3FrameData \/ t = h3FrameHeaders) ->
  exists hb, h3_frame_header t l = Some hb /\
    h3_parse_next_b body (hb ++ rest) = (H3Ok (if t =? h3FrameData then H3Data l else H3Headers l), rest).
Proof.
  intros Hl Ht.
  assert (Tt : t < 2 ^ 62) by (destruct Ht; subst; reflexivity).
  destruct (vi_append_enc t Tt) as (et & lt & At & _ & Et & _).
  destruct (vi_append_enc l Hl) as (el & ll & Al & _ & El & _).
  exists (et ++ el). unfold h3_frame_header. rewrite At, Al. split; [reflexivity|].
  rewrite <- app_assoc. rewrite (parse_next_header body et el t l rest Et El).
  destruct Ht; subst; reflexivity.
Qed.

Theorem h3_frame_header_any_encoding body et el t l rest : is_enc et t -> is_enc el l ->
  (t = h3FrameData -> h3_parse_next_b body (et ++ el ++ rest) = (H3Ok (H3Data l), rest)) /\
  (t = h3FrameHeaders -> h3_parse_next_b body (et ++ el ++ rest) = (H3Ok (H3Headers l), rest)) /\
  (In t h3ReservedTypes -> h3_parse_next_b body (et ++ el ++ rest) = (H3Err (H3Reserved t), rest)).
Proof.
  intros Et El. rewrite (parse_next_header body et el t l rest Et El). repeat split.
  - intros ->. reflexivity.
  - intros ->. reflexivity.
  - intro I. cbn in I. destruct I as [<-|[<-|[<-|[<-|[]]]]]; reflexivity.
Qed.

(* every other frame type - the four known ones the client does not act on, GREASE, extensions -
   is skipped with its payload: the stream stays in step *)
Theorem h3_unknown_frame_skipped body et el t p rest : is_enc et t -> is_enc el (lenN p) ->
  t <> h3FrameData -> t <> h3FrameHeaders -> t <> h3FrameSettings -> ~ In t h3ReservedTypes ->
  h3_parse_next_b body (et ++ el ++ p ++ rest) = h3_parse_next_b body rest.
Proof.
  intros Et El N0 N1 N4 NR. rewrite (parse_next_header body et el t (lenN p) (p ++ rest) Et El).
  destruct (N.eqb_spec t h3FrameData); [contradiction|].
  destruct (N.eqb_spec t h3FrameHeaders); [contradiction|].
  destruct (N.eqb_spec t h3FrameSettings); [contradiction|].
  assert (M : memN t h3ReservedTypes = false).
  { cbn. cbn in NR.
    repeat match goal with |- context [t =? ?c] => destruct (N.eqb_spec t c); [exfalso; apply NR; subst; tauto|] end.
    reflexivity. }
  rewrite M.
  destruct (N.ltb_spec (lenN (p ++ rest)) (lenN p)) as [C|C]; [rewrite lenN_app in C; lia|].
  unfold lenN. rewrite Nat2N.id. rewrite skipn_app, skipn_all, Nat.sub_diag. reflexivity.
Qed.

(* a frame whose announced payload is not all there: io.EOF *)
Theorem h3_unknown_frame_truncated body et el t l rest : is_enc et t -> is_enc el l ->
  t <> h3FrameData -> t <> h3FrameHeaders -> t <> h3FrameSettings -> ~ In t h3ReservedTypes ->
  lenN rest < l -> h3_parse_next_b body (et ++ el ++ rest) = (H3Err (trunc_err body), []).
Proof.
  intros Et El N0 N1 N4 NR S. rewrite (parse_next_header body et el t l rest Et El).
  destruct (N.eqb_spec t h3FrameData); [contradiction|].
  destruct (N.eqb_spec t h3FrameHeaders); [contradiction|].
  destruct (N.eqb_spec t h3FrameSettings); [contradiction|].
  assert (M : memN t h3ReservedTypes = false).
  { cbn. cbn in NR.
    repeat match goal with |- context [t =? ?c] => destruct (N.eqb_spec t c); [exfalso; apply NR; subst; tauto|] end.
    reflexivity. }
  rewrite M. destruct (N.ltb_spec (lenN rest) l); [reflexivity|lia].
Qed.

(* ---------- SETTINGS payloads ---------- *)
(* b is a sequence of (identifier, value) pairs, each integer in any accepted encoding *)
Inductive enc_pairs : bytes -> list (N * N) -> Prop :=
| ep_nil : enc_pairs [] []
| ep_cons ei ev id v b ps : is_enc ei id -> is_enc ev v -> enc_pairs b ps ->
    enc_pairs (ei ++ ev ++ b) ((id, v) :: ps).

(* the parser's loop, on the decoded pairs *)
Fixpoint settings_fold (ps : list (N * N)) (rd rx : bool) (acc : h3settings) : h3res h3settings :=
  match ps with
  | [] => H3Ok acc
  | (id, v) :: r =>
      if id =? settingExtendedConnect then
        if rx then H3Err (H3DupSetting id)
        else if negb ((v =? 0) || (v =? 1)) then H3Err (H3BadSettingValue id v)
        else settings_fold r rd true (mk_settings (sf_datagram acc) (v =? 1) (sf_other acc))
      else if id =? settingDatagram then
        if rd then H3Err (H3DupSetting id)
        else if negb ((v =? 0) || (v =? 1)) then H3Err (H3BadSettingValue id v)
        else settings_fold r true rx (mk_settings (v =? 1) (sf_extconnect acc) (sf_other acc))
      else
        match assocN id (sf_other acc) with
        | Some _ => H3Err (H3DupSetting id)
        | None => settings_fold r rd rx (mk_settings (sf_datagram acc) (sf_extconnect acc) (sf_other acc ++ [(id, v)]))
        end
  end.

Lemma enc_pairs_length b ps : enc_pairs b ps -> (2 * length ps <= length b)%nat.
Proof.
  induction 1 as [|ei ev id v b ps Ei Ev _ IH]; [cbn; lia|].
  pose proof (is_enc_nonempty _ _ Ei). pose proof (is_enc_nonempty _ _ Ev).
  rewrite !app_length. cbn [length]. lia.
Qed.

Lemma settings_loop_fold b ps : enc_pairs b ps -> forall fuel rd rx acc,
  (length ps <= fuel)%nat -> h3_settings_loop fuel b rd rx acc = settings_fold ps rd rx acc.
Proof.
  induction 1 as [|ei ev id v b ps Ei Ev EP IH]; intros fuel rd rx acc F.
  - destruct fuel; reflexivity.
  - cbn [length] in F. destruct fuel as [|fuel]; [lia|].
    pose proof (is_enc_nonempty _ _ Ei) as NE.
    cbn [h3_settings_loop settings_fold].
    destruct (ei ++ ev ++ b) as [|c0 rest0] eqn:EB.
    { apply (f_equal (@length byte)) in EB. rewrite app_length in EB. cbn in EB. lia. }
    rewrite <- EB. rewrite (vi_read_enc ei id) by exact Ei. rewrite (vi_read_enc ev v) by exact Ev.
    repeat match goal with |- context [if ?c then _ else _] => destruct c; try reflexivity end;
      try (apply IH; lia).
Qed.

Lemma settings_payload_fold b ps : enc_pairs b ps ->
  h3_parse_settings_payload b = settings_fold ps false false (mk_settings false false []).
Proof.
  intro EP. unfold h3_parse_settings_payload. apply settings_loop_fold; [exact EP|].
  pose proof (enc_pairs_length _ _ EP). lia.
Qed.

(* ---- what the loop accepts: no identifier twice, the two boolean settings 0 or 1 ---- *)
Definition is_bool_setting (id : N) : bool := (id =? settingExtendedConnect) || (id =? settingDatagram).
Definition other_of (ps : list (N * N)) : list (N * N) := filter (fun p => negb (is_bool_setting (fst p))) ps.
Definition settings_value_ok (p : N * N) : Prop := is_bool_setting (fst p) = true -> snd p = 0 \/ snd p = 1.

Lemma assocN_none_iff x l : assocN x l = None <-> ~ In x (map fst l).
Proof.
  induction l as [|[k v] l IH]; cbn; [tauto|].
  destruct (N.eqb_spec k x); [subst; split; [discriminate | intro H; exfalso; apply H; left; reflexivity]|].
  rewrite IH. split; [intros H [E|I]; [congruence | exact (H I)] | tauto].
Qed.

Lemma assocN_app x a b : assocN x (a ++ b) = match assocN x a with Some v => Some v | None => assocN x b end.
Proof. induction a as [|[k v] a IH]; cbn; [reflexivity|]. destruct (k =? x); [reflexivity|exact IH]. Qed.

Lemma assocN_in x v l : NoDup (map fst l) -> In (x, v) l -> assocN x l = Some v.
Proof.
  induction l as [|[k w] l IH]; cbn; [tauto|]. intros ND [E|I].
  - inversion E; subst. rewrite N.eqb_refl. reflexivity.
  - inversion ND as [|? ? NI ND']; subst. destruct (N.eqb_spec k x); [subst; exfalso; apply NI; apply (in_map fst _ _ I)|].
    apply IH; assumption.
Qed.

Definition bools_of (ps : list (N * N)) (d0 e0 : bool) : bool * bool :=
  (match assocN settingDatagram ps with Some v => v =? 1 | None => d0 end,
   match assocN settingExtendedConnect ps with Some v => v =? 1 | None => e0 end).

Lemma sx_ne_sd : settingExtendedConnect <> settingDatagram. Proof. discriminate. Qed.
Lemma sd_eqb_sx : (settingDatagram =? settingExtendedConnect) = false. Proof. reflexivity. Qed.
Lemma sx_eqb_sd : (settingExtendedConnect =? settingDatagram) = false. Proof. reflexivity. Qed.
Local Opaque settingExtendedConnect settingDatagram.

Lemma is_bool_sx : is_bool_setting settingExtendedConnect = true.
Proof. unfold is_bool_setting. rewrite N.eqb_refl. reflexivity. Qed.
Lemma is_bool_sd : is_bool_setting settingDatagram = true.
Proof. unfold is_bool_setting. rewrite N.eqb_refl. apply Bool.orb_true_r. Qed.
Lemma is_bool_other id : id <> settingExtendedConnect -> id <> settingDatagram -> is_bool_setting id = false.
Proof.
  intros A B. unfold is_bool_setting. destruct (N.eqb_spec id settingExtendedConnect); [contradiction|].
  destruct (N.eqb_spec id settingDatagram); [contradiction|]. reflexivity.
Qed.
Lemma other_of_cons_bool id v ps : is_bool_setting id = true -> other_of ((id, v) :: ps) = other_of ps.
Proof. intro B. unfold other_of. cbn [filter fst]. rewrite B. reflexivity. Qed.
Lemma other_of_cons_other id v ps : is_bool_setting id = false -> other_of ((id, v) :: ps) = (id, v) :: other_of ps.
Proof. intro B. unfold other_of. cbn [filter fst]. rewrite B. reflexivity. Qed.
Lemma in_other_of k ps : In k (map fst (other_of ps)) <-> In k (map fst ps) /\ is_bool_setting k = false.
Proof.
  unfold other_of. rewrite !in_map_iff. split.
  - intros ([a b] & E & I). apply filter_In in I. cbn in *. subst a. destruct I as [I B].
    split; [exists (k, b); auto | destruct (is_bool_setting k); [discriminate|reflexivity]].
  - intros (([a b] & E & I) & B). cbn in E. subst a. exists (k, b). split; [reflexivity|].
    apply filter_In. split; [exact I|]. cbn. rewrite B. reflexivity.
Qed.

(* acceptance, stated on the decoded pairs and the loop state: rd / rx = the boolean setting was
   already seen, seen = identifiers already stored in Other *)
Definition accept_from (rd rx : bool) (seen : list N) (ps : list (N * N)) : Prop :=
  NoDup (map fst ps) /\ Forall settings_value_ok ps /\
  (rd = true -> ~ In settingDatagram (map fst ps)) /\
  (rx = true -> ~ In settingExtendedConnect (map fst ps)) /\
  (forall id, In id seen -> ~ In id (map fst (other_of ps))).

Lemma accept_from_nil rd rx seen : accept_from rd rx seen [].
Proof. unfold accept_from. cbn. repeat split; try constructor; tauto. Qed.

Lemma accept_from_sx rd rx seen v ps :
  accept_from rd rx seen ((settingExtendedConnect, v) :: ps) <->
  rx = false /\ (v = 0 \/ v = 1) /\ accept_from rd true seen ps.
Proof.
  unfold accept_from. cbn [map fst]. rewrite other_of_cons_bool by apply is_bool_sx. pose proof sx_ne_sd as DE. split.
  - intros (ND & FA & Hd & Hx & Ho). inversion ND as [|? ? NI ND']; subst. inversion FA as [|? ? OK FA']; subst.
    split; [destruct rx; [exfalso; apply Hx; [reflexivity|left; reflexivity]|reflexivity]|].
    split; [apply OK; apply is_bool_sx|]. repeat split; try assumption; try (intros _; assumption).
    intros R C. apply (Hd R). right. exact C.
  - intros (-> & V & ND & FA & Hd & Hx & Ho). repeat split.
    + constructor; [apply Hx; reflexivity|exact ND].
    + constructor; [intros _; exact V|exact FA].
    + intros R [C|C]; [congruence|exact (Hd R C)].
    + discriminate.
    + exact Ho.
Qed.

Lemma accept_from_sd rd rx seen v ps :
  accept_from rd rx seen ((settingDatagram, v) :: ps) <->
  rd = false /\ (v = 0 \/ v = 1) /\ accept_from true rx seen ps.
Proof.
  unfold accept_from. cbn [map fst]. rewrite other_of_cons_bool by apply is_bool_sd. pose proof sx_ne_sd as DE. split.
  - intros (ND & FA & Hd & Hx & Ho). inversion ND as [|? ? NI ND']; subst. inversion FA as [|? ? OK FA']; subst.
    split; [destruct rd; [exfalso; apply Hd; [reflexivity|left; reflexivity]|reflexivity]|].
    split; [apply OK; apply is_bool_sd|]. repeat split; try assumption; try (intros _; assumption).
    intros R C. apply (Hx R). right. exact C.
  - intros (-> & V & ND & FA & Hd & Hx & Ho). repeat split.
    + constructor; [apply Hd; reflexivity|exact ND].
    + constructor; [intros _; exact V|exact FA].
    + discriminate.
    + intros R [C|C]; [congruence|exact (Hx R C)].
    + exact Ho.
Qed.

Lemma accept_from_other rd rx seen id v ps : is_bool_setting id = false ->
  accept_from rd rx seen ((id, v) :: ps) <-> ~ In id seen /\ accept_from rd rx (seen ++ [id]) ps.
Proof.
  intro NB. unfold accept_from. cbn [map fst]. rewrite other_of_cons_other by exact NB. cbn [map fst].
  assert (N8 : id <> settingExtendedConnect) by (intros ->; rewrite is_bool_sx in NB; discriminate).
  assert (N33 : id <> settingDatagram) by (intros ->; rewrite is_bool_sd in NB; discriminate).
  split.
  - intros (ND & FA & Hd & Hx & Ho). inversion ND as [|? ? NI ND']; subst. inversion FA as [|? ? OK FA']; subst.
    split; [intro I; apply (Ho id I); left; reflexivity|]. repeat split; try assumption.
    + intros R C. apply (Hd R). right. exact C.
    + intros R C. apply (Hx R). right. exact C.
    + intros k Ik C. apply in_app_iff in Ik. destruct Ik as [Ik|[<-|[]]].
      * apply (Ho k Ik). right. exact C.
      * apply NI. apply in_other_of in C. tauto.
  - intros (NS & ND & FA & Hd & Hx & Ho). repeat split.
    + constructor; [|exact ND]. intro C. apply (Ho id); [apply in_app_iff; right; left; reflexivity|].
      apply in_other_of. split; assumption.
    + constructor; [intro C; cbn [fst] in C; congruence|exact FA].
    + intros R [C|C]; [congruence|exact (Hd R C)].
    + intros R [C|C]; [congruence|exact (Hx R C)].
    + intros k Ik [C|C]; [subst k; contradiction|]. apply (Ho k); [apply in_app_iff; left; exact Ik|exact C].
Qed.

Lemma assocN_some_in x l : (exists v, assocN x l = Some v) <-> In x (map fst l).
Proof.
  destruct (assocN x l) eqn:A.
  - split; [intros _|intros _; eexists; reflexivity].
    destruct (in_dec N.eq_dec x (map fst l)) as [I|NI]; [exact I|]. apply assocN_none_iff in NI. congruence.
  - apply assocN_none_iff in A. split; [intros [v H]; discriminate|contradiction].
Qed.

Lemma bool_value v : (v =? 0) || (v =? 1) = true <-> v = 0 \/ v = 1.
Proof. destruct (N.eqb_spec v 0); destruct (N.eqb_spec v 1); cbn; split; intros; try tauto; try discriminate; lia. Qed.

Lemma settings_fold_spec ps : forall rd rx acc,
  (exists s, settings_fold ps rd rx acc = H3Ok s) <-> accept_from rd rx (map fst (sf_other acc)) ps.
Proof.
  induction ps as [|[id v] ps IH]; intros rd rx acc.
  - cbn. split; [intros _; apply accept_from_nil | intros _; eexists; reflexivity].
  - cbn [settings_fold].
    destruct (N.eqb_spec id settingExtendedConnect) as [E8|N8].
    + subst id. rewrite accept_from_sx. destruct rx.
      * split; [intros [s H]; discriminate | intros [H _]; discriminate].
      * destruct ((v =? 0) || (v =? 1)) eqn:V; cbn [negb].
        -- rewrite IH. cbn [sf_other mk_settings]. apply bool_value in V. tauto.
        -- split; [intros [s H]; discriminate|]. intros (_ & V' & _). apply bool_value in V'. congruence.
    + destruct (N.eqb_spec id settingDatagram) as [E33|N33].
      * subst id. rewrite accept_from_sd. destruct rd.
        -- split; [intros [s H]; discriminate | intros [H _]; discriminate].
        -- destruct ((v =? 0) || (v =? 1)) eqn:V; cbn [negb].
           ++ rewrite IH. cbn [sf_other mk_settings]. apply bool_value in V. tauto.
           ++ split; [intros [s H]; discriminate|]. intros (_ & V' & _). apply bool_value in V'. congruence.
      * rewrite (accept_from_other rd rx _ id v ps) by (apply is_bool_other; assumption).
        destruct (assocN id (sf_other acc)) as [w|] eqn:A.
        -- split; [intros [s H]; discriminate|]. intros [NI _]. exfalso. apply NI. apply assocN_some_in. eauto.
        -- rewrite IH. cbn [sf_other mk_settings]. rewrite map_app. cbn [map fst].
           apply assocN_none_iff in A. tauto.
Qed.

(* what is delivered on acceptance *)
Lemma settings_fold_result ps : forall rd rx acc s,
  settings_fold ps rd rx acc = H3Ok s ->
  sf_other s = sf_other acc ++ other_of ps /\
  sf_datagram s = match assocN settingDatagram ps with Some v => v =? 1 | None => sf_datagram acc end /\
  sf_extconnect s = match assocN settingExtendedConnect ps with Some v => v =? 1 | None => sf_extconnect acc end.
Proof.
  induction ps as [|[id v] ps IH]; intros rd rx acc s H.
  - cbn in H. inversion H; subst. cbn. rewrite app_nil_r. repeat split; reflexivity.
  - assert (ACC : accept_from rd rx (map fst (sf_other acc)) ((id, v) :: ps)) by (apply settings_fold_spec; eauto).
    cbn [settings_fold] in H. cbn [assocN].
    destruct (N.eqb_spec id settingExtendedConnect) as [E8|N8].
    + subst id. rewrite sx_eqb_sd. rewrite other_of_cons_bool by apply is_bool_sx.
      apply accept_from_sx in ACC. destruct ACC as (-> & _ & _ & _ & _ & Hx & _).
      destruct (negb _); [discriminate|].
      apply IH in H. cbn [sf_other sf_datagram sf_extconnect mk_settings] in H. destruct H as (H1 & H2 & H3).
      repeat split; [exact H1|exact H2|]. rewrite H3.
      specialize (Hx eq_refl). apply assocN_none_iff in Hx. rewrite Hx. reflexivity.
    + destruct (N.eqb_spec id settingDatagram) as [E33|N33].
      * subst id. rewrite other_of_cons_bool by apply is_bool_sd.
        apply accept_from_sd in ACC. destruct ACC as (-> & _ & _ & _ & Hd & _ & _).
        destruct (negb _); [discriminate|].
        apply IH in H. cbn [sf_other sf_datagram sf_extconnect mk_settings] in H. destruct H as (H1 & H2 & H3).
        destruct (N.eqb_spec settingDatagram settingExtendedConnect) as [C|_]; [symmetry in C; destruct (sx_ne_sd C)|].
        repeat split; [exact H1| |exact H3]. rewrite H2.
        specialize (Hd eq_refl). apply assocN_none_iff in Hd. rewrite Hd. reflexivity.
      * rewrite other_of_cons_other by (apply is_bool_other; assumption).
        destruct (assocN id (sf_other acc)); [discriminate|].
        apply IH in H. cbn [sf_other sf_datagram sf_extconnect mk_settings] in H. destruct H as (H1 & H2 & H3).
        destruct (N.eqb_spec id settingDatagram); [contradiction|].
        rewrite <- app_assoc in H1. repeat split; assumption.
Qed.

(* ---- the SETTINGS payload grammar the parser accepts (RFC 9114 §7.2.4: no identifier twice;
        RFC 9220 / RFC 9297: the two boolean settings are 0 or 1) ---- *)
Theorem h3_settings_accept_iff b ps : enc_pairs b ps ->
  ((exists s, h3_parse_settings_payload b = H3Ok s) <->
   (NoDup (map fst ps) /\ Forall settings_value_ok ps)) /\
  (forall s, h3_parse_settings_payload b = H3Ok s ->
     sf_other s = other_of ps /\
     sf_datagram s = (match assocN settingDatagram ps with Some v => v =? 1 | None => false end) /\
     sf_extconnect s = (match assocN settingExtendedConnect ps with Some v => v =? 1 | None => false end)).
Proof.
  intro EP. rewrite (settings_payload_fold b ps EP). split.
  - rewrite settings_fold_spec. unfold accept_from. cbn [sf_other mk_settings map].
    split; [tauto|]. intros [ND FA]. repeat split; try assumption; try discriminate. intros id [].
  - intros s H. apply settings_fold_result in H. cbn [sf_other sf_datagram sf_extconnect mk_settings app] in H. exact H.
Qed.

(* ---- the writer ---- *)
Definition pair_in_range (p : N * N) : Prop := fst p < 2 ^ 62 /\ snd p < 2 ^ 62.

Lemma pair_bytes_enc p : pair_in_range p ->
  exists ei ev, h3_pair_bytes p = Some (ei ++ ev) /\ is_enc ei (fst p) /\ is_enc ev (snd p) /\
                h3_pair_len p = Some (lenN (ei ++ ev)).
Proof.
  intros [Hi Hv]. destruct (vi_append_enc _ Hi) as (ei & li & Ai & Li & Ei & Ni).
  destruct (vi_append_enc _ Hv) as (ev & lv & Av & Lv & Ev & Nv).
  exists ei, ev. unfold h3_pair_bytes, h3_pair_len. rewrite Ai, Av, Li, Lv. cbn [opt_app opt_add].
  repeat split; try assumption. rewrite lenN_app. congruence.
Qed.

Lemma pairs_bytes_enc ps : Forall pair_in_range ps ->
  exists b, h3_pairs_bytes ps = Some b /\ enc_pairs b ps /\ h3_pairs_len ps = Some (lenN b).
Proof.
  induction 1 as [|p ps Hp _ IH].
  - exists []. repeat split; constructor.
  - destruct IH as (b & Hb & EP & Hl). destruct (pair_bytes_enc p Hp) as (ei & ev & Hpb & Ei & Ev & Hpl).
    exists ((ei ++ ev) ++ b). cbn [h3_pairs_bytes h3_pairs_len]. rewrite Hb, Hpb, Hl, Hpl. cbn [opt_app opt_add].
    repeat split.
    + rewrite <- app_assoc. destruct p. constructor; assumption.
    + rewrite (lenN_app (ei ++ ev) b). reflexivity.
Qed.

(* the panic branch: Append panics iff some identifier or value does not fit 62 bits *)
Lemma pairs_len_some ps l : h3_pairs_len ps = Some l -> Forall pair_in_range ps.
Proof.
  revert l. induction ps as [|p ps IH]; intros l H; [constructor|].
  cbn [h3_pairs_len] in H. destruct (h3_pair_len p) as [lp|] eqn:Ep; [|discriminate].
  destruct (h3_pairs_len ps) as [lps|] eqn:Eps; [|discriminate]. constructor; [|eapply IH; reflexivity].
  unfold h3_pair_len in Ep. destruct (vi_len (fst p)) eqn:E1; [|discriminate].
  destruct (vi_len (snd p)) eqn:E2; [|discriminate].
  apply vi_len_some in E1. apply vi_len_some in E2. split; tauto.
Qed.
Lemma pairs_len_none ps : h3_pairs_len ps = None <-> ~ Forall pair_in_range ps.
Proof.
  split.
  - intros H FA. destruct (pairs_bytes_enc ps FA) as (b & _ & _ & Hl). congruence.
  - intro NFA. destruct (h3_pairs_len ps) eqn:E; [|reflexivity]. exfalso. apply NFA. eapply pairs_len_some; exact E.
Qed.

Definition other_pair_ok (p : N * N) : Prop := is_bool_setting (fst p) = false /\ pair_in_range p.

Lemma other_of_fixed_order d e order : Forall other_pair_ok order -> other_of (h3_fixed_pairs d e ++ order) = order.
Proof.
  intro FA. unfold other_of, h3_fixed_pairs. rewrite !filter_app.
  assert (F : filter (fun p : N * N => negb (is_bool_setting (fst p))) order = order).
  { induction FA as [|p ps [NB _] _ IH]; [reflexivity|]. cbn [filter]. rewrite NB. cbn [negb]. rewrite IH. reflexivity. }
  rewrite F. destruct d, e; cbn [filter fst]; rewrite ?is_bool_sx, ?is_bool_sd; reflexivity.
Qed.

Lemma not_bool_not_in k order : Forall other_pair_ok order -> is_bool_setting k = true -> ~ In k (map fst order).
Proof.
  intros FA B I. apply in_map_iff in I. destruct I as (p & <- & Ip).
  rewrite Forall_forall in FA. destruct (FA p Ip) as [NB _]. congruence.
Qed.

Lemma assocN_not_in k l : ~ In k (map fst l) -> assocN k l = None.
Proof. apply assocN_none_iff. Qed.

(* settingsFrame.Append then ParseNext: for every duplicate-free map of unrecognised settings, every
   iteration order of it, both flags, any bytes following - the frame is read back exactly (Other in
   the order written) as long as the payload is within the parser's own 8 KiB cap; beyond it the
   fork's own parser refuses what the fork wrote *)
Theorem h3_settings_roundtrip body d e order rest :
  NoDup (map fst order) -> Forall other_pair_ok order ->
  exists l, h3_settings_len d e order = Some l /\
    (l < 2 ^ 62 -> exists b, h3_settings_append d e order = Some b /\
       (l <= h3SettingsMaxLen ->
          h3_parse_next_b body (b ++ rest) = (H3Ok (H3Settings (mk_settings d e order)), rest)) /\
       (h3SettingsMaxLen < l -> fst (h3_parse_next_b body (b ++ rest)) = H3Err (H3SettingsTooLarge l))).
Proof.
  intros ND FA.
  set (ps := h3_fixed_pairs d e ++ order).
  assert (R : Forall pair_in_range ps).
  { unfold ps. apply Forall_app. split.
    - unfold h3_fixed_pairs. apply Forall_app. split; [destruct d|destruct e]; repeat constructor.
    - eapply Forall_impl; [|exact FA]. intros p [_ H]. exact H. }
  destruct (pairs_bytes_enc ps R) as (payload & Hb & EP & Hl).
  exists (lenN payload). split; [exact Hl|]. intro L62.
  destruct (vi_append_enc h3FrameSettings eq_refl) as (et & lt & At & _ & Et & _).
  destruct (vi_append_enc (lenN payload) L62) as (el & ll & Al & _ & El & _).
  exists ((et ++ el) ++ payload). split.
  { unfold h3_settings_append, h3_settings_len, h3_settings_payload. fold ps. rewrite Hl, At, Al, Hb. reflexivity. }
  rewrite <- !app_assoc.
  rewrite (parse_next_header body et el h3FrameSettings (lenN payload) (payload ++ rest) Et El).
  change (h3FrameSettings =? h3FrameData) with false. change (h3FrameSettings =? h3FrameHeaders) with false.
  change (h3FrameSettings =? h3FrameSettings) with true. cbv iota.
  unfold h3_parse_settings_frame. split.
  - intro Cap. destruct (N.ltb_spec h3SettingsMaxLen (lenN payload)); [lia|].
    destruct (N.ltb_spec (lenN (payload ++ rest)) (lenN payload)) as [C|_]; [rewrite lenN_app in C; lia|].
    replace (N.to_nat (lenN payload)) with (length payload) by (unfold lenN; lia).
    rewrite firstn_app, firstn_all, Nat.sub_diag, skipn_app, skipn_all, Nat.sub_diag.
    cbn [firstn skipn app]. rewrite app_nil_r.
    destruct (h3_settings_accept_iff payload ps EP) as [ACC RES].
    assert (OKs : exists s, h3_parse_settings_payload payload = H3Ok s).
    { apply ACC. split.
      - unfold ps, h3_fixed_pairs. rewrite !map_app. pose proof sx_ne_sd as DE.
        pose proof (not_bool_not_in _ _ FA is_bool_sx) as NX. pose proof (not_bool_not_in _ _ FA is_bool_sd) as NDg.
        destruct d, e; cbn [map fst app]; repeat constructor; cbn [In]; try tauto; try assumption;
          try (intros [C|C]; [congruence|tauto]).
      - unfold ps. apply Forall_app. split.
        + unfold h3_fixed_pairs. apply Forall_app. split; [destruct d|destruct e]; repeat constructor; intros _; right; reflexivity.
        + eapply Forall_impl; [|exact FA]. intros p [NB _] B. congruence. }
    destruct OKs as [s Hs]. rewrite Hs. destruct (RES s Hs) as (Ho & Hd & Hx).
    unfold ps in Ho, Hd, Hx. rewrite other_of_fixed_order in Ho by exact FA.
    assert (Dv : sf_datagram s = d).
    { rewrite Hd. unfold h3_fixed_pairs. pose proof (not_bool_not_in _ _ FA is_bool_sd) as NDg.
      destruct d, e; cbn [app assocN]; rewrite ?N.eqb_refl, ?sx_eqb_sd; try reflexivity;
        rewrite (assocN_not_in _ _ NDg); reflexivity. }
    assert (Xv : sf_extconnect s = e).
    { rewrite Hx. unfold h3_fixed_pairs. pose proof (not_bool_not_in _ _ FA is_bool_sx) as NX.
      destruct d, e; cbn [app assocN]; rewrite ?N.eqb_refl, ?sd_eqb_sx; try reflexivity;
        rewrite ?N.eqb_refl; try reflexivity; rewrite (assocN_not_in _ _ NX); reflexivity. }
    destruct s as [sd sx so]. cbn in Ho, Dv, Xv. subst. reflexivity.
  - intro Big. destruct (N.ltb_spec h3SettingsMaxLen (lenN payload)); [reflexivity|lia].
Qed.

(* "in any iteration order": two orders of the same map give frames of the same length that are
   both read back, to settings that are equal as maps *)
Theorem h3_settings_order_irrelevant body d e o1 o2 rest :
  Permutation o1 o2 -> NoDup (map fst o1) -> Forall other_pair_ok o1 ->
  exists l b1 b2, h3_settings_len d e o1 = Some l /\ h3_settings_len d e o2 = Some l /\
    (l <= h3SettingsMaxLen ->
      h3_settings_append d e o1 = Some b1 /\ h3_settings_append d e o2 = Some b2 /\
      lenN b1 = lenN b2 /\
      h3_parse_next_b body (b1 ++ rest) = (H3Ok (H3Settings (mk_settings d e o1)), rest) /\
      h3_parse_next_b body (b2 ++ rest) = (H3Ok (H3Settings (mk_settings d e o2)), rest)).
Proof.
  intros P ND1 FA1.
  assert (ND2 : NoDup (map fst o2)) by (eapply Permutation_NoDup; [apply Permutation_map; exact P|exact ND1]).
  assert (FA2 : Forall other_pair_ok o2) by (eapply Permutation_Forall; eassumption).
  destruct (h3_settings_roundtrip body d e o1 rest ND1 FA1) as (l1 & L1 & R1).
  destruct (h3_settings_roundtrip body d e o2 rest ND2 FA2) as (l2 & L2 & R2).
  assert (EQ : l1 = l2).
  { unfold h3_settings_len in L1, L2.
    assert (PL : forall a b, Permutation a b -> forall x, h3_pairs_len a = Some x -> h3_pairs_len b = Some x).
    { induction 1 as [|p a b _ IH|p q a|a b c _ IH1 _ IH2]; intros x Hx.
      - exact Hx.
      - cbn [h3_pairs_len] in *. destruct (h3_pair_len p); [|discriminate].
        destruct (h3_pairs_len a) eqn:Ea; [|discriminate]. rewrite (IH _ eq_refl). exact Hx.
      - cbn [h3_pairs_len] in *. destruct (h3_pair_len p); destruct (h3_pair_len q); try discriminate;
          destruct (h3_pairs_len a); try discriminate. cbn [opt_add] in *. inversion Hx. f_equal. lia.
      - apply IH2. apply IH1. exact Hx. }
    assert (P' : Permutation (h3_fixed_pairs d e ++ o1) (h3_fixed_pairs d e ++ o2)) by (apply Permutation_app_head; exact P).
    rewrite (PL _ _ P' _ L1) in L2. congruence. }
  subst l2. 
  destruct (N.lt_ge_cases l1 (2 ^ 62)) as [S|B].
  - destruct (R1 S) as (b1 & A1 & K1 & _). destruct (R2 S) as (b2 & A2 & K2 & _).
    exists l1, b1, b2. repeat split; try assumption; try (apply K1; assumption); try (apply K2; assumption).
    (* equal lengths: header of the same l + payload of length l *)
    unfold h3_settings_append in A1, A2. rewrite L1 in A1. rewrite L2 in A2.
    destruct (vi_append h3FrameSettings) as [et|]; [|discriminate].
    destruct (vi_append l1) as [el|]; [|discriminate]. cbn [opt_app] in A1, A2.
    unfold h3_settings_payload in A1, A2.
    destruct (h3_pairs_bytes (h3_fixed_pairs d e ++ o1)) as [p1|] eqn:E1; [|discriminate].
    destruct (h3_pairs_bytes (h3_fixed_pairs d e ++ o2)) as [p2|] eqn:E2; [|discriminate].
    cbn [opt_app] in A1, A2. inversion A1. inversion A2. rewrite !lenN_app. f_equal.
    assert (Q : forall ps b l, h3_pairs_bytes ps = Some b -> h3_pairs_len ps = Some l -> lenN b = l).
    { intros ps b l Hb Hl. pose proof (pairs_len_some _ _ Hl) as F. destruct (pairs_bytes_enc ps F) as (b' & Hb' & _ & Hl'). congruence. }
    unfold h3_settings_len in L1, L2. rewrite (Q _ _ _ E1 L1), (Q _ _ _ E2 L2). reflexivity.
  - exists l1, [], []. split; [exact L1|]. split; [exact L2|]. intro C. exfalso.
    change h3SettingsMaxLen with 8192 in C. change (2 ^ 62) with 4611686018427387904 in B. lia.
Qed.

(* ---------- the converse: whatever ParseNext returns, it read exactly this ---------- *)
Lemma vi_read_inv b v r : vi_read b = Some (v, r) -> exists e, is_enc e v /\ b = e ++ r.
Proof.
  rewrite vi_read_parse. destruct (vi_parse b) as [v' n| |] eqn:P; try discriminate.
  intro E. inversion E; subst. destruct (vi_parse_inv b v n P) as (L & B & _ & F).
  exists (vi_form n v). split; [exists n; auto|]. rewrite <- F. symmetry. apply firstn_skipn.
Qed.

Lemma settings_arm_ok body x f r : h3_settings_arm body x = (H3Ok f, r) -> x = (H3Ok f, r).
Proof. destruct x as [[y|e] r0]; cbn; [tauto|]. destruct e; cbn; try tauto; discriminate. Qed.

Definition skippable (t : N) : Prop :=
  t <> h3FrameData /\ t <> h3FrameHeaders /\ t <> h3FrameSettings /\ ~ In t h3ReservedTypes.

(* a run of complete frames of types the parser passes over *)
Inductive skipped_frames : bytes -> Prop :=
| sk_nil : skipped_frames []
| sk_cons et el t p r : is_enc et t -> is_enc el (lenN p) -> skippable t -> skipped_frames r ->
    skipped_frames (et ++ el ++ p ++ r).

Lemma memN_In t l : memN t l = true <-> In t l.
Proof.
  induction l as [|x l IH]; cbn; [split; [discriminate|tauto]|].
  rewrite Bool.orb_true_iff, IH, N.eqb_eq. split; intros [A|A]; auto.
Qed.

Theorem h3_parse_next_ok_inv body : forall input f rest, h3_parse_next_b body input = (H3Ok f, rest) ->
  exists sk et el t l bd, skipped_frames sk /\ is_enc et t /\ is_enc el l /\ input = sk ++ et ++ el ++ bd /\
    ((t = h3FrameData /\ f = H3Data l /\ rest = bd) \/
     (t = h3FrameHeaders /\ f = H3Headers l /\ rest = bd) \/
     (t = h3FrameSettings /\ l <= h3SettingsMaxLen /\
      exists payload s, bd = payload ++ rest /\ lenN payload = l /\
                        h3_parse_settings_payload payload = H3Ok s /\ f = H3Settings s)).
Proof.
  intro input. remember (length input) as n eqn:Hn. revert input Hn.
  induction n as [n IH] using lt_wf_ind. intros input Hn f rest H.
  rewrite parse_next_unfold in H.
  destruct (vi_read input) as [[t r1]|] eqn:R1; [|discriminate].
  destruct (vi_read r1) as [[l r2]|] eqn:R2; [|discriminate].
  destruct (vi_read_inv _ _ _ R1) as (et & Et & E1). destruct (vi_read_inv _ _ _ R2) as (el & El & E2).
  pose proof (is_enc_nonempty _ _ Et) as NEt.
  destruct (N.eqb_spec t h3FrameData) as [T0|T0].
  { inversion H; subst. exists [], et, el, h3FrameData, l, rest. repeat split; try assumption; [constructor|]. left. auto. }
  destruct (N.eqb_spec t h3FrameHeaders) as [T1|T1].
  { inversion H; subst. exists [], et, el, h3FrameHeaders, l, rest. repeat split; try assumption; [constructor|]. right. left. auto. }
  destruct (N.eqb_spec t h3FrameSettings) as [T4|T4].
  { apply settings_arm_ok in H. unfold h3_parse_settings_frame in H.
    destruct (N.ltb_spec h3SettingsMaxLen l); [discriminate|].
    destruct (N.ltb_spec (lenN r2) l); [discriminate|].
    destruct (h3_parse_settings_payload (firstn (N.to_nat l) r2)) as [s|] eqn:PS; [|discriminate].
    inversion H; subst. exists [], et, el, h3FrameSettings, l, r2. repeat split; try assumption; [constructor|].
    right. right. repeat split; [assumption|]. exists (firstn (N.to_nat l) r2), s.
    repeat split; [symmetry; apply firstn_skipn| |exact PS].
    unfold lenN in *. rewrite firstn_length. lia. }
  destruct (memN t h3ReservedTypes) eqn:M; [discriminate|].
  destruct (N.ltb_spec (lenN r2) l); [discriminate|].
  assert (SK : skippable t).
  { repeat split; try assumption. intro I. apply memN_In in I. congruence. }
  set (p := firstn (N.to_nat l) r2). set (r3 := skipn (N.to_nat l) r2).
  assert (Lp : lenN p = l) by (unfold p, lenN in *; rewrite firstn_length; lia).
  assert (E3 : r2 = p ++ r3) by (symmetry; apply firstn_skipn).
  destruct (IH (length r3)) with (input := r3) (f := f) (rest := rest) as (sk & et' & el' & t' & l' & bd & SKs & Et' & El' & E' & Cases); [|reflexivity|exact H|].
  { subst n. rewrite E1, E2, E3. rewrite !app_length. lia. }
  exists (et ++ el ++ p ++ sk), et', el', t', l', bd. repeat split; try assumption.
  - apply (sk_cons et el t p sk); try assumption. rewrite Lp. exact El.
  - rewrite E1, E2, E3, E'. rewrite <- !app_assoc. reflexivity.
Qed.

(* ---------- where the stream ends: between two frames or inside one ---------- *)
(* a stream that ends right behind complete skipped frames (GREASE, CANCEL_PUSH, GOAWAY, ...) is a
   clean end - io.EOF - on control streams AND on message-body streams: the "inside a frame" test
   starts afresh at every frame, whatever was skipped before *)
Theorem h3_skipped_then_end body input : skipped_frames input ->
  h3_parse_next_b body input = (H3Err H3EOF, []).
Proof.
  induction 1 as [|et el t p r Et El (N0 & N1 & N4 & NR) SK IH].
  - rewrite parse_next_unfold. reflexivity.
  - rewrite (h3_unknown_frame_skipped body et el t p r Et El N0 N1 N4 NR). exact IH.
Qed.

(* conversely, on a message-body stream a clean io.EOF means exactly that: a stream cut inside a
   frame type, a frame length, a skipped payload or a SETTINGS frame is never a clean end *)
Lemma settings_arm_body_not_eof x r : h3_settings_arm true x <> (H3Err H3EOF, r).
Proof. destruct x as [[y|e] r0]; cbn; [discriminate|]. destruct e; cbn; discriminate. Qed.

Theorem h3_body_eof_inv : forall input r, h3_parse_next_b true input = (H3Err H3EOF, r) -> skipped_frames input.
Proof.
  intro input. remember (length input) as n eqn:Hn. revert input Hn.
  induction n as [n IH] using lt_wf_ind. intros input Hn r H.
  rewrite parse_next_unfold in H.
  destruct (vi_read input) as [[t r1]|] eqn:R1.
  2:{ destruct input; [constructor|]. cbn [trunc_err] in H. discriminate. }
  destruct (vi_read r1) as [[l r2]|] eqn:R2; [|cbn [trunc_err] in H; discriminate].
  destruct (vi_read_inv _ _ _ R1) as (et & Et & E1). destruct (vi_read_inv _ _ _ R2) as (el & El & E2).
  pose proof (is_enc_nonempty _ _ Et) as NEt.
  destruct (N.eqb_spec t h3FrameData) as [T0|T0]; [discriminate|].
  destruct (N.eqb_spec t h3FrameHeaders) as [T1|T1]; [discriminate|].
  destruct (N.eqb_spec t h3FrameSettings) as [T4|T4]; [exfalso; exact (settings_arm_body_not_eof _ _ H)|].
  destruct (memN t h3ReservedTypes) eqn:M; [discriminate|].
  destruct (N.ltb_spec (lenN r2) l); [cbn [trunc_err] in H; discriminate|].
  assert (SK : skippable t).
  { repeat split; try assumption. intro I. apply memN_In in I. congruence. }
  set (p := firstn (N.to_nat l) r2) in *. set (r3 := skipn (N.to_nat l) r2) in *.
  assert (Lp : lenN p = l) by (unfold p, lenN in *; rewrite firstn_length; lia).
  assert (E3 : r2 = p ++ r3) by (symmetry; apply firstn_skipn).
  assert (SKs : skipped_frames r3).
  { apply (IH (length r3)) with (r := r); [|reflexivity|exact H]. subst n. rewrite E1, E2, E3. rewrite !app_length. lia. }
  rewrite E1, E2, E3. apply (sk_cons et el t p r3); try assumption. rewrite Lp. exact El.
Qed.

(* so: on a body stream, io.EOF <-> the stream is a run of complete skipped frames *)
Theorem h3_body_eof_iff input : (exists r, h3_parse_next_b true input = (H3Err H3EOF, r)) <-> skipped_frames input.
Proof.
  split; [intros [r H]; eapply h3_body_eof_inv; exact H|]. intro SK. exists []. apply h3_skipped_then_end. exact SK.
Qed.

(* the body-stream flag changes nothing but the name of the truncation error: same frames, same
   bytes left, and the same errors up to EOF / UnexpectedEOF *)
Definition same_up_to_eof (a b : h3res h3frame) : Prop :=
  match a, b with
  | H3Ok x, H3Ok y => x = y
  | H3Err H3EOF, H3Err (H3EOF | H3UnexpectedEOF) => True
  | H3Err x, H3Err y => x = y
  | _, _ => False
  end.
Theorem h3_body_flag_only_renames_eof : forall input,
  same_up_to_eof (fst (h3_parse_next_b false input)) (fst (h3_parse_next_b true input)) /\
  (forall f, fst (h3_parse_next_b false input) = H3Ok f -> h3_parse_next_b false input = h3_parse_next_b true input).
Proof.
  intro input. remember (length input) as n eqn:Hn. revert input Hn.
  induction n as [n IH] using lt_wf_ind. intros input Hn.
  rewrite !parse_next_unfold.
  destruct (vi_read input) as [[t r1]|] eqn:R1; [|destruct input; cbn; split; [trivial|discriminate|trivial|discriminate]].
  destruct (vi_read r1) as [[l r2]|] eqn:R2; [|cbn; split; [trivial|discriminate]].
  pose proof (vi_read_shorter _ _ _ R1). pose proof (vi_read_shorter _ _ _ R2).
  destruct (t =? h3FrameData); [cbn; split; [reflexivity|reflexivity]|].
  destruct (t =? h3FrameHeaders); [cbn; split; [reflexivity|reflexivity]|].
  destruct (t =? h3FrameSettings).
  { destruct (h3_parse_settings_frame r2 l) as [[x|e] r0]; cbn; [split; reflexivity|]. destruct e; cbn; split; trivial; discriminate. }
  destruct (memN t h3ReservedTypes); [cbn; split; [reflexivity|discriminate]|].
  destruct (lenN r2 <? l); [cbn; split; [trivial|discriminate]|].
  apply (IH (length (skipn (N.to_nat l) r2))); [|reflexivity]. rewrite skipn_length. lia.
Qed.
