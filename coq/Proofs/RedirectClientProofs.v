(* Proofs/RedirectClientProofs.v - lemmas about Model/RedirectClient.v (C11): a client's redirect
   decisions depend on its own policy history only; chains in flight through one client are
   independent of each other. *)
From ReqV Require Import Lib.Bytes Lib.BytesFacts Model.Authority Model.Redirect Model.RedirectClient.
From ReqV Require Import Proofs.RedirectProofs.
From Coq Require Import Lia.

(* ---------- set_nth / map_nth ---------- *)

Lemma set_nth_length {A} (x : A) : forall l n, length (set_nth n x l) = length l.
Proof. induction l as [|y r IH]; intros [|n]; cbn; auto. Qed.

Lemma set_nth_same {A} (x : A) : forall l n, n < length l -> nth_error (set_nth n x l) n = Some x.
Proof.
  induction l as [|y r IH]; intros [|n] H; cbn in *; try lia; try reflexivity; try (apply IH; lia).
Qed.

Lemma set_nth_other {A} (x : A) : forall l n m, n <> m -> nth_error (set_nth n x l) m = nth_error l m.
Proof.
  induction l as [|y r IH]; intros [|n] [|m] H; cbn; try reflexivity; try congruence; try (apply IH; lia).
Qed.

Lemma map_nth_length {A} (f : A -> A) : forall l n, length (map_nth f n l) = length l.
Proof. induction l as [|y r IH]; intros [|n]; cbn; auto. Qed.

Lemma map_nth_same {A} (f : A -> A) : forall l n,
  nth_error (map_nth f n l) n = option_map f (nth_error l n).
Proof. induction l as [|y r IH]; intros [|n]; cbn; auto. Qed.

Lemma map_nth_other {A} (f : A -> A) : forall l n m, n <> m ->
  nth_error (map_nth f n l) m = nth_error l m.
Proof.
  induction l as [|y r IH]; intros [|n] [|m] H; cbn; try reflexivity; try congruence; try (apply IH; lia).
Qed.

(* ---------- (1) clients ---------- *)

Lemma cstep_new w : cstep w ONew = (w ++ [[PDefault]], None).
Proof. reflexivity. Qed.

Lemma cstep_do_own w c cfg init hs targets :
  nth_error w c = Some cfg ->
  cstep w (ODo c init hs targets) = (w, Some (run_chain cfg init hs targets)).
Proof. intros H. cbn. now rewrite H. Qed.

Lemma cstep_set_empty w c : cstep w (OSet c []) = (w, None).
Proof. reflexivity. Qed.

(* the last call replaces what was configured before, it does not add to it *)
Lemma cstep_set_replaces w c ps :
  c < length w -> ps <> [] -> nth_error (fst (cstep w (OSet c ps))) c = Some ps.
Proof.
  intros Hc Hps. destruct ps as [|p ps]; [congruence|]. cbn [cstep fst]. now apply set_nth_same.
Qed.

Lemma cstep_clone_copies w c cfg :
  nth_error w c = Some cfg -> cstep w (OClone c) = (w ++ [cfg], None).
Proof. intros H. cbn. now rewrite H. Qed.

Lemma cstep_length_mono w o : length w <= length (fst (cstep w o)).
Proof.
  destruct o as [|c ps|c|c i hs t|c]; cbn.
  - rewrite app_length. cbn. lia.
  - destruct ps; cbn; [lia|]. rewrite set_nth_length. lia.
  - destruct (nth_error w c); cbn; [rewrite app_length; cbn|]; lia.
  - destruct (nth_error w c); cbn; lia.
  - lia.
Qed.

(* frame: nothing but SetRedirectPolicy on c itself changes what c holds - in particular not
   SetRedirectPolicy on the client c was cloned from, or on a clone of c, not Clone, not a request *)
Lemma cstep_frame w o c :
  c < length w -> (forall ps, o <> OSet c ps) ->
  nth_error (fst (cstep w o)) c = nth_error w c.
Proof.
  intros Hc Ho. destruct o as [|d ps|d|d i hs t|d]; cbn.
  - now rewrite nth_error_app1.
  - destruct ps as [|p ps]; [reflexivity|]. cbn [fst]. apply set_nth_other. intros ->. now apply (Ho (p :: ps)).
  - destruct (nth_error w d); cbn [fst]; [now rewrite nth_error_app1|reflexivity].
  - destruct (nth_error w d); reflexivity.
  - reflexivity.
Qed.

(* a request leaves every client's configuration alone *)
Lemma cstep_do_world w c init hs targets : fst (cstep w (ODo c init hs targets)) = w.
Proof. cbn. destruct (nth_error w c); reflexivity. Qed.

(* two worlds that agree on client c keep agreeing on c - and give the same outcomes for the
   requests through c - when the second one is told nothing about the other clients' policies and
   requests *)
Lemma client_independence_gen c : forall ops w1 w2,
  length w1 = length w2 -> c < length w1 -> nth_error w1 c = nth_error w2 c ->
  crun_of c w1 ops = crun_of c w2 (erase_foreign c ops).
Proof.
  induction ops as [|o r IH]; intros w1 w2 Hl Hc He; [reflexivity|].
  cbn [erase_foreign map]. fold (erase_foreign c r).
  destruct o as [|d ps|d|d i hs t|d]; cbn [erase1].
  - cbn [crun_of cstep]. apply IH.
    + rewrite !app_length. cbn [length]. lia.
    + rewrite app_length. cbn [length]. lia.
    + rewrite !nth_error_app1 by lia. exact He.
  - destruct (Nat.eqb d c) eqn:Ed.
    + apply Nat.eqb_eq in Ed. subst d. destruct ps as [|p ps]; cbn [crun_of cstep].
      * now apply IH.
      * apply IH.
        -- now rewrite !set_nth_length.
        -- now rewrite set_nth_length.
        -- rewrite !set_nth_same by lia. reflexivity.
    + apply Nat.eqb_neq in Ed. destruct ps as [|p ps]; cbn [crun_of cstep].
      * now apply IH.
      * apply IH.
        -- now rewrite set_nth_length.
        -- now rewrite set_nth_length.
        -- now rewrite set_nth_other.
  - cbn [crun_of cstep].
    destruct (nth_error w1 d) as [c1|] eqn:E1; destruct (nth_error w2 d) as [c2|] eqn:E2.
    + apply IH.
      * rewrite !app_length. cbn [length]. lia.
      * rewrite app_length. cbn [length]. lia.
      * rewrite !nth_error_app1 by lia. exact He.
    + exfalso. apply nth_error_None in E2. assert (d < length w1) by (apply nth_error_Some; congruence). lia.
    + exfalso. apply nth_error_None in E1. assert (d < length w2) by (apply nth_error_Some; congruence). lia.
    + now apply IH.
  - destruct (Nat.eqb d c) eqn:Ed.
    + apply Nat.eqb_eq in Ed. subst d. cbn [crun_of cstep]. rewrite <- He.
      destruct (nth_error w1 c) as [cfg|] eqn:E1.
      * rewrite Nat.eqb_refl. f_equal. apply IH; congruence.
      * apply IH; congruence.
    + cbn [crun_of cstep]. destruct (nth_error w1 d); [rewrite Ed|]; now apply IH.
  - cbn [crun_of cstep]. now apply IH.
Qed.

Lemma client_independence c w ops :
  c < length w -> crun_of c w ops = crun_of c w (erase_foreign c ops).
Proof. intros H. now apply client_independence_gen. Qed.

(* what c holds at the end is decided by c's own last non-empty SetRedirectPolicy, whatever came
   after it on other clients *)
Lemma crun_world_frame c : forall ops w,
  c < length w -> (forall ps, ~ In (OSet c ps) ops) ->
  nth_error (fst (crun w ops)) c = nth_error w c.
Proof.
  induction ops as [|o r IH]; intros w Hc Hn; [reflexivity|].
  cbn [crun]. destruct (cstep w o) as [w' oc] eqn:Es. destruct (crun w' r) as [wf l] eqn:Er.
  cbn [fst]. assert (Hw' : w' = fst (cstep w o)) by now rewrite Es.
  replace wf with (fst (crun w' r)) by now rewrite Er.
  rewrite IH.
  - subst w'. apply cstep_frame; [assumption|]. intros ps ->. apply (Hn ps). now left.
  - subst w'. pose proof (cstep_length_mono w o). lia.
  - intros ps Hin. apply (Hn ps). now right.
Qed.

Lemma own_last_set_decides c ps w pre post :
  c < length (fst (crun w pre)) -> ps <> [] -> (forall qs, ~ In (OSet c qs) post) ->
  nth_error (fst (crun w (pre ++ OSet c ps :: post))) c = Some ps.
Proof.
  revert w. induction pre as [|o r IH]; intros w Hc Hps Hn.
  - cbn [app crun]. cbn [crun fst] in Hc.
    destruct (cstep w (OSet c ps)) as [w' oc] eqn:Es. destruct (crun w' post) as [wf l] eqn:Er.
    cbn [fst]. replace wf with (fst (crun w' post)) by now rewrite Er.
    assert (Hw' : w' = fst (cstep w (OSet c ps))) by now rewrite Es.
    rewrite crun_world_frame.
    + subst w'. now apply cstep_set_replaces.
    + subst w'. pose proof (cstep_length_mono w (OSet c ps)). lia.
    + exact Hn.
  - cbn [app crun] in *. destruct (cstep w o) as [w' oc].
    destruct (crun w' r) as [wf1 l1] eqn:E1. cbn [fst] in Hc.
    specialize (IH w'). rewrite E1 in IH. cbn [fst] in IH.
    destruct (crun w' (r ++ OSet c ps :: post)) as [wf l]. cbn [fst] in *. now apply IH.
Qed.

(* a clone starts with what its source holds at the moment of cloning and keeps it whatever the
   source, or anybody else, is told afterwards *)
Lemma clone_keeps_snapshot w c cfg post :
  nth_error w c = Some cfg -> (forall qs, ~ In (OSet (length w) qs) post) ->
  nth_error (fst (crun w (OClone c :: post))) (length w) = Some cfg.
Proof.
  intros Hc Hn. cbn [crun]. rewrite (cstep_clone_copies _ _ _ Hc).
  destruct (crun (w ++ [cfg]) post) as [wf l] eqn:Er. cbn [fst].
  replace wf with (fst (crun (w ++ [cfg]) post)) by now rewrite Er.
  rewrite crun_world_frame.
  - rewrite nth_error_app2 by lia. now rewrite Nat.sub_diag.
  - rewrite app_length. cbn. lia.
  - exact Hn.
Qed.

(* the b-m1 design (clone's CheckRedirect bound to the source's field) is a different machine *)
Lemma method_value_design_refuted :
  exists ops, crun_mv ([], []) ops <> snd (crun [] ops).
Proof.
  exists [ONew; OSet 0 [PNo]; OClone 0; OSet 0 [PMax 5]; ODo 1 (bs "a.test") [(bs "Authorization", 1)] [bs "b.test"]].
  vm_compute. intros H. discriminate H.
Qed.

(* ---------- (2) chains in flight through one client ---------- *)

Lemma hop_ended ps k e : k_status k = Ended e -> hop ps k = k.
Proof. intros H. unfold hop. now rewrite H. Qed.

Lemma hop_n_ended ps : forall n k e, k_status k = Ended e -> hop_n n ps k = k.
Proof.
  induction n as [|n IH]; intros k e H; [reflexivity|]. cbn [hop_n].
  rewrite (hop_ended _ _ _ H). now apply (IH k e).
Qed.

Lemma hop_n_add ps : forall a b k, hop_n (a + b) ps k = hop_n b ps (hop_n a ps k).
Proof. induction a as [|a IH]; intros b k; [reflexivity|]. cbn [Nat.add hop_n]. apply IH. Qed.

(* at ANY moment of ANY schedule, chain i is where it would be had it run alone for as many
   deliveries as the schedule gave it: what the other chains did is irrelevant *)
Lemma run_sched_nth ps : forall sched ks i,
  nth_error (run_sched ps sched ks) i =
  option_map (hop_n (count_occ Nat.eq_dec sched i) ps) (nth_error ks i).
Proof.
  induction sched as [|j r IH]; intros ks i.
  - cbn. now destruct (nth_error ks i).
  - cbn [run_sched count_occ]. rewrite IH. destruct (Nat.eq_dec j i) as [->|Hne].
    + rewrite map_nth_same. destruct (nth_error ks i); reflexivity.
    + now rewrite map_nth_other.
Qed.

(* a chain run alone to its end is run_chain's tail *)
Lemma hop_n_follow ps init hs : forall todo via strip sent n,
  length todo < n ->
  chain_result (hop_n n ps {| k_init := init; k_hdrs := hs; k_via := via; k_strip := strip; k_todo := todo;
                              k_sent := sent; k_status := Running |}) =
  (sent ++ fst (follow ps init hs via strip todo), Some (snd (follow ps init hs via strip todo))).
Proof.
  induction todo as [|t rest IH]; intros via strip sent n Hn.
  - destruct n as [|n]; [cbn in Hn; lia|]. cbn [hop_n]. unfold hop at 1. cbn [k_status k_todo].
    erewrite hop_n_ended by reflexivity. cbn. now rewrite app_nil_r.
  - destruct n as [|n]; [cbn in Hn; lia|]. cbn [hop_n]. unfold hop at 1.
    cbn [k_status k_todo k_init k_hdrs k_via k_strip k_sent follow].
    destruct (all_permit ps t via) eqn:Hp.
    + rewrite IH by (cbn in Hn; lia).
      destruct (follow ps init hs (via ++ [t]) (strip || negb (bytes_eqb init t) && negb (should_copy init t)) rest)
        as [l e]. cbn [fst snd]. now rewrite <- app_assoc.
    + erewrite hop_n_ended by reflexivity. cbn. now rewrite app_nil_r.
Qed.

Lemma hop_n_run_chain ps init hs targets n :
  length targets < n ->
  chain_result (hop_n n ps (chain_start init hs targets)) =
  (fst (run_chain ps init hs targets), Some (snd (run_chain ps init hs targets))).
Proof.
  intros Hn. unfold chain_start. rewrite hop_n_follow by assumption. unfold run_chain.
  destruct (follow ps init hs [init] false targets) as [l e]. reflexivity.
Qed.

(* every chain that the schedule lets run to its end ends exactly as if it had been alone *)
Lemma interleaved_chains_independent ps sched chains i init hs targets :
  nth_error chains i = Some (init, hs, targets) ->
  length targets < count_occ Nat.eq_dec sched i ->
  option_map chain_result
    (nth_error (run_sched ps sched (map (fun c => chain_start (fst (fst c)) (snd (fst c)) (snd c)) chains)) i) =
  Some (fst (run_chain ps init hs targets), Some (snd (run_chain ps init hs targets))).
Proof.
  intros Hi Hn. rewrite run_sched_nth, nth_error_map, Hi. cbn [option_map fst snd].
  now rewrite hop_n_run_chain.
Qed.

(* ---------- (3) several requests for one named URL ---------- *)

(* every request the operation makes is a chain of its own from the NAMED authority *)
Lemma reissue_each_is_a_chain ps init hs : forall scripts o,
  In o (reissue ps init hs scripts) -> exists t, In t scripts /\ o = run_chain ps init hs t.
Proof.
  induction scripts as [|t r IH]; intros o; cbn [reissue]; [intros []|].
  intros [Ho | Ho].
  - exists t. split; [now left|now symmetry].
  - destruct (snd (run_chain ps init hs t)); [|destruct Ho].
    destruct (IH o Ho) as [t' [Hin He]]. exists t'. split; [now right|assumption].
Qed.

Lemma run_chain_head ps init hs t :
  exists l, fst (run_chain ps init hs t) = {| s_host := init; s_hdrs := hs |} :: l.
Proof.
  unfold run_chain. destruct (follow ps init hs [init] false t) as [l e]. now exists l.
Qed.

(* ... so it starts at the named authority with the caller's headers ... *)
Lemma reissue_starts_at_named ps init hs scripts o :
  In o (reissue ps init hs scripts) ->
  exists l, fst o = {| s_host := init; s_hdrs := hs |} :: l.
Proof.
  intros Ho. apply reissue_each_is_a_chain in Ho as [t [_ ->]]. apply run_chain_head.
Qed.

Lemma run_chain_tail_in_follow ps init hs t s :
  In s (tl (fst (run_chain ps init hs t))) -> In s (fst (follow ps init hs [init] false t)).
Proof.
  unfold run_chain. destruct (follow ps init hs [init] false t) as [l e]. cbn [fst tl]. auto.
Qed.

(* ... every other host it reaches was permitted by every policy as a redirect from the named one ... *)
Lemma reissue_other_hosts_permitted ps init hs scripts o s :
  In o (reissue ps init hs scripts) -> In s (tl (fst o)) ->
  exists ext, all_permit ps (s_host s) (init :: ext) = true.
Proof.
  intros Ho Hs. apply reissue_each_is_a_chain in Ho as [t [_ ->]].
  now apply chain_sent_permitted in Hs.
Qed.

(* ... and gets a sensitive header only as Go's cross-origin rule (or an AlwaysCopy policy) allows *)
Lemma reissue_sensitive ps init hs scripts o s n k :
  is_sensitive n = true -> mem_bytes n (always_names ps) = false ->
  In o (reissue ps init hs scripts) -> In s (tl (fst o)) -> In (n, k) (s_hdrs s) -> k <> 0 ->
  s_host s = init \/ should_copy init (s_host s) = true.
Proof.
  intros Hsens Hnot Ho Hs Hin Hk. apply reissue_each_is_a_chain in Ho as [t [_ ->]].
  apply run_chain_tail_in_follow in Hs.
  now destruct (follow_sensitive ps init hs n Hsens Hnot t [init] false s k Hs Hin Hk).
Qed.

(* the c-m1 design hands the caller's Authorization to a host it only learned from a redirect *)
Lemma reissue_from_final_refuted :
  exists ps init hs scripts o s,
    In o (reissue_from_final ps init hs scripts) /\ In s (fst o) /\
    In (bs "Authorization", 1) (s_hdrs s) /\
    s_host s <> init /\ should_copy init (s_host s) = false /\
    (forall o' s', In o' (reissue ps init hs scripts) -> In s' (fst o') ->
                   s_host s' <> init -> In (bs "Authorization", 0) (s_hdrs s')).
Proof.
  exists [PDefault], (bs "api.a.test"), [(bs "Authorization", 1)],
         [[bs "files.b.test"]; [bs "files.b.test"]].
  eexists. eexists. split; [right; left; reflexivity|]. split; [left; reflexivity|].
  split; [left; reflexivity|]. split; [vm_compute; discriminate|]. split; [reflexivity|].
  intros o' s' Ho Hs Hne. vm_compute in Ho.
  destruct Ho as [<-|[<-|[]]]; vm_compute in Hs; destruct Hs as [<-|[<-|[]]];
    try (exfalso; apply Hne; reflexivity); left; reflexivity.
Qed.

(* ---------- the digest-auth re-send ---------- *)

(* every request of a digest call is a request of its chain, or goes to the NAMED host *)
Lemma digest_call_requests ps init hs targets s :
  In s (fst (digest_call ps init hs targets)) ->
  In s (fst (run_chain ps init hs targets)) \/ s_host s = init.
Proof.
  unfold digest_call. destruct (snd (run_chain ps init hs targets)); cbn [fst].
  - intros H. apply in_app_or in H as [H|[<-|[]]]; [now left|now right].
  - now left.
Qed.

(* ... so a host other than the named one gets a sensitive header only as the chain theorems allow:
   the digest answer (and the caller's other headers with it) is never delivered there *)
Lemma digest_call_sensitive ps init hs targets s n k :
  is_sensitive n = true -> mem_bytes n (always_names ps) = false ->
  In s (fst (digest_call ps init hs targets)) -> In (n, k) (s_hdrs s) -> k <> 0 ->
  s_host s = init \/ should_copy init (s_host s) = true.
Proof.
  intros Hsens Hnot Hs Hin Hk. apply digest_call_requests in Hs as [Hs|Hs]; [|now left].
  destruct (run_chain_head ps init hs targets) as [l Hl]. rewrite Hl in Hs.
  destruct Hs as [<-|Hs]; [now left|].
  assert (Ht : In s (tl (fst (run_chain ps init hs targets)))) by now rewrite Hl.
  apply run_chain_tail_in_follow in Ht.
  now destruct (follow_sensitive ps init hs n Hsens Hnot targets [init] false s k Ht Hin Hk).
Qed.

(* at most one request more than the chain, and only when the chain was not refused *)
Lemma digest_call_refused ps init hs targets :
  snd (run_chain ps init hs targets) = Refused ->
  digest_call ps init hs targets = run_chain ps init hs targets.
Proof. unfold digest_call. now intros ->. Qed.

(* the d-m1 design delivers the digest answer and the caller's Cookie to a host only learned from
   a redirect; the code's machine delivers neither *)
Lemma digest_call_last_hop_refuted :
  exists ps init hs targets s,
    In s (fst (digest_call_last_hop ps init hs targets)) /\
    s_host s <> init /\ should_copy init (s_host s) = false /\
    In (bs "Authorization", 1) (s_hdrs s) /\ In (bs "Cookie", 1) (s_hdrs s) /\
    (forall s', In s' (fst (digest_call ps init hs targets)) -> s_host s' <> init ->
                In (bs "Authorization", 0) (s_hdrs s') /\ In (bs "Cookie", 0) (s_hdrs s')).
Proof.
  exists [PMax 3; PAllowedHost [bs "other.test"]], (bs "origin.test"),
         [(bs "Authorization", 0); (bs "Cookie", 1)], [bs "other.test"].
  eexists. split; [right; right; left; reflexivity|].
  split; [vm_compute; discriminate|]. split; [reflexivity|].
  split; [left; reflexivity|]. split; [right; left; reflexivity|].
  intros s' Hs Hne. vm_compute in Hs.
  destruct Hs as [<-|[<-|[<-|[]]]]; try (exfalso; apply Hne; reflexivity).
  split; [left; reflexivity|right; left; reflexivity].
Qed.

(* ---------- the other configuration methods ---------- *)

Lemma cstep_other w c : cstep w (OOther c) = (w, None).
Proof. reflexivity. Qed.

(* whatever other configuration calls are made, in whatever order with SetRedirectPolicy, the
   outcomes of all requests are those of the history without them *)
Definition drop_other (ops : list cop) : list cop :=
  filter (fun o => match o with OOther _ => false | _ => true end) ops.

Lemma crun_ignores_other : forall ops w, crun w (drop_other ops) = crun w ops.
Proof.
  induction ops as [|o r IH]; intros w; [reflexivity|].
  destruct o; cbn [drop_other filter]; fold (drop_other r);
    try (cbn [crun]; destruct (cstep w _) as [w' oc]; now rewrite IH).
  cbn [crun cstep]. rewrite IH. now destruct (crun w r).
Qed.

(* the e-m1 design (the http.Client rebuilt without CheckRedirect) is a different machine *)
Lemma rebuild_design_refuted :
  exists ops, crun_rebuild [] ops <> snd (crun [] ops).
Proof.
  exists [ONew; OSet 0 [PNo]; OOther 0; ODo 0 (bs "a.test") [(bs "X-Api-Key", 1)] [bs "b.test"]].
  vm_compute. intros H. discriminate H.
Qed.
