(* Proofs/H2HdrLimitProofs.v - what the frame reader enforces is what the connection advertised (C07) *)
From ReqV Require Import Lib.Bytes Model.H2HdrLimit.
From Coq Require Import Lia ZifyBool ZifyN.
Open Scope N_scope.

Definition fopt (cs : list (N * N)) (acc : option N) : option N :=
  fold_left (fun acc s => if fst s =? SETTING_MHLS then Some (snd s) else acc) cs acc.
Definition fval (cs : list (N * N)) (acc : N) : N :=
  fold_left (fun acc s => if fst s =? SETTING_MHLS then snd s else acc) cs acc.

Lemma fopt_some : forall cs a, fopt cs (Some a) = Some (fval cs a).
Proof.
  unfold fopt, fval. induction cs as [|[i v] r IH]; intros a; cbn [fold_left fst snd]; [reflexivity|].
  destruct (i =? SETTING_MHLS); apply IH.
Qed.

Lemma fopt_none : forall cs a, match fopt cs None with Some v => fval cs a = v | None => fval cs a = a end.
Proof.
  induction cs as [|[i v] r IH]; intros a; [reflexivity|].
  unfold fopt, fval in *. cbn [fold_left fst snd]. destruct (i =? SETTING_MHLS).
  - pose proof (fopt_some r v) as H. unfold fopt, fval in H. rewrite H. reflexivity.
  - apply IH.
Qed.

(* a custom SETTINGS frame that names MAX_HEADER_LIST_SIZE: the framer enforces exactly the value
   that goes out on the wire (0xffffffff = no limit, 0 = the 10 MiB default), on the FIRST connection
   of the transport and on every later one, whatever the transport held before *)
Theorem framer_limit_is_advertised t k t' lim v :
  t_custom t <> [] -> nth_conn true k t = (t', lim, Some v) -> lim = max_header_list_size v.
Proof.
  revert t. induction k as [|k IH]; intros t Hc; cbn [nth_conn new_conn].
  - intros E. inversion E; subst. clear E. unfold advertised, copy_custom in *. cbn [t_custom t_mhls] in *.
    destruct (t_custom t) as [|c cs] eqn:Ec; [contradiction|].
    pose proof (fopt_none (c :: cs) (t_mhls t)) as F. unfold fopt, fval in F.
    rewrite H2 in F. now rewrite F.
  - intros E. apply (IH (copy_custom t)); [exact Hc|exact E].
Qed.

(* without a custom frame the default frame carries the transport's own limit *)
Theorem framer_limit_default_frame t :
  t_custom t = [] -> let '(_, lim, adv) := new_conn true t in
  lim = max_header_list_size (t_mhls t) /\ (adv = None <-> lim = 0) /\ (forall v, adv = Some v -> v = lim).
Proof.
  intros Hc. unfold new_conn, copy_custom, advertised. rewrite Hc. cbn [fold_left t_mhls t_custom].
  destruct (max_header_list_size (t_mhls t) =? 0) eqn:E; repeat split; try congruence; try lia;
    try (intros v H; inversion H; subst; reflexivity); try (intros v H; discriminate).
Qed.

(* the variant that sizes the framer before the copy: the first connection of a transport configured
   through the SETTINGS frame enforces the 10 MiB default while advertising 4096; the second is right *)
Theorem framer_before_copy_refuted :
  let t := {| t_mhls := 0; t_custom := [(2, 0); (6, 4096)] |} in
  snd (fst (nth_conn false 0 t)) = 10485760 /\ snd (nth_conn false 0 t) = Some 4096 /\
  snd (fst (nth_conn false 1 t)) = 4096 /\ snd (fst (nth_conn true 0 t)) = 4096.
Proof. cbn. repeat split. Qed.
