(* Proofs/ChunkFooterProofs.v - C03: a chunk that carries more bytes than its declared size, or
   whose data is not followed by CRLF, ends the body in "malformed chunked encoding" after
   exactly the declared bytes - whatever precedes it (well-formed chunks), whatever follows, and
   - the reader being a function of the bytes received - however the bytes were segmented. *)
From ReqV Require Import Lib.Bytes Lib.BytesFacts Model.BodyFraming Proofs.BodyFramingProofs.
From Coq Require Import Lia ZifyBool ZifyNat ZifyN.

(* the chunk whose footer is wrong: size line and data as declared, then two bytes a b that
   are not CR LF *)
Lemma bad_footer_step : forall c f a b rest, wf_chunk c -> (beqb a CR && beqb b LF) = false ->
  chunk_loop (S f) (size_line (c_size c) (c_ext c) ++ c_data c ++ a :: b :: rest) =
  mkRd (c_data c) MalformedChunk rest false [].
Proof.
  intros c f a b rest [Hl Hne] Hab.
  cbn [chunk_loop]. rewrite (read_chunk_line_ok _ _ _ _ Hl).
  destruct Hl as (_ & _ & ->).
  destruct (N.of_nat (length (c_data c)) =? 0)%N eqn:E.
  { apply N.eqb_eq in E. destruct (c_data c); [congruence|cbn in E; lia]. }
  rewrite take_N_exact. cbn [N.eqb negb]. rewrite Hab. reflexivity.
Qed.

Theorem overlong_chunk_rejected_thm : forall cs c a b rest,
  Forall wf_chunk cs -> wf_chunk c -> (beqb a CR && beqb b LF) = false ->
  read_chunked (render_chunks cs ++ size_line (c_size c) (c_ext c) ++ c_data c ++ a :: b :: rest) =
  mkRd (chunks_data cs ++ c_data c) MalformedChunk rest false [].
Proof.
  intros cs c a b rest Hcs Hc Hab. unfold read_chunked.
  set (tail := size_line (c_size c) (c_ext c) ++ c_data c ++ a :: b :: rest).
  assert (G : forall f, length cs < f ->
            chunk_loop f (render_chunks cs ++ tail) = mkRd (chunks_data cs ++ c_data c) MalformedChunk rest false []).
  { induction Hcs as [|c0 cs Hc0 Hcs IH]; intros f Hf.
    - destruct f; [cbn in Hf; lia|]. cbn [render_chunks concat map app chunks_data].
      unfold tail. apply bad_footer_step; assumption.
    - destruct f; [cbn in Hf; lia|]. rewrite render_chunks_cons, <- app_assoc.
      rewrite chunk_step by assumption. rewrite IH by (cbn [length] in Hf; lia).
      rewrite chunks_data_cons, <- app_assoc. reflexivity. }
  apply G. rewrite app_length. pose proof (length_render_chunks_ge cs). lia.
Qed.

(* in particular: extra bytes x (not starting with CR LF) in front of the chunk's CRLF - the
   over-long chunk - and whatever follows: the same result; the bytes behind are not delivered *)
Corollary overlong_chunk_data_thm : forall cs c a b rest,
  Forall wf_chunk cs -> wf_chunk c -> (beqb a CR && beqb b LF) = false ->
  let r := read_chunked (render_chunks cs ++ size_line (c_size c) (c_ext c) ++ c_data c ++ a :: b :: rest) in
  rd_err r = MalformedChunk /\ rd_data r = chunks_data cs ++ c_data c /\ is_clean (rd_err r) = false.
Proof.
  intros cs c a b rest Hcs Hc Hab. cbv zeta. rewrite overlong_chunk_rejected_thm by assumption.
  repeat split.
Qed.
