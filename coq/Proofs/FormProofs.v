(* Proofs/FormProofs.v - url-encoded form bodies round-trip (C17). *)
From Coq Require Import Lia.
From ReqV Require Import Lib.Bytes Lib.BytesFacts Model.Form.

(* ---------- escaping ---------- *)

Lemma unescape_escape_byte c r :
  query_unescape (escape_byte c ++ r) =
  match query_unescape r with Some t => Some (c :: t) | None => None end.
Proof. destruct c; cbn; destruct (query_unescape r); reflexivity. Qed.

Lemma query_escape_cons c s : query_escape (c :: s) = escape_byte c ++ query_escape s.
Proof. reflexivity. Qed.

Theorem unescape_escape s : query_unescape (query_escape s) = Some s.
Proof.
  induction s as [|c s IH]; [reflexivity|].
  rewrite query_escape_cons, unescape_escape_byte, IH. reflexivity.
Qed.

Lemma escape_byte_clean c :
  mem_byte amp (escape_byte c) = false /\ mem_byte eqs (escape_byte c) = false /\
  mem_byte semi (escape_byte c) = false.
Proof. destruct c; vm_compute; auto. Qed.

Lemma query_escape_clean s :
  mem_byte amp (query_escape s) = false /\ mem_byte eqs (query_escape s) = false /\
  mem_byte semi (query_escape s) = false.
Proof.
  induction s as [|c s (A & B & C)]; [auto|].
  rewrite query_escape_cons, !mem_byte_app.
  destruct (escape_byte_clean c) as (a & b & d). rewrite a, b, d, A, B, C. auto.
Qed.

(* what stays literal: exactly the unreserved set *)
Lemma escape_byte_literal c :
  escape_byte c = [c] <-> (is_alnum c || mem_byte c (bs "-_.~")) = true.
Proof. destruct c; vm_compute; split; intro H; try reflexivity; discriminate H. Qed.

(* ---------- encode_pairs as a join ---------- *)

Definition seg (kv : bytes * bytes) : bytes :=
  query_escape (fst kv) ++ [eqs] ++ query_escape (snd kv).

Lemma seg_nonempty kv : seg kv <> [].
Proof. unfold seg. destruct (query_escape (fst kv)); discriminate. Qed.

Lemma fold_add_pair_nonempty ps : forall buf, buf <> [] ->
  fold_left add_pair ps buf = buf ++ flat_map (fun p => amp :: seg p) ps.
Proof.
  induction ps as [|p ps IH]; intros buf Hb; cbn [fold_left flat_map].
  - now rewrite app_nil_r.
  - rewrite IH.
    + unfold add_pair. destruct buf as [|b0 buf]; [contradiction|].
      fold (seg p). rewrite <- !app_assoc. reflexivity.
    + unfold add_pair. destruct buf; [contradiction|]. discriminate.
Qed.

Lemma encode_pairs_cons p ps :
  encode_pairs (p :: ps) = seg p ++ flat_map (fun q => amp :: seg q) ps.
Proof.
  unfold encode_pairs. cbn [fold_left].
  change (add_pair [] p) with (seg p).
  apply fold_add_pair_nonempty, seg_nonempty.
Qed.

Lemma seg_clean kv : mem_byte amp (seg kv) = false /\ mem_byte semi (seg kv) = false.
Proof.
  unfold seg. rewrite !mem_byte_app.
  destruct (query_escape_clean (fst kv)) as (a & _ & c).
  destruct (query_escape_clean (snd kv)) as (a' & _ & c').
  rewrite a, a', c, c'. split; reflexivity.
Qed.

(* ---------- split / cut ---------- *)

Lemma split_byte_nonnil c s : exists f fs, split_byte c s = f :: fs.
Proof.
  induction s as [|x r (f & fs & E)]; cbn [split_byte]; [eauto|].
  rewrite E. destruct (beqb x c); eauto.
Qed.

Lemma split_byte_clean c a : mem_byte c a = false -> split_byte c a = [a].
Proof.
  induction a as [|x a IH]; intro H; [reflexivity|].
  rewrite mem_byte_cons in H. apply Bool.orb_false_iff in H as (H1 & H2).
  cbn [split_byte]. rewrite (IH H2). rewrite beqb_sym, H1. reflexivity.
Qed.

Lemma split_byte_app_sep c a r :
  mem_byte c a = false -> split_byte c (a ++ c :: r) = a :: split_byte c r.
Proof.
  induction a as [|x a IH]; intro H.
  - cbn [app split_byte]. destruct (split_byte_nonnil c r) as (f & fs & E). rewrite E.
    now rewrite beqb_refl.
  - rewrite mem_byte_cons in H. apply Bool.orb_false_iff in H as (H1 & H2).
    cbn [app split_byte]. rewrite (IH H2). rewrite beqb_sym, H1. reflexivity.
Qed.

Lemma cut_byte_app c a b : mem_byte c a = false -> cut_byte c (a ++ c :: b) = (a, b).
Proof.
  induction a as [|x a IH]; intro H.
  - cbn. now rewrite beqb_refl.
  - rewrite mem_byte_cons in H. apply Bool.orb_false_iff in H as (H1 & H2).
    cbn [app cut_byte]. rewrite beqb_sym, H1, (IH H2). reflexivity.
Qed.

Lemma split_flat ps : forall a, mem_byte amp a = false ->
  split_byte amp (a ++ flat_map (fun q => amp :: seg q) ps) = a :: map seg ps.
Proof.
  induction ps as [|p ps IH]; intros a H.
  - cbn [flat_map map]. rewrite app_nil_r. now apply split_byte_clean.
  - cbn [flat_map map]. rewrite <- app_comm_cons.
    rewrite split_byte_app_sep by exact H. f_equal. apply IH, seg_clean.
Qed.

Lemma split_encode_pairs p ps :
  split_byte amp (encode_pairs (p :: ps)) = map seg (p :: ps).
Proof. rewrite encode_pairs_cons. apply split_flat, seg_clean. Qed.

(* ---------- the server-side parser on an encoded body ---------- *)

Lemma parse_segment_seg kv : parse_segment (seg kv) = SegPair (fst kv) (snd kv).
Proof.
  unfold parse_segment. destruct (seg_clean kv) as (_ & S). rewrite S.
  destruct (seg kv) eqn:E; [now apply seg_nonempty in E|]. rewrite <- E.
  unfold seg. cbn [app].
  rewrite cut_byte_app by apply query_escape_clean.
  now rewrite !unescape_escape.
Qed.

Lemma collect_segs ps : collect_segments (map seg ps) = (ps, false).
Proof.
  induction ps as [|[k v] ps IH]; [reflexivity|].
  cbn [map collect_segments]. rewrite IH, parse_segment_seg. reflexivity.
Qed.

Theorem parse_encode_pairs ps : parse_query (encode_pairs ps) = (ps, false).
Proof.
  unfold parse_query. destruct ps as [|p ps]; [reflexivity|].
  rewrite split_encode_pairs. apply collect_segs.
Qed.

(* ---------- multimap view ---------- *)

Definition vals (k : bytes) (e : bytes * list bytes) : list bytes :=
  if bytes_eqb (fst e) k then snd e else [].

Lemma lookup_cons k e m : lookup k (e :: m) = vals k e ++ lookup k m.
Proof. unfold lookup, vals. cbn [filter]. destruct (bytes_eqb (fst e) k); reflexivity. Qed.

Lemma lookup_app k a b : lookup k (a ++ b) = lookup k a ++ lookup k b.
Proof.
  induction a as [|e a IH]; [reflexivity|].
  rewrite <- app_comm_cons, !lookup_cons, IH. now rewrite app_assoc.
Qed.

Lemma lookup_notin k m : ~ In k (map fst m) -> lookup k m = [].
Proof.
  induction m as [|e m IH]; intro H; [reflexivity|].
  rewrite lookup_cons. cbn [map In] in H. rewrite IH by tauto.
  unfold vals. destruct (bytes_eqb (fst e) k) eqn:E; [|reflexivity].
  apply bytes_eqb_eq in E. tauto.
Qed.

Lemma values_of_app k a b : values_of k (a ++ b) = values_of k a ++ values_of k b.
Proof. unfold values_of. now rewrite filter_app, map_app. Qed.

Lemma values_of_flatten k m : values_of k (flatten m) = lookup k m.
Proof.
  induction m as [|e m IH]; [reflexivity|].
  unfold flatten in *. cbn [flat_map]. rewrite values_of_app, IH, lookup_cons. f_equal.
  unfold vals, values_of. destruct e as [k' vs]. cbn [fst snd].
  induction vs as [|v vs IHv]; cbn [map filter fst].
  - now destruct (bytes_eqb k' k).
  - destruct (bytes_eqb k' k) eqn:E; cbn [map snd]; [now rewrite IHv|exact IHv].
Qed.

Lemma vals_comm k e h : fst e <> fst h -> vals k h ++ vals k e = vals k e ++ vals k h.
Proof.
  intro N. unfold vals.
  destruct (bytes_eqb (fst h) k) eqn:A, (bytes_eqb (fst e) k) eqn:B;
    rewrite ?app_nil_r; try reflexivity.
  apply bytes_eqb_eq in A, B. congruence.
Qed.

Lemma insert_key_lookup k e l :
  ~ In (fst e) (map fst l) -> lookup k (insert_key e l) = lookup k (e :: l).
Proof.
  induction l as [|h t IH]; intro N; [reflexivity|].
  cbn [insert_key]. destruct (bytes_leb (fst e) (fst h)); [reflexivity|].
  cbn [map In] in N. rewrite lookup_cons, IH by tauto. rewrite !lookup_cons.
  rewrite !app_assoc. f_equal. apply vals_comm. intro E. apply N. now left.
Qed.

Lemma insert_key_keys e l x :
  In x (map fst (insert_key e l)) <-> x = fst e \/ In x (map fst l).
Proof.
  induction l as [|h t IH]; cbn [insert_key map In]; [intuition|].
  destruct (bytes_leb (fst e) (fst h)); cbn [map In]; [intuition|].
  rewrite IH. intuition.
Qed.

Lemma sort_form_keys m x : In x (map fst (sort_form m)) <-> In x (map fst m).
Proof.
  induction m as [|e m IH]; [reflexivity|].
  cbn [sort_form fold_right]. fold (sort_form m). rewrite insert_key_keys, IH.
  cbn [map In]. intuition.
Qed.

Lemma sort_form_lookup k m : NoDup (map fst m) -> lookup k (sort_form m) = lookup k m.
Proof.
  induction m as [|e m IH]; intro ND; [reflexivity|].
  cbn [map] in ND. inversion ND as [|? ? N ND']; subst.
  cbn [sort_form fold_right]. fold (sort_form m).
  rewrite insert_key_lookup by (now rewrite sort_form_keys).
  now rewrite !lookup_cons, IH.
Qed.

(* keys come out sorted (Values.Encode sorts them) *)
Fixpoint keys_sorted (l : form) : Prop :=
  match l with
  | [] => True
  | e :: t => (forall h, In h t -> bytes_leb (fst e) (fst h) = true) /\ keys_sorted t
  end.

Lemma bytes_leb_total a : forall b, bytes_leb a b = false -> bytes_leb b a = true.
Proof.
  induction a as [|x a IH]; intros [|y b] H; cbn in *; try discriminate; auto.
  destruct (bN x <? bN y)%N eqn:A; [discriminate|].
  destruct (bN y <? bN x)%N eqn:B; [reflexivity|]. auto.
Qed.

Lemma bytes_leb_trans a : forall b c,
  bytes_leb a b = true -> bytes_leb b c = true -> bytes_leb a c = true.
Proof.
  induction a as [|x a IH]; intros [|y b] [|z c] H1 H2; cbn in *; try discriminate; auto.
  destruct (bN x <? bN y)%N eqn:A.
  - destruct (bN y <? bN z)%N eqn:B.
    + apply N.ltb_lt in A, B. assert (bN x < bN z)%N as L by lia.
      apply N.ltb_lt in L. now rewrite L.
    + destruct (bN z <? bN y)%N eqn:B'; [discriminate|].
      apply N.ltb_lt in A. apply N.ltb_ge in B, B'. assert (bN x < bN z)%N as L by lia.
      apply N.ltb_lt in L. now rewrite L.
  - destruct (bN y <? bN x)%N eqn:A'; [discriminate|].
    apply N.ltb_ge in A, A'. assert (bN x = bN y) as E by lia. rewrite E.
    destruct (bN y <? bN z)%N; [reflexivity|].
    destruct (bN z <? bN y)%N; [discriminate|]. eauto.
Qed.

Lemma insert_key_in e l h : In h (insert_key e l) <-> h = e \/ In h l.
Proof.
  induction l as [|x t IH]; cbn [insert_key In]; [intuition|].
  destruct (bytes_leb (fst e) (fst x)); cbn [In]; [intuition|]. rewrite IH. intuition.
Qed.

Lemma insert_key_sorted e l : keys_sorted l -> keys_sorted (insert_key e l).
Proof.
  induction l as [|x t IH]; intro S; cbn [insert_key].
  - cbn. intuition.
  - destruct S as (S1 & S2). destruct (bytes_leb (fst e) (fst x)) eqn:L.
    + cbn [keys_sorted]. repeat split; auto. intros h [->|H]; [exact L|].
      eapply bytes_leb_trans; [exact L|]. now apply S1.
    + cbn [keys_sorted]. split; [|now apply IH].
      intros h H. apply insert_key_in in H as [->|H]; [now apply bytes_leb_total|now apply S1].
Qed.

Lemma sort_form_sorted m : keys_sorted (sort_form m).
Proof.
  induction m as [|e m IH]; [exact I|]. cbn [sort_form fold_right]. now apply insert_key_sorted.
Qed.

(* ---------- theorems ---------- *)

(* the body parses back, without error, to exactly the pairs Values.Encode wrote: keys in
   sorted order, the values of one key in the caller's order *)
Theorem form_pairs_exact m :
  parse_query (encode_form m) = (flatten (sort_form m), false) /\ keys_sorted (sort_form m).
Proof. split; [apply parse_encode_pairs|apply sort_form_sorted]. Qed.

(* as a multimap the server sees exactly the caller's map, for ALL byte strings *)
Theorem form_roundtrip m :
  NoDup (map fst m) ->
  snd (parse_query (encode_form m)) = false /\
  forall k, values_of k (parse_form (encode_form m)) = lookup k m.
Proof.
  intro ND. unfold parse_form, encode_form. rewrite parse_encode_pairs. split; [reflexivity|].
  intro k. cbn [fst]. now rewrite values_of_flatten, sort_form_lookup.
Qed.

(* ordered form data: the exact list of pairs, in order; an odd number of strings is refused *)
Lemma pair_up_flat : forall n l, length l = 2 * n ->
  flat_map (fun p => [fst p; snd p]) (pair_up l) = l.
Proof.
  induction n as [|n IH]; intros l H.
  - destruct l; [reflexivity|discriminate].
  - destruct l as [|k [|v r]]; try (cbn in H; lia).
    cbn [pair_up flat_map fst snd app]. f_equal. f_equal. apply IH. cbn in H. lia.
Qed.

Theorem ordered_roundtrip kvs body :
  encode_ordered kvs = Some body ->
  parse_query body = (pair_up kvs, false) /\
  flat_map (fun p => [fst p; snd p]) (pair_up kvs) = kvs.
Proof.
  unfold encode_ordered. destruct (Nat.even (length kvs)) eqn:E; [|discriminate].
  intro H. inversion H; subst. split; [apply parse_encode_pairs|].
  apply Nat.even_spec in E as [n E]. now apply pair_up_flat with n.
Qed.

Theorem ordered_refused_iff_odd kvs :
  encode_ordered kvs = None <-> Nat.odd (length kvs) = true.
Proof.
  unfold encode_ordered. rewrite <- Nat.negb_even.
  destruct (Nat.even (length kvs)); cbn; split; intro; congruence.
Qed.

(* ---------- client + request merge ---------- *)

Lemma add_values_keys k vs m :
  map fst (add_values k vs m) = if existsb (fun e : bytes * list bytes => bytes_eqb (fst e) k) m
                                then map fst m else map fst m ++ [k].
Proof.
  induction m as [|e m IH]; [reflexivity|].
  cbn [add_values existsb]. destruct (bytes_eqb (fst e) k); [reflexivity|].
  cbn [map orb]. rewrite IH. destruct (existsb _ m); reflexivity.
Qed.

Lemma existsb_key_in k m :
  existsb (fun e : bytes * list bytes => bytes_eqb (fst e) k) m = false -> ~ In k (map fst m).
Proof.
  induction m as [|e m IH]; cbn [existsb map In]; [tauto|].
  intro H. apply Bool.orb_false_iff in H as (A & B). apply bytes_eqb_neq in A.
  intros [C|C]; [congruence|now apply IH].
Qed.

Lemma add_values_nodup k vs m : NoDup (map fst m) -> NoDup (map fst (add_values k vs m)).
Proof.
  intro ND. rewrite add_values_keys.
  destruct (existsb _ m) eqn:E; [exact ND|].
  apply existsb_key_in in E.
  apply NoDup_rev in ND. rewrite <- (rev_involutive (map fst m ++ [k])).
  apply NoDup_rev. rewrite rev_app_distr. cbn [rev app]. constructor; [|exact ND].
  now rewrite <- in_rev.
Qed.

Lemma add_values_lookup k k' vs m :
  NoDup (map fst m) ->
  lookup k (add_values k' vs m) = lookup k m ++ (if bytes_eqb k' k then vs else []).
Proof.
  induction m as [|e m IH]; intro ND.
  - cbn [add_values]. rewrite lookup_cons. unfold vals. cbn [fst snd]. now rewrite app_nil_r.
  - cbn [map] in ND. inversion ND as [|? ? N ND']; subst.
    cbn [add_values]. destruct (bytes_eqb (fst e) k') eqn:E.
    + apply bytes_eqb_eq in E. subst k'. rewrite !lookup_cons. unfold vals. cbn [fst snd].
      destruct (bytes_eqb (fst e) k) eqn:F.
      * apply bytes_eqb_eq in F. subst k. rewrite (lookup_notin _ _ N).
        now rewrite !app_nil_r.
      * now rewrite app_nil_r.
    + rewrite !lookup_cons, IH by exact ND'. now rewrite app_assoc.
Qed.

Lemma merge_step_nodup m e : NoDup (map fst m) -> NoDup (map fst (merge_step m e)).
Proof. unfold merge_step. destruct (snd e); [auto|]. apply add_values_nodup. Qed.

Lemma merge_step_lookup k m e :
  NoDup (map fst m) -> lookup k (merge_step m e) = lookup k m ++ vals k e.
Proof.
  intro ND. unfold merge_step, vals. destruct (snd e) eqn:S.
  - destruct (bytes_eqb (fst e) k); now rewrite app_nil_r.
  - now apply add_values_lookup.
Qed.

Lemma merge_form_nodup cf : forall rf, NoDup (map fst rf) -> NoDup (map fst (merge_form rf cf)).
Proof.
  induction cf as [|e cf IH]; intros rf ND; [exact ND|].
  unfold merge_form in *. cbn [fold_left]. apply IH, merge_step_nodup, ND.
Qed.

Theorem merge_form_lookup k cf : forall rf,
  NoDup (map fst rf) -> lookup k (merge_form rf cf) = lookup k rf ++ lookup k cf.
Proof.
  induction cf as [|e cf IH]; intros rf ND.
  - cbn. now rewrite app_nil_r.
  - unfold merge_form in *. cbn [fold_left]. rewrite IH by now apply merge_step_nodup.
    rewrite merge_step_lookup by exact ND. rewrite lookup_cons. now rewrite app_assoc.
Qed.

(* client-level and request-level form data both arrive: for every key the request's values
   followed by the client's *)
Theorem merged_form_roundtrip rf cf :
  NoDup (map fst rf) ->
  snd (parse_query (encode_form (merge_form rf cf))) = false /\
  forall k, values_of k (parse_form (encode_form (merge_form rf cf))) = lookup k rf ++ lookup k cf.
Proof.
  intro ND. destruct (form_roundtrip (merge_form rf cf)) as (A & B).
  - now apply merge_form_nodup.
  - split; [exact A|]. intro k. now rewrite B, merge_form_lookup.
Qed.
