(* Proofs/BodyFramingProofs.v - lemmas about Model/BodyFraming.v (C03, C02) *)
From ReqV Require Import Lib.Bytes Lib.BytesFacts Model.BodyFraming.
From Coq Require Import Lia ZifyBool ZifyNat ZifyN.

(* ---------- take_N ---------- *)
Lemma take_N_spec : forall l n,
  take_N n l = (firstn (N.to_nat n) l, skipn (N.to_nat n) l, (n - N.of_nat (length l))%N).
Proof.
  induction l as [|x l IH]; intros n.
  - cbn [take_N length]. rewrite firstn_nil, skipn_nil. f_equal. lia.
  - cbn [take_N]. destruct (n =? 0)%N eqn:E.
    + apply N.eqb_eq in E. subst n. cbn. reflexivity.
    + apply N.eqb_neq in E. rewrite IH.
      replace (N.to_nat n) with (S (N.to_nat (N.pred n))) by lia.
      cbn [firstn skipn length]. f_equal. lia.
Qed.

Lemma take_N_exact : forall d rest,
  take_N (N.of_nat (length d)) (d ++ rest) = (d, rest, 0%N).
Proof.
  intros. rewrite take_N_spec, Nat2N.id, firstn_app_exact, skipn_app_exact.
  f_equal. rewrite app_length. lia.
Qed.

Lemma take_N_short : forall n s, (N.of_nat (length s) < n)%N ->
  exists m, take_N n s = (s, [], m) /\ m <> 0%N.
Proof.
  intros n s H. rewrite take_N_spec. exists (n - N.of_nat (length s))%N.
  rewrite firstn_all2, skipn_all2 by lia. split; [reflexivity|lia].
Qed.

(* ---------- Content-Length ---------- *)
Lemma read_cl_complete : forall body extra,
  read_cl (N.of_nat (length body)) (body ++ extra) = mkRd body Clean extra false [].
Proof. intros. unfold read_cl. rewrite take_N_exact. reflexivity. Qed.

Lemma read_cl_short : forall n s, (N.of_nat (length s) < n)%N ->
  read_cl n s = mkRd s UnexpectedEOF [] true [].
Proof.
  intros n s H. unfold read_cl. destruct (take_N_short n s H) as [m [-> Hm]].
  apply N.eqb_neq in Hm. rewrite Hm. reflexivity.
Qed.

(* ---------- lines ---------- *)
Lemma split_lf_none : forall s, mem_byte LF s = false -> split_lf s = None.
Proof.
  induction s as [|x s IH]; intros H; [reflexivity|].
  rewrite mem_byte_cons in H. apply orb_false_iff in H as [H1 H2].
  cbn [split_lf]. rewrite beqb_sym, H1, IH by assumption. reflexivity.
Qed.

Lemma split_lf_app : forall a r, mem_byte LF a = false ->
  split_lf (a ++ LF :: r) = Some (a ++ [LF], r).
Proof.
  induction a as [|x a IH]; intros r H.
  - cbn. reflexivity.
  - rewrite mem_byte_cons in H. apply orb_false_iff in H as [H1 H2].
    cbn [app split_lf]. rewrite beqb_sym, H1, IH by assumption. reflexivity.
Qed.

Lemma mem_byte_firstn_false : forall c k s, mem_byte c s = false -> mem_byte c (firstn k s) = false.
Proof.
  intros c k. induction k as [|k IH]; intros s H; [reflexivity|].
  destruct s as [|x s]; [reflexivity|]. cbn [firstn].
  rewrite mem_byte_cons in *. apply orb_false_iff in H as [H1 H2].
  rewrite H1, IH by assumption. reflexivity.
Qed.

(* ---------- well-formed rendering ---------- *)
(* a chunk as a correct origin writes it: the size line (size, optional extension, CRLF)
   contains no other LF, is shorter than the line limit, and - by the Go reader's own
   rule - denotes exactly the length of the data, which is not empty *)
Definition size_line (sz ext : bytes) : bytes := sz ++ ext ++ crlf.

Definition wf_line (sz ext : bytes) (n : N) : Prop :=
  mem_byte LF (sz ++ ext) = false /\
  (N.of_nat (length (size_line sz ext)) < max_line_length)%N /\
  chunk_size_of_line (size_line sz ext) = inl n.

Definition wf_chunk (c : chunk) : Prop :=
  wf_line (c_size c) (c_ext c) (N.of_nat (length (c_data c))) /\ c_data c <> [].

Lemma size_line_split : forall sz ext rest, mem_byte LF (sz ++ ext) = false ->
  split_lf (size_line sz ext ++ rest) = Some (size_line sz ext, rest).
Proof.
  intros sz ext rest H. unfold size_line, crlf.
  replace ((sz ++ ext ++ [CR; LF]) ++ rest) with (((sz ++ ext) ++ [CR]) ++ LF :: rest)
    by (rewrite <- !app_assoc; reflexivity).
  rewrite split_lf_app.
  - f_equal. f_equal. rewrite <- !app_assoc. reflexivity.
  - rewrite mem_byte_app, H. reflexivity.
Qed.

Lemma read_chunk_line_ok : forall sz ext n rest, wf_line sz ext n ->
  read_chunk_line (size_line sz ext ++ rest) = LineOk (size_line sz ext) rest.
Proof.
  intros sz ext n rest (Hlf & Hlen & _). unfold read_chunk_line.
  rewrite size_line_split by assumption.
  destruct (max_line_length <=? N.of_nat (length (size_line sz ext)))%N eqn:E; [lia|reflexivity].
Qed.

(* a size line cut before its LF: the reader runs into the end of the connection *)
Lemma read_chunk_line_cut : forall sz ext n j, wf_line sz ext n ->
  j < length (size_line sz ext) ->
  read_chunk_line (firstn j (size_line sz ext)) = LineErr UnexpectedEOF.
Proof.
  intros sz ext n j (Hlf & Hlen & _) Hj. unfold read_chunk_line.
  assert (Hno : mem_byte LF (firstn j (size_line sz ext)) = false).
  { unfold size_line, crlf in *.
    replace (sz ++ ext ++ [CR; LF]) with (((sz ++ ext) ++ [CR]) ++ [LF]) in *
      by (rewrite <- !app_assoc; reflexivity).
    rewrite firstn_app. rewrite app_length in Hj. cbn [length] in Hj.
    replace (j - length ((sz ++ ext) ++ [CR])) with 0 by lia.
    cbn [firstn]. rewrite app_nil_r. apply mem_byte_firstn_false.
    rewrite mem_byte_app, Hlf. reflexivity. }
  rewrite split_lf_none by assumption.
  assert (length (firstn j (size_line sz ext)) <= length (size_line sz ext)) by (rewrite firstn_length; lia).
  destruct (max_line_length <=? N.of_nat (length (firstn j (size_line sz ext))))%N eqn:E; [lia|reflexivity].
Qed.

Lemma render_chunk_eq : forall c,
  render_chunk c = size_line (c_size c) (c_ext c) ++ c_data c ++ crlf.
Proof. intros. unfold render_chunk, size_line. rewrite <- !app_assoc. reflexivity. Qed.

Lemma prepend_err d r : rd_err (prepend d r) = rd_err r.
Proof. reflexivity. Qed.
Lemma prepend_data d r : rd_data (prepend d r) = d ++ rd_data r.
Proof. reflexivity. Qed.

(* one complete chunk is consumed and its data delivered *)
Lemma chunk_step : forall c f tail, wf_chunk c ->
  chunk_loop (S f) (render_chunk c ++ tail) = prepend (c_data c) (chunk_loop f tail).
Proof.
  intros c f tail [Hl Hne]. rewrite render_chunk_eq, <- app_assoc.
  cbn [chunk_loop]. rewrite (read_chunk_line_ok _ _ _ _ Hl).
  destruct Hl as (_ & _ & ->).
  destruct (N.of_nat (length (c_data c)) =? 0)%N eqn:E.
  { apply N.eqb_eq in E. destruct (c_data c); [congruence|cbn in E; lia]. }
  rewrite <- app_assoc, take_N_exact. cbn [N.eqb negb crlf app].
  rewrite !beqb_refl. reflexivity.
Qed.

Lemma firstn_app_le {A} : forall (a b : list A) j, j <= length a -> firstn j (a ++ b) = firstn j a.
Proof.
  intros a b j H. rewrite firstn_app. replace (j - length a) with 0 by lia.
  cbn. apply app_nil_r.
Qed.

Lemma firstn_app_ge {A} : forall (a b : list A) j, length a <= j ->
  firstn j (a ++ b) = a ++ firstn (j - length a) b.
Proof. intros a b j H. rewrite firstn_app, firstn_all2 by lia. reflexivity. Qed.

(* one chunk cut anywhere strictly inside it: ErrUnexpectedEOF after a prefix of its data *)
Lemma chunk_cut : forall c f j, wf_chunk c -> j < length (render_chunk c) ->
  exists m, chunk_loop (S f) (firstn j (render_chunk c)) =
            mkRd (firstn m (c_data c)) UnexpectedEOF [] true [].
Proof.
  intros c f j [Hl Hne] Hj. rewrite render_chunk_eq in *.
  set (line := size_line (c_size c) (c_ext c)) in *.
  destruct (Nat.lt_ge_cases j (length line)) as [Hlt|Hge].
  - (* inside the size line *)
    exists 0. rewrite firstn_app_le by lia. cbn [chunk_loop].
    unfold line. rewrite (read_chunk_line_cut _ _ _ _ Hl) by assumption. reflexivity.
  - rewrite firstn_app_ge by assumption. cbn [chunk_loop].
    unfold line at 1. rewrite (read_chunk_line_ok _ _ _ _ Hl).
    destruct Hl as (_ & _ & ->).
    destruct (N.of_nat (length (c_data c)) =? 0)%N eqn:E.
    { apply N.eqb_eq in E. destruct (c_data c); [congruence|cbn in E; lia]. }
    rewrite !app_length in Hj. cbn [crlf length] in Hj.
    set (j' := j - length line) in *.
    destruct (Nat.lt_ge_cases j' (length (c_data c))) as [Hd|Hd].
    + (* inside the data *)
      exists j'. rewrite firstn_app_le by lia.
      destruct (take_N_short (N.of_nat (length (c_data c))) (firstn j' (c_data c))) as [m [-> Hm]].
      { rewrite firstn_length. lia. }
      apply N.eqb_neq in Hm. rewrite Hm. reflexivity.
    + (* inside the CRLF behind the data *)
      exists (length (c_data c)). rewrite firstn_all.
      rewrite firstn_app_ge by assumption. rewrite take_N_exact. cbn [N.eqb negb].
      assert (Hc : j' - length (c_data c) = 0 \/ j' - length (c_data c) = 1) by lia.
      destruct Hc as [-> | ->]; reflexivity.
Qed.

(* ---------- trailer section ---------- *)
Lemma has_prefix_firstn : forall p s j, has_prefix p (firstn j s) = true -> has_prefix p s = true.
Proof.
  induction p as [|x p IH]; intros s j H; [reflexivity|].
  destruct s as [|y s]; [rewrite firstn_nil in H; discriminate|].
  destruct j; [discriminate|]. cbn [firstn has_prefix] in *.
  apply andb_true_iff in H as [H1 H2]. rewrite H1. cbn. eapply IH; eauto.
Qed.

Lemma has_prefix_app : forall p s e, has_prefix p s = true -> has_prefix p (s ++ e) = true.
Proof.
  induction p as [|x p IH]; intros s e H; [reflexivity|].
  destruct s as [|y s]; [discriminate|]. cbn [app has_prefix] in *.
  apply andb_true_iff in H as [H1 H2]. rewrite H1. cbn. auto.
Qed.

(* an occurrence inside a prefix is an occurrence in the whole, no later *)
Lemma find_dcrlf_firstn : forall s j i, find_dcrlf (firstn j s) = Some i ->
  exists i', find_dcrlf s = Some i' /\ i' <= i.
Proof.
  induction s as [|x s IH]; intros j i H.
  - rewrite firstn_nil in H. discriminate.
  - destruct j; [discriminate|]. cbn [firstn find_dcrlf] in H.
    cbn [find_dcrlf].
    destruct (has_prefix crlfcrlf (x :: firstn j s)) eqn:E.
    + change (x :: firstn j s) with (firstn (S j) (x :: s)) in E.
      apply has_prefix_firstn in E. rewrite E. exists 0. split; [reflexivity|lia].
    + destruct (find_dcrlf (firstn j s)) as [i0|] eqn:F; [|discriminate].
      injection H as <-. destruct (IH _ _ F) as [i' [Hi' Hle]].
      destruct (has_prefix crlfcrlf (x :: s)).
      * exists 0. split; [reflexivity|lia].
      * rewrite Hi'. exists (S i'). split; [reflexivity|lia].
Qed.

Lemma find_dcrlf_bound : forall s i, find_dcrlf s = Some i -> i + 4 <= length s.
Proof.
  induction s as [|x s IH]; intros i H; [discriminate|].
  cbn [find_dcrlf] in H. destruct (has_prefix crlfcrlf (x :: s)) eqn:E.
  - injection H as <-. apply has_prefix_spec in E as [r ->]. rewrite app_length. cbn. lia.
  - destruct (find_dcrlf s) as [i0|] eqn:F; [|discriminate]. injection H as <-.
    specialize (IH i0 eq_refl). cbn [length]. lia.
Qed.

Lemma find_dcrlf_app : forall s e i, find_dcrlf s = Some i -> find_dcrlf (s ++ e) = Some i.
Proof.
  induction s as [|x s IH]; intros e i H; [discriminate|].
  cbn [find_dcrlf app] in *. destruct (has_prefix crlfcrlf (x :: s)) eqn:E.
  - change (x :: s ++ e) with ((x :: s) ++ e). rewrite has_prefix_app by assumption. assumption.
  - destruct (find_dcrlf s) as [i0|] eqn:F; [|discriminate]. injection H as <-.
    rewrite (IH e i0 eq_refl).
    destruct (has_prefix crlfcrlf (x :: s ++ e)) eqn:E2; [|reflexivity].
    (* an occurrence at 0 of s++e that is not one of s: s is shorter than 4 - but it holds
       an occurrence at i0 *)
    exfalso. apply find_dcrlf_bound in F.
    change (x :: s ++ e) with ((x :: s) ++ e) in E2.
    assert (Hp : has_prefix crlfcrlf (firstn 4 ((x :: s) ++ e)) = true).
    { apply has_prefix_spec in E2 as [r Hr]. rewrite Hr. reflexivity. }
    rewrite firstn_app_le in Hp by (cbn [length]; lia).
    apply has_prefix_firstn in Hp. congruence.
Qed.

(* the trailer section behind the last chunk: empty, or field lines that do not start
   with CRLF, fit the peek window, hold their only CRLFCRLF at the very end and parse *)
Definition wf_trailer (tb : bytes) : Prop :=
  tb = [] \/
  (has_prefix crlf tb = false /\ 2 <= length tb /\ length tb + 2 <= peek_window /\
   find_dcrlf (tb ++ crlf) = Some (length tb - 2) /\ trailer_block_ok tb = true).

Lemma read_trailer_complete : forall tb extra, wf_trailer tb ->
  read_trailer (tb ++ crlf ++ extra) = mkRd [] Clean extra false tb.
Proof.
  intros tb extra [->|(Hp & Hlen & Hwin & Hfind & Hok)].
  - cbn. reflexivity.
  - destruct tb as [|a [|b tb']]; cbn [length] in Hlen; try lia.
    set (t := a :: b :: tb') in *.
    assert (Hab : beqb a CR && beqb b LF = false).
    { unfold t, crlf in Hp. cbn [has_prefix] in Hp. rewrite andb_true_r in Hp.
      rewrite (beqb_sym a), (beqb_sym b). exact Hp. }
    change (read_trailer (t ++ crlf ++ extra)) with
      (if beqb a CR && beqb b LF then mkRd [] Clean (tb' ++ crlf ++ extra) false []
       else match find_dcrlf (firstn peek_window (t ++ crlf ++ extra)) with
            | None => mkRd [] TrailerTooLong (t ++ crlf ++ extra)
                        (Nat.ltb (length (t ++ crlf ++ extra)) peek_window) []
            | Some i => let tb := firstn (i + 2) (t ++ crlf ++ extra) in
                        if trailer_block_ok tb then mkRd [] Clean (skipn (i + 4) (t ++ crlf ++ extra)) false tb
                        else mkRd [] TrailerBad (skipn (i + 4) (t ++ crlf ++ extra)) false []
            end).
    rewrite Hab.
    assert (Hw : firstn peek_window (t ++ crlf ++ extra) =
                 (t ++ crlf) ++ firstn (peek_window - length (t ++ crlf)) extra).
    { rewrite app_assoc. apply firstn_app_ge. rewrite app_length. cbn [crlf length]. lia. }
    rewrite Hw, (find_dcrlf_app _ _ _ Hfind).
    cbv zeta.
    assert (Ht2 : 2 <= length t) by (unfold t; cbn [length]; lia).
    replace (length t - 2 + 2) with (length t) by lia.
    replace (length t - 2 + 4) with (length (t ++ crlf)) by (rewrite app_length; cbn [crlf length]; lia).
    rewrite firstn_app_exact.
    rewrite (app_assoc t crlf extra), skipn_app_exact. rewrite Hok. reflexivity.
Qed.

(* cut strictly inside the trailer section: errTrailerEOF or "suspiciously long trailer" *)
Lemma read_trailer_cut : forall tb j, wf_trailer tb -> j < length (tb ++ crlf) ->
  let r := read_trailer (firstn j (tb ++ crlf)) in
  rd_data r = [] /\ (rd_err r = TrailerEOF \/ rd_err r = TrailerTooLong).
Proof.
  intros tb j Hwf Hj.
  destruct (firstn j (tb ++ crlf)) as [|a [|b s']] eqn:Ecut.
  - cbn. auto.
  - cbn. auto.
  - destruct Hwf as [->|(Hp & Hlen & Hwin & Hfind & Hok)].
    { (* no trailers: the section is CRLF, j < 2 *)
      cbn [app crlf length] in *. destruct j as [|[|j]]; cbn in Ecut; try discriminate; lia. }
    assert (Hj2 : 2 <= j).
    { destruct j as [|[|j]]; try lia.
      - cbn in Ecut. discriminate.
      - destruct (tb ++ crlf) as [|? [|? ?]]; cbn in Ecut; discriminate. }
    assert (Hab : beqb a CR && beqb b LF = false).
    { destruct tb as [|a0 [|b0 tb']]; cbn [length] in Hlen; try lia.
      destruct j as [|[|j]]; try lia. cbn [app firstn] in Ecut. injection Ecut as -> -> _.
      unfold crlf in Hp. cbn [has_prefix] in Hp. rewrite andb_true_r in Hp.
      rewrite (beqb_sym a), (beqb_sym b). exact Hp. }
    cbn [read_trailer]. rewrite Hab. rewrite <- Ecut.
    destruct (find_dcrlf (firstn peek_window (firstn j (tb ++ crlf)))) as [i|] eqn:F.
    + exfalso. rewrite firstn_firstn in F.
      pose proof (find_dcrlf_bound _ _ F) as Hb. rewrite firstn_length in Hb.
      destruct (find_dcrlf_firstn _ _ _ F) as [i' [Hi' Hle]].
      rewrite Hfind in Hi'. injection Hi' as <-.
      rewrite app_length in Hj, Hb. cbn [crlf length] in Hj, Hb. lia.
    + cbn. auto.
Qed.

(* ---------- whole chunked bodies ---------- *)
Record wf_chunked (cs : list chunk) (z zext tb : bytes) : Prop := {
  wfc_chunks : Forall wf_chunk cs;
  wfc_last : wf_line z zext 0%N;
  wfc_trailer : wf_trailer tb
}.

Lemma render_chunks_cons c cs : render_chunks (c :: cs) = render_chunk c ++ render_chunks cs.
Proof. reflexivity. Qed.
Lemma chunks_data_cons c cs : chunks_data (c :: cs) = c_data c ++ chunks_data cs.
Proof. reflexivity. Qed.

Lemma render_chunk_nonempty : forall c, 2 <= length (render_chunk c).
Proof. intros. unfold render_chunk. rewrite !app_length. cbn [crlf length]. lia. Qed.

Definition last_part (z zext tb : bytes) : bytes := size_line z zext ++ tb ++ crlf.

Lemma render_chunked_eq cs z zext tb :
  render_chunked cs z zext tb = render_chunks cs ++ last_part z zext tb.
Proof. unfold render_chunked, last_part, size_line. rewrite <- !app_assoc. reflexivity. Qed.

Lemma last_part_complete : forall z zext tb extra f, wf_line z zext 0%N -> wf_trailer tb ->
  chunk_loop (S f) (last_part z zext tb ++ extra) = mkRd [] Clean extra false tb.
Proof.
  intros z zext tb extra f Hl Ht. unfold last_part. rewrite <- !app_assoc.
  cbn [chunk_loop]. rewrite (read_chunk_line_ok _ _ _ _ Hl).
  destruct Hl as (_ & _ & ->). cbn [N.eqb].
  apply read_trailer_complete. assumption.
Qed.

(* every complete chunked body, any partition, any extensions, any trailer section, any
   bytes behind it: exactly the data is delivered, the trailer block is captured and the
   bytes behind the message are left untouched *)
Lemma chunk_loop_complete : forall cs z zext tb extra f,
  wf_chunked cs z zext tb -> length cs < f ->
  chunk_loop f (render_chunked cs z zext tb ++ extra) = mkRd (chunks_data cs) Clean extra false tb.
Proof.
  intros cs z zext tb extra f [Hcs Hl Ht]. rewrite render_chunked_eq. revert f.
  induction Hcs as [|c cs Hc Hcs IH]; intros f Hf.
  - destruct f; [cbn in Hf; lia|]. cbn [render_chunks concat map app].
    apply last_part_complete; assumption.
  - destruct f; [cbn in Hf; lia|]. rewrite render_chunks_cons, <- !app_assoc.
    rewrite chunk_step by assumption. rewrite app_assoc, IH by (cbn [length] in Hf; lia).
    reflexivity.
Qed.

Lemma length_render_chunks_ge : forall cs, length cs <= length (render_chunks cs).
Proof.
  induction cs as [|c cs IH]; [cbn; lia|].
  rewrite render_chunks_cons, app_length. pose proof (render_chunk_nonempty c). cbn [length]. lia.
Qed.

Theorem read_chunked_complete : forall cs z zext tb extra,
  wf_chunked cs z zext tb ->
  read_chunked (render_chunked cs z zext tb ++ extra) = mkRd (chunks_data cs) Clean extra false tb.
Proof.
  intros. unfold read_chunked. apply chunk_loop_complete; [assumption|].
  rewrite render_chunked_eq, !app_length. pose proof (length_render_chunks_ge cs). lia.
Qed.

Definition truncation_err (e : rerr) : Prop :=
  e = UnexpectedEOF \/ e = TrailerEOF \/ e = TrailerTooLong.

Lemma last_part_cut : forall z zext tb j f, wf_line z zext 0%N -> wf_trailer tb ->
  j < length (last_part z zext tb) ->
  let r := chunk_loop (S f) (firstn j (last_part z zext tb)) in
  rd_data r = [] /\ truncation_err (rd_err r).
Proof.
  intros z zext tb j f Hl Ht Hj. unfold last_part in *.
  destruct (Nat.lt_ge_cases j (length (size_line z zext))) as [Hlt|Hge].
  - rewrite firstn_app_le by lia. cbn [chunk_loop].
    rewrite (read_chunk_line_cut _ _ _ _ Hl) by assumption. cbn. unfold truncation_err. auto.
  - rewrite firstn_app_ge by assumption. cbn [chunk_loop].
    rewrite (read_chunk_line_ok _ _ _ _ Hl). destruct Hl as (_ & _ & ->). cbn [N.eqb].
    rewrite app_length in Hj.
    destruct (read_trailer_cut tb (j - length (size_line z zext)) Ht) as [Hd He]; [lia|].
    split; [assumption|]. unfold truncation_err. tauto.
Qed.

(* every cut strictly inside a chunked message: an error, after a prefix of the data *)
Lemma chunk_loop_cut : forall cs z zext tb,
  wf_chunked cs z zext tb -> forall j f,
  j < length (render_chunked cs z zext tb) -> j < f ->
  let r := chunk_loop f (firstn j (render_chunked cs z zext tb)) in
  truncation_err (rd_err r) /\ exists m, rd_data r = firstn m (chunks_data cs).
Proof.
  intros cs z zext tb [Hcs Hl Ht]. rewrite render_chunked_eq.
  induction Hcs as [|c cs Hc Hcs IH]; intros j f Hj Hf.
  - destruct f; [lia|]. cbn [render_chunks concat map app] in *.
    destruct (last_part_cut z zext tb j f Hl Ht Hj) as [Hd He].
    split; [assumption|]. exists 0. assumption.
  - destruct f; [lia|]. rewrite render_chunks_cons, <- app_assoc in *.
    destruct (Nat.lt_ge_cases j (length (render_chunk c))) as [Hlt|Hge].
    + rewrite firstn_app_le by lia.
      destruct (chunk_cut c f j Hc Hlt) as [m ->]. cbn [rd_err rd_data].
      split; [unfold truncation_err; auto|].
      exists (Nat.min m (length (c_data c))). rewrite chunks_data_cons.
      rewrite firstn_app_le by lia.
      destruct (Nat.le_ge_cases m (length (c_data c))).
      * rewrite Nat.min_l by assumption. reflexivity.
      * rewrite Nat.min_r by assumption. rewrite !firstn_all2 by lia. reflexivity.
    + rewrite firstn_app_ge by assumption. rewrite chunk_step by assumption.
      rewrite app_length in Hj. pose proof (render_chunk_nonempty c) as Hne.
      destruct (IH (j - length (render_chunk c)) f) as [He [m Hm]]; [lia|lia|].
      cbv zeta. rewrite prepend_err, prepend_data. split; [assumption|].
      exists (length (c_data c) + m). rewrite chunks_data_cons, Hm.
      rewrite firstn_app_ge by lia. f_equal. f_equal. lia.
Qed.

Theorem read_chunked_cut : forall cs z zext tb j,
  wf_chunked cs z zext tb -> j < length (render_chunked cs z zext tb) ->
  let r := read_chunked (firstn j (render_chunked cs z zext tb)) in
  truncation_err (rd_err r) /\ exists m, rd_data r = firstn m (chunks_data cs).
Proof.
  intros cs z zext tb j Hwf Hj. unfold read_chunked.
  apply chunk_loop_cut; [assumption|assumption|].
  rewrite firstn_length. lia.
Qed.

(* ---------- one HTTP/1.1 response ---------- *)
(* [framed fr W body tb]: W is what a correct origin writes behind the header block for
   entity [body] (and trailer block [tb]) under framing [fr] *)
Inductive framed : framing -> bytes -> bytes -> bytes -> Prop :=
| FramedCL : forall body, framed (FrCL (N.of_nat (length body))) body body []
| FramedChunked : forall cs z zext tb, wf_chunked cs z zext tb ->
    framed FrChunked (render_chunked cs z zext tb) (chunks_data cs) tb.

Lemma h1_read_header_cut : forall hdr fr X k, k < length hdr ->
  h1_read (N.of_nat (length hdr)) fr (firstn k (hdr ++ X)) = CallError.
Proof.
  intros hdr fr X k H. unfold h1_read. rewrite take_N_spec.
  rewrite firstn_length, app_length.
  destruct (N.of_nat (length hdr) - N.of_nat (Nat.min k (length hdr + length X)) =? 0)%N eqn:E; [lia|reflexivity].
Qed.

Lemma h1_read_body : forall hdr fr X,
  h1_read (N.of_nat (length hdr)) fr (hdr ++ X) = BodyRead (read_body fr X).
Proof.
  intros. unfold h1_read. rewrite take_N_exact. reflexivity.
Qed.

Theorem h1_truncation_detected_thm : forall hdr fr W body tb k,
  framed fr W body tb -> k < length (hdr ++ W) ->
  match h1_read (N.of_nat (length hdr)) fr (firstn k (hdr ++ W)) with
  | CallError => k < length hdr
  | BodyRead r => length hdr <= k /\ truncation_err (rd_err r) /\
                  exists m, rd_data r = firstn m body
  end.
Proof.
  intros hdr fr W body tb k Hfr Hk.
  destruct (Nat.lt_ge_cases k (length hdr)) as [Hlt|Hge].
  - rewrite h1_read_header_cut by assumption. assumption.
  - rewrite firstn_app_ge by assumption. rewrite h1_read_body.
    rewrite app_length in Hk. split; [assumption|].
    destruct Hfr as [body|cs z zext tb Hwf]; cbn [read_body].
    + rewrite read_cl_short by (rewrite firstn_length; lia). cbn [rd_err rd_data].
      split; [unfold truncation_err; auto|]. eauto.
    + apply read_chunked_cut; [assumption|lia].
Qed.

Theorem h1_complete_exact_thm : forall hdr fr W body tb extra,
  framed fr W body tb ->
  h1_read (N.of_nat (length hdr)) fr (hdr ++ W ++ extra) = BodyRead (mkRd body Clean extra false tb).
Proof.
  intros hdr fr W body tb extra Hfr. rewrite h1_read_body. f_equal.
  destruct Hfr as [body|cs z zext tb Hwf]; cbn [read_body].
  - apply read_cl_complete.
  - apply read_chunked_complete. assumption.
Qed.

Theorem dirty_conn_not_reused_thm : forall cf r,
  rd_rest r <> [] \/ rd_saw_eof r = true \/ rd_err r <> Clean ->
  reuse_decision cf r = false.
Proof.
  intros cf r H. unfold reuse_decision.
  destruct H as [H|[H|H]].
  - destruct (rd_rest r); [congruence|]. rewrite !andb_false_r. reflexivity.
  - rewrite H. cbn. rewrite !andb_false_r. reflexivity.
  - destruct (rd_err r); try congruence; cbn; rewrite ?andb_false_r; reflexivity.
Qed.

Theorem h1_overlong_not_spliced_thm : forall hdr fr W body tb extra cf,
  framed fr W body tb ->
  exists r, h1_read (N.of_nat (length hdr)) fr (hdr ++ W ++ extra) = BodyRead r /\
            rd_data r = body /\ rd_err r = Clean /\ rd_rest r = extra /\ rd_trailer r = tb /\
            (extra <> [] -> conn_serves_next cf r = false) /\
            (extra = [] -> conn_serves_next cf r =
               negb (cf_resp_close cf || cf_req_close cf || cf_status_1xx cf)
               && cf_wrote_request cf && cf_put_idle_ok cf).
Proof.
  intros hdr fr W body tb extra cf Hfr.
  eexists. split; [apply h1_complete_exact_thm; eassumption|].
  cbn [rd_data rd_err rd_rest rd_trailer]. repeat split.
  - intros Hne. apply dirty_conn_not_reused_thm. left. assumption.
  - intros ->. unfold conn_serves_next, reuse_decision. cbn.
    rewrite !andb_true_r. reflexivity.
Qed.

(* the honest limit: under until-close framing every cut behind the header block is a
   clean end of a shorter message *)
Theorem close_delimited_is_prefix_thm : forall hdr body k, length hdr <= k ->
  h1_read (N.of_nat (length hdr)) FrClose (firstn k (hdr ++ body)) =
  BodyRead (mkRd (firstn (k - length hdr) body) Clean [] true []).
Proof.
  intros hdr body k H. rewrite firstn_app_ge by assumption. rewrite h1_read_body. reflexivity.
Qed.

(* ---------- content-coding on top of the framing ---------- *)
Section Gzip.
  (* compress/gzip driven to its end on a complete input: Some plain, or None = error.
     Hypothesis (exercised by the harness on every generated stream and offset): of all
     prefixes of a one-member gzip stream only the stream itself - and, by Go's leniency,
     the empty input - are accepted. *)
  Variable gunzip : bytes -> option bytes.

  Definition gz_result (r : rd) : option bytes :=
    if is_clean (rd_err r) then gunzip (rd_data r) else None.

  Theorem gzip_truncation_detected_thm : forall hdr fr z plain k,
    gunzip z = Some plain ->
    (forall m, 0 < m < length z -> gunzip (firstn m z) = None) ->
    (fr = FrClose \/ fr = FrCL (N.of_nat (length z))) ->
    length hdr < k < length (hdr ++ z) ->
    exists r, h1_read (N.of_nat (length hdr)) fr (firstn k (hdr ++ z)) = BodyRead r /\
              gz_result r = None.
  Proof.
    intros hdr fr z plain k Hz Hpre Hfr [Hk1 Hk2]. rewrite app_length in Hk2.
    rewrite firstn_app_ge by lia. rewrite h1_read_body. eexists. split; [reflexivity|].
    destruct Hfr as [-> | ->]; cbn [read_body].
    - unfold gz_result, read_until_close. cbn [rd_err rd_data is_clean]. apply Hpre.
      lia.
    - rewrite read_cl_short by (rewrite firstn_length; lia). reflexivity.
  Qed.
End Gzip.
