(* Proofs/BackoffLifeProofs.v - the HTTP/2 transport's re-send loop under cancellation (Model/BackoffLife.v) *)
From Coq Require Import List Bool Arith Lia.
From ReqV Require Import Model.Lifecycle Model.BackoffLife.
Import ListNotations.

(* the back-off is left at once, with the cause, whatever its length *)
Theorem backoff_interruptible : forall s c,
  b_phase s = PbBackoff -> b_ctx s = Some c ->
  exists s', bstep true s TCtxWake = Some s' /\ b_phase s' = PbRet (Some (ECause c)) /\ b_net s' = b_net s.
Proof. intros [ph r n x] c HP HC. cbn in *. subst. eexists. cbn. repeat split. Qed.

(* once the context has ended no further round trip reaches the network *)
Theorem backoff_no_new_attempt_after_cancel : forall intr s l s' c,
  b_ctx s = Some c -> bstep intr s l = Some s' -> b_net s' = b_net s /\ b_ctx s' = Some c.
Proof.
  intros intr [ph r n x] l s' c HC HS. cbn in HC. subst x.
  destruct l as [| | | | |c']; destruct ph; cbn in HS; try discriminate;
    repeat match type of HS with
           | context [if ?b then _ else _] => destruct b
           end; try discriminate; injection HS as <-; cbn; auto.
Qed.

Definition bmu (s : bst) : nat :=
  match b_phase s with PbRet _ => 0 | PbAttempt => 1 + 2 * (8 - b_retry s) | PbBackoff => 2 * (8 - b_retry s) end.

(* every step other than a further cancel brings the loop closer to its return (at most 17 steps; a
   round trip started with the ended context fails at once with its error: TCtxErr) *)
Definition bwf (s : bst) : Prop :=
  match b_phase s with PbBackoff => b_retry s <= 6 | _ => b_retry s <= 7 end.

Theorem backoff_returns_within : forall s l s' c,
  b_ctx s = Some c -> bwf s -> (forall c', l <> TCancel c') -> bstep true s l = Some s' ->
  bmu s' < bmu s /\ bmu s <= 17 /\ bwf s'.
Proof.
  intros [ph r n x] l s' c HC HR NL HS. unfold bwf in *. cbn in HC, HR. subst x.
  destruct l as [| | | | |c']; try (exfalso; eapply NL; reflexivity); destruct ph; cbn in HS; try discriminate.
  - destruct (r <=? 6) eqn:L.
    + apply Nat.leb_le in L. destruct (r =? 0) eqn:Z.
      * apply Nat.eqb_eq in Z. subst r. injection HS as <-. unfold bmu, next_attempt; cbn. lia.
      * injection HS as <-. unfold bmu; cbn [b_phase b_retry]. lia.
    + injection HS as <-. unfold bmu; cbn [b_phase b_retry]. lia.
  - injection HS as <-. unfold bmu; cbn [b_phase b_retry]. lia.
  - injection HS as <-. unfold bmu; cbn [b_phase b_retry]. lia.
  - injection HS as <-. unfold bmu, next_attempt; cbn [b_phase b_retry]. lia.
  - injection HS as <-. unfold bmu; cbn [b_phase b_retry]. lia.
Qed.

Theorem backoff_wf_reachable : forall intr ls s, brun intr binit ls = Some s -> bwf s.
Proof.
  intros intr ls. assert (forall s0, bwf s0 -> forall s, brun intr s0 ls = Some s -> bwf s) as G.
  { induction ls as [|l r IH]; intros s0 W s H; cbn in H.
    - injection H as <-. exact W.
    - destruct (bstep intr s0 l) as [s1|] eqn:E; [|discriminate]. eapply IH; [|exact H].
      destruct s0 as [ph k n x]. unfold bwf in *. cbn in W.
      destruct l as [| | | | |c']; destruct ph; cbn in E; try discriminate;
        repeat match type of E with
               | context [if ?b then _ else _] => destruct b eqn:?
               | context [match ?o with Some _ => _ | None => _ end] => destruct o
               end; try discriminate; injection E as <-; cbn;
        repeat match goal with H : (_ <=? _) = true |- _ => apply Nat.leb_le in H
                          | H : (_ =? _) = true |- _ => apply Nat.eqb_eq in H end; try lia.
      all: destruct x; cbn; lia. }
  intros s H. apply (G binit); [|exact H]. unfold bwf. cbn. lia.
Qed.

(* the seeded variant: a context that ends during the sleep is noticed by nobody until the timer *)
Theorem backoff_pinned_not_interruptible : forall s,
  b_phase s = PbBackoff -> bstep false s TCtxWake = None.
Proof. intros [ph r n x] H. cbn in *. subst. reflexivity. Qed.

Example backoff_nonvacuous :
  exists s, brun true binit [TRefused; TRefused; TTimer; TRefused; TCancel CDeadline; TCtxWake] = Some s /\
            b_phase s = PbRet (Some (ECause CDeadline)) /\ b_net s = 3 /\ b_retry s = 2.
Proof. eexists. cbn. repeat split. Qed.
