(* Proofs/H2MonitorFacts.v - facts about the strict monitor alone (Model/H2Monitor.v): every trace
   it accepts satisfies the stand-alone trace predicates of Model/H2TraceSpec.v.  Nothing here
   mentions the client machine. *)
From Coq Require Import ZArith Bool Lia ZifyBool List.
From ReqV Require Import Model.H2Monitor Model.H2TraceSpec Proofs.H2ConnProofs.
Import ListNotations.
Open Scope Z_scope.

(* ---- SETTINGS application only rewrites windows ---- *)
Definition keeps (g : mstream -> mstream) : Prop :=
  forall s, ms_id (g s) = ms_id s /\ ms_cli_closed (g s) = ms_cli_closed s.

Lemma apply_setting_shape : forall m kv, exists g, keeps g /\
  m_streams (apply_setting m kv) = map g (m_streams m) /\
  m_hdr_open (apply_setting m kv) = m_hdr_open m /\ m_pending (apply_setting m kv) = m_pending m /\
  m_last_sid (apply_setting m kv) = m_last_sid m.
Proof.
  intros m [id v]. unfold apply_setting.
  destruct (id =? S_MAX_FRAME_SIZE); [exists (fun s => s); repeat split; cbn; auto; symmetry; apply map_id|].
  destruct (id =? S_MAX_CONCURRENT_STREAMS); [exists (fun s => s); repeat split; cbn; auto; symmetry; apply map_id|].
  destruct (id =? S_INITIAL_WINDOW_SIZE); [|exists (fun s => s); repeat split; cbn; auto; symmetry; apply map_id].
  exists (fun s => if ms_closed s then s else ms_add_win (v - m_init_win m) s). repeat split; cbn; auto;
    destruct (ms_closed s); reflexivity.
Qed.

Lemma apply_settings_shape : forall kvs m, exists g, keeps g /\
  m_streams (apply_settings m kvs) = map g (m_streams m) /\
  m_hdr_open (apply_settings m kvs) = m_hdr_open m /\ m_pending (apply_settings m kvs) = m_pending m /\
  m_last_sid (apply_settings m kvs) = m_last_sid m.
Proof.
  unfold apply_settings. induction kvs as [|kv r IH]; intros m; simpl.
  - exists (fun s => s). repeat split; auto. symmetry; apply map_id.
  - destruct (apply_setting_shape m kv) as (g1 & K1 & S1 & A1 & B1 & C1).
    destruct (IH (apply_setting m kv)) as (g2 & K2 & S2 & A2 & B2 & C2).
    exists (fun s => g2 (g1 s)). repeat split; try congruence.
    + destruct (K2 (g1 s)) as [E _]. destruct (K1 s) as [F _]. congruence.
    + destruct (K2 (g1 s)) as [_ E]. destruct (K1 s) as [_ F]. congruence.
    + rewrite S2, S1, map_map. reflexivity.
Qed.

(* ---- header blocks ---- *)
Lemma mon_hb_step : forall m e m' r, monitor_step m e = inl m' ->
  hb_run (m_hdr_open m) (e :: r) = hb_run (m_hdr_open m') r.
Proof.
  intros m e m' r H. destruct e as [f|f]; cbn [monitor_step] in H; cbn [hb_run].
  - unfold mon_client in H.
    destruct (negb (m_hdr_open m =? 0) && negb (is_continuation_on f (m_hdr_open m))) eqn:E0; [discriminate|].
    destruct (match frame_len f with Some l => max_frame_allowed m <? l | None => false end); [discriminate|].
    unfold ok, bad in H. destruct f.
    + inversion H; subst. f_equal. clear. generalize m. induction kvs as [|[id v] k IH]; intros m0; simpl; [reflexivity|].
      rewrite <- IH. unfold apply_client_setting. destruct (id =? S_INITIAL_WINDOW_SIZE); reflexivity.
    + destruct (m_pending m) as [|kvs rest]; [discriminate|]. inversion H; subst.
      destruct (apply_settings_shape kvs
        (mkMon (m_max_frame m) (m_init_win m) (m_max_streams m) rest (m_conn_win m) (m_streams m) (m_last_sid m)
               (m_hdr_open m) (m_sent m) (m_acked m + 1) (m_pings m) (m_c_conn_win m) (m_c_init_win m)))
        as (g & _ & _ & A & _). rewrite A. reflexivity.
    + destruct (sid =? 0); inversion H; subst; reflexivity.
    + destruct (find_ms sid (m_streams m)) as [s|].
      * destruct (ms_cli_closed s); [discriminate|]. inversion H; subst.
        destruct end_headers, end_stream; reflexivity.
      * destruct (Z.even sid || (sid <=? m_last_sid m)); [discriminate|].
        destruct (negb (streams_allowed m)); [discriminate|]. inversion H; subst. cbn.
        destruct end_headers; [|reflexivity].
        (* no block was open: a HEADERS frame passed the contiguity test *)
        destruct (m_hdr_open m =? 0) eqn:Z0; [f_equal; lia|]. cbn in E0. discriminate.
    + destruct (m_hdr_open m =? 0); [discriminate|]. inversion H; subst. destruct end_headers; reflexivity.
    + destruct (find_ms sid (m_streams m)) as [s|]; [|discriminate].
      destruct (ms_cli_closed s); [discriminate|]. cbv zeta in H.
      destruct ((0 <? len) && negb (ms_closed s) && (ms_win s - len <? 0)); [discriminate|].
      destruct ((0 <? len) && (m_conn_win m - len <? 0)); [discriminate|]. inversion H; subst. reflexivity.
    + destruct (find_ms sid (m_streams m)); [|discriminate]. inversion H; subst. reflexivity.
    + inversion H; subst. reflexivity.
    + destruct ack.
      * destruct (m_pings m) as [|mark rest]; [inversion H; subst; reflexivity|].
        destruct (m_acked m <? mark); [discriminate|]. inversion H; subst. reflexivity.
      * inversion H; subst. reflexivity.
    + destruct (code =? 0); [|discriminate]. inversion H; subst. reflexivity.
    + inversion H; subst. reflexivity.
  - unfold ok in H. inversion H; subst. f_equal. destruct f; cbn [mon_peer]; try reflexivity.
    + destruct (sid =? 0); reflexivity.
    + destruct end_stream; reflexivity.
    + destruct ack; reflexivity.
Qed.

Lemma mon_hb : forall tr m m', mon_steps m tr = Some m' -> hb_run (m_hdr_open m) tr = Some (m_hdr_open m').
Proof.
  induction tr as [|e r IH]; intros m m' H; simpl in H.
  - inversion H; reflexivity.
  - destruct (monitor_step m e) as [m1|] eqn:E; [|discriminate].
    rewrite (mon_hb_step _ _ _ r E). apply IH. exact H.
Qed.

(* ---- what one accepted step does to the stream table and the scalar books ---- *)
Definition is_settings_ev (e : ev) : bool :=
  match e with P (FSettings _) | C FSettingsAck => true | _ => false end.

Definition new_stream_of (m : mon) (e : ev) : option Z :=
  match e with
  | C (FHeaders sid _ _ _) => match find_ms sid (m_streams m) with None => Some sid | Some _ => None end
  | _ => None
  end.

Definition closes (e : ev) (sid : Z) : bool :=
  match e with
  | C (FData s _ es) => (s =? sid) && es
  | C (FHeaders s _ _ es) => (s =? sid) && es
  | C (FRst s) => s =? sid
  | _ => false
  end.

Definition mono (g : mstream -> mstream) : Prop :=
  forall s, ms_id (g s) = ms_id s /\ (ms_cli_closed s = true -> ms_cli_closed (g s) = true).

(* shape of an accepted step: the table is mapped by an id-preserving, close-monotone function,
   possibly with one new stream in front *)
Lemma mon_step_shape : forall m e m', monitor_step m e = inl m' ->
  (is_settings_ev e = false -> m_pending m' = m_pending m) /\
  exists g, mono g /\
    match new_stream_of m e with
    | Some sid => exists s0, ms_id s0 = sid /\ m_streams m' = s0 :: m_streams m /\
                  m_last_sid m < sid /\ Z.odd sid = true /\ m_last_sid m' = sid /\
                  (closes e sid = true -> ms_cli_closed s0 = true)
    | None => m_streams m' = map g (m_streams m) /\ m_last_sid m' = m_last_sid m /\
              forall sid, closes e sid = true -> forall s, ms_id s = sid -> ms_cli_closed (g s) = true
    end.
Proof.
  intros m e m' H.
  assert (Hid : mono (fun s => s)) by (intros s; split; auto).
  assert (Hupd : forall k g, mono g -> mono (fun s => if ms_id s =? k then g s else s)).
  { intros k g Hg s. destruct (ms_id s =? k); [apply Hg|split; auto]. }
  destruct e as [f|f]; cbn [monitor_step] in H.
  - unfold mon_client in H.
    destruct (negb (m_hdr_open m =? 0) && negb (is_continuation_on f (m_hdr_open m))); [discriminate|].
    destruct (match frame_len f with Some l => max_frame_allowed m <? l | None => false end); [discriminate|].
    unfold ok, bad in H. destruct f; cbn [is_settings_ev new_stream_of closes].
    + (* client SETTINGS *) inversion H; subst. clear H.
      assert (G : forall kvs m0, m_pending (fold_left apply_client_setting kvs m0) = m_pending m0 /\
                  m_last_sid (fold_left apply_client_setting kvs m0) = m_last_sid m0 /\
                  exists g, mono g /\ m_streams (fold_left apply_client_setting kvs m0) = map g (m_streams m0)).
      { induction kvs0 as [|[id v] k IH]; intros m0; simpl.
        - repeat split; auto. exists (fun s => s). split; [exact Hid|symmetry; apply map_id].
        - destruct (IH (apply_client_setting m0 (id, v))) as (A & B & g2 & K2 & S2).
          unfold apply_client_setting in *. destruct (id =? S_INITIAL_WINDOW_SIZE).
          + cbn in *. repeat split; auto. exists (fun s => g2 (ms_add_recv (v - m_c_init_win m0) s)).
            split; [|rewrite S2, map_map; reflexivity].
            intros s. destruct (K2 (ms_add_recv (v - m_c_init_win m0) s)) as [E1 E2]. split; [rewrite E1; reflexivity|].
            intros Hc. apply E2. exact Hc.
          + repeat split; auto. exists g2. split; auto. }
      destruct (G kvs m) as (A & B & g & K & S). split; [intros _; exact A|].
      exists g. split; [exact K|]. repeat split; auto. intros sid Hc; discriminate.
    + (* ack *) destruct (m_pending m) as [|kvs rest]; [discriminate|]. inversion H; subst. clear H.
      split; [intros; discriminate|].
      destruct (apply_settings_shape kvs
        (mkMon (m_max_frame m) (m_init_win m) (m_max_streams m) rest (m_conn_win m) (m_streams m) (m_last_sid m)
               (m_hdr_open m) (m_sent m) (m_acked m + 1) (m_pings m) (m_c_conn_win m) (m_c_init_win m)))
        as (g & K & S & _ & _ & L).
      exists g. split; [intros s; destruct (K s) as [E1 E2]; split; [exact E1|rewrite E2; auto]|].
      repeat split; auto. intros sid Hc; discriminate.
    + (* window update *) split; [intros _; destruct (sid =? 0); inversion H; subst; reflexivity|].
      destruct (sid =? 0); inversion H; subst.
      * exists (fun s => s). split; [exact Hid|]. repeat split; [symmetry; apply map_id|]. intros; discriminate.
      * exists (fun s => if ms_id s =? sid then ms_add_recv inc s else s). split; [apply Hupd; intros s; split; auto|].
        repeat split. intros; discriminate.
    + (* headers *) destruct (find_ms sid (m_streams m)) as [s|] eqn:Ef.
      * destruct (ms_cli_closed s); [discriminate|]. inversion H; subst. clear H.
        split; [intros _; destruct end_headers, end_stream; reflexivity|].
        exists (fun s0 => if end_stream then (if ms_id s0 =? sid then ms_set_cli_closed s0 else s0) else s0).
        split; [intros s0; destruct end_stream; [destruct (ms_id s0 =? sid)|]; split; auto|].
        destruct end_headers, end_stream; cbn; repeat split; auto; try (symmetry; apply map_id);
          intros sid0 Hc; try discriminate; try (exfalso; lia); intros s0 Hs0;
          replace (ms_id s0 =? sid) with true by lia; reflexivity.
      * destruct (Z.even sid || (sid <=? m_last_sid m)) eqn:E1; [discriminate|].
        destruct (negb (streams_allowed m)); [discriminate|]. inversion H; subst. clear H.
        split; [intros _; reflexivity|]. exists (fun s => s). split; [exact Hid|].
        eexists. cbn. repeat split; try reflexivity; try lia.
        -- rewrite <- Z.negb_even. destruct (Z.even sid); [discriminate|reflexivity].
        -- rewrite Z.eqb_refl. cbn. auto.
    + (* continuation *) destruct (m_hdr_open m =? 0); [discriminate|]. inversion H; subst.
      split; [intros _; destruct end_headers; reflexivity|]. exists (fun s => s). split; [exact Hid|].
      destruct end_headers; repeat split; try (symmetry; apply map_id); intros; discriminate.
    + (* data *) destruct (find_ms sid (m_streams m)) as [s|]; [|discriminate].
      destruct (ms_cli_closed s); [discriminate|]. cbv zeta in H.
      destruct ((0 <? len) && negb (ms_closed s) && (ms_win s - len <? 0)); [discriminate|].
      destruct ((0 <? len) && (m_conn_win m - len <? 0)); [discriminate|]. inversion H; subst. clear H.
      split; [intros _; reflexivity|].
      exists (fun s0 => if ms_id s0 =? sid then
                (let s1 := if ms_closed s0 then s0 else ms_add_win (- len) s0 in if end_stream then ms_set_cli_closed s1 else s1)
              else s0).
      split; [apply Hupd; intros s0; cbv zeta; destruct (ms_closed s0), end_stream; split; auto|].
      cbn. repeat split. intros sid0 Hc s0 Hs0. apply andb_true_iff in Hc as [Hc1 Hc2]. subst end_stream.
      replace (ms_id s0 =? sid) with true by lia. cbv zeta. destruct (ms_closed s0); reflexivity.
    + (* rst *) destruct (find_ms sid (m_streams m)); [|discriminate]. inversion H; subst. clear H.
      split; [intros _; reflexivity|].
      exists (fun s0 => if ms_id s0 =? sid then ms_set_cli_reset s0 else s0).
      split; [apply Hupd; intros s0; split; auto|]. cbn. repeat split.
      intros sid0 Hc s0 Hs0. replace (ms_id s0 =? sid) with true by lia. reflexivity.
    + inversion H; subst. split; [reflexivity|]. exists (fun s => s). split; [exact Hid|].
      repeat split; try (symmetry; apply map_id); intros; discriminate.
    + assert (m_pending m' = m_pending m /\ m_streams m' = m_streams m /\ m_last_sid m' = m_last_sid m) as (A & B & C0).
      { destruct ack.
        - destruct (m_pings m) as [|mark rest]; [inversion H; subst; auto|].
          destruct (m_acked m <? mark); [discriminate|]. inversion H; subst. auto.
        - inversion H; subst. auto. }
      split; [intros _; exact A|]. exists (fun s => s). split; [exact Hid|].
      repeat split; auto; [rewrite map_id; exact B|intros; discriminate].
    + destruct (code =? 0); [|discriminate]. inversion H; subst. split; [reflexivity|].
      exists (fun s => s). split; [exact Hid|]. repeat split; try (symmetry; apply map_id); intros; discriminate.
    + inversion H; subst. split; [reflexivity|]. exists (fun s => s). split; [exact Hid|].
      repeat split; try (symmetry; apply map_id); intros; discriminate.
  - unfold ok in H. inversion H; subst. clear H.
    assert (Hnone : new_stream_of m (P f) = None) by reflexivity. rewrite Hnone.
    destruct f; cbn [mon_peer is_settings_ev closes];
      try (split; [reflexivity|]; exists (fun s => s); split; [exact Hid|];
           repeat split; try (symmetry; apply map_id); intros; discriminate).
    + split; [intros; discriminate|]. exists (fun s => s). split; [exact Hid|].
      repeat split; try (symmetry; apply map_id); intros; discriminate.
    + split; [destruct (sid =? 0); reflexivity|]. destruct (sid =? 0).
      * exists (fun s => s). split; [exact Hid|]. repeat split; try (symmetry; apply map_id); intros; discriminate.
      * exists (fun s0 => if ms_id s0 =? sid then ms_add_win inc s0 else s0). split; [apply Hupd; intros s0; split; auto|].
        repeat split; intros; discriminate.
    + split; [destruct end_stream; reflexivity|]. destruct end_stream.
      * exists (fun s0 => if ms_id s0 =? sid then ms_set_peer_ended s0 else s0). split; [apply Hupd; intros s0; split; auto|].
        repeat split; intros; discriminate.
      * exists (fun s => s). split; [exact Hid|]. repeat split; try (symmetry; apply map_id); intros; discriminate.
    + split; [reflexivity|].
      exists (fun s0 => if ms_id s0 =? sid then (let s1 := ms_add_recv (- len) s0 in if end_stream then ms_set_peer_ended s1 else s1) else s0).
      split; [apply Hupd; intros s0; cbv zeta; destruct end_stream; split; auto|]. repeat split; intros; discriminate.
    + split; [reflexivity|]. exists (fun s0 => if ms_id s0 =? sid then ms_set_peer_reset s0 else s0).
      split; [apply Hupd; intros s0; split; auto|]. repeat split; intros; discriminate.
    + split; [destruct ack; reflexivity|]. exists (fun s => s). split; [exact Hid|].
      destruct ack; repeat split; try (symmetry; apply map_id); intros; discriminate.
Qed.

(* ---- closed streams ---- *)
Definition cli_closed_in (m : mon) (sid : Z) : bool :=
  match find_ms sid (m_streams m) with Some s => ms_cli_closed s | None => false end.

Lemma find_ms_map : forall g sid l, (forall s, ms_id (g s) = ms_id s) ->
  find_ms sid (map g l) = match find_ms sid l with Some s => Some (g s) | None => None end.
Proof.
  intros g sid l Hg. induction l as [|s r IH]; simpl; [reflexivity|].
  rewrite Hg. destruct (ms_id s =? sid); [reflexivity|exact IH].
Qed.

Lemma find_ms_id : forall sid l s, find_ms sid l = Some s -> ms_id s = sid.
Proof. intros sid l s H. apply find_ms_In in H. apply H. Qed.

Lemma accepted_open : forall m f m' sid, monitor_step m (C f) = inl m' ->
  match f with FData s _ _ => s = sid | FHeaders s _ _ _ => s = sid | _ => False end ->
  cli_closed_in m sid = false.
Proof.
  intros m f m' sid H Hf. cbn [monitor_step] in H. unfold mon_client in H.
  destruct (negb (m_hdr_open m =? 0) && negb (is_continuation_on f (m_hdr_open m))); [discriminate|].
  destruct (match frame_len f with Some l => max_frame_allowed m <? l | None => false end); [discriminate|].
  unfold cli_closed_in. destruct f; try contradiction; subst sid0.
  - destruct (find_ms sid (m_streams m)) as [s|]; [|reflexivity]. destruct (ms_cli_closed s); [discriminate|reflexivity].
  - destruct (find_ms sid (m_streams m)) as [s|]; [|discriminate]. destruct (ms_cli_closed s); [discriminate|reflexivity].
Qed.

Lemma closes_found : forall m e m' sid, monitor_step m e = inl m' -> closes e sid = true ->
  new_stream_of m e = None -> exists s, find_ms sid (m_streams m) = Some s.
Proof.
  intros m e m' sid H Hc Hn. destruct e as [f|f]; [|discriminate].
  cbn [monitor_step] in H. unfold mon_client in H.
  destruct (negb (m_hdr_open m =? 0) && negb (is_continuation_on f (m_hdr_open m))); [discriminate|].
  destruct (match frame_len f with Some l => max_frame_allowed m <? l | None => false end); [discriminate|].
  destruct f; cbn [closes new_stream_of] in *; try discriminate.
  - apply andb_true_iff in Hc as [Hc _]. assert (sid0 = sid) by lia. subst.
    destruct (find_ms sid (m_streams m)) as [s|]; [eauto|discriminate].
  - apply andb_true_iff in Hc as [Hc _]. assert (sid0 = sid) by lia. subst.
    destruct (find_ms sid (m_streams m)) as [s|]; [eauto|discriminate].
  - assert (sid0 = sid) by lia. subst. destruct (find_ms sid (m_streams m)) as [s|]; [eauto|discriminate].
Qed.

Lemma closed_step : forall m e m' sid, monitor_step m e = inl m' ->
  (cli_closed_in m sid = true \/ closes e sid = true) -> cli_closed_in m' sid = true.
Proof.
  intros m e m' sid H Hor. pose proof (mon_step_shape _ _ _ H) as (_ & g & Hg & Hs).
  destruct (new_stream_of m e) as [nsid|] eqn:En.
  - destruct Hs as (s0 & I0 & S0 & _ & _ & _ & Hcl). unfold cli_closed_in. rewrite S0. cbn [find_ms]. rewrite I0.
    destruct (nsid =? sid) eqn:E.
    + assert (Hx : nsid = sid) by lia. rewrite Hx in *. destruct Hor as [Ho|Ho]; [|apply Hcl; exact Ho].
      (* the stream was new: it cannot have been closed before *)
      unfold cli_closed_in in Ho. destruct e as [f|f]; [|discriminate]. destruct f; try discriminate.
      cbn [new_stream_of] in En. destruct (find_ms sid0 (m_streams m)) eqn:Ef; [discriminate|]. inversion En; subst.
      rewrite Ef in Ho. discriminate.
    + destruct Hor as [Ho|Ho]; [exact Ho|].
      (* the frame closes sid but opened nsid <> sid: impossible *)
      destruct e as [f|f]; [|discriminate]. destruct f; try discriminate. cbn [new_stream_of closes] in *.
      destruct (find_ms sid0 (m_streams m)); [discriminate|]. inversion En; subst. lia.
  - destruct Hs as (S0 & _ & Hcl). unfold cli_closed_in. rewrite S0.
    rewrite find_ms_map by (intros s; apply (Hg s)).
    destruct Hor as [Ho|Ho].
    + unfold cli_closed_in in Ho. destruct (find_ms sid (m_streams m)) as [s|]; [|discriminate].
      apply (Hg s). exact Ho.
    + destruct (closes_found _ _ _ _ H Ho En) as (s & Ef). rewrite Ef. apply (Hcl sid Ho). eapply find_ms_id; eauto.
Qed.

Definition no_other (e : ev) : Prop := match e with C (FOther _ _ _) => False | _ => True end.

Lemma mon_css : forall tr m m' closed, mon_steps m tr = Some m' -> Forall no_other tr ->
  (forall sid, zmem sid closed = true -> cli_closed_in m sid = true) -> css_ok closed tr = true.
Proof.
  induction tr as [|e r IH]; intros m m' closed H Hno Hinv; [reflexivity|].
  simpl in H. destruct (monitor_step m e) as [m1|] eqn:E; [|discriminate].
  inversion Hno as [|? ? Hn1 Hn2]; subst.
  assert (Hkeep : forall sid, zmem sid closed = true -> cli_closed_in m1 sid = true).
  { intros sid Hz. eapply closed_step; [exact E|left; auto]. }
  assert (Hadd : forall sid, closes e sid = true -> forall sid0, zmem sid0 (sid :: closed) = true -> cli_closed_in m1 sid0 = true).
  { intros sid Hc sid0 Hz. cbn [zmem] in Hz. apply orb_true_iff in Hz as [Hz|Hz]; [|auto].
    assert (sid = sid0) by lia. subst. eapply closed_step; [exact E|right; exact Hc]. }
  destruct e as [f|f]; cbn [css_ok]; [|eapply IH; eauto].
  destruct f; try (eapply IH; eauto; fail).
  - (* HEADERS *)
    assert (Hz : zmem sid closed = false).
    { destruct (zmem sid closed) eqn:Z0; [|reflexivity]. specialize (Hinv sid Z0).
      rewrite (accepted_open _ _ _ sid E) in Hinv by reflexivity. discriminate. }
    rewrite Hz. cbn [negb andb]. destruct end_stream; [|eapply IH; eauto].
    eapply IH; eauto. apply Hadd. cbn [closes]. rewrite Z.eqb_refl. reflexivity.
  - (* DATA *)
    assert (Hz : zmem sid closed = false).
    { destruct (zmem sid closed) eqn:Z0; [|reflexivity]. specialize (Hinv sid Z0).
      rewrite (accepted_open _ _ _ sid E) in Hinv by reflexivity. discriminate. }
    rewrite Hz. cbn [negb andb]. destruct end_stream; [|eapply IH; eauto].
    eapply IH; eauto. apply Hadd. cbn [closes]. rewrite Z.eqb_refl. reflexivity.
  - (* RST_STREAM *) eapply IH; eauto. apply Hadd. cbn [closes]. apply Z.eqb_refl.
  - contradiction.
Qed.

(* ---- stream ids ---- *)
Definition ids_below (m : mon) : Prop := Forall (fun s => ms_id s <= m_last_sid m) (m_streams m).

Lemma ids_step : forall m e m', monitor_step m e = inl m' -> ids_below m -> ids_below m' /\ m_last_sid m <= m_last_sid m'.
Proof.
  intros m e m' H Hi. pose proof (mon_step_shape _ _ _ H) as (_ & g & Hg & Hs).
  unfold ids_below in *. destruct (new_stream_of m e) as [nsid|].
  - destruct Hs as (s0 & I0 & S0 & Hlt & _ & L & _). rewrite S0, L. split; [|lia].
    constructor; [lia|]. eapply Forall_impl; [|exact Hi]. simpl. intros; lia.
  - destruct Hs as (S0 & L & _). rewrite S0, L. split; [|lia].
    apply Forall_map. eapply Forall_impl; [|exact Hi]. simpl. intros s Hs0. destruct (Hg s) as [E _]. rewrite E. exact Hs0.
Qed.

Lemma ids_steps : forall tr m m', mon_steps m tr = Some m' -> ids_below m -> ids_below m'.
Proof.
  induction tr as [|e r IH]; intros m m' H Hi; simpl in H; [inversion H; subst; exact Hi|].
  destruct (monitor_step m e) as [m1|] eqn:E; [|discriminate].
  eapply IH; [exact H|]. apply (ids_step _ _ _ E Hi).
Qed.

(* ---- SETTINGS in flight ---- *)
Lemma pending_quiet : forall tr pre e post m m1, sa_ok tr = true -> tr = pre ++ e :: post ->
  m_pending m = [] -> mon_steps m pre = Some m1 -> e <> C FSettingsAck -> m_pending m1 = [].
Proof.
  intros tr. remember (length tr) as n eqn:Hn. revert tr Hn.
  induction n as [n IHn] using lt_wf_ind. intros tr Hn pre e post m m1 Hsa Htr Hp Hm He.
  destruct pre as [|e0 pre'].
  - simpl in Hm. inversion Hm; subst. exact Hp.
  - simpl in Htr. subst tr. simpl in Hm. destruct (monitor_step m e0) as [m2|] eqn:E0; [|discriminate].
    destruct (is_settings_ev e0) eqn:Es.
    + destruct e0 as [f|f]; destruct f; try discriminate.
      (* (a client ack at the head of an sa_ok trace is impossible) P SETTINGS, then the ack *)
      *        cbn [sa_ok app] in Hsa.
        destruct pre' as [|e1 pre''].
        -- simpl in Hsa. destruct e as [f|f]; try discriminate. destruct f; try discriminate. contradiction.
        -- simpl in Hsa. destruct e1 as [f|f]; try discriminate. destruct f; try discriminate.
           cbn [mon_steps] in Hm. destruct (monitor_step m2 (C FSettingsAck)) as [m3|] eqn:E1; [|discriminate].
           assert (Hp3 : m_pending m3 = []).
           { cbn [monitor_step] in E0. unfold ok in E0. inversion E0; subst m2. clear E0.
             cbn [monitor_step] in E1. unfold mon_client in E1. cbn [mon_peer m_hdr_open frame_len] in E1.
             destruct (negb (m_hdr_open m =? 0) && negb (is_continuation_on FSettingsAck (m_hdr_open m))); [discriminate|].
             cbn [m_pending] in E1. rewrite Hp in E1. cbn [app] in E1. unfold ok in E1. inversion E1; subst m3.
             match goal with |- m_pending (apply_settings ?mm ?k) = [] =>
               destruct (apply_settings_shape k mm) as (g & _ & _ & _ & B & _); rewrite B end. reflexivity. }
           eapply (IHn (length (pre'' ++ e :: post))); [|reflexivity|exact Hsa|reflexivity|exact Hp3|exact Hm|exact He].
           subst n. simpl. lia.
    + assert (Hp2 : m_pending m2 = []).
      { pose proof (mon_step_shape _ _ _ E0) as (Hq & _). rewrite (Hq Es). exact Hp. }
      assert (Hsa2 : sa_ok (pre' ++ e :: post) = true).
      { destruct e0 as [f|f]; destruct f; try discriminate; simpl in Hsa; exact Hsa. }
      eapply (IHn (length (pre' ++ e :: post))); [|reflexivity|exact Hsa2|reflexivity|exact Hp2|exact Hm|exact He].
      subst n. simpl. lia.
Qed.
