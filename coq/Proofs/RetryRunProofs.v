(* Proofs/RetryRunProofs.v - C10: Request.Do as a whole ([run] of Model/Retry.v): up-front refusal
   of unreplayable bodies, identity of all attempts, what the first attempt carries. *)
From ReqV Require Import Lib.Bytes Lib.BytesFacts Model.Retry Proofs.RetryProofs Proofs.RetryLoopProofs.
From Coq Require Import Lia ZifyBool ZifyNat.

Ltac simp_r :=
  cbn [r_method r_rawquery r_headers r_cookies r_form r_query r_body r_getbody r_reader r_unreplayable r_attempt
       r_path r_pparams r_ordered r_marshal r_close
       set_headers set_cookies set_form set_body set_reader set_attempt set_marshal].

Definition refused (ro : option ropt) (s : rstate) : bool :=
  match ro with
  | Some o => negb (ro_max o =? 0)%Z && r_unreplayable s
  | None => false
  end.

Definition silent (ro : option ropt) : Prop :=
  match ro with Some o => hooks_silent (ro_hooks o) | None => True end.

(* SetBody(io.Reader) sets GetBody and unReplayableBody together *)
Definition wf_body (s : rstate) : Prop := r_getbody s = GBReader -> r_unreplayable s = true.

Section RunProofs.
Variable detect : bytes -> bytes.
Variable c : client.

Theorem unreplayable_fails_up_front o s ins :
  ro_max o <> 0%Z -> r_unreplayable s = true ->
  run detect c (Some o) s ins =
    mkResult [] [] [] [] (mkView None (Some (-1)%Z)) (r_attempt s) EndUpFront.
Proof.
  intros HN Hu. unfold run, run_gen. rewrite Hu.
  replace (ro_max o =? 0)%Z with false by lia. reflexivity.
Qed.

Lemma run_not_refused ro s ins : refused ro s = false -> run detect c ro s ins = do_loop detect c ro 0 s ins.
Proof.
  unfold refused, run, run_gen, do_loop. destruct ro as [o|]; [|reflexivity].
  intros H. rewrite H. reflexivity.
Qed.

Lemma run_refused ro s ins : refused ro s = true -> res_wires (run detect c ro s ins) = [].
Proof.
  unfold refused, run, run_gen. destruct ro as [o|]; [|discriminate].
  intros H. rewrite H. reflexivity.
Qed.

(* a reader body is never sent twice: refused up front when retries are enabled, a single
   attempt otherwise *)
Theorem unreplayable_never_partial ro s ins :
  r_unreplayable s = true -> (0 <= r_attempt s)%Z ->
  (length (res_wires (run detect c ro s ins)) <= 1)%nat.
Proof.
  intros Hu Hs. destruct (refused ro s) eqn:E.
  - rewrite run_refused by exact E. cbn. lia.
  - rewrite run_not_refused by exact E. destruct ro as [o|]; [|apply attempts_no_option].
    apply do_loop_single; [|exact Hs].
    unfold refused in E. rewrite Hu, andb_true_r in E. lia.
Qed.

Lemma do_loop_first_wire ro k s ins :
  match res_wires (do_loop detect c ro k s ins) with
  | [] => True
  | w :: _ => w = wire_of c (prepare detect c s)
  end.
Proof.
  destruct ins as [|a rest]; [destruct ro; exact I|].
  destruct ro as [o|]; [|rewrite do_loop_none; reflexivity].
  rewrite do_loop_step. cbv zeta.
  destruct (first_some (a_after a)); [reflexivity|].
  destruct (hard_stop o _ a); [reflexivity|].
  destruct (fst (need_retry (ro_conds o) (view_of (a_out a)))); [|reflexivity].
  destruct (a_wait_cancel a); reflexivity.
Qed.

(* every attempt puts the request on the wire that the first pass of the middlewares built *)
Theorem attempts_identical ro s ins :
  (0 <= r_attempt s)%Z -> wf_body s -> silent ro ->
  forall w, In w (res_wires (run detect c ro s ins)) -> wire_same w (wire_of c (prepare detect c s)).
Proof.
  intros Hs Hwf Hsil w Hin. destruct (refused ro s) eqn:E.
  { rewrite run_refused in Hin by exact E. contradiction. }
  destruct (r_getbody s) eqn:Eg.
  3:{ (* reader body: a single attempt *)
      pose proof (unreplayable_never_partial ro s ins (Hwf Eg) Hs) as Hlen.
      rewrite run_not_refused in * by exact E.
      pose proof (do_loop_first_wire ro 0%Z s ins) as Hf.
      destruct (res_wires (do_loop detect c ro 0 s ins)) as [|w0 [|w1 tl]]; [contradiction| |cbn in Hlen; lia].
      destruct Hin as [<-|[]]. rewrite Hf. apply wire_same_refl. }
  all: rewrite run_not_refused in Hin by exact E;
       assert (Hg : r_getbody s <> GBReader) by (rewrite Eg; discriminate);
       pose proof (do_loop_identical detect c ro s ins Hs Hg Hsil) as HF;
       rewrite Forall_forall in HF; apply HF, Hin.
Qed.

Corollary attempts_pairwise_identical ro s ins :
  (0 <= r_attempt s)%Z -> wf_body s -> silent ro ->
  forall w1 w2, In w1 (res_wires (run detect c ro s ins)) -> In w2 (res_wires (run detect c ro s ins)) ->
  wire_same w1 w2.
Proof.
  intros Hs Hwf Hsil w1 w2 H1 H2.
  eapply wire_same_trans; [apply (attempts_identical ro s ins Hs Hwf Hsil w1 H1)|].
  apply wire_same_sym, (attempts_identical ro s ins Hs Hwf Hsil w2 H2).
Qed.

(* ---------- what that request is: the caller's method, query, cookies and complete body ---------- *)

Lemma prepare_query s : wire_query c (prepare detect c s) = wire_query c s.
Proof.
  unfold wire_query. destruct (prepare_url_fields detect c s) as (-> & -> & _ & _). reflexivity.
Qed.

Lemma prepare_path s : wire_path c (prepare detect c s) = wire_path c s.
Proof.
  unfold wire_path. destruct (prepare_url_fields detect c s) as (_ & _ & -> & ->). reflexivity.
Qed.

Theorem first_wire_method_query s :
  w_method (wire_of c (prepare detect c s)) = r_method s /\
  w_path (wire_of c (prepare detect c s)) = wire_path c s /\
  w_query (wire_of c (prepare detect c s)) = wire_query c s.
Proof.
  unfold wire_of. cbn [w_method w_path w_query].
  split; [apply prepare_method|split; [apply prepare_path|apply prepare_query]].
Qed.

Lemma prep_body_cookies X : r_cookies (prep_body detect c X) = r_cookies X.
Proof.
  unfold prep_body, prep_body_gen, detect_stage, marshal_stage. destruct X as [m rq h ck f q bd gb rd un at_ pa pp od ms cl]. simp_r.
  repeat match goal with
         | |- context [if ?b then _ else _] => destruct b; simp_r
         | |- context [match ?b with Some _ => _ | None => _ end] => destruct b; simp_r
         end; reflexivity.
Qed.

(* "Connection: close" exactly when the caller asked for it (EnableCloseConnection) - on every
   attempt (C10_attempts_identical): nothing in an attempt writes the flag *)
Theorem first_wire_close s : w_close (wire_of c (prepare detect c s)) = r_close s.
Proof. unfold wire_of. cbn [w_close]. apply prepare_close. Qed.

(* request-level cookies first, then the client-level ones - once *)
Theorem first_wire_cookies s :
  (r_attempt s <= 0)%Z ->
  w_cookies (wire_of c (prepare detect c s)) = r_cookies s ++ c_cookies c.
Proof.
  intros Hs. unfold wire_of. cbn [w_cookies]. unfold prepare. rewrite prep_body_cookies.
  unfold prep_cookie, prep_header.
  replace (r_attempt s <=? 0)%Z with true by lia. simp_r.
  replace (r_attempt s <=? 0)%Z with true by lia. rewrite andb_true_r.
  destruct (c_cookies c) eqn:E; cbn [nonempty]; simp_r; [rewrite app_nil_r|]; reflexivity.
Qed.

(* without form data the body on the wire is the caller's complete body *)
Theorem first_wire_body s :
  payload_forbid c (r_method s) = false -> c_form c = [] -> r_form s = [] -> r_ordered s = [] ->
  r_marshal s = None ->
  w_body (wire_of c (prepare detect c s)) = body_now s.
Proof.
  intros Hf Hcf Hrf Hod Hms. unfold wire_of. cbn [w_body]. unfold prepare.
  set (s1 := prep_cookie c (prep_header c s)).
  assert (H1 : r_method s1 = r_method s /\ r_form s1 = r_form s /\ r_getbody s1 = r_getbody s /\
               r_reader s1 = r_reader s /\ r_ordered s1 = r_ordered s /\ r_marshal s1 = r_marshal s).
  { unfold s1, prep_cookie, prep_header. destruct (r_attempt s <=? 0)%Z; destruct (nonempty (c_cookies c) && _); simp_r; repeat split. }
  destruct H1 as (Em & Efm & Eg & Er & Eo & Ems).
  unfold prep_body, prep_body_gen. rewrite Em, Hf, Hcf. cbn [nonempty andb].
  rewrite Eo, Hod, Efm, Hrf. cbn [nonempty].
  assert (E0 : marshal_stage c s1 = s1) by (unfold marshal_stage; rewrite Ems, Hms; reflexivity).
  rewrite E0. unfold body_now. rewrite (detect_stage_getbody detect c s1).
  pose proof (frame_detect_stage detect c s1) as Hfr. unfold frame in Hfr.
  assert (Hrd : r_reader (detect_stage detect c s1) = r_reader s1) by congruence.
  rewrite Hrd, Eg, Er. reflexivity.
Qed.

(* a marshal body (SetBody with a struct / map): the XML rendering when the request's - else the
   client's - content type says xml, the JSON rendering otherwise *)
Theorem first_wire_marshal_body s m :
  payload_forbid c (r_method s) = false -> c_form c = [] -> r_form s = [] -> r_ordered s = [] ->
  r_marshal s = Some m ->
  w_body (wire_of c (prepare detect c s)) =
    Some (if is_xml_type (marshal_ct c (prep_header c s)) then snd m else fst m).
Proof.
  intros Hf Hcf Hrf Hod Hms. unfold wire_of. cbn [w_body]. unfold prepare.
  set (s1 := prep_cookie c (prep_header c s)).
  assert (H1 : r_method s1 = r_method s /\ r_form s1 = r_form s /\ r_ordered s1 = r_ordered s /\
               r_marshal s1 = r_marshal s /\ marshal_ct c s1 = marshal_ct c (prep_header c s)).
  { unfold s1, prep_cookie, prep_header. destruct (r_attempt s <=? 0)%Z; destruct (nonempty (c_cookies c) && _); simp_r; repeat split. }
  destruct H1 as (Em & Efm & Eo & Ems & Ect).
  unfold prep_body, prep_body_gen. rewrite Em, Hf, Hcf. cbn [nonempty andb].
  rewrite Eo, Hod, Efm, Hrf. cbn [nonempty].
  unfold body_now. rewrite (detect_stage_getbody detect c (marshal_stage c s1)).
  unfold marshal_stage. rewrite Ems, Hms, Ect.
  destruct (nonempty (marshal_ct c (prep_header c s))) eqn:E.
  - destruct (is_xml_type (marshal_ct c (prep_header c s))); reflexivity.
  - simp_r. assert (Hx : is_xml_type (marshal_ct c (prep_header c s)) = false).
    { destruct (marshal_ct c (prep_header c s)); [reflexivity|discriminate E]. }
    rewrite Hx. reflexivity.
Qed.

(* ordered form data: the pairs in the caller's order, then the plain form data *)
Theorem first_wire_ordered_body s :
  payload_forbid c (r_method s) = false -> r_ordered s <> [] -> (r_attempt s <= 0)%Z ->
  w_body (wire_of c (prepare detect c s)) =
    Some (ordered_encode (r_ordered s) (if nonempty (c_form c) then add_values (c_form c) (r_form s) else r_form s)).
Proof.
  intros Hf Hod Ha. unfold wire_of. cbn [w_body]. unfold prepare.
  set (s1 := prep_cookie c (prep_header c s)).
  assert (H1 : r_method s1 = r_method s /\ r_form s1 = r_form s /\ r_ordered s1 = r_ordered s /\ r_attempt s1 = r_attempt s).
  { unfold s1, prep_cookie, prep_header. destruct (r_attempt s <=? 0)%Z; destruct (nonempty (c_cookies c) && _); simp_r; repeat split. }
  destruct H1 as (Em & Efm & Eo & Ea).
  unfold prep_body, prep_body_gen. rewrite Em, Hf, Ea. cbn [orb].
  replace (r_attempt s <=? 0)%Z with true by lia. rewrite andb_true_r.
  assert (Hne : nonempty (r_ordered s) = true) by (destruct (r_ordered s); [contradiction Hod; reflexivity|reflexivity]).
  destruct (nonempty (c_form c)); simp_r; rewrite Eo, Hne; unfold body_now; simp_r; rewrite ?Efm; reflexivity.
Qed.

(* a method that must not carry a payload sends none, on every attempt *)
Theorem first_wire_no_payload s :
  payload_forbid c (r_method s) = true -> w_body (wire_of c (prepare detect c s)) = None.
Proof.
  intros Hf. unfold wire_of. cbn [w_body]. unfold prepare, prep_cookie, prep_header.
  destruct s as [m rq h ck f q bd gb rd un at_ pa pp od ms cl]. simp_r. cbn [r_method] in Hf.
  unfold prep_body, prep_body_gen, body_now.
  destruct (at_ <=? 0)%Z; simp_r; destruct (nonempty (c_cookies c) && _); simp_r; rewrite Hf; reflexivity.
Qed.

(* "unless a hook deliberately changed it": a header set by a hook (resp.Request.SetHeader)
   is on the wire of the next attempt (Content-Type excepted: the body stage owns it) *)
Theorem hook_header_is_sent s k v :
  bytes_eqb k content_type = false ->
  hget k (w_headers (wire_of c (prepare detect c (set_headers s (hset k [v] (r_headers s)))))) = [v].
Proof.
  intros Hk. unfold wire_of. cbn [w_headers].
  set (s' := set_headers s (hset k [v] (r_headers s))).
  set (X := prep_cookie c (prep_header c s')).
  assert (Hm : hget k (r_headers X) = [v]).
  { unfold X, prep_cookie, prep_header, s'. simp_r.
    destruct (r_attempt s <=? 0)%Z; destruct (nonempty (c_cookies c) && _); simp_r;
    rewrite ?hget_merge_headers, hget_hset_same; reflexivity. }
  unfold prepare. fold X.
  destruct (prep_body_headers_shape detect c X) as [E|[x E]]; rewrite E.
  - exact Hm.
  - rewrite hget_hset, Hk. exact Hm.
Qed.

(* ---------- the same Request object executed again ---------- *)

(* whatever counter the previous execution left (and whichever entry point is used: do() itself
   restarts it), an execution makes at most N+1 attempts ... *)
Theorem reexecution_bounded o s ins :
  hooks_keep_attempt (ro_hooks o) -> (0 <= ro_max o)%Z ->
  (Z.of_nat (length (res_wires (run_exec detect c true (Some o) s ins))) <= ro_max o + 1)%Z.
Proof.
  intros Hh HN. unfold run_exec, exec_start.
  destruct (refused (Some o) (set_attempt s 0)) eqn:E.
  - rewrite run_refused by exact E. cbn. lia.
  - rewrite run_not_refused by exact E. apply attempts_bounded; [exact Hh|reflexivity|exact HN].
Qed.

(* ... continues exactly as a fresh request would, and numbers its retries from 1 again *)
Theorem reexecution_exact o s ins j a :
  hooks_keep_attempt (ro_hooks o) -> refused (Some o) (set_attempt s 0) = false ->
  nth_error ins j = Some a -> (S j < length ins)%nat ->
  let n := length (res_wires (run_exec detect c true (Some o) s ins)) in
  (j < n)%nat -> ((S j < n)%nat <-> continues o (Z.of_nat j) a = true).
Proof.
  intros Hh E Hn Hl. unfold run_exec, exec_start. rewrite run_not_refused by exact E.
  apply attempts_exact; [exact Hh|reflexivity|exact Hn|exact Hl].
Qed.

Theorem reexecution_hooks_from_one o s ins :
  hooks_keep_attempt (ro_hooks o) -> refused (Some o) (set_attempt s 0) = false ->
  Forall (fun a => a_wait_cancel a = false) ins ->
  let r := run_exec detect c true (Some o) s ins in
  res_end r = EndNormal ->
  res_hooks r =
    flat_map (fun j => map (fun h => mkCall (hk_id h) (Z.of_nat (S j)) (view_of (a_out (nth j ins dflt_ain))))
                           (rev (ro_hooks o)))
             (seq 0 (pred (length (res_wires r)))).
Proof.
  intros Hh E Hnw. unfold run_exec, exec_start. rewrite run_not_refused by exact E.
  apply hooks_once_per_retry; [exact Hh|reflexivity|exact Hnw].
Qed.

End RunProofs.

(* ---------- the pinned code does not have these properties ---------- *)

Definition ex_client : client := mkClient [] [(bs "a", bs "1")] [] [] true [].
Definition ex_state : rstate := mkR (bs "POST") [] [] [] [] [] None GBNil [] false 0 [] [] [] None false.
Definition ex_ropt : ropt := mkRopt 1 0 [] [].
Definition ex_script : list ain := [mkAin (OErr 1 false) [] false; mkAin (OStatus 200) [] false].

(* client cookies: the second attempt of the pinned code carries the cookie twice *)
Theorem attempts_identical_pinned_refuted :
  exists w1 w2,
    res_wires (run_gen (fun _ => []) ex_client true (Some ex_ropt) ex_state ex_script) = [w1; w2] /\
    w_cookies w1 = [(bs "a", bs "1")] /\ w_cookies w2 = [(bs "a", bs "1"); (bs "a", bs "1")].
Proof. eexists. eexists. vm_compute. repeat split. Qed.

(* the repaired model on the same input *)
Example attempts_identical_nonvacuous :
  exists w,
    res_wires (run (fun _ => []) ex_client (Some ex_ropt) ex_state ex_script) = [w; w] /\
    w_cookies w = [(bs "a", bs "1")].
Proof. eexists. vm_compute. repeat split. Qed.

(* default rule with a request-level after-response middleware that returns nil: the pinned
   code stops after the failed first attempt, the repaired code retries *)
Definition ex_script_after : list ain := [mkAin (OErr 1 false) [None] false; mkAin (OStatus 200) [None] false].

Theorem default_rule_pinned_refuted :
  length (res_wires (run_gen (fun _ => []) ex_client true (Some ex_ropt) ex_state ex_script_after)) = 1%nat /\
  length (res_wires (run (fun _ => []) ex_client (Some ex_ropt) ex_state ex_script_after)) = 2%nat.
Proof. vm_compute. split; reflexivity. Qed.

(* without the restart (the counter reset only in Send, say): a request whose first execution
   used up its two retries gets none in the next one *)
Definition ex_ropt2 : ropt := mkRopt 2 0 [] [].
Definition ex_stale : rstate := mkR (bs "POST") [] [] [] [] [] None GBNil [] false 2 [] [] [] None false.
Definition ex_script3 : list ain := [mkAin (OErr 1 false) [] false; mkAin (OErr 1 false) [] false; mkAin (OStatus 200) [] false].

Theorem stale_counter_refuted :
  length (res_wires (run_exec (fun _ => []) ex_client false (Some ex_ropt2) ex_stale ex_script3)) = 1%nat /\
  length (res_wires (run_exec (fun _ => []) ex_client true (Some ex_ropt2) ex_stale ex_script3)) = 3%nat.
Proof. vm_compute. split; reflexivity. Qed.

(* a round-trip wrapper's error next to a response is an error of the attempt: the default rule
   retries it, and it is what Do returns when that attempt is the last *)
Theorem wrapper_error_is_the_attempts_error s e :
  fst (need_retry [] (view_of (OStatusErr s e))) = true /\
  final_view (mkAin (OStatusErr s e) [] false) = mkView (Some s) (Some e).
Proof. split; reflexivity. Qed.
