(* Proofs/AuthParamProofs.v - C20: quoted-string escaping round trips and the RFC 7235
   credentials parser applied to the header text authorize() renders. *)
From Coq Require Import Lia.
From ReqV Require Import Lib.Bytes Lib.BytesFacts Model.AuthParam.

(* ---------- byte facts (256 cases each) ---------- *)

Lemma tchar_not_ows b : is_tchar b = true -> is_sp_tab b = false.
Proof. destruct b; vm_compute; congruence. Qed.
Lemma tchar_not_comma b : is_tchar b = true -> beqb b comma = false.
Proof. destruct b; vm_compute; congruence. Qed.
Lemma tchar_not_dquote b : is_tchar b = true -> beqb b dquote = false.
Proof. destruct b; vm_compute; congruence. Qed.
Lemma tchar_not_equals b : is_tchar b = true -> beqb b equals = false.
Proof. destruct b; vm_compute; congruence. Qed.

(* ---------- escapeQuoted / unquoteParam ---------- *)

Theorem unquote_body_escape s : forall rest,
  unquote_body (escape_quoted s ++ dquote :: rest) = s.
Proof.
  induction s as [|b r IH]; intros rest; cbn [escape_quoted app unquote_body].
  - rewrite beqb_refl. reflexivity.
  - destruct (beqb b dquote) eqn:Eq; cbn [orb].
    + cbn [app unquote_body]. change (beqb bslash dquote) with false. change (beqb bslash bslash) with true.
      cbn iota. rewrite IH. reflexivity.
    + destruct (beqb b bslash) eqn:Eb.
      * cbn [app unquote_body]. change (beqb bslash dquote) with false. change (beqb bslash bslash) with true.
        cbn iota. rewrite IH. reflexivity.
      * cbn [app unquote_body]. rewrite Eq, Eb. rewrite IH. reflexivity.
Qed.

(* the client recovers every byte string a server wrote as a quoted-string *)
Theorem unquote_param_escape s :
  unquote_param (dquote :: escape_quoted s ++ [dquote]) = s.
Proof. unfold unquote_param. rewrite beqb_refl. apply unquote_body_escape. Qed.

(* a value without quote or backslash is its own escaped form *)
Lemma escape_quoted_clean s :
  mem_byte dquote s = false -> mem_byte bslash s = false -> escape_quoted s = s.
Proof.
  induction s as [|b r IH]; [reflexivity|]. rewrite !mem_byte_cons. intros H1 H2.
  apply Bool.orb_false_iff in H1 as [H1 H1']. apply Bool.orb_false_iff in H2 as [H2 H2'].
  cbn [escape_quoted]. rewrite (beqb_sym b dquote), H1, (beqb_sym b bslash), H2. cbn [orb].
  rewrite IH; auto.
Qed.

(* ---------- server side: read_quoted inverts escape_quoted ---------- *)

Lemma read_quoted_escape s : forall acc rest,
  read_quoted acc (escape_quoted s ++ dquote :: rest) = Some (rev acc ++ s, rest).
Proof.
  induction s as [|b r IH]; intros acc rest; cbn [escape_quoted app read_quoted].
  - change (beqb dquote bslash) with false. rewrite beqb_refl. rewrite app_nil_r. reflexivity.
  - destruct (beqb b dquote) eqn:Eq; cbn [orb].
    + cbn [app read_quoted]. change (beqb bslash bslash) with true. cbn iota.
      rewrite IH. cbn [rev]. rewrite <- app_assoc. reflexivity.
    + destruct (beqb b bslash) eqn:Eb.
      * cbn [app read_quoted]. change (beqb bslash bslash) with true. cbn iota.
        rewrite IH. cbn [rev]. rewrite <- app_assoc. reflexivity.
      * cbn [app read_quoted]. rewrite Eb, Eq. rewrite IH. cbn [rev]. rewrite <- app_assoc. reflexivity.
Qed.

(* ---------- span ---------- *)

Definition stops (p : byte -> bool) (t : bytes) : Prop :=
  match t with [] => True | c :: _ => p c = false end.

Lemma span_app p a : forall t, forallb p a = true -> stops p t -> span p (a ++ t) = (a, t).
Proof.
  induction a as [|b r IH]; intros t Ha Ht.
  - cbn [app]. destruct t as [|c t']; [reflexivity|]. cbn in Ht. cbn [span]. rewrite Ht. reflexivity.
  - cbn [forallb] in Ha. apply andb_prop in Ha as [Hb Hr]. cbn [app span]. rewrite Hb.
    rewrite (IH t Hr Ht). reflexivity.
Qed.

Lemma skip_ows_tchar b r : is_tchar b = true -> skip_ows (b :: r) = b :: r.
Proof. intros H. unfold skip_ows. cbn [drop_while]. rewrite (tchar_not_ows b H). reflexivity. Qed.

(* ---------- fields as the recipient must be able to read them ---------- *)

(* the tail that follows a rendered field inside the list: nothing, or the separator *)
Definition tail_ok (t : bytes) : Prop := t = [] \/ exists t', t = comma :: t'.

Lemma tail_stops t : tail_ok t -> stops is_tchar t.
Proof. intros [->|[t' ->]]; cbn; auto. Qed.

Lemma read_value_rendered v t : tail_ok t ->
  match v with
  | Quoted _ => True
  | QuotedRaw x => mem_byte dquote x = false /\ mem_byte bslash x = false
  | Bare x => tokenb x = true
  end ->
  read_value (skip_ows (match v with
                        | Quoted x => dquote :: escape_quoted x ++ [dquote]
                        | QuotedRaw x => dquote :: x ++ [dquote]
                        | Bare x => x
                        end ++ t)) = Some (fval_sem v, t).
Proof.
  intros Ht Hv. destruct v as [x|x|x]; cbn [fval_sem].
  - cbn [app]. unfold skip_ows. cbn [drop_while]. change (is_sp_tab dquote) with false. cbn iota.
    unfold read_value. rewrite beqb_refl. rewrite <- app_assoc. cbn [app].
    rewrite read_quoted_escape. reflexivity.
  - destruct Hv as [H1 H2]. cbn [app]. unfold skip_ows. cbn [drop_while].
    change (is_sp_tab dquote) with false. cbn iota.
    unfold read_value. rewrite beqb_refl. rewrite <- app_assoc. cbn [app].
    rewrite <- (escape_quoted_clean x H1 H2) at 1. rewrite read_quoted_escape. reflexivity.
  - destruct x as [|b r]; [discriminate|]. cbn [tokenb] in Hv.
    assert (Hb : is_tchar b = true) by (cbn [forallb] in Hv; apply andb_prop in Hv; tauto).
    cbn [app]. rewrite (skip_ows_tchar b _ Hb). unfold read_value.
    rewrite (tchar_not_dquote b Hb).
    change (b :: r ++ t) with ((b :: r) ++ t). rewrite (span_app is_tchar (b :: r) t Hv (tail_stops t Ht)).
    reflexivity.
Qed.

Lemma render_field_shape f :
  render_field f = fst f ++ equals ::
    match snd f with
    | Quoted x => dquote :: escape_quoted x ++ [dquote]
    | QuotedRaw x => dquote :: x ++ [dquote]
    | Bare x => x
    end.
Proof. unfold render_field. destruct (snd f); reflexivity. Qed.

(* one list element: the parser reads the field back and continues behind the separator *)
Lemma parse_one f t fuel : field_ok f = true -> tail_ok t ->
  parse_auth_params (S fuel) (render_field f ++ t) =
  match t with
  | [] => Some [sem_field f]
  | _ :: t' => match parse_auth_params fuel t' with
               | Some l => Some (sem_field f :: l)
               | None => None
               end
  end.
Proof.
  intros Hok Ht. unfold field_ok in Hok.
  apply andb_prop in Hok as [Hok Hv]. apply andb_prop in Hok as [Hk Hl].
  apply bytes_eqb_eq in Hl.
  destruct f as [k v]. cbn [fst snd] in *.
  destruct k as [|k0 k']; [discriminate|]. cbn [tokenb] in Hk.
  assert (Hk0 : is_tchar k0 = true) by (cbn [forallb] in Hk; apply andb_prop in Hk; tauto).
  rewrite render_field_shape. cbn [fst snd]. rewrite <- app_assoc.
  cbn [parse_auth_params]. cbn [app]. rewrite (skip_ows_tchar k0 _ Hk0).
  rewrite (tchar_not_comma k0 Hk0).
  change (k0 :: k' ++ equals :: ?x) with ((k0 :: k') ++ equals :: x).
  match goal with |- context [span is_tchar ((k0 :: k') ++ ?x)] =>
    rewrite (span_app is_tchar (k0 :: k') x Hk) by (cbn; reflexivity) end.
  unfold skip_ows at 1. cbn [drop_while]. change (is_sp_tab equals) with false. cbn iota.
  rewrite beqb_refl.
  rewrite (read_value_rendered v t Ht).
  2:{ destruct v; auto. apply andb_prop in Hv as [H1 H2].
      apply Bool.negb_true_iff in H1. apply Bool.negb_true_iff in H2. auto. }
  rewrite Hl. unfold sem_field. cbn [fst snd].
  destruct Ht as [->|[t' ->]].
  - reflexivity.
  - unfold skip_ows. cbn [drop_while]. change (is_sp_tab comma) with false. cbn iota.
    rewrite beqb_refl. reflexivity.
Qed.

(* the whole parameter list *)
Theorem parse_auth_params_rendered fs : forall fuel,
  forallb field_ok fs = true -> length fs < fuel ->
  parse_auth_params fuel (join_with (bs ", ") (map render_field fs)) = Some (map sem_field fs).
Proof.
  induction fs as [|f r IH]; intros fuel Hok Hlen.
  - destruct fuel; [inversion Hlen|]. reflexivity.
  - cbn [forallb] in Hok. apply andb_prop in Hok as [Hf Hr].
    destruct fuel as [|fuel]; [inversion Hlen|]. cbn [length] in Hlen.
    destruct r as [|g r'].
    + cbn [map join_with]. rewrite <- (app_nil_r (render_field f)).
      rewrite (parse_one f [] fuel Hf (or_introl eq_refl)). reflexivity.
    + change (join_with (bs ", ") (map render_field (f :: g :: r')))
        with (render_field f ++ comma :: " "%byte :: join_with (bs ", ") (map render_field (g :: r'))).
      rewrite (parse_one f _ fuel Hf (or_intror (ex_intro _ _ eq_refl))).
      assert (E : parse_auth_params fuel (" "%byte :: join_with (bs ", ") (map render_field (g :: r')))
                  = parse_auth_params fuel (join_with (bs ", ") (map render_field (g :: r')))).
      { destruct fuel; [reflexivity|]. cbn [parse_auth_params]. unfold skip_ows at 1. cbn [drop_while].
        change (is_sp_tab " "%byte) with true. cbn iota. reflexivity. }
      rewrite E. rewrite (IH fuel Hr) by lia. reflexivity.
Qed.

Lemma render_fields_length fs : length fs <= length (join_with (bs ", ") (map render_field fs)).
Proof.
  induction fs as [|f r IH]; [cbn; lia|].
  destruct r as [|g r'].
  - cbn [map join_with length]. rewrite render_field_shape. rewrite app_length. cbn [length]. lia.
  - change (join_with (bs ", ") (map render_field (f :: g :: r')))
      with (render_field f ++ comma :: " "%byte :: join_with (bs ", ") (map render_field (g :: r'))).
    rewrite app_length. cbn [length] in *. lia.
Qed.

Lemma existsb_key_sem k r :
  existsb (fun f : field => bytes_eqb k (fst f)) (map sem_field r) =
  existsb (fun f : field => bytes_eqb k (fst f)) r.
Proof.
  induction r as [|[k' v'] r' IHr]; [reflexivity|].
  cbn [map existsb sem_field fst snd]. rewrite IHr. reflexivity.
Qed.

Lemma keys_distinct_sem fs : keys_distinct (map sem_field fs) = keys_distinct fs.
Proof.
  induction fs as [|[k v] r IH]; [reflexivity|]. cbn [map sem_field fst snd keys_distinct].
  rewrite IH, existsb_key_sem. reflexivity.
Qed.

(* a server that parses the Authorization header by RFC 7235 recovers every parameter of the
   header authorize() renders: names, token values, and the exact bytes of every quoted value *)
Theorem parse_credentials_rendered fs :
  forallb field_ok fs = true -> keys_distinct fs = true ->
  parse_credentials (render_fields fs) = Some (bs "Digest", map sem_field fs).
Proof.
  intros Hok Hd. unfold parse_credentials, render_fields.
  change (bs "Digest " ++ ?x) with (bs "Digest" ++ " "%byte :: x).
  rewrite (span_app is_tchar (bs "Digest") _ eq_refl) by reflexivity.
  cbn [bs]. cbv beta iota.
  change (String.list_byte_of_string "Digest") with (bs "Digest").
  cbn match. rewrite beqb_refl.
  rewrite (parse_auth_params_rendered fs _ Hok).
  - rewrite keys_distinct_sem, Hd. reflexivity.
  - pose proof (render_fields_length fs). lia.
Qed.
