(* Proofs/ProtoProofs.v - lemmas about Model/Proto.v (C12). *)
From Coq Require Import List Bool NArith Lia.
From ReqV Require Import Lib.Bytes Lib.BytesFacts Gen.ProtoTables Model.Proto.
Import ListNotations.

(* ---------- the generated structural facts the proofs rely on ---------- *)
Lemma gen_no_shadow : h3_shadow_tls_field = false. Proof. reflexivity. Qed.
Lemma gen_guard : altsvc_only_unforced = true. Proof. reflexivity. Qed.

(* ---------- TLS view ---------- *)
Definition effective (host : bytes) (o : option tlscfg) : tlscfg := default_sname host (clone_or_empty o).

Lemma sec_default_sname host c :
  sec (default_sname host c) = (t_roots c, (if nilb (t_sname c) then host else t_sname c), t_certs c, t_skip c).
Proof. unfold default_sname, sec. destruct (nilb (t_sname c)) eqn:E; reflexivity. Qed.

Lemma sec_set_next n c : sec (set_next n c) = sec c.
Proof. reflexivity. Qed.

Lemma default_sname_set_next host n c : default_sname host (set_next n c) = set_next n (default_sname host c).
Proof. unfold default_sname. cbn [set_next t_sname]. destruct (nilb (t_sname c)); reflexivity. Qed.

(* every stack's tls.Config carries exactly the client's roots, server name (defaulted to the host),
   client certificates and skip-verify flag *)
Lemma tls_view_sec s only_h1 host o :
  sec (tls_view s only_h1 host o) = sec (effective host o).
Proof.
  unfold tls_view, tls_view_gen, effective. rewrite gen_no_shadow.
  destruct s.
  - destruct only_h1; [apply sec_set_next | reflexivity].
  - destruct (mem_bytes alpn_h2 (t_next (clone_or_empty o))).
    + reflexivity.
    + rewrite default_sname_set_next. apply sec_set_next.
  - apply sec_set_next.
  - destruct only_h1; [apply sec_set_next | reflexivity].
Qed.

Lemma tls_view_explicit s only_h1 host o :
  sec (tls_view s only_h1 host o) =
  match o with
  | Some c => (t_roots c, (if nilb (t_sname c) then host else t_sname c), t_certs c, t_skip c)
  | None => ([], host, [], false)
  end.
Proof.
  rewrite tls_view_sec. unfold effective. rewrite sec_default_sname. destruct o; reflexivity.
Qed.

(* the pinned tree: HTTP/3 ignored the client's configuration *)
Lemma tls_view_pinned_refuted :
  exists host o, sec (tls_view_pinned S3 false host o) <> sec (effective host o).
Proof.
  exists (bs "localhost"), (Some (mkTls [1%N] [] [3%N] true [])). vm_compute. discriminate.
Qed.

(* settings accumulated by the setters alone *)
Definition cfg_op (o : op) (t : option tlscfg) : option tlscfg :=
  let g := match t with Some x => x | None => mkTls [] [] [] false getcfg_next_protos end in
  match o with
  | OSetTLS x => x
  | OSkip b => Some (set_skip b g)
  | OAddRoot r => Some (add_root r g)
  | OAddCert k => Some (add_cert k g)
  | OSName s => Some (set_sname s g)
  | _ => t
  end.
Definition settings (ops : list op) (t : option tlscfg) : option tlscfg := fold_left (fun t o => cfg_op o t) ops t.

Lemma with_tls_tls o c : c_tls (with_tls o c) = o. Proof. reflexivity. Qed.

Lemma rt_h3_fresh_tls e c : c_tls (snd (rt_h3_fresh e c)) = c_tls c.
Proof.
  unfold rt_h3_fresh. destruct (h3_dial e c) as [h d]. destruct h as [p|er]; [reflexivity|]. destruct er; reflexivity.
Qed.

Lemma rt_h3_tls oc e c r : rt_h3 oc e c = Some r -> c_tls (snd r) = c_tls c.
Proof.
  unfold rt_h3. destruct (negb (e_https e)); [intros H; inversion H; reflexivity|].
  destruct (c_t3 c); try (intros H; inversion H; reflexivity).
  - destruct oc; [discriminate|]. intros H; inversion H. apply rt_h3_fresh_tls.
  - destruct oc; [discriminate|]. intros H; inversion H. rewrite rt_h3_fresh_tls. reflexivity.
  - destruct oc; intros H; inversion H; [reflexivity|]. rewrite rt_h3_fresh_tls. reflexivity.
Qed.

Lemma rt_h2_dial_client e c : snd (rt_h2_dial e c) = c \/ snd (rt_h2_dial e c) = with_t2 true c.
Proof.
  unfold rt_h2_dial.
  repeat match goal with
         | |- context [if ?b then _ else _] => destruct b
         | |- context [match ?x with _ => _ end] => destruct x
         end; cbn [snd]; auto.
Qed.

(* the state a connection-path request leaves: unchanged, an h2 connection pooled (by the http2 transport's own
   dial, or by the hand-off, which also leaves the alt entry in the idle list), or an idle HTTP/1 connection *)
Definition conn_shape (c r : client) : Prop :=
  r = c \/ r = with_t2 true c \/ r = with_alti true (with_t2 true c) \/
  r = with_idle (c_idle c) true c \/ r = with_idle true (c_idle1 c) c.

Lemma rt_conn_direct_client e c : conn_shape c (snd (rt_conn_direct e c)).
Proof.
  unfold conn_shape, rt_conn_direct.
  destruct (negb match c_force c with FH1 => true | _ => false end && e_https e && c_alti c).
  { destruct (c_t2 c); [auto|]. destruct (rt_h2_dial_client e c) as [H|H]; rewrite H; auto. }
  repeat match goal with
         | |- context [if ?b then _ else _] => destruct b
         | |- context [match ?x with _ => _ end] => destruct x
         end; cbn [snd]; auto 6.
Qed.

Lemma rt_conn_proxy_client px e c : conn_shape c (snd (rt_conn_proxy px e c)).
Proof.
  unfold conn_shape, rt_conn_proxy.
  destruct (negb match c_force c with FH1 => true | _ => false end && c_alti c).
  { destruct (c_t2 c); [auto|]. destruct (rt_h2_dial_client e c) as [H|H]; rewrite H; auto. }
  repeat match goal with
         | |- context [if ?b then _ else _] => destruct b
         | |- context [match ?x with _ => _ end] => destruct x
         end; cbn [snd]; auto 6.
Qed.

Lemma rt_conn_client e c :
  snd (rt_conn e c) = c \/ snd (rt_conn e c) = with_t2 true c \/
  snd (rt_conn e c) = with_alti true (with_t2 true c) \/
  snd (rt_conn e c) = with_idle (c_idle c) true c \/ snd (rt_conn e c) = with_idle true (c_idle1 c) c.
Proof.
  unfold rt_conn. destruct (route e c); [apply rt_conn_proxy_client | apply rt_conn_direct_client].
Qed.

Lemma rt_h2_dial_tls e c : c_tls (snd (rt_h2_dial e c)) = c_tls c.
Proof. destruct (rt_h2_dial_client e c) as [H|H]; rewrite H; reflexivity. Qed.

Lemma rt_conn_tls e c : c_tls (snd (rt_conn e c)) = c_tls c.
Proof. destruct (rt_conn_client e c) as [H|[H|[H|[H|H]]]]; rewrite H; reflexivity. Qed.

Lemma check_altsvc_tls e c r : check_altsvc e c = Some r -> c_tls (snd r) = c_tls c.
Proof.
  unfold check_altsvc. destruct (negb (c_h3 c)); [discriminate|].
  destruct (c_alt c) as [|[|]|]; try discriminate.
  - destruct (rt_h3 false e c) as [[[o ds] c']|] eqn:E; [|discriminate].
    apply rt_h3_tls in E. cbn in E.
    destruct o as [v| |er]; intros H; inversion H; cbn; exact E.
  - apply rt_h3_tls.
Qed.

Lemma round_trip_tls g e c : c_tls (snd (round_trip_gen g e c)) = c_tls c.
Proof.
  unfold round_trip_gen.
  destruct (if g && negb match c_force c with FNone => true | _ => false end then None else check_altsvc e c) eqn:A.
  - destruct (g && negb match c_force c with FNone => true | _ => false end); [discriminate|].
    eapply check_altsvc_tls; eauto.
  - destruct (c_force c).
    + destruct (e_https e && negb false).
      * destruct (c_t2 c); [reflexivity|]. destruct (c_h3 c); [|apply rt_conn_tls].
        destruct (rt_h3 true e c) eqn:E; [eapply rt_h3_tls; eauto | apply rt_conn_tls].
      * apply rt_conn_tls.
    + destruct (e_https e && negb true); [|apply rt_conn_tls].
      destruct (c_t2 c); [reflexivity|]. destruct (c_h3 c); [|apply rt_conn_tls].
      destruct (rt_h3 true e c) eqn:E; [eapply rt_h3_tls; eauto | apply rt_conn_tls].
    + apply rt_h2_dial_tls.
    + destruct (rt_h3 false e c) eqn:E; [eapply rt_h3_tls; eauto | reflexivity].
Qed.

Lemma after_response_tls e r : c_tls (snd (after_response e r)) = c_tls (snd r).
Proof.
  destruct r as [[o ds] c]. unfold after_response.
  destruct o as [[| |]| |]; try reflexivity;
    (destruct (c_h3 c && s_altsvc (e_srv e) && (e_https e || negb altsvc_https_only)); [destruct (c_alt c)|]; reflexivity).
Qed.

Lemma do_req_tls g e c : c_tls (snd (do_req_gen g e c)) = c_tls c.
Proof. unfold do_req_gen. rewrite after_response_tls. apply round_trip_tls. Qed.

(* a Connection: close request ends in the state of the ordinary round trip, possibly with the h2 connection or
   the idle HTTP/1 connection it travelled on dropped - or, forced HTTP/2 (own single-use connection), unchanged *)
Lemma round_trip_close_client g e c :
  let c1 := snd (round_trip_gen g e c) in
  let r := snd (round_trip_close g e c) in
  r = c \/ r = c1 \/ r = with_t2 false c1 \/ r = clear_idle c1.
Proof.
  cbn zeta. unfold round_trip_close.
  destruct (c_force c); try (destruct (own_h2_conn e c) as [o ds]; left; reflexivity);
    destruct (round_trip_gen g e c) as [[o ds] c1]; cbn [snd];
    destruct o as [[| |]| |]; try (right; left; reflexivity);
    try (right; right; right; reflexivity);
    (destruct (last_stack ds) as [[| | |]|]; try (right; right; left; reflexivity);
     destruct (own_h2_conn e c1); right; left; reflexivity).
Qed.

Lemma clear_idle_tls c : c_tls (clear_idle c) = c_tls c.
Proof. unfold clear_idle. destruct (c_force c); reflexivity. Qed.

Lemma do_req_close_tls g e c : c_tls (snd (do_req_close_gen g e c)) = c_tls c.
Proof.
  unfold do_req_close_gen. rewrite after_response_tls.
  pose proof (round_trip_tls g e c) as T.
  destruct (round_trip_close_client g e c) as [H|[H|[H|H]]]; rewrite H; try exact T; try reflexivity.
  rewrite clear_idle_tls. exact T.
Qed.

Lemma do_bg_tls e c : c_tls (snd (do_bg e c)) = c_tls c.
Proof.
  unfold do_bg. destruct (negb (c_bg c)); [reflexivity|].
  destruct (c_t3 c); try reflexivity.
  all: destruct (h3_dial e (with_t3 T3None c)) as [h d]; destruct h as [p|er]; [reflexivity|];
    destruct er; try reflexivity; destruct (verify_ok _ _); reflexivity.
Qed.

Lemma step_tls g e c o : c_tls (snd (step_gen g e c o)) = cfg_op o (c_tls c).
Proof.
  destruct o; cbn [step_gen cfg_op]; try reflexivity;
    try (destruct f; reflexivity); try (destruct b; reflexivity).
  all: try (cbn; destruct closeidle_closes_h3; reflexivity).
  all: try (pose proof (do_bg_tls e c) as H; destruct (do_bg e c) as [ds c']; exact H).
  all: try (pose proof (do_req_tls g e c) as H; destruct (do_req_gen g e c) as [[o ds] c']; exact H).
  all: try (pose proof (do_req_close_tls g e c) as H; destruct (do_req_close_gen g e c) as [[o ds] c']; exact H).
  destruct (do_req_gen g e (fork_apply a (do_clone c))) as [[o ds] c2]. destruct (do_bg e c2) as [ds2 c3]. reflexivity.
Qed.

Lemma run_tls g e ops : forall c, c_tls (snd (run_gen g e c ops)) = settings ops (c_tls c).
Proof.
  induction ops as [|o r IH]; intros c; [reflexivity|].
  cbn [run_gen settings fold_left].
  pose proof (step_tls g e c o) as H. destruct (step_gen g e c o) as [x c1]. cbn [snd] in H.
  specialize (IH c1). destruct (run_gen g e c1 r) as [xs c2]. cbn [snd] in *.
  rewrite IH, H. reflexivity.
Qed.

(* after ANY sequence of operations - setters of either kind, requests in between (settings changed after
   first use), Clone, CloseIdleConnections, background events - every stack's view carries exactly the
   settings the setters accumulated *)
Lemma tls_uniform_run e ops c s only_h1 :
  sec (tls_view s only_h1 (e_host e) (c_tls (snd (run e c ops)))) =
  sec (effective (e_host e) (settings ops (c_tls c))).
Proof. unfold run. rewrite run_tls. apply tls_view_sec. Qed.

(* ---------- handshakes use, and are decided by, the settings that govern their stack ---------- *)
Definition acceptable_under (t : tlscfg) (e : env) : bool := verify_ok t (e_srv e) && clientcert_ok t (e_srv e).
Definition acceptable (e : env) (c : client) : bool := acceptable_under (effective (e_host e) (c_tls c)) e.

(* TCP connections (HTTP/1, HTTP/2) are governed by the client's TLS settings - unless the caller supplied his
   own TLS through SetDialTLS / SetTLSHandshake (documented as valid for HTTP/1 and HTTP/2 only): then by that
   function's configuration.  QUIC connections are always governed by the client's settings. *)
Definition tcp_settings (e : env) (c : client) : tlscfg :=
  match user_tls c with
  | Some t => default_sname (e_host e) t
  | None => effective (e_host e) (c_tls c)
  end.
Definition settings_for (e : env) (c : client) (quic : bool) : tlscfg :=
  if quic then effective (e_host e) (c_tls c) else tcp_settings e c.

Lemma verify_ok_sec a b s : sec a = sec b -> verify_ok a s = verify_ok b s.
Proof. unfold sec, verify_ok. intros H. inversion H. congruence. Qed.
Lemma clientcert_ok_sec a b s : sec a = sec b -> clientcert_ok a s = clientcert_ok b s.
Proof. unfold sec, clientcert_ok. intros H. inversion H. congruence. Qed.

Lemma handshake_ok_sec protos cfg cfg' e p :
  sec cfg = sec cfg' -> handshake protos cfg (e_srv e) = HsOk p -> acceptable_under cfg' e = true.
Proof.
  unfold handshake, acceptable_under. intros S H.
  rewrite (verify_ok_sec _ _ _ S), (clientcert_ok_sec _ _ _ S) in H.
  destruct (negotiate protos _); try discriminate;
    destruct (verify_ok _ _); try discriminate; destruct (clientcert_ok _ _); try discriminate; reflexivity.
Qed.

Lemma handshake_cert_sec protos cfg cfg' e :
  sec cfg = sec cfg' -> handshake protos cfg (e_srv e) = HsFail ECert -> acceptable_under cfg' e = false.
Proof.
  unfold handshake, acceptable_under. intros S H.
  rewrite (verify_ok_sec _ _ _ S), (clientcert_ok_sec _ _ _ S) in H.
  destruct (negotiate protos _); try discriminate;
    destruct (verify_ok _ _); try discriminate; destruct (clientcert_ok _ _); try discriminate; reflexivity.
Qed.

Lemma tcp_cfg_sec s oh e c : sec (tcp_cfg s oh (e_host e) c) = sec (tcp_settings e c).
Proof.
  unfold tcp_cfg, tcp_settings. destruct (user_tls c); [reflexivity | apply tls_view_sec].
Qed.

Lemma sec_sname a b : sec a = sec b -> t_sname a = t_sname b.
Proof. unfold sec. intros H. inversion H. reflexivity. Qed.

(* one handshake of a request with outcome o: it carries the governing settings' server name; success implies
   the origin is acceptable under them, a certificate failure that it is not *)
Definition dial_sound (e : env) (c : client) (o : outcome) (d : dial) : Prop :=
  let t := settings_for e c (stack_quic (d_stack d)) in
  d_sni d = t_sname t /\
  (forall v, o = Use v -> acceptable_under t e = true) /\
  (o = Fail ECert -> acceptable_under t e = false).

Definition req_sound (e : env) (c : client) (r : res) : Prop :=
  let '(o, ds, _) := r in Forall (dial_sound e c o) ds.

Lemma tcp_dial_sound s oh e c o :
  let cfg := tcp_cfg s oh (e_host e) c in
  let h := handshake (s_alpn (e_srv e)) cfg (e_srv e) in
  stack_quic s = false ->
  (forall v, o = Use v -> exists p, h = HsOk p) -> (o = Fail ECert -> h = HsFail ECert) ->
  dial_sound e c o (mk_dial s cfg h).
Proof.
  intros cfg h Q U F. unfold dial_sound, mk_dial. cbn [d_stack d_sni]. rewrite Q. cbn [settings_for].
  pose proof (tcp_cfg_sec s oh e c) as S. fold cfg in S.
  split; [apply sec_sname, S|]. split.
  - intros v Hv. destruct (U v Hv) as [p Hp]. eapply handshake_ok_sec; eauto.
  - intros Hc. eapply handshake_cert_sec; eauto.
Qed.

Lemma h3_dial_sound e c o :
  (forall v, o = Use v -> exists p, fst (h3_dial e c) = HsOk p) -> (o = Fail ECert -> fst (h3_dial e c) = HsFail ECert) ->
  dial_sound e c o (snd (h3_dial e c)).
Proof.
  unfold h3_dial. cbn [fst snd]. intros U F. unfold dial_sound, mk_dial. cbn [d_stack d_sni stack_quic settings_for].
  pose proof (tls_view_sec S3 false (e_host e) (c_tls c)) as S.
  split; [apply sec_sname, S|].
  destruct (s_h3 (e_srv e)).
  - split.
    + intros v Hv. destruct (U v Hv) as [p Hp]. eapply handshake_ok_sec; eauto.
    + intros Hc. eapply handshake_cert_sec; eauto.
  - split.
    + intros v Hv. destruct (U v Hv) as [p Hp]. discriminate.
    + intros Hc. specialize (F Hc). discriminate.
Qed.

Ltac one_dial := apply Forall_cons; [|apply Forall_nil].

Lemma rt_h3_fresh_sound e c : req_sound e c (rt_h3_fresh e c).
Proof.
  unfold rt_h3_fresh, req_sound.
  pose proof (h3_dial_sound e c) as D. destruct (h3_dial e c) as [h d]. cbn [fst snd] in D.
  destruct h as [p|er].
  - one_dial. apply D; [intros; eexists; reflexivity | discriminate].
  - destruct er; try apply Forall_nil; one_dial; apply D;
      try (intros v Hv; discriminate); try discriminate; intros _; reflexivity.
Qed.

Lemma rt_h3_sound oc e c r : rt_h3 oc e c = Some r -> req_sound e c r.
Proof.
  unfold rt_h3. destruct (negb (e_https e)).
  { intros H; inversion H. constructor. }
  destruct (c_t3 c); try (intros H; inversion H; constructor).
  - destruct oc; [discriminate|]. intros H; inversion H. apply rt_h3_fresh_sound.
  - destruct oc; [discriminate|]. intros H; inversion H. exact (rt_h3_fresh_sound e (with_t3 T3None c)).
  - destruct oc; intros H; inversion H; [constructor|]. exact (rt_h3_fresh_sound e (with_t3 T3None c)).
Qed.

Lemma rt_h2_dial_sound e c : req_sound e c (rt_h2_dial e c).
Proof.
  unfold rt_h2_dial, req_sound.
  destruct (negb (e_https e || c_allow_http c)); [constructor|].
  destruct (c_t2 c); [constructor|].
  destruct (negb (e_https e) && h2_plain_dial_for_http); [destruct (s_h2c (e_srv e)); constructor|].
  destruct (c_plain_dialtls c).
  { destruct (negb (e_https e) && s_h2c (e_srv e)); constructor. }
  destruct (negb (e_https e)); [constructor|].
  pose proof (fun o => tcp_dial_sound S2 false e c o eq_refl) as D. cbn zeta in D.
  destruct (handshake (s_alpn (e_srv e)) (tcp_cfg S2 false (e_host e) c) (e_srv e)) as [p|er] eqn:H.
  - destruct (opt_bytes_eqb p (Some alpn_h2)); [|destruct (c_udial c)]; one_dial; apply D;
      try (intros; eexists; reflexivity); try discriminate; intros v Hv; discriminate.
  - one_dial. apply D; [intros v Hv; discriminate|]. intros Hc. inversion Hc. reflexivity.
Qed.

Lemma rt_conn_sound e c : route e c = None -> req_sound e c (rt_conn e c).
Proof.
  intros RT. unfold rt_conn. rewrite RT. unfold rt_conn_direct, req_sound.
  set (oh := match c_force c with FH1 => true | _ => false end).
  destruct (negb oh && e_https e && c_alti c).
  { destruct (c_t2 c); [constructor | exact (rt_h2_dial_sound e c)]. }
  destruct (if oh then c_idle1 c else c_idle c); [constructor|].
  destruct (negb (e_https e)); [constructor|].
  destruct (c_plain_dialtls c); [constructor|].
  pose proof (fun o => tcp_dial_sound S1 oh e c o eq_refl) as D. cbn zeta in D.
  destruct (handshake (s_alpn (e_srv e)) (tcp_cfg S1 oh (e_host e) c) (e_srv e)) as [p|er] eqn:H.
  - destruct (opt_bytes_eqb p (Some alpn_h2)); [destruct oh|]; one_dial; apply D;
      try (intros; eexists; reflexivity); try discriminate; intros v Hv; discriminate.
  - one_dial. apply D; [intros v Hv; discriminate|]. intros Hc. inversion Hc. reflexivity.
Qed.

Lemma check_altsvc_sound e c r : check_altsvc e c = Some r -> req_sound e c r.
Proof.
  unfold check_altsvc. destruct (negb (c_h3 c)); [discriminate|].
  destruct (c_alt c) as [|[|]|]; try discriminate.
  - destruct (rt_h3 false e c) as [[[o ds] c']|] eqn:E; [|discriminate].
    apply rt_h3_sound in E. unfold req_sound in *.
    destruct o as [v| |er]; intros H; inversion H; subst; exact E.
  - apply rt_h3_sound.
Qed.

Lemma round_trip_sound g e c : route e c = None -> req_sound e c (round_trip_gen g e c).
Proof.
  intros RT. pose proof (rt_conn_sound e c RT) as rt_conn_sound'. unfold round_trip_gen.
  destruct (if g && negb match c_force c with FNone => true | _ => false end then None else check_altsvc e c) eqn:A.
  - destruct (g && negb match c_force c with FNone => true | _ => false end); [discriminate|].
    eapply check_altsvc_sound; eauto.
  - destruct (c_force c).
    + destruct (e_https e && negb false).
      * destruct (c_t2 c); [constructor|].
        destruct (c_h3 c); [|exact rt_conn_sound'].
        destruct (rt_h3 true e c) eqn:E; [eapply rt_h3_sound; eauto | exact rt_conn_sound'].
      * exact rt_conn_sound'.
    + destruct (e_https e && negb true); [|exact rt_conn_sound'].
      destruct (c_t2 c); [constructor|].
      destruct (c_h3 c); [|exact rt_conn_sound'].
      destruct (rt_h3 true e c) eqn:E; [eapply rt_h3_sound; eauto | exact rt_conn_sound'].
    + apply rt_h2_dial_sound.
    + destruct (rt_h3 false e c) eqn:E; [eapply rt_h3_sound; eauto|]. constructor.
Qed.

Lemma after_response_sound e c r : req_sound e c r -> req_sound e c (after_response e r).
Proof.
  destruct r as [[o ds] c']. unfold after_response.
  destruct o as [[| |]| |]; try (intros H; exact H);
    (destruct (c_h3 c' && s_altsvc (e_srv e) && (e_https e || negb altsvc_https_only)); [destruct (c_alt c')|]; intros H; exact H).
Qed.

Lemma do_req_sound g e c : route e c = None -> req_sound e c (do_req_gen g e c).
Proof. intros RT. unfold do_req_gen. apply after_response_sound, round_trip_sound, RT. Qed.

(* without caller-supplied TLS every handshake, TCP or QUIC, is governed by the client's settings *)
Lemma settings_for_client e c q : user_tls c = None -> settings_for e c q = effective (e_host e) (c_tls c).
Proof. intros U. unfold settings_for, tcp_settings. rewrite U. destruct q; reflexivity. Qed.

Lemma do_req_sound_client g e c :
  route e c = None -> user_tls c = None ->
  let '(o, ds, _) := do_req_gen g e c in
  Forall (fun d => d_sni d = t_sname (effective (e_host e) (c_tls c))) ds /\
  (ds <> [] -> (forall v, o = Use v -> acceptable e c = true) /\ (o = Fail ECert -> acceptable e c = false)).
Proof.
  intros RT U. pose proof (do_req_sound g e c RT) as S. unfold req_sound in S.
  destruct (do_req_gen g e c) as [[o ds] c']. split.
  - eapply Forall_impl; [|exact S]. intros d [H _]. rewrite settings_for_client in H by exact U. exact H.
  - intros N. destruct ds as [|d r]; [contradiction|]. inversion S as [|? ? [_ [A B]] _]. subst.
    rewrite settings_for_client in A, B by exact U. split; [exact A | exact B].
Qed.

Lemma first_common_mem srv cli p : first_common srv cli = Some p -> mem_bytes p srv = true.
Proof.
  unfold mem_bytes.
  induction srv as [|x r IH]; [discriminate|]. cbn [first_common existsb]. destruct (mem_bytes x cli).
  - intros H; inversion H; subst. rewrite bytes_eqb_refl. reflexivity.
  - intros H. rewrite (IH H). apply orb_true_r.
Qed.

Lemma negotiate_mem srv cli p : negotiate srv cli = Neg p -> mem_bytes p srv = true.
Proof.
  unfold negotiate. destruct (nilb srv || nilb cli); [discriminate|].
  destruct (first_common srv cli) eqn:F.
  - intros H; inversion H; subst. eapply first_common_mem; eauto.
  - destruct (mem_bytes alpn_h2 srv && mem_bytes alpn_h1 cli); discriminate.
Qed.

(* ---------- protocol selection ---------- *)
Definition version_of (f : force) : option version :=
  match f with FNone => None | FH1 => Some V1 | FH2 => Some V2 | FH3 => Some V3 end.

Definition outcome_of (r : res) : outcome := fst (fst r).

Lemma rt_h3_fresh_outcome e c :
  outcome_of (rt_h3_fresh e c) = Use V3 \/ exists er, outcome_of (rt_h3_fresh e c) = Fail er.
Proof.
  unfold rt_h3_fresh, outcome_of. destruct (h3_dial e c) as [h d]. destruct h as [p|er]; [left; reflexivity|].
  destruct er; right; eexists; reflexivity.
Qed.

Lemma rt_h3_outcome oc e c r : rt_h3 oc e c = Some r -> outcome_of r = Use V3 \/ exists er, outcome_of r = Fail er.
Proof.
  unfold rt_h3. destruct (negb (e_https e)); [intros H; inversion H; right; eexists; reflexivity|].
  destruct (c_t3 c).
  - destruct oc; [discriminate|]. intros H; inversion H. apply rt_h3_fresh_outcome.
  - intros H; inversion H; left; reflexivity.
  - destruct oc; [discriminate|]. intros H; inversion H. apply rt_h3_fresh_outcome.
  - intros H; inversion H; right; eexists; reflexivity.
  - destruct oc; intros H; inversion H; [right; eexists; reflexivity | apply rt_h3_fresh_outcome].
Qed.

Lemma rt_h3_fresh_v3 e c : outcome_of (rt_h3_fresh e c) = Use V3 -> s_h3 (e_srv e) = true.
Proof.
  unfold rt_h3_fresh, outcome_of, h3_dial. destruct (s_h3 (e_srv e)); [reflexivity|]. cbn. discriminate.
Qed.

Lemma rt_h3_v3_needs_listener oc e c r :
  rt_h3 oc e c = Some r -> outcome_of r = Use V3 -> c_t3 c = T3Conn \/ s_h3 (e_srv e) = true.
Proof.
  unfold rt_h3. destruct (negb (e_https e)); [intros H; inversion H; discriminate|].
  destruct (c_t3 c).
  - destruct oc; [discriminate|]. intros H; inversion H. intros V. right. eapply rt_h3_fresh_v3; eauto.
  - intros; left; reflexivity.
  - destruct oc; [discriminate|]. intros H; inversion H. intros V. right. eapply rt_h3_fresh_v3; eauto.
  - intros H; inversion H; discriminate.
  - destruct oc; intros H; inversion H; [discriminate|]. intros V. right. eapply rt_h3_fresh_v3; eauto.
Qed.

Lemma rt_h2_dial_outcome e c : outcome_of (rt_h2_dial e c) = Use V2 \/ exists er, outcome_of (rt_h2_dial e c) = Fail er.
Proof.
  unfold rt_h2_dial, outcome_of.
  repeat match goal with
         | |- context [if ?b then _ else _] => destruct b
         | |- context [match ?x with _ => _ end] => destruct x
         end; cbn; try (left; reflexivity); right; eexists; reflexivity.
Qed.

Lemma handshake_ok_mem protos cfg s p : handshake protos cfg s = HsOk (Some p) -> mem_bytes p protos = true.
Proof.
  unfold handshake. destruct (negotiate protos (t_next cfg)) as [q| |] eqn:N; try discriminate;
    destruct (negb (verify_ok cfg s)); try discriminate; destruct (negb (clientcert_ok cfg s)); try discriminate.
  intros H; inversion H; subst. eapply negotiate_mem; eauto.
Qed.

Lemma opt_bytes_eqb_some p q : opt_bytes_eqb p (Some q) = true -> p = Some q.
Proof.
  destruct p as [x|]; cbn; [|discriminate]. intros H. apply bytes_eqb_eq in H. congruence.
Qed.

Lemma rt_h2_dial_v2 e c :
  outcome_of (rt_h2_dial e c) = Use V2 ->
  c_t2 c = true \/ (if e_https e then mem_bytes alpn_h2 (s_alpn (e_srv e)) = true else s_h2c (e_srv e) = true).
Proof.
  unfold rt_h2_dial, outcome_of.
  destruct (negb (e_https e || c_allow_http c)); [discriminate|].
  destruct (c_t2 c) eqn:T; [left; reflexivity|]. right.
  destruct (negb (e_https e) && h2_plain_dial_for_http) eqn:PL.
  { destruct (e_https e); [discriminate|]. destruct (s_h2c (e_srv e)); [reflexivity | discriminate]. }
  destruct (c_plain_dialtls c).
  { destruct (e_https e); cbn [negb andb] in *; [discriminate|].
    destruct (s_h2c (e_srv e)); [reflexivity | discriminate]. }
  destruct (e_https e); cbn [negb] in *; [|discriminate].
  destruct (handshake (s_alpn (e_srv e)) (tcp_cfg S2 false (e_host e) c) (e_srv e)) as [p|er] eqn:Hh; [|discriminate].
  destruct (opt_bytes_eqb p (Some alpn_h2)) eqn:Q; [|destruct (c_udial c); discriminate].
  apply opt_bytes_eqb_some in Q. subst p. eapply handshake_ok_mem; eauto.
Qed.

(* the connection path: HTTP/1.1; HTTP/2 only when not restricted to h1 and the server selected h2 (now, or when
   the cached connection was made); clear text only through a plain DialTLSContext *)
Lemma rt_conn_direct_outcome e c :
  match outcome_of (rt_conn_direct e c) with
  | Use V1 => True
  | Use V2 => c_force c <> FH1 /\ e_https e = true /\
              (mem_bytes alpn_h2 (s_alpn (e_srv e)) = true \/ c_t2 c = true)
  | Use V3 => False
  | Cleartext => c_plain_dialtls c = true /\ e_https e = true
  | Fail _ => e_https e = true
  end.
Proof.
  unfold rt_conn_direct.
  set (oh := match c_force c with FH1 => true | _ => false end).
  assert (NF : oh = false -> c_force c <> FH1) by (subst oh; destruct (c_force c); congruence).
  destruct (negb oh && e_https e && c_alti c) eqn:AL.
  { apply andb_prop in AL. destruct AL as [AL _]. apply andb_prop in AL. destruct AL as [O Hs].
    assert (O' : oh = false) by (destruct oh; [discriminate | reflexivity]).
    destruct (c_t2 c) eqn:T; [cbn; auto|].
    pose proof (rt_h2_dial_v2 e c) as V. pose proof (rt_h2_dial_outcome e c) as [X|[er X]]; rewrite X.
    - specialize (V X). rewrite T, Hs in V. destruct V as [V|V]; [discriminate|]. auto.
    - exact Hs. }
  unfold outcome_of.
  destruct (if oh then c_idle1 c else c_idle c); [exact I|].
  destruct (e_https e); cbn [negb]; [|exact I].
  destruct (c_plain_dialtls c); [split; reflexivity|].
  destruct (handshake (s_alpn (e_srv e)) (tcp_cfg S1 oh (e_host e) c) (e_srv e)) as [p|er] eqn:H; cbn [fst]; [|reflexivity].
  destruct (opt_bytes_eqb p (Some alpn_h2)) eqn:Q; [|exact I].
  destruct oh eqn:O; cbn [fst]; [reflexivity|].
  split; [auto|]. split; [reflexivity|]. left.
  apply opt_bytes_eqb_some in Q. subst p. eapply handshake_ok_mem; eauto.
Qed.

Lemma route_https e c px : route e c = Some px -> e_https e = true.
Proof. unfold route. destruct (c_route c); cbn; [|discriminate]. destruct (e_https e); [reflexivity | discriminate]. Qed.

Lemma rt_conn_proxy_outcome px e c :
  e_https e = true ->
  match outcome_of (rt_conn_proxy px e c) with
  | Use V1 => True
  | Use V2 => c_force c <> FH1 /\ e_https e = true /\
              (mem_bytes alpn_h2 (s_alpn (e_srv e)) = true \/ c_t2 c = true)
  | Use V3 => False
  | Cleartext => c_plain_dialtls c = true /\ e_https e = true
  | Fail _ => e_https e = true
  end.
Proof.
  intros Hs. unfold rt_conn_proxy.
  set (oh := match c_force c with FH1 => true | _ => false end).
  assert (NF : oh = false -> c_force c <> FH1) by (subst oh; destruct (c_force c); congruence).
  destruct (negb oh && c_alti c) eqn:AL.
  { apply andb_prop in AL. destruct AL as [O _].
    assert (O' : oh = false) by (destruct oh; [discriminate | reflexivity]).
    destruct (c_t2 c) eqn:T; [cbn; auto|].
    pose proof (rt_h2_dial_v2 e c) as V. pose proof (rt_h2_dial_outcome e c) as [X|[er X]]; rewrite X.
    - specialize (V X). rewrite T, Hs in V. destruct V as [V|V]; [discriminate|]. auto.
    - exact Hs. }
  unfold outcome_of.
  destruct (if oh then c_idle1 c else c_idle c); [exact I|].
  match goal with |- context [match (if p_tls px then ?a else ?b) with _ => _ end] => destruct (if p_tls px then a else b) as [pp|per] end;
    [|exact Hs].
  match goal with |- context [handshake (s_alpn (e_srv e)) ?cfg (e_srv e)] =>
    destruct (handshake (s_alpn (e_srv e)) cfg (e_srv e)) as [p|er] eqn:H end; cbn [fst]; [|exact Hs].
  destruct (opt_bytes_eqb p (Some alpn_h2)) eqn:Q; [|exact I].
  destruct oh eqn:O; cbn [fst]; [exact Hs|].
  split; [auto|]. split; [exact Hs|]. left.
  apply opt_bytes_eqb_some in Q. subst p. eapply handshake_ok_mem; eauto.
Qed.

Lemma rt_conn_outcome e c :
  match outcome_of (rt_conn e c) with
  | Use V1 => True
  | Use V2 => c_force c <> FH1 /\ e_https e = true /\
              (mem_bytes alpn_h2 (s_alpn (e_srv e)) = true \/ c_t2 c = true)
  | Use V3 => False
  | Cleartext => c_plain_dialtls c = true /\ e_https e = true
  | Fail _ => e_https e = true
  end.
Proof.
  unfold rt_conn. destruct (route e c) as [px|] eqn:RT;
    [apply rt_conn_proxy_outcome; eapply route_https; eauto | apply rt_conn_direct_outcome].
Qed.

(* a forced version is used or the request fails (clear text only through a plain DialTLSContext) *)
Lemma forced_round_trip e c v :
  version_of (c_force c) = Some v ->
  match outcome_of (round_trip_gen true e c) with
  | Use v' => v' = v
  | Cleartext => c_plain_dialtls c = true /\ e_https e = true
  | Fail _ => True
  end.
Proof.
  intros Hf. unfold round_trip_gen.
  destruct (c_force c) eqn:F; cbn in Hf; inversion Hf; subst; cbn [andb negb].
  - (* FH1 *)
    rewrite andb_false_r.
    pose proof (rt_conn_outcome e c) as H. rewrite F in H.
    destruct (outcome_of (rt_conn e c)) as [[| |]| |]; try exact I; try reflexivity; try tauto.
  - pose proof (rt_h2_dial_outcome e c) as [H|[er H]]; rewrite H; [reflexivity | exact I].
  - destruct (rt_h3 false e c) eqn:E; [|exact I].
    apply rt_h3_outcome in E. destruct E as [H|[er H]]; rewrite H; [reflexivity | exact I].
Qed.

Lemma after_response_outcome e r : outcome_of (after_response e r) = outcome_of r.
Proof.
  destruct r as [[o ds] c]. unfold after_response, outcome_of.
  destruct o as [[| |]| |]; try reflexivity;
    (destruct (c_h3 c && s_altsvc (e_srv e) && (e_https e || negb altsvc_https_only)); [destruct (c_alt c)|]; reflexivity).
Qed.

Lemma forced_version_or_fail e c v :
  version_of (c_force c) = Some v ->
  match outcome_of (do_req e c) with
  | Use v' => v' = v
  | Cleartext => c_plain_dialtls c = true /\ e_https e = true
  | Fail _ => True
  end.
Proof.
  intros H. unfold do_req, do_req_gen. rewrite gen_guard, after_response_outcome. apply forced_round_trip, H.
Qed.

(* ---------- invariant on the connection caches ---------- *)
Definition inv (e : env) (c : client) : Prop :=
  (c_t2 c = true -> if e_https e then mem_bytes alpn_h2 (s_alpn (e_srv e)) = true
                    else s_h2c (e_srv e) = true /\ c_plain_dialtls c = true) /\
  (c_t3 c = T3Conn -> s_h3 (e_srv e) = true /\ e_https e = true \/ s_h3 (e_srv e) = true).

Definition inv3 (e : env) (c : client) : Prop := c_t3 c = T3Conn -> s_h3 (e_srv e) = true.
Definition inv2 (e : env) (c : client) : Prop :=
  c_t2 c = true -> if e_https e then mem_bytes alpn_h2 (s_alpn (e_srv e)) = true else s_h2c (e_srv e) = true.

Lemma rt_h3_fresh_inv e c :
  c_t3 c <> T3Conn -> inv2 e c -> inv3 e (snd (rt_h3_fresh e c)) /\ inv2 e (snd (rt_h3_fresh e c)).
Proof.
  unfold rt_h3_fresh, inv3, inv2, h3_dial. intros T I2. destruct (s_h3 (e_srv e)) eqn:S.
  - destruct (handshake _ _ _) as [p|er]; [cbn; auto|].
    destruct er; cbn; (split; [intros X; try reflexivity; contradiction | exact I2]).
  - cbn. split; [intros X; contradiction | exact I2].
Qed.

Lemma rt_h3_inv oc e c r : rt_h3 oc e c = Some r -> inv3 e c -> inv2 e c -> inv3 e (snd r) /\ inv2 e (snd r).
Proof.
  unfold rt_h3. destruct (negb (e_https e)); [intros H; inversion H; auto|].
  destruct (c_t3 c) eqn:T.
  - destruct oc; [discriminate|]. intros H I3 I2; inversion H. apply rt_h3_fresh_inv; [rewrite T; discriminate | exact I2].
  - intros H; inversion H; cbn; auto.
  - destruct oc; [discriminate|]. intros H I3 I2; inversion H. apply rt_h3_fresh_inv; [cbn; discriminate | exact I2].
  - intros H I3 I2; inversion H; cbn; auto.
  - destruct oc; intros H I3 I2; inversion H.
    + unfold inv3, inv2 in *; cbn. split; [discriminate | exact I2].
    + apply rt_h3_fresh_inv; [cbn; discriminate | exact I2].
Qed.

Lemma rt_h2_dial_t3 e c : c_t3 (snd (rt_h2_dial e c)) = c_t3 c.
Proof.
  unfold rt_h2_dial.
  repeat match goal with
         | |- context [if ?b then _ else _] => destruct b
         | |- context [match ?x with _ => _ end] => destruct x
         end; reflexivity.
Qed.

Lemma rt_h2_dial_t2 e c :
  c_t2 (snd (rt_h2_dial e c)) = c_t2 c \/
  (if e_https e then mem_bytes alpn_h2 (s_alpn (e_srv e)) = true else s_h2c (e_srv e) = true).
Proof.
  unfold rt_h2_dial.
  destruct (negb (e_https e || c_allow_http c)); [left; reflexivity|].
  destruct (c_t2 c) eqn:T; [left; cbn; auto|].
  destruct (negb (e_https e) && h2_plain_dial_for_http) eqn:PL.
  { destruct (e_https e); [discriminate|]. destruct (s_h2c (e_srv e)); [right; reflexivity | left; cbn; auto]. }
  destruct (c_plain_dialtls c).
  { destruct (e_https e); cbn [negb andb]; [left; cbn; auto|].
    destruct (s_h2c (e_srv e)); [right; reflexivity | left; cbn; auto]. }
  destruct (e_https e); cbn [negb]; [|left; cbn; auto].
  destruct (handshake (s_alpn (e_srv e)) (tcp_cfg S2 false (e_host e) c) (e_srv e)) as [p|er] eqn:H;
    [|left; cbn; auto].
  destruct (opt_bytes_eqb p (Some alpn_h2)) eqn:Q; [|destruct (c_udial c); left; cbn; auto].
  right. apply opt_bytes_eqb_some in Q. subst p. eapply handshake_ok_mem; eauto.
Qed.

Lemma rt_h2_dial_inv e c : inv3 e c -> inv2 e c -> inv3 e (snd (rt_h2_dial e c)) /\ inv2 e (snd (rt_h2_dial e c)).
Proof.
  unfold inv3, inv2. intros I3 I2. rewrite rt_h2_dial_t3. split; [exact I3|].
  destruct (rt_h2_dial_t2 e c) as [H|H]; [rewrite H; exact I2 | intros _; exact H].
Qed.

Lemma rt_conn_t3 e c : c_t3 (snd (rt_conn e c)) = c_t3 c.
Proof. destruct (rt_conn_client e c) as [H|[H|[H|[H|H]]]]; rewrite H; reflexivity. Qed.

Lemma rt_conn_direct_t2 e c :
  c_t2 (snd (rt_conn_direct e c)) = c_t2 c \/ (outcome_of (rt_conn_direct e c) = Use V2 /\ c_t2 (snd (rt_conn_direct e c)) = true).
Proof.
  unfold rt_conn_direct.
  destruct (negb match c_force c with FH1 => true | _ => false end && e_https e && c_alti c).
  { destruct (c_t2 c) eqn:T; [left; cbn; auto|].
    pose proof (rt_h2_dial_outcome e c) as [X|[er X]].
    - destruct (rt_h2_dial_client e c) as [H|H]; rewrite H; [left; exact T | right; split; [exact X | reflexivity]].
    - assert (K : snd (rt_h2_dial e c) = c).
      { revert X. unfold rt_h2_dial, outcome_of.
        repeat match goal with
               | |- context [if ?b then _ else _] => destruct b
               | |- context [match ?x with _ => _ end] => destruct x
               end; cbn; intros X; try discriminate; reflexivity. }
      left. rewrite K. exact T. }
  unfold outcome_of.
  repeat match goal with
         | |- context [if ?b then _ else _] => destruct b
         | |- context [match ?x with _ => _ end] => destruct x
         end; cbn; auto.
Qed.

Lemma rt_conn_proxy_t2 px e c :
  c_t2 (snd (rt_conn_proxy px e c)) = c_t2 c \/ (outcome_of (rt_conn_proxy px e c) = Use V2 /\ c_t2 (snd (rt_conn_proxy px e c)) = true).
Proof.
  unfold rt_conn_proxy.
  destruct (negb match c_force c with FH1 => true | _ => false end && c_alti c).
  { destruct (c_t2 c) eqn:T; [left; cbn; auto|].
    pose proof (rt_h2_dial_outcome e c) as [X|[er X]].
    - destruct (rt_h2_dial_client e c) as [H|H]; rewrite H; [left; exact T | right; split; [exact X | reflexivity]].
    - assert (K : snd (rt_h2_dial e c) = c).
      { revert X. unfold rt_h2_dial, outcome_of.
        repeat match goal with
               | |- context [if ?b then _ else _] => destruct b
               | |- context [match ?x with _ => _ end] => destruct x
               end; cbn; intros X; try discriminate; reflexivity. }
      left. rewrite K. exact T. }
  unfold outcome_of.
  repeat match goal with
         | |- context [if ?b then _ else _] => destruct b
         | |- context [match ?x with _ => _ end] => destruct x
         end; cbn; auto.
Qed.

Lemma rt_conn_t2 e c :
  c_t2 (snd (rt_conn e c)) = c_t2 c \/ (outcome_of (rt_conn e c) = Use V2 /\ c_t2 (snd (rt_conn e c)) = true).
Proof. unfold rt_conn. destruct (route e c); [apply rt_conn_proxy_t2 | apply rt_conn_direct_t2]. Qed.

Lemma rt_conn_inv e c : inv3 e c -> inv2 e c -> inv3 e (snd (rt_conn e c)) /\ inv2 e (snd (rt_conn e c)).
Proof.
  unfold inv3, inv2. intros I3 I2. rewrite rt_conn_t3. split; [exact I3|].
  destruct (rt_conn_t2 e c) as [H|[Ho H]]; [rewrite H; exact I2|].
  intros _. pose proof (rt_conn_outcome e c) as O. rewrite Ho in O. destruct O as (_ & Hs & [M|T]).
  - rewrite Hs. exact M.
  - rewrite Hs in *. exact (I2 T).
Qed.

Lemma with_alt_inv e a b c : (inv3 e c /\ inv2 e c) -> inv3 e (with_alt a b c) /\ inv2 e (with_alt a b c).
Proof. intros H; exact H. Qed.

Lemma check_altsvc_inv e c r :
  check_altsvc e c = Some r -> inv3 e c -> inv2 e c -> inv3 e (snd r) /\ inv2 e (snd r).
Proof.
  unfold check_altsvc. destruct (negb (c_h3 c)); [discriminate|].
  destruct (c_alt c) as [|[|]|]; try discriminate.
  - destruct (rt_h3 false e c) as [[[o ds] c']|] eqn:E; [|discriminate].
    intros H I3 I2. pose proof (rt_h3_inv _ _ _ _ E I3 I2) as K. cbn in K.
    destruct o as [v| |er]; inversion H; subst; cbn; exact K.
  - apply rt_h3_inv.
Qed.

Lemma round_trip_inv g e c :
  inv3 e c -> inv2 e c -> inv3 e (snd (round_trip_gen g e c)) /\ inv2 e (snd (round_trip_gen g e c)).
Proof.
  intros I3 I2. unfold round_trip_gen.
  destruct (if g && negb match c_force c with FNone => true | _ => false end then None else check_altsvc e c) eqn:A.
  - destruct (g && negb match c_force c with FNone => true | _ => false end); [discriminate|].
    eapply check_altsvc_inv; eauto.
  - destruct (c_force c).
    + destruct (e_https e && negb false).
      * destruct (c_t2 c) eqn:T; [cbn; auto|]. destruct (c_h3 c); [|apply rt_conn_inv; auto].
        destruct (rt_h3 true e c) eqn:E; [eapply rt_h3_inv; eauto | apply rt_conn_inv; auto].
      * apply rt_conn_inv; auto.
    + destruct (e_https e && negb true); [|apply rt_conn_inv; auto].
      destruct (c_t2 c) eqn:T; [cbn; auto|]. destruct (c_h3 c); [|apply rt_conn_inv; auto].
      destruct (rt_h3 true e c) eqn:E; [eapply rt_h3_inv; eauto | apply rt_conn_inv; auto].
    + apply rt_h2_dial_inv; auto.
    + destruct (rt_h3 false e c) eqn:E; [eapply rt_h3_inv; eauto | cbn; auto].
Qed.

Lemma after_response_inv e r :
  inv3 e (snd r) /\ inv2 e (snd r) -> inv3 e (snd (after_response e r)) /\ inv2 e (snd (after_response e r)).
Proof.
  destruct r as [[o ds] c]. unfold after_response.
  destruct o as [[| |]| |]; try (intros H; exact H);
    (destruct (c_h3 c && s_altsvc (e_srv e) && (e_https e || negb altsvc_https_only)); [destruct (c_alt c)|]; intros H; exact H).
Qed.

Lemma do_req_inv g e c :
  inv3 e c -> inv2 e c -> inv3 e (snd (do_req_gen g e c)) /\ inv2 e (snd (do_req_gen g e c)).
Proof. intros. unfold do_req_gen. apply after_response_inv, round_trip_inv; auto. Qed.

Lemma do_req_close_inv g e c :
  inv3 e c -> inv2 e c -> inv3 e (snd (do_req_close_gen g e c)) /\ inv2 e (snd (do_req_close_gen g e c)).
Proof.
  intros I3 I2. unfold do_req_close_gen. apply after_response_inv.
  pose proof (round_trip_inv g e c I3 I2) as [J3 J2].
  destruct (round_trip_close_client g e c) as [H|[H|[H|H]]]; rewrite H.
  - split; assumption.
  - split; assumption.
  - unfold inv3, inv2 in *. cbn. split; [exact J3 | discriminate].
  - unfold inv3, inv2, clear_idle in *. destruct (c_force (snd (round_trip_gen g e c))); cbn; split; assumption.
Qed.

Lemma do_bg_inv e c : inv3 e c -> inv2 e c -> inv3 e (snd (do_bg e c)) /\ inv2 e (snd (do_bg e c)).
Proof.
  unfold do_bg, inv3, inv2. intros I3 I2. destruct (negb (c_bg c)); [auto|].
  assert (F : inv3 e (snd (let c := with_t3 T3None c in let '(h, d) := h3_dial e c in
      match h with
      | HsOk _ => ([d], with_alt (APending true) false (with_t3 T3Conn c))
      | HsFail EDial => ([], with_alt (APending true) false (with_t3 T3Dialing c))
      | HsFail ECert =>
          if verify_ok (tls_view S3 false (e_host e) (c_tls c)) (e_srv e)
          then ([d], with_alt (APending true) false (with_t3 T3Dead c))
          else ([d], with_alt (APending true) false c)
      | HsFail er => ([d], with_alt (APending true) false c)
      end)) /\ inv2 e (snd (let c := with_t3 T3None c in let '(h, d) := h3_dial e c in
      match h with
      | HsOk _ => ([d], with_alt (APending true) false (with_t3 T3Conn c))
      | HsFail EDial => ([], with_alt (APending true) false (with_t3 T3Dialing c))
      | HsFail ECert =>
          if verify_ok (tls_view S3 false (e_host e) (c_tls c)) (e_srv e)
          then ([d], with_alt (APending true) false (with_t3 T3Dead c))
          else ([d], with_alt (APending true) false c)
      | HsFail er => ([d], with_alt (APending true) false c)
      end))).
  { unfold inv3, inv2, h3_dial. cbn zeta. destruct (s_h3 (e_srv e)) eqn:S.
    - destruct (handshake _ _ _) as [p|er]; [cbn; split; auto|].
      destruct er; try (cbn; split; [discriminate | exact I2]).
      destruct (verify_ok _ _); cbn; (split; [discriminate | exact I2]).
    - cbn. split; [discriminate | exact I2]. }
  destruct (c_t3 c) eqn:T.
  - exact F.
  - cbn. rewrite T. auto.
  - exact F.
  - cbn. rewrite T. split; [discriminate | exact I2].
  - cbn. rewrite T. split; [discriminate | exact I2].
Qed.

Lemma step_inv g e c o :
  inv3 e c -> inv2 e c -> inv3 e (snd (step_gen g e c o)) /\ inv2 e (snd (step_gen g e c o)).
Proof.
  intros I3 I2. destruct o; cbn [step_gen]; try (cbn; auto; fail);
    try (destruct f; cbn; auto; fail); try (destruct b; cbn; auto; fail).
  all: try (unfold inv3, inv2; cbn; split; discriminate).
  all: try (unfold inv3, inv2; cbn; destruct closeidle_closes_h3; cbn; split; auto; discriminate).
  all: try (pose proof (do_bg_inv e c I3 I2) as H; destruct (do_bg e c) as [ds c']; exact H).
  all: try (pose proof (do_req_inv g e c I3 I2) as H; destruct (do_req_gen g e c) as [[o ds] c']; exact H).
  all: try (pose proof (do_req_close_inv g e c I3 I2) as H; destruct (do_req_close_gen g e c) as [[o ds] c']; exact H).
  destruct (do_req_gen g e (fork_apply a (do_clone c))) as [[o ds] c2]. destruct (do_bg e c2) as [ds2 c3]. cbn [snd]. auto.
Qed.

Lemma run_inv g e ops : forall c, inv3 e c -> inv2 e c -> inv3 e (snd (run_gen g e c ops)) /\ inv2 e (snd (run_gen g e c ops)).
Proof.
  induction ops as [|o r IH]; intros c I3 I2; [cbn; auto|].
  cbn [run_gen]. pose proof (step_inv g e c o I3 I2) as [J3 J2].
  destruct (step_gen g e c o) as [x c1]. cbn [snd] in *.
  specialize (IH c1 J3 J2). destruct (run_gen g e c1 r) as [xs c2]. exact IH.
Qed.

Lemma new_client_inv e : inv3 e new_client /\ inv2 e new_client.
Proof. unfold inv3, inv2. cbn. split; discriminate. Qed.

(* any client state reachable from req.C() by any operation sequence *)
Definition reachable (e : env) (c : client) : Prop := exists ops, c = snd (run e new_client ops).

Lemma reachable_inv e c : reachable e c -> inv3 e c /\ inv2 e c.
Proof.
  intros [ops ->]. unfold run. destruct (new_client_inv e). apply run_inv; auto.
Qed.

(* without forcing: an https request uses a version the server actually offers *)
Lemma unforced_round_trip e c :
  inv3 e c -> inv2 e c -> c_force c = FNone -> e_https e = true ->
  match outcome_of (round_trip_gen true e c) with
  | Use V1 => True
  | Use V2 => mem_bytes alpn_h2 (s_alpn (e_srv e)) = true
  | Use V3 => s_h3 (e_srv e) = true
  | Cleartext => c_plain_dialtls c = true
  | Fail _ => True
  end.
Proof.
  intros I3 I2 F Hs. unfold round_trip_gen. rewrite F. cbn [andb negb].
  assert (H3 : forall oc r, rt_h3 oc e c = Some r ->
            match outcome_of r with Use V1 => True | Use V2 => mem_bytes alpn_h2 (s_alpn (e_srv e)) = true
            | Use V3 => s_h3 (e_srv e) = true | Cleartext => c_plain_dialtls c = true | Fail _ => True end).
  { intros oc r E. destruct (rt_h3_outcome _ _ _ _ E) as [H|[er H]]; rewrite H; [|exact I].
    destruct (rt_h3_v3_needs_listener _ _ _ _ E H) as [K|K]; [apply I3, K | exact K]. }
  assert (HC : match outcome_of (rt_conn e c) with Use V1 => True | Use V2 => mem_bytes alpn_h2 (s_alpn (e_srv e)) = true
            | Use V3 => s_h3 (e_srv e) = true | Cleartext => c_plain_dialtls c = true | Fail _ => True end).
  { pose proof (rt_conn_outcome e c) as O. destruct (outcome_of (rt_conn e c)) as [[| |]| |]; try exact I; try tauto.
    destruct O as (_ & _ & [M|T]); [exact M|]. unfold inv2 in I2. rewrite Hs in I2. exact (I2 T). }
  destruct (check_altsvc e c) as [r|] eqn:A.
  - unfold check_altsvc in A. destruct (negb (c_h3 c)); [discriminate|].
    destruct (c_alt c) as [|[|]|]; try discriminate.
    + destruct (rt_h3 false e c) as [[[o ds] c']|] eqn:E; [|discriminate].
      specialize (H3 _ _ E). unfold outcome_of in *. cbn in H3.
      destruct o as [v| |er]; inversion A; subst; cbn; exact H3.
    + eapply H3; eauto.
  - rewrite Hs. cbn [andb].
    destruct (c_t2 c) eqn:T.
    + unfold outcome_of. cbn. unfold inv2 in I2. rewrite Hs in I2. apply I2, T.
    + destruct (c_h3 c); [|exact HC].
      destruct (rt_h3 true e c) eqn:E; [eapply H3; eauto | exact HC].
Qed.

Lemma unforced_https_negotiated e c :
  reachable e c -> c_force c = FNone -> e_https e = true ->
  match outcome_of (do_req e c) with
  | Use V1 => True
  | Use V2 => mem_bytes alpn_h2 (s_alpn (e_srv e)) = true
  | Use V3 => s_h3 (e_srv e) = true
  | Cleartext => c_plain_dialtls c = true
  | Fail _ => True
  end.
Proof.
  intros R F Hs. destruct (reachable_inv _ _ R) as [I3 I2].
  unfold do_req, do_req_gen. rewrite gen_guard, after_response_outcome. apply unforced_round_trip; auto.
Qed.

(* plain http: HTTP/1.1; HTTP/2 only when forced with h2c allowed, and then the origin speaks h2c; never
   HTTP/3, never anything else *)
Lemma plain_http_round_trip e c :
  inv2 e c -> e_https e = false ->
  match outcome_of (round_trip_gen true e c) with
  | Use V1 => True
  | Use V2 => c_force c = FH2 /\ c_allow_http c = true /\ s_h2c (e_srv e) = true
  | Use V3 => False
  | Cleartext => False
  | Fail _ => True
  end.
Proof.
  intros I2 Hs. unfold round_trip_gen.
  assert (H3 : forall oc r, rt_h3 oc e c = Some r -> exists er, outcome_of r = Fail er).
  { intros oc r. unfold rt_h3. rewrite Hs. cbn. intros H; inversion H. eexists; reflexivity. }
  assert (HC : outcome_of (rt_conn e c) = Use V1).
  { unfold rt_conn, route. rewrite Hs, andb_false_r. unfold rt_conn_direct, outcome_of. rewrite Hs, andb_false_r. cbn [negb andb].
    destruct (if match c_force c with FH1 => true | _ => false end then c_idle1 c else c_idle c); reflexivity. }
  destruct (if true && negb match c_force c with FNone => true | _ => false end then None else check_altsvc e c) as [r|] eqn:A.
  - destruct (true && negb match c_force c with FNone => true | _ => false end); [discriminate|].
    unfold check_altsvc in A. destruct (negb (c_h3 c)); [discriminate|].
    destruct (c_alt c) as [|[|]|]; try discriminate.
    + destruct (rt_h3 false e c) as [[[o ds] c']|] eqn:E; [|discriminate].
      destruct (H3 _ _ E) as [er K]. unfold outcome_of in K. cbn in K. subst o. inversion A. exact I.
    + destruct (H3 _ _ A) as [er K]. rewrite K. exact I.
  - destruct (c_force c) eqn:F.
    + rewrite Hs. cbn [andb]. rewrite HC. exact I.
    + rewrite Hs. cbn [andb]. rewrite HC. exact I.
    + unfold rt_h2_dial, outcome_of. rewrite Hs. cbn [orb negb andb].
      destruct (c_allow_http c) eqn:AH; cbn [negb]; [|exact I].
      destruct (c_t2 c) eqn:T.
      * cbn. unfold inv2 in I2. rewrite Hs in I2. auto.
      * destruct h2_plain_dial_for_http.
        { destruct (s_h2c (e_srv e)) eqn:Hc; cbn; auto. }
        destruct (c_plain_dialtls c); [|exact I].
        destruct (s_h2c (e_srv e)) eqn:Hc; cbn; auto.
    + destruct (rt_h3 false e c) eqn:E; [|exact I]. destruct (H3 _ _ E) as [er K]. rewrite K. exact I.
Qed.

Lemma plain_http_is_h1 e c :
  reachable e c -> e_https e = false ->
  match outcome_of (do_req e c) with
  | Use V1 => True
  | Use V2 => c_force c = FH2 /\ c_allow_http c = true /\ s_h2c (e_srv e) = true
  | Use V3 => False
  | Cleartext => False
  | Fail _ => True
  end.
Proof.
  intros R Hs. destruct (reachable_inv _ _ R) as [_ I2].
  unfold do_req, do_req_gen. rewrite gen_guard, after_response_outcome. apply plain_http_round_trip; auto.
Qed.

(* ---------- the pinned dispatch (checkAltSvc before the forced-version switch) ---------- *)
Definition local_srv : server :=
  mkSrv [alpn_h2; alpn_h1] true true false 1%N [bs "localhost"] None.
Definition local_env : env := mkEnv true (bs "localhost") local_srv None.

Lemma forced_pinned_refuted :
  exists ops, fst (run_pinned local_env new_client ops) =
    [ObsCfg; ObsCfg; ObsCfg;
     ObsReq (Use V1) [mkDial S1 (bs "localhost") [] true];
     ObsBg [mkDial S3 (bs "localhost") [alpn_h3] true] AObsReady;
     ObsReq (Use V3) []].
Proof.
  exists [OEnableH3; OForce FH1; OAddRoot 1%N; OReq; OBg; OReq]. vm_compute. reflexivity.
Qed.

(* the same operations on the repaired dispatch *)
Lemma forced_fixed_example :
  fst (run local_env new_client [OEnableH3; OForce FH1; OAddRoot 1%N; OReq; OBg; OReq]) =
    [ObsCfg; ObsCfg; ObsCfg;
     ObsReq (Use V1) [mkDial S1 (bs "localhost") [] true];
     ObsBg [mkDial S3 (bs "localhost") [alpn_h3] true] AObsReady;
     ObsReq (Use V1) []].
Proof. vm_compute. reflexivity. Qed.

(* ---------- repaired EnableH2C: no reachable client has a plain dialler in the DialTLSContext slot ---------- *)
Lemma gen_h2c_repaired : h2c_installs_plain_dialtls = false /\ h2_plain_dial_for_http = true.
Proof. split; reflexivity. Qed.

Lemma rt_h3_fresh_plain e c : c_plain_dialtls (snd (rt_h3_fresh e c)) = c_plain_dialtls c.
Proof.
  unfold rt_h3_fresh. destruct (h3_dial e c) as [h d]. destruct h as [p|er]; [reflexivity|]. destruct er; reflexivity.
Qed.

Lemma rt_h3_plain oc e c r : rt_h3 oc e c = Some r -> c_plain_dialtls (snd r) = c_plain_dialtls c.
Proof.
  unfold rt_h3. destruct (negb (e_https e)); [intros H; inversion H; reflexivity|].
  destruct (c_t3 c); try (intros H; inversion H; reflexivity).
  - destruct oc; [discriminate|]. intros H; inversion H. apply rt_h3_fresh_plain.
  - destruct oc; [discriminate|]. intros H; inversion H. rewrite rt_h3_fresh_plain. reflexivity.
  - destruct oc; intros H; inversion H; [reflexivity|]. rewrite rt_h3_fresh_plain. reflexivity.
Qed.

Lemma rt_h2_dial_plain e c : c_plain_dialtls (snd (rt_h2_dial e c)) = c_plain_dialtls c.
Proof. destruct (rt_h2_dial_client e c) as [H|H]; rewrite H; reflexivity. Qed.

Lemma rt_conn_plain e c : c_plain_dialtls (snd (rt_conn e c)) = c_plain_dialtls c.
Proof. destruct (rt_conn_client e c) as [H|[H|[H|[H|H]]]]; rewrite H; reflexivity. Qed.

Lemma check_altsvc_plain_dialtls e c r : check_altsvc e c = Some r -> c_plain_dialtls (snd r) = c_plain_dialtls c.
Proof.
  unfold check_altsvc. destruct (negb (c_h3 c)); [discriminate|].
  destruct (c_alt c) as [|[|]|]; try discriminate.
  - destruct (rt_h3 false e c) as [[[o ds] c']|] eqn:E; [|discriminate].
    apply rt_h3_plain in E. cbn in E.
    destruct o as [v| |er]; intros H; inversion H; cbn; exact E.
  - apply rt_h3_plain.
Qed.

Lemma round_trip_plain g e c : c_plain_dialtls (snd (round_trip_gen g e c)) = c_plain_dialtls c.
Proof.
  unfold round_trip_gen.
  destruct (if g && negb match c_force c with FNone => true | _ => false end then None else check_altsvc e c) eqn:A.
  - destruct (g && negb match c_force c with FNone => true | _ => false end); [discriminate|].
    eapply check_altsvc_plain_dialtls; eauto.
  - destruct (c_force c).
    + destruct (e_https e && negb false).
      * destruct (c_t2 c); [reflexivity|]. destruct (c_h3 c); [|apply rt_conn_plain].
        destruct (rt_h3 true e c) eqn:E; [eapply rt_h3_plain; eauto | apply rt_conn_plain].
      * apply rt_conn_plain.
    + destruct (e_https e && negb true); [|apply rt_conn_plain].
      destruct (c_t2 c); [reflexivity|]. destruct (c_h3 c); [|apply rt_conn_plain].
      destruct (rt_h3 true e c) eqn:E; [eapply rt_h3_plain; eauto | apply rt_conn_plain].
    + apply rt_h2_dial_plain.
    + destruct (rt_h3 false e c) eqn:E; [eapply rt_h3_plain; eauto | reflexivity].
Qed.

Lemma after_response_plain e r : c_plain_dialtls (snd (after_response e r)) = c_plain_dialtls (snd r).
Proof.
  destruct r as [[o ds] c]. unfold after_response.
  destruct o as [[| |]| |]; try reflexivity;
    (destruct (c_h3 c && s_altsvc (e_srv e) && (e_https e || negb altsvc_https_only)); [destruct (c_alt c)|]; reflexivity).
Qed.

Lemma do_req_plain g e c : c_plain_dialtls (snd (do_req_gen g e c)) = c_plain_dialtls c.
Proof. unfold do_req_gen. rewrite after_response_plain. apply round_trip_plain. Qed.

Lemma do_bg_plain e c : c_plain_dialtls (snd (do_bg e c)) = c_plain_dialtls c.
Proof.
  unfold do_bg. destruct (negb (c_bg c)); [reflexivity|].
  destruct (c_t3 c); try reflexivity.
  all: destruct (h3_dial e (with_t3 T3None c)) as [h d]; destruct h as [p|er]; [reflexivity|];
    destruct er; try reflexivity; destruct (verify_ok _ _); reflexivity.
Qed.

Lemma do_req_close_plain g e c : c_plain_dialtls (snd (do_req_close_gen g e c)) = c_plain_dialtls c.
Proof.
  unfold do_req_close_gen. rewrite after_response_plain.
  pose proof (round_trip_plain g e c) as T.
  destruct (round_trip_close_client g e c) as [H|[H|[H|H]]]; rewrite H; try exact T; try reflexivity.
  unfold clear_idle. destruct (c_force (snd (round_trip_gen g e c))); exact T.
Qed.

Lemma step_plain g e c o : c_plain_dialtls c = false -> c_plain_dialtls (snd (step_gen g e c o)) = false.
Proof.
  intros P. destruct o; cbn [step_gen snd].
  all: try (unfold set_h2c; rewrite (proj1 gen_h2c_repaired)).
  all: try (cbn; exact P); try reflexivity.
  all: try (destruct f; cbn; exact P).
  all: try (cbn; destruct closeidle_closes_h3; cbn; exact P).
  all: try (pose proof (do_bg_plain e c) as H; destruct (do_bg e c) as [ds c']; cbn [snd] in *; rewrite H; exact P).
  all: try (pose proof (do_req_plain g e c) as H; destruct (do_req_gen g e c) as [[o ds] c']; cbn [snd] in *; rewrite H; exact P).
  all: try (pose proof (do_req_close_plain g e c) as H; destruct (do_req_close_gen g e c) as [[o ds] c']; cbn [snd] in *; rewrite H; exact P).
  destruct (do_req_gen g e (fork_apply a (do_clone c))) as [[o ds] c2]. destruct (do_bg e c2) as [ds2 c3]. exact P.
Qed.

Lemma run_plain g e ops : forall c, c_plain_dialtls c = false -> c_plain_dialtls (snd (run_gen g e c ops)) = false.
Proof.
  induction ops as [|o r IH]; intros c P; [exact P|].
  cbn [run_gen]. pose proof (step_plain g e c o P) as H. destruct (step_gen g e c o) as [x c1]. cbn [snd] in H.
  specialize (IH c1 H). destruct (run_gen g e c1 r) as [xs c2]. exact IH.
Qed.

Lemma reachable_no_plain e c : reachable e c -> c_plain_dialtls c = false.
Proof. intros [ops ->]. unfold run. apply run_plain. reflexivity. Qed.

Lemma round_trip_cleartext g e c : outcome_of (round_trip_gen g e c) = Cleartext -> c_plain_dialtls c = true.
Proof.
  unfold round_trip_gen.
  assert (H3 : forall oc r, rt_h3 oc e c = Some r -> outcome_of r <> Cleartext).
  { intros oc r E. destruct (rt_h3_outcome _ _ _ _ E) as [K|[er K]]; rewrite K; discriminate. }
  assert (HC : outcome_of (rt_conn e c) = Cleartext -> c_plain_dialtls c = true).
  { intros K. pose proof (rt_conn_outcome e c) as O. rewrite K in O. apply O. }
  destruct (if g && negb match c_force c with FNone => true | _ => false end then None else check_altsvc e c) as [r|] eqn:A.
  - destruct (g && negb match c_force c with FNone => true | _ => false end); [discriminate|].
    intros K. exfalso. unfold check_altsvc in A. destruct (negb (c_h3 c)); [discriminate|].
    destruct (c_alt c) as [|[|]|]; try discriminate.
    + destruct (rt_h3 false e c) as [[[o ds] c']|] eqn:E; [|discriminate].
      pose proof (H3 _ _ E) as N. unfold outcome_of in N, K. cbn in N.
      destruct o as [v| |er]; inversion A; subst; cbn in K; congruence.
    + exact (H3 _ _ A K).
  - destruct (c_force c).
    + destruct (e_https e && negb false); [|exact HC]. destruct (c_t2 c); [discriminate|].
      destruct (c_h3 c); [|exact HC].
      destruct (rt_h3 true e c) eqn:E; [intros K; exfalso; exact (H3 _ _ E K) | exact HC].
    + destruct (e_https e && negb true); [|exact HC]. destruct (c_t2 c); [discriminate|].
      destruct (c_h3 c); [|exact HC].
      destruct (rt_h3 true e c) eqn:E; [intros K; exfalso; exact (H3 _ _ E K) | exact HC].
    + intros K. destruct (rt_h2_dial_outcome e c) as [X|[er X]]; rewrite X in K; discriminate.
    + destruct (rt_h3 false e c) eqn:E; [intros K; exfalso; exact (H3 _ _ E K) | discriminate].
Qed.

(* an https request of a reachable client is never written in clear (and a plain-http one is not "clear text" in
   this sense by definition): whatever EnableH2C / DisableH2C / SetDialTLS / Clone sequence preceded *)
Lemma never_in_clear e c : reachable e c -> outcome_of (do_req e c) <> Cleartext.
Proof.
  intros R K. unfold do_req, do_req_gen in K. rewrite after_response_outcome in K.
  apply round_trip_cleartext in K. rewrite (reachable_no_plain e c R) in K. discriminate.
Qed.

(* the pinned EnableH2C left the client in a state with the plain dialler installed: there the https request goes
   out in clear, whatever the TLS settings *)
Lemma h2c_pinned_refuted :
  outcome_of (do_req local_env (with_h2c true true (mutate (add_root 1%N) new_client))) = Cleartext.
Proof. vm_compute. reflexivity. Qed.

(* ---------- a throw-away clone never changes the original ---------- *)
Lemma fork_leaves_original g e c a : snd (step_gen g e c (OFork a)) = c.
Proof.
  cbn [step_gen]. destruct (do_req_gen g e (fork_apply a (do_clone c))) as [[o ds] c2].
  destruct (do_bg e c2) as [ds2 c3]. reflexivity.
Qed.

(* ... and the clone starts from the original's settings and switches, with no connection of its own *)
Lemma clone_spec c :
  c_tls (do_clone c) = c_tls c /\ c_force (do_clone c) = c_force c /\ c_h3 (do_clone c) = c_h3 c /\
  c_plain_dialtls (do_clone c) = c_plain_dialtls c /\
  c_idle (do_clone c) = false /\ c_idle1 (do_clone c) = false /\ c_t2 (do_clone c) = false /\
  c_t3 (do_clone c) = T3None /\ c_alt (do_clone c) = ANone.
Proof. unfold do_clone. cbn. repeat split; reflexivity. Qed.

(* ---------- a request that needs a new connection is decided by the settings, whatever the version ---------- *)
Definition no_conns (c : client) : Prop :=
  c_idle c = false /\ c_idle1 c = false /\ c_t2 c = false /\ c_t3 c = T3None.

(* such a request either handshakes or fails for a reason that is not a certificate *)
Definition dials_or_fails (r : res) : Prop :=
  let '(o, ds, _) := r in
  o <> Cleartext /\ (ds <> [] \/ exists er, o = Fail er /\ er <> ECert).

Lemma rt_h3_fresh_dials e c : dials_or_fails (rt_h3_fresh e c).
Proof.
  unfold rt_h3_fresh, dials_or_fails. destruct (h3_dial e c) as [h d]. destruct h as [p|er].
  - split; [discriminate | left; discriminate].
  - destruct er; (split; [discriminate|]); try (left; discriminate).
    right. eexists; split; [reflexivity | discriminate].
Qed.

Lemma rt_h3_dials oc e c r :
  e_https e = true -> c_t3 c = T3None -> rt_h3 oc e c = Some r -> dials_or_fails r.
Proof.
  intros Hs H3. unfold rt_h3. rewrite Hs, H3. cbn [negb].
  destruct oc; [discriminate|]. intros H; inversion H. apply rt_h3_fresh_dials.
Qed.

Lemma rt_h2_dial_dials e c :
  e_https e = true -> c_plain_dialtls c = false -> c_t2 c = false -> dials_or_fails (rt_h2_dial e c).
Proof.
  intros Hs Hp H2. unfold rt_h2_dial. rewrite Hs, Hp, H2. cbn [negb orb andb].
  destruct (handshake (s_alpn (e_srv e)) (tcp_cfg S2 false (e_host e) c) (e_srv e)) as [p|er].
  - destruct (opt_bytes_eqb p (Some alpn_h2)); [|destruct (c_udial c)]; (split; [discriminate | left; discriminate]).
  - split; [discriminate | left; discriminate].
Qed.

Lemma rt_conn_dials e c :
  route e c = None -> e_https e = true -> c_plain_dialtls c = false -> c_idle c = false -> c_idle1 c = false -> c_t2 c = false ->
  dials_or_fails (rt_conn e c).
Proof.
  intros RT Hs Hp Hi Hi1 H2. unfold rt_conn. rewrite RT. unfold rt_conn_direct.
  set (oh := match c_force c with FH1 => true | _ => false end).
  destruct (negb oh && e_https e && c_alti c).
  { rewrite H2. apply rt_h2_dial_dials; assumption. }
  rewrite Hs, Hp, Hi, Hi1. cbn [negb].
  replace (if oh then false else false) with false by (destruct oh; reflexivity).
  destruct (handshake (s_alpn (e_srv e)) (tcp_cfg S1 oh (e_host e) c) (e_srv e)) as [p|er].
  - destruct (opt_bytes_eqb p (Some alpn_h2)); [destruct oh|]; (split; [discriminate | left; discriminate]).
  - split; [discriminate | left; discriminate].
Qed.

Lemma check_altsvc_dials e c r :
  e_https e = true -> c_t3 c = T3None -> check_altsvc e c = Some r -> dials_or_fails r.
Proof.
  intros Hs H3. unfold check_altsvc. destruct (negb (c_h3 c)); [discriminate|].
  destruct (c_alt c) as [|[|]|]; try discriminate.
  - destruct (rt_h3 false e c) as [[[o ds] c']|] eqn:E; [|discriminate].
    apply (rt_h3_dials _ _ _ _ Hs H3) in E. unfold dials_or_fails in *.
    destruct o as [v| |er]; intros H; inversion H; subst; exact E.
  - apply rt_h3_dials; assumption.
Qed.

Lemma round_trip_dials g e c :
  route e c = None -> e_https e = true -> c_plain_dialtls c = false -> no_conns c -> dials_or_fails (round_trip_gen g e c).
Proof.
  intros RT Hs Hp (Hi & Hi1 & H2 & H3). unfold round_trip_gen.
  destruct (if g && negb match c_force c with FNone => true | _ => false end then None else check_altsvc e c) eqn:A.
  - destruct (g && negb match c_force c with FNone => true | _ => false end); [discriminate|].
    eapply check_altsvc_dials; eauto.
  - rewrite Hs, H2. destruct (c_force c); cbn [andb negb].
    + destruct (c_h3 c); [|apply rt_conn_dials; assumption].
      destruct (rt_h3 true e c) eqn:E; [eapply rt_h3_dials; eauto | apply rt_conn_dials; assumption].
    + apply rt_conn_dials; assumption.
    + apply rt_h2_dial_dials; assumption.
    + destruct (rt_h3 false e c) eqn:E; [eapply rt_h3_dials; eauto|].
      split; [discriminate|]. right. eexists; split; [reflexivity | discriminate].
Qed.

Lemma after_response_dials e r : dials_or_fails r -> dials_or_fails (after_response e r).
Proof.
  destruct r as [[o ds] c']. unfold after_response.
  destruct o as [[| |]| |]; try (intros H; exact H);
    (destruct (c_h3 c' && s_altsvc (e_srv e) && (e_https e || negb altsvc_https_only)); [destruct (c_alt c')|]; intros H; exact H).
Qed.

(* the uniformity clause: on whatever version the dispatch ends up (forced or not, Alt-Svc learned or not), a
   request that has no connection to reuse is refused when the origin is unacceptable under the client's
   settings, and is never refused for its certificate when the origin is acceptable *)
Lemma new_connection_decided_by_settings e c :
  route e c = None -> e_https e = true -> c_plain_dialtls c = false -> user_tls c = None -> no_conns c ->
  (acceptable e c = false -> exists er, outcome_of (do_req e c) = Fail er) /\
  (acceptable e c = true -> outcome_of (do_req e c) <> Fail ECert).
Proof.
  intros RT Hs Hp Hu Hn.
  pose proof (do_req_sound_client altsvc_only_unforced e c RT Hu) as S.
  pose proof (after_response_dials e _ (round_trip_dials altsvc_only_unforced e c RT Hs Hp Hn)) as D.
  unfold do_req. fold (do_req_gen altsvc_only_unforced e c) in D.
  unfold dials_or_fails in D.
  destruct (do_req_gen altsvc_only_unforced e c) as [[o ds] c']. unfold outcome_of. cbn [fst].
  destruct S as [_ S]. destruct D as [NC [D|[er [-> Her]]]].
  - destruct (S D) as [SU SF]. split.
    + intros A. destruct o as [v| |er]; [|contradiction|eexists; reflexivity].
      rewrite (SU v eq_refl) in A. discriminate.
    + intros A Hc. rewrite (SF Hc) in A. discriminate.
  - split; [intros _; eexists; reflexivity|]. intros _ Hc. inversion Hc. contradiction.
Qed.

(* all three forced versions agree: same client settings, same origin, no connection to reuse *)
Lemma forced_versions_agree e c f :
  route e c = None -> e_https e = true -> c_plain_dialtls c = false -> user_tls c = None -> no_conns c ->
  (acceptable e c = false -> exists er, outcome_of (do_req e (with_force f c)) = Fail er) /\
  (acceptable e c = true -> outcome_of (do_req e (with_force f c)) <> Fail ECert).
Proof.
  intros RT Hs Hp Hu Hn. apply (new_connection_decided_by_settings e (with_force f c)); assumption.
Qed.

(* with caller-supplied TLS (SetDialTLS / SetTLSHandshake) the same holds with the caller's configuration in
   the place of the client's for the TCP versions, HTTP/3 staying under the client's settings *)
Lemma user_tls_governs_tcp_only e c t :
  route e c = None -> user_tls c = Some t ->
  let '(o, ds, _) := do_req e c in
  Forall (fun d =>
    let g := if stack_quic (d_stack d) then effective (e_host e) (c_tls c) else default_sname (e_host e) t in
    d_sni d = t_sname g /\
    (forall v, o = Use v -> acceptable_under g e = true) /\
    (o = Fail ECert -> acceptable_under g e = false)) ds.
Proof.
  intros RT U. pose proof (do_req_sound altsvc_only_unforced e c RT) as S. unfold req_sound in S.
  unfold do_req. destruct (do_req_gen altsvc_only_unforced e c) as [[o ds] c'].
  eapply Forall_impl; [|exact S]. intros d H. unfold dial_sound, settings_for, tcp_settings in H.
  rewrite U in H. exact H.
Qed.

(* ---------- forcing a version after the client has been used ---------- *)
Lemma run_snoc g e ops o : forall c,
  snd (run_gen g e c (ops ++ [o])) = snd (step_gen g e (snd (run_gen g e c ops)) o).
Proof.
  induction ops as [|x r IH]; intros c.
  - cbn [app run_gen snd]. destruct (step_gen g e c o) as [y c1]. reflexivity.
  - cbn [app run_gen]. destruct (step_gen g e c x) as [y c1]. specialize (IH c1).
    destruct (run_gen g e c1 (r ++ [o])) as [ys c2]. destruct (run_gen g e c1 r) as [zs c3]. cbn [snd] in *. exact IH.
Qed.

Lemma step_force g e c f : c_force (snd (step_gen g e c (OForce f))) = f.
Proof. destruct f; reflexivity. Qed.

(* whatever was done with the client before (requests on any version, cached connections, learned Alt-Svc
   entries, clones ...), once a version is forced the next request uses it or fails *)
Lemma forced_after_any_history e c0 ops f v :
  version_of f = Some v ->
  let c := snd (run e c0 (ops ++ [OForce f])) in
  match outcome_of (do_req e c) with
  | Use v' => v' = v
  | Cleartext => c_plain_dialtls c = true /\ e_https e = true
  | Fail _ => True
  end.
Proof.
  intros Hv c. apply forced_version_or_fail. subst c. unfold run. rewrite run_snoc, step_force. exact Hv.
Qed.

(* non-vacuity of the uniformity clause: the same settings, three forced versions, origin offering all three:
   accepted three times with the private root, refused three times with the wrong root *)
Definition h3_env : env :=
  mkEnv true (bs "localhost") (mkSrv [alpn_h2; alpn_h1] true false false 1%N [bs "localhost"] None) None.
Lemma uniform_example :
  map (fun f => fst (run h3_env new_client [OAddRoot 1%N; OForce f; OReq])) [FH1; FH2; FH3] =
    [[ObsCfg; ObsCfg; ObsReq (Use V1) [mkDial S1 (bs "localhost") [] true]];
     [ObsCfg; ObsCfg; ObsReq (Use V2) [mkDial S2 (bs "localhost") [alpn_h1; alpn_h2] true]];
     [ObsCfg; ObsCfg; ObsReq (Use V3) [mkDial S3 (bs "localhost") [alpn_h3] true]]] /\
  map (fun f => fst (run h3_env new_client [OAddRoot 2%N; OForce f; OReq])) [FH1; FH2; FH3] =
    [[ObsCfg; ObsCfg; ObsReq (Fail ECert) [mkDial S1 (bs "localhost") [] false]];
     [ObsCfg; ObsCfg; ObsReq (Fail ECert) [mkDial S2 (bs "localhost") [alpn_h1; alpn_h2] false]];
     [ObsCfg; ObsCfg; ObsReq (Fail ECert) [mkDial S3 (bs "localhost") [alpn_h3] false]]].
Proof. split; vm_compute; reflexivity. Qed.

(* ---------- structural guards (regenerated from the Go source on every run) ----------
   The model has ONE tls.Config per client, read afresh by every dial of every stack.  That is the code's
   structure only as long as: Clone gives the clone its own Options and points the clone's http2 transport at
   them; the http3 round tripper points at the transport's Options; http2 newTLSConfig and http3 dial derive
   their tls.Config from it on every call (not once).  A change of any of these breaks this lemma. *)
Lemma gen_single_config_read_per_dial :
  clone_own_options = true /\ t3_shares_options = true /\
  h3_dial_config_per_dial = true /\ h2_config_per_dial = true.
Proof. repeat split; reflexivity. Qed.

(* ---------- two authorities of one origin: nothing is carried from one to the other ---------- *)
Lemma step_obs_cfg g e e' c o : host_directed o = false -> fst (step_gen g e c o) = fst (step_gen g e' c o).
Proof. destruct o; try discriminate; intros _; try reflexivity; try (destruct f; reflexivity). Qed.

Lemma step_cfg_env g e e' c o : host_directed o = false -> snd (step_gen g e c o) = snd (step_gen g e' c o).
Proof. destruct o; try discriminate; intros _; try reflexivity; try (destruct f; reflexivity). Qed.

(* what the client does at authority A (resp. B) in a two-authority sequence is exactly what it does in the
   one-authority sequence from which everything directed at the other authority has been removed *)
Lemma run2_proj eA eB ops : forall cA cB,
  fst (snd (run2 eA eB (cA, cB) ops)) = snd (run eA cA (proj_host false ops)) /\
  snd (snd (run2 eA eB (cA, cB) ops)) = snd (run eB cB (proj_host true ops)).
Proof.
  unfold run. induction ops as [|[b o] r IH]; intros cA cB; [split; reflexivity|].
  cbn [run2 step2 proj_host]. destruct (host_directed o) eqn:HD; cbn [negb orb].
  - destruct b; cbn [Bool.eqb].
    + unfold step. destruct (step_gen altsvc_only_unforced eB cB o) as [x cB'] eqn:S.
      specialize (IH cA cB'). destruct (run2 eA eB (cA, cB') r) as [xs w2]. cbn [snd] in *.
      cbn [run_gen]. rewrite S. destruct (run_gen altsvc_only_unforced eB cB' (proj_host true r)) as [ys c2].
      exact IH.
    + unfold step. destruct (step_gen altsvc_only_unforced eA cA o) as [x cA'] eqn:S.
      specialize (IH cA' cB). destruct (run2 eA eB (cA', cB) r) as [xs w2]. cbn [snd] in *.
      cbn [run_gen]. rewrite S. destruct (run_gen altsvc_only_unforced eA cA' (proj_host false r)) as [ys c2].
      exact IH.
  - unfold step. destruct (step_gen altsvc_only_unforced eA cA o) as [x cA'] eqn:SA.
    destruct (step_gen altsvc_only_unforced eB cB o) as [y cB'] eqn:SB.
    specialize (IH cA' cB'). destruct (run2 eA eB (cA', cB') r) as [xs w2]. cbn [snd] in *.
    cbn [run_gen]. rewrite SA, SB.
    destruct (run_gen altsvc_only_unforced eA cA' (proj_host false r)) as [ys c2].
    destruct (run_gen altsvc_only_unforced eB cB' (proj_host true r)) as [zs c3]. exact IH.
Qed.

Lemma settings_proj b ops t : settings (proj_host b ops) t = settings (map snd ops) t.
Proof.
  revert t. induction ops as [|[b' o] r IH]; intros t; [reflexivity|].
  cbn [proj_host map snd]. unfold settings in *. cbn [fold_left].
  destruct (host_directed o) eqn:HD; cbn [negb orb].
  - assert (E : cfg_op o t = t) by (destruct o; try discriminate; reflexivity).
    rewrite E. destruct (Bool.eqb b b'); [cbn [fold_left]; rewrite E|]; apply IH.
  - cbn [fold_left]. apply IH.
Qed.

(* the tls.Config every stack builds for a connection to either authority carries the settings the setters
   accumulated and the name of THAT authority (when no ServerName is configured): no request to the other
   authority - on any version, in any order - leaves anything behind in it *)
Lemma tls_uniform_two_hosts eA eB ops cA cB s only_h1 :
  c_tls cA = c_tls cB ->
  let w := snd (run2 eA eB (cA, cB) ops) in
  sec (tls_view s only_h1 (e_host eA) (c_tls (fst w))) = sec (effective (e_host eA) (settings (map snd ops) (c_tls cA))) /\
  sec (tls_view s only_h1 (e_host eB) (c_tls (snd w))) = sec (effective (e_host eB) (settings (map snd ops) (c_tls cA))).
Proof.
  intros E w. subst w. destruct (run2_proj eA eB ops cA cB) as [PA PB]. rewrite PA, PB. split.
  - rewrite tls_uniform_run, settings_proj. reflexivity.
  - rewrite tls_uniform_run, settings_proj, E. reflexivity.
Qed.

(* ---------- requests that ask for a connection of their own (Connection: close) ---------- *)
Lemma gen_plain_from_request : h2_plain_from_request_scheme = true.
Proof. reflexivity. Qed.

Lemma own_h2_conn_outcome e c :
  fst (own_h2_conn e c) = Use V2 \/ exists er, fst (own_h2_conn e c) = Fail er.
Proof.
  unfold own_h2_conn. pose proof (rt_h2_dial_outcome e (with_t2 false c)) as H. unfold outcome_of in H.
  destruct (rt_h2_dial e (with_t2 false c)) as [[o ds] c']. exact H.
Qed.

Lemma forced_close_round_trip e c v :
  version_of (c_force c) = Some v ->
  match outcome_of (round_trip_close true e c) with
  | Use v' => v' = v
  | Cleartext => c_plain_dialtls c = true /\ e_https e = true
  | Fail _ => True
  end.
Proof.
  intros Hf. pose proof (forced_round_trip e c v Hf) as R. unfold round_trip_close, outcome_of in *.
  destruct (c_force c) eqn:F; cbn in Hf; inversion Hf; subst.
  - destruct (round_trip_gen true e c) as [[o ds] c1]. cbn [fst] in R.
    destruct o as [[| |]| |]; try discriminate; cbn [fst]; try exact R;
      destruct (last_stack ds) as [[| | |]|]; try exact R; discriminate.
  - pose proof (own_h2_conn_outcome e c) as O. destruct (own_h2_conn e c) as [o ds]. cbn [fst] in *.
    destruct O as [->|[er ->]]; [reflexivity | exact I].
  - destruct (round_trip_gen true e c) as [[o ds] c1]. cbn [fst] in R.
    destruct o as [[| |]| |]; try discriminate; cbn [fst]; try exact R;
      destruct (last_stack ds) as [[| | |]|]; try exact R; discriminate.
Qed.

Lemma forced_close_version_or_fail e c v :
  version_of (c_force c) = Some v ->
  match outcome_of (do_req_close e c) with
  | Use v' => v' = v
  | Cleartext => c_plain_dialtls c = true /\ e_https e = true
  | Fail _ => True
  end.
Proof.
  intros H. unfold do_req_close, do_req_close_gen. rewrite gen_guard, after_response_outcome.
  apply forced_close_round_trip, H.
Qed.

Lemma round_trip_close_cleartext g e c :
  outcome_of (round_trip_close g e c) = Cleartext -> c_plain_dialtls c = true.
Proof.
  pose proof (round_trip_cleartext g e c) as R. unfold round_trip_close, outcome_of in *.
  destruct (c_force c);
    try (pose proof (own_h2_conn_outcome e c) as O; destruct (own_h2_conn e c) as [o ds]; cbn [fst] in *;
         destruct O as [->|[er ->]]; discriminate);
    destruct (round_trip_gen g e c) as [[o ds] c1]; cbn [fst] in R;
    destruct o as [[| |]| |]; cbn [fst]; try discriminate; try exact R;
    (destruct (last_stack ds) as [[| | |]|]; try discriminate);
    pose proof (own_h2_conn_outcome e c1) as O; destruct (own_h2_conn e c1) as [o2 ds2]; cbn [fst] in *;
    destruct O as [->|[er ->]]; discriminate.
Qed.

Lemma close_never_in_clear e c : reachable e c -> outcome_of (do_req_close e c) <> Cleartext.
Proof.
  intros R K. unfold do_req_close, do_req_close_gen in K. rewrite after_response_outcome in K.
  apply round_trip_close_cleartext in K. rewrite (reachable_no_plain e c R) in K. discriminate.
Qed.

(* forced HTTP/2 (with or without h2c enabled): the single-use connection of a Connection: close request is
   handshaken under the settings that govern TCP connections, like every other *)
Lemma close_forced_h2_sound g e c :
  c_force c = FH2 -> req_sound e c (round_trip_close g e c).
Proof.
  intros F. unfold round_trip_close, own_h2_conn. rewrite F.
  pose proof (rt_h2_dial_sound e (with_t2 false c)) as S.
  destruct (rt_h2_dial e (with_t2 false c)) as [[o ds] c']. exact S.
Qed.

(* ---------- the route through a CONNECT proxy (round 4) ---------- *)
(* what governs the two handshakes of a connection made through the proxy: the first hop (https:// proxy) is
   handshaken with the PROXY's name under the client's settings (through DialTLSContext when the caller set one);
   the handshake inside the tunnel with the ORIGIN's name under the client's settings (or the TLSHandshakeContext
   hook's) - DialTLSContext is not consulted for it *)
Definition origin_cfg_via_proxy (e : env) (c : client) : tlscfg :=
  match hs_slot c with Some t => default_sname (e_host e) t | None => effective (e_host e) (c_tls c) end.
Definition proxy_cfg (px : proxy) (c : client) : tlscfg :=
  match c_udial c with Some t => default_sname (p_host px) t | None => effective (p_host px) (c_tls c) end.
Definition acceptable_proxy (px : proxy) (c : client) : bool :=
  verify_ok (proxy_cfg px c) (proxy_srv px) && clientcert_ok (proxy_cfg px c) (proxy_srv px).

Definition proxy_dial_ok (px : proxy) (e : env) (c : client) (o : outcome) (d : dial) : Prop :=
  match d_stack d with
  | S1 => d_sni d = t_sname (origin_cfg_via_proxy e c) /\
          (forall v, o = Use v -> acceptable_under (origin_cfg_via_proxy e c) e = true)
  | SP => d_sni d = t_sname (proxy_cfg px c) /\ (forall v, o = Use v -> acceptable_proxy px c = true)
  | _ => True
  end.
Definition proxy_cert_clause (px : proxy) (e : env) (c : client) (o : outcome) (ds : list dial) : Prop :=
  o = Fail ECert ->
  match last_stack ds with
  | Some S1 => acceptable_under (origin_cfg_via_proxy e c) e = false
  | Some SP => acceptable_proxy px c = false
  | _ => True
  end.
Definition proxy_sound (px : proxy) (e : env) (c : client) (r : res) : Prop :=
  let '(o, ds, _) := r in Forall (proxy_dial_ok px e c o) ds /\ proxy_cert_clause px e c o ds.

Lemma rt_h2_dial_stack e c : Forall (fun d => d_stack d = S2) (snd (fst (rt_h2_dial e c))).
Proof.
  unfold rt_h2_dial.
  repeat match goal with
         | |- context [if ?b then _ else _] => destruct b
         | |- context [match ?x with _ => _ end] => destruct x
         end; cbn [fst snd]; repeat constructor.
Qed.

Lemma rt_h3_stack oc e c r : rt_h3 oc e c = Some r -> Forall (fun d => d_stack d = S3) (snd (fst r)).
Proof.
  assert (F : forall c', Forall (fun d => d_stack d = S3) (snd (fst (rt_h3_fresh e c')))).
  { intros c'. unfold rt_h3_fresh, h3_dial. destruct (s_h3 (e_srv e)).
    - destruct (handshake _ _ _) as [p|er]; [repeat constructor|]. destruct er; cbn; repeat constructor.
    - cbn. constructor. }
  unfold rt_h3. destruct (negb (e_https e)); [intros H; inversion H; constructor|].
  destruct (c_t3 c); destruct oc; intros H; inversion H; try constructor; apply F.
Qed.

Lemma stack_sound_S2 px e c o ds :
  Forall (fun d => d_stack d = S2) ds -> Forall (proxy_dial_ok px e c o) ds /\ proxy_cert_clause px e c o ds.
Proof.
  intros F. split.
  - eapply Forall_impl; [|exact F]. intros d H. unfold proxy_dial_ok. rewrite H. exact I.
  - intros _. unfold last_stack. destruct (rev ds) as [|d r] eqn:R; [exact I|].
    assert (In d ds) by (apply in_rev; rewrite R; left; reflexivity).
    rewrite Forall_forall in F. rewrite (F d H). exact I.
Qed.

Lemma stack_sound_S3 px e c o ds :
  Forall (fun d => d_stack d = S3) ds -> Forall (proxy_dial_ok px e c o) ds /\ proxy_cert_clause px e c o ds.
Proof.
  intros F. split.
  - eapply Forall_impl; [|exact F]. intros d H. unfold proxy_dial_ok. rewrite H. exact I.
  - intros _. unfold last_stack. destruct (rev ds) as [|d r] eqn:R; [exact I|].
    assert (In d ds) by (apply in_rev; rewrite R; left; reflexivity).
    rewrite Forall_forall in F. rewrite (F d H). exact I.
Qed.

Lemma last_stack_snoc ds d : last_stack (ds ++ [d]) = Some (d_stack d).
Proof. unfold last_stack. rewrite rev_unit. reflexivity. Qed.

Lemma sec_origin_via_proxy oh e c :
  sec (match hs_slot c with Some t => default_sname (e_host e) t | None => tls_view S1 oh (e_host e) (c_tls c) end) =
  sec (origin_cfg_via_proxy e c).
Proof. unfold origin_cfg_via_proxy. destruct (hs_slot c); [reflexivity | apply tls_view_sec]. Qed.

Lemma sec_proxy_cfg oh px c :
  sec (match c_udial c with Some t => default_sname (p_host px) t | None => tls_view SP oh (p_host px) (c_tls c) end) =
  sec (proxy_cfg px c).
Proof. unfold proxy_cfg. destruct (c_udial c); [reflexivity | apply tls_view_sec]. Qed.

Lemma handshake_ok_srv protos cfg cfg' srv p :
  sec cfg = sec cfg' -> handshake protos cfg srv = HsOk p -> verify_ok cfg' srv && clientcert_ok cfg' srv = true.
Proof.
  unfold handshake. intros S H.
  rewrite (verify_ok_sec _ _ _ S), (clientcert_ok_sec _ _ _ S) in H.
  destruct (negotiate protos _); try discriminate;
    destruct (verify_ok _ _); try discriminate; destruct (clientcert_ok _ _); try discriminate; reflexivity.
Qed.

Lemma handshake_cert_srv protos cfg cfg' srv :
  sec cfg = sec cfg' -> handshake protos cfg srv = HsFail ECert -> verify_ok cfg' srv && clientcert_ok cfg' srv = false.
Proof.
  unfold handshake. intros S H.
  rewrite (verify_ok_sec _ _ _ S), (clientcert_ok_sec _ _ _ S) in H.
  destruct (negotiate protos _); try discriminate;
    destruct (verify_ok _ _); try discriminate; destruct (clientcert_ok _ _); try discriminate; reflexivity.
Qed.

Lemma rt_conn_proxy_sound px e c : proxy_sound px e c (rt_conn_proxy px e c).
Proof.
  unfold proxy_sound, rt_conn_proxy.
  set (oh := match c_force c with FH1 => true | _ => false end).
  destruct (negb oh && c_alti c).
  { destruct (c_t2 c).
    - split; [constructor | intros _; exact I].
    - pose proof (rt_h2_dial_stack e c) as F. destruct (rt_h2_dial e c) as [[o ds] c']. cbn [fst snd] in F.
      apply stack_sound_S2, F. }
  destruct (if oh then c_idle1 c else c_idle c); [split; [constructor | intros _; exact I]|].
  set (pcfg := match c_udial c with Some t => default_sname (p_host px) t | None => tls_view SP oh (p_host px) (c_tls c) end).
  set (cfg := match hs_slot c with Some t => default_sname (e_host e) t | None => tls_view S1 oh (e_host e) (c_tls c) end).
  pose proof (sec_proxy_cfg oh px c) as SP'. fold pcfg in SP'.
  pose proof (sec_origin_via_proxy oh e c) as SO. fold cfg in SO.
  assert (TAIL : forall pd,
     (forall o, Forall (proxy_dial_ok px e c o) pd) ->
     let r := match handshake (s_alpn (e_srv e)) cfg (e_srv e) with
       | HsFail er => (Fail er, pd ++ [mk_dial S1 cfg (handshake (s_alpn (e_srv e)) cfg (e_srv e))], c)
       | HsOk p =>
           if opt_bytes_eqb p (Some alpn_h2) then
             if oh then (Fail EProto, pd ++ [mk_dial S1 cfg (handshake (s_alpn (e_srv e)) cfg (e_srv e))], c)
             else (Use V2, pd ++ [mk_dial S1 cfg (handshake (s_alpn (e_srv e)) cfg (e_srv e))], with_alti true (with_t2 true c))
           else (Use V1, pd ++ [mk_dial S1 cfg (handshake (s_alpn (e_srv e)) cfg (e_srv e))],
                 if oh then with_idle (c_idle c) true c else with_idle true (c_idle1 c) c)
       end in
     let '(o, ds, _) := r in Forall (proxy_dial_ok px e c o) ds /\ proxy_cert_clause px e c o ds).
  { intros pd PD. cbn zeta.
    assert (SNI : d_sni (mk_dial S1 cfg (handshake (s_alpn (e_srv e)) cfg (e_srv e))) = t_sname (origin_cfg_via_proxy e c))
      by (unfold mk_dial; cbn [d_sni]; apply sec_sname, SO).
    destruct (handshake (s_alpn (e_srv e)) cfg (e_srv e)) as [p|er] eqn:H.
    - pose proof (handshake_ok_sec _ _ _ _ _ SO H) as A.
      destruct (opt_bytes_eqb p (Some alpn_h2)); [destruct oh|];
        (split; [apply Forall_app; split; [apply PD | constructor; [|constructor]];
                 unfold proxy_dial_ok; cbn [mk_dial d_stack]; split; [exact SNI | intros v _; exact A]
                | intros Hc; inversion Hc]).
    - split.
      + apply Forall_app; split; [apply PD | constructor; [|constructor]].
        unfold proxy_dial_ok; cbn [mk_dial d_stack]. split; [exact SNI | intros v Hv; discriminate].
      + intros Hc. rewrite last_stack_snoc. cbn [mk_dial d_stack]. inversion Hc; subst.
        eapply handshake_cert_sec; eauto. }
  destruct (p_tls px).
  - destruct (handshake (s_alpn (proxy_srv px)) pcfg (proxy_srv px)) as [pp|er] eqn:HP.
    + pose proof (handshake_ok_srv _ _ _ _ _ SP' HP) as PA.
      apply (TAIL [mk_dial SP pcfg (HsOk pp)]). intros o. constructor; [|constructor].
      unfold proxy_dial_ok; cbn [mk_dial d_stack d_sni]. split; [apply sec_sname, SP' | intros v _; exact PA].
    + split.
      * constructor; [|constructor]. unfold proxy_dial_ok; cbn [mk_dial d_stack d_sni].
        split; [apply sec_sname, SP' | intros v Hv; discriminate].
      * intros Hc. cbn. inversion Hc; subst. unfold acceptable_proxy. eapply handshake_cert_srv; eauto.
  - apply (TAIL []). intros o. constructor.
Qed.

Lemma rt_h3_proxy_sound px oc e c r : rt_h3 oc e c = Some r -> proxy_sound px e c r.
Proof.
  intros E. pose proof (rt_h3_stack _ _ _ _ E) as F. destruct r as [[o ds] c']. cbn [fst snd] in F.
  apply stack_sound_S3, F.
Qed.

Lemma round_trip_proxy_sound g e c px : route e c = Some px -> proxy_sound px e c (round_trip_gen g e c).
Proof.
  intros RT.
  assert (HC : proxy_sound px e c (rt_conn e c)) by (unfold rt_conn; rewrite RT; apply rt_conn_proxy_sound).
  assert (NIL : forall o c', proxy_sound px e c (o, [], c')) by (intros; split; [constructor | intros _; exact I]).
  unfold round_trip_gen.
  destruct (if g && negb match c_force c with FNone => true | _ => false end then None else check_altsvc e c) eqn:A.
  - destruct (g && negb match c_force c with FNone => true | _ => false end); [discriminate|].
    unfold check_altsvc in A. destruct (negb (c_h3 c)); [discriminate|].
    destruct (c_alt c) as [|[|]|]; try discriminate.
    + destruct (rt_h3 false e c) as [[[o ds] c']|] eqn:E; [|discriminate].
      apply (rt_h3_proxy_sound px) in E. unfold proxy_sound in *.
      destruct o as [v| |er]; inversion A; subst; exact E.
    + eapply rt_h3_proxy_sound; eauto.
  - destruct (c_force c).
    + destruct (e_https e && negb false); [|exact HC].
      destruct (c_t2 c); [apply NIL|]. destruct (c_h3 c); [|exact HC].
      destruct (rt_h3 true e c) eqn:E; [eapply rt_h3_proxy_sound; eauto | exact HC].
    + destruct (e_https e && negb true); [|exact HC].
      destruct (c_t2 c); [apply NIL|]. destruct (c_h3 c); [|exact HC].
      destruct (rt_h3 true e c) eqn:E; [eapply rt_h3_proxy_sound; eauto | exact HC].
    + pose proof (rt_h2_dial_stack e c) as F. destruct (rt_h2_dial e c) as [[o ds] c']. cbn [fst snd] in F.
      apply stack_sound_S2, F.
    + destruct (rt_h3 false e c) eqn:E; [eapply rt_h3_proxy_sound; eauto | apply NIL].
Qed.

Lemma after_response_proxy_sound px e c r : proxy_sound px e c r -> proxy_sound px e c (after_response e r).
Proof.
  destruct r as [[o ds] c']. unfold after_response.
  destruct o as [[| |]| |]; try (intros H; exact H);
    (destruct (c_h3 c' && s_altsvc (e_srv e) && (e_https e || negb altsvc_https_only)); [destruct (c_alt c')|]; intros H; exact H).
Qed.

(* the client is told to use the proxy: whatever the dispatch does with the request (the http2 transport's own
   dials and HTTP/3 do not go through the proxy), every handshake with the ORIGIN inside a tunnel carries the
   origin's name and the client's settings (a success implies the origin is acceptable under them, a certificate
   failure of the last handshake that it is not), and every handshake with the proxy the proxy's name *)
Lemma do_req_proxy_sound e c px : route e c = Some px -> proxy_sound px e c (do_req e c).
Proof.
  intros RT. unfold do_req, do_req_gen. apply after_response_proxy_sound, round_trip_proxy_sound, RT.
Qed.

(* a tunnel (or any other connection) is reused for its own authority only: with the proxy in use too, what the
   client does at either authority of a two-authority sequence is its own one-authority run (run2_proj holds for
   every environment, proxies included); the idle list is keyed by the target as well - generated fact *)
Lemma gen_key_keeps_target : pool_key_keeps_https_target = true.
Proof. reflexivity. Qed.

(* ---------- what is learned about one authority stays with it (round 5) ---------- *)
Lemma gen_altsvc_key : altsvc_key_has_port = true.
Proof. reflexivity. Qed.

(* two authorities - the same origin under two names, or two origins on one host name with different ports:
   whatever the client did and learned at A (Alt-Svc entries, HTTP/3 connections ...), an unforced request to B is
   served over HTTP/3 only if B itself has a QUIC listener, and over HTTP/2 only if B's TLS listener offers h2 *)
Lemma other_authority_negotiates_for_itself eA eB ops :
  let cB := snd (snd (run2 eA eB (new_client, new_client) ops)) in
  c_force cB = FNone -> e_https eB = true ->
  match outcome_of (do_req eB cB) with
  | Use V2 => mem_bytes alpn_h2 (s_alpn (e_srv eB)) = true
  | Use V3 => s_h3 (e_srv eB) = true
  | Cleartext => False
  | _ => True
  end.
Proof.
  intros cB F Hs. subst cB. destruct (run2_proj eA eB ops new_client new_client) as [_ PB].
  rewrite PB in *.
  assert (R : reachable eB (snd (run eB new_client (proj_host true ops)))) by (eexists; reflexivity).
  pose proof (unforced_https_negotiated eB _ R F Hs) as U.
  pose proof (never_in_clear eB _ R) as NC.
  destruct (outcome_of (do_req eB (snd (run eB new_client (proj_host true ops))))) as [[| |]| |]; try exact I; try exact U.
  apply NC. reflexivity.
Qed.

(* ---------- fingerprint / impersonation handshakes follow the client's settings (round 5) ---------- *)
Lemma fp_cfg_sec host c : sec (default_sname host (fp_cfg c)) = sec (effective host (c_tls c)).
Proof.
  unfold fp_cfg, effective, default_sname. destruct (c_tls c) as [t|]; cbn;
    [destruct (nilb (t_sname t)); reflexivity | reflexivity].
Qed.

(* after ANY operation sequence - setters, requests, Clone (which installs the handshake anew on the clone), forks -
   the TCP handshakes of a client with a fingerprint handshake installed are governed by exactly the settings the
   setters accumulated for THAT client: roots, server name, client certificates, skip-verify *)
Lemma fingerprint_follows_settings e ops c :
  let c' := snd (run e c ops) in
  c_fp c' = true -> c_udial c' = None ->
  sec (tcp_settings e c') = sec (effective (e_host e) (settings ops (c_tls c))).
Proof.
  intros c' F U. unfold tcp_settings, user_tls, hs_slot. rewrite U, F.
  rewrite fp_cfg_sec. subst c'. unfold run. rewrite run_tls. reflexivity.
Qed.

Lemma clone_keeps_fingerprint c : c_fp (do_clone c) = c_fp c /\ c_tls (do_clone c) = c_tls c.
Proof. split; reflexivity. Qed.

(* ---------- transport middleware (round 7) ---------- *)
Lemma gen_clone_middleware : clone_middleware_bound_to_clone = true.
Proof. reflexivity. Qed.

(* installing a pass-through transport middleware changes nothing the dispatch or a handshake depends on, and a
   sequence with such installations anywhere (before or after Clone) behaves like the one without them *)
Fixpoint no_wrap (ops : list op) : list op :=
  match ops with
  | [] => []
  | OWrap :: r => no_wrap r
  | o :: r => o :: no_wrap r
  end.
Lemma wrap_transparent g e ops : forall c, snd (run_gen g e c ops) = snd (run_gen g e c (no_wrap ops)).
Proof.
  induction ops as [|o r IH]; intros c; [reflexivity|].
  destruct o; try (cbn [no_wrap run_gen];
    match goal with |- context [step_gen g e c ?o] => destruct (step_gen g e c o) as [x c1] end;
    specialize (IH c1); destruct (run_gen g e c1 r) as [xs c2]; destruct (run_gen g e c1 (no_wrap r)) as [ys c3]; exact IH).
  cbn [no_wrap run_gen step_gen]. specialize (IH c). destruct (run_gen g e c r) as [xs c2]. exact IH.
Qed.
