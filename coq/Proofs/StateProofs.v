(* Proofs/StateProofs.v - C01: state carried across reads, attempts and requests of one connection *)
From ReqV Require Import Lib.Bytes Lib.BytesFacts Model.Url Model.HeaderOrder Model.HeaderCollect
  Model.BodyFraming Model.H1Req Model.H2Body.
From ReqV Require Import Proofs.UrlProofs Proofs.BodyFramingProofs Proofs.H1ReqProofs Proofs.H2BodyProofs.
From Coq Require Import Lia.

(* ---------- a failing body source never yields a complete message ---------- *)
Theorem h2_upload_spec : forall reads alw,
  let '(fs, done) := h2_upload reads alw in
  (done = false -> all_open fs /\ concat (map fst fs) = ok_prefix reads) /\
  (done = true -> exists front last, fs = front ++ [last] /\ snd last = true /\ all_open front).
Proof.
  induction reads as [|[d st] rs IH]; intros alw.
  - cbn. split; [discriminate|]. intros _. exists [], ([], true). repeat split.
  - cbn [h2_upload]. destruct st.
    + pose proof (split_open (length d) d alw (le_n _)) as Ho.
      pose proof (split_remain_spec (length d) d false alw (le_n _)) as (Hc & _ & _).
      destruct (split_remain (length d) d false alw) as [fs alw'] eqn:E. cbn [fst] in *.
      specialize (IH alw'). destruct (h2_upload rs alw') as [gs done]. destruct IH as [Hf Ht]. split.
      * intros Hd. destruct (Hf Hd) as [Hog Hcg]. split; [apply all_open_app; assumption|].
        rewrite map_app, concat_app. cbn [ok_prefix]. f_equal; assumption.
      * intros Hd. destruct (Ht Hd) as (front & last & -> & Hl & Hfo).
        exists (fs ++ front), last. rewrite app_assoc. repeat split; [assumption|apply all_open_app; assumption].
    + split; [discriminate|]. intros _.
      destruct (h2_body_frames_faithful [(d, true)] alw) as (_ & front & last & E & Hl & Ho).
      exists front, last. auto.
    + split; [|discriminate]. intros _. split; reflexivity.
Qed.

(* HTTP/2: when the source fails, no DATA frame carries END_STREAM and only bytes that were read
   without error were written; HTTP/1.1: a chunked body that breaks off anywhere before its end
   is not read as a complete message *)
Theorem h2_failed_source_never_ends_stream : forall reads alw,
  snd (h2_upload reads alw) = false ->
  all_open (fst (h2_upload reads alw)) /\ concat (map fst (fst (h2_upload reads alw))) = ok_prefix reads.
Proof.
  intros reads alw H. pose proof (h2_upload_spec reads alw) as S.
  destruct (h2_upload reads alw) as [fs done]. cbn [fst snd] in *. apply S. exact H.
Qed.

Lemma truncation_not_clean e : truncation_err e -> is_clean e = false.
Proof. intros [ -> | [ -> | -> ] ]; reflexivity. Qed.

Theorem h1_broken_off_chunked_body_is_no_request : forall m t ls cs z zext tb j,
  ok_head m t ls ->
  field_values "Transfer-Encoding" (map trim_line ls) = [bs "chunked"] ->
  field_values "Content-Length" (map trim_line ls) = [] ->
  wf_chunked cs z zext tb -> j < length (render_chunked cs z zext tb) ->
  observe_h1 (render_head m t ls ++ firstn j (render_chunked cs z zext tb)) = None.
Proof.
  intros m t ls cs z zext tb j Hok Hte Hcl Hwf Hj. rewrite observe_prefix by assumption.
  cbn zeta. rewrite Hte, Hcl. change (bytes_eqb (bs "chunked") (bs "chunked")) with true. cbn iota.
  destruct (read_chunked_cut cs z zext tb j Hwf Hj) as [He _]. cbn zeta in He.
  rewrite (truncation_not_clean _ He). reflexivity.
Qed.

(* ---------- every attempt of one Request carries the same header ---------- *)
Definition client_values_nonempty (ch : list kv) : Prop := forall x, In x ch -> snd x <> [].

Lemma hget_app_r h1 h2 k : hget h1 k = None -> hget (h1 ++ h2) k = hget h2 k.
Proof.
  induction h1 as [|x h1 IH]; [reflexivity|]. cbn [app hget]. destruct (bytes_eqb (fst x) k); [discriminate|auto].
Qed.
Lemma hget_app_l h1 h2 k vs : hget h1 k = Some vs -> hget (h1 ++ h2) k = Some vs.
Proof.
  induction h1 as [|x h1 IH]; [discriminate|]. cbn [app hget]. destruct (bytes_eqb (fst x) k); auto.
Qed.

Lemma hget_filter_drop (f : kv -> bool) h k :
  (forall y, In y h -> bytes_eqb (fst y) k = true -> f y = false) -> hget (filter f h) k = None.
Proof.
  induction h as [|x h IH]; intros H; [reflexivity|]. cbn [filter].
  destruct (f x) eqn:Ef.
  - cbn [hget]. destruct (bytes_eqb (fst x) k) eqn:E.
    + rewrite (H x (or_introl eq_refl) E) in Ef. discriminate.
    + apply IH. intros y Hy. apply H. right. exact Hy.
  - apply IH. intros y Hy. apply H. right. exact Hy.
Qed.

Lemma hget_filter_keep (f : kv -> bool) h k vs : hget h k = Some vs ->
  (forall y, In y h -> bytes_eqb (fst y) k = true -> snd y = vs -> f y = true) ->
  hget (filter f h) k = Some vs.
Proof.
  induction h as [|x h IH]; intros Hg H; [discriminate|]. cbn [hget] in Hg. cbn [filter].
  destruct (bytes_eqb (fst x) k) eqn:E.
  - inversion Hg; subst. rewrite (H x (or_introl eq_refl) E eq_refl). cbn [hget]. rewrite E. reflexivity.
  - assert (IH' : hget (filter f h) k = Some vs) by (apply IH; [exact Hg|intros y Hy; apply H; right; exact Hy]).
    destruct (f x); [cbn [hget]; rewrite E|]; exact IH'.
Qed.

Lemma hget_in_nodup h x : NoDup (map fst h) -> In x h -> hget h (fst x) = Some (snd x).
Proof.
  induction h as [|y h IH]; intros Hnd Hin; [destruct Hin|]. cbn [map] in Hnd. inversion Hnd as [|? ? Hni Hnd']; subst.
  cbn [hget]. destruct Hin as [->|Hin]; [rewrite bytes_eqb_refl; reflexivity|].
  destruct (bytes_eqb (fst y) (fst x)) eqn:E; [|auto].
  apply bytes_eqb_eq in E. exfalso. apply Hni. rewrite E. apply in_map. exact Hin.
Qed.

Lemma NoDup_filter_map_fst (f : kv -> bool) h : NoDup (map fst h) -> NoDup (map fst (filter f h)).
Proof.
  induction h as [|x h IH]; intros H; [constructor|]. cbn [map] in H. inversion H as [|? ? Hni Hnd]; subst.
  cbn [filter]. destruct (f x); [|auto]. cbn [map]. constructor; [|auto].
  intros Hin. apply Hni. apply in_map_iff in Hin as (y & Ey & Hy). apply filter_In in Hy as [Hy _].
  rewrite <- Ey. apply in_map. exact Hy.
Qed.

Lemma filter_id {A} (f : A -> bool) l : (forall x, In x l -> f x = true) -> filter f l = l.
Proof.
  induction l as [|x l IH]; intros H; [reflexivity|]. cbn [filter]. rewrite (H x (or_introl eq_refl)).
  f_equal. apply IH. intros y Hy. apply H. right. exact Hy.
Qed.
Lemma filter_none {A} (f : A -> bool) l : (forall x, In x l -> f x = false) -> filter f l = [].
Proof.
  induction l as [|x l IH]; intros H; [reflexivity|]. cbn [filter]. rewrite (H x (or_introl eq_refl)).
  apply IH. intros y Hy. apply H. right. exact Hy.
Qed.

Lemma has_hkey_in k (h : list kv) x : In x h -> bytes_eqb (fst x) k = true -> has_hkey k h = true.
Proof. intros Hin E. unfold has_hkey. apply existsb_exists. exists x. auto. Qed.

(* merging the client defaults a second time changes nothing: what the first merge stored in the
   Request is found by the second one (maps: distinct keys; client entries hold a value) *)
Theorem merge_headers_idempotent : forall rh ch,
  NoDup (map fst rh) -> NoDup (map fst ch) -> client_values_nonempty ch ->
  merge_headers (merge_headers rh ch) ch = merge_headers rh ch.
Proof.
  intros rh ch Hnr Hnc Hne. unfold merge_headers at 1. set (m := merge_headers rh ch).
  assert (H1 : filter (fun x => negb (is_nil (snd x) && has_hkey (fst x) ch)) m = m).
  { apply filter_id. intros x Hx. unfold m, merge_headers in Hx.
    apply in_app_iff in Hx as [Hx|Hx]; apply filter_In in Hx as [Hx Hf]; [exact Hf|].
    specialize (Hne x Hx). destruct (snd x); [congruence|reflexivity]. }
  assert (H2 : filter (fun x => is_nil (hvals m (fst x))) ch = []).
  { apply filter_none. intros x Hx. unfold hvals.
    assert (Hg : exists ws, hget m (fst x) = Some ws /\ ws <> []).
    { destruct (is_nil (hvals rh (fst x))) eqn:Ef.
      - (* the first merge stored the client's entry, and no request entry with that key survived *)
        exists (snd x). split; [|apply Hne; exact Hx]. unfold m, merge_headers. rewrite hget_app_r.
        + apply hget_in_nodup; [apply NoDup_filter_map_fst; exact Hnc|].
          apply filter_In. split; [exact Hx|exact Ef].
        + apply hget_filter_drop. intros y Hy Ek. apply negb_false_iff. apply andb_true_iff. split.
          * apply bytes_eqb_eq in Ek. unfold hvals in Ef. rewrite <- Ek in Ef.
            rewrite (hget_in_nodup rh y Hnr Hy) in Ef. exact Ef.
          * apply (has_hkey_in _ ch x Hx). apply bytes_eqb_eq in Ek. rewrite Ek. apply bytes_eqb_refl.
      - (* the request has a value under that key: it is kept in front *)
        unfold hvals in Ef. destruct (hget rh (fst x)) as [vs|] eqn:Er; [|discriminate].
        exists vs. split; [|intros ->; discriminate]. unfold m, merge_headers. apply hget_app_l.
        apply hget_filter_keep; [exact Er|]. intros y Hy Ek Es. rewrite Es.
        destruct vs; [discriminate|reflexivity]. }
    destruct Hg as (ws & -> & Hw). destruct ws; [congruence|reflexivity]. }
  rewrite H1, H2. apply app_nil_r.
Qed.

Lemma after_attempts_state ch cck k s :
  NoDup (map fst (rs_hdr s)) -> NoDup (map fst ch) -> client_values_nonempty ch ->
  after_attempts ch cck k s = mkRs (merge_headers (rs_hdr s) ch) (rs_cks s ++ cck).
Proof.
  intros Hnr Hnc Hne. induction k as [|k IH]; [reflexivity|].
  cbn [after_attempts]. rewrite IH. unfold run_middleware. cbn [rs_hdr rs_cks].
  rewrite merge_headers_idempotent by assumption. reflexivity.
Qed.

(* every attempt (first, retries) hands the transports the same header: the client defaults once,
   every cookie once *)
Theorem every_attempt_same_header : forall ch cck k s,
  NoDup (map fst (rs_hdr s)) -> NoDup (map fst ch) -> client_values_nonempty ch ->
  attempt_header (after_attempts ch cck k s) = attempt_header (after_attempts ch cck 0 s).
Proof. intros. rewrite !after_attempts_state by assumption. reflexivity. Qed.

(* if the attempt's http.Request shared the Request's header map (no clone), the second attempt
   would carry every cookie twice *)
Theorem shared_header_map_doubles_cookies :
  exists ch cck s,
    header_get (rs_hdr (run_attempt_shared ch cck 1 (run_attempt_shared ch cck 0 s))) (bs "Cookie")
      = bs "sid=1; sid=1" /\
    header_get (attempt_header (after_attempts ch cck 1 s)) (bs "Cookie") = bs "sid=1".
Proof.
  exists [], [], (mkRs [(bs "X-A", [bs "v"])] [(bs "sid", bs "1")]). split; vm_compute; reflexivity.
Qed.

(* ---------- HPACK state carried from request to request on one HTTP/2 connection ---------- *)
Section HpackSync.
  (* the codec is abstract: encoder state, decoder state, a relation "in sync" that one
     encode/decode step preserves while returning the encoded field list *)
  Variables (est dst block : Type).
  Variable enc : est -> list line -> block * est.
  Variable dec : dst -> block -> list line * dst.
  Variable in_sync : est -> dst -> Prop.
  Hypothesis codec_sync : forall e d ls, in_sync e d ->
    fst (dec d (fst (enc e ls))) = ls /\ in_sync (snd (enc e ls)) (snd (dec d (fst (enc e ls)))).

  (* encodeHeaders: the size of the field list is added up and checked BEFORE anything goes
     through the connection's encoder *)
  Definition conn_send (limit : N) (e : est) (ls : list line) : option block * est :=
    if (limit <? field_list_size ls)%N then (None, e)
    else (Some (fst (enc e ls)), snd (enc e ls)).

  Fixpoint conn_run (limit : N) (e : est) (reqs : list (list line)) : list (option block) :=
    match reqs with
    | [] => []
    | ls :: r => fst (conn_send limit e ls) :: conn_run limit (snd (conn_send limit e ls)) r
    end.

  (* the peer decodes the blocks that were written, with the state it carries *)
  Fixpoint peer_decode (d : dst) (bs : list (option block)) : list (list line) :=
    match bs with
    | [] => []
    | None :: r => peer_decode d r
    | Some b :: r => fst (dec d b) :: peer_decode (snd (dec d b)) r
    end.

  Definition within (limit : N) (ls : list line) : bool := negb (limit <? field_list_size ls)%N.

  (* whatever requests share the connection and whichever of them are refused locally for their
     size: the peer decodes exactly the field lists of the requests that were sent, in order *)
  Theorem refused_requests_leave_no_trace : forall limit reqs e d, in_sync e d ->
    peer_decode d (conn_run limit e reqs) = filter (within limit) reqs.
  Proof.
    intros limit. induction reqs as [|ls r IH]; intros e d Hs; [reflexivity|].
    cbn [conn_run filter]. unfold conn_send, within.
    destruct (limit <? field_list_size ls)%N; cbn [fst snd negb peer_decode].
    - apply IH. exact Hs.
    - destruct (codec_sync e d ls Hs) as [Hd Hs']. rewrite Hd. f_equal. apply IH. exact Hs'.
  Qed.
End HpackSync.

(* ---------- the route does not change the authority ---------- *)
(* Client.roundTrip fills Request.Host (override or URL host), so whatever endpoint the Alt-Svc
   rewrite puts into URL.Host, the writers name the same authority *)
Theorem authority_route_independent : forall override url_host alt, url_host <> [] ->
  writer_authority (req_host_field override url_host) alt =
  writer_authority (req_host_field override url_host) url_host.
Proof.
  intros o u alt Hu. unfold req_host_field, writer_authority.
  destruct o as [|c o]; cbn [is_nil]; [|reflexivity]. destruct u; [congruence|reflexivity].
Qed.

(* with Request.Host left empty the alternative endpoint would become the authority *)
Theorem authority_empty_host_follows_route : forall url_host alt,
  writer_authority [] alt = alt /\ (alt <> url_host -> writer_authority [] alt <> writer_authority [] url_host).
Proof. intros. split; [reflexivity|]. cbn. auto. Qed.

(* ---------- the body of every send is the last thing that was set ---------- *)
Section BodySends.
  Context {V : Type} (marshal : V -> bytes).

  Definition st_meaning (st : bstate (V := V)) : bytes :=
    match b_value st with Some v => marshal v | None => b_bytes st end.

  Theorem every_send_carries_the_last_set_body : forall ops st,
    body_run marshal st ops = described_bodies marshal (st_meaning st) ops.
  Proof.
    induction ops as [|op r IH]; intros st; [reflexivity|].
    destruct op as [v|b|]; cbn [body_run body_step described_bodies].
    - rewrite IH. reflexivity.
    - rewrite IH. reflexivity.
    - unfold st_meaning at 1 2. destruct (b_value st) as [v|] eqn:E.
      + rewrite IH. unfold st_meaning. cbn [b_value]. reflexivity.
      + rewrite IH. unfold st_meaning. rewrite E. reflexivity.
  Qed.
End BodySends.

(* marshalling a value only while the request holds no bytes sends a stale body after the value changed *)
Theorem cached_marshalling_sends_stale_body :
  exists ops : list (body_op (V := bytes)),
    (let fix run st ops := match ops with
                           | [] => []
                           | op :: r => let '(st', out) := body_step_cached (fun v => v) st op in
                                        match out with Some b => b :: run st' r | None => run st' r end
                           end in run (mkBs None []) ops)
    <> described_bodies (fun v => v) [] ops.
Proof.
  exists [SetValue (bs "one"); SendNow; SetValue (bs "two"); SendNow]. vm_compute. discriminate.
Qed.

(* ---------- round 6 ---------- *)
(* a cookie the caller adds between two executions survives the un-merging of the client's cookies:
   the second execution carries the request's cookies, the added ones, then the client's - each once *)
Lemma skipn_two_apps {A} (a b c : list A) : skipn (length a + length b) (a ++ b ++ c) = c.
Proof. induction a as [|x a IH]; [cbn [length app Nat.add]; apply skipn_app_exact|exact IH]. Qed.

Theorem reexecution_keeps_added_cookies : forall (A : Type) (rck cck added cck' : list A),
  unmerge_cookies (length rck) (length cck) (rck ++ cck ++ added) ++ cck' = rck ++ added ++ cck'.
Proof.
  intros A rck cck added cck'. unfold unmerge_cookies.
  rewrite firstn_app_exact, skipn_two_apps. rewrite <- app_assoc. reflexivity.
Qed.

Theorem truncating_unmerge_drops_added_cookies : forall (A : Type) (rck cck added : list A),
  unmerge_cookies_truncating (length rck) (rck ++ cck ++ added) = rck.
Proof. intros. unfold unmerge_cookies_truncating. apply firstn_app_exact. Qed.

(* the HTTP/3 replay rule: whenever a request is sent again as it is, what it carries is what was
   described (there is no body to lose); accepting GetBody without calling it is not safe *)
Theorem h3_replay_carries_the_described_body : forall has_body idem body,
  h3_replayable has_body idem = true -> (has_body = false -> body = []) -> h3_replay_body body = body.
Proof.
  intros hb idem body H Hb. unfold h3_replayable in H. apply andb_true_iff in H as [H _].
  apply negb_true_iff in H. rewrite (Hb H). reflexivity.
Qed.

Theorem h3_replay_with_getbody_loses_the_body :
  exists body, h3_replayable_getbody true true true = true /\ h3_replay_body body <> body.
Proof. exists (bs "x"). split; [reflexivity|discriminate]. Qed.

(* the content type that selects the marshaller is the content type that is sent *)
Lemma hget_none_filter (f : kv -> bool) h k : hget h k = None -> hget (filter f h) k = None.
Proof.
  induction h as [|x h IH]; [reflexivity|]. cbn [hget filter].
  destruct (bytes_eqb (fst x) k) eqn:E; [discriminate|]. intros H.
  destruct (f x); [cbn [hget]; rewrite E|]; auto.
Qed.

Lemma hget_some_in h k vs : hget h k = Some vs -> exists x, In x h /\ bytes_eqb (fst x) k = true /\ snd x = vs.
Proof.
  induction h as [|x h IH]; [discriminate|]. cbn [hget]. destruct (bytes_eqb (fst x) k) eqn:E.
  - intros [= <-]. exists x. repeat split; [left; reflexivity|exact E].
  - intros H. destruct (IH H) as (y & Hy & Ey & Es). exists y. repeat split; [right; exact Hy|exact Ey|exact Es].
Qed.

Lemma hget_none_has_hkey h k : hget h k = None -> has_hkey k h = false.
Proof.
  induction h as [|x h IH]; [reflexivity|]. cbn [hget]. unfold has_hkey. cbn [existsb].
  destruct (bytes_eqb (fst x) k); [discriminate|]. intros H. apply IH. exact H.
Qed.

Theorem marshaller_follows_the_sent_content_type : forall rh ch,
  NoDup (map fst rh) ->
  (forall v vs, hget rh content_type = Some (v :: vs) -> v <> []) ->
  marshal_ct rh ch = header_get (merge_headers rh ch) content_type.
Proof.
  intros rh ch Hnd Hfirst. unfold marshal_ct, header_get, hvals.
  change (canonical_key content_type) with content_type.
  unfold merge_headers.
  destruct (hget rh content_type) as [[|v vs]|] eqn:Er.
  - (* the request holds the key without a value *)
    cbn [is_nil].
    destruct (hget ch content_type) as [cvs|] eqn:Ec.
    + rewrite hget_app_r.
      * rewrite (hget_filter_keep _ ch content_type cvs Ec); [reflexivity|].
        intros y Hy Ek _. apply bytes_eqb_eq in Ek. rewrite Ek. unfold hvals. rewrite Er. reflexivity.
      * apply hget_filter_drop. intros y Hy Ek. apply negb_false_iff. apply andb_true_iff.
        apply bytes_eqb_eq in Ek. split.
        -- rewrite <- Ek in Er. rewrite (hget_in_nodup rh y Hnd Hy) in Er. inversion Er as [E]. rewrite E. reflexivity.
        -- destruct (hget_some_in ch content_type cvs Ec) as (x & Hx & Ex & _).
           apply (has_hkey_in _ ch x Hx). rewrite Ek. exact Ex.
    + rewrite hget_app_l with (vs := []).
      * reflexivity.
      * apply hget_filter_keep; [exact Er|]. intros y Hy Ek _. apply negb_true_iff. apply andb_false_iff. right.
        apply bytes_eqb_eq in Ek. rewrite Ek. apply hget_none_has_hkey. exact Ec.
  - (* the request has its own content type *)
    specialize (Hfirst v vs eq_refl). destruct v as [|c v]; [congruence|]. cbn [is_nil].
    rewrite hget_app_l with (vs := (c :: v) :: vs); [reflexivity|].
    apply hget_filter_keep; [exact Er|]. intros y Hy Ek Es. rewrite Es. reflexivity.
  - (* only the client may have one *)
    cbn [is_nil]. rewrite hget_app_r by (apply hget_none_filter; exact Er).
    destruct (hget ch content_type) as [cvs|] eqn:Ec.
    + rewrite (hget_filter_keep _ ch content_type cvs Ec); [reflexivity|].
      intros y Hy Ek _. apply bytes_eqb_eq in Ek. rewrite Ek. unfold hvals. rewrite Er. reflexivity.
    + rewrite hget_none_filter by exact Ec. reflexivity.
Qed.

(* asking the client first picks a marshaller for a content type that is not the one sent *)
Theorem client_first_marshaller_mismatch :
  exists rh ch, marshal_ct_client_first rh ch <> header_get (merge_headers rh ch) content_type.
Proof.
  exists [(bs "Content-Type", [bs "application/json"])], [(bs "Content-Type", [bs "application/xml"])].
  vm_compute. discriminate.
Qed.

(* ---------- round 7 ---------- *)
(* whatever pieces the reader delivers its content in, the file part carries the whole content *)
Theorem file_part_is_the_content : forall reads, file_part reads = concat reads.
Proof. intros [|r0 rest]; reflexivity. Qed.

Theorem short_first_read_cuts_the_file :
  exists reads, file_part_short_first_is_all reads <> concat reads.
Proof. exists [bs "ab"; bs "cd"]. vm_compute. discriminate. Qed.

(* ---------- round 8 ---------- *)
(* the cookie-octet test, for all 256 byte values (DEL and everything above it are refused) *)
Theorem cookie_value_byte_table : forall c,
  valid_cookie_value_byte c =
  negb ((bN c <? 32)%N || (127 <=? bN c)%N || beqb c """"%byte || beqb c ";"%byte || beqb c "\"%byte).
Proof. intros c. destruct c; reflexivity. Qed.

Lemma filter_all {A} (f : A -> bool) l : forallb f l = true -> filter f l = l.
Proof.
  induction l as [|x l IH]; [reflexivity|]. cbn [forallb filter]. intros H. apply andb_true_iff in H as [H1 H2].
  rewrite H1, IH by exact H2. reflexivity.
Qed.

(* a cookie that passes checkRequestCookie is written by AddCookie with every byte of its name and
   value (the value between double quotes when it holds a blank or a comma) - nothing is dropped *)
Theorem valid_cookie_sent_unaltered : forall c, valid_cookie c = true ->
  cookie_pair c = fst c ++ "="%byte :: snd c \/
  cookie_pair c = fst c ++ "="%byte :: """"%byte :: snd c ++ [""""%byte].
Proof.
  intros [n v] H. unfold valid_cookie, valid_method in H. cbn [fst snd] in *.
  apply andb_true_iff in H as [Hn Hv]. apply andb_true_iff in Hn as [_ Htok].
  assert (En : sanitize_cookie_name n = n).
  { unfold sanitize_cookie_name. rewrite <- (map_id n) at 2. apply map_ext_in. intros b Hb.
    rewrite forallb_forall in Htok. specialize (Htok b Hb). unfold cookie_name_byte.
    destruct (beqb b x0a || beqb b x0d) eqn:E; [|reflexivity].
    exfalso. apply orb_true_iff in E as [E|E]; apply beqb_eq in E; subst; discriminate. }
  unfold cookie_pair, sanitize_cookie_value. cbn [fst snd]. rewrite En, (filter_all _ v Hv).
  destruct (is_nil v) eqn:Ev; [left; reflexivity|].
  destruct (mem_byte " "%byte v || mem_byte ","%byte v); [right|left]; reflexivity.
Qed.

(* a URL kept from the first attempt ignores what a retry hook changed *)
Theorem cached_attempt_url_ignores_changed_ingredients :
  exists cache base raw rp rp' cp cq rq,
    cache = Some (raw, attempt_url base raw rp cp cq rq) /\
    attempt_url_cached cache base raw rp' cp cq rq <> attempt_url base raw rp' cp cq rq.
Proof.
  exists (Some (bs "/u/{id}", attempt_url (bs "http://h") (bs "/u/{id}") [(bs "id", bs "1")] [] [] [])),
         (bs "http://h"), (bs "/u/{id}"), [(bs "id", bs "1")], [(bs "id", bs "2")], [], [], [].
  split; [reflexivity|]. vm_compute. discriminate.
Qed.
