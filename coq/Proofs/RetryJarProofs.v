(* Proofs/RetryJarProofs.v - C10: what the cookie jar adds to the attempts (Model/RetryJar.v). *)
From ReqV Require Import Lib.Bytes Lib.BytesFacts Model.RetryJar.
From Coq Require Import Lia.

(* every attempt carries the caller's cookies first, unchanged *)
Theorem caller_cookies_on_every_attempt caller : forall resps j cs,
  In cs (attempt_cookies caller j resps) -> firstn (length caller) cs = caller.
Proof.
  induction resps as [|r rest IH]; intros j cs H; cbn [attempt_cookies] in H; [contradiction|].
  destruct H as [<-|H].
  - rewrite firstn_app, Nat.sub_diag, firstn_O, app_nil_r. apply firstn_all.
  - apply (IH _ _ H).
Qed.

(* attempt k carries, after the caller's cookies, exactly the jar as the responses of the
   attempts before it left it *)
Theorem attempt_cookies_nth caller : forall resps j k,
  k < length resps ->
  nth k (attempt_cookies caller j resps) [] = caller ++ jar_after j (firstn k resps).
Proof.
  induction resps as [|r rest IH]; intros j k Hk; cbn [length] in Hk; [lia|].
  destruct k as [|k]; cbn [attempt_cookies nth firstn jar_after fold_left]; [reflexivity|].
  rewrite IH by lia. reflexivity.
Qed.

Lemma jar_set_nil j : jar_set j [] = j.
Proof. reflexivity. Qed.

(* no response sets a cookie: every attempt carries the same cookies *)
Theorem no_set_cookie_all_equal caller : forall resps j,
  Forall (fun r => r = []) resps ->
  attempt_cookies caller j resps = repeat (caller ++ j) (length resps).
Proof.
  induction resps as [|r rest IH]; intros j H; cbn [attempt_cookies length repeat]; [reflexivity|].
  inversion H as [|? ? Hr Hrest]; subst. rewrite jar_set_nil, IH by exact Hrest. reflexivity.
Qed.

(* storing a cookie: its name then maps to the new value, other names keep theirs, and a name
   is never held twice *)
Fixpoint jar_get (j : jar) (n : bytes) : option bytes :=
  match j with
  | [] => None
  | (m, v) :: r => if bytes_eqb m n then Some v else jar_get r n
  end.

Lemma jar_get_set1 j c n :
  jar_get (jar_set1 j c) n = if bytes_eqb (fst c) n then Some (snd c) else jar_get j n.
Proof.
  induction j as [|[m v] r IH]; cbn [jar_set1 jar_get].
  - destruct c as [cn cv]. cbn [fst snd jar_get]. reflexivity.
  - destruct (bytes_eqb m (fst c)) eqn:E; cbn [jar_get].
    + apply bytes_eqb_eq in E. subst m. destruct (bytes_eqb (fst c) n); reflexivity.
    + rewrite IH. destruct (bytes_eqb m n) eqn:E2; [|reflexivity].
      apply bytes_eqb_eq in E2. subst m.
      destruct (bytes_eqb (fst c) n) eqn:E3; [|reflexivity].
      apply bytes_eqb_eq in E3. subst n. rewrite bytes_eqb_refl in E. discriminate.
Qed.

Lemma jar_set1_names j c :
  map fst (jar_set1 j c) = if existsb (fun m => bytes_eqb m (fst c)) (map fst j) then map fst j else map fst j ++ [fst c].
Proof.
  induction j as [|[m v] r IH]; cbn [jar_set1 map existsb fst]; [reflexivity|].
  destruct (bytes_eqb m (fst c)) eqn:E; cbn [orb map fst]; [reflexivity|].
  rewrite IH. destruct (existsb _ (map fst r)); reflexivity.
Qed.

Lemma NoDup_snoc {A} (l : list A) x : NoDup l -> ~ In x l -> NoDup (l ++ [x]).
Proof.
  induction l as [|y r IH]; intros Hn Hx; cbn [app]; [constructor; [intros []|constructor]|].
  inversion Hn as [|? ? Hy Hr]; subst. constructor.
  - intro Hin. apply in_app_or in Hin. destruct Hin as [Hin|[<-|[]]]; [exact (Hy Hin)|].
    apply Hx. left. reflexivity.
  - apply IH; [exact Hr|]. intro Hin. apply Hx. right. exact Hin.
Qed.

Theorem jar_names_stay_distinct j c : NoDup (map fst j) -> NoDup (map fst (jar_set1 j c)).
Proof.
  intros H. rewrite jar_set1_names.
  destruct (existsb (fun m => bytes_eqb m (fst c)) (map fst j)) eqn:E; [exact H|].
  apply NoDup_snoc; [exact H|]. intro Hin.
  assert (existsb (fun m => bytes_eqb m (fst c)) (map fst j) = true).
  { apply existsb_exists. exists (fst c). split; [exact Hin|apply bytes_eqb_refl]. }
  congruence.
Qed.

(* a cookie set by the response of attempt k is on the Cookie line of attempt k+1, with that
   value (when that response sets the name once) *)
Theorem set_cookie_reaches_next_attempt caller resps j k r n v :
  nth_error resps k = Some r -> S k < length resps ->
  jar_get (jar_set (jar_after j (firstn k resps)) r) n = Some v ->
  exists rest, nth (S k) (attempt_cookies caller j resps) [] = caller ++ rest /\ jar_get rest n = Some v.
Proof.
  intros Hr Hk Hg. rewrite attempt_cookies_nth by exact Hk.
  eexists. split; [reflexivity|].
  assert (E : firstn (S k) resps = firstn k resps ++ [r]).
  { clear Hk Hg. revert k Hr. induction resps as [|x xs IH]; intros [|k] Hr; cbn in Hr; try discriminate.
    - injection Hr as ->. reflexivity.
    - cbn [firstn app]. f_equal. apply IH. exact Hr. }
  rewrite E. unfold jar_after. rewrite fold_left_app. cbn [fold_left]. exact Hg.
Qed.
