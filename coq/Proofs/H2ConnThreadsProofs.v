(* Proofs/H2ConnThreadsProofs.v - header blocks of concurrent streams reach the peer in the order
   they were encoded: under every schedule the peer's one HPACK decoder gets each block's own fields. *)
From Coq Require Import Lia.
From ReqV Require Import Lib.Bytes Lib.BytesFacts Lib.BigEndian Model.H2Frame Model.H3Frame Model.H2Meta
  Model.H2EncConn Model.H2ConnThreads Proofs.H2EncConnProofs.
Open Scope N_scope.

Section ThreadProofs.
Variables S D B : Type.
Variable enc : S -> list hfield -> B * S.
Variable dec : D -> B -> option (list hfield * D).
Variable fs : bool -> list hfield.
Variable insync : S -> D -> Prop.
Hypothesis hpack_roundtrip : forall s d l b s',
  insync s d -> enc s l = (b, s') -> exists d', dec d b = Some (l, d') /\ insync s' d'.

Notation cstate := (cstate S D B).
Notation step := (cstep S D B enc dec fs true).

Definition written (p : cpc) : bool := match p with CUnlock | CDone => true | _ => false end.
Definition outs_ok (st : cstate) : Prop :=
  match written (c_pa st), written (c_pb st) with
  | false, false => c_outs st = []
  | true, false => c_outs st = [Some (fs true)]
  | false, true => c_outs st = [Some (fs false)]
  | true, true => c_outs st = [Some (fs true); Some (fs false)] \/ c_outs st = [Some (fs false); Some (fs true)]
  end.
(* the block in hbuf is the one the peer expects next *)
Definition ready (st : cstate) (t : bool) : Prop :=
  match c_hbuf st with
  | Some b => exists d', dec (c_peer st) b = Some (fs t, d') /\ insync (c_enc st) d'
  | None => False
  end.
Definition idle_pc (p : cpc) : Prop := p = CLock \/ p = CDone.
Definition cinv (st : cstate) : Prop :=
  outs_ok st /\
  match c_lock st with
  | None => insync (c_enc st) (c_peer st) /\ idle_pc (c_pa st) /\ idle_pc (c_pb st)
  | Some t =>
      idle_pc (c_pc S D B st (negb t)) /\
      match c_pc S D B st t with
      | CEncode | CUnlock => insync (c_enc st) (c_peer st)
      | CWrite => ready st t
      | CLock | CDone => False
      end
  end.

Lemma cinv_init s0 d0 : insync s0 d0 -> cinv (cinit S D B true s0 d0).
Proof. intro I. unfold cinv, outs_ok, idle_pc. cbn. repeat split; auto. Qed.

Lemma cstep_inv st u : cinv st -> cinv (step st u).
Proof.
  destruct st as [e h l pa pb d o]. unfold cinv, outs_ok, ready, idle_pc, cstep, c_pc, c_with.
  cbn [c_enc c_hbuf c_lock c_pa c_pb c_peer c_outs].
  intros [O L].
  destruct l as [[|]|]; destruct u; cbn [negb] in *.
  (* lock held by A, A steps *)
  - destruct pa; cbn [written] in *; try tauto.
    + (* CEncode *) destruct L as [IB IS]. destruct (enc e (fs true)) as [b s'] eqn:E.
      destruct (hpack_roundtrip e d (fs true) b s' IS E) as (d' & Dd & I').
      cbn. split; [exact O|]. split; [exact IB|]. exists d'. split; assumption.
    + (* CWrite *) destruct L as [IB R]. destruct h as [b|]; [|contradiction]. destruct R as (d' & Dd & I').
      rewrite Dd. cbn. split.
      * destruct pb; cbn [written] in *; destruct IB as [X|X]; try discriminate X; subst o; cbn; auto.
      * split; assumption.
    + (* CUnlock *) destruct L as [IB IS]. cbn. split; [exact O|]. repeat split; auto; try (right; reflexivity).
  (* lock held by A, B steps: B is idle *)
  - destruct L as [IB LA]. destruct pb; destruct IB as [X|X]; try discriminate X; cbn; split; try exact O; split; auto.
  (* lock held by B, A steps: A is idle *)
  - destruct L as [IA LB]. destruct pa; destruct IA as [X|X]; try discriminate X; cbn; split; try exact O; split; auto.
  (* lock held by B, B steps *)
  - destruct pb; cbn [written] in *; try tauto.
    + destruct L as [IA IS]. destruct (enc e (fs false)) as [b s'] eqn:E.
      destruct (hpack_roundtrip e d (fs false) b s' IS E) as (d' & Dd & I').
      cbn. split; [exact O|]. split; [exact IA|]. exists d'. split; assumption.
    + destruct L as [IA R]. destruct h as [b|]; [|contradiction]. destruct R as (d' & Dd & I').
      rewrite Dd. cbn. split.
      * destruct pa; cbn [written] in *; destruct IA as [X|X]; try discriminate X; subst o; cbn; auto.
      * split; assumption.
    + destruct L as [IA IS]. cbn. split; [exact O|]. repeat split; auto; try (right; reflexivity).
  (* lock free, A steps *)
  - destruct L as (IS & IA & IB). destruct pa; destruct IA as [X|X]; try discriminate X; cbn; split; try exact O; auto.
  (* lock free, B steps *)
  - destruct L as (IS & IA & IB). destruct pb; destruct IB as [X|X]; try discriminate X; cbn; split; try exact O; auto.
Qed.

Lemma crun_inv s0 d0 sched : insync s0 d0 -> cinv (crun S D B enc dec fs true s0 d0 sched).
Proof.
  intro I. unfold crun. generalize (cinit S D B true s0 d0) (cinv_init s0 d0 I).
  induction sched as [|u sched IH]; intros st Inv; [exact Inv|]. cbn [fold_left]. apply IH. apply cstep_inv. exact Inv.
Qed.

(* every schedule of two streams that each write a header block (headers or trailers) under the
   connection's write lock: when both are through, the peer - ONE decoder reading the wire in order,
   in step with the encoder at the start - has decoded exactly the two blocks' own fields (in the order
   the lock was won), and is in step with the encoder again *)
Theorem h2_conn_blocks_in_encode_order s0 d0 sched : insync s0 d0 ->
  let st := crun S D B enc dec fs true s0 d0 sched in
  c_pa st = CDone -> c_pb st = CDone ->
  (c_outs st = [Some (fs true); Some (fs false)] \/ c_outs st = [Some (fs false); Some (fs true)]) /\
  insync (c_enc st) (c_peer st).
Proof.
  intros I st PA PB. pose proof (crun_inv s0 d0 sched I) as Inv. fold st in Inv.
  destruct Inv as [O L]. unfold outs_ok in O. rewrite PA, PB in O. cbn in O. split; [exact O|].
  destruct (c_lock st) as [t|].
  - destruct L as [_ L]. destruct t; unfold c_pc in L; rewrite ?PA, ?PB in L; contradiction.
  - tauto.
Qed.

(* at no point of any schedule has the peer decoded anything but a block's own fields *)
Theorem h2_conn_peer_never_confused s0 d0 sched : insync s0 d0 ->
  Forall (fun o => o = Some (fs true) \/ o = Some (fs false)) (c_outs (crun S D B enc dec fs true s0 d0 sched)).
Proof.
  intro I. destruct (crun_inv s0 d0 sched I) as [O _]. unfold outs_ok in O.
  destruct (written _), (written _); try destruct O as [O|O]; rewrite O;
    repeat (first [apply Forall_nil | apply Forall_cons]); auto.
Qed.
End ThreadProofs.

(* with the toy HPACK of Model/H2EncConn.v: encoding the trailers BEFORE taking the write lock lets
   another stream's HEADERS slip in between - its block, encoded against a table that already holds
   the unsent trailer, decodes at the peer to the wrong field, and the trailer block that follows is
   the other stream's header block again *)
Theorem h2_conn_encode_outside_lock_refuted :
  let tr := (bs "x-trailer", bs "t") in let h := (bs "x-req", bs "b") in
  let fs := fun t : bool => if t then [tr] else [h; tr] in
  (* A (true) encodes its trailer, B (false) encodes + takes the lock + writes, then A writes *)
  let st := crun _ _ _ toy_enc_toks toy_dec_toks fs false [tr] [tr] [true; false; false; false; false; true; true; true] in
  c_pa st = CDone /\ c_pb st = CDone /\ c_outs st = [Some [h; tr]; Some [h; h]].
Proof. cbv zeta. vm_compute. repeat split. Qed.
