(* Proofs/FormResendProofs.v - C20: setting the body up again does not change the form. *)
From ReqV Require Import Lib.Bytes Lib.BytesFacts Model.FormResend.

Theorem body_setup_idempotent client s : body_setup client (body_setup client s) = body_setup client s.
Proof.
  unfold body_setup. destruct client as [|c r]; [reflexivity|].
  destruct (fm_merged s) eqn:E; [now rewrite E|]. reflexivity.
Qed.

(* the digest re-send carries exactly the fields of the first transmission: the request's own
   followed by the client's, once *)
Theorem resend_same_fields client req :
  form_resend client req = form_first client req /\ form_first client req = req ++ client.
Proof.
  unfold form_resend, form_first. rewrite body_setup_idempotent. split; [reflexivity|].
  destruct client; cbn; [now rewrite app_nil_r|reflexivity].
Qed.

(* any number of further set-ups (retry attempts, another re-send) changes nothing *)
Theorem setup_n_times client s n : Nat.iter (S n) (body_setup client) s = body_setup client s.
Proof.
  induction n as [|n IH]; [reflexivity|].
  change (Nat.iter (S (S n)) (body_setup client) s) with (body_setup client (Nat.iter (S n) (body_setup client) s)).
  rewrite IH. apply body_setup_idempotent.
Qed.

(* deciding by the retry attempt instead (seeded change e-m1): the re-send happens within attempt
   0, the client's fields are added a second time *)
Example by_attempt_refuted :
  let client := [(bs "tenant", bs "acme")] in
  let req := [(bs "k", bs "v")] in
  fm_fields (body_setup_by_attempt 0 client (body_setup_by_attempt 0 client (mkForm req false)))
    = [(bs "k", bs "v"); (bs "tenant", bs "acme"); (bs "tenant", bs "acme")] /\
  form_resend client req = [(bs "k", bs "v"); (bs "tenant", bs "acme")].
Proof. split; vm_compute; reflexivity. Qed.
