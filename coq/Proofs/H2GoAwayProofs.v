(* Proofs/H2GoAwayProofs.v - the first error code and the first debug text win, the last stream id is
   the latest one: for every sequence of GOAWAY frames (C07) *)
From ReqV Require Import Lib.Bytes Model.H2GoAway.
From Coq Require Import Lia.
Open Scope N_scope.

Lemma goaway_run_some : forall fs s, exists s', goaway_run (Some s) fs = Some s' /\
  gs_code s' = (if gs_code s =? 0 then first_code fs else gs_code s) /\
  gs_debug s' = (if nil_bytes (gs_debug s) then first_debug fs else gs_debug s) /\
  gs_last s' = match rev fs with [] => gs_last s | f :: _ => gf_last f end.
Proof.
  induction fs as [|f r IH]; intros s; cbn [goaway_run first_code first_debug].
  - exists s. repeat split; [now destruct (gs_code s =? 0) eqn:E; [apply N.eqb_eq in E|]|now destruct (gs_debug s)].
  - destruct (IH (goaway_merge (Some s) f)) as (s' & -> & Hc & Hd & Hl). exists s'. split; [reflexivity|].
    cbn [goaway_merge gs_code gs_debug gs_last] in *. repeat split.
    + rewrite Hc. destruct (gs_code s =? 0) eqn:E1; [|now rewrite E1].
      destruct (gf_code f =? 0) eqn:E2; reflexivity.
    + rewrite Hd. destruct (nil_bytes (gs_debug s)) eqn:E1; [|now rewrite E1].
      destruct (nil_bytes (gf_debug f)) eqn:E2; reflexivity.
    + rewrite Hl. cbn [rev]. destruct (rev r) as [|x l] eqn:E; cbn; reflexivity.
Qed.

(* every non-empty sequence of GOAWAY frames, whatever codes, stream ids and debug texts: what the
   pending requests are told is the FIRST non-zero error code, the FIRST non-empty debug text and the
   LATEST last-stream id *)
Theorem goaway_first_error_wins f fs :
  exists s, goaway_run None (f :: fs) = Some s /\
    gs_code s = first_code (f :: fs) /\ gs_debug s = first_debug (f :: fs) /\
    gs_last s = match rev fs with [] => gf_last f | g :: _ => gf_last g end.
Proof.
  cbn [goaway_run goaway_merge].
  destruct (goaway_run_some fs {| gs_last := gf_last f; gs_code := gf_code f; gs_debug := gf_debug f |})
    as (s & -> & Hc & Hd & Hl). exists s. split; [reflexivity|]. cbn [gs_code gs_debug gs_last] in *.
  cbn [first_code first_debug]. repeat split; assumption.
Qed.

(* the state after a frame is a function of the three remembered values and the new frame alone:
   two histories that left the same (code, debug, last) are indistinguishable afterwards *)
Theorem goaway_state_is_all fs1 fs2 rest :
  goaway_run None fs1 = goaway_run None fs2 ->
  goaway_run None (fs1 ++ rest) = goaway_run None (fs2 ++ rest).
Proof.
  assert (G : forall fs st, goaway_run st (fs ++ rest) = goaway_run (goaway_run st fs) rest).
  { induction fs as [|f r IH]; intros st; cbn; [reflexivity|apply IH]. }
  intros H. now rewrite !G, H.
Qed.
