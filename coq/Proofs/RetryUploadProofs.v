(* Proofs/RetryUploadProofs.v - C10: multipart bodies under retry (Model/RetryUpload.v). *)
From ReqV Require Import Lib.Bytes Model.Retry Model.RetryUpload.
From Coq Require Import Lia.

(* sources every attempt can read completely *)
Definition replayable (f : mfile) : Prop :=
  mf_kind f = FBytes \/ mf_kind f = FPath \/ mf_kind f = FSeekNoClose \/ mf_kind f = FSeekReader \/
  mf_kind f = FCustomSeek.

(* everything but a caller-supplied GetFileContent that shares one plain reader *)
Definition managed (f : mfile) : Prop := mf_kind f <> FCustomPlain.

Definition unused (f : mfile) : Prop := mf_used f = false.

Lemma replayable_managed f : replayable f -> managed f.
Proof. unfold replayable, managed. intros [H|[H|[H|[H|H]]]]; rewrite H; discriminate. Qed.

(* a managed source yields its complete content or fails - never a part of it *)
Lemma file_read_full_or_none att f :
  managed f -> unused f \/ (1 <= att)%Z ->
  file_read att f = None \/ file_read att f = Some (mf_content f).
Proof.
  unfold managed, unused, file_read. intros Hm Hc.
  destruct (mf_kind f); try (right; reflexivity); try (contradiction Hm; reflexivity).
  - destruct (mf_used f); auto.
  - destruct (mf_used f); auto.
  - destruct Hc as [Hu|Ha]; [rewrite Hu; right; reflexivity|].
    assert (E : (att <=? 0)%Z = false) by lia. rewrite E, andb_false_r. right; reflexivity.
Qed.

Lemma file_read_unused att f : unused f -> file_read att f = Some (mf_content f).
Proof. unfold unused, file_read. intros H. rewrite H. destruct (mf_kind f); reflexivity. Qed.

Lemma file_read_replayable att f : replayable f -> (1 <= att)%Z -> file_read att f = Some (mf_content f).
Proof.
  unfold replayable, file_read. intros H Ha.
  assert (E : (att <=? 0)%Z = false) by lia.
  destruct H as [H|[H|[H|[H|H]]]]; rewrite H; rewrite ?E, ?andb_false_r; reflexivity.
Qed.

Section UploadProofs.
Variable detect : bytes -> bytes.

Notation full_files fs := (map (fun f => mk_part detect f (mf_content f)) fs).

Lemma file_parts_full att : forall fs,
  (forall f, In f fs -> file_read att f = None \/ file_read att f = Some (mf_content f)) ->
  snd (file_parts file_read detect att fs) = true ->
  fst (file_parts file_read detect att fs) = full_files fs.
Proof.
  induction fs as [|f r IH]; intros H Hok; cbn [file_parts map fst snd] in *; [reflexivity|].
  destruct (H f (or_introl eq_refl)) as [E|E]; rewrite E in *; cbn [fst snd] in *; [discriminate|].
  rewrite IH; [reflexivity| |exact Hok]. intros g Hg. apply H. right. exact Hg.
Qed.

Lemma file_parts_all att fs :
  (forall f, In f fs -> file_read att f = Some (mf_content f)) ->
  file_parts file_read detect att fs = (full_files fs, true).
Proof.
  induction fs as [|f r IH]; intros H; cbn [file_parts map]; [reflexivity|].
  rewrite (H f (or_introl eq_refl)), IH; [reflexivity|]. intros g Hg. apply H. right. exact Hg.
Qed.

Lemma full_parts_mark_used form fs : full_parts detect form (map mark_used fs) = full_parts detect form fs.
Proof. unfold full_parts. rewrite map_map. reflexivity. Qed.

Lemma managed_mark_used fs : Forall managed fs -> Forall managed (map mark_used fs).
Proof.
  intros H. rewrite Forall_forall in *. intros f Hin. apply in_map_iff in Hin.
  destruct Hin as (g & <- & Hg). apply (H g Hg).
Qed.

Lemma mp_pass_complete att form fs :
  Forall managed fs -> Forall unused fs \/ (1 <= att)%Z ->
  snd (fst (mp_pass file_read detect att form fs)) = true ->
  fst (fst (mp_pass file_read detect att form fs)) = full_parts detect form fs.
Proof.
  intros Hm Hc. unfold mp_pass, full_parts. cbn [fst snd]. intros Hok. f_equal.
  apply file_parts_full; [|exact Hok].
  intros f Hin. apply file_read_full_or_none.
  - rewrite Forall_forall in Hm. apply Hm, Hin.
  - destruct Hc as [Hu|Ha]; [left; rewrite Forall_forall in Hu; apply Hu, Hin|right; exact Ha].
Qed.

(* whatever the (managed) kinds of source, buffered or chunked: a body that was written to its
   end carries every field and every file completely *)
Theorem upload_never_partial form chunked : forall n att fs,
  Forall managed fs -> (0 <= att)%Z -> Forall unused fs \/ (1 <= att)%Z ->
  Forall (fun a => snd a = true -> fst a = full_parts detect form fs)
         (fst (mp_attempts file_read detect chunked n att form fs)).
Proof.
  induction n as [|n IH]; intros att fs Hm Ha Hc; cbn [mp_attempts]; [constructor|].
  destruct (snd (fst (mp_pass file_read detect att form fs)) || chunked) eqn:E; cbn [fst]; [|constructor].
  constructor; [apply mp_pass_complete; assumption|].
  unfold mp_pass at 1. cbn [snd].
  rewrite <- (full_parts_mark_used form fs).
  apply IH; [apply managed_mark_used, Hm|lia|right; lia].
Qed.

(* buffered variant: every body that is sent was written to its end *)
Theorem upload_buffered_complete form : forall n att fs,
  Forall (fun a => snd a = true) (fst (mp_attempts file_read detect false n att form fs)).
Proof.
  induction n as [|n IH]; intros att fs; cbn [mp_attempts]; [constructor|].
  rewrite orb_false_r.
  destruct (snd (fst (mp_pass file_read detect att form fs))) eqn:E; cbn [fst]; [|constructor].
  constructor; [exact E|apply IH].
Qed.

(* the first attempt of a fresh request carries every file completely - whatever the source *)
Theorem upload_first_complete att form fs :
  Forall unused fs ->
  fst (mp_pass file_read detect att form fs) = (full_parts detect form fs, true).
Proof.
  intros H. unfold mp_pass, full_parts. cbn [fst].
  rewrite file_parts_all; [reflexivity|].
  intros f Hin. apply file_read_unused. rewrite Forall_forall in H. apply H, Hin.
Qed.

Lemma mp_pass_retry att form fs :
  Forall replayable fs -> (1 <= att)%Z ->
  fst (mp_pass file_read detect att form fs) = (full_parts detect form fs, true).
Proof.
  intros H Ha. unfold mp_pass, full_parts. cbn [fst].
  rewrite file_parts_all; [reflexivity|].
  intros f Hin. apply file_read_replayable; [|exact Ha]. rewrite Forall_forall in H. apply H, Hin.
Qed.

Lemma replayable_mark_used fs : Forall replayable fs -> Forall replayable (map mark_used fs).
Proof.
  intros H. rewrite Forall_forall in *. intros f Hin. apply in_map_iff in Hin.
  destruct Hin as (g & <- & Hg). apply (H g Hg).
Qed.

Lemma mp_attempts_retries form chunked : forall n att fs,
  Forall replayable fs -> (1 <= att)%Z ->
  mp_attempts file_read detect chunked n att form fs = (repeat (full_parts detect form fs, true) n, false).
Proof.
  induction n as [|n IH]; intros att fs Hr Ha; cbn [mp_attempts repeat]; [reflexivity|].
  rewrite mp_pass_retry by assumption. cbn [fst snd orb].
  unfold mp_pass. cbn [snd]. rewrite IH; [|apply replayable_mark_used, Hr|lia].
  cbn [fst snd]. rewrite full_parts_mark_used. reflexivity.
Qed.

(* with replayable sources - including a caller-supplied GetFileContent that shares one
   io.ReadSeeker - EVERY attempt is sent and carries the same parts, all fields and all files
   complete, in both encodings, for every number of attempts *)
Theorem upload_attempts_identical form chunked fs n :
  Forall replayable fs -> Forall unused fs ->
  mp_attempts file_read detect chunked n 0 form fs = (repeat (full_parts detect form fs, true) n, false).
Proof.
  intros Hr Hu. destruct n as [|n]; [reflexivity|]. cbn [mp_attempts repeat].
  rewrite upload_first_complete by exact Hu. cbn [fst snd orb].
  unfold mp_pass. cbn [snd].
  rewrite mp_attempts_retries; [|apply replayable_mark_used, Hr|lia].
  cbn [fst snd]. rewrite full_parts_mark_used. reflexivity.
Qed.

(* a retryable request with an upload that can be sent only once (SetFileReader with a reader
   that is not an io.Seeker, or with an os.File) is refused up front: nothing is sent *)
Theorem upload_once_only_refused_up_front chunked n form fs :
  existsb upload_once_only fs = true ->
  mp_run file_read detect true chunked n form fs = ([], false, true).
Proof. intros H. unfold mp_run. rewrite H. reflexivity. Qed.

(* without retries (count 0 / no option) it is sent, once and completely *)
Theorem upload_once_only_single_attempt chunked form fs :
  Forall unused fs ->
  mp_run file_read detect false chunked 1 form fs = ([(full_parts detect form fs, true)], false, false).
Proof.
  intros Hu. unfold mp_run. cbn [andb mp_attempts].
  rewrite upload_first_complete by exact Hu. cbn [fst snd orb]. reflexivity.
Qed.

(* the code as it is for a caller-supplied GetFileContent that returns the same plain reader
   on every call: the retry carries a zero-length file (the caller's contract; nothing req
   could rewind) *)
Theorem upload_custom_plain_partial chunked param name content :
  mp_attempts file_read detect chunked 2 0 ([], []) [mkFile param name FCustomPlain content false] =
  ([([PFile param name (detect (pad512 content)) content], true);
    ([PFile param name (detect (pad512 [])) []], true)], false).
Proof. destruct chunked; reflexivity. Qed.

(* SetFileReader as pinned: the drained reader is uploaded again as a zero-length file *)
Theorem upload_reader_pinned_refuted param name kind content :
  kind = FSeekReader \/ kind = FPlainReader ->
  mp_attempts file_read_pinned detect false 2 0 ([], []) [mkFile param name kind content false] =
  ([([PFile param name (detect (pad512 content)) content], true);
    ([PFile param name (detect (pad512 [])) []], true)], false).
Proof. intros [-> | ->]; reflexivity. Qed.

End UploadProofs.

(* a source handed over at a position past 0: every pass reads what was left at hand-over *)
Theorem reader_position_respected seek_visible s att :
  reader_pass true seek_visible s att = rs_content s.
Proof. unfold reader_pass. destruct (att <=? 0)%Z; reflexivity. Qed.

Theorem reader_position_is_file_read seek_visible param name k s used att :
  k = FSeekReader \/ k = FSeekNoClose ->
  file_read att (mfile_at param name k s used) = Some (reader_pass true seek_visible s att).
Proof. intros [-> | ->]; rewrite reader_position_respected; reflexivity. Qed.

(* before 9ce4104 (and with a change that keeps Seek visible on every seekable reader): the
   retry uploads the bytes the caller had consumed as well *)
Theorem reader_seek_zero_refuted :
  reader_pass false true (mkSrc (bs "HDR:payload") 4) 0 = bs "payload" /\
  reader_pass false true (mkSrc (bs "HDR:payload") 4) 1 = bs "HDR:payload".
Proof. split; reflexivity. Qed.

Example upload_attempts_identical_nonvacuous :
  mp_attempts file_read (fun _ => bs "application/octet-stream") true 3 0 ([], [(bs "f", [bs "1"])])
    [mkFile (bs "file") (bs "a.txt") FPath (bs "hello") false;
     mkFile (bs "doc") (bs "b.bin") FCustomSeek (bs "b") false] =
  (repeat ([PField (bs "f") (bs "1");
            PFile (bs "file") (bs "a.txt") (bs "application/octet-stream") (bs "hello");
            PFile (bs "doc") (bs "b.bin") (bs "application/octet-stream") (bs "b")], true) 3, false).
Proof. vm_compute. reflexivity. Qed.
