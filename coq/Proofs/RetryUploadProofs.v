(* Proofs/RetryUploadProofs.v - C10: multipart bodies under retry (Model/RetryUpload.v). *)
From ReqV Require Import Lib.Bytes Model.Retry Model.RetryUpload.
From Coq Require Import Lia.

Definition replayable (f : mfile) : Prop :=
  mf_kind f = FBytes \/ mf_kind f = FPath \/ mf_kind f = FSeekNoClose \/ mf_kind f = FSeekReader.

Definition one_shot (f : mfile) : Prop := mf_kind f = FPlainReader \/ mf_kind f = FOsFile.

Definition unused (f : mfile) : Prop := mf_used f = false.

(* a source yields its complete content or fails - never a part of it *)
Lemma file_read_full_or_none att f : file_read att f = None \/ file_read att f = Some (mf_content f).
Proof.
  unfold file_read. destruct (mf_kind f); try (right; reflexivity);
  match goal with |- context [if ?b then _ else _] => destruct b end; auto.
Qed.

Lemma file_read_unused att f : unused f -> file_read att f = Some (mf_content f).
Proof. unfold unused, file_read. intros H. rewrite H. destruct (mf_kind f); reflexivity. Qed.

Lemma file_read_replayable att f : replayable f -> (1 <= att)%Z -> file_read att f = Some (mf_content f).
Proof.
  unfold replayable, file_read. intros H Ha.
  assert (E : (att <=? 0)%Z = false) by lia.
  destruct H as [H|[H|[H|H]]]; rewrite H; rewrite ?E, ?andb_false_r; reflexivity.
Qed.

Section UploadProofs.
Variable detect : bytes -> bytes.

Notation full_files fs := (map (fun f => mk_part detect f (mf_content f)) fs).

Lemma file_parts_full att : forall fs ps, file_parts file_read detect att fs = Some ps -> ps = full_files fs.
Proof.
  induction fs as [|f r IH]; intros ps H; cbn [file_parts map] in *.
  - injection H as <-. reflexivity.
  - destruct (file_read_full_or_none att f) as [E|E]; rewrite E in H; [discriminate|].
    destruct (file_parts file_read detect att r) as [ps'|]; [|discriminate].
    injection H as <-. rewrite (IH ps' eq_refl). reflexivity.
Qed.

Lemma file_parts_all att fs :
  (forall f, In f fs -> file_read att f = Some (mf_content f)) ->
  file_parts file_read detect att fs = Some (full_files fs).
Proof.
  induction fs as [|f r IH]; intros H; cbn [file_parts map]; [reflexivity|].
  rewrite (H f (or_introl eq_refl)), IH; [reflexivity|]. intros g Hg. apply H. right. exact Hg.
Qed.

Lemma full_parts_mark_used form fs : full_parts detect form (map mark_used fs) = full_parts detect form fs.
Proof. unfold full_parts. rewrite map_map. reflexivity. Qed.

Lemma mp_pass_some att form fs ps :
  fst (mp_pass file_read detect att form fs) = Some ps -> ps = full_parts detect form fs.
Proof.
  unfold mp_pass, full_parts. cbn [fst].
  destruct (file_parts file_read detect att fs) as [ps'|] eqn:E; [|discriminate].
  intros H. injection H as <-. rewrite (file_parts_full att fs ps' E). reflexivity.
Qed.

(* whatever the kinds of source, whatever was used before: a body that is sent is complete *)
Theorem upload_never_partial form : forall n att fs,
  Forall (fun ps => ps = full_parts detect form fs) (fst (mp_attempts file_read detect n att form fs)).
Proof.
  induction n as [|n IH]; intros att fs; cbn [mp_attempts]; [constructor|].
  destruct (fst (mp_pass file_read detect att form fs)) as [ps|] eqn:E; cbn [fst]; [|constructor].
  constructor; [apply (mp_pass_some att form fs ps E)|].
  unfold mp_pass at 1. cbn [snd].
  rewrite <- (full_parts_mark_used form fs). apply IH.
Qed.

(* the first attempt of a fresh request carries every file completely - whatever the source *)
Theorem upload_first_complete att form fs :
  Forall unused fs -> fst (mp_pass file_read detect att form fs) = Some (full_parts detect form fs).
Proof.
  intros H. unfold mp_pass, full_parts. cbn [fst].
  rewrite file_parts_all; [reflexivity|].
  intros f Hin. apply file_read_unused. rewrite Forall_forall in H. apply H, Hin.
Qed.

Lemma mp_pass_retry att form fs :
  Forall replayable fs -> (1 <= att)%Z ->
  fst (mp_pass file_read detect att form fs) = Some (full_parts detect form fs).
Proof.
  intros H Ha. unfold mp_pass, full_parts. cbn [fst].
  rewrite file_parts_all; [reflexivity|].
  intros f Hin. apply file_read_replayable; [|exact Ha]. rewrite Forall_forall in H. apply H, Hin.
Qed.

Lemma replayable_mark_used fs : Forall replayable fs -> Forall replayable (map mark_used fs).
Proof.
  intros H. rewrite Forall_forall in *. intros f Hin. apply in_map_iff in Hin.
  destruct Hin as (g & <- & Hg). apply (H g Hg).
Qed.

Lemma mp_attempts_retries form : forall n att fs,
  Forall replayable fs -> (1 <= att)%Z ->
  mp_attempts file_read detect n att form fs = (repeat (full_parts detect form fs) n, false).
Proof.
  induction n as [|n IH]; intros att fs Hr Ha; cbn [mp_attempts repeat]; [reflexivity|].
  rewrite mp_pass_retry by assumption.
  unfold mp_pass at 1 2. cbn [snd]. rewrite IH; [|apply replayable_mark_used, Hr|lia].
  cbn [fst snd]. rewrite full_parts_mark_used. reflexivity.
Qed.

(* with replayable sources EVERY attempt carries the same parts - all fields, all files
   complete - and no attempt is refused, for every number of attempts *)
Theorem upload_attempts_identical form fs n :
  Forall replayable fs -> Forall unused fs ->
  mp_attempts file_read detect n 0 form fs = (repeat (full_parts detect form fs) n, false).
Proof.
  intros Hr Hu. destruct n as [|n]; [reflexivity|]. cbn [mp_attempts repeat].
  rewrite upload_first_complete by exact Hu.
  unfold mp_pass at 1 2. cbn [snd].
  rewrite mp_attempts_retries; [|apply replayable_mark_used, Hr|lia].
  cbn [fst snd]. rewrite full_parts_mark_used. reflexivity.
Qed.

(* a source that cannot be rewound (bytes.Buffer, an os.File closed after the first attempt):
   the first attempt is complete, the retry is refused - nothing partial is sent *)
Theorem upload_one_shot_ends_retries param name kind content :
  kind = FPlainReader \/ kind = FOsFile ->
  mp_attempts file_read detect 2 0 [] [mkFile param name kind content false] =
  ([[PFile param name (detect (pad512 content)) content]], true).
Proof. intros [-> | ->]; reflexivity. Qed.

(* SetFileReader as pinned: the drained reader is uploaded again as a zero-length file *)
Theorem upload_reader_pinned_refuted param name kind content :
  kind = FSeekReader \/ kind = FPlainReader ->
  mp_attempts file_read_pinned detect 2 0 [] [mkFile param name kind content false] =
  ([[PFile param name (detect (pad512 content)) content]; [PFile param name (detect (pad512 [])) []]], false).
Proof. intros [-> | ->]; reflexivity. Qed.

End UploadProofs.

Example upload_attempts_identical_nonvacuous :
  mp_attempts file_read (fun _ => bs "application/octet-stream") 3 0 [(bs "f", [bs "1"])]
    [mkFile (bs "file") (bs "a.txt") FPath (bs "hello") false;
     mkFile (bs "doc") (bs "b.bin") FSeekReader (bs "b") false] =
  (repeat [PField (bs "f") (bs "1");
           PFile (bs "file") (bs "a.txt") (bs "application/octet-stream") (bs "hello");
           PFile (bs "doc") (bs "b.bin") (bs "application/octet-stream") (bs "b")] 3, false).
Proof. vm_compute. reflexivity. Qed.
