(* Proofs/UrlProofs.v - lemmas about Model/Url.v (C01) *)
From ReqV Require Import Lib.Bytes Lib.BytesFacts Model.Url.
From Coq Require Import Lia Permutation.

(* ---------- escaping is invertible ---------- *)
Lemma unescape_escape_byte : forall m c rest,
  unescape m (escape_byte m c ++ rest) =
  match unescape m rest with Some t => Some (c :: t) | None => None end.
Proof. intros m c rest. destruct m; destruct c; reflexivity. Qed.

Theorem unescape_escape : forall m v, unescape m (escape m v) = Some v.
Proof.
  intros m v. unfold escape. induction v as [|c v IH]; [reflexivity|].
  cbn [flat_map]. rewrite unescape_escape_byte, IH. reflexivity.
Qed.

(* ---------- escaped text is inert ---------- *)
(* no separator of the URL grammar, no brace, no blank, no control byte, ASCII only *)
Definition path_inert (c : byte) : bool :=
  negb (in_str c "/?#{} ;,") && negb (is_ctl c) && (bN c <? 128)%N.
Definition query_inert (c : byte) : bool :=
  negb (in_str c "&=;#?/ {}") && negb (is_ctl c) && (bN c <? 128)%N.

Lemma forallb_flat_map {A B} (P : B -> bool) (f : A -> list B) l :
  (forall x, forallb P (f x) = true) -> forallb P (flat_map f l) = true.
Proof.
  intros H. induction l as [|x l IH]; [reflexivity|].
  cbn [flat_map]. rewrite forallb_app, H, IH. reflexivity.
Qed.

Theorem path_escape_inert_bytes : forall v, forallb path_inert (path_escape v) = true.
Proof. intros v. apply forallb_flat_map. intros c. destruct c; reflexivity. Qed.

Theorem query_escape_inert_bytes : forall v, forallb query_inert (query_escape v) = true.
Proof. intros v. apply forallb_flat_map. intros c. destruct c; reflexivity. Qed.

Lemma forallb_not_mem (P : byte -> bool) c s :
  P c = false -> forallb P s = true -> mem_byte c s = false.
Proof.
  intros Hc Hs. apply mem_byte_false_In. intros Hin.
  rewrite forallb_forall in Hs. specialize (Hs _ Hin). congruence.
Qed.

Lemma path_escape_no (c : byte) v : path_inert c = false -> mem_byte c (path_escape v) = false.
Proof. intros H. eapply forallb_not_mem; [exact H|apply path_escape_inert_bytes]. Qed.

Lemma query_escape_no (c : byte) v : query_inert c = false -> mem_byte c (query_escape v) = false.
Proof. intros H. eapply forallb_not_mem; [exact H|apply query_escape_inert_bytes]. Qed.

Lemma path_escape_brace_free v : brace_free (path_escape v) = true.
Proof.
  unfold brace_free. rewrite (path_escape_no lbrace), (path_escape_no rbrace); reflexivity.
Qed.

Theorem path_escape_inert : forall v,
  unescape EPathSeg (path_escape v) = Some v /\ forallb path_inert (path_escape v) = true.
Proof. intros v. split; [apply unescape_escape|apply path_escape_inert_bytes]. Qed.

(* ---------- strings.Replace ---------- *)
Lemma repl_skip : forall old new a rest,
  repl_go old new (length a) (a ++ rest) = repl_go old new 0 rest.
Proof. intros old new a. induction a as [|x a IH]; intros rest; [reflexivity|]. cbn. apply IH. Qed.

Lemma repl_lit : forall k new s rest, mem_byte lbrace s = false ->
  repl_go (placeholder k) new 0 (s ++ rest) = s ++ repl_go (placeholder k) new 0 rest.
Proof.
  intros k new s rest H. induction s as [|c s IH]; [reflexivity|].
  rewrite mem_byte_cons in H. apply orb_false_iff in H as [H1 H2].
  cbn [app repl_go]. unfold placeholder at 1. cbn [has_prefix]. fold (placeholder k).
  rewrite H1. cbn [andb]. f_equal. apply IH. assumption.
Qed.

Lemma brace_free_l s : brace_free s = true -> mem_byte lbrace s = false.
Proof. unfold brace_free. intros H. apply andb_true_iff in H as [H _]. apply negb_true_iff in H. exact H. Qed.
Lemma brace_free_r s : brace_free s = true -> mem_byte rbrace s = false.
Proof. unfold brace_free. intros H. apply andb_true_iff in H as [_ H]. apply negb_true_iff in H. exact H. Qed.

Lemma has_prefix_key_r : forall k k' rest, mem_byte rbrace k = false -> mem_byte rbrace k' = false ->
  has_prefix (k ++ [rbrace]) (k' ++ rbrace :: rest) = bytes_eqb k k'.
Proof.
  induction k as [|x k IH]; intros k' rest Hk Hk'.
  - destruct k' as [|y k']; cbn [app has_prefix bytes_eqb]; [rewrite beqb_refl; reflexivity|].
    rewrite mem_byte_cons in Hk'. apply orb_false_iff in Hk' as [Hy _]. rewrite Hy. reflexivity.
  - rewrite mem_byte_cons in Hk. apply orb_false_iff in Hk as [Hx Hk].
    destruct k' as [|y k']; cbn [app has_prefix bytes_eqb].
    + rewrite beqb_sym, Hx. reflexivity.
    + rewrite mem_byte_cons in Hk'. apply orb_false_iff in Hk' as [_ Hk'].
      rewrite IH by assumption. reflexivity.
Qed.

Lemma has_prefix_key : forall k k' rest, brace_free k = true -> brace_free k' = true ->
  has_prefix (k ++ [rbrace]) (k' ++ rbrace :: rest) = bytes_eqb k k'.
Proof. intros. apply has_prefix_key_r; apply brace_free_r; assumption. Qed.

Lemma repl_hit : forall o old' new rest,
  repl_go (o :: old') new 0 ((o :: old') ++ rest) = new ++ repl_go (o :: old') new 0 rest.
Proof.
  intros o old' new rest. cbn [app repl_go].
  change (o :: old' ++ rest) with ((o :: old') ++ rest). rewrite has_prefix_refl_app.
  f_equal. replace (length (o :: old') - 1) with (length old') by (cbn [length]; lia).
  apply repl_skip.
Qed.

Lemma repl_miss : forall old new c r, has_prefix old (c :: r) = false ->
  repl_go old new 0 (c :: r) = c :: repl_go old new 0 r.
Proof. intros old new c r H. cbn [repl_go]. rewrite H. reflexivity. Qed.

Lemma repl_hole_hit : forall k new rest,
  repl_go (placeholder k) new 0 (placeholder k ++ rest) = new ++ repl_go (placeholder k) new 0 rest.
Proof. intros. unfold placeholder. apply repl_hit. Qed.

Lemma repl_hole_miss : forall k k' new rest, brace_free k = true -> brace_free k' = true ->
  bytes_eqb k k' = false ->
  repl_go (placeholder k) new 0 (placeholder k' ++ rest) =
  placeholder k' ++ repl_go (placeholder k) new 0 rest.
Proof.
  intros k k' new rest Hk Hk' Hne.
  assert (E : placeholder k' ++ rest = lbrace :: k' ++ rbrace :: rest).
  { unfold placeholder. cbn [app]. rewrite <- app_assoc. reflexivity. }
  rewrite E. rewrite repl_miss.
  - rewrite repl_lit by (apply brace_free_l; assumption).
    rewrite repl_miss by reflexivity.
    unfold placeholder. cbn [app]. rewrite <- app_assoc. reflexivity.
  - unfold placeholder. cbn [has_prefix]. rewrite beqb_refl. cbn [andb].
    rewrite has_prefix_key by assumption. exact Hne.
Qed.

(* one replacement pass at the token level *)
Definition step_tok (k new : bytes) (t : ttok) : ttok :=
  match t with
  | THole k' => if bytes_eqb k k' then TLit new else t
  | TLit _ => t
  end.

Lemma replace_tokens : forall k new ts, brace_free k = true -> forallb wf_tok ts = true ->
  replace_all (placeholder k) new (render_toks ts) = render_toks (map (step_tok k new) ts).
Proof.
  intros k new ts Hk. unfold replace_all, render_toks.
  induction ts as [|t ts IH]; intros Hts; [reflexivity|].
  cbn [forallb] in Hts. apply andb_true_iff in Hts as [Ht Hts]. specialize (IH Hts).
  cbn [map concat]. destruct t as [s|k']; cbn [tok_text step_tok wf_tok] in *.
  - rewrite repl_lit, IH; [reflexivity|].
    unfold brace_free in Ht. apply andb_true_iff in Ht as [H _]. apply negb_true_iff in H. exact H.
  - destruct (bytes_eqb k k') eqn:E.
    + apply bytes_eqb_eq in E. subst k'. rewrite repl_hole_hit, IH. reflexivity.
    + rewrite repl_hole_miss, IH by assumption. reflexivity.
Qed.

Lemma step_tok_wf k v t : wf_tok t = true -> wf_tok (step_tok k (path_escape v) t) = true.
Proof.
  destruct t as [s|k']; cbn; [auto|]. destruct (bytes_eqb k k'); cbn; [intros _; apply path_escape_brace_free|auto].
Qed.

Lemma bytes_eqb_sym a b : bytes_eqb a b = bytes_eqb b a.
Proof.
  destruct (bytes_eqb a b) eqn:E.
  - apply bytes_eqb_eq in E. subst. symmetry. apply bytes_eqb_refl.
  - symmetry. apply bytes_eqb_neq. apply bytes_eqb_neq in E. congruence.
Qed.

Lemma fill_step k v r t :
  fill ((k, v) :: r) t = fill r (step_tok k (path_escape v) t).
Proof.
  destruct t as [s|k']; cbn [fill step_tok lookup]; [reflexivity|].
  destruct (bytes_eqb k k'); reflexivity.
Qed.

(* the closed form of the substitution: every token is filled from the first binding of its key;
   text without a binding stays as written *)
Theorem subst_closed_form : forall kvs ts,
  forallb wf_tok ts = true -> forallb (fun kv => brace_free (fst kv)) kvs = true ->
  subst_params (render_toks ts) kvs = concat (map (fill kvs) ts).
Proof.
  induction kvs as [|[k v] r IH]; intros ts Hts Hk.
  - reflexivity.
  - cbn [forallb fst] in Hk. apply andb_true_iff in Hk as [Hk Hr].
    cbn [subst_params]. rewrite replace_tokens by assumption.
    rewrite IH; [|rewrite forallb_forall; intros t' Hin; apply in_map_iff in Hin as [t [<- Hin]];
                   apply step_tok_wf; rewrite forallb_forall in Hts; auto|assumption].
    rewrite map_map. f_equal. apply map_ext. intros t. symmetry. apply fill_step.
Qed.

(* ---------- consequences ---------- *)
Lemma lookup_app k a b :
  lookup k (a ++ b) = match lookup k a with Some v => Some v | None => lookup k b end.
Proof.
  induction a as [|[k' v] a IH]; [reflexivity|]. cbn [app lookup].
  destruct (bytes_eqb k' k); [reflexivity|apply IH].
Qed.

Lemma lookup_some_in k v l : lookup k l = Some v -> In (k, v) l.
Proof.
  induction l as [|[k' v'] l IH]; cbn [lookup]; [discriminate|].
  destruct (bytes_eqb k' k) eqn:E.
  - intros [= <-]. apply bytes_eqb_eq in E. subst. left. reflexivity.
  - intros H. right. auto.
Qed.

Lemma lookup_none_notin k l : lookup k l = None -> ~ In k (map fst l).
Proof.
  induction l as [|[k' v'] l IH]; cbn [lookup map fst]; [intros _ []|].
  destruct (bytes_eqb k' k) eqn:E; [discriminate|].
  intros H [->|Hin]; [rewrite bytes_eqb_refl in E; discriminate|]. apply IH; assumption.
Qed.

Lemma in_nodup_lookup k v l : NoDup (map fst l) -> In (k, v) l -> lookup k l = Some v.
Proof.
  induction l as [|[k' v'] l IH]; intros Hnd Hin; [destruct Hin|].
  cbn [map fst] in Hnd. inversion Hnd as [|? ? Hni Hnd']; subst.
  cbn [lookup]. destruct Hin as [[= -> ->]|Hin].
  - rewrite bytes_eqb_refl. reflexivity.
  - destruct (bytes_eqb k' k) eqn:E.
    + apply bytes_eqb_eq in E. subst. exfalso. apply Hni. apply in_map_iff. exists (k, v). auto.
    + auto.
Qed.

Lemma lookup_perm k l l' : NoDup (map fst l) -> Permutation l l' -> lookup k l = lookup k l'.
Proof.
  intros Hnd Hp.
  assert (Hnd' : NoDup (map fst l')).
  { eapply Permutation_NoDup; [apply Permutation_map; exact Hp|exact Hnd]. }
  destruct (lookup k l) eqn:E.
  - symmetry. apply in_nodup_lookup; [assumption|]. eapply Permutation_in; [exact Hp|].
    apply lookup_some_in. assumption.
  - destruct (lookup k l') eqn:E'; [|reflexivity].
    apply lookup_some_in in E'. apply lookup_none_notin in E. exfalso. apply E.
    apply in_map_iff. exists (k, b). split; [reflexivity|].
    eapply Permutation_in; [apply Permutation_sym; exact Hp|assumption].
Qed.

(* Go ranges over the parameter map in an unspecified order: every order gives the same URL *)
Theorem subst_order_irrelevant : forall ts kvs kvs',
  forallb wf_tok ts = true -> forallb (fun kv => brace_free (fst kv)) kvs = true ->
  NoDup (map fst kvs) -> Permutation kvs kvs' ->
  subst_params (render_toks ts) kvs' = subst_params (render_toks ts) kvs.
Proof.
  intros ts kvs kvs' Hts Hk Hnd Hp.
  assert (Hk' : forallb (fun kv => brace_free (fst kv)) kvs' = true).
  { rewrite forallb_forall in *. intros x Hx. apply Hk. eapply Permutation_in; [apply Permutation_sym; exact Hp|exact Hx]. }
  rewrite !subst_closed_form by assumption. f_equal. apply map_ext. intros t.
  destruct t as [s|k]; cbn [fill]; [reflexivity|]. rewrite (lookup_perm k kvs kvs') by assumption. reflexivity.
Qed.

(* request-level parameters are replaced first: they win over the client's, in every order of
   either map *)
Theorem subst_request_wins : forall ts rp cp rp' cp',
  forallb wf_tok ts = true ->
  forallb (fun kv => brace_free (fst kv)) rp = true -> forallb (fun kv => brace_free (fst kv)) cp = true ->
  NoDup (map fst rp) -> NoDup (map fst cp) -> Permutation rp rp' -> Permutation cp cp' ->
  subst_params (render_toks ts) (rp' ++ cp') =
  concat (map (fun t => match t with
                        | TLit s => s
                        | THole k => match lookup k rp with
                                     | Some v => path_escape v
                                     | None => match lookup k cp with
                                               | Some v => path_escape v
                                               | None => placeholder k
                                               end
                                     end
                        end) ts).
Proof.
  intros ts rp cp rp' cp' Hts Hr Hc Hnr Hnc Hpr Hpc.
  assert (Hk : forallb (fun kv => brace_free (fst kv)) (rp' ++ cp') = true).
  { rewrite forallb_app. apply andb_true_iff. split; rewrite forallb_forall in *; intros x Hx.
    - apply Hr. eapply Permutation_in; [apply Permutation_sym; exact Hpr|exact Hx].
    - apply Hc. eapply Permutation_in; [apply Permutation_sym; exact Hpc|exact Hx]. }
  rewrite subst_closed_form by assumption. f_equal. apply map_ext. intros t.
  destruct t as [s|k]; cbn [fill]; [reflexivity|].
  rewrite lookup_app, <- (lookup_perm k rp rp'), <- (lookup_perm k cp cp') by assumption.
  destruct (lookup k rp); [reflexivity|]. destruct (lookup k cp); reflexivity.
Qed.

(* ---------- structure: a value never adds a separator ---------- *)
Lemma count_byte_app c a b : count_byte c (a ++ b) = count_byte c a + count_byte c b.
Proof. unfold count_byte. rewrite filter_app, app_length. reflexivity. Qed.

Lemma count_byte_zero c s : mem_byte c s = false -> count_byte c s = 0.
Proof.
  unfold count_byte. induction s as [|x s IH]; [reflexivity|].
  rewrite mem_byte_cons. intros H. apply orb_false_iff in H as [H1 H2].
  cbn [filter]. rewrite H1. auto.
Qed.

Lemma count_byte_concat c l l' :
  Forall2 (fun a b => count_byte c a = count_byte c b) l l' ->
  count_byte c (concat l) = count_byte c (concat l').
Proof. induction 1; [reflexivity|]. cbn [concat]. rewrite !count_byte_app. lia. Qed.

Definition hole_keys_free (c : byte) (ts : list ttok) : bool :=
  forallb (fun t => match t with THole k => negb (mem_byte c k) | TLit _ => true end) ts.

(* substituting ANY values leaves the number of '/', '?' and '#' of the template unchanged *)
Theorem subst_preserves_structure : forall c ts kvs,
  path_inert c = false -> c <> lbrace -> c <> rbrace ->
  forallb wf_tok ts = true -> forallb (fun kv => brace_free (fst kv)) kvs = true ->
  hole_keys_free c ts = true ->
  count_byte c (subst_params (render_toks ts) kvs) = count_byte c (render_toks ts).
Proof.
  intros c ts kvs Hc Hl Hr Hts Hk Hfree. rewrite subst_closed_form by assumption.
  unfold render_toks. apply count_byte_concat.
  unfold hole_keys_free in Hfree. rewrite forallb_forall in Hfree.
  induction ts as [|t ts IH]; [constructor|]. cbn [map]. constructor.
  - destruct t as [s|k]; cbn [fill tok_text]; [reflexivity|].
    destruct (lookup k kvs) as [v|]; [|reflexivity].
    rewrite (count_byte_zero c (path_escape v)) by (apply path_escape_no; exact Hc).
    symmetry. apply count_byte_zero. unfold placeholder. rewrite mem_byte_cons, mem_byte_app.
    specialize (Hfree (THole k) (or_introl eq_refl)). cbn in Hfree. apply negb_true_iff in Hfree.
    rewrite Hfree. cbn [mem_byte existsb orb].
    apply beqb_neq in Hl. apply beqb_neq in Hr. rewrite Hl, Hr. reflexivity.
  - apply IH; [cbn [forallb] in Hts; apply andb_true_iff in Hts as [_ H]; exact H|].
    intros x Hx. apply Hfree. right. exact Hx.
Qed.

(* ---------- the repaired EscapedPath: RawPath stays authoritative ---------- *)
Lemma keep_byte_valid c : forallb (valid_encoded_byte EPath) (keep_byte c) = true.
Proof. destruct c; reflexivity. Qed.

Lemma keep_valid rp : valid_encoded EPath (keep_path_escapes rp) = true.
Proof. apply forallb_flat_map. apply keep_byte_valid. Qed.

Lemma keep_byte_plain c rest : c <> "%"%byte ->
  unescape EPath (keep_byte c ++ rest) =
  match unescape EPath rest with Some t => Some (c :: t) | None => None end.
Proof. intros H. destruct c; try reflexivity. contradiction. Qed.

Lemma unescape_plain c rest : c <> "%"%byte ->
  unescape EPath (c :: rest) =
  match unescape EPath rest with Some t => Some (c :: t) | None => None end.
Proof. intros H. destruct c; try reflexivity. contradiction. Qed.

Lemma keep_byte_hex c n : hex_val c = Some n -> keep_byte c = [c].
Proof. destruct c; try discriminate; reflexivity. Qed.

Lemma keep_byte_nonhex c : hex_val c = None ->
  exists x t, keep_byte c = x :: t /\ hex_val x = None.
Proof. destruct c; try discriminate; intros _; do 2 eexists; (split; [reflexivity|reflexivity]). Qed.

Lemma unescape_bad1 m x l : hex_val x = None -> unescape m ("%"%byte :: x :: l) = None.
Proof. intros H. destruct l; cbn; [reflexivity|]. rewrite H. reflexivity. Qed.

Lemma unescape_bad2 m h y l : hex_val y = None -> unescape m ("%"%byte :: h :: y :: l) = None.
Proof. intros H. cbn. rewrite H. destruct (hex_val h); reflexivity. Qed.

Lemma keep_unescape_len : forall n rp, length rp <= n ->
  unescape EPath (keep_path_escapes rp) = unescape EPath rp.
Proof.
  unfold keep_path_escapes.
  induction n as [|n IH]; intros rp Hlen.
  - destruct rp; [reflexivity|cbn in Hlen; lia].
  - destruct rp as [|c r]; [reflexivity|]. cbn [length] in Hlen.
    destruct (Byte.byte_eq_dec c "%"%byte) as [->|Hne].
    + cbn [flat_map]. change (keep_byte "%"%byte) with ["%"%byte]. cbn [app].
      destruct r as [|h1 r]; [reflexivity|].
      destruct (hex_val h1) as [a|] eqn:E1.
      * cbn [flat_map]. rewrite (keep_byte_hex _ _ E1). cbn [app].
        destruct r as [|h2 r]; [reflexivity|].
        destruct (hex_val h2) as [b|] eqn:E2.
        -- cbn [flat_map]. rewrite (keep_byte_hex _ _ E2). cbn [app].
           cbn [unescape]. change (beqb "%"%byte "%"%byte) with true. cbn iota.
           rewrite E1, E2. rewrite IH by (cbn [length] in Hlen; lia). reflexivity.
        -- rewrite (unescape_bad2 EPath h1 h2 r E2).
           cbn [flat_map]. destruct (keep_byte_nonhex _ E2) as (x & t & -> & Hx).
           cbn [app]. apply unescape_bad2. exact Hx.
      * rewrite (unescape_bad1 EPath h1 r E1).
        cbn [flat_map]. destruct (keep_byte_nonhex _ E1) as (x & t & -> & Hx).
        cbn [app]. apply unescape_bad1. exact Hx.
    + cbn [flat_map]. rewrite keep_byte_plain, unescape_plain by assumption.
      rewrite IH by lia. reflexivity.
Qed.

Lemma keep_unescape rp : unescape EPath (keep_path_escapes rp) = unescape EPath rp.
Proof. apply (keep_unescape_len (length rp)). lia. Qed.

Lemma keep_count_slash rp : count_byte "/"%byte (keep_path_escapes rp) = count_byte "/"%byte rp.
Proof.
  unfold keep_path_escapes. induction rp as [|c r IH]; [reflexivity|].
  cbn [flat_map]. rewrite count_byte_app, IH.
  change (c :: r) with ([c] ++ r). rewrite count_byte_app. f_equal.
  destruct c; reflexivity.
Qed.

Lemma keep_nonempty rp : rp <> [] -> keep_path_escapes rp <> [].
Proof. destruct rp as [|c r]; [congruence|]. intros _. destruct c; discriminate. Qed.

Lemma opt_bytes_eqb_refl o : opt_bytes_eqb o o = true.
Proof. destruct o; [apply bytes_eqb_refl|reflexivity]. Qed.

(* For every path text p that url.Parse accepts: what parseURLKeepEscapes + URL.EscapedPath put on
   the wire decodes to the same path and has exactly the separators of p - the percent-escapes the
   caller (or PathEscape) wrote are never undone, whatever else the text contains. *)
Theorem escaped_path_keeps_text : forall p path rp,
  set_path p = Some (path, rp) ->
  let e := escaped_path_of path (keep_path_escapes rp) in
  unescape EPath e = Some path /\ count_byte "/"%byte e = count_byte "/"%byte p.
Proof.
  intros p path rp H. unfold set_path in H.
  destruct (unescape EPath p) as [path'|] eqn:Eu; [|discriminate].
  destruct (bytes_eqb (escape EPath path') p) eqn:Ee; inversion H; subst path' rp; clear H.
  - (* default encoding is the text itself *)
    apply bytes_eqb_eq in Ee. cbn zeta. unfold escaped_path_of. cbn [keep_path_escapes flat_map bytes_eqb negb andb].
    destruct (bytes_eqb path (bs "*")) eqn:Es.
    + apply bytes_eqb_eq in Es. subst path. subst p. split; reflexivity.
    + rewrite Ee. split; [exact Eu|reflexivity].
  - cbn zeta. unfold escaped_path_of.
    assert (Hne : p <> []).
    { intros ->. cbn in Eu. inversion Eu; subst. discriminate. }
    rewrite keep_valid, keep_unescape, Eu, opt_bytes_eqb_refl.
    destruct (bytes_eqb (keep_path_escapes p) []) eqn:En.
    + apply bytes_eqb_eq in En. exfalso. apply (keep_nonempty p Hne En).
    + cbn [negb andb]. rewrite keep_unescape, keep_count_slash. split; [exact Eu|reflexivity].
Qed.

(* the pinned code (RawPath left as parsed) loses an escaped separator *)
Theorem escaped_path_pinned_refuted :
  exists p path rp, set_path p = Some (path, rp) /\
    count_byte "/"%byte (escaped_path_of path rp) <> count_byte "/"%byte p.
Proof.
  exists (bs "/a b/..%2Fadmin"), (bs "/a b/../admin"), (bs "/a b/..%2Fadmin").
  split; [reflexivity|]. vm_compute. discriminate.
Qed.

(* ---------- query ---------- *)
Lemma split_byte_cons_shape c s : exists f fs, split_byte c s = f :: fs.
Proof.
  induction s as [|x s (f & fs & IH)]; cbn [split_byte]; [eauto|].
  rewrite IH. destruct (beqb x c); eauto.
Qed.

Lemma split_byte_none c x : mem_byte c x = false -> split_byte c x = [x].
Proof.
  induction x as [|a x IH]; [reflexivity|]. rewrite mem_byte_cons. intros H.
  apply orb_false_iff in H as [H1 H2]. cbn [split_byte]. rewrite IH by assumption.
  rewrite beqb_sym, H1. reflexivity.
Qed.

Lemma split_byte_app c x s : mem_byte c x = false ->
  split_byte c (x ++ c :: s) = x :: split_byte c s.
Proof.
  induction x as [|a x IH]; intros H.
  - cbn [app split_byte]. destruct (split_byte_cons_shape c s) as (f & fs & ->).
    rewrite beqb_refl. reflexivity.
  - rewrite mem_byte_cons in H. apply orb_false_iff in H as [H1 H2].
    cbn [app split_byte]. rewrite IH by assumption. rewrite beqb_sym, H1. reflexivity.
Qed.

Lemma split_join c pieces : pieces <> [] -> (forall p, In p pieces -> mem_byte c p = false) ->
  split_byte c (join_with [c] pieces) = pieces.
Proof.
  induction pieces as [|x r IH]; [congruence|]. intros _ H.
  destruct r as [|y r].
  - cbn [join_with]. apply split_byte_none. apply H. left. reflexivity.
  - change (join_with [c] (x :: y :: r)) with (x ++ [c] ++ join_with [c] (y :: r)).
    cbn [app]. rewrite split_byte_app by (apply H; left; reflexivity).
    f_equal. apply IH; [discriminate|]. intros p Hp. apply H. right. exact Hp.
Qed.

Lemma skipn_S_app {A} (a : list A) c b : skipn (S (length a)) (a ++ c :: b) = b.
Proof. induction a as [|x a IH]; [reflexivity|]. cbn [length app]. exact IH. Qed.

Lemma parse_pair_text k v : parse_pair (pair_text k v) = Some (k, v).
Proof.
  unfold parse_pair, pair_text, cut_at.
  rewrite index_byte_app_hit by (apply query_escape_no; reflexivity).
  rewrite firstn_app_exact, skipn_S_app.
  unfold query_escape. rewrite !unescape_escape. reflexivity.
Qed.

Lemma pair_text_no_amp k v : mem_byte "&"%byte (pair_text k v) = false.
Proof.
  unfold pair_text. rewrite mem_byte_app, mem_byte_cons.
  rewrite !(query_escape_no "&"%byte) by reflexivity. reflexivity.
Qed.

Lemma all_some_map_parse ps :
  all_some (map parse_pair (map (fun p => pair_text (fst p) (snd p)) ps)) = Some ps.
Proof.
  induction ps as [|[k v] ps IH]; [reflexivity|].
  cbn [map fst snd all_some]. rewrite parse_pair_text, IH. reflexivity.
Qed.

(* whatever the keys and values are (reserved bytes, '&', '=', '+', '%', blanks, non-UTF-8, empty,
   repeated keys): a server splitting the encoded query at '&' and '=' reads back exactly the
   pairs, ordered by key *)
Theorem query_roundtrip : forall m,
  parse_query (encode_values m) = Some (flat_pairs (sort_keys m)).
Proof.
  intros m. unfold encode_values, parse_query.
  set (ps := flat_pairs (sort_keys m)).
  destruct ps as [|p0 ps'] eqn:E; [reflexivity|].
  rewrite <- E.
  assert (Hsplit : split_byte "&"%byte (join_with (bs "&") (map (fun p => pair_text (fst p) (snd p)) ps))
                   = map (fun p => pair_text (fst p) (snd p)) ps).
  { apply (split_join "&"%byte); [rewrite E; discriminate|].
    intros p Hp. apply in_map_iff in Hp as (q & <- & _). apply pair_text_no_amp. }
  destruct (join_with (bs "&") (map (fun p => pair_text (fst p) (snd p)) ps)) as [|b s] eqn:Ej.
  - (* the joined text cannot be empty: every pair holds an '=' *)
    exfalso. rewrite E in Hsplit. cbn [map split_byte] in Hsplit.
    inversion Hsplit as [Hs]. unfold pair_text in Hs. destruct (query_escape (fst p0)); discriminate.
  - rewrite Hsplit. apply all_some_map_parse.
Qed.

Lemma in_flat_pairs k v (m : values) :
  In (k, v) (flat_pairs m) <-> exists vs, In (k, vs) m /\ In v vs.
Proof.
  unfold flat_pairs. rewrite in_flat_map. split.
  - intros ([k' vs] & Hin & Hv). cbn [fst snd] in Hv. apply in_map_iff in Hv as (v' & [= -> ->] & Hv').
    exists vs. auto.
  - intros (vs & Hin & Hv). exists (k, vs). split; [exact Hin|]. cbn [fst snd].
    apply in_map_iff. exists v. auto.
Qed.

Lemma has_key_false_iff k (m : values) : has_key k m = false <-> forall vs, ~ In (k, vs) m.
Proof.
  unfold has_key. split.
  - intros H vs Hin. assert (existsb (fun kv => bytes_eqb (fst kv) k) m = true).
    { apply existsb_exists. exists (k, vs). split; [exact Hin|apply bytes_eqb_refl]. }
    congruence.
  - intros H. destruct (existsb _ m) eqn:E; [|reflexivity].
    apply existsb_exists in E as ([k' vs] & Hin & Hk). cbn [fst] in Hk. apply bytes_eqb_eq in Hk. subst.
    exfalso. eapply H. exact Hin.
Qed.

(* the merged parameters are the request's, plus the client's for the keys the request does not
   set - nothing else, nothing dropped *)
Theorem merge_query_spec : forall cq rq k v,
  In (k, v) (flat_pairs (merge_query cq rq)) <->
  In (k, v) (flat_pairs rq) \/ (has_key k rq = false /\ In (k, v) (flat_pairs cq)).
Proof.
  intros cq rq k v. unfold merge_query. rewrite !in_flat_pairs. split.
  - intros (vs & Hin & Hv). apply filter_In in Hin as [Hin _].
    apply in_app_iff in Hin as [Hin|Hin].
    + left. exists vs. auto.
    + apply filter_In in Hin as [Hin Hk]. cbn [fst] in Hk. apply negb_true_iff in Hk.
      right. split; [exact Hk|]. exists vs. auto.
  - intros [(vs & Hin & Hv)|(Hk & Hc)].
    + exists vs. split; [|exact Hv]. apply filter_In. split; [apply in_app_iff; left; exact Hin|].
      cbn [snd]. destruct vs; [destruct Hv|reflexivity].
    + destruct Hc as (vs & Hin & Hv). exists vs. split; [|exact Hv].
      apply filter_In. split.
      * apply in_app_iff. right. apply filter_In. split; [exact Hin|]. cbn [fst]. rewrite Hk. reflexivity.
      * cbn [snd]. destruct vs; [destruct Hv|reflexivity].
Qed.
