(* Proofs/BigEndianFacts.v - facts about Lib/BigEndian.v *)
From Coq Require Import Lia ZifyBool ZifyNat ZifyN.
From ReqV Require Import Lib.Bytes Lib.BigEndian.
Open Scope N_scope.

Lemma bN_lt b : bN b < 256.
Proof. unfold bN. pose proof (Byte.to_N_bounded b). lia. Qed.

Lemma bN_u8 n : bN (u8 n) = n mod 256.
Proof.
  unfold u8, byte_of_N_total, bN.
  destruct (Byte.of_N (n mod 256)) eqn:E.
  - apply Byte.to_of_N; exact E.
  - apply Byte.of_N_None_iff in E. pose proof (N.mod_lt n 256). lia.
Qed.

Lemma u8_bN b : u8 (bN b) = b.
Proof.
  unfold u8, byte_of_N_total, bN.
  rewrite N.mod_small by (pose proof (Byte.to_N_bounded b); lia).
  rewrite Byte.of_to_N. reflexivity.
Qed.

Lemma u8_mod n : u8 (n mod 256) = u8 n.
Proof. unfold u8. rewrite N.mod_mod by lia. reflexivity. Qed.

Lemma u8_small_inj a b : a < 256 -> b < 256 -> u8 a = u8 b -> a = b.
Proof.
  intros Ha Hb H. apply (f_equal bN) in H. rewrite !bN_u8 in H.
  rewrite !N.mod_small in H by assumption. exact H.
Qed.

Lemma length_be_enc k n : length (be_enc k n) = k.
Proof. induction k; cbn [be_enc length]; congruence. Qed.

Lemma be_dec_fold acc s :
  fold_left (fun a b => a * 256 + bN b) s acc = acc * 256 ^ N.of_nat (length s) + be_dec s.
Proof.
  unfold be_dec. revert acc. induction s as [|x s IH]; intro acc.
  - cbn. lia.
  - cbn [fold_left length]. rewrite IH. rewrite (IH (0 * 256 + bN x)).
    rewrite Nat2N.inj_succ, N.pow_succ_r'. lia.
Qed.

Lemma be_dec_cons x s : be_dec (x :: s) = bN x * 256 ^ N.of_nat (length s) + be_dec s.
Proof. unfold be_dec at 1. cbn [fold_left]. rewrite be_dec_fold. lia. Qed.

Lemma be_dec_nil : be_dec [] = 0.
Proof. reflexivity. Qed.

Lemma be_dec_app a b : be_dec (a ++ b) = be_dec a * 256 ^ N.of_nat (length b) + be_dec b.
Proof.
  unfold be_dec at 1. rewrite fold_left_app. fold (be_dec a). apply be_dec_fold.
Qed.

Lemma be_dec_lt s : be_dec s < 256 ^ N.of_nat (length s).
Proof.
  induction s as [|x s IH].
  - cbn. lia.
  - rewrite be_dec_cons. cbn [length]. rewrite Nat2N.inj_succ, N.pow_succ_r'.
    pose proof (bN_lt x). nia.
Qed.

Lemma pow256 k : 256 ^ k = 2 ^ (8 * k).
Proof. rewrite N.pow_mul_r. reflexivity. Qed.

Lemma be_dec_enc k n : be_dec (be_enc k n) = n mod 256 ^ N.of_nat k.
Proof.
  induction k as [|k IH].
  - cbn. rewrite N.mod_1_r. reflexivity.
  - cbn [be_enc]. rewrite be_dec_cons, IH, length_be_enc, bN_u8.
    rewrite N.shiftr_div_pow2, <- pow256.
    rewrite Nat2N.inj_succ, N.pow_succ_r'.
    set (p := 256 ^ N.of_nat k). assert (Hp : p <> 0) by (apply N.pow_nonzero; lia).
    rewrite (N.mul_comm 256 p). rewrite N.mod_mul_r by lia. lia.
Qed.

Lemma be_dec_enc_small k n : n < 256 ^ N.of_nat k -> be_dec (be_enc k n) = n.
Proof. intro H. rewrite be_dec_enc. apply N.mod_small. exact H. Qed.

Lemma be_enc_dec s : be_enc (length s) (be_dec s) = s.
Proof.
  induction s as [|x s IH].
  - reflexivity.
  - cbn [length be_enc]. rewrite be_dec_cons.
    assert (E1 : N.shiftr (bN x * 256 ^ N.of_nat (length s) + be_dec s) (8 * N.of_nat (length s)) = bN x).
    { rewrite N.shiftr_div_pow2, <- pow256.
      pose proof (be_dec_lt s).
      rewrite N.div_add_l by (apply N.pow_nonzero; lia).
      rewrite N.div_small by assumption. lia. }
    rewrite E1, u8_bN. f_equal.
    (* lower bytes only depend on the value mod 256^len *)
    assert (G : forall k a b, b < 256 ^ N.of_nat k -> be_enc k (a * 256 ^ N.of_nat k + b) = be_enc k b).
    { clear. induction k as [|k IH]; intros a b Hb.
      - reflexivity.
      - cbn [be_enc]. f_equal.
        + rewrite !N.shiftr_div_pow2, <- !pow256.
          rewrite Nat2N.inj_succ, N.pow_succ_r'.
          set (p := 256 ^ N.of_nat k) in *. assert (Hp : p <> 0) by (apply N.pow_nonzero; lia).
          replace (a * (256 * p) + b) with ((a * 256) * p + b) by lia.
          rewrite N.div_add_l by assumption.
          rewrite <- u8_mod. rewrite <- (u8_mod (b / p)). f_equal.
          rewrite N.add_comm, N.mod_add by lia. reflexivity.
        + rewrite Nat2N.inj_succ, N.pow_succ_r' in *.
          set (p := 256 ^ N.of_nat k) in *. assert (Hp : p <> 0) by (apply N.pow_nonzero; lia).
          rewrite (N.div_mod b p) at 2 by assumption.
          replace (a * (256 * p) + b) with ((a * 256 + b / p) * p + b mod p).
          2:{ rewrite (N.div_mod b p) at 3 by assumption. lia. }
          rewrite IH by (apply N.mod_lt; assumption).
          rewrite (N.mul_comm p (b / p)).
          rewrite IH by (apply N.mod_lt; assumption). reflexivity. }
    rewrite G by apply be_dec_lt. exact IH.
Qed.

Lemma be_enc_inj k a b : a < 256 ^ N.of_nat k -> b < 256 ^ N.of_nat k -> be_enc k a = be_enc k b -> a = b.
Proof.
  intros Ha Hb H. apply (f_equal be_dec) in H.
  rewrite !be_dec_enc_small in H by assumption. exact H.
Qed.

Lemma be_enc_mod k n : be_enc k (n mod 256 ^ N.of_nat k) = be_enc k n.
Proof.
  rewrite <- (be_dec_enc k n).
  rewrite <- (length_be_enc k n) at 1. apply be_enc_dec.
Qed.
