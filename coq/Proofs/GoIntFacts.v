(* Proofs/GoIntFacts.v - facts about explicit fixed-width wrap *)
From Coq Require Import ZArith Bool Lia ZifyBool.
From ReqV Require Import Lib.GoInt.
Open Scope Z_scope.

Ltac Zify.zify_post_hook ::= Z.div_mod_to_equations.

Lemma wrap32_id : forall z, in32 z -> wrap32 z = z.
Proof. unfold in32, wrap32. intros. lia. Qed.

Lemma wrap32_range : forall z, in32 (wrap32 z).
Proof. unfold in32, wrap32. intros. lia. Qed.

Lemma wrapu32_id : forall z, inu32 z -> wrapu32 z = z.
Proof. unfold inu32, wrapu32. intros. lia. Qed.

Lemma wrapu32_neg : forall z, -2147483648 <= z < 0 -> wrapu32 z = z + 4294967296.
Proof. unfold wrapu32. intros. lia. Qed.

Lemma wrap64_id : forall z, in64 z -> wrap64 z = z.
Proof. unfold in64, wrap64. intros. lia. Qed.

Lemma wrap32_over : forall z, 2147483647 < z <= 4294967295 -> wrap32 z = z - 4294967296.
Proof. unfold wrap32. intros. lia. Qed.

Lemma wrap32_under : forall z, -4294967296 <= z < -2147483648 -> wrap32 z = z + 4294967296.
Proof. unfold wrap32. intros. lia. Qed.

Lemma in32b_true : forall z, in32b z = true <-> in32 z.
Proof. unfold in32b, in32. intros. lia. Qed.

Lemma in32b_false : forall z, in32b z = false <-> ~ in32 z.
Proof. unfold in32b, in32. intros. lia. Qed.
