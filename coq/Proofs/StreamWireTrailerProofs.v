(* Proofs/StreamWireTrailerProofs.v - C03: HTTP/3 response stream = DATA frames followed by the
   trailer section (a HEADERS frame).  A stream that ends anywhere INSIDE the trailer frame -
   inside its type, inside its length, right behind its header (before the first byte of the
   field section) or inside the field section - is an error after the whole body, for every
   way of ending it; the complete stream reads back cleanly. *)
From ReqV Require Import Lib.Bytes Lib.BytesFacts Lib.BigEndian Model.BodyFraming Model.StreamBody
  Model.QuicVarint Model.StreamWire Proofs.QuicVarintProofs Proofs.StreamBodyProofs Proofs.StreamWireProofs.
From Coq Require Import Lia ZifyBool ZifyNat ZifyN.
Local Open Scope nat_scope.

Definition tr_render (lt ll : N) (tp : bytes) : bytes := vi_form lt 1 ++ vi_form ll (lenN tp) ++ tp.
Definition tr_wf (lt ll : N) (tp : bytes) : Prop :=
  vi_lenok lt /\ vi_lenok ll /\ (lenN tp < 2 ^ (8 * ll - 2))%N /\ tp <> [].

Lemma one_fits l : vi_lenok l -> (1 < 2 ^ (8 * l - 2))%N.
Proof. intros [->|[->|[->| ->]]]; reflexivity. Qed.

Definition rem_after (rem : option N) (n : N) : option N :=
  match rem with None => None | Some m => Some (m - n)%N end.

(* whole DATA frames whose payload the declared length admits, then anything *)
Lemma loop_frames_then : forall fs, Forall df_wf fs -> forall fu strict rem R e,
  (forall m, rem = Some m -> (lenN (h3_body fs) <= m)%N) ->
  h3_wire_loop (length fs + fu) strict rem false (h3_render fs ++ R) e =
  add_data (h3_body fs) (h3_wire_loop fu strict (rem_after rem (lenN (h3_body fs))) false R e).
Proof.
  induction fs as [|f fs IH]; intros W fu strict rem R e Hm.
  - cbn [length plus h3_render h3_body concat map app]. unfold add_data. cbn [app fst snd].
    destruct rem as [m|]; cbn [rem_after lenN length]; [rewrite N.sub_0_r|];
      destruct (h3_wire_loop fu strict _ false R e); reflexivity.
  - inversion W as [|? ? Wf Wfs]; subst.
    assert (Hm2 : forall m, rem = Some m -> (lenN (df_p f ++ h3_body fs) <= m)%N)
      by (intros m E; rewrite <- h3_body_cons; auto).
    clear Hm. rename Hm2 into Hm.
    rewrite h3_render_cons, h3_body_cons, <- app_assoc. cbn [length plus].
    rewrite loop_whole by assumption.
    assert (Lb : lenN (df_p f ++ h3_body fs) = (lenN (df_p f) + lenN (h3_body fs))%N)
      by (unfold lenN; rewrite app_length; lia).
    destruct (N.eqb_spec (lenN (df_p f)) 0) as [Z|Z].
    + assert (Ep : df_p f = []) by (destruct (df_p f); [reflexivity|unfold lenN in Z; cbn in Z; lia]).
      rewrite Ep in *. cbn [app] in *. apply IH; assumption.
    + destruct rem as [m|].
      * specialize (Hm m eq_refl). rewrite Lb in Hm.
        destruct (N.ltb_spec m (lenN (df_p f))); [lia|].
        rewrite IH; [|assumption|intros ? [= <-]; lia].
        cbn [rem_after]. rewrite Lb. unfold add_data. cbn [fst snd].
        replace (m - lenN (df_p f) - lenN (h3_body fs))%N with (m - (lenN (df_p f) + lenN (h3_body fs)))%N by lia.
        rewrite app_assoc. reflexivity.
      * rewrite IH; [|assumption|discriminate]. cbn [rem_after]. unfold add_data. cbn [fst snd].
        rewrite app_assoc. reflexivity.
Qed.

(* one step on a trailer frame cut short (at least one byte of it arrived) *)
Lemma loop_trailer_cut : forall lt ll tp fu strict rem j e, tr_wf lt ll tp ->
  0 < j < length (tr_render lt ll tp) ->
  h3_wire_loop (S fu) strict rem false (firstn j (tr_render lt ll tp)) e = ([], W3 (h3_end_inside strict e)).
Proof.
  intros lt ll tp fu strict rem j e (Lt & Ll & Hp & Hne) [J0 J]. unfold tr_render in *.
  rewrite !app_length, !vi_form_length in J.
  pose proof (lenok_pos _ Lt) as Plt. pose proof (lenok_pos _ Ll) as Pll.
  pose proof (one_fits _ Lt) as O1.
  destruct (Nat.lt_ge_cases j (N.to_nat lt)) as [J1|J1].
  { cbn [h3_wire_loop]. rewrite vi_read_cut by assumption.
    destruct (firstn j (vi_form lt 1 ++ vi_form ll (lenN tp) ++ tp)) eqn:E; [|reflexivity].
    exfalso. assert (L := firstn_length j (vi_form lt 1 ++ vi_form ll (lenN tp) ++ tp)).
    rewrite E, !app_length, !vi_form_length in L. cbn in L. lia. }
  rewrite firstn_app, (firstn_all2 (vi_form lt 1)) by (rewrite vi_form_length; lia).
  rewrite vi_form_length. cbn [h3_wire_loop]. rewrite vi_read_form by assumption.
  destruct (Nat.lt_ge_cases (j - N.to_nat lt) (N.to_nat ll)) as [J2|J2].
  { rewrite vi_read_cut by assumption. reflexivity. }
  rewrite firstn_app, (firstn_all2 (vi_form ll (lenN tp))) by (rewrite vi_form_length; lia).
  rewrite vi_form_length. rewrite vi_read_form by assumption.
  change (1 =? h3t_data)%N with false. change (1 =? h3t_headers)%N with true. cbv iota.
  set (j' := j - N.to_nat lt - N.to_nat ll) in *.
  assert (Hj' : j' < length tp) by lia.
  assert (E1 : firstn (N.to_nat (lenN tp)) (firstn j' tp) = firstn j' tp).
  { apply firstn_all2. rewrite firstn_length. unfold lenN. lia. }
  rewrite E1.
  assert (G : lenN (firstn j' tp) = N.of_nat j') by (unfold lenN; rewrite firstn_length; f_equal; lia).
  rewrite G. destruct (N.ltb_spec (N.of_nat j') (lenN tp)) as [_|C]; [reflexivity|unfold lenN in C; lia].
Qed.

Lemma h3_render_len : forall fs, Forall df_wf fs -> length fs <= length (h3_render fs).
Proof.
  induction 1 as [|f fs Wf _ IH]; [cbn; lia|].
  rewrite h3_render_cons, app_length. pose proof (df_render_len2 f Wf). cbn [length]. lia.
Qed.

(* the stream ends inside the trailer frame: an error after the whole body, however it ends *)
Theorem h3_trailer_cut_thm : forall fs lt ll tp cl j e, Forall df_wf fs -> tr_wf lt ll tp ->
  cl = None \/ cl = Some (lenN (h3_body fs)) ->
  0 < j < length (tr_render lt ll tp) ->
  h3_wire_read true cl (h3_render fs ++ firstn j (tr_render lt ll tp)) e =
    (h3_body fs, W3 (h3_end_inside true e)) /\
  h3_end_inside true e <> H3Clean.
Proof.
  intros fs lt ll tp cl j e W T Hcl J. split; [|apply end_inside_not_clean].
  unfold h3_wire_read.
  set (s := h3_render fs ++ firstn j (tr_render lt ll tp)).
  pose proof (h3_render_len fs W) as Lf.
  assert (Ls : length fs < S (length s)) by (unfold s; rewrite app_length; lia).
  replace (S (length s)) with (length fs + S (length s - length fs)) by lia.
  unfold s. rewrite loop_frames_then; [|assumption|].
  2:{ intros m E. destruct Hcl as [->| ->]; [discriminate|]. injection E as <-. lia. }
  rewrite loop_trailer_cut by assumption. unfold add_data. cbn [fst snd]. rewrite app_nil_r. reflexivity.
Qed.

(* the whole stream, trailer section included, reads back cleanly *)
Theorem h3_trailer_complete_thm : forall fs lt ll tp cl, Forall df_wf fs -> tr_wf lt ll tp ->
  cl = None \/ cl = Some (lenN (h3_body fs)) ->
  h3_wire_read true cl (h3_render fs ++ tr_render lt ll tp) EndFin = (h3_body fs, W3 H3Clean).
Proof.
  intros fs lt ll tp cl W (Lt & Ll & Hp & Hne) Hcl. unfold h3_wire_read.
  set (s := h3_render fs ++ tr_render lt ll tp).
  pose proof (h3_render_len fs W) as Lf.
  assert (Lt2 : 2 <= length (tr_render lt ll tp)).
  { unfold tr_render. rewrite !app_length, !vi_form_length.
    pose proof (lenok_pos _ Lt). pose proof (lenok_pos _ Ll). lia. }
  replace (S (length s)) with (length fs + S (S (length s - length fs - 1))) by (unfold s; rewrite app_length; lia).
  unfold s. rewrite loop_frames_then; [|assumption|].
  2:{ intros m E. destruct Hcl as [->| ->]; [discriminate|]. injection E as <-. lia. }
  unfold tr_render. cbn [h3_wire_loop]. rewrite vi_read_form by (auto using one_fits).
  rewrite vi_read_form by assumption.
  change (1 =? h3t_data)%N with false. change (1 =? h3t_headers)%N with true. cbv iota.
  assert (F : firstn (N.to_nat (lenN tp)) tp = tp) by (apply firstn_all2; unfold lenN; lia).
  assert (S0 : skipn (N.to_nat (lenN tp)) tp = []) by (apply skipn_all2; unfold lenN; lia).
  rewrite F, S0.
  rewrite N.ltb_irrefl. cbn [h3_wire_loop vi_read].
  unfold add_data. cbn [fst snd]. rewrite app_nil_r. f_equal. f_equal.
  destruct Hcl as [->| ->]; cbn [rem_after h3_end_boundary]; [reflexivity|].
  rewrite N.sub_diag. reflexivity.
Qed.
