(* Proofs/H2WakeProofs.v - a parked upload is parked only while its window is used up (C07) *)
From ReqV Require Import Lib.Bytes Model.H2Wake.
From Coq Require Import Lia ZifyBool.
Open Scope Z_scope.

(* parked means: bytes are left and the window has nothing for them *)
Definition winv (s : wstate) : Prop :=
  0 <= w_left s /\ (w_parked s = true -> 0 < w_left s /\ w_win s <= 0) /\ (w_parked s = false -> w_left s = 0).

Lemma writer_runs_inv s : 0 <= w_left s -> winv (writer_runs s).
Proof. intros H. unfold winv, writer_runs. cbn. repeat split; intros; lia. Qed.

Lemma wstep_inv s ev : winv s -> winv (wstep true s ev).
Proof.
  intros (H0 & H1 & H2). destruct ev; cbn [wstep orb]; apply writer_runs_inv; cbn; assumption.
Qed.

(* for EVERY sequence of WINDOW_UPDATE / SETTINGS / other wake-ups, every initial window and body
   size: whenever the writer sleeps, its window really is used up - no lost wake-up; and once the
   window has room the body moves on *)
Theorem no_lost_wakeup iws body evs :
  0 <= body -> winv (wrun true (wstart iws body) evs).
Proof.
  intros H. unfold wrun.
  assert (G : forall evs s, winv s -> winv (fold_left (wstep true) evs s)).
  { induction evs0 as [|ev r IH]; intros s Hs; cbn; [assumption|]. apply IH. now apply wstep_inv. }
  apply G. unfold wstart. now apply writer_runs_inv.
Qed.

(* a window opened by SETTINGS alone, wide enough for the rest of the body, finishes the upload *)
Theorem settings_open_finishes iws body v evs :
  0 <= body -> let s := wrun true (wstart iws body) evs in
  w_left s <= w_win s + (v - w_iws s) ->
  w_left (wstep true s (WSettingsIWS v)) = 0.
Proof.
  intros Hb s Hw. pose proof (no_lost_wakeup iws body evs Hb) as (H0 & _ & _). fold s in H0.
  cbn [wstep orb]. unfold writer_runs. cbn. lia.
Qed.

(* without the Broadcast on SETTINGS the writer sleeps on although the window is open *)
Theorem no_broadcast_on_settings_refuted :
  let s := wrun false (wstart 0 11) [WSettingsIWS 65535] in
  w_parked s = true /\ w_left s = 11 /\ w_win s = 65535 /\
  w_left (wrun true (wstart 0 11) [WSettingsIWS 65535]) = 0.
Proof. cbn. repeat split. Qed.
