(* Proofs/DecodeSessionProofs.v - several decoded bodies alive at once: what response i reads is a
   function of response i's own body and own operations (C14). *)
From ReqV Require Import Lib.Bytes Lib.BytesFacts Gen.CompressReaders Model.Decode Model.DecodeSession
  Proofs.DecodeProofs.
From Coq Require Import Lia.

(* ---------- lists ---------- *)

Lemma nth_error_set_nth {A} (v : A) : forall l i j,
  nth_error (set_nth i v l) j =
  if Nat.eqb j i then match nth_error l i with Some _ => Some v | None => None end
  else nth_error l j.
Proof.
  induction l as [|x t IH]; intros i j.
  - simpl. destruct (Nat.eqb j i); destruct i, j; reflexivity.
  - destruct i, j; simpl; try reflexivity. apply IH.
Qed.

Lemma nth_error_ext {A} : forall (l1 l2 : list A),
  (forall j, nth_error l1 j = nth_error l2 j) -> l1 = l2.
Proof.
  induction l1 as [|x t IH]; intros [|y u] H.
  - reflexivity.
  - specialize (H 0). discriminate.
  - specialize (H 0). discriminate.
  - pose proof (H 0) as H0. simpl in H0. injection H0 as ->. f_equal.
    apply IH. intro j. exact (H (S j)).
Qed.

Lemma nth_error_map' {A B} (f : A -> B) : forall l j,
  nth_error (map f l) j = option_map f (nth_error l j).
Proof. induction l as [|x t IH]; intros [|j]; simpl; auto. Qed.

Lemma set_nth_same {A} : forall (l : list A) i v, nth_error l i = Some v -> set_nth i v l = l.
Proof.
  induction l as [|x t IH]; intros [|i] v H; simpl in *; try discriminate.
  - now injection H as ->.
  - f_equal. now apply IH.
Qed.

(* ---------- the product of isolated readers ---------- *)

Definition prod_step (dec : codec) (o : nat * rop) (cs : list crd) : opres * list crd :=
  let '(i, op) := o in
  match nth_error cs i with
  | None => (([], StBadIndex), cs)
  | Some c => let '(x, c') := crd_step dec op c in (x, set_nth i c' cs)
  end.

Fixpoint prod_run (dec : codec) (ops : list (nat * rop)) (cs : list crd) : list opres * list crd :=
  match ops with
  | [] => ([], cs)
  | o :: rest =>
      let '(x, cs') := prod_step dec o cs in
      let '(xs, cs'') := prod_run dec rest cs' in (x :: xs, cs'')
  end.

Lemma prod_results dec : forall ops cs i c,
  nth_error cs i = Some c ->
  results_of i ops (fst (prod_run dec ops cs)) = fst (crd_run dec (project i ops) c).
Proof.
  induction ops as [|[j op] rest IH]; intros cs i c Hc; [reflexivity|].
  cbn [prod_run project]. unfold prod_step.
  destruct (Nat.eqb j i) eqn:Eji.
  - apply Nat.eqb_eq in Eji. subst j. rewrite Hc.
    destruct (crd_step dec op c) as [x c'] eqn:Es.
    destruct (prod_run dec rest (set_nth i c' cs)) as [xs cs''] eqn:Er.
    cbn [crd_run]. rewrite Es.
    destruct (crd_run dec (project i rest) c') as [ys c''] eqn:Ec.
    cbn [fst results_of]. rewrite Nat.eqb_refl. f_equal.
    assert (Hn : nth_error (set_nth i c' cs) i = Some c').
    { rewrite nth_error_set_nth, Nat.eqb_refl, Hc. reflexivity. }
    specialize (IH _ _ _ Hn). rewrite Er, Ec in IH. exact IH.
  - assert (Hstep : forall x cs', (x, cs') =
              match nth_error cs j with
              | None => (([], StBadIndex), cs)
              | Some c0 => let '(x, c') := crd_step dec op c0 in (x, set_nth j c' cs)
              end -> nth_error cs' i = Some c).
    { intros x cs' H. destruct (nth_error cs j) as [c0|] eqn:Ej.
      - destruct (crd_step dec op c0) as [x0 c0']. injection H as _ ->.
        rewrite nth_error_set_nth. rewrite Nat.eqb_sym, Eji. exact Hc.
      - injection H as _ ->. exact Hc. }
    destruct (match nth_error cs j with
              | None => (([], StBadIndex), cs)
              | Some c0 => let '(x, c') := crd_step dec op c0 in (x, set_nth j c' cs)
              end) as [x cs'] eqn:Ep.
    specialize (Hstep x cs' eq_refl).
    destruct (prod_run dec rest cs') as [xs cs''] eqn:Er.
    cbn [fst results_of]. rewrite Eji.
    specialize (IH _ _ _ Hstep). rewrite Er in IH. exact IH.
Qed.

(* ---------- the heap session refines the product ---------- *)

Definition abs (h : heap) (a : sreader) : crd :=
  match a with
  | SRd r => COpen r
  | SRStarted z => COpen (h z)
  | SRClosed => CClosed
  end.

Definition absS (s : sess) : list crd := map (abs (s_heap s)) (s_rds s).

(* no two live readers hold the same decompressor; every address in use was handed out before *)
Definition wfl (next : nat) (rds : list sreader) : Prop :=
  (forall i j z, nth_error rds i = Some (SRStarted z) -> nth_error rds j = Some (SRStarted z) -> i = j) /\
  (forall i z, nth_error rds i = Some (SRStarted z) -> z < next).

Definition wf (s : sess) : Prop := wfl (s_next s) (s_rds s).

Lemma wfl_set_other next rds i a' :
  wfl next rds -> (forall z, a' <> SRStarted z) -> wfl next (set_nth i a' rds).
Proof.
  intros [Hinj Hlt] Hns. split.
  - intros j k z Hj Hk. rewrite nth_error_set_nth in Hj, Hk.
    destruct (Nat.eqb j i).
    { destruct (nth_error rds i); [|discriminate]. injection Hj as Hj. now apply Hns in Hj. }
    destruct (Nat.eqb k i).
    { destruct (nth_error rds i); [|discriminate]. injection Hk as Hk. now apply Hns in Hk. }
    eapply Hinj; eassumption.
  - intros j z Hj. rewrite nth_error_set_nth in Hj.
    destruct (Nat.eqb j i).
    { destruct (nth_error rds i); [|discriminate]. injection Hj as Hj. now apply Hns in Hj. }
    eapply Hlt; eassumption.
Qed.

Lemma wfl_set_fresh next rds i :
  wfl next rds -> wfl (S next) (set_nth i (SRStarted next) rds).
Proof.
  intros [Hinj Hlt]. split.
  - intros j k z Hj Hk. rewrite nth_error_set_nth in Hj, Hk.
    destruct (Nat.eqb j i) eqn:Ej; destruct (Nat.eqb k i) eqn:Ek.
    + apply Nat.eqb_eq in Ej, Ek. congruence.
    + destruct (nth_error rds i); [|discriminate]. injection Hj as <-.
      apply Hlt in Hk. lia.
    + destruct (nth_error rds i); [|discriminate]. injection Hk as <-.
      apply Hlt in Hj. lia.
    + eapply Hinj; eassumption.
  - intros j z Hj. rewrite nth_error_set_nth in Hj.
    destruct (Nat.eqb j i).
    + destruct (nth_error rds i); [|discriminate]. injection Hj as <-. lia.
    + apply Hlt in Hj. lia.
Qed.

Lemma abs_set h h' rds i a a' c' :
  nth_error rds i = Some a ->
  abs h' a' = c' ->
  (forall j b, j <> i -> nth_error rds j = Some b -> abs h' b = abs h b) ->
  map (abs h') (set_nth i a' rds) = set_nth i c' (map (abs h) rds).
Proof.
  intros Ha Hc Hoth. apply nth_error_ext. intro j.
  rewrite nth_error_map', !nth_error_set_nth, !nth_error_map'.
  destruct (Nat.eqb j i) eqn:E.
  - rewrite Ha. simpl. now rewrite Hc.
  - destruct (nth_error rds j) as [b|] eqn:Ej; simpl; [|reflexivity].
    f_equal. apply (Hoth j); [|exact Ej]. now apply Nat.eqb_neq.
Qed.

Lemma rd_read_full_lazy dec n e w :
  rd_read_full dec n (RLazy e w) = rd_read_full dec n (new_decoder dec e w).
Proof. reflexivity. Qed.

Lemma step_sim dec o s :
  wf s ->
  fst (sess_step dec o s) = fst (prod_step dec o (absS s)) /\
  absS (snd (sess_step dec o s)) = snd (prod_step dec o (absS s)) /\
  wf (snd (sess_step dec o s)).
Proof.
  intros Hwf. destruct o as [i op]. unfold sess_step, prod_step, absS.
  rewrite nth_error_map'.
  destruct (nth_error (s_rds s) i) as [a|] eqn:Ha; cbn [option_map]; [|split; [reflexivity|split; [reflexivity|exact Hwf]]].
  assert (Hkeep : forall (h : heap) j b, j <> i -> nth_error (s_rds s) j = Some b -> abs h b = abs h b)
    by reflexivity.
  destruct a as [r|z|]; destruct op as [n|].
  - (* a state without a decompressor, ReadFull *)
    assert (Hplain : forall r0, r = r0 -> (forall e w, r0 <> RLazy e w) ->
      let '(b, err, r') := rd_read_full dec n r0 in
      let res := ((b, ostat_of err),
                  {| s_next := s_next s; s_heap := s_heap s; s_rds := set_nth i (SRd r') (s_rds s) |}) in
      fst res = fst (let '(x, c') := crd_step dec (OReadFull n) (abs (s_heap s) (SRd r0)) in
                     (x, set_nth i c' (map (abs (s_heap s)) (s_rds s)))) /\
      map (abs (s_heap (snd res))) (s_rds (snd res)) =
        snd (let '(x, c') := crd_step dec (OReadFull n) (abs (s_heap s) (SRd r0)) in
             (x, set_nth i c' (map (abs (s_heap s)) (s_rds s)))) /\
      wf (snd res)).
    { intros r0 -> Hnl. cbn [abs crd_step].
      destruct (rd_read_full dec n r0) as [[b err] r'] eqn:E. cbn [fst snd s_heap s_rds].
      split; [reflexivity|]. split.
      - eapply abs_set; [exact Ha|reflexivity|auto].
      - apply wfl_set_other; [exact Hwf|discriminate]. }
    destruct r as [rem|e w|e w|rem fin|].
    + specialize (Hplain _ eq_refl). cbv zeta in Hplain.
      destruct (rd_read_full dec n (RPlain rem)) as [[b err] r'] eqn:E. apply Hplain. discriminate.
    + (* first Read of a lazy decoder: a new object *)
      cbn [abs crd_step]. rewrite rd_read_full_lazy.
      destruct (rd_read_full dec n (new_decoder dec e w)) as [[b err] obj'] eqn:E.
      cbn [fst snd s_heap s_rds s_next]. split; [reflexivity|]. split.
      * eapply abs_set; [exact Ha| |].
        -- cbn [abs]. unfold heap_upd. now rewrite Nat.eqb_refl.
        -- intros j b0 Hji Hj. destruct b0 as [r0|z0|]; cbn [abs]; try reflexivity.
           unfold heap_upd. destruct (Nat.eqb z0 (s_next s)) eqn:Ez; [|reflexivity].
           apply Nat.eqb_eq in Ez. destruct Hwf as [_ Hlt]. apply Hlt in Hj. lia.
      * apply wfl_set_fresh. exact Hwf.
    + specialize (Hplain _ eq_refl). cbv zeta in Hplain.
      destruct (rd_read_full dec n (RLazyCut e w)) as [[b err] r'] eqn:E. apply Hplain. discriminate.
    + specialize (Hplain _ eq_refl). cbv zeta in Hplain.
      destruct (rd_read_full dec n (RRun rem fin)) as [[b err] r'] eqn:E. apply Hplain. discriminate.
    + specialize (Hplain _ eq_refl). cbv zeta in Hplain.
      destruct (rd_read_full dec n RNil) as [[b err] r'] eqn:E. apply Hplain. discriminate.
  - (* Close of a state without a decompressor *)
    assert (Hc : forall r0, r = r0 ->
      fst (([] : bytes, StOk), {| s_next := s_next s; s_heap := s_heap s; s_rds := set_nth i SRClosed (s_rds s) |}) =
      fst (let '(x, c') := crd_step dec OClose (abs (s_heap s) (SRd r0)) in
           (x, set_nth i c' (map (abs (s_heap s)) (s_rds s)))) /\
      map (abs (s_heap s)) (set_nth i SRClosed (s_rds s)) =
      snd (let '(x, c') := crd_step dec OClose (abs (s_heap s) (SRd r0)) in
           (x, set_nth i c' (map (abs (s_heap s)) (s_rds s)))) /\
      wfl (s_next s) (set_nth i SRClosed (s_rds s))).
    { intros r0 ->. cbn [abs crd_step fst snd]. split; [reflexivity|]. split.
      - eapply abs_set; [exact Ha|reflexivity|auto].
      - apply wfl_set_other; [exact Hwf|discriminate]. }
    destruct r; apply (Hc _ eq_refl).
  - (* ReadFull through the decompressor this reader owns *)
    cbn [abs crd_step].
    destruct (rd_read_full dec n (s_heap s z)) as [[b err] obj'] eqn:E.
    cbn [fst snd s_heap s_rds s_next]. split; [reflexivity|]. split; [|exact Hwf].
    rewrite <- (set_nth_same (s_rds s) i (SRStarted z) Ha) at 1.
    eapply abs_set; [exact Ha| |].
    + cbn [abs]. unfold heap_upd. now rewrite Nat.eqb_refl.
    + intros j b0 Hji Hj. destruct b0 as [r0|z0|]; cbn [abs]; try reflexivity.
      unfold heap_upd. destruct (Nat.eqb z0 z) eqn:Ez; [|reflexivity].
      apply Nat.eqb_eq in Ez. subst z0. destruct Hwf as [Hinj _].
      exfalso. apply Hji. eapply Hinj; eassumption.
  - (* Close of a started reader: the object becomes garbage *)
    cbn [abs crd_step fst snd s_heap s_rds s_next]. split; [reflexivity|]. split.
    + eapply abs_set; [exact Ha|reflexivity|auto].
    + apply wfl_set_other; [exact Hwf|discriminate].
  - (* read on a closed body *)
    cbn [abs crd_step fst snd]. split; [reflexivity|]. split; [|exact Hwf].
    symmetry. apply set_nth_same. rewrite nth_error_map', Ha. reflexivity.
  - cbn [abs crd_step fst snd]. split; [reflexivity|]. split; [|exact Hwf].
    symmetry. apply set_nth_same. rewrite nth_error_map', Ha. reflexivity.
Qed.

Lemma run_sim dec : forall ops s,
  wf s -> fst (sess_run dec ops s) = fst (prod_run dec ops (absS s)).
Proof.
  induction ops as [|o rest IH]; intros s Hwf; [reflexivity|].
  cbn [sess_run prod_run].
  destruct (step_sim dec o s Hwf) as (A & B & C).
  destruct (sess_step dec o s) as [x s'] eqn:E1.
  destruct (prod_step dec o (absS s)) as [y cs'] eqn:E2.
  cbn [fst snd] in A, B, C. subst y cs'.
  specialize (IH s' C).
  destruct (sess_run dec rest s') as [xs s''].
  destruct (prod_run dec rest (absS s')) as [ys cs''].
  cbn [fst] in *. now f_equal.
Qed.

Lemma wf_open bodies : wf (sess_open bodies).
Proof.
  split; cbn [sess_open s_rds s_next].
  - intros i j z Hi. rewrite nth_error_map' in Hi. destruct (nth_error bodies i); discriminate.
  - intros i z Hi. rewrite nth_error_map' in Hi. destruct (nth_error bodies i); discriminate.
Qed.

Lemma absS_open bodies : absS (sess_open bodies) = map (fun b => COpen (open_body b)) bodies.
Proof. unfold absS, sess_open. cbn [s_heap s_rds]. rewrite map_map. reflexivity. Qed.

(* INDEPENDENCE: in any interleaving of reads and closes over any set of responses, what response
   i's caller sees (bytes and status of each of its operations) is what it would see with that
   response alone - a function of body i and of the operations addressed to i *)
Theorem session_independence dec bodies ops i b :
  nth_error bodies i = Some b ->
  results_of i ops (fst (sess_run dec ops (sess_open bodies))) =
  fst (crd_run dec (project i ops) (COpen (open_body b))).
Proof.
  intros Hb. rewrite run_sim by apply wf_open. rewrite absS_open.
  apply prod_results. rewrite nth_error_map', Hb. reflexivity.
Qed.

Corollary session_own_input_only dec bodies1 bodies2 ops1 ops2 i b :
  nth_error bodies1 i = Some b -> nth_error bodies2 i = Some b ->
  project i ops1 = project i ops2 ->
  results_of i ops1 (fst (sess_run dec ops1 (sess_open bodies1))) =
  results_of i ops2 (fst (sess_run dec ops2 (sess_open bodies2))).
Proof.
  intros H1 H2 Hp. rewrite (session_independence dec _ _ _ _ H1), (session_independence dec _ _ _ _ H2).
  now rewrite Hp.
Qed.

(* ---------- what one reader delivers to a list of ReadFull operations ---------- *)

Lemma rd_read_full_run dec n rem fin :
  rd_read_full dec n (RRun rem fin) =
  match rem with
  | [] => ([], Some fin, RRun [] fin)
  | _ :: _ => if Nat.ltb (length rem) n then (rem, Some fin, RRun [] fin)
              else (firstn n rem, None, RRun (skipn n rem) fin)
  end.
Proof.
  unfold rd_read_full. cbn [rd_read]. unfold run_read.
  destruct rem as [|x t]; [reflexivity|].
  rewrite firstn_length.
  destruct (Nat.ltb (length (x :: t)) n) eqn:E.
  - apply Nat.ltb_lt in E.
    replace (Nat.ltb (Nat.min n (length (x :: t))) n) with true
      by (symmetry; apply Nat.ltb_lt; lia).
    rewrite (skipn_all2 (x :: t)) by lia. rewrite (firstn_all2 (x :: t)) by lia.
    cbn [rd_read]. unfold run_read. now rewrite app_nil_r.
  - apply Nat.ltb_ge in E.
    replace (Nat.ltb (Nat.min n (length (x :: t))) n) with false
      by (symmetry; apply Nat.ltb_ge; lia).
    reflexivity.
Qed.

Lemma crd_run_cons dec op rest c :
  crd_run dec (op :: rest) c =
  (fst (crd_step dec op c) :: fst (crd_run dec rest (snd (crd_step dec op c))),
   snd (crd_run dec rest (snd (crd_step dec op c)))).
Proof.
  cbn [crd_run]. destruct (crd_step dec op c) as [x c']. cbn [fst snd].
  destruct (crd_run dec rest c') as [xs c'']. reflexivity.
Qed.

Lemma crd_step_readfull_run dec n rem fin :
  crd_step dec (OReadFull n) (COpen (RRun rem fin)) =
  match rem with
  | [] => (([], StEnd fin), COpen (RRun [] fin))
  | _ :: _ => if Nat.ltb (length rem) n then ((rem, StEnd fin), COpen (RRun [] fin))
              else ((firstn n rem, StOk), COpen (RRun (skipn n rem) fin))
  end.
Proof.
  cbn [crd_step]. rewrite rd_read_full_run. destruct rem as [|x t]; [reflexivity|].
  destruct (Nat.ltb (length (x :: t)) n); reflexivity.
Qed.

(* after the end: no data, the same status, for ever *)
Lemma crd_run_ended dec fin : forall sizes,
  fst (crd_run dec (map OReadFull sizes) (COpen (RRun [] fin))) =
  map (fun _ => ([], StEnd fin)) sizes.
Proof.
  induction sizes as [|n rest IH]; [reflexivity|].
  cbn [map]. rewrite crd_run_cons, crd_step_readfull_run. cbn [fst snd]. now rewrite IH.
Qed.

Lemma delivered_const (fin : rerr) (sizes : list nat) :
  delivered_bytes (map (fun _ => (([] : bytes), StEnd fin)) sizes) = [].
Proof. unfold delivered_bytes. induction sizes; simpl; auto. Qed.

Lemma last_const (fin : rerr) (sizes : list nat) (s0 : ostat) :
  last (s0 :: map snd (map (fun _ : nat => (([] : bytes), StEnd fin)) sizes)) StOk =
  match sizes with [] => s0 | _ => StEnd fin end.
Proof.
  revert s0. induction sizes as [|n rest IH]; intros s0; [reflexivity|].
  cbn [map snd]. change (last (s0 :: StEnd fin :: ?l) StOk) with (last (StEnd fin :: l) StOk).
  rewrite IH. now destruct rest.
Qed.

Lemma crd_run_readfulls dec : forall sizes rem fin,
  Forall (fun n => 0 < n) sizes -> length rem < length sizes ->
  delivered_bytes (fst (crd_run dec (map OReadFull sizes) (COpen (RRun rem fin)))) = rem /\
  last (map snd (fst (crd_run dec (map OReadFull sizes) (COpen (RRun rem fin))))) StOk = StEnd fin.
Proof.
  induction sizes as [|n rest IH]; intros rem fin Hpos Hlen; [simpl in Hlen; lia|].
  inversion Hpos as [|? ? Hn Hrest]; subst.
  cbn [map]. rewrite crd_run_cons, crd_step_readfull_run.
  destruct rem as [|x t].
  - cbn [fst snd]. rewrite crd_run_ended. split.
    + unfold delivered_bytes. cbn [map concat app]. apply delivered_const.
    + cbn [map snd]. rewrite last_const. now destruct rest.
  - destruct (Nat.ltb (length (x :: t)) n) eqn:E.
    + cbn [fst snd]. rewrite crd_run_ended. split.
      * unfold delivered_bytes. cbn [map concat fst].
        change (concat (map fst (map (fun _ : nat => (([] : bytes), StEnd fin)) rest)))
          with (delivered_bytes (map (fun _ : nat => (([] : bytes), StEnd fin)) rest)).
        rewrite delivered_const. apply app_nil_r.
      * cbn [map snd]. rewrite last_const. now destruct rest.
    + apply Nat.ltb_ge in E. cbn [fst snd].
      assert (Hl : length (skipn n (x :: t)) < length rest).
      { rewrite skipn_length. cbn [length] in *. lia. }
      destruct (IH (skipn n (x :: t)) fin Hrest Hl) as [Hd Hs]. split.
      * unfold delivered_bytes in *. cbn [map concat fst]. rewrite Hd. apply firstn_skipn.
      * destruct rest as [|m rest']; [simpl in Hl; lia|].
        cbn [map] in *. rewrite crd_run_cons in *. cbn [fst map snd] in *.
        exact Hs.
Qed.

Lemma crd_run_lazy dec e w ops :
  fst (crd_run dec ops (COpen (RLazy e w))) = fst (crd_run dec ops (COpen (new_decoder dec e w))).
Proof.
  destruct ops as [|op rest]; [reflexivity|]. rewrite !crd_run_cons.
  assert (H : crd_step dec op (COpen (RLazy e w)) = crd_step dec op (COpen (new_decoder dec e w)))
    by (destruct op; reflexivity).
  now rewrite H.
Qed.

Section Codec.
  Variable compress : enc -> bytes -> bytes.
  Variable dec : codec.
  Hypothesis roundtrip : forall e p, dec e (compress e p) = {| s_data := p; s_end := EOF |}.

  (* a decoded response read through ReadFull operations of any positive sizes, interleaved in any
     way with any operations on any other responses, delivers its own original payload and then
     io.EOF *)
  Lemma interleaved_reader_is_original bodies ops i e p sizes :
    nth_error bodies i = Some (Lazy e (compress e p)) ->
    project i ops = map OReadFull sizes ->
    Forall (fun n => 0 < n) sizes -> length p < length sizes ->
    let res := results_of i ops (fst (sess_run dec ops (sess_open bodies))) in
    delivered_bytes res = p /\ last (map snd res) StOk = StEnd EOF.
  Proof.
    intros Hb Hproj Hpos Hlen. cbv zeta.
    rewrite (session_independence dec _ _ _ _ Hb), Hproj. cbn [open_body].
    rewrite crd_run_lazy. unfold new_decoder. rewrite roundtrip. cbn [s_data s_end].
    now apply crd_run_readfulls.
  Qed.

  (* the same from the decision: each response of the session is what `respond` made of it *)
  Lemma interleaved_decoded_is_original bodies ops i st c auto r e p sizes :
    r_cl r <> 0%Z ->
    wants_decode c auto (content_encoding (r_ce r)) = Some e ->
    r_body r = Raw (compress e p) ->
    nth_error bodies i = Some (r_body (respond st c auto false r)) ->
    project i ops = map OReadFull sizes ->
    Forall (fun n => 0 < n) sizes -> length p < length sizes ->
    let res := results_of i ops (fst (sess_run dec ops (sess_open bodies))) in
    delivered_bytes res = p /\ last (map snd res) StOk = StEnd EOF.
  Proof.
    intros Hcl Hw Hbody Hb. rewrite respond_spec in Hb by exact Hcl. rewrite Hw in Hb.
    cbn [delivered rewrite r_body] in Hb. rewrite Hbody in Hb. cbn [wire_of] in Hb.
    exact (interleaved_reader_is_original bodies ops i e p sizes Hb).
  Qed.
End Codec.

(* ---------- recycled decompressors: the independence theorem is false ---------- *)

Definition id_codec : codec := fun _ w => {| s_data := w; s_end := EOF |}.

(* response 0 is read and closed twice; responses 1 and 2 are then open at the same time *)
Definition pooled_bodies : list body :=
  [Lazy Gzip (bs "aaaaaaaa"); Lazy Gzip (bs "bbbbbbbb"); Lazy Gzip (bs "cccccccc")].
Definition pooled_ops : list (nat * rop) :=
  [(0, OReadFull 100); (0, OClose); (0, OClose);
   (1, OReadFull 2); (2, OReadFull 2); (1, OReadFull 100); (2, OReadFull 100)].

Lemma pooled_refuted :
  (* with a free list fed twice by the two Closes, response 1 gets response 2's bytes, no error *)
  results_of 1 pooled_ops (fst (sess_run_pooled id_codec pooled_ops (psess_open pooled_bodies))) =
    [(bs "bb", StOk); (bs "cccccc", StEnd EOF)] /\
  results_of 1 pooled_ops (fst (sess_run_pooled id_codec pooled_ops (psess_open pooled_bodies))) <>
    fst (crd_run id_codec (project 1 pooled_ops) (COpen (open_body (Lazy Gzip (bs "bbbbbbbb"))))) /\
  (* the code (every first Read allocates) delivers response 1's own bytes in the same schedule *)
  results_of 1 pooled_ops (fst (sess_run id_codec pooled_ops (sess_open pooled_bodies))) =
    [(bs "bb", StOk); (bs "bbbbbb", StEnd EOF)].
Proof. vm_compute. repeat split. discriminate. Qed.

(* ---------- the allocation discipline, read off the source (Gen/CompressReaders.v) ---------- *)

Definition is_decoder_field (x : bytes * bytes * bytes * bytes) : bool :=
  let f := snd (fst x) in
  bytes_eqb f (bs "zr") || bytes_eqb f (bs "dr") || bytes_eqb f (bs "br") || bytes_eqb f (bs "src").

(* internal/compress has no package-level variable, and the decoder field of each of the five lazy
   readers is assigned in exactly one place: in Read, the result of the codec's constructor applied to
   the reader's own body - what `sess_step` models by handing out a new heap address *)
Lemma readers_allocate :
  compress_pkg_vars = [] /\
  filter is_decoder_field reader_field_assignments =
  [ (bs "BrotliReader", bs "Read", bs "br", bs "brotli.NewReader(br.Body)");
    (bs "DeflateReader", bs "Read", bs "dr", bs "flate.NewReader(df.Body)");
    (bs "GzipReader", bs "Read", bs "zr", bs "gzip.NewReader(gz.Body)");
    (bs "ZstdReader", bs "Read", bs "src", bs "&bodyErrReader{r: zr.Body}");
    (bs "ZstdReader", bs "Read", bs "zr", bs "zstd.NewReader(zr.src)");
    (bs "gzipReader", bs "Read", bs "zr", bs "gzip.NewReader(gz.body)") ].
Proof. split; reflexivity. Qed.

(* ---------- damaged streams and stickiness under interleaving ---------- *)

(* whatever the decoder makes of response i's body - data, then its terminal status - is what
   response i's caller gets, in any interleaving (no round-trip hypothesis: damaged streams included) *)
Lemma interleaved_reader_stream dec bodies ops i e w sizes :
  nth_error bodies i = Some (Lazy e w) ->
  project i ops = map OReadFull sizes ->
  Forall (fun n => 0 < n) sizes -> length (s_data (dec e w)) < length sizes ->
  let res := results_of i ops (fst (sess_run dec ops (sess_open bodies))) in
  delivered_bytes res = s_data (dec e w) /\ last (map snd res) StOk = StEnd (s_end (dec e w)).
Proof.
  intros Hb Hproj Hpos Hlen. cbv zeta.
  rewrite (session_independence dec _ _ _ _ Hb), Hproj. cbn [open_body].
  rewrite crd_run_lazy. unfold new_decoder. now apply crd_run_readfulls.
Qed.

(* one reader: once a ReadFull reported a terminal status, every later ReadFull reports no data and
   the same status *)
Lemma rd_read_full_sticky dec n r b e r' :
  rd_read_full dec n r = (b, Some e, r') -> forall m, rd_read_full dec m r' = ([], Some e, r').
Proof.
  unfold rd_read_full. intros H m.
  destruct (rd_read dec n r) as [[b1 [e1|]] r1] eqn:E1.
  - injection H as <- <- <-. destruct (read_sticky _ _ _ _ _ _ E1) as [_ Hs]. now rewrite Hs.
  - destruct (Nat.ltb (length b1) n); [|discriminate].
    destruct (rd_read dec (n - length b1) r1) as [[b2 e2] r2] eqn:E2.
    injection H as <- -> <-. destruct (read_sticky _ _ _ _ _ _ E2) as [_ Hs]. now rewrite Hs.
Qed.

Lemma crd_run_after_end dec e : forall sizes r,
  (forall m, rd_read_full dec m r = ([], Some e, r)) ->
  fst (crd_run dec (map OReadFull sizes) (COpen r)) = map (fun _ => ([], StEnd e)) sizes.
Proof.
  induction sizes as [|n rest IH]; intros r Hr; [reflexivity|].
  cbn [map]. rewrite crd_run_cons. cbn [crd_step]. rewrite Hr. cbn [fst snd ostat_of].
  now rewrite IH.
Qed.

Lemma crd_run_sticky dec : forall sizes r k e,
  nth_error (map snd (fst (crd_run dec (map OReadFull sizes) (COpen r)))) k = Some (StEnd e) ->
  forall j, k < j -> j < length sizes ->
  nth_error (fst (crd_run dec (map OReadFull sizes) (COpen r))) j = Some ([], StEnd e).
Proof.
  induction sizes as [|n rest IH]; intros r k e Hk j Hkj Hj; [simpl in Hj; lia|].
  cbn [map] in *. rewrite crd_run_cons in *. cbn [crd_step] in *.
  destruct (rd_read_full dec n r) as [[b err] r'] eqn:E. cbn [fst snd map] in *.
  destruct j as [|j']; [lia|]. cbn [nth_error].
  destruct k as [|k'].
  - cbn [nth_error] in Hk. destruct err as [x|]; cbn [ostat_of] in Hk; [|discriminate].
    injection Hk as ->.
    rewrite (crd_run_after_end dec e rest r' (rd_read_full_sticky _ _ _ _ _ _ E)).
    cbn [length] in Hj. clear -Hj. revert j' Hj. induction rest as [|a t IHt]; intros j' Hj.
    + simpl in Hj. lia.
    + destruct j' as [|j'']; [reflexivity|]. cbn [map nth_error]. apply IHt. simpl in *. lia.
  - cbn [nth_error] in Hk. apply (IH r' k' e Hk j'); [lia|]. simpl in Hj. lia.
Qed.

(* in a session: whatever is interleaved, once an operation of response i reported a terminal status
   (io.EOF or an error) every later ReadFull of response i reports no data and that same status *)
Lemma session_sticky dec bodies ops i b sizes k e :
  nth_error bodies i = Some b ->
  project i ops = map OReadFull sizes ->
  let res := results_of i ops (fst (sess_run dec ops (sess_open bodies))) in
  nth_error (map snd res) k = Some (StEnd e) ->
  forall j, k < j -> j < length sizes -> nth_error res j = Some ([], StEnd e).
Proof.
  intros Hb Hproj. cbv zeta. rewrite (session_independence dec _ _ _ _ Hb), Hproj.
  apply crd_run_sticky.
Qed.

(* every reader internal/compress hands out is wrapped by withMessageEnd: `probes_past_end` *)
Lemma readers_wait_for_the_message_end :
  reader_constructors =
  [ (bs "NewBrotliReader", bs "withMessageEnd(&BrotliReader{Body: body})");
    (bs "NewDeflateReader", bs "withMessageEnd(&DeflateReader{Body: body})");
    (bs "NewGzipReader", bs "withMessageEnd(&GzipReader{Body: body})");
    (bs "NewZstdReader", bs "withMessageEnd(&ZstdReader{Body: body})") ].
Proof. reflexivity. Qed.
