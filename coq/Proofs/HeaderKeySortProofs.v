(* Proofs/HeaderKeySortProofs.v - C16: without an order list the HTTP/1.1 writer sorts the header
   map by key (headerSorter); the keys of a map are distinct, so the written lines do not depend on
   the map iteration order at all. *)
From ReqV Require Import Lib.Bytes Lib.BytesFacts Model.HeaderOrder Model.HeaderCollect
  Proofs.HeaderOrderProofs Proofs.HeaderCollectProofs Proofs.HeaderWireProofs.
From Coq Require Import Lia Permutation Sorting.Sorted NArith.

Lemma bN_inj a b : bN a = bN b -> a = b.
Proof.
  unfold bN. intros H. pose proof (Byte.of_to_N a) as Ha. pose proof (Byte.of_to_N b) as Hb.
  rewrite H in Ha. congruence.
Qed.

Lemma bytes_leb_refl a : bytes_leb a a = true.
Proof. induction a as [|x a IH]; [reflexivity|]. cbn [bytes_leb]. now rewrite N.ltb_irrefl. Qed.

Lemma bytes_leb_total a : forall b, bytes_leb a b = true \/ bytes_leb b a = true.
Proof.
  induction a as [|x a IH]; intros [|y b]; cbn [bytes_leb]; auto.
  destruct (bN x <? bN y)%N eqn:E1; [now left|]. destruct (bN y <? bN x)%N eqn:E2; [now right|].
  apply IH.
Qed.

Lemma bytes_leb_antisym a : forall b, bytes_leb a b = true -> bytes_leb b a = true -> a = b.
Proof.
  induction a as [|x a IH]; intros [|y b]; cbn [bytes_leb]; try discriminate; [reflexivity|].
  destruct (bN x <? bN y)%N eqn:E1, (bN y <? bN x)%N eqn:E2; try discriminate.
  - apply N.ltb_lt in E1, E2. lia.
  - intros H1 H2. apply N.ltb_ge in E1, E2. f_equal; [apply bN_inj; lia|now apply IH].
Qed.

Lemma bytes_leb_trans a : forall b c, bytes_leb a b = true -> bytes_leb b c = true -> bytes_leb a c = true.
Proof.
  induction a as [|x a IH]; intros [|y b] [|z c]; cbn [bytes_leb]; try discriminate; try reflexivity.
  destruct (bN x <? bN y)%N eqn:E1, (bN y <? bN x)%N eqn:E2, (bN y <? bN z)%N eqn:E3, (bN z <? bN y)%N eqn:E4,
           (bN x <? bN z)%N eqn:E5, (bN z <? bN x)%N eqn:E6; try discriminate; try reflexivity;
    try apply N.ltb_lt in E1; try apply N.ltb_ge in E1; try apply N.ltb_lt in E2; try apply N.ltb_ge in E2;
    try apply N.ltb_lt in E3; try apply N.ltb_ge in E3; try apply N.ltb_lt in E4; try apply N.ltb_ge in E4;
    try apply N.ltb_lt in E5; try apply N.ltb_ge in E5; try apply N.ltb_lt in E6; try apply N.ltb_ge in E6;
    try lia.
  apply IH.
Qed.

Definition key_le (a b : kv) : Prop := bytes_leb (fst a) (fst b) = true.

Lemma insert_key_sorted x l :
  StronglySorted key_le l -> StronglySorted key_le (insert_le (fun a b => bytes_leb (fst a) (fst b)) x l).
Proof.
  induction 1 as [|y t Hs IH Hy]; cbn [insert_le]; [repeat constructor|].
  destruct (bytes_leb (fst x) (fst y)) eqn:E.
  - constructor; [now constructor|]. constructor; [exact E|].
    rewrite Forall_forall in *. intros z Hz. unfold key_le. eapply bytes_leb_trans; [exact E|now apply Hy].
  - constructor; [exact IH|]. rewrite Forall_forall in *. intros z Hz.
    apply (Permutation_in _ (sort_le_insert_perm _ x t)) in Hz. destruct Hz as [<-|Hz]; [|now apply Hy].
    unfold key_le. destruct (bytes_leb_total (fst x) (fst y)) as [T|T]; [congruence|exact T].
Qed.

Lemma sort_by_key_sorted l : StronglySorted key_le (sort_by_key l).
Proof.
  unfold sort_by_key. induction l as [|x t IH]; cbn [sort_le]; [constructor|]. now apply insert_key_sorted.
Qed.

Lemma sorted_perm_unique {A} (R : A -> A -> Prop) l : forall l',
  StronglySorted R l -> StronglySorted R l' -> Permutation l l' ->
  (forall x y, In x l -> In y l -> R x y -> R y x -> x = y) -> l = l'.
Proof.
  induction l as [|x t IH]; intros l' Hs Hs' Hp Ha.
  - apply Permutation_nil in Hp. now subst.
  - destruct l' as [|y t']; [symmetry in Hp; now apply Permutation_nil in Hp|].
    inversion Hs as [|? ? Hst Hx]; subst. inversion Hs' as [|? ? Hst' Hy]; subst.
    rewrite Forall_forall in Hx, Hy.
    assert (x = y) as ->.
    { assert (In x (y :: t')) as Hx' by (eapply Permutation_in; [exact Hp|now left]).
      assert (In y (x :: t)) as Hy' by (eapply Permutation_in; [symmetry; exact Hp|now left]).
      destruct Hx' as [->|Hx']; [reflexivity|]. destruct Hy' as [->|Hy']; [reflexivity|].
      apply Ha; [now left|now right|now apply Hx|now apply Hy]. }
    f_equal. apply IH; [assumption..| |].
    + now apply Permutation_cons_inv in Hp.
    + intros a b Ha' Hb'. apply Ha; now right.
Qed.

(* two iteration orders of the same map give the same key-sorted list *)
Lemma sort_by_key_perm_eq l l' :
  NoDup (map fst l) -> Permutation l l' -> sort_by_key l = sort_by_key l'.
Proof.
  intros Hnd Hp. apply (sorted_perm_unique key_le); try apply sort_by_key_sorted.
  - unfold sort_by_key. rewrite sort_le_perm. rewrite Hp. symmetry. apply sort_le_perm.
  - intros x y Hx Hy H1 H2. pose proof (bytes_leb_antisym _ _ H1 H2) as E.
    unfold sort_by_key in Hx, Hy. apply (Permutation_in _ (sort_le_perm _ l)) in Hx, Hy.
    clear - Hnd Hx Hy E. induction l as [|z t IH]; [destruct Hx|].
    cbn [map] in Hnd. inversion Hnd as [|? ? Hn Hnd']; subst.
    destruct Hx as [->|Hx], Hy as [->|Hy]; [reflexivity| | |now apply IH].
    + exfalso. apply Hn. rewrite E. now apply in_map.
    + exfalso. apply Hn. rewrite <- E. now apply in_map.
Qed.

Lemma h1_user_keys_nodup h : NoDup (map fst h) -> NoDup (map fst (h1_user h)).
Proof.
  unfold h1_user. rewrite map_map. cbn [fst].
  induction h as [|x t IH]; intros Hnd; [constructor|]. cbn [map] in Hnd. inversion Hnd as [|? ? Hn Hnd']; subst.
  cbn [filter]. destruct (negb (mem_bytes (fst x) h1_exclude) && valid_field_name (fst x)); [|now apply IH].
  cbn [map]. constructor; [|now apply IH]. intros C. apply Hn.
  apply in_map_iff in C as (y & Ey & Hy). apply filter_In in Hy as [Hy _]. rewrite <- Ey. now apply in_map.
Qed.

Lemma h1_user_perm h h' : Permutation h h' -> Permutation (h1_user h) (h1_user h').
Proof. intros H. unfold h1_user. apply Permutation_map. now apply filter_perm. Qed.

(* HTTP/1.1 without an order list: the written lines are the same, line by line, for every
   iteration order of the header map *)
Lemma h1_no_order_deterministic q h' :
  NoDup (map fst (c_hdr q)) -> Permutation (c_hdr q) h' ->
  is_nil (order_list (c_hdr q)) = true ->
  h1_lines (set_hdr q h') = h1_lines q.
Proof.
  intros Hnd Hp Hn.
  assert (Ho : order_list (c_hdr (set_hdr q h')) = order_list (c_hdr q)) by now apply mo_order.
  unfold h1_lines, h1_kvs. cbv zeta. rewrite Ho, Hn. unfold sort_if. cbn [is_nil].
  destruct (order_list (c_hdr q)) eqn:EO; [|discriminate]. cbn [is_nil].
  assert (E1 : h1_ua (c_hdr (set_hdr q h')) = h1_ua (c_hdr q)).
  { unfold h1_ua. rewrite (mo_header_get q h' Hnd Hp). cbn [set_hdr c_hdr].
    now rewrite <- (hget_perm _ _ (bs "User-Agent") Hnd Hp). }
  assert (E2 : gzip_kv (bs "Accept-Encoding") (set_hdr q h') = gzip_kv (bs "Accept-Encoding") q).
  { unfold gzip_kv, wants_gzip. rewrite !(mo_header_get q h' Hnd Hp). reflexivity. }
  rewrite E1, E2. cbn [set_hdr c_hdr c_host c_method c_clen].
  rewrite (sort_by_key_perm_eq (h1_user h') (h1_user (c_hdr q))); [reflexivity| |].
  - apply h1_user_keys_nodup. eapply Permutation_NoDup; [apply Permutation_map; exact Hp|assumption].
  - apply h1_user_perm. now symmetry.
Qed.
