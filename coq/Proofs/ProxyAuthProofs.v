(* Proofs/ProxyAuthProofs.v - C20: proxy Basic credentials: the userinfo of the proxy URL
   survives net/url's escaping for all byte strings; the pool key determines the credentials, so
   an idle proxy connection never carries another Proxy-Authorization than the current one. *)
From Coq Require Import Lia.
From ReqV Require Import Lib.Bytes Lib.BytesFacts Model.Base64 Model.ProxyAuth Proofs.Base64Proofs.

(* ---------- byte facts (256 cases each) ---------- *)

Definition pct : byte := "%"%byte.
Definition colon : byte := ":"%byte.
Definition at_sign : byte := "@"%byte.

Lemma esc_byte_roundtrip b :
  match unhex (upper_hex (bN b / 16)), unhex (upper_hex (bN b mod 16)) with
  | Some x, Some y => byte_of_N_total (x * 16 + y) = b
  | _, _ => False
  end.
Proof. destruct b; vm_compute; reflexivity. Qed.

Lemma plain_not_special b : ui_should_escape b = false ->
  beqb b pct = false /\ beqb colon b = false /\ beqb at_sign b = false.
Proof. destruct b; vm_compute; intuition congruence. Qed.

Lemma hex_not_special b :
  beqb colon (upper_hex (bN b / 16)) = false /\ beqb at_sign (upper_hex (bN b / 16)) = false /\
  beqb colon (upper_hex (bN b mod 16)) = false /\ beqb at_sign (upper_hex (bN b mod 16)) = false.
Proof. destruct b; vm_compute; auto. Qed.

(* ---------- escape / unescape ---------- *)

Theorem ui_unescape_escape s : ui_unescape (ui_escape s) = Some s.
Proof.
  induction s as [|b r IH]; [reflexivity|]. cbn [ui_escape].
  destruct (ui_should_escape b) eqn:E.
  - cbn [ui_unescape]. change (beqb "%"%byte "%"%byte) with true. cbn iota.
    pose proof (esc_byte_roundtrip b) as X.
    destruct (unhex (upper_hex (bN b / 16))) as [x|]; [|contradiction].
    destruct (unhex (upper_hex (bN b mod 16))) as [y|]; [|contradiction].
    rewrite IH, X. reflexivity.
  - cbn [ui_unescape]. destruct (plain_not_special b E) as [P _]. unfold pct in P. rewrite P, IH. reflexivity.
Qed.

Lemma ui_escape_clean s :
  mem_byte colon (ui_escape s) = false /\ mem_byte at_sign (ui_escape s) = false.
Proof.
  induction s as [|b r [IH1 IH2]]; [split; reflexivity|]. cbn [ui_escape].
  destruct (ui_should_escape b) eqn:E.
  - destruct (hex_not_special b) as [A [B [C D]]]. rewrite !mem_byte_cons, A, B, C, D, IH1, IH2.
    split; reflexivity.
  - destruct (plain_not_special b E) as [_ [A B]]. rewrite !mem_byte_cons, A, B, IH1, IH2. split; reflexivity.
Qed.

(* url.UserPassword(u, p).String() parsed again gives (u, p); likewise url.User(u) *)
Theorem ui_parse_string u : ui_parse (ui_string u) = Some u.
Proof.
  destruct u as [u [p|]]; unfold ui_string, ui_parse; cbn [fst snd]; fold colon.
  - destruct (ui_escape_clean u) as [C _].
    rewrite (index_byte_app_hit colon (ui_escape u) (ui_escape p) C).
    rewrite firstn_app_exact.
    replace (S (length (ui_escape u))) with (length (ui_escape u ++ [colon])) by (rewrite app_length; cbn; lia).
    change (ui_escape u ++ colon :: ui_escape p) with (ui_escape u ++ [colon] ++ ui_escape p).
    rewrite app_assoc, skipn_app_exact. rewrite !ui_unescape_escape. reflexivity.
  - destruct (ui_escape_clean u) as [C _]. rewrite (index_byte_none colon _ C).
    rewrite ui_unescape_escape. reflexivity.
Qed.

Lemma ui_string_clean u : mem_byte at_sign (ui_string u) = false.
Proof.
  destruct u as [u [p|]]; unfold ui_string; cbn [fst snd].
  - rewrite mem_byte_app, mem_byte_cons. change (beqb at_sign ":"%byte) with false. cbn [orb]. destruct (ui_escape_clean u) as [_ ->].
    destruct (ui_escape_clean p) as [_ ->]. reflexivity.
  - apply ui_escape_clean.
Qed.

Lemma ui_string_inj u v : ui_string u = ui_string v -> u = v.
Proof.
  intros E. pose proof (ui_parse_string u) as A. rewrite E, ui_parse_string in A. congruence.
Qed.

(* ---------- the proxy recovers the credentials ---------- *)

Theorem proxy_auth_recovers u pw host :
  mem_byte colon_b u = false ->
  exists h, proxy_auth (mkPU (Some (u, Some pw)) host) = Some h /\ parse_basic h = Some (u, pw).
Proof. intros Hc. eexists. split; [reflexivity|]. now apply basic_recovers. Qed.

Theorem proxy_auth_decodes u pw host :
  exists h, proxy_auth (mkPU (Some (u, pw)) host) = Some h /\
            b64_decode (skipn 6 h) = Some (u ++ colon_b :: match pw with Some p => p | None => [] end).
Proof. destruct pw; eexists; (split; [reflexivity|apply basic_decodes]). Qed.

(* ---------- the pool key determines the credentials ---------- *)

Definition host_ok (p : proxy_url) : Prop := mem_byte at_sign (pu_host p) = false.

Lemma split_unique (c : byte) a : forall a' b b',
  a ++ c :: b = a' ++ c :: b' -> mem_byte c a = false -> mem_byte c a' = false -> a = a' /\ b = b'.
Proof.
  induction a as [|x r IH]; intros a' b b' E Ha Ha'.
  - destruct a' as [|y r']; cbn in E.
    + injection E as E. auto.
    + injection E as E1 E2. subst y. rewrite mem_byte_cons, beqb_refl in Ha'. discriminate.
  - destruct a' as [|y r']; cbn in E.
    + injection E as E1 E2. subst x. rewrite mem_byte_cons, beqb_refl in Ha. discriminate.
    + injection E as E1 E2. subst y. rewrite mem_byte_cons in Ha, Ha'.
      apply Bool.orb_false_iff in Ha as [_ Ha]. apply Bool.orb_false_iff in Ha' as [_ Ha'].
      destruct (IH r' b b' E2 Ha Ha') as [-> ->]. auto.
Qed.

Theorem pu_string_inj p q : host_ok p -> host_ok q -> pu_string p = pu_string q -> p = q.
Proof.
  unfold host_ok, pu_string. destruct p as [up hp], q as [uq hq]. cbn [pu_user pu_host].
  intros Hp Hq E. apply app_inv_head in E.
  destruct up as [u|], uq as [v|].
  - destruct (split_unique at_sign _ _ _ _ E (ui_string_clean u) (ui_string_clean v)) as [A B].
    apply ui_string_inj in A. now subst.
  - exfalso. subst hq. rewrite mem_byte_app, mem_byte_cons, beqb_refl, Bool.orb_true_r in Hq. discriminate.
  - exfalso. subst hp. rewrite mem_byte_app, mem_byte_cons, beqb_refl, Bool.orb_true_r in Hp. discriminate.
  - now subst.
Qed.

Lemma key_eqb_eq a b : key_eqb a b = true <-> a = b.
Proof.
  destruct a as [[a1 a2] a3], b as [[b1 b2] b3]. unfold key_eqb. cbn [fst snd]. split.
  - intros H. apply andb_prop in H as [H H3]. apply andb_prop in H as [H1 H2].
    apply bytes_eqb_eq in H1, H3. apply Bool.eqb_prop in H2. now subst.
  - intros E. injection E as -> -> ->. now rewrite !bytes_eqb_refl, Bool.eqb_reflx.
Qed.

(* two connect methods with the same pool key have the same proxy URL and target scheme, hence
   the same Proxy-Authorization *)
Theorem key_determines_auth p q hs ht t t' : host_ok p -> host_ok q ->
  conn_key_of p hs t = conn_key_of q ht t' -> p = q /\ hs = ht /\ proxy_auth p = proxy_auth q.
Proof.
  intros Hp Hq E. unfold conn_key_of, key_with in E.
  pose proof (f_equal (fun k : conn_key => snd (fst k)) E) as E2. cbn [fst snd] in E2.
  apply (f_equal (fun k : conn_key => fst (fst k))) in E. cbn [fst] in E.
  apply (pu_string_inj p q Hp Hq) in E. subst. auto.
Qed.

(* ---------- the carried state: idle connections and their remembered header ---------- *)

Section Static.
  (* Proxy-Authorization inside the static Transport.ProxyConnectHeader, if the caller put one *)
  Variable static : option bytes.

  (* every idle connection's header is the one any proxy URL / target scheme with that key prescribes *)
  Definition pool_ok (pl : pool) : Prop :=
    forall k h, In (k, h) pl -> forall p https t, host_ok p -> conn_key_of p https t = k -> h = sent_auth static https p.

  Lemma pool_find_in k pl h : pool_find k pl = Some h -> In (k, h) pl.
  Proof.
    induction pl as [|[k' h'] r IH]; [discriminate|]. cbn [pool_find].
    destruct (key_eqb k k') eqn:E.
    - apply key_eqb_eq in E. intros X. injection X as ->. left. now subst.
    - intros X. right. auto.
  Qed.

  Theorem proxy_step_current pl p https t : pool_ok pl -> host_ok p ->
    let '(seen, pl') := proxy_step static pl p https t in
    pool_ok pl' /\ (forall h, In h seen -> h = sent_auth static https p) /\
    (https = false -> seen = [proxy_auth p]).
  Proof.
    intros Hpl Hp. unfold proxy_step, proxy_step_with. fold (conn_key_of p https t).
    destruct (pool_find (conn_key_of p https t) pl) as [h|] eqn:F.
    - apply pool_find_in in F. pose proof (Hpl _ _ F p https t Hp eq_refl) as ->.
      split; [exact Hpl|]. split.
      + destruct https; cbn [In]; intros h Hin; [contradiction|destruct Hin as [<-|[]]; reflexivity].
      + intros ->. reflexivity.
    - split; [|split].
      + intros k h [X|X] q hs t' Hq E.
        * injection X as <- <-. symmetry in E.
          destruct (key_determines_auth p q https hs t t' Hp Hq E) as [-> [-> _]]. reflexivity.
        * exact (Hpl k h X q hs t' Hq E).
      + intros h [<-|[]]. reflexivity.
      + intros ->. reflexivity.
  Qed.

  (* a whole sequence on one client: whatever proxy URLs (password rotations, URLs without
     userinfo) and targets came before, everything the proxy receives for request i is the
     credential request i's proxy URL prescribes (for CONNECT: the URL's, else the caller's
     static one); a plain-http request always carries exactly the URL's *)
  Theorem proxy_run_current rs : forall pl, pool_ok pl ->
    Forall (fun r : proxy_req => host_ok (fst (fst r))) rs ->
    Forall2 (fun (r : proxy_req) seen =>
               (forall h, In h seen -> h = sent_auth static (snd (fst r)) (fst (fst r))) /\
               (snd (fst r) = false -> seen = [proxy_auth (fst (fst r))]))
            rs (proxy_run_with pu_string static pl rs).
  Proof.
    induction rs as [|[[p https] t] r IH]; intros pl Hpl Hok; [constructor|].
    inversion Hok as [|? ? Hp Hr]; subst. cbn [fst snd] in Hp.
    cbn [proxy_run_with]. pose proof (proxy_step_current pl p https t Hpl Hp) as X.
    unfold proxy_step in X. destruct (proxy_step_with pu_string static pl p https t) as [seen pl'].
    destruct X as [Hpl' [A B]]. constructor; [split; assumption|]. apply IH; assumption.
  Qed.

  Lemma pool_ok_nil : pool_ok [].
  Proof. intros k h []. Qed.
End Static.

(* in particular: a proxy URL without userinfo never receives credentials of another proxy URL
   (no static Proxy-Authorization configured) *)
Corollary no_userinfo_no_credentials rs :
  Forall (fun r : proxy_req => host_ok (fst (fst r))) rs ->
  Forall2 (fun (r : proxy_req) seen => pu_user (fst (fst r)) = None -> forall h, In h seen -> h = None)
          rs (proxy_run None [] rs).
Proof.
  intros H. pose proof (proxy_run_current None rs [] (pool_ok_nil None) H) as X.
  unfold proxy_run. clear H. induction X as [|[[p hs] t] seen rs' l' [A _] _ IH]; [constructor|].
  constructor; [|exact IH]. cbn [fst snd] in *. intros Hn h Hin. rewrite (A h Hin). unfold sent_auth, connect_auth, proxy_auth.
  rewrite Hn. destruct hs; reflexivity.
Qed.

(* keyed by URL.Redacted() instead (seeded change c-m1): the rotated password is not sent *)
Example redacted_key_refuted :
  let a := mkPU (Some (bs "alice", Some (bs "first-secret"))) (bs "127.0.0.1:3128") in
  let b := mkPU (Some (bs "alice", Some (bs "second-secret"))) (bs "127.0.0.1:3128") in
  proxy_run_with pu_redacted None [] [(a, false, []); (b, false, [])] = [[proxy_auth a]; [proxy_auth a]] /\
  proxy_auth a <> proxy_auth b /\
  proxy_run None [] [(a, false, []); (b, false, [])] = [[proxy_auth a]; [proxy_auth b]].
Proof. cbv zeta. repeat split; try (vm_compute; reflexivity). vm_compute. discriminate. Qed.

(* the CONNECT header written into the shared static map (seeded change d-m3): the first proxy's
   credentials reach a later proxy that was given none *)
Example shared_connect_header_refuted :
  let a := mkPU (Some (bs "alice", Some (bs "secret"))) (bs "127.0.0.1:3128") in
  let b := mkPU None (bs "127.0.0.1:3129") in
  let rs := [(a, true, bs "origin:443"); (b, true, bs "origin:443")] in
  proxy_run None [] rs = [[proxy_auth a]; [None]] /\
  proxy_run_shared None [] rs = [[proxy_auth a]; [proxy_auth a]].
Proof. cbv zeta. split; vm_compute; reflexivity. Qed.

(* ---------- the source is the one modelled ---------- *)

Lemma proxy_source_as_modelled :
  proxy_key_source = [bs "cm.proxyURL.String()"] /\
  proxy_key_fields = [bs "proxy: proxyStr"; bs "scheme: cm.targetScheme"; bs "addr: targetAddr"; bs "onlyH1: cm.onlyH1"] /\
  proxy_auth_returns = [bs """"""; bs """Basic "" + basicAuth(username, password)"; bs """"""] /\
  basic_auth_source = [bs "auth := username + "":"" + password"; bs "return base64.StdEncoding.EncodeToString([]byte(auth))"].
Proof. repeat split; reflexivity. Qed.
