(* Proofs/H1TransferProofs.v - C04: the transfer decision of Model/H1Resp.v (readTransfer):
   Transfer-Encoding, Content-Length incl. duplicate / contradictory values, Connection and
   keep-alive, Trailer declarations, the framing chosen, and the role of the request method. *)
From ReqV Require Import Lib.Bytes Lib.BytesFacts Model.H1Resp Model.H1Render
  Proofs.H1RespProofs Proofs.H1HeadProofs.
From Coq Require Import Lia ZifyBool ZifyNat ZifyN.

(* ====================================================================== *)
(* Content-Length values                                                  *)
(* ====================================================================== *)

Definition dec_value_from (acc : Z) (s : bytes) : Z := fold_left (fun a b => (a * 10 + dval b)%Z) s acc.
Definition dec_value (s : bytes) : Z := dec_value_from 0 s.

Lemma digits_val_spec s : forall acc n,
  digits_val acc s = Some n <-> forallb is_digit s = true /\ n = dec_value_from acc s.
Proof.
  induction s as [|b r IH]; intros acc n; cbn [digits_val forallb].
  - unfold dec_value_from. cbn. split; [intros H; inversion H; auto|intros [_ ->]; reflexivity].
  - destruct (is_digit b) eqn:Hb.
    + rewrite (digit_val_some _ Hb). rewrite IH. unfold dec_value_from. cbn [fold_left andb]. tauto.
    + rewrite (digit_val_none _ Hb). cbn [andb]. split; [discriminate|intros [H _]; discriminate].
Qed.

(* strconv.ParseUint(s, 10, 63): exactly the non-empty digit strings whose value is < 2^63 -
   no sign, no blank, no separator *)
Theorem parse_uint63_spec s n :
  parse_uint63 s = Some n <->
  s <> [] /\ forallb is_digit s = true /\ n = dec_value s /\ (n < 2 ^ 63)%Z.
Proof.
  unfold parse_uint63. destruct s as [|b r]; cbn [is_nil].
  { split; [discriminate|intros [H _]; contradiction]. }
  destruct (digits_val 0 (b :: r)) as [v|] eqn:E.
  - apply digits_val_spec in E as [Hd Hv]. fold (dec_value (b :: r)) in Hv.
    destruct (Z.ltb_spec v (2 ^ 63)).
    + split.
      * intros H'; inversion H'; subst. repeat split; auto. discriminate.
      * intros (_ & _ & -> & _). now rewrite Hv.
    + split; [discriminate|]. intros (_ & _ & -> & Hlt). lia.
  - split; [discriminate|]. intros (_ & Hd & Hn & _).
    assert (digits_val 0 (b :: r) = Some n) by (apply digits_val_spec; auto).
    congruence.
Qed.

Lemma dec_value_from_nonneg s : forall acc, (0 <= acc)%Z -> forallb is_digit s = true -> (0 <= dec_value_from acc s)%Z.
Proof.
  induction s as [|b r IH]; intros acc Ha Hd; [exact Ha|].
  cbn [forallb] in Hd. apply andb_true_iff in Hd as [Hb Hr].
  unfold dec_value_from. cbn [fold_left]. apply IH; [|assumption].
  pose proof (dval_range _ Hb). lia.
Qed.

Theorem parse_uint63_range s n : parse_uint63 s = Some n -> (0 <= n < 2 ^ 63)%Z.
Proof.
  intros H. apply parse_uint63_spec in H as (_ & Hd & -> & Hlt). split; [|assumption].
  now apply dec_value_from_nonneg.
Qed.

(* ---------- trimming is idempotent ---------- *)

Lemma drop_while_idem f s : drop_while f (drop_while f s) = drop_while f s.
Proof.
  induction s as [|x r IH]; [reflexivity|]. cbn [drop_while]. destruct (f x) eqn:E; [exact IH|].
  cbn [drop_while]. now rewrite E.
Qed.

Lemma drop_while_snoc f a x : f x = false -> drop_while f (a ++ [x]) = drop_while f a ++ [x].
Proof.
  intros Hx. induction a as [|y r IH]; cbn [app drop_while]; [now rewrite Hx|].
  destruct (f y); [exact IH|reflexivity].
Qed.

Lemma trim_right_idem f t : trim_right f (trim_right f t) = trim_right f t.
Proof. unfold trim_right. now rewrite rev_involutive, drop_while_idem. Qed.

Lemma trim_right_keeps_clean f t : drop_while f t = t -> drop_while f (trim_right f t) = trim_right f t.
Proof.
  destruct t as [|x t']; [reflexivity|]. cbn [drop_while]. destruct (f x) eqn:E.
  - intros H. exfalso. pose proof (f_equal (@length byte) H) as L. cbn [length] in L.
    assert (length (drop_while f t') <= length t').
    { clear. induction t' as [|y r IH]; cbn; [lia|]. destruct (f y); cbn; lia. }
    lia.
  - intros _. unfold trim_right. cbn [rev]. rewrite drop_while_snoc by assumption.
    rewrite rev_app_distr. cbn [rev app drop_while]. now rewrite E.
Qed.

Theorem trim_idem f s : trim f (trim f s) = trim f s.
Proof.
  unfold trim, trim_left.
  rewrite (trim_right_keeps_clean f (drop_while f s)) by apply drop_while_idem.
  apply trim_right_idem.
Qed.

Lemma trim_string_idem s : trim_string (trim_string s) = trim_string s.
Proof. apply trim_idem. Qed.

(* ====================================================================== *)
(* fixLength: the complete decision table                                 *)
(* ====================================================================== *)

Definition cl_values (h : hmap) : list bytes := match hget K_CL h with Some v => v | None => [] end.

Definition cls_agree (cls : list bytes) : bool :=
  match cls with
  | c0 :: rest => forallb (fun c => bytes_eqb (trim_string c0) (trim_string c)) rest
  | [] => true
  end.

(* header after de-duplication of identical Content-Length values *)
Definition dedup_header (h : hmap) : hmap :=
  match cl_values h with
  | c0 :: _ :: _ => hadd K_CL (trim_string c0) (hdel K_CL h)
  | _ => h
  end.

Definition no_body_expected (code : Z) (meth : bytes) : bool :=
  is_head meth || negb (body_allowed_for_status code).

Lemma div100_is_1xx code : (code / 100 =? 1)%Z = ((100 <=? code)%Z && (code <=? 199)%Z).
Proof.
  pose proof (Z.div_mod code 100 ltac:(lia)) as Hd.
  pose proof (Z.mod_pos_bound code 100 ltac:(lia)) as Hm.
  destruct (Z.eqb_spec (code / 100) 1), (Z.leb_spec 100 code), (Z.leb_spec code 199);
    cbn [andb]; try reflexivity; exfalso; lia.
Qed.

Lemma no_body_expected_alt code meth :
  no_body_expected code meth =
  (is_head meth || (code / 100 =? 1)%Z || ((code =? 204)%Z || (code =? 304)%Z)).
Proof.
  unfold no_body_expected, body_allowed_for_status. rewrite div100_is_1xx, negb_involutive.
  now rewrite <- !orb_assoc.
Qed.

(* (1) two Content-Length values that differ after trimming: always an error - whatever the
   method, the status or the Transfer-Encoding *)
Theorem fix_length_conflict code meth h chunked :
  cls_agree (cl_values h) = false -> fix_length code meth h chunked = inl HBadContentLength.
Proof.
  unfold fix_length, cls_agree. fold (cl_values h). destruct (cl_values h) as [|c0 [|c1 r]]; try discriminate.
  intros H. now rewrite H.
Qed.

(* (2) a Content-Length that is not a 63-bit decimal (after trimming SP HT CR LF): always an error,
   also for HEAD / 1xx / 204 / 304 and when chunked *)
Theorem fix_length_invalid code meth h chunked c0 rest :
  cl_values h = c0 :: rest -> parse_uint63 (trim_string c0) = None ->
  fix_length code meth h chunked = inl HBadContentLength.
Proof.
  unfold fix_length. fold (cl_values h). intros -> Hp.
  destruct rest as [|c1 r].
  - cbn [is_nil parse_content_length]. now rewrite Hp.
  - destruct (forallb _ (c1 :: r)); [|reflexivity].
    cbn [is_nil parse_content_length]. now rewrite trim_string_idem, Hp.
Qed.

(* (3) otherwise the result is given by this table; duplicates are collapsed to one value *)
Theorem fix_length_table code meth h chunked :
  cls_agree (cl_values h) = true ->
  forall v, match cl_values h with
            | c0 :: _ => parse_uint63 (trim_string c0) = Some v
            | [] => v = (-1)%Z
            end ->
  fix_length code meth h chunked =
    inr (if no_body_expected code meth then (0%Z, dedup_header h)
         else if chunked then ((-1)%Z, hdel K_CL (dedup_header h))
         else if is_nil (cl_values h) then ((-1)%Z, hdel K_CL (dedup_header h))
         else (v, dedup_header h)).
Proof.
  unfold fix_length, cls_agree, dedup_header. fold (cl_values h). rewrite no_body_expected_alt.
  destruct (cl_values h) as [|c0 [|c1 r]]; intros Ha v Hv.
  - subst v. cbn [is_nil]. destruct (is_head meth); [reflexivity|]. cbn [orb].
    destruct (code / 100 =? 1)%Z; [reflexivity|]. cbn [orb].
    destruct ((code =? 204)%Z || (code =? 304)%Z); [reflexivity|].
    destruct chunked; reflexivity.
  - cbn [is_nil parse_content_length]. rewrite Hv.
    destruct (is_head meth); [reflexivity|]. cbn [orb].
    destruct (code / 100 =? 1)%Z; [reflexivity|]. cbn [orb].
    destruct ((code =? 204)%Z || (code =? 304)%Z); [reflexivity|].
    destruct chunked; reflexivity.
  - rewrite Ha. cbn [is_nil parse_content_length].
    rewrite trim_string_idem, Hv.
    destruct (is_head meth); [reflexivity|]. cbn [orb].
    destruct (code / 100 =? 1)%Z; [reflexivity|]. cbn [orb].
    destruct ((code =? 204)%Z || (code =? 304)%Z); [reflexivity|].
    destruct chunked; reflexivity.
Qed.

(* ====================================================================== *)
(* parseTransferEncoding                                                  *)
(* ====================================================================== *)

Definition proto_at_least_1_1 (ma mi : Z) : bool := (ma >? 1)%Z || ((ma =? 1)%Z && (mi >=? 1)%Z).

(* the complete table: absent -> untouched; below HTTP/1.1 -> ignored but removed; one value
   equal to "chunked" in any letter case -> chunked; ANYTHING else (two values, "gzip, chunked",
   "chunked " with a blank, "identity", empty) -> error *)
Theorem transfer_encoding_table ma mi h :
  parse_transfer_encoding ma mi h =
  match hget K_TE h with
  | None => inr (false, h)
  | Some raw =>
      if negb (proto_at_least_1_1 ma mi) then inr (false, hdel K_TE h)
      else match raw with
           | [v] => if bytes_eqb (to_lower v) (bs "chunked") then inr (true, hdel K_TE h)
                    else inl HBadTransferEncoding
           | _ => inl HBadTransferEncoding
           end
  end.
Proof. reflexivity. Qed.

Lemma hget_hdel_same k m : hget k (hdel k m) = None.
Proof.
  induction m as [|[k' vs] r IH]; [reflexivity|]. cbn [hdel].
  destruct (bytes_eqb k k') eqn:E; [exact IH|]. cbn [hget]. now rewrite E.
Qed.

Lemma hget_hdel_other k k' m : bytes_eqb k k' = false -> hget k (hdel k' m) = hget k m.
Proof.
  intros Hk. induction m as [|[k2 vs] r IH]; [reflexivity|]. cbn [hdel hget].
  destruct (bytes_eqb k' k2) eqn:E.
  - apply bytes_eqb_eq in E. subst k2. now rewrite Hk.
  - cbn [hget]. destruct (bytes_eqb k k2); [reflexivity|exact IH].
Qed.

Lemma hget_hadd_other k k' v m : bytes_eqb k k' = false -> hget k (hadd k' v m) = hget k m.
Proof.
  intros Hk. induction m as [|[k2 vs] r IH]; cbn [hadd hget].
  - now rewrite Hk.
  - destruct (bytes_eqb k' k2) eqn:E; cbn [hget].
    + apply bytes_eqb_eq in E. subst k2. now rewrite Hk.
    + destruct (bytes_eqb k k2); [reflexivity|exact IH].
Qed.

Lemma hget_hset_other k k' v m : bytes_eqb k k' = false -> hget k (hset k' v m) = hget k m.
Proof.
  intros Hk. induction m as [|[k2 vs] r IH]; cbn [hset hget].
  - now rewrite Hk.
  - destruct (bytes_eqb k' k2) eqn:E; cbn [hget].
    + apply bytes_eqb_eq in E. subst k2. now rewrite Hk.
    + destruct (bytes_eqb k k2); [reflexivity|exact IH].
Qed.

(* after a successful parse the Transfer-Encoding field is gone from the header map, and no
   other field was touched *)
Theorem transfer_encoding_removed ma mi h ch h' :
  parse_transfer_encoding ma mi h = inr (ch, h') ->
  hget K_TE h' = None /\ forall k, bytes_eqb k K_TE = false -> hget k h' = hget k h.
Proof.
  rewrite transfer_encoding_table. destruct (hget K_TE h) as [raw|] eqn:E.
  - assert (G : hget K_TE (hdel K_TE h) = None /\
                forall k, bytes_eqb k K_TE = false -> hget k (hdel K_TE h) = hget k h).
    { split; [apply hget_hdel_same|intros k Hk; now apply hget_hdel_other]. }
    destruct (negb _); [intros H; inversion H; subst; exact G|].
    destruct raw as [|v [|w r]]; try discriminate.
    destruct (bytes_eqb _ _); [|discriminate]. intros H; inversion H; subst; exact G.
  - intros H; inversion H; subst. auto.
Qed.

(* ====================================================================== *)
(* shouldClose                                                            *)
(* ====================================================================== *)

Definition conn_values (h : hmap) : list bytes := match hget K_CONNECTION h with Some v => v | None => [] end.
Definition has_close (h : hmap) : bool := header_values_contain_token (conn_values h) (bs "close").
Definition has_keep_alive (h : hmap) : bool := header_values_contain_token (conn_values h) (bs "keep-alive").

(* below HTTP/1: close.  HTTP/1.0: close unless "keep-alive" (and no "close").  Otherwise:
   keep alive unless a "close" token, and the Connection field is dropped when it says close *)
Theorem should_close_table ma mi h :
  should_close ma mi h =
  if (ma <? 1)%Z then (true, h)
  else if (ma =? 1)%Z && (mi =? 0)%Z then (has_close h || negb (has_keep_alive h), h)
  else if has_close h then (true, hdel K_CONNECTION h)
  else (false, h).
Proof. reflexivity. Qed.

(* token matching: ASCII case-insensitive, optional blanks around the comma-separated items *)
Lemma token_equal_fold t tok :
  forallb (fun b => (bN b <? 128)%N) t = true ->
  token_equal t tok = bytes_eqb (to_lower t) (to_lower tok).
Proof.
  intros Ha. unfold token_equal. rewrite Ha, andb_true_r.
  destruct (bytes_eqb (to_lower t) (to_lower tok)) eqn:E; [|apply andb_false_r].
  apply bytes_eqb_eq in E. apply (f_equal (@length byte)) in E. unfold to_lower in E.
  rewrite !map_length in E. rewrite E, Nat.eqb_refl. reflexivity.
Qed.

(* ====================================================================== *)
(* fixTrailer                                                             *)
(* ====================================================================== *)

Definition declared_keys (vv : list bytes) : list bytes :=
  map canonical_header_key (flat_map header_elements vv).

Theorem fix_trailer_table h chunked :
  fix_trailer h chunked =
  match hget K_TRAILER h with
  | None => inr ([], h)
  | Some vv =>
      if negb chunked then inr ([], h)     (* kept in Header, Response.Trailer stays nil *)
      else if existsb bad_trailer_key (declared_keys vv) then inl HBadTrailerKey
      else inr (fold_left (fun t k => hset k [] t) (declared_keys vv) [], hdel K_TRAILER h)
  end.
Proof. reflexivity. Qed.

Lemma fold_hset_nil_values keys : forall t,
  (forall k vs, hget k t = Some vs -> vs = []) ->
  forall k vs, hget k (fold_left (fun t k => hset k [] t) keys t) = Some vs -> vs = [].
Proof.
  induction keys as [|k0 r IH]; intros t Ht k vs; cbn [fold_left]; [apply Ht|].
  apply IH. clear - Ht. intros k vs.
  destruct (bytes_eqb k k0) eqn:E.
  - apply bytes_eqb_eq in E. subst k0.
    assert (G : hget k (hset k [] t) = Some []).
    { clear. induction t as [|[k2 v2] r IH]; cbn [hset hget]; [now rewrite bytes_eqb_refl|].
      destruct (bytes_eqb k k2) eqn:E; cbn [hget]; rewrite E; [reflexivity|exact IH]. }
    rewrite G. intros H; inversion H; reflexivity.
  - rewrite hget_hset_other by assumption. apply Ht.
Qed.

(* a declared trailer never names Transfer-Encoding, Trailer or Content-Length (in any letter
   case), every declared key is present with no value yet, and the Trailer field itself is
   moved out of the header *)
Theorem fix_trailer_ok h tr h' :
  fix_trailer h true = inr (tr, h') ->
  match hget K_TRAILER h with
  | None => tr = [] /\ h' = h
  | Some vv => existsb bad_trailer_key (declared_keys vv) = false /\
               hget K_TRAILER h' = None /\
               (forall k vs, hget k tr = Some vs -> vs = [])
  end.
Proof.
  rewrite fix_trailer_table. destruct (hget K_TRAILER h) as [vv|] eqn:E; cbn [negb].
  - destruct (existsb bad_trailer_key (declared_keys vv)) eqn:Eb; [discriminate|].
    intros H; inversion H; subst. split; [reflexivity|]. split; [apply hget_hdel_same|].
    apply fold_hset_nil_values. intros k vs Hk. discriminate.
  - intros H; inversion H; subst. auto.
Qed.

Lemma bad_trailer_key_cases k :
  bad_trailer_key (canonical_header_key k) = true <->
  to_lower k = bs "transfer-encoding" \/ to_lower k = bs "trailer" \/ to_lower k = bs "content-length".
Proof.
  unfold bad_trailer_key, canonical_header_key.
  assert (Hc : forall lit, forallb is_tchar lit = true -> canon_go true lit = lit ->
                 (bytes_eqb (if forallb is_tchar k then canon_go true k else k) lit = true <->
                  to_lower k = to_lower lit)).
  { intros lit Hl Hfix. destruct (forallb is_tchar k) eqn:Et.
    - rewrite bytes_eqb_eq. split.
      + intros H. rewrite <- H. symmetry. apply canon_only_case.
      + intros H. rewrite <- Hfix. now apply canon_case_insensitive.
    - rewrite bytes_eqb_eq. split; [now intros ->|].
      intros H. exfalso.
      assert (forallb is_tchar (to_lower k) = true).
      { rewrite H. unfold to_lower. apply forallb_forall. intros x Hx. apply in_map_iff in Hx as (y & <- & Hy).
        pose proof (proj1 (forallb_forall _ _) Hl y Hy) as Hy'.
        revert Hy'. clear. destruct y; vm_compute; congruence. }
      assert (forallb is_tchar k = true).
      { apply forallb_forall. intros x Hx.
        pose proof (proj1 (forallb_forall _ _) H0 (lower_byte x)) as Hl'.
        assert (In (lower_byte x) (to_lower k)) by (unfold to_lower; now apply in_map).
        specialize (Hl' H1). revert Hl'. clear. destruct x; vm_compute; congruence. }
      congruence. }
  rewrite !orb_true_iff.
  rewrite (Hc K_TE eq_refl eq_refl), (Hc K_TRAILER eq_refl eq_refl), (Hc K_CL eq_refl eq_refl).
  tauto.
Qed.

(* ====================================================================== *)
(* readTransfer: framing, keep-alive, request method                      *)
(* ====================================================================== *)

Definition eff_version (sl : status_line) : Z * Z :=
  if (sl_major sl =? 0)%Z && (sl_minor sl =? 0)%Z then (1, 1)%Z else (sl_major sl, sl_minor sl).

(* inversion of a successful readTransfer into its stages *)
Lemma read_transfer_inv meth sl h0 r :
  read_transfer meth sl h0 = inr r ->
  exists chunked h2 real_len h3 cl tr h4,
    let '(close0, h1) := should_close (sl_major sl) (sl_minor sl) h0 in
    parse_transfer_encoding (fst (eff_version sl)) (snd (eff_version sl)) h1 = inr (chunked, h2) /\
    fix_length (sl_code sl) meth h2 chunked = inr (real_len, h3) /\
    (if is_head meth then parse_content_length (cl_values h3) else Some real_len) = Some cl /\
    fix_trailer h3 chunked = inr (tr, h4) /\
    r_chunked r = chunked /\ r_header r = h4 /\ r_content_length r = cl /\
    r_trailer_declared r = tr /\ r_code r = sl_code sl /\ r_proto r = sl_proto sl /\
    r_status r = sl_status sl /\
    r_close r = (close0 || ((real_len =? -1)%Z && negb chunked && body_allowed_for_status (sl_code sl))) /\
    r_framing r =
      (if chunked then (if no_body_expected (sl_code sl) meth then FrNone else FrChunked)
       else if (real_len =? 0)%Z then FrNone
       else if (real_len >? 0)%Z then FrLength real_len
       else if r_close r then FrUntilClose else FrNone).
Proof.
  unfold read_transfer, eff_version, no_body_expected, cl_values.
  destruct (should_close _ _ h0) as [close0 h1].
  destruct (if (sl_major sl =? 0)%Z && (sl_minor sl =? 0)%Z then _ else _) as [ma mi]. cbn [fst snd].
  destruct (parse_transfer_encoding ma mi h1) as [e|[chunked h2]] eqn:Ete; [discriminate|].
  destruct (fix_length _ _ _ _) as [e|[real_len h3]] eqn:Efl; [discriminate|].
  destruct (if is_head meth then _ else _) as [cl|] eqn:Ecl; [|discriminate].
  destruct (fix_trailer h3 chunked) as [e|[tr h4]] eqn:Etr; [discriminate|].
  intros H. inversion H; subst; clear H. cbn.
  exists chunked, h2, real_len, h3, cl, tr, h4. repeat split; auto.
Qed.

(* what fixLength can return *)
Lemma fix_length_result code meth h chunked n h' :
  fix_length code meth h chunked = inr (n, h') ->
  (no_body_expected code meth = true /\ n = 0%Z) \/
  (no_body_expected code meth = false /\ chunked = true /\ n = (-1)%Z /\ hget K_CL h' = None) \/
  (no_body_expected code meth = false /\ chunked = false /\ cl_values h = [] /\ n = (-1)%Z) \/
  (no_body_expected code meth = false /\ chunked = false /\ (0 <= n < 2 ^ 63)%Z /\
   exists c0 rest, cl_values h = c0 :: rest /\ parse_uint63 (trim_string c0) = Some n).
Proof.
  intros H.
  destruct (cls_agree (cl_values h)) eqn:Ea.
  2:{ rewrite (fix_length_conflict _ _ _ _ Ea) in H. discriminate. }
  remember (cl_values h) as cls eqn:Ec. symmetry in Ec. rewrite <- Ec in Ea.
  destruct cls as [|c0 rest].
  - rewrite (fix_length_table code meth h chunked Ea (-1)%Z) in H by (now rewrite Ec).
    rewrite Ec in H. cbn [is_nil] in H.
    destruct (no_body_expected code meth); [inversion H; auto|].
    destruct chunked; inversion H; subst.
    + right. left. repeat split; auto. apply hget_hdel_same.
    + right. right. left. auto.
  - destruct (parse_uint63 (trim_string c0)) as [v|] eqn:Ep.
    2:{ rewrite (fix_length_invalid code meth h chunked c0 rest Ec Ep) in H. discriminate. }
    rewrite (fix_length_table code meth h chunked Ea v) in H by (now rewrite Ec).
    rewrite Ec in H. cbn [is_nil] in H.
    destruct (no_body_expected code meth); [inversion H; auto|].
    destruct chunked; inversion H; subst.
    + right. left. repeat split; auto. apply hget_hdel_same.
    + right. right. right. repeat split; auto; try (eapply parse_uint63_range; eauto). eauto.
Qed.

Section Transfer.
  Context (meth : bytes) (sl : status_line) (h0 : hmap) (r : resp).
  Hypothesis Hrt : read_transfer meth sl h0 = inr r.

  (* the framing decision as one table over (HEAD?, status, chunked, Content-Length) *)
  Theorem framing_table :
    r_framing r =
      if no_body_expected (sl_code sl) meth then FrNone
      else if r_chunked r then FrChunked
      else if (r_content_length r =? 0)%Z then FrNone
      else if (r_content_length r >? 0)%Z then FrLength (r_content_length r)
      else FrUntilClose.
  Proof.
    destruct (read_transfer_inv _ _ _ _ Hrt) as (ch & h2 & rl & h3 & cl & tr & h4 & Hinv).
    destruct (should_close _ _ h0) as [close0 h1].
    destruct Hinv as (_ & Hfl & Hcl & _ & Hch & _ & Hrcl & _ & _ & _ & _ & Hclose & Hfr).
    rewrite Hfr, Hch, Hclose. clear Hfr Hclose.
    apply fix_length_result in Hfl as [(Hn & ->)|[(Hn & -> & -> & _)|[(Hn & -> & _ & ->)|(Hn & -> & Hr & _)]]];
      rewrite Hn.
    - destruct ch; reflexivity.
    - reflexivity.
    - unfold no_body_expected in Hn. apply orb_false_iff in Hn as [Hh Hb]. rewrite Hh in Hcl.
      assert (Hx : r_content_length r = (-1)%Z) by congruence. rewrite Hx.
      apply negb_false_iff in Hb. rewrite Hb. cbn. now rewrite orb_true_r.
    - unfold no_body_expected in Hn. apply orb_false_iff in Hn as [Hh Hb]. rewrite Hh in Hcl.
      assert (Hx : r_content_length r = rl) by congruence. rewrite Hx.
      destruct (Z.eqb_spec rl 0); [reflexivity|]. destruct (Z.gtb_spec rl 0); [reflexivity|lia].
  Qed.

  (* a response to HEAD never has a body, whatever it declares *)
  Theorem head_no_body : is_head meth = true -> r_framing r = FrNone.
  Proof. intros H. rewrite framing_table. unfold no_body_expected. now rewrite H. Qed.

  (* 1xx, 204 and 304 never have a body, whatever they declare *)
  Theorem bodiless_status_no_body : body_allowed_for_status (sl_code sl) = false -> r_framing r = FrNone.
  Proof. intros H. rewrite framing_table. unfold no_body_expected. rewrite H. now rewrite orb_true_r. Qed.

  (* a body delimited by the end of the connection forces Close: the connection is never
     kept alive after it - equivalently, a response that may be kept alive is self-delimited *)
  Theorem until_close_implies_close : r_framing r = FrUntilClose -> r_close r = true.
  Proof.
    destruct (read_transfer_inv _ _ _ _ Hrt) as (ch & h2 & rl & h3 & cl & tr & h4 & Hinv).
    destruct (should_close _ _ h0) as [close0 h1].
    destruct Hinv as (_ & _ & _ & _ & _ & _ & _ & _ & _ & _ & _ & _ & Hfr).
    rewrite Hfr. destruct ch; [destruct (no_body_expected _ _); discriminate|].
    destruct (rl =? 0)%Z; [discriminate|]. destruct (rl >? 0)%Z; [discriminate|].
    destruct (r_close r); [reflexivity|discriminate].
  Qed.

  Corollary keep_alive_self_delimited : r_close r = false -> r_framing r <> FrUntilClose.
  Proof. intros H E. apply until_close_implies_close in E. congruence. Qed.

  (* Close is exactly: the Connection/version rule said so, or the body is close-delimited *)
  Theorem close_decision :
    r_close r = (fst (should_close (sl_major sl) (sl_minor sl) h0) ||
                 match r_framing r with FrUntilClose => true | _ => false end).
  Proof.
    destruct (read_transfer_inv _ _ _ _ Hrt) as (ch & h2 & rl & h3 & cl & tr & h4 & Hinv).
    destruct (should_close _ _ h0) as [close0 h1]. cbn [fst].
    destruct Hinv as (_ & Hfl & _ & _ & _ & _ & _ & _ & _ & _ & _ & Hclose & Hfr).
    rewrite Hfr, Hclose. clear Hfr.
    apply fix_length_result in Hfl as [(Hn & ->)|[(Hn & -> & -> & _)|[(Hn & -> & _ & ->)|(Hn & -> & Hr & _)]]].
    - cbn. destruct ch; [destruct (no_body_expected _ _)|]; now rewrite orb_false_r.
    - rewrite Hn. cbn. now rewrite orb_false_r.
    - unfold no_body_expected in Hn. apply orb_false_iff in Hn as [_ Hb]. apply negb_false_iff in Hb.
      rewrite Hb in *. cbn. now rewrite !orb_true_r.
    - destruct (Z.eqb_spec rl (-1)); [lia|]. cbn [andb]. rewrite orb_false_r.
      destruct (Z.eqb_spec rl 0); [now rewrite orb_false_r|].
      destruct (Z.gtb_spec rl 0); [now rewrite orb_false_r|lia].
  Qed.

  (* Transfer-Encoding never survives in the header map; when chunked framing is used the
     Content-Length field is gone too and the length is unknown (-1): TE overrides CL *)
  Theorem chunked_overrides_length :
    r_framing r = FrChunked ->
    r_chunked r = true /\ hget K_CL (r_header r) = None /\ r_content_length r = (-1)%Z.
  Proof.
    intros Hf.
    destruct (read_transfer_inv _ _ _ _ Hrt) as (ch & h2 & rl & h3 & cl & tr & h4 & Hinv).
    destruct (should_close _ _ h0) as [close0 h1].
    destruct Hinv as (_ & Hfl & Hcl & Htr & Hch & Hh & Hrcl & _ & _ & _ & _ & _ & Hfr).
    rewrite Hfr in Hf. destruct ch.
    2:{ destruct (rl =? 0)%Z; [discriminate|]. destruct (rl >? 0)%Z; [discriminate|].
        destruct (r_close r); discriminate. }
    destruct (no_body_expected (sl_code sl) meth) eqn:Hn; [discriminate|].
    apply fix_length_result in Hfl as [(Hn' & _)|[(_ & _ & -> & Hg)|[(_ & Hc & _)|(_ & Hc & _)]]];
      try congruence.
    unfold no_body_expected in Hn. apply orb_false_iff in Hn as [Hh' _]. rewrite Hh' in Hcl.
    inversion Hcl; subst cl. split; [assumption|]. split; [|congruence].
    rewrite Hh. rewrite fix_trailer_table in Htr.
    destruct (hget K_TRAILER h3) as [vv|] eqn:Et; cbn [negb] in Htr.
    - destruct (existsb _ _); [discriminate|]. inversion Htr; subst.
      rewrite hget_hdel_other by reflexivity. exact Hg.
    - inversion Htr; subst. exact Hg.
  Qed.
End Transfer.

(* the request method matters only through "is it HEAD": CONNECT, GET, POST ... are read alike *)
Theorem method_only_head m1 m2 bufsize s :
  is_head m1 = is_head m2 -> parse_response m1 bufsize s = parse_response m2 bufsize s.
Proof.
  intros H. unfold parse_response, read_response_head.
  destruct (read_line bufsize s) as [[line s1]|]; [|reflexivity].
  destruct (parse_status_line line) as [e|sl]; [reflexivity|].
  destruct (read_mime_header bufsize s1) as [e|[h s2]]; [reflexivity|].
  assert (E : read_transfer m1 sl (fix_pragma_cache_control h) = read_transfer m2 sl (fix_pragma_cache_control h)).
  { unfold read_transfer, fix_length. now rewrite H. }
  now rewrite E.
Qed.

Corollary connect_read_like_get bufsize s :
  parse_response (bs "CONNECT") bufsize s = parse_response (bs "GET") bufsize s.
Proof. now apply method_only_head. Qed.

(* Keep-alive and message boundary together: if the parsed response says the connection may
   be kept alive (Close = false) and its body ended cleanly, then whatever the server sends
   next, this message is read identically and ends at the same byte. *)
Theorem keep_alive_boundary meth bufsize s r b t :
  parse_response meth bufsize s = Accepted r b ->
  r_close r = false -> b_end b = BOk ->
  parse_response meth bufsize (s ++ t) = Accepted r (with_rest b (b_rest b ++ t)).
Proof.
  intros H Hc He. apply parse_deterministic_prefix; try assumption.
  unfold parse_response, read_response_head in H.
  destruct (read_line bufsize s) as [[line s1]|]; [|discriminate].
  destruct (parse_status_line line) as [e|sl]; [discriminate|].
  destruct (read_mime_header bufsize s1) as [e|[h s2]]; [discriminate|].
  destruct (read_transfer meth sl (fix_pragma_cache_control h)) as [e|r0] eqn:E; [discriminate|].
  inversion H; subst. eapply keep_alive_self_delimited; eauto.
Qed.
