(* Proofs/StreamWireProofs.v - C03: HTTP/3 response bodies at the level of the bytes on the
   stream (Model/StreamWire.v h3_wire_read): for every sequence of DATA frames (any payloads,
   any of the four varint widths for type and length), EVERY cut offset and every way the
   stream can end, what the caller gets is a prefix of the body and the result is clean only
   if the stream ended by FIN between two frames and every declared byte was delivered. *)
From ReqV Require Import Lib.Bytes Lib.BytesFacts Lib.BigEndian Model.BodyFraming Model.StreamBody
  Model.QuicVarint Model.StreamWire Proofs.QuicVarintProofs Proofs.StreamBodyProofs.
From Coq Require Import Lia ZifyBool ZifyNat ZifyN.
Local Open Scope nat_scope.

(* ---------- a DATA frame as a peer may write it ---------- *)
Record dframe := mkDF { df_lt : N; df_ll : N; df_p : bytes }.   (* varint widths, payload *)

Definition df_hdr (f : dframe) : bytes := vi_form (df_lt f) 0 ++ vi_form (df_ll f) (lenN (df_p f)).
Definition df_render (f : dframe) : bytes := df_hdr f ++ df_p f.
Definition df_wf (f : dframe) : Prop :=
  vi_lenok (df_lt f) /\ vi_lenok (df_ll f) /\ (lenN (df_p f) < 2 ^ (8 * df_ll f - 2))%N.

Definition h3_render (fs : list dframe) : bytes := concat (map df_render fs).
Definition h3_body (fs : list dframe) : bytes := concat (map df_p fs).
Definition h3_events (fs : list dframe) : list h3ev := map (fun f => H3Data (lenN (df_p f)) (df_p f)) fs.

Lemma zero_fits l : vi_lenok l -> (0 < 2 ^ (8 * l - 2))%N.
Proof. intros [->|[->|[->| ->]]]; reflexivity. Qed.

Lemma lenok_pos l : vi_lenok l -> (0 < l)%N.
Proof. intros [->|[->|[->| ->]]]; reflexivity. Qed.

(* a varint cut short is the reader's error *)
Lemma vi_read_cut l v rest j : vi_lenok l -> (v < 2 ^ (8 * l - 2))%N -> j < N.to_nat l ->
  vi_read (firstn j (vi_form l v ++ rest)) = None.
Proof.
  intros L H J. rewrite firstn_app_l by (rewrite vi_form_length; lia).
  destruct j as [|j]; [reflexivity|].
  destruct (vi_form_head l v L H) as (f & r & E & W).
  pose proof (vi_form_length l v) as HL. rewrite E in *. cbn [firstn].
  rewrite vi_read_parse, vi_parse_short; [reflexivity|].
  rewrite W. unfold lenN. cbn [length] in *. rewrite firstn_length. lia.
Qed.

Lemma firstn_lenN (p R : bytes) : firstn (N.to_nat (lenN p)) (p ++ R) = p.
Proof. unfold lenN. rewrite Nat2N.id. apply firstn_app_exact. Qed.
Lemma skipn_lenN (p R : bytes) : skipn (N.to_nat (lenN p)) (p ++ R) = R.
Proof. unfold lenN. rewrite Nat2N.id. apply skipn_app_exact. Qed.

(* ---------- one whole frame ---------- *)
Lemma loop_whole : forall f fu strict rem R e, df_wf f ->
  h3_wire_loop (S fu) strict rem false (df_render f ++ R) e =
  if (lenN (df_p f) =? 0)%N then h3_wire_loop fu strict rem false R e
  else match rem with
       | None => add_data (df_p f) (h3_wire_loop fu strict None false R e)
       | Some m =>
           if (m <? lenN (df_p f))%N then (firstn (N.to_nat m) (df_p f), W3 H3TooMuch)
           else add_data (df_p f) (h3_wire_loop fu strict (Some (m - lenN (df_p f))%N) false R e)
       end.
Proof.
  intros [lt ll p] fu strict rem R e (Lt & Ll & Hp). cbn [df_lt df_ll df_p] in *.
  unfold df_render, df_hdr. cbn [df_lt df_ll df_p]. cbn [h3_wire_loop].
  rewrite <- !app_assoc. rewrite vi_read_form by (auto using zero_fits).
  rewrite vi_read_form by assumption.
  change (0 =? h3t_data)%N with true. cbv iota.
  rewrite firstn_lenN, skipn_lenN.
  destruct (lenN p =? 0)%N; [reflexivity|].
  rewrite N.ltb_irrefl.
  destruct rem as [m|]; [|reflexivity].
  destruct (N.ltb_spec m (lenN p)); [|reflexivity].
  destruct (N.leb_spec m (lenN p)); [reflexivity|lia].
Qed.

(* ---------- one frame cut short ---------- *)
Lemma firstn_firstn_min {A} (l : list A) a b : firstn a (firstn b l) = firstn (Nat.min a b) l.
Proof. apply firstn_firstn. Qed.

Lemma loop_cut : forall f fu strict rem j e, df_wf f -> j < length (df_render f) ->
  exists d r, h3_wire_loop (S fu) strict rem false (firstn j (df_render f)) e = (d, r) /\
    (exists m, d = firstn m (df_p f)) /\
    (forall k, rem = Some k -> (lenN d <= k)%N) /\
    (j = 0 -> d = [] /\ r = W3 (h3_end_boundary strict rem e)) /\
    (0 < j -> r = W3 H3TooMuch \/ r = W3 (h3_end_inside strict e)).
Proof.
  intros [lt ll p] fu strict rem j e (Lt & Ll & Hp) J. cbn [df_lt df_ll df_p] in *.
  unfold df_render, df_hdr in *. cbn [df_lt df_ll df_p] in *.
  rewrite !app_length, !vi_form_length in J.
  pose proof (lenok_pos _ Lt) as Plt. pose proof (lenok_pos _ Ll) as Pll.
  assert (Z0 := zero_fits _ Lt).
  destruct (Nat.eq_dec j 0) as [-> | Jpos].
  { (* nothing of the frame arrived: the stream ended between two frames *)
    cbn [firstn h3_wire_loop vi_read]. eexists; eexists; split; [reflexivity|].
    repeat split; try (exists 0; reflexivity); try (intros; cbn; lia); try lia. }
  destruct (Nat.lt_ge_cases j (N.to_nat lt)) as [J1|J1].
  { (* inside the frame type *)
    cbn [h3_wire_loop]. rewrite <- app_assoc. rewrite vi_read_cut by assumption.
    eexists; eexists; split; [reflexivity|].
    repeat split; try (exists 0; reflexivity); try (intros; cbn; lia); try lia.
    intros _. right.
    destruct (firstn j (vi_form lt 0 ++ vi_form ll (lenN p) ++ p)) eqn:E; [|reflexivity].
    exfalso. assert (L := firstn_length j (vi_form lt 0 ++ vi_form ll (lenN p) ++ p)).
    rewrite E, !app_length, !vi_form_length in L. cbn in L. lia. }
  (* the type is whole *)
  rewrite <- app_assoc.
  rewrite firstn_app, (firstn_all2 (vi_form lt 0)) by (rewrite vi_form_length; lia).
  rewrite vi_form_length. cbn [h3_wire_loop]. rewrite vi_read_form by assumption.
  destruct (Nat.lt_ge_cases (j - N.to_nat lt) (N.to_nat ll)) as [J2|J2].
  { (* inside the length *)
    rewrite vi_read_cut by assumption.
    eexists; eexists; split; [reflexivity|].
    repeat split; try (exists 0; reflexivity); try (intros; cbn; lia); try lia. auto. }
  (* header whole, payload cut *)
  rewrite firstn_app, (firstn_all2 (vi_form ll (lenN p))) by (rewrite vi_form_length; lia).
  rewrite vi_form_length. rewrite vi_read_form by assumption.
  change (0 =? h3t_data)%N with true. cbv iota.
  set (j' := j - N.to_nat lt - N.to_nat ll) in *.
  assert (Hj' : j' < length p) by lia.
  assert (Fl : length (firstn j' p) = j') by (rewrite firstn_length; lia).
  assert (E1 : firstn (N.to_nat (lenN p)) (firstn j' p) = firstn j' p).
  { apply firstn_all2. unfold lenN. lia. }
  rewrite E1.
  assert (G : lenN (firstn j' p) = N.of_nat j') by (unfold lenN; rewrite Fl; reflexivity).
  rewrite G.
  destruct (N.eqb_spec (lenN p) 0) as [Z|Z]; [unfold lenN in Z; lia|].
  assert (Lp : (N.of_nat j' < lenN p)%N) by (unfold lenN; lia).
  destruct rem as [m|].
  - destruct (N.ltb_spec m (lenN p)) as [M|M].
    + destruct (N.leb_spec m (N.of_nat j')) as [M2|M2].
      * eexists; eexists; split; [reflexivity|].
        repeat split; try lia; auto.
        -- exists (Nat.min (N.to_nat m) j'). apply firstn_firstn_min.
        -- intros k [= <-]. unfold lenN. rewrite firstn_length. lia.
      * eexists; eexists; split; [reflexivity|].
        repeat split; try lia; auto.
        -- exists j'. reflexivity.
        -- intros k [= <-]. lia.
    + destruct (N.ltb_spec (N.of_nat j') (lenN p)); [|lia].
      eexists; eexists; split; [reflexivity|].
      repeat split; try lia; auto.
      * exists j'. reflexivity.
      * intros k [= <-]. lia.
  - destruct (N.ltb_spec (N.of_nat j') (lenN p)); [|lia].
    eexists; eexists; split; [reflexivity|].
    repeat split; try lia; auto; try discriminate.
    exists j'. reflexivity.
Qed.

(* ---------- every cut of every frame sequence ---------- *)
(* the cut falls between two frames, after the first i of them, and d is their payload *)
Definition h3_boundary (fs : list dframe) (k : nat) (d : bytes) : Prop :=
  exists i, k = length (h3_render (firstn i fs)) /\ d = h3_body (firstn i fs).

Lemma h3_render_cons f fs : h3_render (f :: fs) = df_render f ++ h3_render fs.
Proof. reflexivity. Qed.
Lemma h3_body_cons f fs : h3_body (f :: fs) = df_p f ++ h3_body fs.
Proof. reflexivity. Qed.

Lemma df_render_len2 f : df_wf f -> 2 <= length (df_render f).
Proof.
  intros (Lt & Ll & _). unfold df_render, df_hdr. rewrite !app_length, !vi_form_length.
  pose proof (lenok_pos _ Lt). pose proof (lenok_pos _ Ll). lia.
Qed.

Definition clean_only_if (fs : list dframe) (k : nat) (rem : option N) (e : h3end)
           (d : bytes) (r : h3wres) : Prop :=
  r = W3 H3Clean -> e = EndFin /\ h3_boundary fs k d /\ (rem = None \/ rem = Some (lenN d)).

Lemma end_boundary_clean rem e :
  h3_end_boundary true rem e = H3Clean -> e = EndFin /\ (rem = None \/ rem = Some 0%N).
Proof.
  destruct e; cbn; try discriminate. destruct rem as [m|]; [|auto].
  destruct (N.ltb_spec 0 m); cbn; [discriminate|]. intros _. split; [reflexivity|].
  right. f_equal. lia.
Qed.

Lemma end_inside_not_clean e : h3_end_inside true e <> H3Clean.
Proof. destruct e; discriminate. Qed.

Theorem h3_wire_cut_loop : forall fs, Forall df_wf fs ->
  forall fu rem k e, k <= length (h3_render fs) -> k < fu ->
  exists d r, h3_wire_loop fu true rem false (firstn k (h3_render fs)) e = (d, r) /\
    (exists m, d = firstn m (h3_body fs)) /\
    (forall n, rem = Some n -> (lenN d <= n)%N) /\
    clean_only_if fs k rem e d r.
Proof.
  induction fs as [|f fs IH]; intros W fu rem k e K Fu.
  - cbn in K. assert (k = 0) by lia. subst k. destruct fu as [|fu]; [lia|].
    cbn. eexists; eexists; split; [reflexivity|].
    split; [exists 0; reflexivity|]. split; [intros; cbn; lia|].
    intros [= C]. apply end_boundary_clean in C. destruct C as [-> C].
    repeat split; auto. exists 0. split; reflexivity.
  - inversion W as [|? ? Wf Wfs]; subst.
    rewrite h3_render_cons in *. rewrite app_length in K.
    destruct fu as [|fu]; [lia|].
    destruct (Nat.lt_ge_cases k (length (df_render f))) as [Kc|Kw].
    + (* the cut falls inside (or right before) this frame *)
      rewrite firstn_app_l by lia.
      destruct (loop_cut f fu true rem k e Wf Kc) as (d & r & E & (m & Hm) & Hb & H0 & Hpos).
      exists d, r. split; [exact E|]. rewrite h3_body_cons.
      split; [|split; [exact Hb|]].
      * exists (Nat.min m (length (df_p f))). subst d.
        rewrite firstn_app_l by lia. rewrite <- firstn_firstn_min.
        rewrite (firstn_all (df_p f)). reflexivity.
      * intros C. destruct (Nat.eq_dec k 0) as [-> | Kp].
        -- destruct (H0 eq_refl) as [-> Hr]. rewrite Hr in C. injection C as C.
           apply end_boundary_clean in C. destruct C as [-> C].
           repeat split; auto. exists 0. split; reflexivity.
        -- exfalso. destruct (Hpos ltac:(lia)) as [-> | ->]; [discriminate|].
           injection C as C. exact (end_inside_not_clean _ C).
    + (* this frame arrived whole *)
      assert (Ek : firstn k (df_render f ++ h3_render fs) =
                   df_render f ++ firstn (k - length (df_render f)) (h3_render fs)).
      { rewrite firstn_app, firstn_all2 by lia. reflexivity. }
      rewrite Ek. rewrite loop_whole by assumption.
      pose proof (df_render_len2 f Wf) as L2.
      set (k' := k - length (df_render f)) in *.
      assert (Bd : forall d r rem', clean_only_if fs k' rem' e d r ->
                   r = W3 H3Clean -> e = EndFin /\ h3_boundary (f :: fs) k (df_p f ++ d)).
      { intros d r rem' Hc C. destruct (Hc C) as (-> & (i & Hi & Hd) & _). split; [reflexivity|].
        exists (S i). cbn [firstn]. rewrite h3_render_cons, h3_body_cons, app_length. subst d.
        split; [lia|reflexivity]. }
      destruct (N.eqb_spec (lenN (df_p f)) 0) as [Z|Z].
      * assert (Ep : df_p f = []) by (destruct (df_p f); [reflexivity|unfold lenN in Z; cbn in Z; lia]).
        destruct (IH Wfs fu rem k' e ltac:(lia) ltac:(lia)) as (d & r & E & (m & Hm) & Hb & Hc).
        exists d, r. split; [exact E|]. rewrite h3_body_cons, Ep. cbn [app].
        split; [exists m; exact Hm|]. split; [exact Hb|].
        intros C. destruct (Bd _ _ _ Hc C) as [He Hbd]. destruct (Hc C) as (_ & _ & Hr).
        rewrite Ep in Hbd. cbn [app] in Hbd. auto.
      * destruct rem as [n|].
        -- destruct (N.ltb_spec n (lenN (df_p f))) as [Hn|Hn].
           ++ eexists; eexists; split; [reflexivity|]. rewrite h3_body_cons.
              split; [exists (N.to_nat n); rewrite firstn_app_l by (unfold lenN in Hn; lia); reflexivity|].
              split; [intros ? [= <-]; unfold lenN; rewrite firstn_length; lia|].
              intros C. discriminate.
           ++ destruct (IH Wfs fu (Some (n - lenN (df_p f))%N) k' e ltac:(lia) ltac:(lia))
                as (d & r & E & (m & Hm) & Hb & Hc).
              rewrite E. unfold add_data. cbn [fst snd].
              exists (df_p f ++ d), r. split; [reflexivity|]. rewrite h3_body_cons.
              split; [exists (length (df_p f) + m); rewrite Hm; apply app_firstn_r|].
              split.
              ** intros ? [= <-]. specialize (Hb _ eq_refl). unfold lenN in *.
                 rewrite app_length. lia.
              ** intros C. destruct (Bd _ _ _ Hc C) as [He Hbd]. destruct (Hc C) as (_ & _ & Hr).
                 repeat split; auto. right. destruct Hr as [Hr|Hr]; [discriminate|].
                 injection Hr as Hr. f_equal. unfold lenN in *. rewrite app_length. lia.
        -- destruct (IH Wfs fu None k' e ltac:(lia) ltac:(lia)) as (d & r & E & (m & Hm) & Hb & Hc).
           rewrite E. unfold add_data. cbn [fst snd].
           exists (df_p f ++ d), r. split; [reflexivity|]. rewrite h3_body_cons.
           split; [exists (length (df_p f) + m); rewrite Hm; apply app_firstn_r|].
           split; [discriminate|].
           intros C. destruct (Bd _ _ _ Hc C) as [He Hbd]. auto.
Qed.

(* the statement for h3_wire_read (its own fuel) *)
Theorem h3_wire_cut_thm : forall fs cl k e, Forall df_wf fs -> k <= length (h3_render fs) ->
  exists d r, h3_wire_read true cl (firstn k (h3_render fs)) e = (d, r) /\
    (exists m, d = firstn m (h3_body fs)) /\
    (forall n, cl = Some n -> (lenN d <= n)%N) /\
    (r = W3 H3Clean -> e = EndFin /\ h3_boundary fs k d /\ (cl = None \/ cl = Some (lenN d))).
Proof.
  intros fs cl k e W K. unfold h3_wire_read.
  apply (h3_wire_cut_loop fs W); [exact K|]. rewrite firstn_length. lia.
Qed.

(* a boundary strictly inside a sequence of non-empty frames has seen less than the body *)
Lemma body_before_boundary : forall fs i, (forall f, In f fs -> df_p f <> []) ->
  length (h3_render (firstn i fs)) < length (h3_render fs) ->
  length (h3_body (firstn i fs)) < length (h3_body fs).
Proof.
  induction fs as [|f fs IH]; intros i N L; [destruct i; cbn in L; lia|].
  destruct i as [|i].
  - cbn [firstn]. rewrite h3_body_cons, app_length. change (length (h3_body [])) with 0.
    assert (df_p f <> []) by (apply N; left; reflexivity).
    destruct (df_p f); [contradiction|cbn; lia].
  - cbn [firstn] in *. rewrite !h3_render_cons, !app_length in L.
    rewrite !h3_body_cons, !app_length.
    assert (length (h3_body (firstn i fs)) < length (h3_body fs)).
    { apply IH; [intros; apply N; right; assumption|lia]. }
    lia.
Qed.

(* with the length declared, a cut strictly inside the message - or any ending other than
   FIN - is always an error, after a prefix of the body *)
Corollary h3_wire_truncation_detected_thm : forall fs k e, Forall df_wf fs ->
  (forall f, In f fs -> df_p f <> []) ->
  k <= length (h3_render fs) ->
  (k < length (h3_render fs) \/ e <> EndFin) ->
  exists d r, h3_wire_read true (Some (lenN (h3_body fs))) (firstn k (h3_render fs)) e = (d, r) /\
    r <> W3 H3Clean /\ exists m, d = firstn m (h3_body fs).
Proof.
  intros fs k e W Hne K Hcut.
  destruct (h3_wire_cut_thm fs (Some (lenN (h3_body fs))) k e W K) as (d & r & E & Hm & _ & Hc).
  exists d, r. split; [exact E|]. split; [|exact Hm].
  intros C. destruct (Hc C) as (He & (i & Hi & Hd) & Hr).
  destruct Hcut as [Hk|Hk]; [|contradiction].
  destruct Hr as [Hr|Hr]; [discriminate|]. injection Hr as Hr.
  subst k d. apply body_before_boundary in Hk; [|exact Hne]. unfold lenN in Hr. lia.
Qed.

(* the complete message read back exactly *)
Theorem h3_wire_complete_thm : forall fs cl, Forall df_wf fs ->
  cl = None \/ cl = Some (lenN (h3_body fs)) ->
  h3_wire_read true cl (h3_render fs) EndFin = (h3_body fs, W3 H3Clean).
Proof.
  intros fs cl W Hcl. unfold h3_wire_read.
  assert (G : forall fs, Forall df_wf fs -> forall fu rem, length fs < fu ->
            rem = None \/ rem = Some (lenN (h3_body fs)) ->
            h3_wire_loop fu true rem false (h3_render fs) EndFin = (h3_body fs, W3 H3Clean)).
  { clear. induction fs as [|f fs IH]; intros W fu rem Fu Hr.
    - destruct fu; [cbn in Fu; lia|]. cbn. destruct Hr as [->| ->]; reflexivity.
    - inversion W; subst. destruct fu; [cbn in Fu; lia|]. cbn [length] in Fu.
      rewrite h3_render_cons, h3_body_cons, loop_whole by assumption.
      destruct (N.eqb_spec (lenN (df_p f)) 0) as [Z|Z].
      + assert (Ep : df_p f = []) by (destruct (df_p f); [reflexivity|unfold lenN in Z; cbn in Z; lia]).
        rewrite Ep in *. cbn [app]. apply IH; auto; [lia|].
        rewrite h3_body_cons, Ep in Hr. exact Hr.
      + destruct Hr as [->| ->].
        * rewrite IH by (auto; lia). reflexivity.
        * rewrite h3_body_cons. unfold lenN. rewrite app_length.
          destruct (N.ltb_spec (N.of_nat (length (df_p f) + length (h3_body fs))) (N.of_nat (length (df_p f)))); [lia|].
          rewrite IH; [reflexivity|assumption|lia|].
          right. f_equal. unfold lenN. lia. }
  apply G; auto.
  clear -W. induction W as [|f fs Wf _ IH]; [cbn; lia|].
  rewrite h3_render_cons, app_length. pose proof (df_render_len2 f Wf). cbn [length]. lia.
Qed.

(* refinement: on whole frames the byte-level reader IS the event-level reader of
   Model/StreamBody.v (so the theorems of Proofs/StreamBodyProofs.v hold for it) *)
Definition h3_term (e : h3end) : h3ev :=
  match e with EndFin => H3Fin | EndReset => H3Reset | EndConnClose => H3ConnClose end.

Theorem h3_wire_refines_events_thm : forall fs strict cl e, Forall df_wf fs ->
  h3_wire_read strict cl (h3_render fs) e =
  (fst (h3_read strict cl (h3_events fs ++ [h3_term e])),
   W3 (snd (h3_read strict cl (h3_events fs ++ [h3_term e])))).
Proof.
  intros fs strict cl e W. unfold h3_wire_read.
  assert (G : forall fs, Forall df_wf fs -> forall fu rem, length fs < fu ->
            h3_wire_loop fu strict rem false (h3_render fs) e =
            (fst (h3_read strict rem (h3_events fs ++ [h3_term e])),
             W3 (snd (h3_read strict rem (h3_events fs ++ [h3_term e]))))).
  { clear. induction fs as [|f fs IH]; intros W fu rem Fu.
    - destruct fu; [cbn in Fu; lia|]. destruct e, rem; reflexivity.
    - inversion W; subst. destruct fu; [cbn in Fu; lia|]. cbn [length] in Fu.
      rewrite h3_render_cons, loop_whole by assumption.
      cbn [h3_events map app h3_read]. fold (h3_events fs).
      change (N.of_nat (length (df_p f))) with (lenN (df_p f)).
      rewrite N.ltb_irrefl.
      destruct (N.eqb_spec (lenN (df_p f)) 0) as [Z|Z].
      + assert (Ep : df_p f = []) by (destruct (df_p f); [reflexivity|unfold lenN in Z; cbn in Z; lia]).
        rewrite IH by (auto; lia). destruct rem as [m|]; [reflexivity|].
        rewrite Ep. cbn [app]. destruct (h3_read strict None (h3_events fs ++ [h3_term e])); reflexivity.
      + destruct rem as [m|].
        * destruct (N.ltb_spec m (lenN (df_p f))) as [M|M].
          -- destruct (N.leb_spec m (lenN (df_p f))); [reflexivity|lia].
          -- rewrite IH by (auto; lia). unfold add_data. cbn [fst snd].
             destruct (h3_read strict (Some (m - lenN (df_p f))%N) (h3_events fs ++ [h3_term e])); reflexivity.
        * rewrite IH by (auto; lia). unfold add_data. cbn [fst snd].
          destruct (h3_read strict None (h3_events fs ++ [h3_term e])); reflexivity. }
  apply G; auto.
  clear -W. induction W as [|f fs Wf _ IH]; [cbn; lia|].
  rewrite h3_render_cons, app_length. pose proof (df_render_len2 f Wf). cbn [length]. lia.
Qed.
