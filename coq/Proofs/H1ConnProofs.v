(* Proofs/H1ConnProofs.v - C04: the client around the parser (Model/H1Conn.v): informational
   responses are skipped without disturbing the boundary, and a connection that goes back to the
   idle pool has been read exactly up to the end of the message. *)
From ReqV Require Import Lib.Bytes Lib.BytesFacts Model.H1Resp Model.H1Render Model.H1Conn
  Proofs.H1RespProofs Proofs.H1HeadProofs Proofs.H1TransferProofs.
From Coq Require Import Lia.

Lemma read_final_stable : forall fuel meth n s r rest t,
  read_final fuel meth n s = FhOk r rest -> read_final fuel meth n (s ++ t) = FhOk r (rest ++ t).
Proof.
  induction fuel as [|f IH]; intros meth n s r rest t H; [discriminate|].
  cbn [read_final] in *.
  destruct (read_response_head meth conn_bufsize s) as [e|[r0 rest0]] eqn:E; [discriminate|].
  rewrite (read_response_head_stable _ _ _ _ _ t E).
  destruct (is_1xx_nonterminal (r_code r0)).
  - destruct (max_1xx_responses <? S n); [discriminate|]. now apply IH.
  - inversion H; subst. reflexivity.
Qed.

Lemma read_response_head_keep_alive meth bs s r rest :
  read_response_head meth bs s = inr (r, rest) -> r_close r = false -> r_framing r <> FrUntilClose.
Proof.
  unfold read_response_head.
  destruct (read_line bs s) as [[line s1]|]; [|discriminate].
  destruct (parse_status_line line) as [e|sl]; [discriminate|].
  destruct (read_mime_header bs s1) as [e|[h s2]]; [discriminate|].
  destruct (read_transfer meth sl (fix_pragma_cache_control h)) as [e|r0] eqn:E; [discriminate|].
  intros H Hc. inversion H; subst. eapply keep_alive_self_delimited; eauto.
Qed.

Lemma read_final_keep_alive : forall fuel meth n s r rest,
  read_final fuel meth n s = FhOk r rest -> r_close r = false -> r_framing r <> FrUntilClose.
Proof.
  induction fuel as [|f IH]; intros meth n s r rest H Hc; [discriminate|].
  cbn [read_final] in H.
  destruct (read_response_head meth conn_bufsize s) as [e|[r0 rest0]] eqn:E; [discriminate|].
  destruct (is_1xx_nonterminal (r_code r0)).
  - destruct (max_1xx_responses <? S n); [discriminate|]. eapply IH; eauto.
  - inversion H; subst. eapply read_response_head_keep_alive; eauto.
Qed.

(* If the client returns the connection to the idle pool after reading [s] (any number of
   skipped informational responses included), then nothing of [s] was left unread, and had the
   server sent ANY further bytes [t] behind it, the caller would have seen the very same
   response, body and trailers with exactly [t] left on the connection: the response to the
   NEXT request starts at the first byte of [t], never earlier, never later. *)
Theorem reusable_exact_boundary meth s cv t :
  client_read meth s = Some cv -> cv_reusable cv = true ->
  b_rest (cv_body cv) = [] /\ b_end (cv_body cv) = BOk /\ r_close (cv_resp cv) = false /\
  exists cv', client_read meth (s ++ t) = Some cv' /\
              cv_resp cv' = cv_resp cv /\ b_data (cv_body cv') = b_data (cv_body cv) /\
              b_trailer (cv_body cv') = b_trailer (cv_body cv) /\ b_end (cv_body cv') = BOk /\
              b_rest (cv_body cv') = t.
Proof.
  unfold client_read. destruct (read_final 7 meth 0 s) as [e| |r rest] eqn:E; try discriminate.
  intros H Hr. inversion H; subst; clear H. cbn [cv_reusable cv_resp cv_body] in *.
  apply andb_true_iff in Hr as [Hr Hnil]. apply andb_true_iff in Hr as [Hr Hend].
  apply andb_true_iff in Hr as [Hclose _]. apply negb_true_iff in Hclose.
  assert (He : b_end (read_body conn_bufsize r rest) = BOk).
  { destruct (b_end (read_body conn_bufsize r rest)); try discriminate. reflexivity. }
  assert (Hn : b_rest (read_body conn_bufsize r rest) = []).
  { destruct (b_rest (read_body conn_bufsize r rest)); [reflexivity|discriminate]. }
  repeat split; try assumption.
  rewrite (read_final_stable _ _ _ _ _ _ t E).
  eexists. split; [reflexivity|]. cbn [cv_resp cv_body].
  rewrite read_body_stable; [|assumption|eapply read_final_keep_alive; eauto].
  unfold with_rest. cbn [b_data b_trailer b_end b_rest]. rewrite Hn. repeat split; auto.
Qed.

(* the response handed to the caller is never an informational one (other than 101): those are
   skipped, at most five of them *)
Theorem read_final_is_final : forall fuel meth n s r rest,
  read_final fuel meth n s = FhOk r rest -> is_1xx_nonterminal (r_code r) = false.
Proof.
  induction fuel as [|f IH]; intros meth n s r rest H; [discriminate|].
  cbn [read_final] in H.
  destruct (read_response_head meth conn_bufsize s) as [e|[r0 rest0]]; [discriminate|].
  destruct (is_1xx_nonterminal (r_code r0)) eqn:E1.
  - destruct (max_1xx_responses <? S n); [discriminate|]. eapply IH; eauto.
  - inversion H; subst. exact E1.
Qed.

(* ====================================================================== *)
(* the read-buffer size does not influence an accepted head                *)
(* ====================================================================== *)

Lemma cont_lines_indep b1 b2 : forall f buf s kv r',
  cont_lines f b1 buf s = FOk (kv, r') -> r' <> [] -> cont_lines f b2 buf s = FOk (kv, r').
Proof.
  induction f as [|f IH]; intros buf s kv r' H Hr; [discriminate|].
  cbn [cont_lines] in *. destruct s as [|x s0]; [exact H|].
  destruct (is_sp_tab x); [|exact H].
  destruct (read_line b1 (drop_while is_sp_tab (x :: s0))) as [[l r]|] eqn:El.
  - apply read_line_cases in El as [(a & Ec & ->)|(Ec & -> & -> & Hne)].
    + rewrite (read_line_lf b2 _ _ _ Ec). now apply IH.
    + destruct f; [discriminate|]. cbn in H. inversion H; subst. contradiction.
  - inversion H; subst. contradiction.
Qed.

Lemma mime_loop_indep b1 b2 : forall f m s m' r,
  mime_loop f b1 m s = inr (m', r) -> mime_loop f b2 m s = inr (m', r).
Proof.
  induction f as [|f IH]; intros m s m' r H; [discriminate|].
  cbn [mime_loop] in *.
  destruct (read_line b1 s) as [[line r0]|] eqn:El; [|discriminate].
  apply read_line_cases in El as [(a & Ec & ->)|(Ec & -> & -> & Hne)].
  - rewrite (read_line_lf b2 _ _ _ Ec).
    destruct (is_nil (strip_cr a)); [exact H|].
    destruct (negb (mem_byte COLON (strip_cr a))); [discriminate|].
    destruct (cont_lines (S (length r0)) b1 (trim_sp_tab (strip_cr a)) r0) as [[kv r1]|] eqn:Ec2;
      [|discriminate].
    destruct (cut_byte COLON kv) as [[k v]|] eqn:Ek; [|discriminate].
    destruct (canonical_key k) as [key|] eqn:Ekey; [|discriminate].
    destruct (forallb valid_value_byte v) eqn:Ev; [|discriminate].
    assert (Hr1 : r1 <> []) by (intros ->; now apply mime_loop_nil in H).
    rewrite (cont_lines_indep b1 b2 _ _ _ _ _ Ec2 Hr1), Ek, Ekey, Ev. now apply IH.
  - exfalso. destruct (is_nil s) eqn:En; [destruct s; [contradiction|discriminate]|].
    destruct (negb (mem_byte COLON s)); [discriminate|].
    cbn [length cont_lines] in H.
    destruct (cut_byte COLON (trim_sp_tab s)) as [[k v]|]; [|discriminate].
    destruct (canonical_key k); [|discriminate].
    destruct (forallb valid_value_byte v); [|discriminate].
    now apply mime_loop_nil in H.
Qed.

Lemma read_mime_header_indep b1 b2 s m r :
  read_mime_header b1 s = inr (m, r) -> read_mime_header b2 s = inr (m, r).
Proof.
  unfold read_mime_header. destruct s as [|x s'].
  - intros H. now apply mime_loop_nil in H.
  - destruct (is_sp_tab x).
    + destruct (read_line b1 (x :: s')); [discriminate|]. destruct (_ <=? 80); discriminate.
    + apply mime_loop_indep.
Qed.

(* x read buffer sizes: an ACCEPTED status line + header block + transfer decision does not
   depend on the size of the read buffer (it can only matter for an unterminated last line,
   and those never lead to acceptance).  The buffer size stays observable in the body part
   only where the reference itself makes it so (chunk-size line must fit, trailer window). *)
Theorem accepted_head_bufsize_independent meth b1 b2 s r rest :
  read_response_head meth b1 s = inr (r, rest) -> read_response_head meth b2 s = inr (r, rest).
Proof.
  unfold read_response_head.
  destruct (read_line b1 s) as [[line s1]|] eqn:El; [|discriminate].
  apply read_line_cases in El as [(a & Ec & ->)|(Ec & -> & -> & Hne)].
  - rewrite (read_line_lf b2 _ _ _ Ec).
    destruct (parse_status_line (strip_cr a)) as [e|sl]; [discriminate|].
    destruct (read_mime_header b1 s1) as [e|[h s2]] eqn:Em; [discriminate|].
    now rewrite (read_mime_header_indep b1 b2 _ _ _ Em).
  - destruct (parse_status_line s); [discriminate|]. cbn. discriminate.
Qed.

(* ====================================================================== *)
(* several exchanges on one connection: no cross-attribution              *)
(* ====================================================================== *)

Lemma reuse_real_empties_buffer r b : reuse_real r b = true -> b_rest b = [].
Proof.
  unfold reuse_real. intros H. apply andb_true_iff in H as [_ H].
  destruct (b_rest b); [reflexivity|discriminate].
Qed.

(* every request answered from its own segment alone, on a connection with an empty buffer *)
Fixpoint serve_independently (reqs : list (bytes * bytes)) : list (option (resp * body_result)) :=
  match reqs with
  | [] => []
  | (m, seg) :: more =>
      match exchange m [] seg with
      | Some (r, b) => Some (r, b) :: (if reuse_real r b then serve_independently more else [])
      | None => [None]
      end
  end.

(* The carried state (the connection's read buffer) is EMPTY whenever readLoop's decision sends
   the connection back to the idle pool; hence a connection that serves a whole sequence of
   requests answers each of them exactly as a fresh connection would from that request's own
   segment: nothing the server sent in (or behind) the answer to one request is ever used for
   another. *)
Theorem conn_exchanges_independent reqs :
  conn_exchanges reuse_real [] reqs = serve_independently reqs.
Proof.
  induction reqs as [|[m seg] more IH]; [reflexivity|].
  cbn [conn_exchanges serve_independently].
  destruct (exchange m [] seg) as [[r b]|]; [|reflexivity].
  destruct (reuse_real r b) eqn:E; [|reflexivity].
  now rewrite (reuse_real_empties_buffer _ _ E), IH.
Qed.

(* pointwise: the answer handed to the i-th request on the connection is a function of the
   i-th segment only *)
Theorem answer_depends_on_own_segment_only : forall reqs i a m seg,
  nth_error (conn_exchanges reuse_real [] reqs) i = Some a ->
  nth_error reqs i = Some (m, seg) ->
  a = exchange m [] seg.
Proof.
  intros reqs. rewrite conn_exchanges_independent.
  induction reqs as [|[m0 seg0] more IH]; intros i a m seg Ha Hr.
  - destruct i; discriminate.
  - cbn [serve_independently] in Ha. destruct i as [|i].
    + cbn in Hr. inversion Hr; subst.
      destruct (exchange m [] seg) as [[r b]|]; cbn in Ha; inversion Ha; reflexivity.
    + cbn [nth_error] in Hr.
      destruct (exchange m0 [] seg0) as [[r b]|].
      * cbn [nth_error] in Ha. destruct (reuse_real r b).
        -- eapply IH; eauto.
        -- destruct i; discriminate.
      * cbn [nth_error] in Ha. destruct i; discriminate.
Qed.

(* without the buffer test in the decision (the pinned fork; also what a change dropping it from
   the bodiless branch of readLoop gives) the bytes behind a 204 become the answer to the NEXT
   request: it reads "STOLEN" where its own segment said "fresh" *)
Definition splice_demo : list (bytes * bytes) :=
  [ (bs "GET", bs "HTTP/1.1 204 No Content" ++ [CR; LF; CR; LF] ++
               bs "HTTP/1.1 200 OK" ++ [CR; LF] ++ bs "Content-Length: 6" ++ [CR; LF; CR; LF] ++ bs "STOLEN");
    (bs "GET", bs "HTTP/1.1 200 OK" ++ [CR; LF] ++ bs "Content-Length: 5" ++ [CR; LF; CR; LF] ++ bs "fresh") ].

Theorem reuse_without_buffer_check_refuted :
  map (option_map (fun rb => b_data (snd rb))) (conn_exchanges reuse_without_buffer_check [] splice_demo)
    = [Some []; Some (bs "STOLEN")] /\
  map (option_map (fun rb => b_data (snd rb))) (conn_exchanges reuse_real [] splice_demo)
    = [Some []] /\
  option_map (fun rb => b_data (snd rb)) (exchange (bs "GET") [] (snd (nth 1 splice_demo ([], []))))
    = Some (bs "fresh").
Proof. vm_compute. repeat split. Qed.

(* a connection goes on to serve a further request only after a FINAL response (status > 199)
   that did not ask for close, whose body ended cleanly, with nothing buffered behind it: in
   particular never after a terminal 1xx (a 101 that is not a protocol switch) or a 0xx status *)
Theorem reuse_real_spec r b :
  reuse_real r b = true <->
  r_close r = false /\ (no_reuse_status_bound < r_code r)%Z /\ b_end b = BOk /\ b_rest b = [].
Proof.
  unfold reuse_real, reuse_without_buffer_check. rewrite !andb_true_iff, negb_true_iff, Z.ltb_lt.
  split.
  - intros (((Hc & Hs) & He) & Hn). repeat split; try assumption.
    + destruct (b_end b); try discriminate; reflexivity.
    + destruct (b_rest b); [reflexivity|discriminate].
  - intros (Hc & Hs & He & Hn). rewrite He, Hn. repeat split; assumption.
Qed.

Lemma conn_continues_gen : forall reqs buf i r b,
  nth_error (conn_exchanges reuse_real buf reqs) i = Some (Some (r, b)) ->
  S i < length (conn_exchanges reuse_real buf reqs) ->
  r_close r = false /\ (199 < r_code r)%Z /\ b_end b = BOk /\ b_rest b = @nil byte.
Proof.
  induction reqs as [|[m seg] more IH]; intros buf i r b Hn Hl.
  - destruct i; discriminate.
  - cbn [conn_exchanges] in *. destruct (exchange m buf seg) as [[r0 b0]|].
    + destruct i as [|i].
      * cbn in Hn. inversion Hn; subst. cbn [length] in Hl.
        destruct (reuse_real r b) eqn:E; [now apply reuse_real_spec in E|cbn in Hl; lia].
      * cbn [nth_error length] in Hn, Hl. destruct (reuse_real r0 b0).
        -- eapply IH; [exact Hn|lia].
        -- destruct i; discriminate.
    + cbn in Hl. lia.
Qed.

Theorem conn_continues_only_after_final : forall reqs i r b,
  nth_error (conn_exchanges reuse_real [] reqs) i = Some (Some (r, b)) ->
  S i < length (conn_exchanges reuse_real [] reqs) ->
  r_close r = false /\ (199 < r_code r)%Z /\ b_end b = BOk /\ b_rest b = [].
Proof. intros reqs. apply conn_continues_gen. Qed.

(* ====================================================================== *)
(* Expect: 100-continue                                                   *)
(* ====================================================================== *)

(* what the client makes of the server's bytes does not depend on whether the request was sent
   with Expect: 100-continue *)
Theorem expect_does_not_change_the_response : forall fuel meth n armed s,
  fst (read_final_expect true fuel meth n armed s) = read_final fuel meth n s.
Proof.
  induction fuel as [|f IH]; intros meth n armed s; [reflexivity|].
  cbn [read_final_expect read_final].
  destruct (read_response_head meth conn_bufsize s) as [e|[r rest]]; [reflexivity|].
  destruct (is_1xx_nonterminal (r_code r)); [|reflexivity].
  destruct (max_1xx_responses <? S n); [reflexivity|].
  specialize (IH meth (S n) (armed && negb (armed && (r_code r =? 100)%Z)) rest).
  destruct (read_final_expect true f meth (S n) _ rest) as [fh more]. exact IH.
Qed.

(* the channel to the body writer has capacity one and is signalled AT MOST ONCE per exchange -
   however many 100 heads the server sends - so the read loop can never block on it; and not
   at all when the request did not expect a 100 *)
Theorem continue_signalled_at_most_once : forall fuel meth n armed s,
  length (snd (read_final_expect true fuel meth n armed s)) <= (if armed then 1 else 0).
Proof.
  induction fuel as [|f IH]; intros meth n armed s; [destruct armed; cbn; lia|].
  cbn [read_final_expect].
  destruct (read_response_head meth conn_bufsize s) as [e|[r rest]]; [destruct armed; cbn; lia|].
  destruct armed; cbn [andb negb].
  - destruct (r_code r =? 100)%Z; cbn [negb].
    + destruct (is_1xx_nonterminal (r_code r)).
      * destruct (max_1xx_responses <? S n); [cbn; lia|].
        specialize (IH meth (S n) false rest).
        destruct (read_final_expect true f meth (S n) false rest) as [fh more].
        cbn [snd length app] in *. lia.
      * cbn. lia.
    + destruct (is_1xx_nonterminal (r_code r)).
      * destruct (max_1xx_responses <? S n); [cbn; lia|].
        specialize (IH meth (S n) true rest).
        destruct (read_final_expect true f meth (S n) true rest) as [fh more].
        cbn [snd length app] in *. lia.
      * cbn. lia.
  - destruct (is_1xx_nonterminal (r_code r)).
    + destruct (max_1xx_responses <? S n); [cbn; lia|].
      specialize (IH meth (S n) false rest).
      destruct (read_final_expect true f meth (S n) false rest) as [fh more].
      cbn [snd length app] in *. lia.
    + cbn. lia.
Qed.

(* without `continueCh = nil` (seeded e-m2) two 100 heads and a final 200 produce THREE sends
   on a channel of capacity one: the third blocks the read loop for good and a complete
   response the reference accepts is never delivered *)
Definition expect_demo : bytes :=
  bs "HTTP/1.1 100 Continue" ++ [CR; LF; CR; LF] ++ bs "HTTP/1.1 100 Continue" ++ [CR; LF; CR; LF] ++
  bs "HTTP/1.1 200 OK" ++ [CR; LF] ++ bs "Content-Length: 2" ++ [CR; LF; CR; LF] ++ bs "hi".

Theorem expect_without_disarm_refuted :
  snd (read_final_expect false 7 (bs "POST") 0 true expect_demo) = [SigSendBody; SigSendBody; SigSendBody] /\
  snd (read_final_expect true 7 (bs "POST") 0 true expect_demo) = [SigSendBody].
Proof. vm_compute. split; reflexivity. Qed.

(* ====================================================================== *)
(* bytes arriving on an idle connection; reading on after the end         *)
(* ====================================================================== *)

Lemma client_run_clean : forall evs conn,
  conn = None \/ conn = Some [] -> client_run true conn evs = answers_alone evs.
Proof.
  induction evs as [|[m seg|s] more IH]; intros conn Hc; [reflexivity| |].
  - assert (Hstep : client_run true conn (EvReq m seg :: more) = client_run true None (EvReq m seg :: more))
      by (destruct Hc as [->| ->]; reflexivity).
    rewrite Hstep. cbn [client_run answers_alone].
    destruct (exchange m [] seg) as [[r b]|].
    + f_equal. apply IH. destruct (reuse_real r b) eqn:E; [right|left; reflexivity].
      now rewrite (reuse_real_empties_buffer _ _ E).
    + f_equal. apply IH. now left.
  - cbn [client_run answers_alone]. destruct Hc as [->| ->]; [apply IH; now left|].
    destruct s as [|x s']; cbn [is_nil negb andb app].
    + apply IH. now right.
    + apply IH. now left.
Qed.

(* Whatever the server sends on a connection while it is idle, and whenever, no request is ever
   answered with it: every request of any sequence of requests and idle-time bytes gets exactly
   the answer a fresh connection would give it from its own segment. *)
Theorem idle_bytes_never_answer_a_request evs :
  client_run true None evs = answers_alone evs.
Proof. apply client_run_clean. now left. Qed.

Definition idle_demo : list conn_event :=
  [ EvReq (bs "GET") (bs "HTTP/1.1 204 No Content" ++ [CR; LF; CR; LF]);
    EvIdleBytes (bs "HTTP/1.1 200 OK" ++ [CR; LF] ++ bs "Content-Length: 6" ++ [CR; LF; CR; LF] ++ bs "STOLEN");
    EvReq (bs "GET") (bs "HTTP/1.1 200 OK" ++ [CR; LF] ++ bs "Content-Length: 5" ++ [CR; LF; CR; LF] ++ bs "fresh") ].

(* without the idle guard (seeded f-m1) the bytes sent on the idle connection answer the next request *)
Theorem idle_guard_off_refuted :
  map (option_map (fun rb => b_data (snd rb))) (client_run false None idle_demo) = [Some []; Some (bs "STOLEN")] /\
  map (option_map (fun rb => b_data (snd rb))) (client_run true None idle_demo) = [Some []; Some (bs "fresh")].
Proof. vm_compute. split; reflexivity. Qed.

(* the client's body keeps reporting its first terminal result on every later Read; without the
   sticky layer (seeded f-m3) a length-delimited body cut short reports the truncation once and
   a clean end afterwards *)
Theorem client_reads_sticky fr first k : client_reads_again true fr first k = repeat first k.
Proof. reflexivity. Qed.

Theorem reads_without_sticky_refuted :
  client_reads_again false (FrLength 5) BUnexpectedEOF 2 = [BOk; BOk] /\
  forall fr e k, (forall n, fr <> FrLength n) -> client_reads_again false fr e k = repeat e k.
Proof.
  split; [reflexivity|]. intros fr e k H. unfold client_reads_again, body_again.
  destruct fr; try reflexivity. exfalso. now apply (H n).
Qed.

(* ====================================================================== *)
(* EOF from the connection; interim heads per response                    *)
(* ====================================================================== *)

(* a connection that has reported EOF - in whatever Read, with or without data - is never
   offered for reuse; otherwise the decision is the one proved above *)
Theorem eof_never_reused cv : conn_reusable true cv = false /\ conn_reusable false cv = cv_reusable cv.
Proof. split; reflexivity. Qed.

(* every exchange counts its interim heads from zero *)
Theorem exchange_counts_from_zero m seg : exchange m [] seg = exchange_from 0 m seg.
Proof. reflexivity. Qed.

(* one step of the loop: a skippable interim head below the bound costs one count *)
Theorem read_final_skip_step f meth n s r rest :
  read_response_head meth conn_bufsize s = inr (r, rest) ->
  is_1xx_nonterminal (r_code r) = true -> n < max_1xx_responses ->
  read_final (S f) meth n s = read_final f meth (S n) rest.
Proof.
  intros H H1 Hn. cbn [read_final]. rewrite H, H1.
  destruct (Nat.ltb_spec max_1xx_responses (S n)); [lia|reflexivity].
Qed.

(* a count carried over from earlier exchanges on the connection (seeded g-m2) refuses a
   response with two hints that every exchange counting from zero accepts *)
Definition hints2_demo : bytes :=
  bs "HTTP/1.1 103 Early Hints" ++ [CR; LF; CR; LF] ++ bs "HTTP/1.1 102 Processing" ++ [CR; LF; CR; LF] ++
  bs "HTTP/1.1 200 OK" ++ [CR; LF] ++ bs "Content-Length: 2" ++ [CR; LF; CR; LF] ++ bs "hi".

Theorem carried_interim_count_refuted :
  exchange_from 4 (bs "GET") hints2_demo = None /\
  option_map (fun rb => b_data (snd rb)) (exchange_from 0 (bs "GET") hints2_demo) = Some (bs "hi").
Proof. vm_compute. split; reflexivity. Qed.
