(* Proofs/DumpStackProofs.v - C13: every dump hook is an observer.  The tee combinators refine the
   writer / reader they wrap, for ARBITRARY underlying behaviour (partial writes, failures at
   any point), so each stack's exchange runner projects onto the same function without any
   dump code. *)
From Coq Require Import Lia.
From ReqV Require Import Lib.Bytes Lib.BytesFacts Model.Dump Model.DumpReader Model.DumpStack
                         Proofs.DumpProofs.

(* lw behaves as w on the state and appends (f p n) to the log, n = bytes w accepted *)
Definition logged {St} (lw : wfn (St * log)) (w : wfn St) (f : bytes -> nat -> log) : Prop :=
  forall s l p, lw (s, l) p = (let '(s', n, e) := w s p in ((s', l ++ f p n), n, e)).

Lemma logged_lift {St} (w : wfn St) : logged (lift w) w (fun _ _ => []).
Proof.
  intros s l p. unfold lift. cbn [fst snd]. destruct (w s p) as [[s' n] e]. now rewrite app_nil_r.
Qed.

Lemma logged_tee {St} d mk (lw : wfn (St * log)) w f :
  logged lw w f ->
  logged (tee_writer d mk lw) w (fun p n => f p n ++ raw_emit d (mk (firstn n p))).
Proof.
  intros H s l p. unfold tee_writer. rewrite H. destruct (w s p) as [[s' n] e].
  cbn [fst snd]. now rewrite app_assoc.
Qed.

Definition tee_log (ds : list dumper) (pt : part) (mk : bytes -> hook) (p : bytes) (n : nat) : log :=
  flat_map (fun d => if enabled (snd d) pt then raw_emit d (mk (firstn n p)) else []) ds.

Lemma logged_wrap {St} ds pt mk (lw : wfn (St * log)) w f :
  logged lw w f ->
  logged (wrap_writer ds pt mk lw) w (fun p n => f p n ++ tee_log ds pt mk p n).
Proof.
  revert lw f. induction ds as [|d ds IH]; intros lw f H; cbn [wrap_writer].
  - intros s l p. rewrite H. destruct (w s p) as [[s' n] e]. unfold tee_log. cbn [flat_map].
    now rewrite app_nil_r.
  - destruct (enabled (snd d) pt) eqn:E.
    + pose proof (IH _ _ (logged_tee d mk lw w f H)) as H2.
      intros s l p. rewrite H2. destruct (w s p) as [[s' n] e].
      unfold tee_log. cbn [flat_map]. rewrite E. now rewrite <- !app_assoc.
    + pose proof (IH _ _ H) as H2.
      intros s l p. rewrite H2. destruct (w s p) as [[s' n] e].
      unfold tee_log. cbn [flat_map]. rewrite E. reflexivity.
Qed.

Lemma tee_log_hooks ds pt mk p n :
  (forall x, hook_part (mk x) = pt) ->
  tee_log ds pt mk p n = hook_emit_all ds (mk (firstn n p)).
Proof.
  intro Hp. unfold tee_log, hook_emit_all, hook_emit. induction ds as [|d ds IH]; cbn [flat_map].
  - reflexivity.
  - now rewrite IH, Hp.
Qed.

(* the observer law for one Write, any underlying writer, any dumper list:
   fst (tee f x) = f x *)
Lemma wrap_writer_observer {St} ds pt mk (w : wfn St) s l p :
  let '(st', n, e) := wrap_writer ds pt mk (lift w) (s, l) p in (fst st', n, e) = w s p.
Proof.
  rewrite (logged_wrap ds pt mk (lift w) w _ (logged_lift w)).
  destruct (w s p) as [[s' n] e]. reflexivity.
Qed.

Lemma chunked_lift_f {St} (f : flushfn St) (w : wfn St) :
  logged (chunked_writer_f (lift_flush f) (lift w)) (chunked_writer_f f w) (fun _ _ => []).
Proof.
  intros s l p. unfold chunked_writer_f. destruct p as [|x p]; [now rewrite app_nil_r|].
  unfold lift at 1. cbn [fst snd].
  destruct (w s _) as [[s1 n1] e1]. destruct e1; [now rewrite app_nil_r|].
  unfold lift at 1. cbn [fst snd].
  destruct (w s1 (x :: p)) as [[s2 n2] e2]. destruct e2; [now rewrite app_nil_r|].
  destruct (negb (Nat.eqb n2 (length (x :: p)))); [now rewrite app_nil_r|].
  unfold lift. cbn [fst snd]. destruct (w s2 crlf) as [[s3 n3] e3].
  destruct e3; [now rewrite app_nil_r|].
  unfold lift_flush. cbn [fst snd]. destruct (f s3) as [s4 e4]. now rewrite app_nil_r.
Qed.

Lemma lift_noflush {St} : forall st : St * log, lift_flush (@noflush St) st = noflush st.
Proof. intros [s l]. reflexivity. Qed.

Lemma chunked_lift {St} (w : wfn St) : logged (chunked_writer (lift w)) (chunked_writer w) (fun _ _ => []).
Proof.
  intros s l p. pose proof (chunked_lift_f noflush w s l p) as H.
  unfold chunked_writer. unfold chunked_writer_f in *.
  destruct p as [|x p]; [exact H|].
  destruct (lift w (s, l) _) as [[st1 n1] e1]. destruct e1; [exact H|].
  destruct (lift w st1 (x :: p)) as [[st2 n2] e2]. destruct e2; [exact H|].
  destruct (negb (Nat.eqb n2 (length (x :: p)))); [exact H|].
  destruct (lift w st2 crlf) as [[st3 n3] e3]. destruct e3; [exact H|].
  rewrite lift_noflush in H. exact H.
Qed.

(* accumulated log of write_all *)
Fixpoint wtrace {St} (w : wfn St) (f : bytes -> nat -> log) (s : St) (ps : list bytes) : log :=
  match ps with
  | [] => []
  | p :: r => let '(s', n, e) := w s p in f p n ++ (if e then [] else wtrace w f s' r)
  end.

Lemma write_all_logged {St} (lw : wfn (St * log)) w f s l ps :
  logged lw w f ->
  write_all lw (s, l) ps = (let '(s', e) := write_all w s ps in ((s', l ++ wtrace w f s ps), e)).
Proof.
  intro H. revert s l. induction ps as [|p r IH]; intros s l; cbn [write_all wtrace].
  - now rewrite app_nil_r.
  - rewrite H. destruct (w s p) as [[s' n] e]. destruct e.
    + now rewrite app_nil_r.
    + rewrite IH. destruct (write_all w s' r) as [s'' e']. now rewrite app_assoc.
Qed.

Lemma write_all_logged_st {St} (lw : wfn (St * log)) w f st ps :
  logged lw w f ->
  write_all lw st ps =
  (let '(s', e) := write_all w (fst st) ps in ((s', snd st ++ wtrace w f (fst st) ps), e)).
Proof. destruct st as [s l]. apply write_all_logged. Qed.

Lemma write_all_logged_fst {St} (lw : wfn (St * log)) w f s l ps :
  logged lw w f ->
  (fst (fst (write_all lw (s, l) ps)), snd (write_all lw (s, l) ps)) = write_all w s ps.
Proof.
  intro H. rewrite (write_all_logged lw w f s l ps H). destruct (write_all w s ps). reflexivity.
Qed.

(* ---------- HTTP/1.1 request side ---------- *)
Lemma h1_send_gen_transparent {St} rule crule (flush : flushfn St) ds (w : wfn St) s q :
  (q_expect_continue q = true -> rule ds = true) ->
  (q_chunked q = true -> crule ds = true) ->
  fst (h1_send_gen rule crule flush ds w s q) = h1_send_plain_f flush w s q.
Proof.
  intros Hrule Hc. unfold h1_send_gen, h1_send_plain_f.
  pose proof (logged_wrap ds PReqH HReqHeader (lift w) w _ (logged_lift w)) as LH.
  rewrite (write_all_logged_st _ _ _ _ _ LH). cbn [fst snd].
  destruct (write_all w s (q_header_writes q)) as [s1 e1].
  assert (Hf : q_expect_continue q && rule ds = q_expect_continue q).
  { destruct (q_expect_continue q); [now rewrite Hrule|reflexivity]. }
  rewrite Hf. destruct e1; [reflexivity|].
  destruct (q_body q) as [chunks|]; [|reflexivity].
  pose proof (logged_wrap ds PReqB HReqBody (lift w) w _ (logged_lift w)) as LW.
  destruct (q_chunked q).
  - rewrite (Hc eq_refl).
    pose proof (logged_wrap ds PReqB HReqBody (chunked_writer_f (lift_flush flush) (lift w))
                  (chunked_writer_f flush w) _ (chunked_lift_f flush w)) as LC.
    rewrite (write_all_logged_st _ _ _ _ chunks LC). cbn [fst snd].
    destruct (write_all (chunked_writer_f flush w) s1 chunks) as [s2 e2]. destruct e2; [reflexivity|].
    rewrite (write_all_logged_st _ _ _ _ _ (logged_lift w)). cbn [fst snd].
    destruct (write_all w s2 [bs "0" ++ crlf]) as [s3 e3]. destruct e3; [reflexivity|].
    unfold add_hook. cbn [fst snd].
    rewrite (write_all_logged_st _ _ _ _ _ LW). cbn [fst snd].
    destruct (write_all w s3 [crlf]) as [s5 e5]. reflexivity.
  - rewrite (write_all_logged_st _ _ _ _ chunks LW). cbn [fst snd].
    destruct (write_all w s1 chunks) as [s2 e2]. destruct e2; reflexivity.
Qed.

Lemma h1_send_transparent {St} ds (w : wfn St) s q :
  fst (h1_send ds w s q) = h1_send_plain w s q.
Proof. apply h1_send_gen_transparent; reflexivity. Qed.

(* with the connection's Flush made explicit: the chunks of a streamed (chunked) upload are
   flushed one by one whether or not dumpers are installed - any flush, any writer *)
Lemma h1_send_f_transparent {St} (flush : flushfn St) ds (w : wfn St) s q :
  fst (h1_send_f flush ds w s q) = h1_send_plain_f flush w s q.
Proof. apply h1_send_gen_transparent; reflexivity. Qed.

Definition app_writer : wfn bytes := fun s p => (s ++ p, length p, false).
Definition opts_all (w : writer) : options :=
  mkOpts (Some w) None None None None None None true true true true false.
Definition expect_req : h1_request :=
  mkH1Req [bs "POST / HTTP/1.1" ++ crlf; bs "Expect: 100-continue" ++ crlf; crlf] (Some [bs "x"]) false true.
Lemma h1_send_pinned_not_transparent :
  sr_flushed_before_wait (fst (h1_send_pinned [(0, opts_all 7%N)] app_writer [] expect_req)) <>
  sr_flushed_before_wait (h1_send_plain app_writer [] expect_req).
Proof. vm_compute. discriminate. Qed.

(* ---------- readers ---------- *)
Definition rlogged {St} (lr : rfn (St * log)) (r : rfn St) (f : bytes -> rstat -> log) : Prop :=
  forall s l k, lr (s, l) k = (let '(s', b, e) := r s k in ((s', l ++ f b e), b, e)).

Lemma rlogged_lift {St} (r : rfn St) : rlogged (rlift r) r (fun _ _ => []).
Proof.
  intros s l k. unfold rlift. cbn [fst snd]. destruct (r s k) as [[s' b] e]. now rewrite app_nil_r.
Qed.

Definition read_emit (d : dumper) (b : bytes) (e : rstat) : log :=
  raw_emit d (HRespBody b) ++ match e with REnd => raw_emit d HRespBodyEOF | _ => [] end.

Lemma rlogged_tee {St} d (lr : rfn (St * log)) r f :
  rlogged lr r f -> rlogged (tee_reader d lr) r (fun b e => f b e ++ read_emit d b e).
Proof.
  intros H s l k. unfold tee_reader. rewrite H. destruct (r s k) as [[s' b] e].
  cbn [fst snd]. unfold read_emit. destruct e; rewrite ?app_nil_r, <- ?app_assoc; reflexivity.
Qed.

Definition rtee_log (ds : list dumper) (b : bytes) (e : rstat) : log :=
  flat_map (fun d => if enabled (snd d) PRespB then read_emit d b e else []) ds.

Lemma rlogged_wrap {St} ds (lr : rfn (St * log)) r f :
  rlogged lr r f -> rlogged (wrap_reader ds lr) r (fun b e => f b e ++ rtee_log ds b e).
Proof.
  revert lr f. induction ds as [|d ds IH]; intros lr f H; cbn [wrap_reader].
  - intros s l k. rewrite H. destruct (r s k) as [[s' b] e]. unfold rtee_log. cbn [flat_map].
    now rewrite app_nil_r.
  - destruct (enabled (snd d) PRespB) eqn:E.
    + pose proof (IH _ _ (rlogged_tee d lr r f H)) as H2.
      intros s l k. rewrite H2. destruct (r s k) as [[s' b] e].
      unfold rtee_log. cbn [flat_map]. rewrite E. now rewrite <- !app_assoc.
    + pose proof (IH _ _ H) as H2.
      intros s l k. rewrite H2. destruct (r s k) as [[s' b] e].
      unfold rtee_log. cbn [flat_map]. rewrite E. reflexivity.
Qed.

Lemma wrap_reader_observer {St} ds (r : rfn St) s l k :
  let '(st', b, e) := wrap_reader ds (rlift r) (s, l) k in (fst st', b, e) = r s k.
Proof.
  rewrite (rlogged_wrap ds (rlift r) r _ (rlogged_lift r)).
  destruct (r s k) as [[s' b] e]. reflexivity.
Qed.

Lemma read_all_logged {St} (lr : rfn (St * log)) r f s l sizes :
  rlogged lr r f ->
  fst (fst (read_all lr (s, l) sizes)) = fst (read_all r s sizes) /\
  snd (read_all lr (s, l) sizes) = snd (read_all r s sizes).
Proof.
  intro H. revert s l. induction sizes as [|k rest IH]; intros s l; cbn [read_all].
  - split; reflexivity.
  - rewrite H. destruct (r s k) as [[s' b] e]. destruct e; try (split; reflexivity).
    specialize (IH s' (l ++ f b ROk)).
    destruct (read_all lr (s', l ++ f b ROk) rest) as [st'' l1].
    destruct (read_all r s' rest) as [s'' l2]. cbn [fst snd] in *.
    destruct IH as [-> ->]. split; reflexivity.
Qed.

(* the concatenated log of the reads: each delivered slice once, CRLF at EOF *)
Fixpoint rtrace {St} (r : rfn St) (f : bytes -> rstat -> log) (s : St) (sizes : list nat) : log :=
  match sizes with
  | [] => []
  | k :: rest => let '(s', b, e) := r s k in
                 f b e ++ match e with ROk => rtrace r f s' rest | _ => [] end
  end.

Lemma read_all_log {St} (lr : rfn (St * log)) r f s l sizes :
  rlogged lr r f ->
  snd (fst (read_all lr (s, l) sizes)) = l ++ rtrace r f s sizes.
Proof.
  intro H. revert s l. induction sizes as [|k rest IH]; intros s l; cbn [read_all rtrace].
  - now rewrite app_nil_r.
  - rewrite H. destruct (r s k) as [[s' b] e]. destruct e; cbn [fst snd]; rewrite ?app_nil_r; try reflexivity.
    specialize (IH s' (l ++ f b ROk)).
    destruct (read_all lr (s', l ++ f b ROk) rest) as [st'' l1]. cbn [fst snd] in *.
    rewrite IH. now rewrite app_assoc.
Qed.

(* ---------- HTTP/1.1 response side ---------- *)
Lemma h1_recv_transparent {St} ds n stream (r : rfn St) b0 sizes :
  fst (h1_recv ds n stream r b0 sizes) = h1_recv_plain n stream r b0 sizes.
Proof.
  unfold h1_recv, h1_recv_gen, h1_recv_plain.
  set (rlf := if should_dump ds then read_line_dump else read_line_plain).
  assert (A : rl_agree rlf read_line_plain).
  { unfold rlf. destruct (should_dump ds); [apply read_line_dump_agree|].
    intros ? ?. repeat split. }
  pose proof (read_block_agree rlf read_line_plain n (S (length stream)) stream [] [] [] A) as H.
  destruct (read_block rlf n (S (length stream)) stream [] []) as [[[lines e] rest] frags].
  destruct (read_block read_line_plain n (S (length stream)) stream [] []) as [[[lines' e'] rest'] frags'].
  cbn [fst] in H. inversion H; subst.
  destruct e'; try reflexivity.
  pose proof (read_all_logged (wrap_reader ds (rlift r)) r _ b0 (header_emissions ds frags) sizes
               (rlogged_wrap ds (rlift r) r _ (rlogged_lift r))) as [H1 H2].
  destruct (read_all (wrap_reader ds (rlift r)) (b0, header_emissions ds frags) sizes) as [st reads].
  destruct (read_all r b0 sizes) as [s' reads']. cbn [fst snd] in *. subst. reflexivity.
Qed.

(* with the pinned closure the parsed header differs (dump on vs off) *)
Definition opts_resph (w : writer) : options :=
  mkOpts (Some w) None None None None None None false false true false false.
Definition null_reader : rfn unit := fun s _ => (s, [], REnd).
Lemma h1_recv_pinned_not_transparent :
  rr_lines (fst (h1_recv_pinned [(0, opts_resph 7%N)] 16 pinned_witness null_reader tt [])) <>
  rr_lines (h1_recv_plain 16 pinned_witness null_reader tt []).
Proof. vm_compute. discriminate. Qed.

(* the response-header dump is the header block as received: every dumper with ResponseHeader
   on gets the consumed bytes once, and dumped ++ unread = stream *)
Lemma h1_recv_header_faithful n stream :
  let '(_, _, rest, frags) := read_block read_line_dump n (S (length stream)) stream [] [] in
  concat frags ++ rest = stream.
Proof.
  pose proof (read_block_consumed read_line_dump n (S (length stream)) stream [] [] read_line_dump_consumes) as H.
  destruct (read_block read_line_dump n (S (length stream)) stream [] []) as [[[? ?] ?] ?]. exact H.
Qed.

(* ---------- HTTP/2 ---------- *)
Lemma h2_write_data_transparent {St} ds frame frame_fin fin_last (w : wfn St) s l chunks :
  (let '(st, e, ended) := h2_write_data ds frame frame_fin fin_last w (s, l) chunks in (fst st, e, ended)) =
  h2_write_data_plain frame frame_fin fin_last w s chunks.
Proof.
  revert s l. induction chunks as [|p r IH]; intros s l; cbn [h2_write_data h2_write_data_plain].
  - reflexivity.
  - cbn [fst snd].
    destruct (w s ((if fin_last && match r with [] => true | _ => false end then frame_fin else frame) p))
      as [[s' n] e].
    destruct e; [reflexivity|].
    destruct (fin_last && match r with [] => true | _ => false end); [reflexivity|]. apply IH.
Qed.

Lemma h2_send_transparent {St} ds enc frame frame_fin endstream (w : wfn St) s q :
  fst (h2_send ds enc frame frame_fin endstream w s q) = h2_send_plain enc frame frame_fin endstream w s q.
Proof.
  unfold h2_send, h2_send_plain.
  destruct (w s (enc (g_fields q))) as [[s1 n1] e1]. destruct e1; [reflexivity|].
  destruct (g_body q) as [chunks|]; [|reflexivity].
  pose proof (h2_write_data_transparent ds frame frame_fin (g_fin_last q) w s1
                (h23_header_log ds (g_fields q)) (filter nonempty chunks)) as H.
  destruct (h2_write_data ds frame frame_fin (g_fin_last q) w (s1, h23_header_log ds (g_fields q))
              (filter nonempty chunks)) as [[st2 e2] ended].
  destruct (h2_write_data_plain frame frame_fin (g_fin_last q) w s1 (filter nonempty chunks)) as [[s2 e2'] ended'].
  inversion H; subst.
  destruct e2'; [reflexivity|]. destruct ended'; [reflexivity|].
  destruct (g_aborted q); [reflexivity|].
  destruct (w (fst st2) endstream) as [[s3 n3] e3]. reflexivity.
Qed.

(* ---------- HTTP/3 (repaired sendRequestBody) ---------- *)
Lemma h3_send_transparent {St} ds enc (w : wfn St) s q :
  fst (h3_send ds enc w s q) = h3_send_plain enc w s q.
Proof.
  unfold h3_send, h3_send_plain.
  destruct (w s (enc (g_fields q))) as [[s1 n1] e1]. destruct e1; [reflexivity|].
  destruct (g_body q) as [chunks|]; [|reflexivity].
  pose proof (logged_wrap ds PReqB HReqBody (lift w) w _ (logged_lift w)) as LW.
  rewrite (write_all_logged_st _ _ _ _ chunks LW). cbn [fst snd].
  destruct (write_all w s1 chunks) as [s2 e2]. destruct e2; [reflexivity|].
  destruct (Nat.eqb (total_len chunks) 0); reflexivity.
Qed.

(* pinned: a dump writer that fails makes the upload fail although the stream is healthy *)
Definition failing_writer : wfn unit := fun s _ => (s, 0, true).
Lemma h3_body_pinned_coupled :
  snd (h3_body_pinned app_writer failing_writer ([], tt) [bs "body"]) <>
  snd (write_all app_writer [] [bs "body"]).
Proof. vm_compute. discriminate. Qed.

(* ---------- h2/h3 response side ---------- *)
Lemma h23_recv_transparent {St} ds fs (r : rfn St) b0 sizes :
  fst (h23_recv ds fs r b0 sizes) = read_all r b0 sizes.
Proof.
  unfold h23_recv.
  pose proof (read_all_logged (wrap_reader ds (rlift r)) r _ b0 (h23_resp_header_log ds fs) sizes
               (rlogged_wrap ds (rlift r) r _ (rlogged_lift r))) as [H1 H2].
  destruct (read_all (wrap_reader ds (rlift r)) (b0, h23_resp_header_log ds fs) sizes) as [st reads].
  destruct (read_all r b0 sizes) as [s' reads']. cbn [fst snd] in *. subst. reflexivity.
Qed.

(* ---------- what the log is, over a healthy connection ---------- *)
Lemma write_all_app ps s : write_all app_writer s ps = (s ++ concat ps, false).
Proof.
  revert s. induction ps as [|p r IH]; intro s; cbn [write_all concat app_writer].
  - now rewrite app_nil_r.
  - unfold app_writer at 1. rewrite IH, app_assoc. reflexivity.
Qed.

Lemma wtrace_app_writer pt mk ds ps s :
  (forall x, hook_part (mk x) = pt) ->
  wtrace app_writer (fun p n => tee_log ds pt mk p n) s ps = run_hooks ds (map mk ps).
Proof.
  intro Hp. revert s. induction ps as [|p r IH]; intro s; cbn [wtrace map]; [reflexivity|].
  unfold app_writer at 1. cbn [app]. rewrite IH.
  rewrite (tee_log_hooks ds pt mk p (length p) Hp), firstn_all. reflexivity.
Qed.

(* HTTP/1.1, body with Content-Length, healthy connection: wire = header block ++ body, and the
   log is the hook sequence  header writes, body writes, CRLF separator *)
Lemma h1_send_identity_log ds hw chunks ec :
  h1_send ds app_writer [] (mkH1Req hw (Some chunks) false ec) =
  (mkSend (concat hw ++ concat chunks) false ec,
   run_hooks ds (map HReqHeader hw ++ map HReqBody chunks ++ [HReqBodyEnd crlf])).
Proof.
  unfold h1_send, h1_send_gen. cbn [q_header_writes q_body q_chunked q_expect_continue].
  pose proof (logged_wrap ds PReqH HReqHeader (lift app_writer) app_writer _ (logged_lift app_writer)) as LH.
  rewrite (write_all_logged_st _ _ _ _ hw LH), write_all_app. cbn [fst snd].
  pose proof (logged_wrap ds PReqB HReqBody (lift app_writer) app_writer _ (logged_lift app_writer)) as LW.
  rewrite (write_all_logged_st _ _ _ _ chunks LW), write_all_app. cbn [fst snd].
  unfold add_hook, flush_rule_fixed. cbn [fst snd app].
  rewrite Bool.andb_true_r. f_equal.
  rewrite !wtrace_app_writer by reflexivity.
  unfold run_hooks. rewrite !flat_map_app. cbn [flat_map]. rewrite app_nil_r, app_assoc. reflexivity.
Qed.
