(* Proofs/HeaderAbandonProofs.v - C16: given-up and failed requests leave nothing behind on the
   connection: the HTTP/2 encoder table and the peer's table stay equal, the HTTP/3 header buffer is
   empty for the next request. *)
From ReqV Require Import Lib.Bytes Model.HeaderOrder Model.HeaderCollect Model.HeaderSeq Model.HeaderAbandon
  Proofs.HeaderSeqProofs.
From Coq Require Import Lia NArith.

Section H2AbandonProofs.
  Context {T B : Type}.
  Variable enc : T -> list line -> B * T.
  Variable dec : T -> B -> option (list line) * T.
  Hypothesis sync : forall t ls, dec t (fst (enc t ls)) = (Some ls, snd (enc t ls)).

  Definition delivered (max : option N) (qf : creq * bool) : bool :=
    negb (snd qf) && negb (h2_refused max (fst qf)).

  (* for EVERY sequence of requests on one connection - sent, refused for their size, given up before
     their headers were encoded, in any mix - and every starting table: encoder table and peer table
     are equal at the end (hence at every point), and the peer has decoded exactly the field lists of
     the requests that were sent *)
  Theorem h2_tables_agree max qfs : forall t,
    exists t', h2_run dec (h2_step_fate enc) max t t qfs =
               (map (fun qf => Some (h2_lines (fst qf))) (filter (delivered max) qfs), t', t').
  Proof.
    induction qfs as [|[q gone] r IH]; intros t; [now exists t|].
    cbn [h2_run filter].
    assert (S1 : h2_step_fate enc max t (q, gone) =
                 if gone then (None, t) else if h2_refused max q then (None, t)
                 else (Some (fst (enc t (h2_lines q))), snd (enc t (h2_lines q)))).
    { unfold h2_step_fate, h2_client_step. cbn [fst snd]. destruct gone; [reflexivity|]. now destruct (h2_refused max q). }
    rewrite S1. unfold delivered at 1. cbn [fst snd].
    destruct gone; cbn [negb andb]; [apply IH|].
    destruct (h2_refused max q) eqn:E; cbn [negb]; [apply IH|].
    rewrite sync. cbn [fst snd map].
    destruct (IH (snd (enc t (h2_lines q)))) as (t' & Ht'). exists t'. now rewrite Ht'.
  Qed.
End H2AbandonProofs.

(* with the check behind encodeHeaders (block-numbering codec of HeaderSeqProofs): the tables differ
   after a request given up there, and the request that follows is not decoded *)
Lemma h2_cancel_after_encode_refuted :
  let qfs := [(small_req (bs "1"), false); (small_req (bs "2"), true); (small_req (bs "3"), false)] in
  h2_run num_dec (h2_step_fate num_enc) (@None N) 0 0 qfs =
    ([Some (h2_lines (small_req (bs "1"))); Some (h2_lines (small_req (bs "3")))], 2, 2) /\
  h2_run num_dec (h2_step_fate_late num_enc) (@None N) 0 0 qfs =
    ([Some (h2_lines (small_req (bs "1"))); None], 3, 1).
Proof. split; vm_compute; reflexivity. Qed.

Section H3WriterProofs.
  Variable sec : creq -> bytes.
  Variable frame : bytes -> bytes.

  (* for EVERY sequence of requests on one connection's request writer, whichever of them lose their
     stream while the HEADERS frame is written: every frame that is written is the frame of its own
     request's field section *)
  Theorem h3w_session_clean reqs :
    h3w_session (h3w_step sec frame) [] reqs =
    map (fun qo : creq * bool => if snd qo then Some (frame (sec (fst qo))) else None) reqs.
  Proof.
    induction reqs as [|[q ok] r IH]; [reflexivity|].
    cbn [h3w_session map fst snd]. rewrite <- IH. unfold h3w_step. cbn [fst snd app]. reflexivity.
  Qed.
End H3WriterProofs.

(* cleaning up only after a successful Write: the request after a failed one carries both sections *)
Lemma h3w_leaky_refuted :
  let sec := fun q : creq => c_path q in
  let frame := fun b : bytes => b in
  let q1 := small_req (bs "1") in
  h3w_session (h3w_step sec frame) [] [(q1, false); (q1, true)] = [None; Some (bs "/")] /\
  h3w_session (h3w_step_leaky sec frame) [] [(q1, false); (q1, true)] = [None; Some (bs "//")].
Proof. split; vm_compute; reflexivity. Qed.
