(* Proofs/H1MimeProofs.v - C04: ReadMIMEHeader (Model/H1Resp.v read_mime_header): what an
   accepted header map looks like (invariant), and the round trip of every well-formed header
   block including obs-fold continuation lines. *)
From ReqV Require Import Lib.Bytes Lib.BytesFacts Model.H1Resp Model.H1Render Model.H1RenderHead
  Proofs.H1RespProofs Proofs.H1HeadProofs.
From Coq Require Import Lia ZifyBool ZifyNat ZifyN.

(* ---------- small facts ---------- *)

Lemma forallb_not_mem (p : byte -> bool) c v :
  forallb p v = true -> p c = false -> mem_byte c v = false.
Proof.
  intros Hv Hc. apply mem_byte_false_In. intros Hin.
  rewrite (proj1 (forallb_forall _ _) Hv c Hin) in Hc. discriminate.
Qed.

Lemma strip_cr_cons a y t : strip_cr (a :: y :: t) = a :: strip_cr (y :: t).
Proof. reflexivity. Qed.

Lemma strip_cr_app_cr x : strip_cr (x ++ [CR]) = x.
Proof.
  induction x as [|a r IH]; [reflexivity|].
  cbn [app]. destruct (r ++ [CR]) as [|y t] eqn:E.
  - destruct r; discriminate.
  - rewrite strip_cr_cons, IH. reflexivity.
Qed.

Lemma starts_clean_app v t : starts_clean v -> starts_clean (v ++ t).
Proof. destruct v; [contradiction|]. exact (fun H => H). Qed.

Lemma drop_while_clean v : starts_clean v -> drop_while is_sp_tab v = v.
Proof. destruct v as [|x r]; [contradiction|]. cbn. now intros ->. Qed.

Lemma trim_clean v : starts_clean v -> starts_clean (rev v) -> trim_sp_tab v = v.
Proof.
  intros H1 H2. unfold trim_sp_tab, trim, trim_left, trim_right.
  rewrite (drop_while_clean _ H1), (drop_while_clean _ H2). apply rev_involutive.
Qed.

Lemma drop_while_ws ws t : forallb is_sp_tab ws = true -> drop_while is_sp_tab (ws ++ t) = drop_while is_sp_tab t.
Proof.
  induction ws as [|x r IH]; [reflexivity|]. cbn [forallb app drop_while].
  intros H. apply andb_true_iff in H as [-> H]. now apply IH.
Qed.

Lemma piece_no_lf v : forallb valid_value_byte v = true -> mem_byte LF v = false.
Proof. intros H. eapply forallb_not_mem; [exact H|reflexivity]. Qed.

Lemma tchar_no (c : byte) v : is_tchar c = false -> forallb is_tchar v = true -> mem_byte c v = false.
Proof. intros Hc Hv. eapply forallb_not_mem; eauto. Qed.

Lemma tchar_valid_value c : is_tchar c = true -> valid_value_byte c = true.
Proof. destruct c; vm_compute; intros H; try discriminate; reflexivity. Qed.

Lemma tchar_not_sp_tab c : is_tchar c = true -> is_sp_tab c = false.
Proof. destruct c; vm_compute; intros H; try discriminate; reflexivity. Qed.

(* one LF-terminated line is read whatever the buffer size *)
Lemma read_line_crlf bs l t :
  mem_byte LF l = false -> read_line bs (l ++ CRLF ++ t) = Some (l, t).
Proof.
  intros Hl. replace (l ++ CRLF ++ t) with ((l ++ [CR]) ++ LF :: t) by (now rewrite <- app_assoc).
  rewrite (read_line_lf bs _ (l ++ [CR]) t).
  - now rewrite strip_cr_app_cr.
  - apply cut_byte_app_hit. rewrite mem_byte_app, Hl. reflexivity.
Qed.

(* ---------- continuation lines ---------- *)

Definition next_not_blank (t : bytes) : Prop :=
  match t with x :: _ => is_sp_tab x = false | [] => True end.

Lemma cont_lines_render bs : forall conts fuel buf t,
  Forall cont_ok conts -> next_not_blank t -> length conts < fuel ->
  cont_lines fuel bs buf (flat_map render_cont conts ++ t) =
    FOk (buf ++ flat_map (fun c => SP :: snd c) conts, t).
Proof.
  induction conts as [|[ws v] conts IH]; intros fuel buf t Hok Ht Hf.
  - destruct fuel as [|f]; [cbn in Hf; lia|]. cbn [flat_map app cont_lines]. rewrite app_nil_r.
    destruct t as [|x t']; [reflexivity|]. cbn in Ht. now rewrite Ht.
  - destruct fuel as [|f]; [cbn in Hf; lia|].
    inversion Hok as [|? ? (Hne & Hws & Hv & Hh & Hl) Hrest]; subst. cbn [fst snd] in *.
    cbn [flat_map]. unfold render_cont at 1. cbn [fst snd]. rewrite <- !app_assoc.
    destruct ws as [|w ws']; [contradiction|].
    cbn [app cont_lines]. cbn [forallb] in Hws. apply andb_true_iff in Hws as [Hw Hws].
    rewrite Hw. change (w :: ws' ++ v ++ CRLF ++ flat_map render_cont conts ++ t)
      with ((w :: ws') ++ v ++ CRLF ++ flat_map render_cont conts ++ t).
    rewrite drop_while_ws by (cbn [forallb]; now rewrite Hw, Hws).
    rewrite drop_while_clean by (now apply starts_clean_app).
    rewrite read_line_crlf by (now apply piece_no_lf).
    rewrite (trim_clean v Hh Hl).
    rewrite (IH f (buf ++ SP :: v) t Hrest Ht) by (cbn in Hf; lia).
    rewrite <- app_assoc. reflexivity.
Qed.

Lemma flat_map_render_cont_length conts : length conts <= length (flat_map render_cont conts).
Proof.
  induction conts as [|[ws v] r IH]; [cbn; lia|].
  cbn [flat_map length]. unfold render_cont at 1. rewrite !app_length. cbn. lia.
Qed.

(* ---------- one field, then the block ---------- *)

Lemma conts_valid conts : Forall cont_ok conts ->
  forallb valid_value_byte (flat_map (fun c => SP :: snd c) conts) = true.
Proof.
  induction 1 as [|[ws v] r (_ & _ & Hv & _) _ IH]; [reflexivity|].
  cbn [snd] in Hv. cbn [flat_map app forallb snd]. rewrite forallb_app, Hv, IH. reflexivity.
Qed.

Lemma mime_loop_field bs f : forall fuel m t,
  field_ok f -> next_not_blank t ->
  mime_loop (S fuel) bs m (render_field f ++ t) =
    mime_loop fuel bs (hadd (canon_go true (hf_name f)) (field_value f) m) t.
Proof.
  intros fuel m t (Hne & Htok & (Hv & Hh & Hl) & Hconts) Ht.
  destruct f as [name v0 conts]. cbn [hf_name hf_first hf_conts] in *.
  unfold render_field, field_value. cbn [hf_name hf_first hf_conts].
  set (line := name ++ COLON :: SP :: v0).
  replace ((name ++ COLON :: SP :: v0 ++ CRLF ++ flat_map render_cont conts) ++ t)
    with (line ++ CRLF ++ flat_map render_cont conts ++ t).
  2:{ unfold line. rewrite <- !app_assoc. cbn [app]. rewrite <- !app_assoc. reflexivity. }
  assert (Hlf : mem_byte LF line = false).
  { unfold line. rewrite mem_byte_app, (tchar_no LF name eq_refl Htok).
    rewrite !mem_byte_cons. now rewrite (piece_no_lf _ Hv). }
  cbn [mime_loop]. rewrite read_line_crlf by assumption.
  assert (Hnn : is_nil line = false) by (unfold line; destruct name; [contradiction|reflexivity]).
  rewrite Hnn.
  assert (Hcol : mem_byte COLON line = true).
  { unfold line. rewrite mem_byte_app, mem_byte_cons, beqb_refl. now rewrite orb_true_r. }
  rewrite Hcol. cbn [negb].
  assert (Htrim : trim_sp_tab line = line).
  { apply trim_clean.
    - unfold line. destruct name as [|x name']; [contradiction|]. cbn.
      cbn [forallb] in Htok. apply andb_true_iff in Htok as [Hx _]. now apply tchar_not_sp_tab.
    - unfold line. rewrite rev_app_distr. cbn [rev]. rewrite <- !app_assoc.
      now apply starts_clean_app. }
  rewrite Htrim.
  rewrite (cont_lines_render bs conts _ line t Hconts Ht).
  2:{ rewrite app_length. pose proof (flat_map_render_cont_length conts). lia. }
  unfold line at 1. rewrite <- app_assoc. cbn [app].
  rewrite cut_byte_app_hit by (now apply (tchar_no COLON name eq_refl)).
  assert (Hck : canonical_key name = Some (canon_go true name)).
  { unfold canonical_key. destruct name; [contradiction|]. cbn [is_nil]. now rewrite Htok. }
  rewrite Hck.
  assert (Hvalid : forallb valid_value_byte (SP :: v0 ++ flat_map (fun c => SP :: snd c) conts) = true).
  { cbn [forallb]. rewrite forallb_app, Hv, (conts_valid _ Hconts). reflexivity. }
  rewrite Hvalid. unfold trim_left. cbn [drop_while]. change (is_sp_tab SP) with true. cbn iota.
  rewrite drop_while_clean by (now apply starts_clean_app). reflexivity.
Qed.

Lemma render_field_first f : field_ok f ->
  exists x r, render_field f = x :: r /\ is_sp_tab x = false.
Proof.
  intros (Hne & Htok & _). unfold render_field. destruct (hf_name f) as [|x r]; [contradiction|].
  cbn [forallb] in Htok. apply andb_true_iff in Htok as [Hx _].
  eexists _, _. split; [reflexivity|]. now apply tchar_not_sp_tab.
Qed.

Lemma mime_loop_fields bs : forall fs fuel m rest,
  Forall field_ok fs -> length fs < fuel ->
  mime_loop fuel bs m (render_fields fs ++ CRLF ++ rest) =
    inr (fold_left (fun m f => hadd (canon_go true (hf_name f)) (field_value f) m) fs m, rest).
Proof.
  induction fs as [|f fs IH]; intros fuel m rest Hok Hf.
  - destruct fuel as [|fuel]; [cbn in Hf; lia|]. cbn [render_fields flat_map app fold_left mime_loop].
    change (CRLF ++ rest) with ([] ++ CRLF ++ rest). rewrite (read_line_crlf bs [] rest) by reflexivity.
    reflexivity.
  - destruct fuel as [|fuel]; [cbn in Hf; lia|]. inversion Hok as [|? ? Hf0 Hrest]; subst.
    cbn [render_fields flat_map]. fold (render_fields fs). rewrite <- app_assoc.
    rewrite mime_loop_field; [|assumption|].
    + cbn [fold_left]. apply IH; [assumption|cbn in Hf; lia].
    + destruct fs as [|g gs]; [cbn; reflexivity|].
      inversion Hrest; subst. cbn [render_fields flat_map]. rewrite <- app_assoc.
      destruct (render_field_first g H1) as (x & r & -> & Hx). exact Hx.
Qed.

Lemma render_fields_length fs : length fs <= length (render_fields fs).
Proof.
  induction fs as [|f r IH]; [cbn; lia|]. cbn [render_fields flat_map length]. fold (render_fields r).
  rewrite app_length. unfold render_field. rewrite app_length. cbn [length]. lia.
Qed.

(* Header round trip: EVERY well-formed header block - token names in any letter case, values
   made of field-value bytes, optionally folded over continuation lines introduced by any
   non-empty run of SP/HT - followed by the blank line, is read back as exactly the sent
   fields: canonical name -> values in order, folded pieces joined by one SP, and the reader
   stops right after the blank line (for every read-buffer size). *)
Theorem mime_header_round_trip bs fs rest :
  Forall field_ok fs ->
  read_mime_header bs (render_fields fs ++ CRLF ++ rest) = inr (header_of_fields fs, rest).
Proof.
  intros Hok. unfold read_mime_header, header_of_fields.
  assert (Hlen : length fs < S (length (render_fields fs ++ CRLF ++ rest))).
  { rewrite app_length. pose proof (render_fields_length fs). lia. }
  destruct (render_fields fs ++ CRLF ++ rest) as [|x s'] eqn:E.
  - destruct fs as [|f fs']; cbn in E; [discriminate|]. inversion Hok; subst.
    destruct (render_field_first f H1) as (y & r & Er & _). rewrite Er in E. discriminate.
  - assert (Hx : is_sp_tab x = false).
    { destruct fs as [|f fs'].
      - cbn in E. inversion E. reflexivity.
      - inversion Hok; subst. destruct (render_field_first f H1) as (y & r & Er & Hy).
        cbn [render_fields flat_map] in E. rewrite <- app_assoc, Er in E.
        cbn in E. inversion E; subst. exact Hy. }
    rewrite Hx, <- E. apply mime_loop_fields; [assumption|]. rewrite E. exact Hlen.
Qed.

(* ====================================================================== *)
(* what an ACCEPTED header map looks like                                 *)
(* ====================================================================== *)

Definition value_clean (v : bytes) : Prop :=
  forallb valid_value_byte v = true /\
  match v with x :: _ => is_sp_tab x = false | [] => True end.
Definition entry_ok (kv : bytes * list bytes) : Prop :=
  canonical_key (fst kv) = Some (fst kv) /\ snd kv <> [] /\ Forall value_clean (snd kv).
(* every key is a fixed point of canonicalMIMEHeaderKey (non-empty, token bytes or spaces,
   canonical letter case when it is a token) and occurs once; every key has at least one value;
   every value holds only field-value bytes and does not start with a blank *)
Definition hmap_ok (m : hmap) : Prop := Forall entry_ok m /\ NoDup (map fst m).

Lemma drop_while_forallb (p f : byte -> bool) s : forallb p s = true -> forallb p (drop_while f s) = true.
Proof.
  induction s as [|x r IH]; [reflexivity|]. cbn [forallb drop_while]. intros H.
  apply andb_true_iff in H as [Hx Hr]. destruct (f x); [now apply IH|]. cbn [forallb]. now rewrite Hx, Hr.
Qed.

Lemma drop_while_head f s : match drop_while f s with x :: _ => f x = false | [] => True end.
Proof. induction s as [|x r IH]; [exact I|]. cbn [drop_while]. destruct (f x) eqn:E; [exact IH|exact E]. Qed.

Lemma value_clean_trim v : forallb valid_value_byte v = true -> value_clean (trim_left is_sp_tab v).
Proof. intros H. split; [now apply drop_while_forallb|apply drop_while_head]. Qed.

Lemma hadd_fst_in k v m x : In x (map fst (hadd k v m)) -> x = k \/ In x (map fst m).
Proof.
  induction m as [|[k' vs] r IH]; cbn [hadd map fst In].
  - intros [H|[]]; auto.
  - destruct (bytes_eqb k k'); cbn [map fst In]; intros [H|H]; auto. destruct (IH H); auto.
Qed.

Lemma hadd_ok k v m :
  canonical_key k = Some k -> value_clean v -> hmap_ok m -> hmap_ok (hadd k v m).
Proof.
  intros Hk Hv [Hm Hn]. split.
  - induction m as [|[k' vs] r IH]; cbn [hadd].
    + constructor; [|constructor]. repeat split; cbn [fst snd]; auto. discriminate.
    + inversion Hm as [|? ? (E1 & E2 & E3) Hr]; subst. inversion Hn; subst. cbn [fst snd] in *.
      destruct (bytes_eqb k k') eqn:E.
      * constructor; [|assumption]. repeat split; cbn [fst snd]; auto.
        -- destruct vs; discriminate.
        -- apply Forall_app. split; [assumption|]. constructor; [assumption|constructor].
      * constructor; [repeat split; assumption|]. apply IH; assumption.
  - clear Hm. induction m as [|[k' vs] r IH]; cbn [hadd map fst].
    + constructor; [intros []|constructor].
    + inversion Hn as [|? ? Hnot Hr]; subst. destruct (bytes_eqb k k') eqn:E; cbn [map fst].
      * constructor; assumption.
      * constructor; [|now apply IH]. intros Hin. apply hadd_fst_in in Hin as [->|Hin].
        -- rewrite bytes_eqb_refl in E. discriminate.
        -- contradiction.
Qed.

Lemma mime_loop_ok bs : forall fuel m s m' r,
  hmap_ok m -> mime_loop fuel bs m s = inr (m', r) -> hmap_ok m'.
Proof.
  induction fuel as [|f IH]; intros m s m' r Hm H; [discriminate|].
  cbn [mime_loop] in H. destruct (read_line bs s) as [[line r0]|]; [|discriminate].
  destruct (is_nil line); [inversion H; subst; assumption|].
  destruct (negb (mem_byte COLON line)); [discriminate|].
  destruct (cont_lines _ _ _ _) as [[kv r1]|]; [|discriminate].
  destruct (cut_byte COLON kv) as [[k v]|]; [|discriminate].
  destruct (canonical_key k) as [key|] eqn:Ek; [|discriminate].
  destruct (forallb valid_value_byte v) eqn:Ev; [|discriminate].
  eapply IH; [|exact H]. apply hadd_ok; [eapply canonical_key_idempotent; eauto|now apply value_clean_trim|assumption].
Qed.

Theorem mime_header_accepted_ok bs s m r : read_mime_header bs s = inr (m, r) -> hmap_ok m.
Proof.
  unfold read_mime_header. assert (H0 : hmap_ok []) by (split; constructor).
  destruct s as [|x s'].
  - now apply mime_loop_ok.
  - destruct (is_sp_tab x).
    + destruct (read_line bs (x :: s')); [discriminate|]. destruct (_ <=? 80); discriminate.
    + now apply mime_loop_ok.
Qed.

(* a header line with a byte outside the field-value alphabet (CTLs other than HT, DEL) in
   its value, an empty name, a name with a non-token byte other than SP, or no colon at all
   is never accepted: the only way to get an entry into the map is through all four tests *)
Theorem mime_loop_step_rejects bs fuel m s line r :
  read_line bs s = Some (line, r) -> line <> [] ->
  mem_byte COLON line = false -> mime_loop (S fuel) bs m s = inl HMalformedHeader.
Proof.
  intros Hr Hne Hc. cbn [mime_loop]. rewrite Hr. destruct line; [contradiction|]. cbn [is_nil].
  now rewrite Hc.
Qed.

(* the first header line must not start with a blank: never accepted *)
Theorem leading_blank_rejected bs x s :
  is_sp_tab x = true ->
  read_mime_header bs (x :: s) = inl HMalformedHeader \/ read_mime_header bs (x :: s) = inl HUnexpectedEOF.
Proof.
  intros Hx. unfold read_mime_header. rewrite Hx.
  destruct (read_line bs (x :: s)); [now left|]. destruct (_ <=? 80); [now right|now left].
Qed.

(* ====================================================================== *)
(* trailers                                                               *)
(* ====================================================================== *)

Lemma index_sub_from_prefix n p s : has_prefix p s = true -> index_sub_from n p s = Some n.
Proof. intros H. destruct s; cbn [index_sub_from]; now rewrite H. Qed.

Lemma contains_sub_mid p a b : contains_sub p (a ++ p ++ b) = true.
Proof.
  unfold contains_sub, index_sub. generalize 0 as n.
  induction a as [|x a IH]; intros n.
  - cbn [app]. now rewrite index_sub_from_prefix by apply has_prefix_refl_app.
  - change ((x :: a) ++ p ++ b) with (x :: (a ++ p ++ b)). cbn [index_sub_from].
    destruct (has_prefix p (x :: a ++ p ++ b)); [reflexivity|]. apply IH.
Qed.

Lemma render_field_ends_crlf f : exists pre, render_field f = pre ++ CRLF.
Proof.
  unfold render_field. destruct (hf_conts f) as [|c cs] eqn:E.
  - cbn [flat_map]. rewrite app_nil_r. exists (hf_name f ++ COLON :: SP :: hf_first f).
    rewrite <- app_assoc. reflexivity.
  - assert (Hne : c :: cs <> []) by discriminate.
    destruct (exists_last Hne) as (l & x & ->).
    rewrite flat_map_app. cbn [flat_map]. rewrite app_nil_r. unfold render_cont at 2.
    exists (hf_name f ++ COLON :: SP :: hf_first f ++ CRLF ++ flat_map render_cont l ++ fst x ++ snd x).
    rewrite <- !app_assoc. cbn [app]. rewrite <- !app_assoc. reflexivity.
Qed.

(* body.readTrailer: a non-empty well-formed trailer block (foldable fields, any case) whose
   terminating blank line lies within the read buffer is read back as sent and the message ends
   right after the blank line; with declared trailers it is merged key by key *)
Theorem trailer_round_trip bufsize ts rest :
  ts <> [] -> Forall field_ok ts ->
  length (render_fields ts ++ CRLF) <= bufsize ->
  read_trailer bufsize (render_fields ts ++ CRLF ++ rest) = inr (header_of_fields ts, rest).
Proof.
  intros Hne Hok Hlen.
  destruct (exists_last Hne) as (init & f & ->).
  assert (Hf : field_ok f) by (apply Forall_app in Hok as [_ Hl]; now inversion Hl).
  destruct (render_field_ends_crlf f) as (pre & Hpre).
  assert (Hdc : see_upcoming_double_crlf bufsize (render_fields (init ++ [f]) ++ CRLF ++ rest) = true).
  { unfold see_upcoming_double_crlf.
    replace (render_fields (init ++ [f]) ++ CRLF ++ rest) with ((render_fields (init ++ [f]) ++ CRLF) ++ rest)
      by now rewrite <- app_assoc.
    rewrite firstn_app. rewrite firstn_all2 by assumption.
    apply contains_sub_app.
    unfold render_fields. rewrite flat_map_app. cbn [flat_map]. rewrite app_nil_r, Hpre.
    rewrite <- !app_assoc. change (CRLF ++ CRLF) with (double_crlf ++ []).
    rewrite (app_assoc (flat_map render_field init) pre). apply contains_sub_mid. }
  assert (Hfirst : exists x y r, render_fields (init ++ [f]) ++ CRLF ++ rest = x :: y :: r /\ is_sp_tab x = false /\ beqb x CR = false).
  { assert (Hg : exists g gs, init ++ [f] = g :: gs /\ field_ok g).
    { destruct init as [|g gs].
      - exists f, []. auto.
      - exists g, (gs ++ [f]). split; [reflexivity|]. now inversion Hok. }
    destruct Hg as (g & gs & Eg & (Hgn & Hgt & _)). rewrite Eg.
    cbn [render_fields flat_map]. unfold render_field at 1.
    destruct (hf_name g) as [|x nm]; [contradiction|]. cbn [forallb] in Hgt. apply andb_true_iff in Hgt as [Hx _].
    rewrite <- !app_assoc. cbn [app].
    match goal with |- exists _ _ _, x :: ?t = _ /\ _ => remember t as tl eqn:Et end.
    destruct tl as [|y r]; [destruct nm; discriminate|].
    exists x, y, r. split; [reflexivity|]. split; [now apply tchar_not_sp_tab|].
    revert Hx. clear. destruct x; vm_compute; intros H; try discriminate; reflexivity. }
  destruct Hfirst as (x & y & r & E & _ & Hx).
  unfold read_trailer. rewrite E. rewrite Hx. cbn [andb]. rewrite <- E, Hdc. cbn [negb].
  now rewrite mime_header_round_trip.
Qed.
