(* Proofs/Base64Proofs.v - C20: base64 round trip, Basic / Bearer recovery *)
From ReqV Require Import Lib.Bytes Lib.BytesFacts Model.Base64.
From Coq Require Import Lia ZifyBool ZifyNat ZifyN.
Ltac Zify.zify_post_hook ::= Z.div_mod_to_equations.

Lemma list_ind3 {A} (P : list A -> Prop) :
  P [] -> (forall a, P [a]) -> (forall a b, P [a; b]) ->
  (forall a b c r, P r -> P (a :: b :: c :: r)) -> forall l, P l.
Proof.
  intros H0 H1 H2 H3. fix IH 1.
  destruct l as [|a [|b [|c r]]].
  - exact H0.
  - apply H1.
  - apply H2.
  - apply H3. apply IH.
Qed.

Lemma bN_bound a : (bN a < 256)%N.
Proof. unfold bN. pose proof (Byte.to_N_bounded a). lia. Qed.

Lemma byte_of_bN a : byte_of_N_total (bN a) = a.
Proof. unfold byte_of_N_total, bN. now rewrite Byte.of_to_N. Qed.

Definition sextets : list N := map N.of_nat (seq 0 64).

Lemma sextets_all n : (n < 64)%N -> In n sextets.
Proof.
  intros H. unfold sextets. apply in_map_iff. exists (N.to_nat n). split; [lia|].
  apply in_seq. lia.
Qed.

Lemma b64_val_char n : (n < 64)%N -> b64_val (b64_char n) = Some n.
Proof.
  intros H.
  assert (A : forallb (fun n => match b64_val (b64_char n) with
                                | Some m => N.eqb m n | None => false end) sextets = true)
    by (vm_compute; reflexivity).
  rewrite forallb_forall in A. specialize (A n (sextets_all n H)).
  destruct (b64_val (b64_char n)); [|discriminate]. apply N.eqb_eq in A. now subst.
Qed.

Lemma b64_char_not_pad n : (n < 64)%N -> beqb (b64_char n) pad = false.
Proof.
  intros H.
  assert (A : forallb (fun n => negb (beqb (b64_char n) pad)) sextets = true)
    by (vm_compute; reflexivity).
  rewrite forallb_forall in A. specialize (A n (sextets_all n H)).
  now apply negb_true_iff in A.
Qed.

(* every character the encoder emits is in the alphabet or is the pad *)
Lemma b64_val_some_iff c : (exists n, b64_val c = Some n /\ (n < 64)%N) <-> In c b64_alphabet.
Proof.
  split.
  - intros [n [H _]]. destruct c; vm_compute in H; try discriminate; vm_compute; tauto.
  - intros H. vm_compute in H.
    repeat (destruct H as [H|H]; [subst c; eexists; split; [vm_compute; reflexivity|reflexivity]|]).
    contradiction.
Qed.

Theorem base64_roundtrip : forall s, b64_decode (b64_encode s) = Some s.
Proof.
  induction s as [|a|a b|a b c r IH] using list_ind3.
  - reflexivity.
  - cbn [b64_encode b64_decode].
    pose proof (bN_bound a) as Ha. set (x := bN a) in *.
    rewrite !b64_val_char by lia. rewrite !beqb_refl.
    replace (x / 4 * 4 + x mod 4 * 16 / 16)%N with x by lia.
    unfold x. now rewrite byte_of_bN.
  - cbn [b64_encode b64_decode].
    pose proof (bN_bound a) as Ha. pose proof (bN_bound b) as Hb.
    set (x := bN a) in *. set (y := bN b) in *.
    rewrite !b64_val_char by lia. rewrite beqb_refl.
    rewrite (b64_char_not_pad (y mod 16 * 4)) by lia.
    replace (x / 4 * 4 + (x mod 4 * 16 + y / 16) / 16)%N with x by lia.
    replace ((x mod 4 * 16 + y / 16) mod 16 * 16 + y mod 16 * 4 / 4)%N with y by lia.
    unfold x, y. now rewrite !byte_of_bN.
  - cbn [b64_encode b64_decode].
    pose proof (bN_bound a) as Ha. pose proof (bN_bound b) as Hb. pose proof (bN_bound c) as Hc.
    set (x := bN a) in *. set (y := bN b) in *. set (z := bN c) in *.
    rewrite !b64_val_char by lia.
    rewrite (b64_char_not_pad (z mod 64)) by lia.
    rewrite IH.
    replace (x / 4 * 4 + (x mod 4 * 16 + y / 16) / 16)%N with x by lia.
    replace ((x mod 4 * 16 + y / 16) mod 16 * 16 + (y mod 16 * 4 + z / 64) / 4)%N with y by lia.
    replace ((y mod 16 * 4 + z / 64) mod 4 * 64 + z mod 64)%N with z by lia.
    unfold x, y, z. now rewrite !byte_of_bN.
Qed.

(* output length: 4 * ceil(n / 3), always a multiple of four (padding present) *)
Lemma b64_encode_length s : length (b64_encode s) = 4 * ((length s + 2) / 3).
Proof.
  induction s as [|a|a b|a b c r IH] using list_ind3; try reflexivity.
  cbn [b64_encode length]. rewrite IH.
  replace (S (S (S (length r))) + 2) with (1 * 3 + (length r + 2)) by lia.
  rewrite Nat.div_add_l by lia. lia.
Qed.

(* ---------- Basic ---------- *)

Lemma parse_basic_header user pass :
  parse_basic (basic_header user pass) = cut_colon (basic_credential user pass).
Proof.
  unfold parse_basic, basic_header.
  change 6 with (length (bs "Basic ")).
  rewrite firstn_app_exact, skipn_app_exact.
  replace (bytes_eqb (to_lower (bs "Basic ")) (bs "basic ")) with true by (vm_compute; reflexivity).
  now rewrite base64_roundtrip.
Qed.

Lemma index_byte_prefix_clean c s i :
  index_byte c s = Some i -> mem_byte c (firstn i s) = false.
Proof.
  revert i. induction s as [|x s IH]; intros i H; simpl in H; [discriminate|].
  destruct (beqb x c) eqn:E.
  - injection H as <-. reflexivity.
  - destruct (index_byte c s) as [j|] eqn:Ej; [|discriminate]. injection H as <-.
    cbn [firstn]. rewrite mem_byte_cons, beqb_sym, E. cbn [orb]. now apply IH.
Qed.

Lemma cut_colon_no_colon user pass :
  mem_byte colon_b user = false ->
  cut_colon (basic_credential user pass) = Some (user, pass).
Proof.
  intros H. unfold cut_colon, basic_credential.
  rewrite index_byte_app_hit by assumption.
  rewrite firstn_app_exact.
  replace (S (length user)) with (length (user ++ [colon_b])) by (rewrite app_length; simpl; lia).
  replace (user ++ colon_b :: pass) with ((user ++ [colon_b]) ++ pass)
    by (rewrite <- app_assoc; reflexivity).
  now rewrite skipn_app_exact.
Qed.

Lemma cut_colon_first_clean s a b : cut_colon s = Some (a, b) -> mem_byte colon_b a = false.
Proof.
  unfold cut_colon. destruct (index_byte colon_b s) as [i|] eqn:E; [|discriminate].
  intros H. injection H as <- _. now apply index_byte_prefix_clean.
Qed.

(* the transmitted credential decodes to user ":" pass for ALL strings; the server's split at
   the first colon returns (user, pass) iff user has no colon (RFC 7617 section 2: "a user-id
   containing a colon character is invalid") *)
Theorem basic_decodes user pass :
  b64_decode (skipn 6 (basic_header user pass)) = Some (user ++ colon_b :: pass).
Proof.
  unfold basic_header. change 6 with (length (bs "Basic ")).
  rewrite skipn_app_exact. apply base64_roundtrip.
Qed.

Theorem basic_recovers user pass :
  parse_basic (basic_header user pass) = Some (user, pass) <-> mem_byte colon_b user = false.
Proof.
  rewrite parse_basic_header. split.
  - intros H. now apply cut_colon_first_clean in H.
  - apply cut_colon_no_colon.
Qed.

(* whatever the user name, the password part is never lost: the server sees the text before
   the first colon as user and everything after it as password *)
Theorem basic_recovers_split user1 rest pass :
  mem_byte colon_b user1 = false ->
  parse_basic (basic_header (user1 ++ colon_b :: rest) pass) = Some (user1, rest ++ colon_b :: pass).
Proof.
  intros H. rewrite parse_basic_header. unfold basic_credential.
  rewrite <- app_assoc. cbn [app].
  apply (cut_colon_no_colon user1 (rest ++ colon_b :: pass) H).
Qed.

Theorem bearer_exact token : parse_bearer (bearer_header token) = Some token.
Proof.
  unfold parse_bearer, bearer_header. rewrite has_prefix_refl_app.
  change 7 with (length (bs "Bearer ")). now rewrite skipn_app_exact.
Qed.
