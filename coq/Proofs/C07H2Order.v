(* Proofs/C07H2Order.v - while a header block is open the HTTP/2 frame reader lets nothing but its
   CONTINUATION through (C07; Model/H2Frame.v of C05: checkFrameOrder, ReadFrame) *)
From ReqV Require Import Lib.Bytes Model.H2Frame.
From Coq Require Import Lia ZifyBool ZifyN.
Open Scope N_scope.

(* lastHeaderStream <> 0: every frame of every other type (PRIORITY included), and a CONTINUATION of
   another stream, is a connection error *)
Theorem open_block_only_continuation last h :
  last <> 0 -> (fh_type h <> FrameContinuation \/ fh_sid h <> last) -> check_order last h = None.
Proof.
  intros Hl Hc. unfold check_order.
  destruct (N.eqb_spec last 0); [contradiction|]. cbn [negb].
  destruct (N.eqb_spec (fh_type h) FrameContinuation), (N.eqb_spec (fh_sid h) last); cbn; try reflexivity.
  destruct Hc; contradiction.
Qed.

(* ... so a frame ReadFrame hands out while a block is open IS a CONTINUATION frame of that stream:
   what readMetaFrame's unchecked type assertion relies on *)
Theorem open_block_accepts_continuation last h l :
  last <> 0 -> check_order last h = Some l -> fh_type h = FrameContinuation /\ fh_sid h = last.
Proof.
  intros Hl H.
  destruct (N.eq_dec (fh_type h) FrameContinuation) as [E1|E1], (N.eq_dec (fh_sid h) last) as [E2|E2]; auto;
    rewrite open_block_only_continuation in H; auto; discriminate.
Qed.
